(* A worked example for notes/TIE_AGENT_BRIEF.md: the proof engineering for SFor and STry on two small programs
   (the text of the programs is what the translator emits for the collation loop of ensemble_sift and for
   logger.wrap_verbose.inner_verbose). Not part of the build; check it with
     cd /verif/coq && timeout 300 coqc -q -Q . EmdV -o /tmp/TIE_EXAMPLE.vo ../notes/TIE_EXAMPLE.v
   (lib/PyLoop.vo and lib/PyLoopTools.vo must exist). A real tie has these parts in five files:
   gen/Gen_Skel_<Name>.v (generated: params_F, prog_F), model/SkelPrims_<Name>.v (table, env0, render),
   proofs/SkelFacts_<Name>.v (the proofs), props/Prop_Tie_<Name>.v (statements + exact + Print Assumptions). *)
From Coq Require Import String List Bool Arith Lia.
From EmdV Require Import lib.PyLoop lib.PyLoopTools.
Import ListNotations.
Open Scope string_scope.

(* ============================================================================================== *)
(* 1. a for loop: `imfs = np.zeros(..); for ii in range(max_imfs): imfs[:, ii] = <mean>; return imfs` *)
(* ============================================================================================== *)
(* -- what gen/Gen_Skel_<Name>.v would contain (mode 'for:0') -- *)
Definition params_collate : list string := ["X"; "max_imfs"; "res"].
Definition prog_collate : stmt :=
  (SSeq
    (SAssign "imfs" (ECall "np.zeros" [EList [EIndex (ECall "X.shape" [EVar "X"] []) (ENat 0); EVar "max_imfs"]] []))
    (SSeq
      (SFor "ii" (ECall "range" [EVar "max_imfs"] [])
         (SAssign "imfs" (ECall "imfs[:, ii] =" [EVar "imfs"; EVar "ii"; ECall "np.array([r[:, ii] for r in res]).mean(axis=0)" [EVar "ii"; EVar "res"] []] [])))
      (SReturn (EVar "imfs")))).

(* -- what model/SkelPrims_<Name>.v would contain: the mapping table, the initial environment, the rendering -- *)
Definition set_nth {A : Type} (i : nat) (v : A) (l : list A) : list A := (firstn i l ++ v :: skipn (S i) l)%list.

Section CollatePrims.
  Variable V : Type.
  Variable avg : nat -> V.                    (* the oracle: the ensemble mean of column ii *)

  Definition collate_table : list (string * handler V) :=
    [ ("X.shape", fun args kw => match args, kw with
                                 | [VSig x], [] => Ok (VList [VOpaque "nsamples" []; VNat 1])
                                 | _, _ => Bad
                                 end);
      ("np.zeros", fun args kw => match args, kw with
                                  | [VList [n; VNat k]], [] =>
                                      if is_opaque0 n "nsamples" then Ok (VOpaque "matrix" (repeat VNone k)) else Bad
                                  | _, _ => Bad
                                  end);
      ("range", range_handler);
      ("np.array([r[:, ii] for r in res]).mean(axis=0)",
        fun args kw => match args, kw with
                       | [VNat i; r], [] => if is_opaque0 r "res" then Ok (VSig (avg i)) else Bad
                       | _, _ => Bad
                       end);
      (* N11: the store primitive returns the NEW value of the base variable *)
      ("imfs[:, ii] =",
        fun args kw => match args, kw with
                       | [VOpaque t l; VNat i; VSig v], [] =>
                           if String.eqb t "matrix" then
                             if (i <? length l)%nat then Ok (VOpaque "matrix" (set_nth i (VSig v) l))
                             else Exc "IndexError"
                           else Bad
                       | _, _ => Bad
                       end) ].
  Definition collate_prims : prims V := prims_of collate_table.

  Definition collate_names : list string := Eval cbv in assigned prog_collate params_collate.
  Definition collate_env0 (X : V) (k : nat) : env V :=
    frame params_collate collate_names [VSig X; VNat k; VOpaque "res" []].

  (* the model: the k column means *)
  Definition collate_model (k : nat) : list V := map avg (seq 0 k).
  Definition collate_render (cols : list V) : outcome V := Return (VOpaque "matrix" (map VSig cols)).
End CollatePrims.

(* -- what proofs/SkelFacts_<Name>.v would contain -- *)
Section CollateTie.
  Variable V : Type.
  Variable avg : nat -> V.
  Variable X : V.
  Variable k : nat.
  Local Notation P := (collate_prims V avg).

  (* the three top-level statements: [pre; SFor ..; post]; pick them by position in the spine *)
  (* [Eval cbv in]: these must be CLOSED statement terms - the evaluator below unfolds [exec] and a stuck
     [nth ..] / [firstn ..] in statement position makes cbv normalise the whole body of the interpreter *)
  Definition collate_pre : list stmt := Eval cbv in firstn 1 (spine prog_collate).
  Definition collate_for : stmt := Eval cbv in nth 1 (spine prog_collate) SSkip.
  Definition collate_post : list stmt := Eval cbv in skipn 2 (spine prog_collate).
  Definition collate_body : stmt := match collate_for with SFor _ _ b => b | _ => SSkip end.

  (* the evaluator: cbv with an explicit delta whitelist - the interpreter, the table, the environment
     helpers, string comparison; NEVER List.map / app / length / Nat operations on symbolic arguments *)
  Ltac ev :=
    cbv beta iota zeta delta
        [exec final_env eval eval_truth bind map_res truthy do_cmp do_arith do_index nat_cmp nat_arith iter_list
         upd lookup env_of assign_all cmp_name ar_name frame overlay normal_env
         try_finish try_finish_env exn_matches
         collate_prims prims_of table_lookup collate_table keys_are is_opaque0 range_handler range_val
         collate_names collate_env0 params_collate collate_pre collate_for collate_post collate_body exec_list
         String.eqb Ascii.eqb Bool.eqb fst snd nth_error andb negb orb].
  Ltac ev1 := ev; repeat (progress (cbn [Nat.eqb]; oracle_rw); ev).

  (* the matrix after d iterations: d computed columns, then the zero columns *)
  Definition cols_at (d : nat) : list (val V) := (map VSig (map avg (seq 0 d)) ++ repeat VNone (k - d))%list.

  Lemma cols_at_length : forall d, (d <= k)%nat -> length (cols_at d) = k.
  Proof. intros d H. unfold cols_at. rewrite app_length, !map_length, seq_length, repeat_length. lia. Qed.

  Lemma set_nth_cols : forall d, (d < k)%nat -> set_nth d (VSig (avg d)) (cols_at d) = cols_at (S d).
  Proof.
    intros d H. unfold set_nth, cols_at.
    assert (Hl : length (map (@VSig V) (map avg (seq 0 d))) = d) by (rewrite !map_length; apply seq_length).
    rewrite firstn_app, Hl, Nat.sub_diag, firstn_O, app_nil_r, firstn_all2 by lia.
    rewrite skipn_app, Hl, (skipn_all2 (n := S d)) by lia. cbn [app].
    replace (S d - d)%nat with 1%nat by lia.
    replace (k - d)%nat with (S (k - S d)) by lia. cbn [repeat skipn].
    rewrite seq_snoc, !map_app, <- app_assoc. reflexivity.
  Qed.

  (* the loop invariant = the environment between iterations, over the FIXED name order *)
  Definition collate_head (d : nat) (junk : string -> option (val V)) : env V :=
    env_of collate_names
      (overlay [ ("X", VSig X); ("max_imfs", VNat k); ("res", VOpaque "res" []);
                 ("imfs", VOpaque "matrix" (cols_at d)) ] junk).

  (* one iteration, ii = d *)
  Lemma collate_step : forall fb d junk, (d < k)%nat ->
    exists e2, normal_env (exec P collate_body fb (upd "ii" (VNat d) (collate_head d junk))) = Some e2 /\
               e2 = collate_head (S d) (fun x => lookup x e2).
  Proof.
    intros fb d junk Hd. unfold collate_head.
    assert (Hlt : (d <? length (cols_at d))%nat = true) by (apply Nat.ltb_lt; rewrite cols_at_length; lia).
    eexists. split.
    - ev1. rewrite (set_nth_cols d Hd). reflexivity.
    - ev. reflexivity.
  Qed.

  (* the loop, by the induction principle for SFor: invariant I done e, done = the elements consumed *)
  Lemma collate_loop : forall fb junk,
    exists junk', for_loop "ii" (fun e' => exec P collate_body fb e') (map VNat (seq 0 k)) (collate_head 0 junk)
                  = Normal (collate_head k junk').
  Proof.
    intros fb junk.
    destruct (for_loop_inv V (fun done e => exists j, e = collate_head (length done) j)
                "ii" (fun e' => exec P collate_body fb e') (map VNat (seq 0 k)) (collate_head 0 junk))
      as (e' & He' & (j & Hj)).
    - exists junk. reflexivity.
    - intros done v rest e1 Hl (j & He1).
      destruct (range_val_split k done v rest Hl) as (_ & Hv & Hlt). subst v e1.
      destruct (collate_step fb (length done) j Hlt) as (e2 & H2 & He2).
      exists e2. split; [exact H2|]. rewrite app_length, Nat.add_1_r. eexists. exact He2.
    - rewrite map_length, seq_length in Hj. exists j. rewrite He'. rewrite Hj. reflexivity.
  Qed.

  Theorem skeleton_collate : forall f,
    exec P prog_collate f (collate_env0 V X k) = collate_render V (collate_model V avg k).
  Proof.
    intros f.
    (* prefix ; the for ; suffix *)
    rewrite (exec_nth_split V P prog_collate 1 collate_for f _ eq_refl).
    change (firstn 1 (spine prog_collate)) with collate_pre.
    change (skipn 2 (spine prog_collate)) with collate_post.
    (* the prefix, by computation *)
    assert (Hpre : exec_list P collate_pre f (collate_env0 V X k) = Normal (collate_head 0 (fun _ => None))).
    { unfold collate_head, cols_at. ev1. rewrite Nat.sub_0_r. reflexivity. }
    rewrite Hpre.
    (* the loop: evaluate the iterable, then the invariant lemma *)
    unfold collate_for. rewrite exec_for.
    assert (Hit : bind (eval P (collate_head 0 (fun _ => None)) (ECall "range" [EVar "max_imfs"] [])) (iter_list P)
                  = Ok (map VNat (seq 0 k))) by (unfold collate_head; ev; reflexivity).
    rewrite Hit.
    destruct (collate_loop f (fun _ => None)) as (junk' & Hloop).
    change (SAssign "imfs" _) with collate_body. rewrite Hloop.
    (* the suffix *)
    unfold collate_head, cols_at. ev1.
    unfold collate_render, collate_model. rewrite Nat.sub_diag. cbn [repeat]. rewrite app_nil_r. reflexivity.
  Qed.
End CollateTie.

(* ============================================================================================== *)
(* 2. try / finally: logger.wrap_verbose.inner_verbose (closure variable func, *args, **kwargs)      *)
(* ============================================================================================== *)
Definition params_inner_verbose : list string := ["args"; "kwargs"].
Definition prog_inner_verbose : stmt :=
  (SSeq
    (SAssign "current_level" (ENone))
    (SSeq
      (SIf (EAnd (ECall "'verbose' in kwargs" [EVar "kwargs"] []) (ENot (EIsNone (ECall "kwargs['verbose']" [EVar "kwargs"] []))))
         (SSeq
           (SAssign "tmp_level" (ECall "kwargs['verbose']" [EVar "kwargs"] []))
           (SSeq
             (SAssign "current_level" (ECall "get_level" [] []))
             (SExpr (ECall "set_level" [] [("level", EVar "tmp_level")]))))
         (SIf (ECall "'verbose' in kwargs" [EVar "kwargs"] [])
            (SSkip)
            SSkip))
      (SSeq
        (STry
           (SAssign "func_output" (ECall "func(*args, **kwargs)" [EVar "func"; EVar "args"; EVar "kwargs"] []))
           []
           (SIf (ENot (EIsNone (EVar "current_level")))
              (SExpr (ECall "set_level" [] [("level", EIndex (ECall "logging._levelToName" [] []) (EVar "current_level"))]))
              SSkip))
        (SReturn (EVar "func_output"))))).

Section VerbosePrims.
  Variable V : Type.
  Variable verbose : option (val V).          (* kwargs.get('verbose'): absent / None / a level *)
  Variable has_console : bool.                (* get_level() is None before set_up is called *)
  Variable fres : res (val V).                (* the wrapped function: a value, or the exception it raises *)

  Definition verbose_table : list (string * handler V) :=
    [ ("'verbose' in kwargs", fun args kw => match args, kw with
                                             | [_], [] => Ok (VBool (match verbose with Some _ => true | None => false end))
                                             | _, _ => Bad end);
      ("kwargs['verbose']", fun args kw => match args, kw with
                                           | [_], [] => match verbose with Some v => Ok v | None => Exc "KeyError" end
                                           | _, _ => Bad end);
      ("get_level", fun args kw => match args, kw with
                                   | [], [] => Ok (if has_console then VNat 20 else VNone)
                                   | _, _ => Bad end);
      ("set_level", fun args kw => match args, kw with [], [(_, _)] => Ok VNone | _, _ => Bad end);
      ("logging._levelToName", fun args kw => match args, kw with [], [] => Ok (VOpaque "levelnames" []) | _, _ => Bad end);
      ("getitem", fun args kw => match args, kw with
                                 | [t; VNat _], [] => if is_opaque0 t "levelnames" then Ok (VStr "INFO") else Bad
                                 | _, _ => Bad end);
      ("func(*args, **kwargs)", fun args kw => match args, kw with [_; _; _], [] => fres | _, _ => Bad end) ].
  Definition verbose_prims : prims V := prims_of verbose_table.

  (* the closure variable func is a name of the frame: list it with the parameters *)
  Definition verbose_entry : list string := "func" :: params_inner_verbose.
  Definition verbose_names : list string := Eval cbv in assigned prog_inner_verbose verbose_entry.
  Definition verbose_env0 (func args kwargs : val V) : env V := frame verbose_entry verbose_names [func; args; kwargs].

  (* the model: the wrapper is transparent *)
  Definition verbose_render : outcome V :=
    match fres with Ok v => Return v | Exc x => Raise x | Bad => Stuck end.
End VerbosePrims.

Section VerboseTie.
  Variable V : Type.
  Ltac ev :=
    cbv beta iota zeta delta
        [exec final_env eval eval_truth bind map_res truthy do_cmp do_arith do_index nat_cmp nat_arith iter_list
         upd lookup env_of assign_all cmp_name ar_name frame overlay normal_env
         try_finish try_finish_env exn_matches
         verbose_prims prims_of table_lookup verbose_table keys_are is_opaque0
         verbose_names verbose_entry verbose_env0 params_inner_verbose prog_inner_verbose verbose_render
         String.eqb Ascii.eqb Bool.eqb fst snd nth_error andb negb orb].

  (* try/finally needs nothing special: exec of STry computes (final_env is in the whitelist); the oracle
     results are destructed first so that every `match` in the way reduces *)
  Theorem skeleton_inner_verbose : forall verbose has_console fres func args kwargs f,
    (forall v, verbose = Some v -> v = VNone \/ exists s, v = VStr s) ->
    fres <> Bad ->
    exec (verbose_prims V verbose has_console fres) prog_inner_verbose f (verbose_env0 V func args kwargs)
    = verbose_render V fres.
  Proof.
    intros verbose has_console fres func args kwargs f Hv Hf.
    destruct fres as [r|x|]; [| |congruence];
      (destruct verbose as [v|]; [destruct (Hv v eq_refl) as [->|[s ->]]|]);
      destruct has_console; ev; reflexivity.
  Qed.
End VerboseTie.

Print Assumptions skeleton_collate.
Print Assumptions skeleton_inner_verbose.
