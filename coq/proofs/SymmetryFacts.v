(* Facts about model/Symmetry.v (property C02): the sift commutes with rescaling, sign flip and
   time reversal.  Abstract layer first (any signal type, oracles with equivariance contracts), then
   the concrete stages over integer lists discharge those contracts. *)
From Coq Require Import ZArith List Bool Lia Arith Sorted Permutation.
From EmdV Require Import lib.NpLite model.Extrema model.SiftCore model.Toys model.Symmetry
                         proofs.ExtremaFacts proofs.SiftCoreFacts.
Import ListNotations.

(* ============================================================================================ *)
(* A. abstract layer                                                                            *)
(* ============================================================================================ *)

Section GniCommutes.
  Variable V : Type.
  Variable wf : V -> Prop.                          (* well-formed signal: N samples *)
  Variable vsub : V -> V -> V.
  Variable vstep : V -> V.
  Variable vavg : V -> V -> V.
  Variable envs : V -> option (V * V).
  Variable stop_sd stop_ril : V -> V -> bool.
  Variable energy_fires : V -> V -> bool.
  Variable method : stop_method.
  Variable max_iters : nat.
  Variable use_energy : bool.
  Variable s : V -> V.                              (* the symmetry *)
  Variable s_env : V * V -> V * V.                  (* its action on (upper, lower) *)

  Hypothesis wf_sub : forall a b, wf a -> wf b -> wf (vsub a b).
  Hypothesis wf_step : forall a, wf a -> wf (vstep a).
  Hypothesis wf_avg : forall a b, wf a -> wf b -> wf (vavg a b).
  Hypothesis wf_envs : forall x u l, wf x -> envs x = Some (u, l) -> wf u /\ wf l.
  Hypothesis s_sub : forall a b, wf a -> wf b -> s (vsub a b) = vsub (s a) (s b).
  Hypothesis s_step : forall a, wf a -> s (vstep a) = vstep (s a).
  Hypothesis envs_equiv : forall x, wf x -> envs (s x) = option_map s_env (envs x).
  Hypothesis avg_equiv : forall u l, wf u -> wf l ->
    vavg (fst (s_env (u, l))) (snd (s_env (u, l))) = s (vavg u l).
  Hypothesis sd_inv : forall p x1, wf p -> wf x1 -> stop_sd (s p) (s x1) = stop_sd p x1.
  Hypothesis ril_inv : forall u l, wf u -> wf l ->
    stop_ril (fst (s_env (u, l))) (snd (s_env (u, l))) = stop_ril u l.

  Local Notation loopg := (gni_loop V vsub vstep vavg envs stop_sd stop_ril method max_iters).

  (* the fixed-count rule does not look at the signal at all *)
  Lemma fixed_stop_const : forall n p x1 u l p' x1' u' l',
    method = Fixed ->
    stop_fires V stop_sd stop_ril method max_iters n p x1 u l =
    stop_fires V stop_sd stop_ril method max_iters n p' x1' u' l'.
  Proof. intros n p x1 u l p' x1' u' l' ->. reflexivity. Qed.

  Lemma gni_commutes : forall v0 fuel n X, wf X ->
    loopg v0 fuel n (s X) = map_result s (loopg v0 fuel n X).
  Proof.
    intros v0. induction fuel as [|f IH]; intros n X HX; [reflexivity|].
    cbn [gni_loop].
    destruct (negb (is_fixed method) && (max_iters <? n)%nat); [reflexivity|].
    rewrite (envs_equiv X HX).
    destruct (envs X) as [[u l]|] eqn:Ee; cbn [option_map]; [|reflexivity].
    destruct (wf_envs X u l HX Ee) as [Hu Hl].
    destruct (s_env (u, l)) as [u' l'] eqn:Es.
    assert (Ea : vavg u' l' = s (vavg u l)).
    { generalize (avg_equiv u l Hu Hl). rewrite Es. cbn [fst snd]. auto. }
    assert (Er : stop_ril u' l' = stop_ril u l).
    { generalize (ril_inv u l Hu Hl). rewrite Es. cbn [fst snd]. auto. }
    assert (Ha : wf (vavg u l)) by (apply wf_avg; assumption).
    rewrite Ea. rewrite <- (s_sub X (vavg u l) HX Ha).
    assert (Ef : stop_fires V stop_sd stop_ril method max_iters (S n) (s X) (s (vsub X (vavg u l))) u' l' =
                 stop_fires V stop_sd stop_ril method max_iters (S n) X (vsub X (vavg u l)) u l).
    { unfold stop_fires. destruct method; [|exact Er|reflexivity].
      apply sd_inv; [exact HX|apply wf_sub; assumption]. }
    rewrite Ef.
    destruct (stop_fires V stop_sd stop_ril method max_iters (S n) X (vsub X (vavg u l)) u l); [reflexivity|].
    rewrite <- (s_step (vavg u l) Ha).
    rewrite <- (s_sub X (vstep (vavg u l)) HX (wf_step _ Ha)).
    apply IH. apply wf_sub; [exact HX|apply wf_step; exact Ha].
  Qed.

  Hypothesis energy_inv : forall X r, wf X -> wf r -> energy_fires (s X) (s r) = energy_fires X r.

  Lemma get_next_imf_commutes : forall v0 X, wf X ->
    get_next_imf_gen V vsub vstep vavg envs stop_sd stop_ril energy_fires method max_iters use_energy v0 (s X) =
    map_result s (get_next_imf_gen V vsub vstep vavg envs stop_sd stop_ril energy_fires method max_iters use_energy v0 X).
  Proof.
    intros v0 X HX. unfold get_next_imf_gen. rewrite (gni_commutes v0 _ _ X HX).
    destruct (loopg v0 (max_iters + 2)%nat 0%nat X) as [p f n| |] eqn:EL; cbn [map_result]; try reflexivity.
    assert (Hp : wf p).
    { apply (gni_loop_preserves V vsub vstep vavg envs stop_sd stop_ril method max_iters wf v0) with
        (fuel := (max_iters + 2)%nat) (k := 0%nat) (x := X) (f := f) (n := n); [|exact HX|exact EL].
      intros x u l Hx He. destruct (wf_envs x u l Hx He) as [Hu Hl].
      split; apply wf_sub; try assumption; [apply wf_avg|apply wf_step; apply wf_avg]; assumption. }
    rewrite <- (s_sub X p HX Hp). rewrite (energy_inv X (vsub X p) HX (wf_sub _ _ HX Hp)). reflexivity.
  Qed.

  Lemma get_next_imf_wf : forall v0 X p f n, wf X ->
    get_next_imf_gen V vsub vstep vavg envs stop_sd stop_ril energy_fires method max_iters use_energy v0 X = Imf p f n ->
    wf p.
  Proof.
    intros v0 X p f n HX H.
    apply (gni_gen_preserves V vsub vstep vavg envs stop_sd stop_ril energy_fires method max_iters use_energy wf v0)
      with (X := X) (f := f) (n := n); [|exact HX|exact H].
    intros x u l Hx He. destruct (wf_envs x u l Hx He) as [Hu Hl].
    split; apply wf_sub; try assumption; [apply wf_avg|apply wf_step; apply wf_avg]; assumption.
  Qed.
End GniCommutes.

(* ---- the outer loop (sift, mask_sift) ---------------------------------------------------------- *)
Section PeelCommutes.
  Variable V : Type.
  Variable wf : V -> Prop.
  Variable vzero : V.
  Variable vadd vsub : V -> V -> V.
  Variable small small' : V -> bool.                (* the sift_thresh test for X and for s X *)
  Variable extract extract' : nat -> list V -> V -> gni_result V.
  Variable s : V -> V.

  Hypothesis wf_zero : wf vzero.
  Hypothesis wf_add : forall a b, wf a -> wf b -> wf (vadd a b).
  Hypothesis wf_sub : forall a b, wf a -> wf b -> wf (vsub a b).
  Hypothesis s_zero : s vzero = vzero.
  Hypothesis s_add : forall a b, wf a -> wf b -> s (vadd a b) = vadd (s a) (s b).
  Hypothesis s_sub : forall a b, wf a -> wf b -> s (vsub a b) = vsub (s a) (s b).
  Hypothesis small_inv : forall x, wf x -> small' (s x) = small x.
  Hypothesis extract_wf : forall k acc r p f n, Forall wf acc -> wf r -> extract k acc r = Imf p f n -> wf p.
  Hypothesis extract_equiv : forall k acc r, Forall wf acc -> wf r ->
    extract' k (map s acc) (s r) = map_result s (extract k acc r).

  Lemma fold_add_wf : forall acc z, wf z -> Forall wf acc -> wf (fold_left vadd acc z).
  Proof.
    induction acc as [|a t IH]; intros z Hz Ha; [exact Hz|].
    cbn [fold_left]. inversion Ha; subst. apply IH; [apply wf_add; assumption|assumption].
  Qed.

  Lemma fold_add_commutes : forall acc z, wf z -> Forall wf acc ->
    s (fold_left vadd acc z) = fold_left vadd (map s acc) (s z).
  Proof.
    induction acc as [|a t IH]; intros z Hz Ha; [reflexivity|].
    cbn [fold_left map]. inversion Ha; subst.
    rewrite IH by (try apply wf_add; assumption). rewrite s_add by assumption. reflexivity.
  Qed.

  Lemma residual_wf : forall X acc, wf X -> Forall wf acc -> wf (residual V vzero vadd vsub X acc).
  Proof.
    intros X acc HX Ha. unfold residual. destruct acc as [|a t]; [exact HX|].
    apply wf_sub; [exact HX|]. unfold vsum. apply fold_add_wf; assumption.
  Qed.

  Lemma residual_commutes : forall X acc, wf X -> Forall wf acc ->
    s (residual V vzero vadd vsub X acc) = residual V vzero vadd vsub (s X) (map s acc).
  Proof.
    intros X acc HX Ha. unfold residual. destruct acc as [|a t]; [reflexivity|].
    cbn [map]. unfold vsum. rewrite s_sub by (try apply fold_add_wf; assumption).
    rewrite fold_add_commutes by assumption. rewrite s_zero. reflexivity.
  Qed.

  Lemma sift_commutes : forall fuel cap X acc, wf X -> Forall wf acc ->
    peel_loop V vzero vadd vsub small' extract' fuel cap (s X) (map s acc) =
    (map s (fst (peel_loop V vzero vadd vsub small extract fuel cap X acc)),
     snd (peel_loop V vzero vadd vsub small extract fuel cap X acc)).
  Proof.
    induction fuel as [|f IH]; intros cap X acc HX Ha; [reflexivity|].
    cbn [peel_loop]. rewrite map_length.
    rewrite <- (residual_commutes X acc HX Ha).
    assert (Hr := residual_wf X acc HX Ha).
    rewrite (extract_equiv (length acc) acc _ Ha Hr).
    destruct (extract (length acc) acc (residual V vzero vadd vsub X acc)) as [nxt flag n| |] eqn:Ee;
      cbn [map_result]; try reflexivity.
    assert (Hn : wf nxt) by (apply (extract_wf _ _ _ _ _ _ Ha Hr Ee)).
    rewrite (small_inv nxt Hn).
    replace (map s acc ++ [s nxt]) with (map s (acc ++ [nxt])) by (rewrite map_app; reflexivity).
    rewrite map_length.
    destruct ((match cap with Some k => Nat.eqb (length (acc ++ [nxt])) k | None => false end)
              || small nxt || negb flag); [reflexivity|].
    apply IH; [exact HX|]. apply Forall_app. split; [exact Ha|]. constructor; [exact Hn|constructor].
  Qed.
End PeelCommutes.

(* ---- the masked extraction --------------------------------------------------------------------- *)
Lemma forallb_perm : forall (A : Type) (f : A -> bool) l l', Permutation l l' -> forallb f l = forallb f l'.
Proof.
  intros A f l l' H. induction H as [|x l l' H IH|x y l|l l' l'' H1 IH1 H2 IH2]; cbn [forallb].
  - reflexivity.
  - rewrite IH. reflexivity.
  - destruct (f x), (f y); reflexivity.
  - rewrite IH1. exact IH2.
Qed.

Lemma existsb_perm : forall (A : Type) (f : A -> bool) l l', Permutation l l' -> existsb f l = existsb f l'.
Proof.
  intros A f l l' H. induction H as [|x l l' H IH|x y l|l l' l'' H1 IH1 H2 IH2]; cbn [existsb].
  - reflexivity.
  - rewrite IH. reflexivity.
  - destruct (f x), (f y); reflexivity.
  - rewrite IH1. exact IH2.
Qed.

Lemma forallb_map_in : forall (A B : Type) (g : A -> B) (f : B -> bool) (f' : A -> bool) l,
  (forall a, In a l -> f (g a) = f' a) -> forallb f (map g l) = forallb f' l.
Proof.
  intros A B g f f' l. induction l as [|a t IH]; intros H; [reflexivity|].
  cbn [map forallb]. rewrite H by (left; reflexivity). rewrite IH; [reflexivity|].
  intros b Hb. apply H. right. exact Hb.
Qed.

Lemma existsb_map_in : forall (A B : Type) (g : A -> B) (f : B -> bool) (f' : A -> bool) l,
  (forall a, In a l -> f (g a) = f' a) -> existsb f (map g l) = existsb f' l.
Proof.
  intros A B g f f' l. induction l as [|a t IH]; intros H; [reflexivity|].
  cbn [map existsb]. rewrite H by (left; reflexivity). rewrite IH; [reflexivity|].
  intros b Hb. apply H. right. exact Hb.
Qed.

Lemma map_ext_in2 : forall (A B : Type) (f g : A -> B) l, (forall a, In a l -> f a = g a) -> map f l = map g l.
Proof. intros A B f g l H. apply map_ext_in. exact H. Qed.

Section MaskCommutes.
  Variable V : Type.
  Variable wf : V -> Prop.
  Variable vadd vsub : V -> V -> V.
  Variable vmean : list V -> V.
  Variable gni : V -> gni_result V.
  Variable s : V -> V.

  Hypothesis wf_add : forall a b, wf a -> wf b -> wf (vadd a b).
  Hypothesis wf_sub : forall a b, wf a -> wf b -> wf (vsub a b).
  Hypothesis s_add : forall a b, wf a -> wf b -> s (vadd a b) = vadd (s a) (s b).
  Hypothesis s_sub : forall a b, wf a -> wf b -> s (vsub a b) = vsub (s a) (s b).
  Hypothesis gni_wf : forall y p f n, wf y -> gni y = Imf p f n -> wf p.
  Hypothesis gni_equiv : forall y, wf y -> gni (s y) = map_result s (gni y).
  (* the mean over the phases does not depend on their order and commutes with the symmetry *)
  Hypothesis vmean_perm : forall l l', Permutation l l' -> vmean l = vmean l'.
  Hypothesis vmean_equiv : forall l, Forall wf l -> s (vmean l) = vmean (map s l).

  Local Notation gmask := (gni_mask V vadd vsub vmean gni).

  Lemma member_equiv : forall X m, wf X -> wf m ->
    member_ok V vadd gni (s X) (s m) = member_ok V vadd gni X m /\
    member_out V vadd vsub gni (s X) (s m) = s (member_out V vadd vsub gni X m) /\
    member_flag V vadd gni (s X) (s m) = member_flag V vadd gni X m.
  Proof.
    intros X m HX Hm. unfold member_ok, member_out, member_flag.
    rewrite <- (s_add X m HX Hm). rewrite (gni_equiv _ (wf_add X m HX Hm)).
    destruct (gni (vadd X m)) as [p f n| |] eqn:E; cbn [map_result]; repeat split; try reflexivity.
    symmetry. apply s_sub; [|exact Hm]. apply (gni_wf _ _ _ _ (wf_add X m HX Hm) E).
  Qed.

  Lemma member_out_wf : forall X m, wf X -> wf m -> wf (member_out V vadd vsub gni X m).
  Proof.
    intros X m HX Hm. unfold member_out.
    destruct (gni (vadd X m)) as [p f n| |] eqn:E; try exact HX.
    apply wf_sub; [|exact Hm]. apply (gni_wf _ _ _ _ (wf_add X m HX Hm) E).
  Qed.

  (* the order of the phases is immaterial *)
  Lemma gni_mask_perm : forall masks masks' Y, Permutation masks masks' -> gmask masks Y = gmask masks' Y.
  Proof.
    intros masks masks' Y H. unfold gni_mask.
    rewrite (forallb_perm _ _ _ _ H), (existsb_perm _ _ _ _ H).
    rewrite (vmean_perm _ _ (Permutation_map (member_out V vadd vsub gni Y) H)). reflexivity.
  Qed.

  (* masks transformed with the signal: the masked extraction commutes *)
  Lemma gni_mask_commutes_map : forall masks X, wf X -> Forall wf masks ->
    gmask (map s masks) (s X) = map_result s (gmask masks X).
  Proof.
    intros masks X HX Hm. unfold gni_mask. rewrite Forall_forall in Hm.
    rewrite (forallb_map_in _ _ s _ (member_ok V vadd gni X))
      by (intros a Ha; apply (member_equiv X a HX (Hm a Ha))).
    rewrite (existsb_map_in _ _ s _ (member_flag V vadd gni X))
      by (intros a Ha; apply (member_equiv X a HX (Hm a Ha))).
    destruct (forallb (member_ok V vadd gni X) masks); cbn [map_result]; [|reflexivity].
    f_equal. rewrite vmean_equiv.
    - f_equal. rewrite !map_map. apply map_ext_in. intros a Ha.
      apply (member_equiv X a HX (Hm a Ha)).
    - apply Forall_forall. intros y Hy. apply in_map_iff in Hy. destruct Hy as (a & <- & Ha).
      apply member_out_wf; [exact HX|apply Hm; exact Ha].
  Qed.

  (* the masks used for s X need only be a REARRANGEMENT of the transformed masks of X *)
  Lemma gni_mask_commutes : forall masks masks' X, wf X -> Forall wf masks ->
    Permutation masks' (map s masks) ->
    gmask masks' (s X) = map_result s (gmask masks X).
  Proof.
    intros masks masks' X HX Hm HP.
    rewrite (gni_mask_perm _ _ (s X) HP). apply gni_mask_commutes_map; assumption.
  Qed.

  Lemma gni_mask_wf : forall masks X p f n, wf X -> Forall wf masks ->
    (forall l, Forall wf l -> wf (vmean l)) -> gmask masks X = Imf p f n -> wf p.
  Proof.
    intros masks X p f n HX Hm Hmean H. unfold gni_mask in H.
    destruct (forallb (member_ok V vadd gni X) masks); [|discriminate].
    inversion H; subst. apply Hmean. rewrite Forall_forall in *. intros y Hy.
    apply in_map_iff in Hy. destruct Hy as (a & <- & Ha). apply member_out_wf; [exact HX|apply Hm; exact Ha].
  Qed.
End MaskCommutes.

(* ---- the mask set ---------------------------------------------------------------------------------- *)
Lemma seq_shift_add : forall h n s0, map (fun j => (j + h)%nat) (seq s0 n) = seq (s0 + h) n.
Proof.
  intros h. induction n as [|n IH]; intros s0; [reflexivity|].
  cbn [seq map]. rewrite IH. reflexivity.
Qed.

(* an even number 2h of phases: phase j + h is phase j shifted by pi, so the family is closed under negation *)
Lemma mask_set_neg_closed : forall (V : Type) (vneg : V -> V) (mask : nat -> V) h,
  (forall v, vneg (vneg v) = v) ->
  (forall j, (j < h)%nat -> mask (j + h)%nat = vneg (mask j)) ->
  Permutation (map vneg (map mask (seq 0 (h + h)))) (map mask (seq 0 (h + h))).
Proof.
  intros V vneg mask h Hinv Hshift.
  rewrite seq_app, !map_app. cbn [Nat.add].
  assert (E : map mask (seq h h) = map vneg (map mask (seq 0 h))).
  { change (seq h h) with (seq (0 + h) h). rewrite <- (seq_shift_add h h 0). rewrite !map_map. apply map_ext_in.
    intros j Hj. apply in_seq in Hj. apply Hshift. lia. }
  rewrite E.
  assert (E2 : map vneg (map vneg (map mask (seq 0 h))) = map mask (seq 0 h)).
  { rewrite (map_map vneg vneg). rewrite <- (map_id (map mask (seq 0 h))) at 2.
    apply map_ext. exact Hinv. }
  rewrite E2. apply Permutation_app_comm.
Qed.

Lemma last_map : forall (A : Type) (f : A -> A) l d, last (map f l) (f d) = f (last l d).
Proof.
  intros A f. induction l as [|a t IH]; intros d; [reflexivity|].
  destruct t as [|b t]; [reflexivity|].
  change (last (map f (b :: t)) (f d) = f (last (b :: t) d)). apply IH.
Qed.

Section MaskFamilyFacts.
  Variables V S : Type.
  Variable vscal : S -> V -> V.
  Variable cosv : nat -> nat -> nat -> V.
  Variable std : V -> S.
  Variable amp_mul : nat -> S -> S.
  Variable s : V -> V.                (* x |-> c x *)
  Variable t : V -> V.                (* x |-> |c| x *)
  Variable sabs : S -> S.             (* a |-> |c| a *)
  Variable vneg : V -> V.

  (* ORACLE CONTRACTS: std (c x) = |c| std x; products are associative/commutative *)
  Hypothesis std_scale : forall x, std (s x) = sabs (std x).
  Hypothesis amp_scale : forall k a, amp_mul k (sabs a) = sabs (amp_mul k a).
  Hypothesis vscal_scale : forall a v, vscal (sabs a) v = t (vscal a v).

  Local Notation masks := (masks_of V S vscal cosv std amp_mul).

  Lemma mask_sd_scale : forall mode X acc,
    mask_sd V S std mode (s X) (map s acc) = sabs (mask_sd V S std mode X acc).
  Proof.
    intros mode X acc. unfold mask_sd. destruct mode; [apply std_scale|].
    destruct acc as [|a r]; [apply std_scale|].
    change (map s (a :: r)) with (s a :: map s r).
    change (s a :: map s r) with (map s (a :: r)). rewrite last_map. apply std_scale.
  Qed.

  (* the masks of c X are |c| times the masks of X *)
  Lemma masks_scale : forall mode nph X k acc,
    masks mode nph (s X) k (map s acc) = map t (masks mode nph X k acc).
  Proof.
    intros mode nph X k acc. unfold masks_of. rewrite map_map. apply map_ext. intros j.
    rewrite mask_sd_scale, amp_scale, vscal_scale. reflexivity.
  Qed.

  (* c > 0: |c| = c *)
  Lemma masks_scale_pos : forall mode nph X k acc, (forall v, t v = s v) ->
    Permutation (masks mode nph (s X) k (map s acc)) (map s (masks mode nph X k acc)).
  Proof.
    intros mode nph X k acc Hts. rewrite masks_scale.
    rewrite (map_ext t s Hts). apply Permutation_refl.
  Qed.

  (* c < 0: |c| m = c (-m), and with an even number of phases -m is another member of the family *)
  Hypothesis vneg_invol : forall v, vneg (vneg v) = v.
  Hypothesis vscal_neg : forall a v, vscal a (vneg v) = vneg (vscal a v).

  Lemma masks_scale_neg_even : forall mode h X k acc,
    (forall v, t v = s (vneg v)) ->
    (forall j, (j < h)%nat -> cosv (h + h) k (j + h) = vneg (cosv (h + h) k j)) ->    (* cos (theta + pi) = - cos theta *)
    Permutation (masks mode (h + h) (s X) k (map s acc)) (map s (masks mode (h + h) X k acc)).
  Proof.
    intros mode h X k acc Hts Hcos. rewrite masks_scale.
    rewrite (map_ext t (fun v => s (vneg v)) Hts). rewrite <- (map_map vneg s).
    apply Permutation_map. unfold masks_of.
    apply (mask_set_neg_closed V vneg
             (fun j => vscal (amp_mul k (mask_sd V S std mode X acc)) (cosv (h + h) k j)) h vneg_invol).
    intros j Hj. rewrite (Hcos j Hj). apply vscal_neg.
  Qed.
End MaskFamilyFacts.

(* ============================================================================================ *)
(* B. concrete layer: integer lists                                                             *)
(* ============================================================================================ *)
Open Scope Z_scope.

(* ---- list plumbing ------------------------------------------------------------------------- *)
Lemma zscale_length : forall c x, length (zscale c x) = length x.
Proof. intros c x. apply map_length. Qed.

Lemma zip_with_map2 : forall (f : Z -> Z -> Z) (g : Z -> Z),
  (forall a b, g (f a b) = f (g a) (g b)) ->
  forall a b, map g (zip_with f a b) = zip_with f (map g a) (map g b).
Proof.
  intros f g H. induction a as [|x a IH]; intros b; [reflexivity|].
  destruct b as [|y b]; [reflexivity|]. cbn [zip_with map]. rewrite IH, H. reflexivity.
Qed.

Lemma zip_with_app : forall (f : Z -> Z -> Z) a b a' b', length a = length b ->
  zip_with f (a ++ a') (b ++ b') = zip_with f a b ++ zip_with f a' b'.
Proof.
  intros f. induction a as [|x a IH]; intros b a' b' Hl; destruct b as [|y b]; try discriminate; [reflexivity|].
  cbn [app zip_with]. cbn [length] in Hl. rewrite IH by lia. reflexivity.
Qed.

Lemma zip_with_rev : forall (f : Z -> Z -> Z) a b, length a = length b ->
  rev (zip_with f a b) = zip_with f (rev a) (rev b).
Proof.
  intros f. induction a as [|x a IH]; intros b Hl; destruct b as [|y b]; try discriminate; [reflexivity|].
  cbn [zip_with rev]. cbn [length] in Hl. rewrite zip_with_app by (rewrite !rev_length; lia).
  rewrite IH by lia. reflexivity.
Qed.

Lemma zip_with_comm : forall (f : Z -> Z -> Z), (forall a b, f a b = f b a) ->
  forall a b, zip_with f a b = zip_with f b a.
Proof.
  intros f H. induction a as [|x a IH]; intros b; destruct b as [|y b]; try reflexivity.
  cbn [zip_with]. rewrite IH, H. reflexivity.
Qed.

Lemma zscale_vsub : forall c a b, zscale c (Toys.vsub a b) = Toys.vsub (zscale c a) (zscale c b).
Proof. intros c. apply zip_with_map2. intros a b. ring. Qed.

Lemma zscale_vadd : forall c a b, zscale c (Toys.vadd a b) = Toys.vadd (zscale c a) (zscale c b).
Proof. intros c. apply zip_with_map2. intros a b. ring. Qed.

Lemma zscale_vavg_h : forall c a b, zscale c (vavg_h a b) = vavg_h (zscale c a) (zscale c b).
Proof. intros c. apply zip_with_map2. intros a b. ring. Qed.

Lemma zscale_zscale_comm : forall c d x, zscale c (zscale d x) = zscale d (zscale c x).
Proof. intros c d x. unfold zscale. rewrite !map_map. apply map_ext. intros a. ring. Qed.

Lemma zscale_vzero : forall c n, zscale c (Toys.vzero n) = Toys.vzero n.
Proof.
  intros c n. unfold Toys.vzero, zscale. induction n as [|n IH]; [reflexivity|].
  cbn [repeat map]. rewrite IH. f_equal. ring.
Qed.

Lemma rev_vzero : forall n, rev (Toys.vzero n) = Toys.vzero n.
Proof.
  intros n. unfold Toys.vzero. induction n as [|n IH]; [reflexivity|].
  cbn [repeat rev]. rewrite IH. clear IH. induction n as [|n IH]; [reflexivity|].
  cbn [repeat app]. rewrite IH. reflexivity.
Qed.

Lemma zneg_zscale : forall x, zneg x = zscale (-1) x.
Proof. intros x. unfold zneg, zscale. apply map_ext. intros a. ring. Qed.

Lemma zsum_rev : forall l, zsum (rev l) = zsum l.
Proof.
  induction l as [|a t IH]; [reflexivity|]. cbn [rev zsum]. rewrite zsum_app, IH. cbn [zsum]. lia.
Qed.

Lemma sumsq_scale : forall c v, sumsq (zscale c v) = c * c * sumsq v.
Proof.
  intros c. unfold sumsq, zscale. induction v as [|a t IH]; [cbn; ring|].
  cbn [map zsum]. rewrite IH. ring.
Qed.

Lemma sumsq_rev : forall v, sumsq (rev v) = sumsq v.
Proof. intros v. unfold sumsq. rewrite map_rev. apply zsum_rev. Qed.

Lemma sumabs_scale : forall c v, sumabs (zscale c v) = Z.abs c * sumabs v.
Proof.
  intros c. unfold sumabs, zscale. induction v as [|a t IH]; [cbn; ring|].
  cbn [map zsum]. rewrite IH, Z.abs_mul. ring.
Qed.

Lemma sumabs_rev : forall v, sumabs (rev v) = sumabs v.
Proof. intros v. unfold sumabs. rewrite map_rev. apply zsum_rev. Qed.

(* ---- the stopping rules are scale free and order free ---------------------------------------- *)
Lemma sq_pos : forall c, c <> 0 -> 0 < c * c.
Proof. intros c H. nia. Qed.

Lemma eqb_scale : forall k b, 0 < k -> (k * b =? 0) = (b =? 0).
Proof.
  intros k b Hk. destruct (Z.eqb_spec b 0) as [->|E].
  - rewrite Z.mul_0_r. reflexivity.
  - apply Z.eqb_neq. nia.
Qed.

Lemma ltb_scale : forall k a b, 0 < k -> (k * a <? k * b) = (a <? b).
Proof.
  intros k a b Hk. destruct (Z.ltb_spec a b) as [E|E].
  - apply Z.ltb_lt. nia.
  - apply Z.ltb_ge. nia.
Qed.

(* SD: sum((proto - x1)^2) / sum(proto^2) is unchanged when both are multiplied by c <> 0 *)
Lemma sd_metric_scale : forall sn sd_ c proto x1, c <> 0 ->
  sd_stop sn sd_ (zscale c proto) (zscale c x1) = sd_stop sn sd_ proto x1.
Proof.
  intros sn sd_ c proto x1 Hc. unfold sd_stop.
  rewrite <- zscale_vsub, !sumsq_scale.
  assert (Hk := sq_pos c Hc).
  rewrite (eqb_scale (c * c) _ Hk).
  replace (c * c * sumsq (Toys.vsub proto x1) * sd_) with (c * c * (sumsq (Toys.vsub proto x1) * sd_)) by ring.
  replace (sn * (c * c * sumsq proto)) with (c * c * (sn * sumsq proto)) by ring.
  rewrite (ltb_scale (c * c) _ _ Hk). reflexivity.
Qed.

Lemma sd_rev : forall sn sd_ proto x1, length proto = length x1 ->
  sd_stop sn sd_ (rev proto) (rev x1) = sd_stop sn sd_ proto x1.
Proof.
  intros sn sd_ proto x1 Hl. unfold sd_stop, Toys.vsub.
  rewrite <- zip_with_rev by exact Hl. rewrite !sumsq_rev. reflexivity.
Qed.

(* Rilling: |avg| / amp per sample *)
Lemma ril_exceeds_scale : forall tn td c u l, c <> 0 ->
  ril_exceeds tn td (c * u) (c * l) = ril_exceeds tn td u l.
Proof.
  intros tn td c u l Hc. unfold ril_exceeds.
  replace (c * u - c * l) with (c * (u - l)) by ring.
  replace (c * u + c * l) with (c * (u + l)) by ring.
  assert (Hk : 0 < Z.abs c) by lia.
  assert (E0 : forall b, (c * b =? 0) = (b =? 0)).
  { intros b. destruct (Z.eqb_spec b 0) as [->|E]; [rewrite Z.mul_0_r; reflexivity|].
    apply Z.eqb_neq. nia. }
  rewrite !E0, !Z.abs_mul.
  replace (tn * (Z.abs c * Z.abs (u - l))) with (Z.abs c * (tn * Z.abs (u - l))) by ring.
  replace (Z.abs c * Z.abs (u + l) * td) with (Z.abs c * (Z.abs (u + l) * td)) by ring.
  rewrite (ltb_scale _ _ _ Hk). reflexivity.
Qed.

(* ... and unchanged when the two envelopes trade places *)
Lemma ril_exceeds_swap : forall tn td u l, ril_exceeds tn td l u = ril_exceeds tn td u l.
Proof.
  intros tn td u l. unfold ril_exceeds.
  replace (l + u) with (u + l) by ring.
  replace (Z.abs (l - u)) with (Z.abs (u - l)) by lia.
  destruct (Z.eqb_spec (l - u) 0) as [E|E]; destruct (Z.eqb_spec (u - l) 0) as [E'|E']; try reflexivity; lia.
Qed.

Lemma ril_flags_scale : forall tn td c u l, c <> 0 ->
  ril_flags tn td (zscale c u) (zscale c l) = ril_flags tn td u l.
Proof.
  intros tn td c u l Hc. unfold ril_flags, zscale. revert l.
  induction u as [|a u IH]; intros l; [reflexivity|]. destruct l as [|b l]; [reflexivity|].
  cbn [map combine fst snd]. rewrite IH, ril_exceeds_scale by exact Hc. reflexivity.
Qed.

Lemma ril_flags_swap : forall tn td u l, ril_flags tn td l u = ril_flags tn td u l.
Proof.
  intros tn td. unfold ril_flags. induction u as [|a u IH]; intros l; destruct l as [|b l]; try reflexivity.
  cbn [map combine fst snd]. rewrite IH, ril_exceeds_swap. reflexivity.
Qed.

Lemma combine_app : forall (A B : Type) (a a' : list A) (b b' : list B), length a = length b ->
  combine (a ++ a') (b ++ b') = combine a b ++ combine a' b'.
Proof.
  intros A B. induction a as [|x a IH]; intros a' b b' Hl; destruct b as [|y b]; try discriminate; [reflexivity|].
  cbn [app combine]. cbn [length] in Hl. rewrite IH by lia. reflexivity.
Qed.

Lemma combine_rev : forall (A B : Type) (a : list A) (b : list B), length a = length b ->
  combine (rev a) (rev b) = rev (combine a b).
Proof.
  intros A B. induction a as [|x a IH]; intros b Hl; destruct b as [|y b]; try discriminate; [reflexivity|].
  cbn [rev combine]. cbn [length] in Hl. rewrite combine_app by (rewrite !rev_length; lia).
  rewrite IH by lia. reflexivity.
Qed.

Lemma ril_flags_rev : forall tn td u l, length u = length l ->
  ril_flags tn td (rev u) (rev l) = rev (ril_flags tn td u l).
Proof. intros tn td u l Hl. unfold ril_flags. rewrite combine_rev by exact Hl. apply map_rev. Qed.

Lemma count_true_app : forall a b, count_true (a ++ b) = (count_true a + count_true b)%nat.
Proof. induction a as [|x a IH]; intros b; [reflexivity|]. cbn [app count_true]. rewrite IH. lia. Qed.

Lemma count_true_rev : forall l, count_true (rev l) = count_true l.
Proof.
  induction l as [|a t IH]; [reflexivity|]. cbn [rev]. rewrite count_true_app, IH. cbn [count_true]. lia.
Qed.

Lemma existsb_rev : forall (f : bool -> bool) l, existsb f (rev l) = existsb f l.
Proof.
  intros f. induction l as [|a t IH]; [reflexivity|]. cbn [rev]. rewrite existsb_app, IH. cbn [existsb].
  destruct (f a), (existsb f t); reflexivity.
Qed.

Lemma rilling_stop_flags : forall s1n s1d s2n s2d tn td u l,
  rilling_stop s1n s1d s2n s2d tn td u l =
  negb ((tn * Z.of_nat (length (ril_flags s1n s1d u l)) <? Z.of_nat (count_true (ril_flags s1n s1d u l)) * td)
        || existsb (fun b => b) (ril_flags s2n s2d u l)).
Proof. reflexivity. Qed.

Lemma rilling_scale : forall s1n s1d s2n s2d tn td c u l, c <> 0 ->
  rilling_stop s1n s1d s2n s2d tn td (zscale c u) (zscale c l) = rilling_stop s1n s1d s2n s2d tn td u l.
Proof. intros. rewrite !rilling_stop_flags, !ril_flags_scale by assumption. reflexivity. Qed.

(* multiplication by c < 0 turns (upper, lower) into (c lower, c upper) *)
Lemma rilling_scale_swap : forall s1n s1d s2n s2d tn td c u l, c <> 0 ->
  rilling_stop s1n s1d s2n s2d tn td (zscale c l) (zscale c u) = rilling_stop s1n s1d s2n s2d tn td u l.
Proof.
  intros. rewrite !rilling_stop_flags, !ril_flags_scale by assumption.
  rewrite (ril_flags_swap s1n s1d u l), (ril_flags_swap s2n s2d u l). reflexivity.
Qed.

Lemma rilling_rev : forall s1n s1d s2n s2d tn td u l, length u = length l ->
  rilling_stop s1n s1d s2n s2d tn td (rev u) (rev l) = rilling_stop s1n s1d s2n s2d tn td u l.
Proof.
  intros. rewrite !rilling_stop_flags, !ril_flags_rev by assumption.
  rewrite !rev_length, !count_true_rev, existsb_rev. reflexivity.
Qed.

(* the energy ratio and the sift threshold (the absolute threshold scaled with the signal) *)
Lemma energy_scale : forall c X r, c <> 0 -> energy_fires (zscale c X) (zscale c r) = energy_fires X r.
Proof.
  intros c X r Hc. unfold energy_fires. rewrite !sumsq_scale.
  replace (10 * (c * c * sumsq r)) with (c * c * (10 * sumsq r)) by ring.
  apply ltb_scale. apply sq_pos. exact Hc.
Qed.

Lemma energy_rev : forall X r, energy_fires (rev X) (rev r) = energy_fires X r.
Proof. intros X r. unfold energy_fires. rewrite !sumsq_rev. reflexivity. Qed.

Lemma small_scale : forall c t2 v, c <> 0 -> small (Z.abs c * t2) (zscale c v) = small t2 v.
Proof.
  intros c t2 v Hc. unfold small. rewrite sumabs_scale.
  replace (2 * (Z.abs c * sumabs v)) with (Z.abs c * (2 * sumabs v)) by ring.
  apply ltb_scale. lia.
Qed.

Lemma small_rev : forall t2 v, small t2 (rev v) = small t2 v.
Proof. intros t2 v. unfold small. rewrite sumabs_rev. reflexivity. Qed.

(* ---- extrema detection ---------------------------------------------------------------------- *)
Lemma ltb_scale_neg : forall c a b, c < 0 -> (c * a <? c * b) = (- a <? - b).
Proof.
  intros c a b Hc. destruct (Z.ltb_spec (- a) (- b)) as [E|E].
  - apply Z.ltb_lt. nia.
  - apply Z.ltb_ge. nia.
Qed.

Lemma maxima_from_scale_pos : forall c l i, 0 < c -> maxima_from i (zscale c l) = maxima_from i l.
Proof.
  intros c l i Hc. revert i. unfold zscale.
  induction l as [|a t IH]; intros i; [reflexivity|].
  destruct t as [|b t]; [reflexivity|]. destruct t as [|d t]; [reflexivity|].
  change (map (Z.mul c) (a :: b :: d :: t)) with (c * a :: c * b :: c * d :: map (Z.mul c) t).
  rewrite !maxima_from_cons3. rewrite !(ltb_scale c) by exact Hc.
  change (c * b :: c * d :: map (Z.mul c) t) with (map (Z.mul c) (b :: d :: t)).
  rewrite IH. reflexivity.
Qed.

(* multiplying by c > 0 moves no extremum *)
Lemma maxima_scale_pos : forall c x, 0 < c -> find_maxima (zscale c x) = find_maxima x.
Proof. intros c x Hc. apply maxima_from_scale_pos. exact Hc. Qed.

Lemma maxima_from_scale_neg : forall c l i, c < 0 -> maxima_from i (zscale c l) = maxima_from i (zneg l).
Proof.
  intros c l i Hc. revert i. unfold zscale, zneg.
  induction l as [|a t IH]; intros i; [reflexivity|].
  destruct t as [|b t]; [reflexivity|]. destruct t as [|d t]; [reflexivity|].
  change (map (Z.mul c) (a :: b :: d :: t)) with (c * a :: c * b :: c * d :: map (Z.mul c) t).
  change (map Z.opp (a :: b :: d :: t)) with (- a :: - b :: - d :: map Z.opp t).
  rewrite !maxima_from_cons3. rewrite !(ltb_scale_neg c) by exact Hc.
  change (c * b :: c * d :: map (Z.mul c) t) with (map (Z.mul c) (b :: d :: t)).
  change (- b :: - d :: map Z.opp t) with (map Z.opp (b :: d :: t)).
  rewrite IH. reflexivity.
Qed.

(* multiplying by c < 0: the peaks of c x are the peaks of -x ... *)
Lemma maxima_scale_neg : forall c x, c < 0 -> find_maxima (zscale c x) = find_maxima (zneg x).
Proof. intros c x Hc. apply maxima_from_scale_neg. exact Hc. Qed.

(* ... which are exactly the troughs of x *)
Lemma maxima_neg_is_minima : forall x i, In i (find_maxima (zneg x)) <-> strict_min_at x i.
Proof. intros x i. exact (troughs_spec x i). Qed.

Lemma maxima_neg_troughs : forall x, find_maxima (zneg x) = fst (extrema Troughs x).
Proof. reflexivity. Qed.

(* time reversal: strictness makes the detection symmetric *)
Lemma nth_error_rev : forall (l : list Z) k, (k < length l)%nat ->
  nth_error (rev l) k = nth_error l (length l - 1 - k).
Proof.
  intros l k Hk.
  rewrite (nth_error_nth' (rev l) 0) by (rewrite rev_length; exact Hk).
  rewrite (nth_error_nth' l 0) by lia.
  rewrite rev_nth by exact Hk. f_equal. f_equal. lia.
Qed.

Lemma strict_max_at_bound : forall x i, strict_max_at x i -> (1 <= i)%nat /\ (S i < length x)%nat.
Proof.
  intros x i (Hi & a & b & c & _ & _ & H & _). split; [exact Hi|].
  apply nth_error_Some. rewrite H. discriminate.
Qed.

Lemma strict_max_at_rev1 : forall x i, strict_max_at x i -> strict_max_at (rev x) (length x - 1 - i).
Proof.
  intros x i H. destruct (strict_max_at_bound x i H) as [H1 H2].
  destruct H as (_ & a & b & c & Ea & Eb & Ec & Hab & Hcb).
  split; [lia|]. exists c, b, a.
  rewrite !nth_error_rev by lia.
  replace (length x - 1 - (length x - 1 - i - 1))%nat with (S i) by lia.
  replace (length x - 1 - (length x - 1 - i))%nat with i by lia.
  replace (length x - 1 - S (length x - 1 - i))%nat with (i - 1)%nat by lia.
  repeat split; assumption.
Qed.

Lemma strict_max_at_rev : forall x i, (i < length x)%nat ->
  (strict_max_at (rev x) i <-> strict_max_at x (length x - 1 - i)).
Proof.
  intros x i Hi. split; intros H.
  - apply strict_max_at_rev1 in H. rewrite rev_involutive, rev_length in H. exact H.
  - apply strict_max_at_rev1 in H.
    replace (length x - 1 - (length x - 1 - i))%nat with i in H by lia. exact H.
Qed.

Lemma sorted_nat_ext : forall l1 l2 : list nat,
  StronglySorted lt l1 -> StronglySorted lt l2 -> (forall i, In i l1 <-> In i l2) -> l1 = l2.
Proof.
  induction l1 as [|a t IH]; intros l2 H1 H2 Hext.
  - destruct l2 as [|b t2]; [reflexivity|]. exfalso. apply (proj2 (Hext b)). left. reflexivity.
  - destruct l2 as [|b t2]; [exfalso; apply (proj1 (Hext a)); left; reflexivity|].
    apply StronglySorted_inv in H1. destruct H1 as [Hs1 Hf1].
    apply StronglySorted_inv in H2. destruct H2 as [Hs2 Hf2].
    rewrite Forall_forall in Hf1, Hf2.
    assert (Eab : a = b).
    { destruct (proj1 (Hext a) (or_introl eq_refl)) as [E|Hin]; [symmetry; exact E|].
      destruct (proj2 (Hext b) (or_introl eq_refl)) as [E|Hin']; [exact E|].
      specialize (Hf2 _ Hin). specialize (Hf1 _ Hin'). lia. }
    subst b. f_equal. apply IH; try assumption.
    intros i. split; intros Hi.
    + destruct (proj1 (Hext i) (or_intror Hi)) as [E|Hin]; [|exact Hin].
      specialize (Hf1 _ Hi). lia.
    + destruct (proj2 (Hext i) (or_intror Hi)) as [E|Hin]; [|exact Hin].
      specialize (Hf2 _ Hi). lia.
Qed.

Lemma sorted_lt_app : forall (A B : list nat), StronglySorted lt A -> StronglySorted lt B ->
  (forall a b, In a A -> In b B -> (a < b)%nat) -> StronglySorted lt (A ++ B).
Proof.
  induction A as [|x A IH]; intros B HA HB Hab; [exact HB|].
  apply StronglySorted_inv in HA. destruct HA as [HsA HfA]. cbn [app]. constructor.
  - apply IH; try assumption. intros a b Ha Hb. apply Hab; [right; exact Ha|exact Hb].
  - apply Forall_app. split; [exact HfA|]. apply Forall_forall. intros b Hb. apply Hab; [left; reflexivity|exact Hb].
Qed.

Lemma mirror_nat_sorted : forall N l, StronglySorted lt l -> (forall i, In i l -> (i < N)%nat) ->
  StronglySorted lt (mirror_nat N l).
Proof.
  intros N. unfold mirror_nat. induction l as [|a t IH]; intros Hs Hb; [constructor|].
  apply StronglySorted_inv in Hs. destruct Hs as [Hs Hf]. rewrite Forall_forall in Hf.
  cbn [map rev]. apply sorted_lt_app.
  - apply IH; [exact Hs|]. intros i Hi. apply Hb. right. exact Hi.
  - constructor; constructor.
  - intros x y Hx Hy. destruct Hy as [<-|[]]. apply in_rev in Hx. apply in_map_iff in Hx.
    destruct Hx as (j & <- & Hj). specialize (Hf _ Hj).
    assert (j < N)%nat by (apply Hb; right; exact Hj).
    assert (a < N)%nat by (apply Hb; left; reflexivity). lia.
Qed.

Lemma In_mirror_nat : forall N l i, In i (mirror_nat N l) <-> exists j, In j l /\ i = (N - 1 - j)%nat.
Proof.
  intros N l i. unfold mirror_nat. rewrite <- in_rev, in_map_iff. split.
  - intros (j & <- & Hj). exists j. auto.
  - intros (j & Hj & ->). exists j. auto.
Qed.

Lemma find_maxima_bound : forall x i, In i (find_maxima x) -> (1 <= i)%nat /\ (S i < length x)%nat.
Proof. intros x i H. apply find_maxima_spec in H. apply strict_max_at_bound. exact H. Qed.

Lemma maxima_rev : forall x, find_maxima (rev x) = mirror_nat (length x) (find_maxima x).
Proof.
  intros x. apply sorted_nat_ext.
  - apply find_maxima_sorted.
  - apply mirror_nat_sorted; [apply find_maxima_sorted|].
    intros i Hi. apply find_maxima_bound in Hi. lia.
  - intros i. rewrite In_mirror_nat. split.
    + intros H. assert (Hb := find_maxima_bound _ _ H). rewrite rev_length in Hb.
      apply find_maxima_spec in H. apply strict_max_at_rev in H; [|lia].
      exists (length x - 1 - i)%nat. split; [apply find_maxima_spec; exact H|lia].
    + intros (j & Hj & ->). assert (Hb := find_maxima_bound _ _ Hj).
      apply find_maxima_spec. apply strict_max_at_rev; [lia|].
      replace (length x - 1 - (length x - 1 - j))%nat with j by lia.
      apply find_maxima_spec. exact Hj.
Qed.

(* ---- extrema pairs (locations, magnitudes) ---------------------------------------------------- *)
Lemma extrema_PT : forall m x, m <> AbsPeaks ->
  extrema m x = (fst (extrema m x), map (fun i => nth i x 0) (fst (extrema m x))).
Proof.
  intros m x Hm. rewrite (surjective_pairing (extrema m x)) at 1. f_equal.
  rewrite extrema_mags_spec. destruct m; try contradiction; reflexivity.
Qed.

Lemma extrema_snd_PT : forall m x, m <> AbsPeaks ->
  snd (extrema m x) = map (fun i => nth i x 0) (fst (extrema m x)).
Proof. intros m x Hm. rewrite extrema_mags_spec. destruct m; try contradiction; reflexivity. Qed.

Lemma nth_zscale : forall c x i, nth i (zscale c x) 0 = c * nth i x 0.
Proof. intros c x i. unfold zscale. apply (nth_map0 (Z.mul c)). ring. Qed.

Lemma opp_zscale : forall c x, map Z.opp (zscale c x) = zscale c (map Z.opp x).
Proof. intros c x. unfold zscale. rewrite !map_map. apply map_ext. intros a. ring. Qed.

Lemma opp_zscale_neg : forall c x, map Z.opp (zscale c x) = zscale (- c) x.
Proof. intros c x. unfold zscale. rewrite !map_map. apply map_ext. intros a. ring. Qed.

Lemma mags_scale : forall c x (locs : list nat),
  map (fun i => nth i (zscale c x) 0) locs = zscale c (map (fun i => nth i x 0) locs).
Proof. intros c x locs. unfold zscale at 2. rewrite map_map. apply map_ext. intros i. apply nth_zscale. Qed.

Lemma extrema_locs_scale_pos : forall c m x, 0 < c -> m <> AbsPeaks ->
  fst (extrema m (zscale c x)) = fst (extrema m x).
Proof.
  intros c m x Hc Hm. unfold extrema. cbn [fst]. destruct m; try contradiction; cbn [transform].
  - apply maxima_scale_pos. exact Hc.
  - rewrite opp_zscale. apply maxima_scale_pos. exact Hc.
Qed.

Lemma extrema_scale_pos : forall c m x, 0 < c -> m <> AbsPeaks ->
  extrema m (zscale c x) = (fst (extrema m x), zscale c (snd (extrema m x))).
Proof.
  intros c m x Hc Hm. rewrite (extrema_PT m (zscale c x) Hm).
  rewrite (extrema_locs_scale_pos c m x Hc Hm). rewrite mags_scale.
  rewrite (extrema_snd_PT m x Hm). reflexivity.
Qed.

(* c < 0: the peaks of c x sit at the troughs of x and vice versa, magnitudes multiplied by c *)
Lemma extrema_locs_scale_neg : forall c m x, c < 0 -> m <> AbsPeaks ->
  fst (extrema m (zscale c x)) = fst (extrema (other m) x).
Proof.
  intros c m x Hc Hm. unfold extrema. cbn [fst]. destruct m; try contradiction; cbn [transform other].
  - apply maxima_scale_neg. exact Hc.
  - rewrite opp_zscale_neg. apply maxima_scale_pos. lia.
Qed.

Lemma extrema_scale_neg : forall c m x, c < 0 -> m <> AbsPeaks ->
  extrema m (zscale c x) = (fst (extrema (other m) x), zscale c (snd (extrema (other m) x))).
Proof.
  intros c m x Hc Hm. rewrite (extrema_PT m (zscale c x) Hm).
  rewrite (extrema_locs_scale_neg c m x Hc Hm). rewrite mags_scale.
  assert (Ho : other m <> AbsPeaks) by (destruct m; try contradiction; discriminate).
  rewrite (extrema_snd_PT (other m) x Ho). reflexivity.
Qed.

Lemma transform_rev : forall m x, transform m (rev x) = rev (transform m x).
Proof. intros m x. destruct m; cbn [transform]; [reflexivity|apply map_rev|apply map_rev]. Qed.

Lemma nth_map_in : forall (A B : Type) (f : A -> B) l i d d', (i < length l)%nat ->
  nth i (map f l) d = f (nth i l d').
Proof.
  intros A B f l i d d' H. rewrite nth_indep with (d' := f d') by (rewrite map_length; exact H).
  apply map_nth.
Qed.

Lemma extrema_rev : forall m x,
  extrema m (rev x) = (mirror_nat (length x) (fst (extrema m x)), rev (snd (extrema m x))).
Proof.
  intros m x. unfold extrema. cbn [fst snd]. rewrite transform_rev, maxima_rev, transform_length.
  set (y := transform m x). set (locs := find_maxima y).
  assert (Hy : length y = length x) by apply transform_length.
  assert (E : map (fun i => nth i (rev y) 0) (mirror_nat (length x) locs) = rev (map (fun i => nth i y 0) locs)).
  { unfold mirror_nat. rewrite <- map_rev. rewrite map_map. rewrite <- !map_rev.
    apply map_ext_in. intros i Hi. apply in_rev in Hi. apply find_maxima_bound in Hi.
    rewrite rev_nth by lia. f_equal. lia. }
  rewrite E. f_equal. destruct m; try reflexivity. rewrite map_rev. reflexivity.
Qed.

(* ---- padding ----------------------------------------------------------------------------------- *)
Lemma map_repeat_z : forall (f : Z -> Z) a n, map f (repeat a n) = repeat (f a) n.
Proof. intros f a n. induction n as [|n IH]; [reflexivity|]. cbn [repeat map]. rewrite IH. reflexivity. Qed.

Lemma repeat_snoc : forall (a : Z) n, repeat a n ++ [a] = a :: repeat a n.
Proof. intros a n. induction n as [|n IH]; [reflexivity|]. cbn [repeat app]. rewrite IH. reflexivity. Qed.

Lemma rev_repeat_z : forall (a : Z) n, rev (repeat a n) = repeat a n.
Proof.
  intros a n. induction n as [|n IH]; [reflexivity|]. cbn [repeat rev]. rewrite IH. apply repeat_snoc.
Qed.

Lemma last_rev_z : forall (l : list Z) d, last (rev l) d = hd d l.
Proof. intros l d. destruct l as [|a t]; [reflexivity|]. cbn [rev hd]. apply last_last. Qed.

Lemma hd_rev_z : forall (l : list Z) d, hd d (rev l) = last l d.
Proof. intros l d. rewrite <- (last_rev_z (rev l) d). rewrite rev_involutive. reflexivity. Qed.

Lemma hd_zscale : forall c l, hd 0 (zscale c l) = c * hd 0 l.
Proof. intros c l. destruct l as [|a t]; cbn; ring. Qed.

Lemma last_zscale : forall c l, last (zscale c l) 0 = c * last l 0.
Proof.
  intros c l. unfold zscale. replace 0 with (c * 0) at 1 by ring. apply (last_map Z (Z.mul c)).
Qed.

(* edge padding of the magnitudes scales with them and mirrors with them *)
Lemma pad_mags_scale : forall c M p, pad_edge (zscale c M) p = zscale c (pad_edge M p).
Proof.
  intros c M p. unfold pad_edge. rewrite hd_zscale, last_zscale. unfold zscale.
  rewrite !map_app, !map_repeat_z. reflexivity.
Qed.

Lemma pad_mags_rev : forall M p, pad_edge (rev M) p = rev (pad_edge M p).
Proof.
  intros M p. unfold pad_edge. rewrite hd_rev_z, last_rev_z, !rev_app_distr, !rev_repeat_z.
  rewrite app_assoc. reflexivity.
Qed.

Lemma mirror_length : forall K l, length (mirror K l) = length l.
Proof. intros K l. unfold mirror. rewrite rev_length, map_length. reflexivity. Qed.

Lemma last_indep : forall (l : list Z) d d', l <> [] -> last l d = last l d'.
Proof.
  induction l as [|a t IH]; intros d d' Hl; [contradiction|].
  destruct t as [|b t]; [reflexivity|].
  change (last (b :: t) d = last (b :: t) d'). apply IH. discriminate.
Qed.

Lemma hd_mirror : forall K l, l <> [] -> hd 0 (mirror K l) = K - last l 0.
Proof.
  intros K l Hl. unfold mirror. rewrite hd_rev_z.
  rewrite (last_indep _ 0 (K - 0)) by (destruct l; [contradiction|discriminate]).
  apply (last_map Z (fun v => K - v)).
Qed.

Lemma last_mirror : forall K l, l <> [] -> last (mirror K l) 0 = K - hd 0 l.
Proof.
  intros K l Hl. unfold mirror. rewrite last_rev_z. destruct l as [|a t]; [contradiction|]. reflexivity.
Qed.

Lemma nth_mirror : forall K l k, (k < length l)%nat -> nth k (mirror K l) 0 = K - nth (length l - 1 - k) l 0.
Proof.
  intros K l k Hk. unfold mirror. rewrite rev_nth by (rewrite map_length; exact Hk).
  rewrite map_length. rewrite (nth_map_in Z Z (fun v => K - v) l _ 0 0) by lia. f_equal. f_equal. lia.
Qed.

Lemma mirror_app : forall K A B, mirror K (A ++ B) = mirror K B ++ mirror K A.
Proof. intros K A B. unfold mirror. rewrite map_app, rev_app_distr. reflexivity. Qed.

(* odd reflection is an affine map of the locations: one chunk ... *)
Lemma reflect_chunk_mirror_eq : forall K a c, (2 <= length a)%nat -> (c <= length a - 1)%nat ->
  reflect_chunk (mirror K a) c = mirror K (reflect_chunk a c).
Proof.
  intros K a c Hl Hc.
  assert (Hne : a <> []) by (intros ->; cbn [length] in Hl; lia).
  unfold reflect_chunk. rewrite mirror_length, hd_mirror, last_mirror by exact Hne.
  rewrite !mirror_app, <- app_assoc. f_equal; [|f_equal].
  - unfold mirror at 2. rewrite map_map, <- map_rev. apply map_ext_in. intros k Hk. apply in_rev in Hk. apply in_seq in Hk.
    rewrite nth_mirror by lia. lia.
  - unfold mirror at 2. rewrite map_map, <- map_rev, rev_involutive. apply map_ext_in. intros k Hk. apply in_seq in Hk.
    rewrite nth_mirror by lia. replace (length a - 1 - (length a - 1 - k))%nat with k by lia. lia.
Qed.

Lemma reflect_chunk_length : forall a c, length (reflect_chunk a c) = (length a + 2 * c)%nat.
Proof.
  intros a c. unfold reflect_chunk. rewrite !app_length, !map_length, rev_length, !seq_length. lia.
Qed.

(* ... and the whole np.pad(.., 'reflect', reflect_type='odd') *)
Lemma pad_locs_rev : forall K fuel a p, (2 <= length a)%nat ->
  pad_reflect_odd fuel (mirror K a) p = mirror K (pad_reflect_odd fuel a p).
Proof.
  intros K. induction fuel as [|f IH]; intros a p Hl; [reflexivity|].
  cbn [pad_reflect_odd]. destruct (p =? 0)%nat; [reflexivity|].
  rewrite mirror_length.
  destruct (Nat.leb_spec (length a) 1) as [E|E]; [lia|].
  rewrite reflect_chunk_mirror_eq by lia.
  apply IH. rewrite reflect_chunk_length. lia.
Qed.

Lemma pad_reflect_odd_length_ge : forall fuel a p, (2 <= length a)%nat ->
  (2 <= length (pad_reflect_odd fuel a p))%nat.
Proof.
  induction fuel as [|f IH]; intros a p Hl; [exact Hl|].
  cbn [pad_reflect_odd]. destruct (p =? 0)%nat; [exact Hl|].
  destruct (Nat.leb_spec (length a) 1) as [E|E]; [lia|].
  apply IH. rewrite reflect_chunk_length. lia.
Qed.

(* max / min of a mirrored list *)
Lemma zmin_list_le : forall d l x, In x l -> zmin_list d l <= x.
Proof. induction l as [|a t IH]; cbn; intros x []; subst; [lia|]. specialize (IH _ H). lia. Qed.

Lemma zmin_list_le_d : forall d l, zmin_list d l <= d.
Proof. induction l as [|a t IH]; cbn; lia. Qed.

Lemma zmin_list_in : forall d l, zmin_list d l = d \/ In (zmin_list d l) l.
Proof.
  induction l as [|a t IH]; cbn; [auto|].
  destruct (Z.min_spec a (zmin_list d t)) as [[_ ->]|[_ ->]]; [auto|].
  destruct IH; auto.
Qed.

Lemma list_max_spec : forall l, l <> [] -> In (list_max l) l /\ forall x, In x l -> x <= list_max l.
Proof.
  intros l Hl. destruct l as [|a t]; [contradiction|]. unfold list_max. split.
  - destruct (zmax_list_in a t) as [->|H]; [left; reflexivity|right; exact H].
  - intros x [<-|Hx]; [apply zmax_list_ge_d|apply zmax_list_ge; exact Hx].
Qed.

Lemma list_min_spec : forall l, l <> [] -> In (list_min l) l /\ forall x, In x l -> list_min l <= x.
Proof.
  intros l Hl. destruct l as [|a t]; [contradiction|]. unfold list_min. split.
  - destruct (zmin_list_in a t) as [->|H]; [left; reflexivity|right; exact H].
  - intros x [<-|Hx]; [apply zmin_list_le_d|apply zmin_list_le; exact Hx].
Qed.

Lemma In_mirror : forall K l v, In v (mirror K l) <-> exists w, In w l /\ v = K - w.
Proof.
  intros K l v. unfold mirror. rewrite <- in_rev, in_map_iff. split.
  - intros (w & <- & Hw). exists w. auto.
  - intros (w & Hw & ->). exists w. auto.
Qed.

Lemma mirror_nonempty : forall K l, l <> [] -> mirror K l <> [].
Proof.
  intros K l Hl E. apply (f_equal (@length Z)) in E. rewrite mirror_length in E.
  destruct l; [contradiction|discriminate].
Qed.

Lemma list_max_mirror : forall K l, l <> [] -> list_max (mirror K l) = K - list_min l.
Proof.
  intros K l Hl. destruct (list_max_spec _ (mirror_nonempty K l Hl)) as [H1 H2].
  destruct (list_min_spec l Hl) as [H3 H4].
  apply In_mirror in H1. destruct H1 as (w & Hw & E).
  assert (K - list_min l <= list_max (mirror K l)).
  { apply H2. apply In_mirror. exists (list_min l). auto. }
  specialize (H4 _ Hw). lia.
Qed.

Lemma list_min_mirror : forall K l, l <> [] -> list_min (mirror K l) = K - list_max l.
Proof.
  intros K l Hl. destruct (list_min_spec _ (mirror_nonempty K l Hl)) as [H1 H2].
  destruct (list_max_spec l Hl) as [H3 H4].
  apply In_mirror in H1. destruct H1 as (w & Hw & E).
  assert (list_min (mirror K l) <= K - list_max l).
  { apply H2. apply In_mirror. exists (list_max l). auto. }
  specialize (H4 _ Hw). lia.
Qed.

(* the re-padding loop: its exit test is symmetric under t |-> N - 1 - t for integer locations *)
Lemma pad_loop_rev : forall fuel N p L M, (2 <= length L)%nat ->
  pad_loop fuel N p (mirror (N - 1) L) (rev M) = mirror_pad (N - 1) (pad_loop fuel N p L M).
Proof.
  induction fuel as [|f IH]; intros N p L M Hl; [reflexivity|].
  cbn [pad_loop].
  assert (Hne : L <> []) by (intros ->; cbn [length] in Hl; lia).
  rewrite list_max_mirror, list_min_mirror by exact Hne.
  assert (Ec : (N - 1 - list_min L <? N) || (0 <=? N - 1 - list_max L) = (list_max L <? N) || (0 <=? list_min L)).
  { rewrite orb_comm. f_equal.
    - destruct (Z.leb_spec 0 (N - 1 - list_max L)); destruct (Z.ltb_spec (list_max L) N); try reflexivity; lia.
    - destruct (Z.ltb_spec (N - 1 - list_min L) N); destruct (Z.leb_spec 0 (list_min L)); try reflexivity; lia. }
  rewrite Ec. destruct ((list_max L <? N) || (0 <=? list_min L)); [|reflexivity].
  rewrite pad_locs_rev by exact Hl. rewrite pad_mags_rev. apply IH.
  apply pad_reflect_odd_length_ge. exact Hl.
Qed.

Lemma pad_loop_scale : forall c fuel N p L M,
  pad_loop fuel N p L (zscale c M) = scale_pad c (pad_loop fuel N p L M).
Proof.
  intros c. induction fuel as [|f IH]; intros N p L M; [reflexivity|].
  cbn [pad_loop]. destruct ((list_max L <? N) || (0 <=? list_min L)); [|reflexivity].
  rewrite pad_mags_scale. apply IH.
Qed.

(* ---- get_padded_extrema ------------------------------------------------------------------------- *)
Lemma gpe_scale_pos : forall c x p m, 0 < c -> m <> AbsPeaks ->
  get_padded_extrema (zscale c x) p m = scale_pad c (get_padded_extrema x p m).
Proof.
  intros c x p m Hc Hm. unfold get_padded_extrema. rewrite (extrema_scale_pos c m x Hc Hm).
  destruct (extrema m x) as [locs mags]. cbn [fst snd]. rewrite zscale_length.
  destruct (length locs <=? 1)%nat; [reflexivity|].
  destruct (Nat.min p (length locs) =? 0)%nat; [reflexivity|].
  rewrite pad_mags_scale. apply pad_loop_scale.
Qed.

Lemma gpe_scale_neg : forall c x p m, c < 0 -> m <> AbsPeaks ->
  get_padded_extrema (zscale c x) p m = scale_pad c (get_padded_extrema x p (other m)).
Proof.
  intros c x p m Hc Hm. unfold get_padded_extrema. rewrite (extrema_scale_neg c m x Hc Hm).
  destruct (extrema (other m) x) as [locs mags]. cbn [fst snd]. rewrite zscale_length.
  destruct (length locs <=? 1)%nat; [reflexivity|].
  destruct (Nat.min p (length locs) =? 0)%nat; [reflexivity|].
  rewrite pad_mags_scale. apply pad_loop_scale.
Qed.

Lemma of_nat_mirror : forall N (locs : list nat), (forall i, In i locs -> (i < N)%nat) ->
  map Z.of_nat (mirror_nat N locs) = mirror (Z.of_nat N - 1) (map Z.of_nat locs).
Proof.
  intros N locs Hb. unfold mirror_nat, mirror. rewrite map_rev, !map_map. f_equal.
  apply map_ext_in. intros i Hi. specialize (Hb i Hi). lia.
Qed.

Lemma mirror_nat_length : forall N l, length (mirror_nat N l) = length l.
Proof. intros N l. unfold mirror_nat. rewrite rev_length, map_length. reflexivity. Qed.

Lemma gpe_rev : forall x p m,
  get_padded_extrema (rev x) p m = mirror_pad (Z.of_nat (length x) - 1) (get_padded_extrema x p m).
Proof.
  intros x p m. unfold get_padded_extrema. rewrite extrema_rev.
  assert (Hb := extrema_locs_bounds m x).
  destruct (extrema m x) as [locs mags]. cbn [fst snd] in *. rewrite mirror_nat_length, rev_length.
  destruct (Nat.leb_spec (length locs) 1) as [E|E]; [reflexivity|].
  rewrite of_nat_mirror by (intros i Hi; apply Hb in Hi; lia).
  destruct (Nat.min p (length locs) =? 0)%nat; [reflexivity|].
  assert (Hl : (2 <= length (map Z.of_nat locs))%nat) by (rewrite map_length; lia).
  rewrite pad_locs_rev by exact Hl. rewrite pad_mags_rev.
  apply pad_loop_rev. apply pad_reflect_odd_length_ge. exact Hl.
Qed.

(* ---- envelopes: the INTERPOLANT ORACLE and its contract ------------------------------------------ *)
Lemma rev_map_seq : forall (g : nat -> Z) n,
  rev (map g (seq 0 n)) = map (fun k => g (n - 1 - k)%nat) (seq 0 n).
Proof.
  intros g. induction n as [|n IH]; [reflexivity|].
  rewrite seq_S at 1. rewrite map_app, rev_app_distr. cbn [map rev app Nat.add]. rewrite IH.
  cbn [seq map]. f_equal; [f_equal; lia|].
  rewrite <- seq_shift, map_map. apply map_ext. intros k. f_equal. lia.
Qed.

Lemma rev_map_zrange : forall (f : Z -> Z) N, 0 <= N ->
  rev (map f (zrange 0 N)) = map (fun t => f (N - 1 - t)) (zrange 0 N).
Proof.
  intros f N HN. unfold zrange. rewrite !map_map. rewrite rev_map_seq.
  apply map_ext_in. intros k Hk. apply in_seq in Hk. f_equal. lia.
Qed.

Section Envelopes.
  Variable hinterp : list Z -> list Z -> Z -> Z.
  (* ORACLE CONTRACT (trusted; validated numerically against scipy by the harness):
     homogeneity of degree one in the magnitudes - cubic splines are linear in the data, PCHIP slopes are
     homogeneous of degree one - and symmetry under reflection of the knots *)
  Hypothesis interp_scale : forall c L M t, hinterp L (zscale c M) t = c * hinterp L M t.
  Hypothesis interp_rev : forall K L M t, hinterp (mirror K L) (rev M) (K - t) = hinterp L M t.

  Lemma envelope_scale_pos : forall c p m x, 0 < c -> m <> AbsPeaks ->
    envelope hinterp p m (zscale c x) = option_map (zscale c) (envelope hinterp p m x).
  Proof.
    intros c p m x Hc Hm. unfold envelope. rewrite gpe_scale_pos, zscale_length by assumption.
    destruct (get_padded_extrema x p m) as [|L M|]; cbn [scale_pad option_map]; try reflexivity.
    destruct (env_grid L (Z.of_nat (length x))) as [g|]; cbn [option_map]; [|reflexivity].
    f_equal. unfold zscale at 2. rewrite map_map. apply map_ext. intros t. apply interp_scale.
  Qed.

  Lemma envelope_scale_neg : forall c p m x, c < 0 -> m <> AbsPeaks ->
    envelope hinterp p m (zscale c x) = option_map (zscale c) (envelope hinterp p (other m) x).
  Proof.
    intros c p m x Hc Hm. unfold envelope. rewrite gpe_scale_neg, zscale_length by assumption.
    destruct (get_padded_extrema x p (other m)) as [|L M|]; cbn [scale_pad option_map]; try reflexivity.
    destruct (env_grid L (Z.of_nat (length x))) as [g|]; cbn [option_map]; [|reflexivity].
    f_equal. unfold zscale at 2. rewrite map_map. apply map_ext. intros t. apply interp_scale.
  Qed.

  Lemma envelope_rev : forall p m x, (1 <= p)%nat ->
    envelope hinterp p m (rev x) = option_map (@rev Z) (envelope hinterp p m x).
  Proof.
    intros p m x Hp. unfold envelope.
    destruct (get_padded_extrema x p m) as [|L M|] eqn:E.
    - rewrite gpe_rev, E. reflexivity.
    - assert (E' : get_padded_extrema (rev x) p m = Padded (mirror (Z.of_nat (length x) - 1) L) (rev M))
        by (rewrite gpe_rev, E; reflexivity).
      rewrite E'. rewrite (envelope_on_sample_grid _ _ _ _ _ Hp E'). rewrite (envelope_on_sample_grid _ _ _ _ _ Hp E).
      cbn [option_map]. f_equal. rewrite rev_length. rewrite rev_map_zrange by lia.
      apply map_ext. intros t.
      replace t with (Z.of_nat (length x) - 1 - (Z.of_nat (length x) - 1 - t)) at 1 by ring.
      apply interp_rev.
    - rewrite gpe_rev, E. reflexivity.
  Qed.

  Lemma envelope_length : forall p m x u, envelope hinterp p m x = Some u -> length u = length x.
  Proof.
    intros p m x u H. unfold envelope in H.
    destruct (get_padded_extrema x p m) as [|L M|]; try discriminate.
    unfold env_grid in H.
    destruct (Z.eqb_spec (Z.of_nat (length (filter (fun v => (0 <=? v) && (v <? Z.of_nat (length x)))
                                   (zrange (hd 0 L) (last L 0))))) (Z.of_nat (length x))) as [Eq|Eq]; [|discriminate].
    inversion H; subst. rewrite map_length. lia.
  Qed.

  Lemma envs_scale_pos : forall c p x, 0 < c ->
    envs_c hinterp p (zscale c x) = option_map (env_same (zscale c)) (envs_c hinterp p x).
  Proof.
    intros c p x Hc. unfold envs_c. rewrite !envelope_scale_pos by (assumption || discriminate).
    destruct (envelope hinterp p Peaks x), (envelope hinterp p Troughs x); reflexivity.
  Qed.

  (* c < 0: upper (c x) = c lower x, lower (c x) = c upper x *)
  Lemma envs_scale_neg : forall c p x, c < 0 ->
    envs_c hinterp p (zscale c x) = option_map (env_swap (zscale c)) (envs_c hinterp p x).
  Proof.
    intros c p x Hc. unfold envs_c. rewrite !envelope_scale_neg by (assumption || discriminate).
    cbn [other]. destruct (envelope hinterp p Peaks x), (envelope hinterp p Troughs x); reflexivity.
  Qed.

  Lemma envs_rev : forall p x, (1 <= p)%nat ->
    envs_c hinterp p (rev x) = option_map (env_same (@rev Z)) (envs_c hinterp p x).
  Proof.
    intros p x Hp. unfold envs_c. rewrite !envelope_rev by exact Hp.
    destruct (envelope hinterp p Peaks x), (envelope hinterp p Troughs x); reflexivity.
  Qed.

  Lemma envs_length : forall p x u l, envs_c hinterp p x = Some (u, l) -> length u = length x /\ length l = length x.
  Proof.
    intros p x u l H. unfold envs_c in H.
    destruct (envelope hinterp p Peaks x) as [u'|] eqn:Eu; [|discriminate].
    destruct (envelope hinterp p Troughs x) as [l'|] eqn:El; [|discriminate].
    inversion H; subst. split; eapply envelope_length; eassumption.
  Qed.
End Envelopes.

(* ============================================================================================ *)
(* C. the concrete instances: rescaling by c > 0, by c < 0 (sign flip: c = -1), time reversal   *)
(* ============================================================================================ *)
Section ConcreteSift.
  Variable hinterp : list Z -> list Z -> Z -> Z.
  Hypothesis interp_scale : forall c L M t, hinterp L (zscale c M) t = c * hinterp L M t.
  Hypothesis interp_rev : forall K L M t, hinterp (mirror K L) (rev M) (K - t) = hinterp L M t.

  Variable pad : nat.
  Variable step : Z.
  Variable thr : list Z.
  Variable method : stop_method.
  Variable max_iters : nat.
  Variable use_energy : bool.

  Local Notation gni := (gni_c hinterp pad step thr method max_iters use_energy).
  Local Notation TT := (fun _ : list Z => True).

  Lemma gni_scale_pos_Z : forall c v0 X, 0 < c -> gni v0 (zscale c X) = map_result (zscale c) (gni v0 X).
  Proof.
    intros c v0 X Hc. unfold gni_c.
    apply (get_next_imf_commutes (list Z) TT Toys.vsub (zscale step) vavg_h (envs_c hinterp pad) _ _ energy_fires
             method max_iters use_energy (zscale c) (env_same (zscale c))); try (intros; exact I); try (intros; split; exact I).
    - intros a b _ _. apply zscale_vsub.
    - intros a _. apply zscale_zscale_comm.
    - intros x _. apply envs_scale_pos; assumption.
    - intros u l _ _. cbn [env_same fst snd]. symmetry. apply zscale_vavg_h.
    - intros p x1 _ _. apply sd_metric_scale. lia.
    - intros u l _ _. cbn [env_same fst snd]. apply rilling_scale. lia.
    - intros Y r _ _. apply energy_scale. lia.
  Qed.

  Lemma gni_scale_neg_Z : forall c v0 X, c < 0 -> gni v0 (zscale c X) = map_result (zscale c) (gni v0 X).
  Proof.
    intros c v0 X Hc. unfold gni_c.
    apply (get_next_imf_commutes (list Z) TT Toys.vsub (zscale step) vavg_h (envs_c hinterp pad) _ _ energy_fires
             method max_iters use_energy (zscale c) (env_swap (zscale c))); try (intros; exact I); try (intros; split; exact I).
    - intros a b _ _. apply zscale_vsub.
    - intros a _. apply zscale_zscale_comm.
    - intros x _. apply envs_scale_neg; assumption.
    - intros u l _ _. cbn [env_swap fst snd]. rewrite zscale_vavg_h. unfold vavg_h. apply zip_with_comm. intros; ring.
    - intros p x1 _ _. apply sd_metric_scale. lia.
    - intros u l _ _. cbn [env_swap fst snd]. apply rilling_scale_swap. lia.
    - intros Y r _ _. apply energy_scale. lia.
  Qed.

  (* every non-zero constant *)
  Lemma gni_scale_Z : forall c v0 X, c <> 0 -> gni v0 (zscale c X) = map_result (zscale c) (gni v0 X).
  Proof.
    intros c v0 X Hc. destruct (Z.lt_trichotomy c 0) as [H|[H|H]]; [apply gni_scale_neg_Z; exact H|contradiction|].
    apply gni_scale_pos_Z. lia.
  Qed.

  (* the sign flip *)
  Lemma gni_flip_Z : forall v0 X, gni v0 (zneg X) = map_result zneg (gni v0 X).
  Proof.
    intros v0 X. rewrite zneg_zscale. rewrite gni_scale_neg_Z by lia.
    destruct (gni v0 X) as [q f n| |]; cbn [map_result]; reflexivity.
  Qed.

  (* time reversal; wf = the signal has N samples *)
  Lemma gni_rev_Z : forall v0 X, (1 <= pad)%nat -> gni v0 (rev X) = map_result (@rev Z) (gni v0 X).
  Proof.
    intros v0 X Hp. unfold gni_c.
    apply (get_next_imf_commutes (list Z) (fun v => length v = length X) Toys.vsub (zscale step) vavg_h
             (envs_c hinterp pad) _ _ energy_fires method max_iters use_energy (@rev Z) (env_same (@rev Z))).
    - intros a b Ha Hb. unfold Toys.vsub. rewrite zip_with_length, Ha, Hb. apply Nat.min_id.
    - intros a Ha. rewrite zscale_length. exact Ha.
    - intros a b Ha Hb. unfold vavg_h. rewrite zip_with_length, Ha, Hb. apply Nat.min_id.
    - intros x u l Hx He. destruct (envs_length hinterp pad x u l He) as [H1 H2]. rewrite H1, H2. auto.
    - intros a b Ha Hb. unfold Toys.vsub. apply zip_with_rev. congruence.
    - intros a _. unfold zscale. symmetry. apply map_rev.
    - intros x _. apply envs_rev; assumption.
    - intros u l Hu Hl. cbn [env_same fst snd]. unfold vavg_h. symmetry. apply zip_with_rev. congruence.
    - intros p x1 H1 H2. apply sd_rev. congruence.
    - intros u l Hu Hl. cbn [env_same fst snd]. apply rilling_rev. congruence.
    - intros Y r _ _. apply energy_rev.
    - reflexivity.
  Qed.

  Lemma gni_length : forall v0 X p f n, gni v0 X = Imf p f n -> length p = length X.
  Proof.
    intros v0 X p f n H. unfold gni_c in H.
    apply (get_next_imf_wf (list Z) (fun v => length v = length X) Toys.vsub (zscale step) vavg_h
             (envs_c hinterp pad) (sd_stop (cg thr 0) (cg thr 1))
             (rilling_stop (cg thr 2) (cg thr 3) (cg thr 4) (cg thr 5) (cg thr 6) (cg thr 7))
             energy_fires method max_iters use_energy) with (v0 := v0) (X := X) (f := f) (n := n).
    - intros a b Ha Hb. unfold Toys.vsub. rewrite zip_with_length, Ha, Hb. apply Nat.min_id.
    - intros a Ha. rewrite zscale_length. exact Ha.
    - intros a b Ha Hb. unfold vavg_h. rewrite zip_with_length, Ha, Hb. apply Nat.min_id.
    - intros x u l Hx He. destruct (envs_length hinterp pad x u l He) as [H1 H2]. rewrite H1, H2. auto.
    - reflexivity.
    - exact H.
  Qed.

  (* ---- the classic sift ------------------------------------------------------------------------ *)
  Local Notation sift := (sift_c hinterp pad step thr method max_iters use_energy).

  (* every IMF of c X is c times the IMF of X, with the absolute sift threshold scaled by |c| *)
  Lemma sift_scale_Z : forall c thresh2 fuel cap X, c <> 0 ->
    sift (Z.abs c * thresh2) fuel cap (zscale c X) =
    (map (zscale c) (fst (sift thresh2 fuel cap X)), snd (sift thresh2 fuel cap X)).
  Proof.
    intros c thresh2 fuel cap X Hc. unfold sift_c. rewrite zscale_length.
    change (@nil (list Z)) with (map (zscale c) (@nil (list Z))) at 1.
    apply (sift_commutes (list Z) TT (Toys.vzero (length X)) Toys.vadd Toys.vsub (small thresh2) (small (Z.abs c * thresh2))
             (fun _ _ => gni false) (fun _ _ => gni false) (zscale c)); try (intros; exact I); try constructor.
    - apply zscale_vzero.
    - intros a b _ _. apply zscale_vadd.
    - intros a b _ _. apply zscale_vsub.
    - intros x _. apply small_scale. exact Hc.
    - intros k acc r _ _. apply gni_scale_Z. exact Hc.
  Qed.

  Lemma sift_rev_Z : forall thresh2 fuel cap X, (1 <= pad)%nat ->
    sift thresh2 fuel cap (rev X) =
    (map (@rev Z) (fst (sift thresh2 fuel cap X)), snd (sift thresh2 fuel cap X)).
  Proof.
    intros thresh2 fuel cap X Hp. unfold sift_c. rewrite rev_length.
    change (@nil (list Z)) with (map (@rev Z) (@nil (list Z))) at 1.
    apply (sift_commutes (list Z) (fun v => length v = length X) (Toys.vzero (length X)) Toys.vadd Toys.vsub
             (small thresh2) (small thresh2) (fun _ _ => gni false) (fun _ _ => gni false) (@rev Z)).
    - unfold Toys.vzero. apply repeat_length.
    - intros a b Ha Hb. unfold Toys.vadd. rewrite zip_with_length, Ha, Hb. apply Nat.min_id.
    - intros a b Ha Hb. unfold Toys.vsub. rewrite zip_with_length, Ha, Hb. apply Nat.min_id.
    - apply rev_vzero.
    - intros a b Ha Hb. unfold Toys.vadd. apply zip_with_rev. congruence.
    - intros a b Ha Hb. unfold Toys.vsub. apply zip_with_rev. congruence.
    - intros x _. apply small_rev.
    - intros k acc r p f n _ Hr H. rewrite (gni_length _ _ _ _ _ H). exact Hr.
    - intros k acc r _ _. apply gni_rev_Z. exact Hp.
    - reflexivity.
    - constructor.
  Qed.
End ConcreteSift.

(* ============================================================================================ *)
(* D. mask_sift                                                                                 *)
(* ============================================================================================ *)
Section MaskSiftCommutes.
  Variables V S : Type.
  Variable wf : V -> Prop.
  Variable vzero : V.
  Variable vadd vsub : V -> V -> V.
  Variable vmean : list V -> V.
  Variable gni : V -> gni_result V.
  Variable vscal : S -> V -> V.
  Variable cosv : nat -> nat -> nat -> V.
  Variable std : V -> S.
  Variable amp_mul : nat -> S -> S.
  Variable small small' : V -> bool.
  Variable mode : amp_mode.
  Variable nphases : nat.
  Variable s : V -> V.

  Hypothesis wf_zero : wf vzero.
  Hypothesis wf_add : forall a b, wf a -> wf b -> wf (vadd a b).
  Hypothesis wf_sub : forall a b, wf a -> wf b -> wf (vsub a b).
  Hypothesis wf_mean : forall l, Forall wf l -> wf (vmean l).
  Hypothesis wf_mask : forall a k j, wf (vscal a (cosv nphases k j)).
  Hypothesis s_zero : s vzero = vzero.
  Hypothesis s_add : forall a b, wf a -> wf b -> s (vadd a b) = vadd (s a) (s b).
  Hypothesis s_sub : forall a b, wf a -> wf b -> s (vsub a b) = vsub (s a) (s b).
  Hypothesis small_inv : forall x, wf x -> small' (s x) = small x.
  Hypothesis gni_wf : forall y p f n, wf y -> gni y = Imf p f n -> wf p.
  Hypothesis gni_equiv : forall y, wf y -> gni (s y) = map_result s (gni y).
  Hypothesis vmean_perm : forall l l', Permutation l l' -> vmean l = vmean l'.
  Hypothesis vmean_equiv : forall l, Forall wf l -> s (vmean l) = vmean (map s l).

  Local Notation masks := (masks_of V S vscal cosv std amp_mul mode nphases).
  Local Notation mextract := (mask_extract V S vadd vsub vmean gni vscal cosv std amp_mul mode nphases).

  (* what the scaling law needs of the mask family: the masks built for s X are a rearrangement of the
     transformed masks built for X *)
  Hypothesis masks_perm : forall X k acc, Permutation (masks (s X) k (map s acc)) (map s (masks X k acc)).

  Lemma masks_wf : forall X k acc, Forall wf (masks X k acc).
  Proof.
    intros X k acc. unfold masks_of. apply Forall_forall. intros m Hm.
    apply in_map_iff in Hm. destruct Hm as (j & <- & _). apply wf_mask.
  Qed.

  Lemma mask_sift_commutes : forall fuel cap X, wf X ->
    peel_loop V vzero vadd vsub small' (mextract (s X)) fuel cap (s X) [] =
    (map s (fst (peel_loop V vzero vadd vsub small (mextract X) fuel cap X [])),
     snd (peel_loop V vzero vadd vsub small (mextract X) fuel cap X [])).
  Proof.
    intros fuel cap X HX.
    change (@nil V) with (map s (@nil V)) at 1.
    apply (sift_commutes V wf vzero vadd vsub small small' (mextract X) (mextract (s X)) s); try assumption.
    - intros k acc r p f n Ha Hr H. unfold mask_extract in H.
      apply (gni_mask_wf V wf vadd vsub vmean gni wf_add wf_sub gni_wf _ _ _ _ _ Hr (masks_wf X k acc) wf_mean H).
    - intros k acc r Ha Hr. unfold mask_extract.
      apply (gni_mask_commutes V wf vadd vsub vmean gni s wf_add wf_sub s_add s_sub gni_wf gni_equiv vmean_perm vmean_equiv);
        [exact Hr|apply masks_wf|apply masks_perm].
    - constructor.
  Qed.
End MaskSiftCommutes.

(* ============================================================================================ *)
(* E. the executable instance: premises met, and the refutation for an odd number of phases      *)
(* ============================================================================================ *)
Lemma toy_hinterp_scale : forall c L M t, toy_hinterp L (zscale c M) t = c * toy_hinterp L M t.
Proof. intros c L M t. unfold toy_hinterp. rewrite hd_zscale, last_zscale. ring. Qed.

Lemma toy_hinterp_rev : forall K L M t, toy_hinterp (mirror K L) (rev M) (K - t) = toy_hinterp L M t.
Proof. intros K L M t. unfold toy_hinterp. rewrite hd_rev_z, last_rev_z. ring. Qed.

Lemma toy_gni_c_flip : forall y, toy_gni_c (zneg y) = map_result zneg (toy_gni_c y).
Proof. intros y. unfold toy_gni_c. apply gni_flip_Z. exact toy_hinterp_scale. Qed.

Definition c02_witness : list Z := [0; 5; 1; 7; -2; 4; 0; 9; 3; 6; -1; 2].

(* nphases = 1 (an odd number of phases): the extraction obeys the sign-flip law, the amplitude oracle gives
   the same amplitude for X and -X, and still the masked extraction of -X is NOT minus that of X
   (here even the continue flag differs); with two phases (m, -m) the law holds *)
Lemma mask_scale_neg_odd_refuted :
  exists X : list Z,
    (forall y, toy_gni_c (zneg y) = map_result zneg (toy_gni_c y)) /\
    maxabs (zneg X) = maxabs X /\
    toy_gni_mask 1 (zneg X) <> map_result zneg (toy_gni_mask 1 X) /\
    toy_gni_mask 2 (zneg X) = map_result zneg (toy_gni_mask 2 X).
Proof.
  exists c02_witness. split; [exact toy_gni_c_flip|]. split; [vm_compute; reflexivity|].
  split; [vm_compute; discriminate|vm_compute; reflexivity].
Qed.

(* the premises of the concrete theorems are met by an executable instance, non-trivially: two components,
   the first extracted after one full iteration of the SD rule, no error *)
Lemma c02_premises_hold :
  let thr := [100; 1; 1; 16; 1; 2; 1; 16] in
  let r := sift_c toy_hinterp 2 1 thr SD 20 false 2 10 None c02_witness in
  length (fst r) = 2%nat /\ raised (snd r) = false /\
  sift_c toy_hinterp 2 1 thr SD 20 false 6 10 None (zscale (-3) c02_witness) = (map (zscale (-3)) (fst r), snd r) /\
  sift_c toy_hinterp 2 1 thr SD 20 false 2 10 None (rev c02_witness) = (map (@rev Z) (fst r), snd r) /\
  (forall c L M t, toy_hinterp L (zscale c M) t = c * toy_hinterp L M t) /\
  (forall K L M t, toy_hinterp (mirror K L) (rev M) (K - t) = toy_hinterp L M t).
Proof.
  cbv zeta. split; [vm_compute; reflexivity|]. split; [vm_compute; reflexivity|].
  split; [vm_compute; reflexivity|]. split; [vm_compute; reflexivity|].
  split; [exact toy_hinterp_scale|exact toy_hinterp_rev].
Qed.
