(* Proofs of the control-skeleton tie of the index maps (notes/TIE_MAPS.md): the translated programs of
   gen/Gen_Skel_Maps.v compute, under the table of model/SkelPrims_Maps.v, what model/CycleMaps.v defines. *)
From Coq Require Import String List Bool Arith ZArith Lia.
From EmdV Require Import lib.PyLoop lib.PyLoopTools lib.NpLite model.CycleMaps proofs.CycleMapsFacts gen.Gen_Skel_Maps
  model.SkelPrims_Maps.
Import ListNotations.
Open Scope string_scope.

(* ---- list facts ----------------------------------------------------------------------------------- *)
Lemma py_index_of_nat : forall (B : Type) (l : list B) (i : nat), py_index l (Z.of_nat i) = nth_error l i.
Proof. intros B l i. rewrite py_index_nonneg by lia. rewrite Nat2Z.id. reflexivity. Qed.

Lemma positions_from_mask : forall (B : Type) (p : B -> bool) (l : list B) (i : nat),
  positions_from (fun b : bool => b) (map p l) i = positions_from p l i.
Proof.
  intros B p l. induction l as [|a t IH]; intros i; cbn [map positions_from]; [reflexivity|].
  rewrite IH. reflexivity.
Qed.

Lemma positions_from_ext : forall (B : Type) (p q : B -> bool) (l : list B) (i : nat),
  (forall x, p x = q x) -> positions_from p l i = positions_from q l i.
Proof.
  intros B p q l. induction l as [|a t IH]; intros i H; cbn [positions_from]; [reflexivity|].
  rewrite H, (IH (S i) H). reflexivity.
Qed.

(* np.where(vect == k)[0] is the model's positions (Z.eqb k) vect *)
Lemma where_eq : forall (l : list Z) (k : Z),
  positions (fun b : bool => b) (map (fun c => Z.eqb c k) l) = positions (Z.eqb k) l.
Proof.
  intros l k. unfold positions. rewrite positions_from_mask.
  apply positions_from_ext. intros x. apply Z.eqb_sym.
Qed.


(* ---- projections: list facts ----------------------------------------------------------------------- *)
Lemma project_loop_length : forall (B : Type) vect (vals : list B) ii out,
  length (project_loop vect vals ii out) = length out.
Proof.
  intros B vect vals. induction vals as [|v t IH]; intros ii out; cbn [project_loop]; [reflexivity|].
  rewrite IH. apply assign_at_length.
Qed.

Lemma project_loop_app : forall (B : Type) vect (a b : list B) ii out,
  project_loop vect (a ++ b) ii out = project_loop vect b (ii + length a) (project_loop vect a ii out).
Proof.
  intros B vect a. induction a as [|v t IH]; intros b ii out; cbn [app project_loop length].
  - rewrite Nat.add_0_r. reflexivity.
  - rewrite IH. replace (S ii + length t)%nat with (ii + S (length t))%nat by lia. reflexivity.
Qed.

Lemma join_opt_assign : forall (B : Type) (out : list (option (option B))) inds (c : option B) i,
  join_opt (assign_at out inds (Some c) i) = assign_at (join_opt out) inds c i.
Proof.
  intros B out. induction out as [|x t IH]; intros inds c i; [reflexivity|].
  unfold join_opt in *. cbn [assign_at map]. rewrite IH. f_equal.
  destruct (existsb (Nat.eqb i) inds); [destruct c; reflexivity|reflexivity].
Qed.

Lemma firstn_snoc_nth : forall (B : Type) (l : list B) d c,
  nth_error l d = Some c -> firstn (S d) l = (firstn d l ++ [c])%list.
Proof.
  intros B l. induction l as [|a t IH]; intros d c H; [destruct d; discriminate|].
  destruct d as [|d]; cbn [nth_error] in H.
  - inversion H. reflexivity.
  - cbn [firstn app]. f_equal. apply IH. exact H.
Qed.

(* out after d iterations of the projection loop (cells = the per-item values, nan allowed) *)
Definition out_at {B : Type} (vect : list Z) (cells : list (option B)) (d : nat) : list (option B) :=
  join_opt (project_loop vect (firstn d cells) 0 (map (fun _ => None) vect)).

Lemma out_at_length : forall (B : Type) vect (cells : list (option B)) d, length (out_at vect cells d) = length vect.
Proof.
  intros. unfold out_at, join_opt. rewrite map_length, project_loop_length, map_length. reflexivity.
Qed.

Lemma out_at_0 : forall (B : Type) vect (cells : list (option B)), out_at vect cells 0 = map (fun _ => None) vect.
Proof. intros. unfold out_at, join_opt. cbn [firstn project_loop]. rewrite map_map. reflexivity. Qed.

Lemma out_at_all : forall (B : Type) vect (cells : list (option B)),
  out_at vect cells (length cells) = join_opt (project_by vect cells).
Proof. intros. unfold out_at, project_by. rewrite firstn_all. reflexivity. Qed.

Lemma out_at_step : forall (B : Type) vect (cells : list (option B)) d c,
  nth_error cells d = Some c ->
  assign_at (out_at vect cells d) (positions (Z.eqb (Z.of_nat d)) vect) c 0 = out_at vect cells (S d).
Proof.
  intros B vect cells d c H. unfold out_at.
  rewrite (firstn_snoc_nth _ cells d c H), project_loop_app. cbn [project_loop].
  rewrite firstn_length_le by (apply Nat.lt_le_incl, nth_error_Some; congruence).
  cbn [Nat.add]. rewrite join_opt_assign. reflexivity.
Qed.

Lemma positions_in_range : forall (B : Type) (p : B -> bool) (l : list B) n, n = length l ->
  forallb (fun k => (k <? n)%nat) (positions p l) = true.
Proof.
  intros B p l n ->. apply forallb_forall. intros k Hk. apply In_positions in Hk.
  destruct Hk as (x & Hx & _). apply Nat.ltb_lt, nth_error_Some. congruence.
Qed.

(* the model's projections take values without nan: cells = map Some vals *)
Lemma join_project_some : forall (B : Type) vect (vals : list B),
  join_opt (project_by vect (map Some vals)) = project_by vect vals.
Proof.
  intros B vect vals. unfold project_by.
  assert (G : forall vals ii (out : list (option B)) (out' : list (option (option B))),
            join_opt out' = out ->
            join_opt (project_loop vect (map Some vals) ii out') = project_loop vect vals ii out).
  { induction vals0 as [|v t IH]; intros ii out out' H; cbn [map project_loop]; [exact H|].
    apply IH. rewrite join_opt_assign, H. reflexivity. }
  apply G. unfold join_opt. rewrite map_map. reflexivity.
Qed.

(* ---- the segments of the four loop programs: prefix / for / suffix, as closed terms ---------------- *)
Definition pcs_pre : list stmt := Eval cbv in firstn 1 (spine prog_project_cycles_to_samples).
Definition pcs_for : stmt := Eval cbv in nth 1 (spine prog_project_cycles_to_samples) SSkip.
Definition pcs_post : list stmt := Eval cbv in skipn 2 (spine prog_project_cycles_to_samples).
Definition pcs_body : stmt := Eval cbv in match pcs_for with SFor _ _ b => b | _ => SSkip end.
Definition pcs_iter : expr := Eval cbv in match pcs_for with SFor _ it _ => it | _ => ENone end.

Definition psc_pre : list stmt := Eval cbv in firstn 1 (spine prog_project_subset_to_cycles).
Definition psc_for : stmt := Eval cbv in nth 1 (spine prog_project_subset_to_cycles) SSkip.
Definition psc_post : list stmt := Eval cbv in skipn 2 (spine prog_project_subset_to_cycles).
Definition psc_body : stmt := Eval cbv in match psc_for with SFor _ _ b => b | _ => SSkip end.
Definition psc_iter : expr := Eval cbv in match psc_for with SFor _ it _ => it | _ => ENone end.

Definition pchs_pre : list stmt := Eval cbv in firstn 1 (spine prog_project_chain_to_subset).
Definition pchs_for : stmt := Eval cbv in nth 1 (spine prog_project_chain_to_subset) SSkip.
Definition pchs_post : list stmt := Eval cbv in skipn 2 (spine prog_project_chain_to_subset).
Definition pchs_body : stmt := Eval cbv in match pchs_for with SFor _ _ b => b | _ => SSkip end.
Definition pchs_iter : expr := Eval cbv in match pchs_for with SFor _ it _ => it | _ => ENone end.

Definition pss_pre : list stmt := Eval cbv in firstn 2 (spine prog_project_subset_to_samples).
Definition pss_for : stmt := Eval cbv in nth 2 (spine prog_project_subset_to_samples) SSkip.
Definition pss_post : list stmt := Eval cbv in skipn 3 (spine prog_project_subset_to_samples).
Definition pss_body : stmt := Eval cbv in match pss_for with SFor _ _ b => b | _ => SSkip end.
Definition pss_iter : expr := Eval cbv in match pss_for with SFor _ it _ => it | _ => ENone end.

Section MapsTie.
  Variable A : Type.
  Local Notation V := (mval A).
  Local Notation P := (maps_prims A).

  Ltac ev :=
    cbv beta iota zeta delta
        [exec final_env eval eval_truth bind map_res truthy do_cmp do_arith do_index nat_cmp nat_arith iter_list
         upd lookup env_of assign_all cmp_name ar_name frame overlay normal_env
         try_finish try_finish_env exn_matches exec_list
         maps_prims prims_of table_lookup maps_table keys_are is_opaque0 range_handler range_val
         h_vec_int h_vec_vec_int h_vec_vec_vec_int h_is_False h_zeros_like h_project
         as_int as_scalar fwd_res res_outcome fwd_outcome idx_outcome proj_outcome vvec vint vidx varr
         call_map_sample_to_cycle call_map_cycle_to_subset call_map_sample_to_subset call_map_subset_to_chain
         call_map_cycle_to_chain call_map_sample_to_chain call_map_cycle_to_samples call_map_subset_to_cycle
         call_map_chain_to_subset call_map_subset_to_sample call_map_chain_to_cycle call_map_chain_to_samples
         call_project
         CycleMaps.map_sample_to_cycle CycleMaps.map_cycle_to_subset CycleMaps.map_sample_to_subset
         CycleMaps.map_subset_to_chain CycleMaps.map_cycle_to_chain CycleMaps.map_sample_to_chain
         CycleMaps.map_subset_to_sample
         names_map_sample_to_cycle names_map_cycle_to_samples names_map_cycle_to_subset names_map_subset_to_cycle
         names_map_sample_to_subset names_map_subset_to_sample names_map_subset_to_chain names_map_chain_to_subset
         names_map_cycle_to_chain names_map_chain_to_cycle names_map_sample_to_chain names_map_chain_to_samples
         names_project_cycles_to_samples names_project_subset_to_cycles names_project_subset_to_samples
         names_project_chain_to_subset names_project_chain_to_cycles names_project_chain_to_samples
         env0_map_sample_to_cycle env0_map_cycle_to_samples env0_map_cycle_to_subset env0_map_subset_to_cycle
         env0_map_sample_to_subset env0_map_subset_to_sample env0_map_subset_to_chain env0_map_chain_to_subset
         env0_map_cycle_to_chain env0_map_chain_to_cycle env0_map_sample_to_chain env0_map_chain_to_samples
         env0_project_cycles_to_samples env0_project_subset_to_cycles env0_project_subset_to_samples
         env0_project_chain_to_subset env0_project_chain_to_cycles env0_project_chain_to_samples
         params_map_sample_to_cycle params_map_cycle_to_samples params_map_cycle_to_subset params_map_subset_to_cycle
         params_map_sample_to_subset params_map_subset_to_sample params_map_subset_to_chain params_map_chain_to_subset
         params_map_cycle_to_chain params_map_chain_to_cycle params_map_sample_to_chain params_map_chain_to_samples
         params_project_cycles_to_samples params_project_subset_to_cycles params_project_subset_to_samples
         params_project_chain_to_subset params_project_chain_to_cycles params_project_chain_to_samples
         prog_map_sample_to_cycle prog_map_cycle_to_samples prog_map_cycle_to_subset prog_map_subset_to_cycle
         prog_map_sample_to_subset prog_map_subset_to_sample prog_map_subset_to_chain prog_map_chain_to_subset
         prog_map_cycle_to_chain prog_map_chain_to_cycle prog_map_sample_to_chain prog_map_chain_to_samples
         prog_project_chain_to_cycles prog_project_chain_to_samples
         pcs_pre pcs_post pcs_body pcs_iter psc_pre psc_post psc_body psc_iter
         pchs_pre pchs_post pchs_body pchs_iter pss_pre pss_post pss_body pss_iter
         String.eqb Ascii.eqb Bool.eqb fst snd andb negb orb].
  Ltac ev1 := ev; repeat (progress (cbn [nth_error Nat.eqb Z.of_nat]; oracle_rw); ev).

  (* an integer-valued argument is a Python int or a numpy integer *)
  Ltac int_cases ii H :=
    destruct ii as [[?|?|?|?|?|?]|?|?|?| |?|?]; try discriminate H; cbn in H; inversion H; subst; clear H.

  (* ================================================================================================= *)
  (* forward maps                                                                                        *)
  (* ================================================================================================= *)
  Theorem skeleton_map_sample_to_cycle : forall cv i f,
    exec P prog_map_sample_to_cycle f (env0_map_sample_to_cycle A cv (VNat i))
    = fwd_outcome A (map_sample_to_cycle cv i).
  Proof.
    intros cv i f. pose proof (py_index_of_nat Z cv i) as Hp.
    destruct (nth_error cv i) as [c|] eqn:E; ev1; reflexivity.
  Qed.

  Theorem skeleton_map_cycle_to_subset : forall sv ii k f, as_int A ii = Some k ->
    exec P prog_map_cycle_to_subset f (env0_map_cycle_to_subset A sv ii)
    = fwd_outcome A (map_cycle_to_subset sv k).
  Proof.
    intros sv ii k f H.
    destruct (py_index sv k) as [s|] eqn:E; [destruct (Z.ltb (-1) s) eqn:Es|]; int_cases ii H; ev1; reflexivity.
  Qed.

  Theorem skeleton_map_subset_to_chain : forall chv ii j f, as_int A ii = Some j ->
    exec P prog_map_subset_to_chain f (env0_map_subset_to_chain A chv ii)
    = fwd_outcome A (map_subset_to_chain chv j).
  Proof.
    intros chv ii j f H. destruct (py_index chv j) as [s|] eqn:E; int_cases ii H; ev1; reflexivity.
  Qed.

  (* the guard `(all_cycle_ind is None) or (all_cycle_ind < 0)` is the model's `c <? 0` *)
  Theorem skeleton_map_sample_to_subset : forall sv cv i f,
    exec P prog_map_sample_to_subset f (env0_map_sample_to_subset A sv cv (VNat i))
    = fwd_outcome A (map_sample_to_subset sv cv i).
  Proof.
    intros sv cv i f.
    destruct (nth_error cv i) as [c|] eqn:E; [destruct (Z.ltb c 0) eqn:Ec|]; ev1; reflexivity.
  Qed.

  (* the guard `subset_cycle_ind is None` is the model's FNone / FErr pass-through *)
  Theorem skeleton_map_cycle_to_chain : forall chv sv ii k f, as_int A ii = Some k ->
    exec P prog_map_cycle_to_chain f (env0_map_cycle_to_chain A chv sv ii)
    = fwd_outcome A (map_cycle_to_chain chv sv k).
  Proof.
    intros chv sv ii k f H.
    destruct (py_index sv k) as [s|] eqn:E;
      [destruct (Z.ltb (-1) s) eqn:Es; [destruct (py_index chv s) as [c|] eqn:Ec|]|];
      int_cases ii H; ev1; reflexivity.
  Qed.

  Theorem skeleton_map_sample_to_chain : forall chv sv cv i f,
    exec P prog_map_sample_to_chain f (env0_map_sample_to_chain A chv sv cv (VNat i))
    = fwd_outcome A (map_sample_to_chain chv sv cv i).
  Proof.
    intros chv sv cv i f.
    destruct (nth_error cv i) as [c|] eqn:E; [destruct (Z.ltb c 0) eqn:Ec|]; ev1; try reflexivity.
    destruct (py_index sv c) as [s|] eqn:Es; [destruct (Z.ltb (-1) s) eqn:Es1|]; ev1; reflexivity.
  Qed.

  (* ================================================================================================= *)
  (* backward maps                                                                                       *)
  (* ================================================================================================= *)
  (* the right operand of `vect == ii`: a Python int, a numpy integer or a one-element index array *)
  Ltac scal_cases ii H :=
    destruct ii as [[?|?|?|[|? [|? ?]]|?|?]|?|?|?| |?|?]; try discriminate H; cbn in H; inversion H; subst; clear H.
  Ltac split_len :=
    match goal with |- context [Nat.ltb 1 ?n] => destruct (Nat.ltb 1 n) eqn:? end.

  Theorem skeleton_map_subset_to_cycle : forall sv ii j f, as_scalar A ii = Some j ->
    exec P prog_map_subset_to_cycle f (env0_map_subset_to_cycle A sv ii)
    = idx_outcome A (map_subset_to_cycle sv j).
  Proof.
    intros sv ii j f H. unfold map_subset_to_cycle. rewrite <- where_eq. scal_cases ii H; ev1; reflexivity.
  Qed.

  (* the contiguity guard never fires ([h_is_False]): the function is np.where(cycle_vect == ii)[0] *)
  Theorem skeleton_map_cycle_to_samples : forall cv ii k f, as_scalar A ii = Some k ->
    exec P prog_map_cycle_to_samples f (env0_map_cycle_to_samples A cv ii)
    = idx_outcome A (map_cycle_to_samples cv k).
  Proof.
    intros cv ii k f H. unfold map_cycle_to_samples. rewrite <- where_eq. scal_cases ii H; ev1; reflexivity.
  Qed.

  Theorem skeleton_map_chain_to_subset : forall chv ii c f, as_scalar A ii = Some c ->
    exec P prog_map_chain_to_subset f (env0_map_chain_to_subset A chv ii)
    = idx_outcome A (map_chain_to_subset chv c).
  Proof.
    intros chv ii c f H. unfold map_chain_to_subset. rewrite <- where_eq.
    scal_cases ii H; ev1; split_len; ev1; reflexivity.
  Qed.

  (* `cycle_vect == all_cycle_ind` with the index ARRAY all_cycle_ind: modelled for exactly one cycle (the
     model's Some); Stuck (= not modelled) where the model says None *)
  Theorem skeleton_map_subset_to_sample : forall sv cv ii j f, as_scalar A ii = Some j ->
    exec P prog_map_subset_to_sample f (env0_map_subset_to_sample A sv cv ii)
    = match map_subset_to_sample sv cv j with Some l => idx_outcome A l | None => Stuck end.
  Proof.
    intros sv cv ii j f H.
    scal_cases ii H; ev1;
      (match goal with |- context [map_subset_to_cycle sv ?x] =>
         destruct (map_subset_to_cycle sv x) as [|k [|k2 t]] end; ev1; reflexivity).
  Qed.

  (* ---- the comprehensions and np.hstack ---- *)
  Lemma all_ok_map_ok : forall (B : Type) (g : B -> val V) (l : list B),
    all_ok A (map (fun j => Ok (g j)) l) = Ok (map g l).
  Proof.
    intros B g l. induction l as [|a t IH]; cbn [map all_ok]; [reflexivity|]. rewrite IH. reflexivity.
  Qed.

  Lemma comp_subset_to_cycle_eq : forall sv js,
    comp_subset_to_cycle A sv js = Ok (VList (map (fun j => vidx A (map_subset_to_cycle sv (Z.of_nat j))) js)).
  Proof.
    intros sv js. unfold comp_subset_to_cycle.
    change (fun j : nat => call_map_subset_to_cycle A sv (vint A (Z.of_nat j)))
      with (fun j : nat => @Ok (val V) (vidx A (map_subset_to_cycle sv (Z.of_nat j)))).
    rewrite all_ok_map_ok. reflexivity.
  Qed.

  Lemma hstack_idx_map : forall (ps : list (list nat)), hstack_idx A (map (vidx A) ps) = Some (concat ps).
  Proof.
    induction ps as [|a t IH]; cbn [map hstack_idx concat vidx]; [reflexivity|].
    change (map (fun l => VSig (MIdx l)) t) with (map (vidx A) t). rewrite IH. reflexivity.
  Qed.

  Lemma hstack_res_map : forall (ps : list (list nat)), ps <> [] ->
    hstack_res A (map (vidx A) ps) = Ok (vidx A (concat ps)).
  Proof.
    intros ps Hne. destruct ps as [|a t]; [congruence|].
    unfold hstack_res. rewrite hstack_idx_map. reflexivity.
  Qed.

  (* np.hstack([]) raises: a chain index without members is a ValueError, where the model says [] *)
  Theorem skeleton_map_chain_to_cycle : forall chv sv ii c f, as_scalar A ii = Some c ->
    exec P prog_map_chain_to_cycle f (env0_map_chain_to_cycle A chv sv ii)
    = match map_chain_to_subset chv c with
      | [] => Raise "ValueError"
      | _ => idx_outcome A (map_chain_to_cycle chv sv c)
      end.
  Proof.
    intros chv sv ii c f H. unfold map_chain_to_cycle.
    assert (Hh : forall js, js <> [] ->
              hstack_res A (map (fun j => vidx A (map_subset_to_cycle sv (Z.of_nat j))) js)
              = Ok (vidx A (flat_map (fun j => map_subset_to_cycle sv (Z.of_nat j)) js))).
    { intros js Hne. rewrite <- (map_map (fun j => map_subset_to_cycle sv (Z.of_nat j)) (vidx A)).
      rewrite hstack_res_map; [rewrite flat_map_concat_map; reflexivity|].
      destruct js; [congruence|discriminate]. }
    destruct (map_chain_to_subset chv c) as [|j0 t] eqn:E.
    - scal_cases ii H; ev1; rewrite E; ev1; rewrite comp_subset_to_cycle_eq; ev1; reflexivity.
    - specialize (Hh (j0 :: t) ltac:(discriminate)). cbv beta delta [vidx] in Hh.
      scal_cases ii H; ev1; rewrite E; ev1; rewrite comp_subset_to_cycle_eq; ev1; rewrite Hh; ev1;
        split_len; ev1; reflexivity.
  Qed.

  Lemma comp_subset_to_sample_some : forall sv cv js l,
    concat_opt (map (fun j => map_subset_to_sample sv cv (Z.of_nat j)) js) = Some l ->
    exists ps, comp_subset_to_sample A sv cv js = Ok (VList (map (vidx A) ps)) /\ concat ps = l /\
               length ps = length js.
  Proof.
    intros sv cv js. unfold comp_subset_to_sample.
    induction js as [|j t IH]; intros l Hl.
    - cbn in Hl. inversion Hl. exists []. repeat split.
    - cbn [map concat_opt] in Hl.
      destruct (map_subset_to_sample sv cv (Z.of_nat j)) as [x|] eqn:Ex; [|discriminate].
      destruct (concat_opt (map (fun j0 => map_subset_to_sample sv cv (Z.of_nat j0)) t)) as [r|] eqn:Er;
        [|discriminate].
      inversion Hl; subst l. destruct (IH r eq_refl) as (ps & Hps & Hc & Hn).
      exists (x :: ps). cbn [map all_ok].
      unfold call_map_subset_to_sample at 1. cbn [as_scalar as_int vint]. rewrite Ex.
      destruct (all_ok A (map (fun j0 => call_map_subset_to_sample A sv cv (vint A (Z.of_nat j0))) t))
        as [lt|x0|]; try discriminate Hps.
      inversion Hps; subst lt. repeat split.
      + cbn [concat]. rewrite Hc. reflexivity.
      + cbn [length]. rewrite Hn. reflexivity.
  Qed.

  Lemma comp_subset_to_sample_none : forall sv cv js,
    concat_opt (map (fun j => map_subset_to_sample sv cv (Z.of_nat j)) js) = None ->
    comp_subset_to_sample A sv cv js = Bad.
  Proof.
    intros sv cv js. unfold comp_subset_to_sample.
    induction js as [|j t IH]; intros Hl; [discriminate|].
    cbn [map concat_opt all_ok] in *.
    unfold call_map_subset_to_sample at 1. cbn [as_scalar as_int vint].
    destruct (map_subset_to_sample sv cv (Z.of_nat j)) as [x|] eqn:Ex; [|reflexivity].
    destruct (concat_opt (map (fun j0 => map_subset_to_sample sv cv (Z.of_nat j0)) t)) as [r|] eqn:Er;
      [discriminate|].
    specialize (IH eq_refl).
    destruct (all_ok A (map (fun j0 => call_map_subset_to_sample A sv cv (vint A (Z.of_nat j0))) t));
      try discriminate IH. reflexivity.
  Qed.

  Theorem skeleton_map_chain_to_samples : forall chv sv cv ii c f, as_scalar A ii = Some c ->
    exec P prog_map_chain_to_samples f (env0_map_chain_to_samples A chv sv cv ii)
    = match map_chain_to_subset chv c with
      | [] => Raise "ValueError"
      | _ => match map_chain_to_samples chv sv cv c with Some l => idx_outcome A l | None => Stuck end
      end.
  Proof.
    intros chv sv cv ii c f H. unfold map_chain_to_samples.
    destruct (map_chain_to_subset chv c) as [|j0 t] eqn:E.
    - destruct (comp_subset_to_sample_some sv cv [] [] eq_refl) as (ps & Hps & _ & Hn).
      destruct ps; [|discriminate Hn].
      scal_cases ii H; ev1; rewrite E; ev1; rewrite Hps; ev1; reflexivity.
    - destruct (concat_opt (map (fun j => map_subset_to_sample sv cv (Z.of_nat j)) (j0 :: t))) as [l|] eqn:El.
      + destruct (comp_subset_to_sample_some sv cv _ l El) as (ps & Hps & Hc & Hn).
        assert (Hh : hstack_res A (map (vidx A) ps) = Ok (vidx A l)).
        { rewrite hstack_res_map; [rewrite Hc; reflexivity|]. destruct ps; [discriminate Hn|discriminate]. }
        cbv beta delta [vidx] in Hh, Hps.
        scal_cases ii H; ev1; rewrite E; ev1; rewrite Hps; ev1; rewrite Hh; ev1; reflexivity.
      + pose proof (comp_subset_to_sample_none sv cv _ El) as Hps.
        scal_cases ii H; ev1; rewrite E; ev1; rewrite Hps; ev1; reflexivity.
  Qed.

  (* ================================================================================================= *)
  (* projections                                                                                         *)
  (* ================================================================================================= *)

  (* ---- project_cycles_to_samples ---- *)
  Definition pcs_head (cells : list (option A)) (cv : list Z) (d : nat) (junk : string -> option (val V)) : env V :=
    env_of names_project_cycles_to_samples
      (overlay [ ("vals", varr A cells); ("cycle_vect", vvec A cv); ("out", varr A (out_at cv cells d)) ] junk).

  Lemma pcs_step : forall cells cv fb d junk, (d < length cells)%nat ->
    exists e2, normal_env (exec P pcs_body fb (upd "ii" (VNat d) (pcs_head cells cv d junk))) = Some e2 /\
               e2 = pcs_head cells cv (S d) (fun x => lookup x e2).
  Proof.
    intros cells cv fb d junk Hd. unfold pcs_head.
    destruct (nth_error cells d) as [c|] eqn:Hc; [|apply nth_error_None in Hc; lia].
    assert (Hc' : cell_at A cells d = Some c) by exact Hc.
    assert (Hr : in_range (length (out_at cv cells d)) (map_cycle_to_samples cv (Z.of_nat d)) = true)
      by (apply positions_in_range; apply out_at_length).
    pose proof (out_at_step A cv cells d c Hc) as Hs.
    change (positions (Z.eqb (Z.of_nat d)) cv) with (map_cycle_to_samples cv (Z.of_nat d)) in Hs.
    eexists. split.
    - ev1. rewrite Hs. reflexivity.
    - ev. reflexivity.
  Qed.

  Lemma pcs_loop : forall cells cv fb junk,
    exists junk', for_loop "ii" (fun e' => exec P pcs_body fb e') (map VNat (seq 0 (length cells)))
                    (pcs_head cells cv 0 junk)
                  = Normal (pcs_head cells cv (length cells) junk').
  Proof.
    intros cells cv fb junk.
    destruct (for_loop_inv V (fun done e => exists j, e = pcs_head cells cv (length done) j)
                "ii" (fun e' => exec P pcs_body fb e') (map VNat (seq 0 (length cells)))
                (pcs_head cells cv 0 junk))
      as (e' & He' & (j & Hj)).
    - exists junk. reflexivity.
    - intros done v rest e1 Hl (j & He1).
      destruct (range_val_split (length cells) done v rest Hl) as (_ & Hv & Hlt). subst v e1.
      destruct (pcs_step cells cv fb (length done) j Hlt) as (e2 & H2 & He2).
      exists e2. split; [exact H2|]. rewrite app_length, Nat.add_1_r. eexists. exact He2.
    - rewrite map_length, seq_length in Hj. exists j. rewrite He'. rewrite Hj. reflexivity.
  Qed.

  (* ---- project_subset_to_cycles ---- *)
  Definition psc_head (cells : list (option A)) (sv : list Z) (d : nat) (junk : string -> option (val V)) : env V :=
    env_of names_project_subset_to_cycles
      (overlay [ ("vals", varr A cells); ("subset_vect", vvec A sv); ("out", varr A (out_at sv cells d)) ] junk).

  Lemma psc_step : forall cells sv fb d junk, (d < length cells)%nat ->
    exists e2, normal_env (exec P psc_body fb (upd "ii" (VNat d) (psc_head cells sv d junk))) = Some e2 /\
               e2 = psc_head cells sv (S d) (fun x => lookup x e2).
  Proof.
    intros cells sv fb d junk Hd. unfold psc_head.
    destruct (nth_error cells d) as [c|] eqn:Hc; [|apply nth_error_None in Hc; lia].
    assert (Hc' : cell_at A cells d = Some c) by exact Hc.
    assert (Hr : in_range (length (out_at sv cells d)) (map_subset_to_cycle sv (Z.of_nat d)) = true)
      by (apply positions_in_range; apply out_at_length).
    pose proof (out_at_step A sv cells d c Hc) as Hs.
    change (positions (Z.eqb (Z.of_nat d)) sv) with (map_subset_to_cycle sv (Z.of_nat d)) in Hs.
    eexists. split.
    - ev1. rewrite Hs. reflexivity.
    - ev. reflexivity.
  Qed.

  Lemma psc_loop : forall cells sv fb junk,
    exists junk', for_loop "ii" (fun e' => exec P psc_body fb e') (map VNat (seq 0 (length cells)))
                    (psc_head cells sv 0 junk)
                  = Normal (psc_head cells sv (length cells) junk').
  Proof.
    intros cells sv fb junk.
    destruct (for_loop_inv V (fun done e => exists j, e = psc_head cells sv (length done) j)
                "ii" (fun e' => exec P psc_body fb e') (map VNat (seq 0 (length cells)))
                (psc_head cells sv 0 junk))
      as (e' & He' & (j & Hj)).
    - exists junk. reflexivity.
    - intros done v rest e1 Hl (j & He1).
      destruct (range_val_split (length cells) done v rest Hl) as (_ & Hv & Hlt). subst v e1.
      destruct (psc_step cells sv fb (length done) j Hlt) as (e2 & H2 & He2).
      exists e2. split; [exact H2|]. rewrite app_length, Nat.add_1_r. eexists. exact He2.
    - rewrite map_length, seq_length in Hj. exists j. rewrite He'. rewrite Hj. reflexivity.
  Qed.

  (* ---- project_chain_to_subset ---- *)
  Definition pchs_head (cells : list (option A)) (chv : list Z) (d : nat) (junk : string -> option (val V)) : env V :=
    env_of names_project_chain_to_subset
      (overlay [ ("vals", varr A cells); ("chain_vect", vvec A chv); ("out", varr A (out_at chv cells d)) ] junk).

  Lemma pchs_step : forall cells chv fb d junk, (d < length cells)%nat ->
    exists e2, normal_env (exec P pchs_body fb (upd "ii" (VNat d) (pchs_head cells chv d junk))) = Some e2 /\
               e2 = pchs_head cells chv (S d) (fun x => lookup x e2).
  Proof.
    intros cells chv fb d junk Hd. unfold pchs_head.
    destruct (nth_error cells d) as [c|] eqn:Hc; [|apply nth_error_None in Hc; lia].
    assert (Hc' : cell_at A cells d = Some c) by exact Hc.
    assert (Hr : in_range (length (out_at chv cells d)) (map_chain_to_subset chv (Z.of_nat d)) = true)
      by (apply positions_in_range; apply out_at_length).
    pose proof (out_at_step A chv cells d c Hc) as Hs.
    change (positions (Z.eqb (Z.of_nat d)) chv) with (map_chain_to_subset chv (Z.of_nat d)) in Hs.
    eexists. split.
    - ev1. rewrite Hs. reflexivity.
    - ev. reflexivity.
  Qed.

  Lemma pchs_loop : forall cells chv fb junk,
    exists junk', for_loop "ii" (fun e' => exec P pchs_body fb e') (map VNat (seq 0 (length cells)))
                    (pchs_head cells chv 0 junk)
                  = Normal (pchs_head cells chv (length cells) junk').
  Proof.
    intros cells chv fb junk.
    destruct (for_loop_inv V (fun done e => exists j, e = pchs_head cells chv (length done) j)
                "ii" (fun e' => exec P pchs_body fb e') (map VNat (seq 0 (length cells)))
                (pchs_head cells chv 0 junk))
      as (e' & He' & (j & Hj)).
    - exists junk. reflexivity.
    - intros done v rest e1 Hl (j & He1).
      destruct (range_val_split (length cells) done v rest Hl) as (_ & Hv & Hlt). subst v e1.
      destruct (pchs_step cells chv fb (length done) j Hlt) as (e2 & H2 & He2).
      exists e2. split; [exact H2|]. rewrite app_length, Nat.add_1_r. eexists. exact He2.
    - rewrite map_length, seq_length in Hj. exists j. rewrite He'. rewrite Hj. reflexivity.
  Qed.

  Theorem skeleton_project_cycles_to_samples_cells : forall cells cv f,
    exec P prog_project_cycles_to_samples f (env0_project_cycles_to_samples A cells cv)
    = proj_outcome A (join_opt (project_by cv cells)).
  Proof.
    intros cells cv f.
    rewrite (exec_nth_split V P prog_project_cycles_to_samples 1 pcs_for f _ eq_refl).
    change (firstn 1 (spine prog_project_cycles_to_samples)) with pcs_pre.
    change (skipn 2 (spine prog_project_cycles_to_samples)) with pcs_post.
    assert (Hpre : exec_list P pcs_pre f (env0_project_cycles_to_samples A cells cv)
                   = Normal (pcs_head cells cv 0 (fun _ => None))).
    { unfold pcs_head. rewrite out_at_0. ev1. reflexivity. }
    rewrite Hpre.
    change pcs_for with (SFor "ii" pcs_iter pcs_body). rewrite exec_for.
    assert (Hit : bind (eval P (pcs_head cells cv 0 (fun _ => None)) pcs_iter) (iter_list P)
                  = Ok (map VNat (seq 0 (length cells)))) by (unfold pcs_head; ev; reflexivity).
    rewrite Hit.
    destruct (pcs_loop cells cv f (fun _ => None)) as (junk' & Hloop). rewrite Hloop.
    unfold pcs_head. rewrite out_at_all. ev1. reflexivity.
  Qed.

  Theorem skeleton_project_subset_to_cycles_cells : forall cells sv f,
    exec P prog_project_subset_to_cycles f (env0_project_subset_to_cycles A cells sv)
    = proj_outcome A (join_opt (project_by sv cells)).
  Proof.
    intros cells sv f.
    rewrite (exec_nth_split V P prog_project_subset_to_cycles 1 psc_for f _ eq_refl).
    change (firstn 1 (spine prog_project_subset_to_cycles)) with psc_pre.
    change (skipn 2 (spine prog_project_subset_to_cycles)) with psc_post.
    assert (Hpre : exec_list P psc_pre f (env0_project_subset_to_cycles A cells sv)
                   = Normal (psc_head cells sv 0 (fun _ => None))).
    { unfold psc_head. rewrite out_at_0. ev1. reflexivity. }
    rewrite Hpre.
    change psc_for with (SFor "ii" psc_iter psc_body). rewrite exec_for.
    assert (Hit : bind (eval P (psc_head cells sv 0 (fun _ => None)) psc_iter) (iter_list P)
                  = Ok (map VNat (seq 0 (length cells)))) by (unfold psc_head; ev; reflexivity).
    rewrite Hit.
    destruct (psc_loop cells sv f (fun _ => None)) as (junk' & Hloop). rewrite Hloop.
    unfold psc_head. rewrite out_at_all. ev1. reflexivity.
  Qed.

  Theorem skeleton_project_chain_to_subset_cells : forall cells chv f,
    exec P prog_project_chain_to_subset f (env0_project_chain_to_subset A cells chv)
    = proj_outcome A (join_opt (project_by chv cells)).
  Proof.
    intros cells chv f.
    rewrite (exec_nth_split V P prog_project_chain_to_subset 1 pchs_for f _ eq_refl).
    change (firstn 1 (spine prog_project_chain_to_subset)) with pchs_pre.
    change (skipn 2 (spine prog_project_chain_to_subset)) with pchs_post.
    assert (Hpre : exec_list P pchs_pre f (env0_project_chain_to_subset A cells chv)
                   = Normal (pchs_head cells chv 0 (fun _ => None))).
    { unfold pchs_head. rewrite out_at_0. ev1. reflexivity. }
    rewrite Hpre.
    change pchs_for with (SFor "ii" pchs_iter pchs_body). rewrite exec_for.
    assert (Hit : bind (eval P (pchs_head cells chv 0 (fun _ => None)) pchs_iter) (iter_list P)
                  = Ok (map VNat (seq 0 (length cells)))) by (unfold pchs_head; ev; reflexivity).
    rewrite Hit.
    destruct (pchs_loop cells chv f (fun _ => None)) as (junk' & Hloop). rewrite Hloop.
    unfold pchs_head. rewrite out_at_all. ev1. reflexivity.
  Qed.

  (* ---- project_subset_to_samples: cycle_vals = project_subset_to_cycles(vals, subset_vect), then the loop ---- *)
  Definition pss_head (cells0 : list (option A)) (sv : list Z) (cells : list (option A)) (cv : list Z) (d : nat)
    (junk : string -> option (val V)) : env V :=
    env_of names_project_subset_to_samples
      (overlay [ ("vals", varr A cells0); ("subset_vect", vvec A sv); ("cycle_vect", vvec A cv);
                 ("cycle_vals", varr A cells); ("out", varr A (out_at cv cells d)) ] junk).

  Lemma pss_step : forall cells0 sv cells cv fb d junk, (d < length cells)%nat ->
    exists e2, normal_env (exec P pss_body fb (upd "ii" (VNat d) (pss_head cells0 sv cells cv d junk))) = Some e2 /\
               e2 = pss_head cells0 sv cells cv (S d) (fun x => lookup x e2).
  Proof.
    intros cells0 sv cells cv fb d junk Hd. unfold pss_head.
    destruct (nth_error cells d) as [c|] eqn:Hc; [|apply nth_error_None in Hc; lia].
    assert (Hc' : cell_at A cells d = Some c) by exact Hc.
    assert (Hr : in_range (length (out_at cv cells d)) (map_cycle_to_samples cv (Z.of_nat d)) = true)
      by (apply positions_in_range; apply out_at_length).
    pose proof (out_at_step A cv cells d c Hc) as Hs.
    change (positions (Z.eqb (Z.of_nat d)) cv) with (map_cycle_to_samples cv (Z.of_nat d)) in Hs.
    eexists. split.
    - ev1. rewrite Hs. reflexivity.
    - ev. reflexivity.
  Qed.

  Lemma pss_loop : forall cells0 sv cells cv fb junk,
    exists junk', for_loop "ii" (fun e' => exec P pss_body fb e') (map VNat (seq 0 (length cells)))
                    (pss_head cells0 sv cells cv 0 junk)
                  = Normal (pss_head cells0 sv cells cv (length cells) junk').
  Proof.
    intros cells0 sv cells cv fb junk.
    destruct (for_loop_inv V (fun done e => exists j, e = pss_head cells0 sv cells cv (length done) j)
                "ii" (fun e' => exec P pss_body fb e') (map VNat (seq 0 (length cells)))
                (pss_head cells0 sv cells cv 0 junk))
      as (e' & He' & (j & Hj)).
    - exists junk. reflexivity.
    - intros done v rest e1 Hl (j & He1).
      destruct (range_val_split (length cells) done v rest Hl) as (_ & Hv & Hlt). subst v e1.
      destruct (pss_step cells0 sv cells cv fb (length done) j Hlt) as (e2 & H2 & He2).
      exists e2. split; [exact H2|]. rewrite app_length, Nat.add_1_r. eexists. exact He2.
    - rewrite map_length, seq_length in Hj. exists j. rewrite He'. rewrite Hj. reflexivity.
  Qed.

  Theorem skeleton_project_subset_to_samples_cells : forall cells sv cv f,
    exec P prog_project_subset_to_samples f (env0_project_subset_to_samples A cells sv cv)
    = proj_outcome A (join_opt (project_by cv (join_opt (project_by sv cells)))).
  Proof.
    intros cells0 sv cv f.
    set (cells := join_opt (project_by sv cells0)).
    rewrite (exec_nth_split V P prog_project_subset_to_samples 2 pss_for f _ eq_refl).
    change (firstn 2 (spine prog_project_subset_to_samples)) with pss_pre.
    change (skipn 3 (spine prog_project_subset_to_samples)) with pss_post.
    assert (Hpre : exec_list P pss_pre f (env0_project_subset_to_samples A cells0 sv cv)
                   = Normal (pss_head cells0 sv cells cv 0 (fun _ => None))).
    { unfold pss_head. rewrite out_at_0. ev1. reflexivity. }
    rewrite Hpre.
    change pss_for with (SFor "ii" pss_iter pss_body). rewrite exec_for.
    assert (Hit : bind (eval P (pss_head cells0 sv cells cv 0 (fun _ => None)) pss_iter) (iter_list P)
                  = Ok (map VNat (seq 0 (length cells)))) by (unfold pss_head; ev; reflexivity).
    rewrite Hit.
    destruct (pss_loop cells0 sv cells cv f (fun _ => None)) as (junk' & Hloop). rewrite Hloop.
    unfold pss_head. rewrite out_at_all. ev1. reflexivity.
  Qed.

  (* ---- the two compositions: two callee rows ---- *)
  Theorem skeleton_project_chain_to_cycles_cells : forall cells chv sv f,
    exec P prog_project_chain_to_cycles f (env0_project_chain_to_cycles A cells chv sv)
    = proj_outcome A (join_opt (project_by sv (join_opt (project_by chv cells)))).
  Proof. intros cells chv sv f. ev1. reflexivity. Qed.

  Theorem skeleton_project_chain_to_samples_cells : forall cells chv sv cv f,
    exec P prog_project_chain_to_samples f (env0_project_chain_to_samples A cells chv sv cv)
    = proj_outcome A (join_opt (project_by cv (join_opt (project_by sv (join_opt (project_by chv cells)))))).
  Proof. intros cells chv sv cv f. ev1. reflexivity. Qed.

  (* ---- against model/CycleMaps.v: per-item values without nan ---- *)
  Theorem skeleton_project_cycles_to_samples : forall vals cv f,
    exec P prog_project_cycles_to_samples f (env0_project_cycles_to_samples A (cells_of A vals) cv)
    = proj_outcome A (CycleMaps.project_cycles_to_samples vals cv).
  Proof.
    intros. rewrite skeleton_project_cycles_to_samples_cells. unfold cells_of, CycleMaps.project_cycles_to_samples.
    rewrite join_project_some. reflexivity.
  Qed.

  Theorem skeleton_project_subset_to_cycles : forall vals sv f,
    exec P prog_project_subset_to_cycles f (env0_project_subset_to_cycles A (cells_of A vals) sv)
    = proj_outcome A (CycleMaps.project_subset_to_cycles vals sv).
  Proof.
    intros. rewrite skeleton_project_subset_to_cycles_cells. unfold cells_of, CycleMaps.project_subset_to_cycles.
    rewrite join_project_some. reflexivity.
  Qed.

  Theorem skeleton_project_chain_to_subset : forall vals chv f,
    exec P prog_project_chain_to_subset f (env0_project_chain_to_subset A (cells_of A vals) chv)
    = proj_outcome A (CycleMaps.project_chain_to_subset vals chv).
  Proof.
    intros. rewrite skeleton_project_chain_to_subset_cells. unfold cells_of, CycleMaps.project_chain_to_subset.
    rewrite join_project_some. reflexivity.
  Qed.

  Theorem skeleton_project_subset_to_samples : forall vals sv cv f,
    exec P prog_project_subset_to_samples f (env0_project_subset_to_samples A (cells_of A vals) sv cv)
    = proj_outcome A (CycleMaps.project_subset_to_samples vals sv cv).
  Proof.
    intros. rewrite skeleton_project_subset_to_samples_cells.
    unfold cells_of, CycleMaps.project_subset_to_samples, CycleMaps.project_subset_to_cycles.
    rewrite join_project_some. reflexivity.
  Qed.

  Theorem skeleton_project_chain_to_cycles : forall vals chv sv f,
    exec P prog_project_chain_to_cycles f (env0_project_chain_to_cycles A (cells_of A vals) chv sv)
    = proj_outcome A (CycleMaps.project_chain_to_cycles vals chv sv).
  Proof.
    intros. rewrite skeleton_project_chain_to_cycles_cells.
    unfold cells_of, CycleMaps.project_chain_to_cycles, CycleMaps.project_chain_to_subset.
    rewrite join_project_some. reflexivity.
  Qed.

  Theorem skeleton_project_chain_to_samples : forall vals chv sv cv f,
    exec P prog_project_chain_to_samples f (env0_project_chain_to_samples A (cells_of A vals) chv sv cv)
    = proj_outcome A (CycleMaps.project_chain_to_samples vals chv sv cv).
  Proof.
    intros. rewrite skeleton_project_chain_to_samples_cells.
    unfold cells_of, CycleMaps.project_chain_to_samples, CycleMaps.project_chain_to_cycles,
      CycleMaps.project_chain_to_subset.
    rewrite join_project_some. reflexivity.
  Qed.

  (* ================================================================================================= *)
  (* the rows of the table that are named after a translated function ARE what that function's program   *)
  (* computes (so the table assumes nothing about a callee that is not proved about its source)          *)
  (* ================================================================================================= *)
  Theorem row_map_sample_to_cycle : forall cv i f,
    exec P prog_map_sample_to_cycle f (env0_map_sample_to_cycle A cv (VNat i)) = res_outcome (call_map_sample_to_cycle A cv (VNat i)).
  Proof. intros. apply skeleton_map_sample_to_cycle. Qed.
  Theorem row_map_cycle_to_subset : forall sv ii k f, as_int A ii = Some k ->
    exec P prog_map_cycle_to_subset f (env0_map_cycle_to_subset A sv ii) = res_outcome (call_map_cycle_to_subset A sv ii).
  Proof. intros sv ii k f H. unfold call_map_cycle_to_subset. rewrite H. apply skeleton_map_cycle_to_subset. exact H. Qed.
  Theorem row_map_sample_to_subset : forall sv cv i f,
    exec P prog_map_sample_to_subset f (env0_map_sample_to_subset A sv cv (VNat i)) = res_outcome (call_map_sample_to_subset A sv cv (VNat i)).
  Proof. intros. apply skeleton_map_sample_to_subset. Qed.
  Theorem row_map_subset_to_chain : forall chv ii k f, as_int A ii = Some k ->
    exec P prog_map_subset_to_chain f (env0_map_subset_to_chain A chv ii) = res_outcome (call_map_subset_to_chain A chv ii).
  Proof. intros chv ii k f H. unfold call_map_subset_to_chain. rewrite H. apply skeleton_map_subset_to_chain. exact H. Qed.
  Theorem row_map_cycle_to_chain : forall chv sv ii k f, as_int A ii = Some k ->
    exec P prog_map_cycle_to_chain f (env0_map_cycle_to_chain A chv sv ii) = res_outcome (call_map_cycle_to_chain A chv sv ii).
  Proof. intros chv sv ii k f H. unfold call_map_cycle_to_chain. rewrite H. apply skeleton_map_cycle_to_chain. exact H. Qed.
  Theorem row_map_sample_to_chain : forall chv sv cv i f,
    exec P prog_map_sample_to_chain f (env0_map_sample_to_chain A chv sv cv (VNat i)) = res_outcome (call_map_sample_to_chain A chv sv cv (VNat i)).
  Proof. intros. apply skeleton_map_sample_to_chain. Qed.
  Theorem row_map_cycle_to_samples : forall cv ii k f, as_scalar A ii = Some k ->
    exec P prog_map_cycle_to_samples f (env0_map_cycle_to_samples A cv ii) = res_outcome (call_map_cycle_to_samples A cv ii).
  Proof. intros cv ii k f H. unfold call_map_cycle_to_samples. rewrite H. apply skeleton_map_cycle_to_samples. exact H. Qed.
  Theorem row_map_subset_to_cycle : forall sv ii k f, as_scalar A ii = Some k ->
    exec P prog_map_subset_to_cycle f (env0_map_subset_to_cycle A sv ii) = res_outcome (call_map_subset_to_cycle A sv ii).
  Proof. intros sv ii k f H. unfold call_map_subset_to_cycle. rewrite H. apply skeleton_map_subset_to_cycle. exact H. Qed.
  Theorem row_map_chain_to_subset : forall chv ii k f, as_scalar A ii = Some k ->
    exec P prog_map_chain_to_subset f (env0_map_chain_to_subset A chv ii) = res_outcome (call_map_chain_to_subset A chv ii).
  Proof. intros chv ii k f H. unfold call_map_chain_to_subset. rewrite H. apply skeleton_map_chain_to_subset. exact H. Qed.
  Theorem row_map_subset_to_sample : forall sv cv ii k f, as_scalar A ii = Some k ->
    exec P prog_map_subset_to_sample f (env0_map_subset_to_sample A sv cv ii)
    = res_outcome (call_map_subset_to_sample A sv cv ii).
  Proof.
    intros sv cv ii k f H. unfold call_map_subset_to_sample. rewrite H.
    rewrite (skeleton_map_subset_to_sample sv cv ii k f H).
    destruct (map_subset_to_sample sv cv k); reflexivity.
  Qed.
  Theorem row_map_chain_to_cycle : forall chv sv ii k f, as_scalar A ii = Some k ->
    exec P prog_map_chain_to_cycle f (env0_map_chain_to_cycle A chv sv ii)
    = res_outcome (call_map_chain_to_cycle A chv sv ii).
  Proof.
    intros chv sv ii k f H. unfold call_map_chain_to_cycle. rewrite H.
    rewrite (skeleton_map_chain_to_cycle chv sv ii k f H).
    destruct (map_chain_to_subset chv k); reflexivity.
  Qed.
  Theorem row_map_chain_to_samples : forall chv sv cv ii k f, as_scalar A ii = Some k ->
    exec P prog_map_chain_to_samples f (env0_map_chain_to_samples A chv sv cv ii)
    = res_outcome (call_map_chain_to_samples A chv sv cv ii).
  Proof.
    intros chv sv cv ii k f H. unfold call_map_chain_to_samples. rewrite H.
    rewrite (skeleton_map_chain_to_samples chv sv cv ii k f H).
    destruct (map_chain_to_subset chv k); [reflexivity|].
    destruct (map_chain_to_samples chv sv cv k); reflexivity.
  Qed.
End MapsTie.
