(* Facts about model/MaskSift.v (property C07). *)
From Coq Require Import ZArith QArith Qround List Bool Lia Arith.
From EmdV Require Import lib.NpLite model.Extrema model.SiftCore model.Toys model.Variants model.MaskSift
                         proofs.SiftCoreFacts proofs.VariantsFacts.
Import ListNotations.

(* ---- small list lemmas ------------------------------------------------------------------------------------ *)
Lemma nth_error_map_seq : forall (B : Type) (f : nat -> B) k i, (i < k)%nat ->
  nth_error (map f (seq 0 k)) i = Some (f i).
Proof.
  intros B f k i Hi. apply map_nth_error.
  rewrite (nth_error_nth' (seq 0 k) 0%nat) by (rewrite seq_length; exact Hi).
  rewrite seq_nth by exact Hi. reflexivity.
Qed.

Lemma map_const_repeat : forall (B C : Type) (c : C) (l : list B), map (fun _ => c) l = repeat c (length l).
Proof. intros B C c. induction l as [|a t IH]; [reflexivity|]. cbn [map length repeat]. rewrite IH. reflexivity. Qed.

Lemma map_repeat' : forall (B C : Type) (f : B -> C) x n, map f (repeat x n) = repeat (f x) n.
Proof. intros B C f x. induction n as [|n IH]; [reflexivity|]. cbn [repeat map]. rewrite IH. reflexivity. Qed.

Lemma existsb_id_map : forall (B : Type) (h : B -> bool) l, existsb (fun b => b) (map h l) = existsb h l.
Proof. intros B h. induction l as [|a t IH]; [reflexivity|]. cbn [map existsb]. rewrite IH. reflexivity. Qed.

Lemma existsb_id_repeat : forall (f : bool) n, (1 <= n)%nat -> existsb (fun b => b) (repeat f n) = f.
Proof.
  intros f. induction n as [|n IH]; intros Hn; [lia|].
  cbn [repeat existsb]. destruct f; [reflexivity|]. cbn [orb].
  destruct n as [|n']; [reflexivity|]. apply IH. lia.
Qed.

Lemma last_firstn : forall (B : Type) (d : B) (l : list B) k, (1 <= k <= length l)%nat ->
  last (firstn k l) d = nth (k - 1) l d.
Proof.
  intros B d. induction l as [|a t IH]; intros k Hk; [cbn [length] in Hk; lia|].
  destruct k as [|k]; [lia|]. cbn [firstn]. cbn [length] in Hk.
  destruct k as [|k'].
  - reflexivity.
  - destruct t as [|b r]; [cbn [length] in Hk; lia|].
    change (last (a :: firstn (S k') (b :: r)) d) with (last (firstn (S k') (b :: r)) d).
    rewrite (IH (S k')) by lia.
    replace (S (S k') - 1)%nat with (S k') by lia. replace (S k' - 1)%nat with k' by lia. reflexivity.
Qed.

Lemma all_some_nth_error : forall (T R : Type) (f : T -> R) (args : list T),
  all_some (map (fun i => option_map f (nth_error args i)) (seq 0 (length args))) = Some (map f args).
Proof.
  intros T R f. induction args as [|a t IH]; [reflexivity|].
  cbn [length]. change (seq 0 (S (length t))) with (0%nat :: seq 1 (length t)).
  rewrite <- seq_shift. cbn [map]. rewrite map_map. cbn [nth_error option_map all_some].
  rewrite IH. reflexivity.
Qed.

(* ---- the pool ------------------------------------------------------------------------------------------------ *)
Section PoolFacts.
  Variables T R : Type.
  Variable exec : nat -> T -> R.
  Variable f : T -> R.
  (* the contract: a task is a pure function of its argument, whichever worker runs it *)
  Hypothesis exec_pure : forall w a, exec w a = f a.

  Lemma occurrences_in : forall i s, (1 <= occurrences i s)%nat -> In i (map ev_task s).
  Proof.
    intros i. induction s as [|e t IH]; intros H.
    - cbn in H. lia.
    - unfold occurrences in *. cbn [filter map] in *.
      destruct (Nat.eqb (ev_task e) i) eqn:E.
      + left. apply Nat.eqb_eq. exact E.
      + right. apply IH. exact H.
  Qed.

  Lemma delivered_completions : forall args s i a,
    nth_error args i = Some a -> In i (map ev_task s) ->
    delivered R i (completions T R exec args s) = Some (f a).
  Proof.
    intros args. induction s as [|e t IH]; intros i a Ha Hin.
    - destruct Hin.
    - unfold completions. cbn [flat_map]. fold (completions T R exec args t).
      destruct (Nat.eq_dec (ev_task e) i) as [Heq|Hne].
      + rewrite Heq, Ha. unfold delivered. cbn [app find fst]. rewrite Nat.eqb_refl. cbn [snd].
        rewrite exec_pure. reflexivity.
      + assert (Hin' : In i (map ev_task t)).
        { cbn [map] in Hin. destruct Hin as [H|H]; [contradiction|exact H]. }
        destruct (nth_error args (ev_task e)) as [a'|].
        * unfold delivered. cbn [app find fst].
          assert (E : Nat.eqb (ev_task e) i = false) by (apply Nat.eqb_neq; exact Hne).
          rewrite E. apply (IH i a Ha Hin').
        * cbn [app]. apply (IH i a Ha Hin').
  Qed.

  Lemma valid_schedule_covers : forall nworkers ntasks s i,
    valid_schedule nworkers ntasks s = true -> (i < ntasks)%nat -> In i (map ev_task s).
  Proof.
    intros nworkers ntasks s i Hv Hi. unfold valid_schedule in Hv.
    apply andb_true_iff in Hv. destruct Hv as [Hv _].
    rewrite forallb_forall in Hv.
    assert (Hin : In i (seq 0 ntasks)) by (apply in_seq; lia).
    specialize (Hv i Hin). apply Nat.eqb_eq in Hv. apply occurrences_in. lia.
  Qed.

  (* p.starmap(f, args) returns [f(a) for a in args] whatever the completion order, the assignment of tasks to
     workers and the number of workers *)
  Theorem starmap_schedule_independent : forall nworkers s args,
    valid_schedule nworkers (length args) s = true ->
    collect T R exec s args = Some (map f args).
  Proof.
    intros nworkers s args Hv. unfold collect.
    rewrite <- (all_some_nth_error T R f args). f_equal.
    apply map_ext_in. intros i Hi. apply in_seq in Hi.
    destruct (nth_error args i) as [a|] eqn:Ea.
    - cbn [option_map]. apply (delivered_completions args s i a Ea).
      apply (valid_schedule_covers nworkers (length args) s i Hv). lia.
    - apply nth_error_None in Ea. lia.
  Qed.

  Corollary starmap_any_two_schedules : forall w1 w2 s1 s2 args,
    valid_schedule w1 (length args) s1 = true -> valid_schedule w2 (length args) s2 = true ->
    collect T R exec s1 args = collect T R exec s2 args.
  Proof.
    intros w1 w2 s1 s2 args H1 H2.
    rewrite (starmap_schedule_independent w1 s1 args H1), (starmap_schedule_independent w2 s2 args H2). reflexivity.
  Qed.
End PoolFacts.

(* the round-robin schedule is valid for every combination in the property's range (nphases 0..8, 1..8 workers),
   so the theorems above are not vacuous there *)
Lemma round_robin_valid_1_8 :
  forallb (fun n => forallb (fun w => valid_schedule w n (round_robin w n)) (seq 1 8)) (seq 0 9) = true.
Proof. vm_compute. reflexivity. Qed.

Lemma occurrences_sequential : forall n a i,
  occurrences i (map (fun j => {| ev_task := j; ev_worker := 0 |}) (seq a n)) =
  if ((a <=? i) && (i <? a + n))%nat then 1%nat else 0%nat.
Proof.
  induction n as [|n IH]; intros a i.
  - cbn [seq map]. unfold occurrences. cbn [filter length].
    destruct (a <=? i)%nat eqn:E1; [|reflexivity]. cbn [andb].
    destruct (i <? a + 0)%nat eqn:E2; [|reflexivity].
    apply Nat.leb_le in E1. apply Nat.ltb_lt in E2. lia.
  - cbn [seq map]. unfold occurrences in *. cbn [filter ev_task].
    destruct (Nat.eqb a i) eqn:E.
    + apply Nat.eqb_eq in E. subst i. cbn [length]. rewrite (IH (S a) a).
      assert (E1 : (S a <=? a)%nat = false) by (apply Nat.leb_gt; lia). rewrite E1. cbn [andb].
      assert (E2 : (a <=? a)%nat = true) by (apply Nat.leb_le; lia).
      assert (E3 : (a <? a + S n)%nat = true) by (apply Nat.ltb_lt; lia).
      rewrite E2, E3. reflexivity.
    + apply Nat.eqb_neq in E. rewrite (IH (S a) i).
      destruct (Nat.leb_spec (S a) i), (Nat.leb_spec a i), (Nat.ltb_spec i (S a + n)), (Nat.ltb_spec i (a + S n));
        cbn [andb]; try reflexivity; lia.
Qed.

(* a pool of any size >= 1 has a valid schedule for any number of tasks (all of them on worker 0) *)
Lemma sequential_valid : forall nworkers n, (1 <= nworkers)%nat -> valid_schedule nworkers n (sequential n) = true.
Proof.
  intros nworkers n Hw. unfold valid_schedule, sequential. apply andb_true_iff. split.
  - apply forallb_forall. intros i Hi. apply in_seq in Hi. rewrite occurrences_sequential.
    assert (E1 : (0 <=? i)%nat = true) by (apply Nat.leb_le; lia).
    assert (E2 : (i <? 0 + n)%nat = true) by (apply Nat.ltb_lt; lia).
    rewrite E1, E2. reflexivity.
  - apply forallb_forall. intros e He. apply in_map_iff in He. destruct He as (j & <- & Hj).
    apply in_seq in Hj. cbn [ev_task ev_worker]. apply andb_true_iff. split; apply Nat.ltb_lt; lia.
Qed.

(* without purity the result DOES depend on the schedule: the hypothesis is needed (it is C08's subject) *)
Lemma collect_impure_depends_on_schedule :
  exists (exec : nat -> nat -> nat) s1 s2 args,
    valid_schedule 2 (length args) s1 = true /\ valid_schedule 2 (length args) s2 = true /\
    collect nat nat exec s1 args <> collect nat nat exec s2 args.
Proof.
  exists (fun w a => (w + a)%nat), (sequential 2), (round_robin 2 2), [10%nat; 20%nat].
  vm_compute. repeat split; discriminate.
Qed.

(* ---- the masked extraction ----------------------------------------------------------------------------------- *)
Section MaskFacts.
  Variables V A F : Type.
  Variable vzero : V.
  Variable vadd vsub : V -> V -> V.
  Variable vscale : A -> V -> V.
  Variable vdivn : nat -> V -> V.
  Variable cosm : F -> Q -> V.
  Variable extract : V -> gni_result V.

  Local Notation mask := (mask V A F vscale cosm).
  Local Notation masks := (masks V A F vscale cosm).
  Local Notation vsum := (vsum V vzero vadd).
  Local Notation gni_mask := (gni_mask V A F vzero vadd vsub vscale vdivn cosm extract).
  Local Notation collate := (collate V vzero vadd vsub vdivn).
  Local Notation unmask := (unmask V vsub).
  Local Notation imf_of := (imf_of V vzero).
  Local Notation flag_of := (flag_of V).
  Local Notation is_imf_result := (is_imf_result V).

  Lemma masks_as_seq : forall z amp n, masks z amp n = map (fun j => mask z amp (phase j n)) (seq 0 n).
  Proof. intros z amp n. unfold MaskSift.masks, phases. rewrite map_map. reflexivity. Qed.

  Lemma unmask_all_imf : forall (g : V -> gni_result V) ms,
    (forall m, In m ms -> is_imf_result (g m) = true) ->
    unmask ms (map g ms) = Some (map (fun m => vsub (imf_of (g m)) m) ms, map (fun m => flag_of (g m)) ms).
  Proof.
    intros g. induction ms as [|m t IH]; intros H; [reflexivity|].
    cbn [map MaskSift.unmask].
    assert (Hm : is_imf_result (g m) = true) by (apply H; left; reflexivity).
    destruct (g m) as [p f k| |] eqn:Eg; try discriminate.
    rewrite IH by (intros m' Hm'; apply H; right; exact Hm'). reflexivity.
  Qed.

  Lemma unmask_some_raised : forall (g : V -> gni_result V) ms,
    (exists m, In m ms /\ is_imf_result (g m) = false) -> unmask ms (map g ms) = None.
  Proof.
    intros g. induction ms as [|m t IH]; intros (m0 & Hin & Hr); [destruct Hin|].
    cbn [map MaskSift.unmask]. destruct (g m) as [p f k| |] eqn:Eg; try reflexivity.
    destruct Hin as [<-|Hin].
    - rewrite Eg in Hr. discriminate.
    - rewrite IH; [reflexivity|]. exists m0. split; assumption.
  Qed.

  Lemma collate_nonempty : forall ms res, ms <> [] ->
    collate ms res = match unmask ms res with
                     | Some (ps, fs) => Imf (vmean V vzero vadd vdivn ps) (existsb (fun b => b) fs) 0
                     | None => ConvergeError 0
                     end.
  Proof. intros ms res H. unfold MaskSift.collate. destruct ms; [contradiction|reflexivity]. Qed.

  (* the property's first clause, stated against its wording.  With m_j = amp * cos(2 pi (z t + j/n)), j < n:
     every masked IMF is (1/n) * sum_j ( extraction(X + m_j) - m_j ) - the SAME m_j is added and subtracted, every
     phase has the same weight, the phases are j/n - and the continue flag is the disjunction of the n flags;
     if any of the n extractions raises, so does the call. *)
  Theorem gni_mask_spec : forall X z amp n, (1 <= n)%nat ->
    let m := fun j => mask z amp (phase j n) in
    let r := fun j => extract (vadd X (m j)) in
    ((forall j, (j < n)%nat -> is_imf_result (r j) = true) ->
       gni_mask X z amp n =
       Imf (vdivn n (vsum (map (fun j => vsub (imf_of (r j)) (m j)) (seq 0 n))))
           (existsb (fun j => flag_of (r j)) (seq 0 n)) 0) /\
    ((exists j, (j < n)%nat /\ is_imf_result (r j) = false) -> gni_mask X z amp n = ConvergeError 0).
  Proof.
    intros X z amp n Hn m r.
    assert (Hms : masks z amp n = map m (seq 0 n)) by apply masks_as_seq.
    assert (Hne : masks z amp n <> []).
    { rewrite Hms. destruct n as [|n']; [lia|]. cbn [seq map]. discriminate. }
    unfold MaskSift.gni_mask, mask_args. rewrite map_map.
    split.
    - intros Hall. rewrite (collate_nonempty _ _ Hne).
      rewrite (unmask_all_imf (fun mk => extract (vadd X mk)) (masks z amp n)).
      + rewrite Hms. rewrite !map_map. unfold MaskSift.vmean. rewrite !map_length, seq_length.
        rewrite existsb_id_map. reflexivity.
      + intros mk Hin. rewrite Hms in Hin. apply in_map_iff in Hin. destruct Hin as (j & <- & Hj).
        apply in_seq in Hj. apply Hall. lia.
    - intros (j & Hj & Hr). rewrite (collate_nonempty _ _ Hne).
      rewrite (unmask_some_raised (fun mk => extract (vadd X mk)) (masks z amp n)); [reflexivity|].
      exists (m j). split; [|exact Hr]. rewrite Hms. apply in_map. apply in_seq. lia.
  Qed.

  (* ---- the pool variant ---- *)
  Variable exec_w : nat -> V -> gni_result V.
  Hypothesis exec_pure : forall w a, exec_w w a = extract a.
  Local Notation gni_mask_pool := (gni_mask_pool V A F vzero vadd vsub vscale vdivn cosm exec_w).

  Theorem gni_mask_schedule_independent : forall nworkers s X z amp n,
    valid_schedule nworkers n s = true -> gni_mask_pool s X z amp n = gni_mask X z amp n.
  Proof.
    intros nworkers s X z amp n Hv. unfold MaskSift.gni_mask_pool, MaskSift.gni_mask.
    rewrite (starmap_schedule_independent V (gni_result V) exec_w extract exec_pure nworkers s).
    - reflexivity.
    - unfold mask_args, MaskSift.masks, phases. rewrite !map_length, seq_length. exact Hv.
  Qed.

  (* ---- zero amplitude ---- *)
  Section ZeroAmp.
    Variable wf : V -> Prop.
    Variable azero : A.
    Hypothesis scale_zero : forall z phi, vscale azero (cosm z phi) = vzero.
    Hypothesis add_zero_r : forall x, wf x -> vadd x vzero = x.
    Hypothesis sub_zero_r : forall x, wf x -> vsub x vzero = x.
    Hypothesis mean_const : forall p n, wf p -> (1 <= n)%nat -> vdivn n (vsum (repeat p n)) = p.
    Hypothesis extract_wf : forall x p f k, wf x -> extract x = Imf p f k -> wf p.

    Lemma unmask_repeat : forall p f k n,
      unmask (repeat vzero n) (repeat (Imf p f k) n) = Some (repeat (vsub p vzero) n, repeat f n).
    Proof.
      intros p f k. induction n as [|n IH]; [reflexivity|].
      cbn [repeat MaskSift.unmask]. rewrite IH. reflexivity.
    Qed.

    (* a zero-amplitude mask reduces to unmasked extraction (same IMF, same flag; the iteration count is not
       reported by the masked variant), and raises exactly when the unmasked extraction does *)
    Theorem gni_mask_zero_amp : forall X z n, wf X -> (1 <= n)%nat ->
      match extract X with
      | Imf p f _ => gni_mask X z azero n = Imf p f 0
      | _ => gni_mask X z azero n = ConvergeError 0
      end.
    Proof.
      intros X z n HX Hn.
      assert (Hms : masks z azero n = repeat vzero n).
      { unfold MaskSift.masks, MaskSift.mask.
        rewrite (map_ext _ (fun _ => vzero)) by (intros phi; apply scale_zero).
        rewrite map_const_repeat. unfold phases. rewrite map_length, seq_length. reflexivity. }
      unfold MaskSift.gni_mask. rewrite Hms. unfold mask_args. rewrite !map_repeat'. rewrite (add_zero_r X HX).
      destruct n as [|n']; [lia|].
      destruct (extract X) as [p f k| |] eqn:Ee.
      - unfold MaskSift.collate. change (repeat vzero (S n')) with (vzero :: repeat vzero n') at 1.
        rewrite unmask_repeat. unfold MaskSift.vmean. rewrite repeat_length.
        assert (Hp : wf p) by (apply (extract_wf X p f k HX Ee)).
        rewrite (sub_zero_r p Hp). rewrite (mean_const p (S n') Hp Hn).
        rewrite existsb_id_repeat by exact Hn. reflexivity.
      - reflexivity.
      - reflexivity.
    Qed.
  End ZeroAmp.

  (* ---- frequencies ---- *)
  Variable fdiv : F -> F -> F.
  Variable fpow : F -> nat -> F.
  Variable fvalid : F -> bool.
  Variable zc_freq if_freq : V -> F.
  Local Notation ladder := (ladder F fdiv fpow).

  (* successive mask frequencies are the first frequency divided by successive powers of the step factor *)
  Theorem ladder_nth : forall z s k i, (i < k)%nat ->
    nth_error (ladder z s k) i = Some (fdiv z (fpow s i)) /\ length (ladder z s k) = k.
  Proof.
    intros z s k i Hi. unfold MaskSift.ladder. split.
    - apply (nth_error_map_seq F (fun i => fdiv z (fpow s i)) k i Hi).
    - rewrite map_length, seq_length. reflexivity.
  Qed.

  (* ---- amplitudes ---- *)
  Variable amul : A -> A -> A.
  Variable aone : A.
  Variable std : V -> A.
  Local Notation amp_sd := (amp_sd V A vzero aone std).
  Local Notation amp_of := (amp_of V A vzero amul aone std).

  Theorem amp_mode_spec : forall X acc p a l layer,
    (* absolute / ratio of the signal / ratio of the previous IMF (the signal before the first layer) *)
    amp_of AmpAbs (AmpScalar A a) layer X acc = Some (amul a aone) /\
    amp_of RatioSig (AmpScalar A a) layer X acc = Some (amul a (std X)) /\
    amp_of RatioImf (AmpScalar A a) layer X [] = Some (amul a (std X)) /\
    amp_of RatioImf (AmpScalar A a) layer X (acc ++ [p]) = Some (amul a (std p)) /\
    (* an array of amplitudes is indexed by the layer; running off its end raises *)
    (forall mode, amp_of mode (AmpArray A l) layer X acc =
                  match nth_error l layer with Some a' => amp_of mode (AmpScalar A a') layer X acc | None => None end) /\
    (* a numpy scalar is a single number like a Python one *)
    (forall mode, amp_of mode (AmpNpScalar A a) layer X acc = amp_of mode (AmpScalar A a) layer X acc).
  Proof.
    intros X acc p a l layer. repeat split.
    - unfold MaskSift.amp_of, MaskSift.amp_of_gen, MaskSift.amp_sd.
      destruct (acc ++ [p]) as [|b r] eqn:E; [destruct acc; discriminate|].
      rewrite <- E. rewrite last_last. reflexivity.
  Qed.

  (* with the columns returned so far as accumulator, "previous IMF" is the last RETURNED column *)
  Lemma amp_sd_ratio_imf_previous_column : forall X imfs k, (1 <= k <= length imfs)%nat ->
    amp_sd RatioImf X (firstn k imfs) = std (nth (k - 1) imfs vzero).
  Proof.
    intros X imfs k Hk. unfold MaskSift.amp_sd.
    destruct (firstn k imfs) as [|b r] eqn:E.
    - apply (f_equal (@length V)) in E. rewrite firstn_length in E. cbn [length] in E. lia.
    - rewrite <- E. rewrite (last_firstn V vzero imfs k Hk). reflexivity.
  Qed.

  (* the code before the repair indexed numpy scalars *)
  Lemma amp_numpy_scalar_v0 : forall mode a layer X acc,
    MaskSift.amp_of_v0 V A vzero amul aone std mode (AmpNpScalar A a) layer X acc = None /\
    amp_of mode (AmpNpScalar A a) layer X acc = Some (amul a (amp_sd mode X acc)).
  Proof. intros. split; reflexivity. Qed.

  Lemma amp_abs_ignores_std : forall (std' : V -> A) arg layer X acc,
    amp_of AmpAbs arg layer X acc = MaskSift.amp_of V A vzero amul aone std' AmpAbs arg layer X acc.
  Proof. intros. reflexivity. Qed.

  (* ---- the masked sift ---- *)
  Variable small : V -> bool.
  Local Notation residual := (residual V vzero vadd vsub).
  Local Notation mask_sift :=
    (mask_sift V A F vzero vadd vsub vscale vdivn cosm extract fdiv fpow fvalid zc_freq if_freq amul aone std small).
  Local Notation mask_sift_pool :=
    (mask_sift_pool V A F vzero vadd vsub vscale vdivn cosm extract exec_w fdiv fpow fvalid zc_freq if_freq amul aone std small).
  Local Notation mask_freqs := (mask_freqs V F extract fdiv fpow fvalid zc_freq if_freq).

  Lemma peel_loop_ext : forall (e1 e2 : nat -> list V -> V -> gni_result V),
    (forall l acc r, e1 l acc r = e2 l acc r) ->
    forall fuel cap X acc,
      peel_loop V vzero vadd vsub small e1 fuel cap X acc = peel_loop V vzero vadd vsub small e2 fuel cap X acc.
  Proof.
    intros e1 e2 H. induction fuel as [|f IH]; intros cap X acc; [reflexivity|].
    cbn [peel_loop]. rewrite H. destruct (e2 (length acc) acc (SiftCore.residual V vzero vadd vsub X acc)) as [nxt flag n| |];
      [|reflexivity|reflexivity].
    destruct ((match cap with Some k => Nat.eqb (length (acc ++ [nxt])) k | None => false end) || small nxt || negb flag);
      [reflexivity|]. apply IH.
  Qed.

  (* which list is returned, for each of the four frequency sources *)
  Theorem mask_freqs_by_source : forall src s max_imfs X freqs cap,
    mask_freqs src s max_imfs X = Some (freqs, cap) ->
    match src with
    | FreqList _ l => freqs = l /\ cap = mask_cap max_imfs (Some (length l))
    | FreqFloat _ z => fvalid z = true /\ freqs = ladder z s max_imfs /\ cap = max_imfs
    | FreqZC _ => exists p f k, extract X = Imf p f k /\ freqs = ladder (zc_freq p) s max_imfs /\ cap = max_imfs
    | FreqIF _ => exists p f k, extract X = Imf p f k /\ freqs = ladder (if_freq p) s max_imfs /\ cap = max_imfs
    end.
  Proof.
    intros src s max_imfs X freqs cap H. unfold MaskSift.mask_freqs, first_freq in H.
    destruct src as [| |z|l].
    - destruct (extract X) as [p f k| |] eqn:Ee; try discriminate.
      inversion H; subst. exists p, f, k. auto.
    - destruct (extract X) as [p f k| |] eqn:Ee; try discriminate.
      inversion H; subst. exists p, f, k. auto.
    - destruct (fvalid z) eqn:Ev; try discriminate. inversion H; subst. auto.
    - inversion H; subst. auto.
  Qed.

  (* the list returned with ret_mask_freq=True is the list the extractions used: column k of the result IS the
     masked extraction of the running residual with frequency number k of the returned list and the amplitude
     the selected mode prescribes from the columns returned before it *)
  Theorem mask_freqs_returned_are_used : forall fuel src s max_imfs mode arg n X imfs e freqs,
    mask_sift fuel src s max_imfs mode arg n X = Some (imfs, e, freqs) ->
    (exists cap, mask_freqs src s max_imfs X = Some (freqs, cap)) /\
    forall k, (k < length imfs)%nat ->
      exists z amp f,
        nth_error freqs k = Some z /\
        amp_of mode arg k X (firstn k imfs) = Some amp /\
        gni_mask (residual X (firstn k imfs)) z amp n = Imf (nth k imfs vzero) f 0.
  Proof.
    intros fuel src s max_imfs mode arg n X imfs e freqs H.
    unfold MaskSift.mask_sift, mask_sift_gen in H.
    destruct (mask_freqs src s max_imfs X) as [[fr cap]|] eqn:Ef; [|discriminate].
    destruct (peel_loop V vzero vadd vsub small
                (fun layer => layer_extract V A F vzero amul aone std false
                                (MaskSift.gni_mask V A F vzero vadd vsub vscale vdivn cosm extract) fr mode arg n X layer)
                fuel (Some cap) X []) as [imfs' e'] eqn:Ep.
    inversion H; subst imfs' e' fr. clear H.
    split; [exists cap; reflexivity|].
    intros k Hk.
    destruct (peel_kth V vzero vadd vsub small _ fuel (Some cap) X imfs e k Ep Hk) as (f & nn & Hx).
    unfold layer_extract in Hx.
    change (MaskSift.amp_of_gen V A vzero amul aone std false) with (MaskSift.amp_of V A vzero amul aone std) in Hx.
    destruct (nth_error freqs k) as [z|]; [|discriminate].
    destruct (amp_of mode arg k X (firstn k imfs)) as [amp|]; [|discriminate].
    exists z, amp, f. repeat split.
    assert (Hnn : nn = 0%nat).
    { unfold MaskSift.gni_mask, MaskSift.collate in Hx.
      destruct (masks z amp n); [discriminate|].
      destruct (MaskSift.unmask V vsub _ _) as [[ps fs]|]; [|discriminate]. inversion Hx. reflexivity. }
    rewrite Hnn in Hx. exact Hx.
  Qed.

  (* hence the whole masked sift, every layer through its own pool and schedule, is what the sequential
     evaluation gives: the result is identical for any number of worker processes *)
  Theorem mask_sift_schedule_independent : forall (scheds : nat -> schedule) fuel src s max_imfs mode arg n X,
    (forall layer, exists nworkers, valid_schedule nworkers n (scheds layer) = true) ->
    mask_sift_pool scheds fuel src s max_imfs mode arg n X = mask_sift fuel src s max_imfs mode arg n X.
  Proof.
    intros scheds fuel src s max_imfs mode arg n X Hv.
    unfold MaskSift.mask_sift_pool, MaskSift.mask_sift, mask_sift_gen.
    destruct (mask_freqs src s max_imfs X) as [[fr cap]|]; [|reflexivity].
    rewrite (peel_loop_ext
               (fun layer => layer_extract V A F vzero amul aone std false
                               (MaskSift.gni_mask_pool V A F vzero vadd vsub vscale vdivn cosm exec_w (scheds layer)) fr mode arg n X layer)
               (fun layer => layer_extract V A F vzero amul aone std false
                               (MaskSift.gni_mask V A F vzero vadd vsub vscale vdivn cosm extract) fr mode arg n X layer)).
    - reflexivity.
    - intros l acc r. unfold layer_extract.
      change (MaskSift.amp_of_gen V A vzero amul aone std false) with (MaskSift.amp_of V A vzero amul aone std).
      destruct (nth_error fr l) as [z|]; [|reflexivity].
      destruct (amp_of mode arg l X acc) as [amp|]; [|reflexivity].
      destruct (Hv l) as [nw Hnw]. apply (gni_mask_schedule_independent nw (scheds l) r z amp n Hnw).
  Qed.
End MaskFacts.

(* ---- the phase grid --------------------------------------------------------------------------------------------- *)
Lemma pos_of_nat_Z : forall n, (1 <= n)%nat -> Zpos (Pos.of_nat n) = Z.of_nat n.
Proof. intros n Hn. rewrite <- positive_nat_Z. rewrite Nat2Pos.id by lia. reflexivity. Qed.

(* the n phases are 0, 1/n, ..., (n-1)/n of a turn: equally spaced by 1/n, all inside [0, 1) *)
Theorem phases_equally_spaced : forall n j, (j < n)%nat ->
  nth_error (phases n) j = Some (phase j n) /\ length (phases n) = n /\
  (0 <= phase j n)%Q /\ (phase j n < 1)%Q /\
  (phase (S j) n - phase j n == 1 # Pos.of_nat n)%Q.
Proof.
  intros n j Hj. unfold phases. repeat split.
  - apply (nth_error_map_seq Q (fun j => phase j n) n j Hj).
  - rewrite map_length, seq_length. reflexivity.
  - unfold phase, Qle. cbn [Qnum Qden]. lia.
  - unfold phase, Qlt. cbn [Qnum Qden]. rewrite pos_of_nat_Z by lia. lia.
  - unfold phase, Qeq, Qminus, Qplus, Qopp. cbn [Qnum Qden]. rewrite Nat2Z.inj_succ. rewrite Pos2Z.inj_mul. ring.
Qed.

(* ---- the fixed-point instance meets the oracle contracts ---------------------------------------------------------- *)
Open Scope Z_scope.

Lemma fx_vscale_zero : forall v, fx_vscale 0 v = Toys.vzero (length v).
Proof. induction v as [|a t IH]; [reflexivity|]. unfold fx_vscale, Toys.vzero in *. cbn [map length repeat]. rewrite IH. reflexivity. Qed.

Lemma fx_cosm_length : forall N z phi, length (fx_cosm N z phi) = N.
Proof. intros. unfold fx_cosm. rewrite map_length, seq_length. reflexivity. Qed.

Lemma vadd_zero_r : forall a, Toys.vadd a (Toys.vzero (length a)) = a.
Proof.
  induction a as [|x a IH]; [reflexivity|].
  unfold Toys.vadd, Toys.vzero in *. cbn [length repeat zip_with]. rewrite IH. f_equal. lia.
Qed.

Lemma vsub_zero_r : forall a, Toys.vsub a (Toys.vzero (length a)) = a.
Proof.
  induction a as [|x a IH]; [reflexivity|].
  unfold Toys.vsub, Toys.vzero in *. cbn [length repeat zip_with]. rewrite IH. f_equal. lia.
Qed.

Lemma fold_vadd_repeat : forall p n a, length a = length p ->
  fold_left Toys.vadd (repeat p n) a = zip_with (fun ai pi => ai + Z.of_nat n * pi) a p.
Proof.
  intros p. induction n as [|n IH]; intros a Ha.
  - cbn [repeat fold_left]. revert p Ha. induction a as [|x a IHa]; intros p Ha; destruct p as [|y p]; try discriminate; [reflexivity|].
    cbn [zip_with]. cbn [length] in Ha. rewrite <- IHa by lia. f_equal. lia.
  - cbn [repeat fold_left]. rewrite IH.
    + clear IH. revert p Ha. induction a as [|x a IHa]; intros p Ha; destruct p as [|y p]; try discriminate; [reflexivity|].
      unfold Toys.vadd in *. cbn [zip_with]. cbn [length] in Ha. rewrite IHa by lia. f_equal. lia.
    + unfold Toys.vadd. rewrite zip_with_length. rewrite Ha. apply Nat.min_id.
Qed.

Lemma fx_mean_const : forall p n, (1 <= n)%nat ->
  fx_vdivn n (vsum (list Z) (Toys.vzero (length p)) Toys.vadd (repeat p n)) = p.
Proof.
  intros p n Hn. unfold vsum. rewrite fold_vadd_repeat by (unfold Toys.vzero; apply repeat_length).
  unfold fx_vdivn, Toys.vzero. induction p as [|y p IH]; [reflexivity|].
  cbn [length repeat zip_with map]. rewrite IH. f_equal.
  cbn [Z.add]. rewrite Z.mul_comm. apply Z.div_mul. lia.
Qed.

Lemma fx_envs_length : forall r x u l, fx_envs r x = Some (u, l) -> length u = length x /\ length l = length x.
Proof.
  intros r x u l H. unfold fx_envs in H.
  destruct (toy_envs r (map (fun v => v / FXU) x)) as [[u0 l0]|] eqn:E; [|discriminate].
  inversion H; subst. apply toy_envs_length in E. rewrite !map_length in *. exact E.
Qed.

Lemma fx_gni_preserves_length : forall c X p f n, fx_gni c X = Imf p f n -> length p = length X.
Proof.
  intros c X p f n H. unfold fx_gni in H.
  refine (gni_gen_preserves _ _ _ _ _ _ _ _ _ _ _ (fun v => length v = length X) false _ X p f n eq_refl H).
  intros x u l Hx He. apply fx_envs_length in He. destruct He as [Hu Hl].
  unfold Toys.vsub, Toys.vavg, vscale. rewrite !zip_with_length, map_length, zip_with_length.
  rewrite Hu, Hl, Hx. rewrite !Nat.min_id. auto.
Qed.

(* the executable instance: a zero-amplitude mask is the unmasked (toy) extraction, for every configuration,
   signal, frequency and number of phases *)
Theorem fx_gni_mask_zero_amp : forall c X z n, (1 <= n)%nat ->
  match fx_gni c X with
  | Imf p f _ => fx_gni_mask c X z 0 n = Imf p f 0
  | _ => fx_gni_mask c X z 0 n = ConvergeError 0
  end.
Proof.
  intros c X z n Hn. unfold fx_gni_mask.
  apply (gni_mask_zero_amp (list Z) Z Q (Toys.vzero (length X)) Toys.vadd Toys.vsub fx_vscale fx_vdivn
                           (fx_cosm (length X)) (fx_gni c) (fun v => length v = length X) 0).
  - intros z0 phi. rewrite fx_vscale_zero, fx_cosm_length. reflexivity.
  - intros x Hx. rewrite <- Hx. apply vadd_zero_r.
  - intros x Hx. rewrite <- Hx. apply vsub_zero_r.
  - intros p k Hp Hk. rewrite <- Hp. apply fx_mean_const. exact Hk.
  - intros x p f k Hx He. rewrite (fx_gni_preserves_length c x p f k He). exact Hx.
  - reflexivity.
  - exact Hn.
Qed.

Theorem fx_gni_mask_schedule_independent : forall c nworkers s X z amp n,
  valid_schedule nworkers n s = true -> fx_gni_mask_pool c s X z amp n = fx_gni_mask c X z amp n.
Proof.
  intros c nworkers s X z amp n Hv. unfold fx_gni_mask_pool, fx_gni_mask.
  apply (gni_mask_schedule_independent (list Z) Z Q (Toys.vzero (length X)) Toys.vadd Toys.vsub fx_vscale fx_vdivn
           (fx_cosm (length X)) (fx_gni c) (fun _ => fx_gni c) (fun _ _ => eq_refl) nworkers s X z amp n Hv).
Qed.

(* finding C07-numpy-scalar-amplitude: before the repair a numpy scalar amplitude (np.int64(20) here) made mask_sift raise
   IndexError before the first layer; the repaired code treats it like the Python number *)
Lemma mask_sift_numpy_scalar_v0_refuted :
  exists c X imfs e fr,
    (exists e0 fr0, fx_mask_sift_v0 c 60 (FreqFloat Q (1 # 4)) (2 # 1) 3 (AmpNpScalar Z 20) 4 X = Some ([], e0, fr0) /\ raised e0 = true) /\
    fx_mask_sift c 60 (FreqFloat Q (1 # 4)) (2 # 1) 3 (AmpNpScalar Z 20) 4 X = Some (imfs, e, fr) /\
    fx_mask_sift c 60 (FreqFloat Q (1 # 4)) (2 # 1) 3 (AmpScalar Z 20) 4 X = Some (imfs, e, fr) /\
    length imfs = 3%nat /\ raised e = false.
Proof.
  exists [0; 0; 20; 1; 1; 0; 1; 8; 1; 16; 1; 2; 1; 16; 1; 0; 0].
  exists (to_fx [36; 8; 4; -20; 4; 24; 48; 60; 48; 24; 48; 12; 24; 40; 4; 24; 20; 12; 48; 24; 28; -8; -44; -80; -48; -84; -72; -84; -68; -104; -76; -84]).
  eexists. eexists. eexists.
  split; [eexists; eexists; split; vm_compute; reflexivity|].
  split; [vm_compute; reflexivity|].
  split; [vm_compute; reflexivity|].
  split; vm_compute; reflexivity.
Qed.

(* ---- a concrete, non-trivial state ----------------------------------------------------------------------------- *)
Definition ex_cfg : list Z := [0; 0; 20; 1; 1; 0; 1; 8; 1; 16; 1; 2; 1; 16; 1; 0; 0].
Definition ex_X : list Z :=
  to_fx [36; 8; 4; -20; 4; 24; 48; 60; 48; 24; 48; 12; 24; 40; 4; 24; 20; 12; 48; 24; 28; -8; -44; -80; -48; -84; -72; -84; -68; -104; -76; -84].
Definition ex_sched : schedule := mk_schedule [(3, 2); (0, 1); (2, 0); (1, 2)].

(* four phases, amplitude 20, frequency 1/4: all four extractions succeed, the masked IMF differs from the plain one
   (the masks matter), a scrambled three-worker schedule is valid and gives the same result, zero amplitude gives the
   plain extraction, and a three-layer masked sift returns the ladder 1/4, 1/8, 1/16 it used *)
Lemma c07_premises_hold :
  exists p q,
    fx_gni_mask ex_cfg ex_X (1 # 4) 20 4 = Imf p true 0 /\
    fx_gni ex_cfg ex_X = Imf q true 2 /\ p <> q /\
    valid_schedule 3 4 ex_sched = true /\
    fx_gni_mask_pool ex_cfg ex_sched ex_X (1 # 4) 20 4 = Imf p true 0 /\
    fx_gni_mask ex_cfg ex_X (1 # 4) 0 4 = Imf q true 0 /\
    (exists imfs e, fx_mask_sift ex_cfg 60 (FreqFloat Q (1 # 4)) (2 # 1) 3 (AmpScalar Z 20) 4 ex_X
                    = Some (imfs, e, [(1 # 4) / 1; (1 # 4) / (2 # 1); (1 # 4) / ((2 # 1) * (2 # 1))]%Q) /\ length imfs = 3%nat).
Proof.
  eexists. eexists. split; [vm_compute; reflexivity|].
  split; [vm_compute; reflexivity|].
  split; [vm_compute; discriminate|].
  split; [vm_compute; reflexivity|].
  split; [vm_compute; reflexivity|].
  split; [vm_compute; reflexivity|].
  eexists. eexists. split; vm_compute; reflexivity.
Qed.
