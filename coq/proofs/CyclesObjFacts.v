(* Proofs for property C15: the cycle container keeps metrics, subsets and chains coherent
   (model/CyclesObj.v).  The statements of the main lemmas are exactly those of props/Prop_C15.v. *)
From Coq Require Import String Ascii ZArith QArith List Bool Lia Arith Sorted.
From EmdV Require Import lib.NpLite model.CycleMaps model.CycleVec model.CycleStat model.CyclesObj
  proofs.CycleMapsFacts proofs.CycleVecFacts proofs.CycleStatFacts.
Import ListNotations.
Open Scope Z_scope.

(* ====================================================================================== *)
(* A. comparators and condition strings                                                    *)
(* ====================================================================================== *)

Lemma comparators_correct : forall (m : Z) (q : Q),
  (eval_cmp CEq (Some m) q = true <-> (inject_Z m == q)%Q) /\
  (eval_cmp CNe (Some m) q = true <-> ~ (inject_Z m == q)%Q) /\
  (eval_cmp CLe (Some m) q = true <-> (inject_Z m <= q)%Q) /\
  (eval_cmp CGe (Some m) q = true <-> (q <= inject_Z m)%Q) /\
  (eval_cmp CLt (Some m) q = true <-> (inject_Z m < q)%Q) /\
  (eval_cmp CGt (Some m) q = true <-> (q < inject_Z m)%Q).
Proof.
  intros m q. cbn [eval_cmp].
  repeat split.
  - apply Qeq_bool_iff.
  - apply Qeq_bool_iff.
  - intros H E. apply Qeq_bool_iff in E. rewrite E in H. discriminate.
  - intros H. destruct (Qeq_bool (inject_Z m) q) eqn:E; [|reflexivity].
    apply Qeq_bool_iff in E. contradiction.
  - apply Qle_bool_iff.
  - apply Qle_bool_iff.
  - apply Qle_bool_iff.
  - apply Qle_bool_iff.
  - intros H. apply Qnot_le_lt. intros L. apply Qle_bool_iff in L. rewrite L in H. discriminate.
  - intros H. destruct (Qle_bool q (inject_Z m)) eqn:E; [|reflexivity].
    apply Qle_bool_iff in E. apply Qlt_not_le in H. contradiction.
  - intros H. apply Qnot_le_lt. intros L. apply Qle_bool_iff in L. rewrite L in H. discriminate.
  - intros H. destruct (Qle_bool (inject_Z m) q) eqn:E; [|reflexivity].
    apply Qle_bool_iff in E. apply Qlt_not_le in H. contradiction.
Qed.

(* a missing value (nan) satisfies only != *)
Lemma comparators_missing : forall c q, eval_cmp c None q = true <-> c = CNe.
Proof. intros c q. destruct c; cbn [eval_cmp]; split; intros H; try discriminate; reflexivity. Qed.

(* the text of the six comparators *)
Definition cmp_chars (c : cmp) : list ascii :=
  match c with
  | CEq => ["="; "="] | CNe => ["!"; "="] | CLe => ["<"; "="] | CGe => [">"; "="]
  | CLt => ["<"] | CGt => [">"]
  end%char.

Definition no_opchar (l : list ascii) : Prop := Forall (fun c => is_opchar c = false) l.

Lemma span_name_app : forall name rest c,
  no_opchar name -> is_opchar c = true -> span_name (name ++ c :: rest) = (name, c :: rest).
Proof.
  induction name as [|x t IH]; intros rest c Hn Hc.
  - cbn [app span_name]. rewrite Hc. reflexivity.
  - inversion Hn as [|? ? Hx Ht]; subst. cbn [app span_name]. rewrite Hx.
    rewrite (IH rest c Ht Hc). reflexivity.
Qed.

Lemma chars_unchars : forall l, chars (unchars l) = l.
Proof. induction l as [|c t IH]; cbn [chars unchars]; [reflexivity|rewrite IH; reflexivity]. Qed.

(* a literal text: something float() accepts never begins with one of = < > ! *)
Definition starts_clean (l : list ascii) : Prop :=
  match l with [] => False | c :: _ => is_opchar c = false end.

Lemma lstrip_clean : forall l, starts_clean l -> lstrip_ops l = l.
Proof. intros [|c t] H; [destruct H|]. cbn [lstrip_ops]. cbn in H. rewrite H. reflexivity. Qed.

(* name, comparator text, literal text  -->  exactly that name, that comparator, that number *)
Lemma parse_cond_spec : forall name c lit q,
  no_opchar name -> starts_clean lit -> parse_float lit = Some q ->
  parse_cond (unchars (name ++ cmp_chars c ++ lit)) =
    Some {| c_name := unchars name; c_cmp := c; c_lit := q |}.
Proof.
  intros name c lit q Hn Hl Hq. unfold parse_cond. rewrite chars_unchars.
  destruct lit as [|l0 lt]; [destruct Hl|]. cbn in Hl.
  assert (Hl0 : (code l0 =? 61) = false).
  { unfold is_opchar in Hl. cbv zeta in Hl. apply orb_false_iff in Hl. destruct Hl as [Hl _].
    apply orb_false_iff in Hl. destruct Hl as [Hl _]. apply orb_false_iff in Hl. tauto. }
  destruct c; cbn [cmp_chars app].
  all: rewrite span_name_app by (try exact Hn; reflexivity).
  all: cbn [parse_cmp]; change (code "="%char) with 61; change (code "!"%char) with 33;
       change (code "<"%char) with 60; change (code ">"%char) with 62; cbn [Z.eqb Pos.eqb andb orb].
  all: try rewrite Hl0; cbn [andb].
  all: cbn [lstrip_ops]; change (is_opchar "="%char) with true; change (is_opchar "!"%char) with true;
       change (is_opchar "<"%char) with true; change (is_opchar ">"%char) with true; cbv iota.
  all: cbn [lstrip_ops]; rewrite Hl; rewrite Hq; reflexivity.
Qed.

(* the value of a literal: mantissa times a power of ten *)
Lemma mkQ_value : forall m e : Z,
  (0 <= e -> (mkQ m e == inject_Z (m * 10 ^ e))%Q) /\
  (e < 0 -> (mkQ m e * inject_Z (10 ^ (- e)) == inject_Z m)%Q).
Proof.
  intros m e. unfold mkQ. split; intros H.
  - destruct (Z.leb_spec 0 e); [reflexivity|lia].
  - destruct (Z.leb_spec 0 e); [lia|].
    assert (Hp : 0 < 10 ^ (- e)) by (apply Z.pow_pos_nonneg; lia).
    unfold Qeq, Qmult, inject_Z. cbn [Qnum Qden].
    rewrite Pos.mul_1_r. rewrite Z2Pos.id by exact Hp. ring.
Qed.

Definition cond_view (o : option cond) : option (string * cmp * Q) :=
  option_map (fun c => (c_name c, c_cmp c, Qred (c_lit c))) o.

(* negative, decimal, exponent, signed-exponent, bare-point and capital-E literals *)
Lemma parse_cond_examples :
  cond_view (parse_cond "max_amp>0.75") = Some ("max_amp"%string, CGt, 3 # 4)%Q /\
  cond_view (parse_cond "a>=-1.5e-1") = Some ("a"%string, CGe, (-3) # 20)%Q /\
  cond_view (parse_cond "duration<=2.5e1") = Some ("duration"%string, CLe, 25 # 1)%Q /\
  cond_view (parse_cond "x!=-3") = Some ("x"%string, CNe, (-3) # 1)%Q /\
  cond_view (parse_cond "x==+1E+1") = Some ("x"%string, CEq, 10 # 1)%Q /\
  cond_view (parse_cond "b<.5") = Some ("b"%string, CLt, 1 # 2)%Q /\
  cond_view (parse_cond "b<-0.25e1") = Some ("b"%string, CLt, (-5) # 2)%Q /\
  cond_view (parse_cond "b>3.") = Some ("b"%string, CGt, 3 # 1)%Q /\
  parse_cond "b=3" = None /\ parse_cond "b>" = None /\ parse_cond "b>1e" = None /\ parse_cond "b>1.2.3" = None.
Proof. vm_compute. repeat split; reflexivity. Qed.
