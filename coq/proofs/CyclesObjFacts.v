(* Proofs for property C15: the cycle container keeps metrics, subsets and chains coherent
   (model/CyclesObj.v).  The statements of the main lemmas are exactly those of props/Prop_C15.v. *)
From Coq Require Import String Ascii ZArith QArith List Bool Lia Arith Sorted.
From EmdV Require Import lib.NpLite model.CycleMaps model.CycleVec model.CycleStat model.CyclesObj
  proofs.CycleMapsFacts proofs.CycleVecFacts proofs.CycleStatFacts.
Import ListNotations.
Open Scope Z_scope.

(* ====================================================================================== *)
(* A. comparators and condition strings                                                    *)
(* ====================================================================================== *)

Lemma comparators_correct : forall (m : Z) (q : Q),
  (eval_cmp CEq (Some m) q = true <-> (inject_Z m == q)%Q) /\
  (eval_cmp CNe (Some m) q = true <-> ~ (inject_Z m == q)%Q) /\
  (eval_cmp CLe (Some m) q = true <-> (inject_Z m <= q)%Q) /\
  (eval_cmp CGe (Some m) q = true <-> (q <= inject_Z m)%Q) /\
  (eval_cmp CLt (Some m) q = true <-> (inject_Z m < q)%Q) /\
  (eval_cmp CGt (Some m) q = true <-> (q < inject_Z m)%Q).
Proof.
  intros m q. cbn [eval_cmp].
  repeat split.
  - apply Qeq_bool_iff.
  - apply Qeq_bool_iff.
  - intros H E. apply Qeq_bool_iff in E. rewrite E in H. discriminate.
  - intros H. destruct (Qeq_bool (inject_Z m) q) eqn:E; [|reflexivity].
    apply Qeq_bool_iff in E. contradiction.
  - apply Qle_bool_iff.
  - apply Qle_bool_iff.
  - apply Qle_bool_iff.
  - apply Qle_bool_iff.
  - intros H. apply Qnot_le_lt. intros L. apply Qle_bool_iff in L. rewrite L in H. discriminate.
  - intros H. destruct (Qle_bool q (inject_Z m)) eqn:E; [|reflexivity].
    apply Qle_bool_iff in E. apply Qlt_not_le in H. contradiction.
  - intros H. apply Qnot_le_lt. intros L. apply Qle_bool_iff in L. rewrite L in H. discriminate.
  - intros H. destruct (Qle_bool (inject_Z m) q) eqn:E; [|reflexivity].
    apply Qle_bool_iff in E. apply Qlt_not_le in H. contradiction.
Qed.

(* a missing value (nan) satisfies only != *)
Lemma comparators_missing : forall c q, eval_cmp c None q = true <-> c = CNe.
Proof. intros c q. destruct c; cbn [eval_cmp]; split; intros H; try discriminate; reflexivity. Qed.


Lemma span_name_app : forall name rest c,
  no_opchar name -> is_opchar c = true -> span_name (name ++ c :: rest) = (name, c :: rest).
Proof.
  induction name as [|x t IH]; intros rest c Hn Hc.
  - cbn [app span_name]. rewrite Hc. reflexivity.
  - inversion Hn as [|? ? Hx Ht]; subst. cbn [app span_name]. rewrite Hx.
    rewrite (IH rest c Ht Hc). reflexivity.
Qed.

Lemma chars_unchars : forall l, chars (unchars l) = l.
Proof. induction l as [|c t IH]; cbn [chars unchars]; [reflexivity|rewrite IH; reflexivity]. Qed.


Lemma lstrip_clean : forall l, starts_clean l -> lstrip_ops l = l.
Proof. intros [|c t] H; [destruct H|]. cbn [lstrip_ops]. cbn in H. rewrite H. reflexivity. Qed.

(* name, comparator text, literal text  -->  exactly that name, that comparator, that number *)
Lemma parse_cond_spec : forall name c lit q,
  no_opchar name -> starts_clean lit -> parse_float lit = Some q ->
  parse_cond (unchars (name ++ cmp_chars c ++ lit)) =
    Some {| c_name := unchars name; c_cmp := c; c_lit := q |}.
Proof.
  intros name c lit q Hn Hl Hq. unfold parse_cond. rewrite chars_unchars.
  destruct lit as [|l0 lt]; [destruct Hl|]. cbn in Hl.
  assert (Hl0 : (code l0 =? 61) = false).
  { unfold is_opchar in Hl. cbv zeta in Hl. apply orb_false_iff in Hl. destruct Hl as [Hl _].
    apply orb_false_iff in Hl. destruct Hl as [Hl _]. apply orb_false_iff in Hl. tauto. }
  destruct c; cbn [cmp_chars app].
  all: rewrite span_name_app by (try exact Hn; reflexivity).
  all: cbn [parse_cmp]; change (code "="%char) with 61; change (code "!"%char) with 33;
       change (code "<"%char) with 60; change (code ">"%char) with 62; cbn [Z.eqb Pos.eqb andb orb].
  all: try rewrite Hl0; cbn [andb].
  all: cbn [lstrip_ops]; change (is_opchar "="%char) with true; change (is_opchar "!"%char) with true;
       change (is_opchar "<"%char) with true; change (is_opchar ">"%char) with true; cbv iota.
  all: cbn [lstrip_ops]; rewrite Hl; rewrite Hq; reflexivity.
Qed.

(* the value of a literal: mantissa times a power of ten *)
Lemma mkQ_value : forall m e : Z,
  (0 <= e -> (mkQ m e == inject_Z (m * 10 ^ e))%Q) /\
  (e < 0 -> (mkQ m e * inject_Z (10 ^ (- e)) == inject_Z m)%Q).
Proof.
  intros m e. unfold mkQ. split; intros H.
  - destruct (Z.leb_spec 0 e); [reflexivity|lia].
  - destruct (Z.leb_spec 0 e); [lia|].
    assert (Hp : 0 < 10 ^ (- e)) by (apply Z.pow_pos_nonneg; lia).
    unfold Qeq, Qmult, inject_Z. cbn [Qnum Qden].
    rewrite Pos.mul_1_r. rewrite Z2Pos.id by exact Hp. ring.
Qed.


(* negative, decimal, exponent, signed-exponent, bare-point and capital-E literals *)
Lemma parse_cond_examples :
  cond_view (parse_cond "max_amp>0.75") = Some ("max_amp"%string, CGt, 3 # 4)%Q /\
  cond_view (parse_cond "a>=-1.5e-1") = Some ("a"%string, CGe, (-3) # 20)%Q /\
  cond_view (parse_cond "duration<=2.5e1") = Some ("duration"%string, CLe, 25 # 1)%Q /\
  cond_view (parse_cond "x!=-3") = Some ("x"%string, CNe, (-3) # 1)%Q /\
  cond_view (parse_cond "x==+1E+1") = Some ("x"%string, CEq, 10 # 1)%Q /\
  cond_view (parse_cond "b<.5") = Some ("b"%string, CLt, 1 # 2)%Q /\
  cond_view (parse_cond "b<-0.25e1") = Some ("b"%string, CLt, (-5) # 2)%Q /\
  cond_view (parse_cond "b>3.") = Some ("b"%string, CGt, 3 # 1)%Q /\
  parse_cond "b=3" = None /\ parse_cond "b>" = None /\ parse_cond "b>1e" = None /\ parse_cond "b>1.2.3" = None.
Proof. vm_compute. repeat split; reflexivity. Qed.

(* ====================================================================================== *)
(* B. the container's cycle vector: slices = wrap-delimited segments = label lookup         *)
(* ====================================================================================== *)

Lemma run_starts_repeat : forall x m rest i,
  run_starts x (repeat x m ++ rest) i = run_starts x rest (i + m).
Proof.
  induction m as [|m IH]; intros rest i.
  - cbn [repeat app]. rewrite Nat.add_0_r. reflexivity.
  - cbn [repeat app run_starts]. rewrite Z.eqb_refl. cbn [negb]. rewrite andb_false_r. cbn [app].
    rewrite IH. f_equal. lia.
Qed.

Lemma run_starts_block : forall prev x n rest i, -1 < x -> x <> prev ->
  run_starts prev (repeat x (S n) ++ rest) i = i :: run_starts x rest (i + S n).
Proof.
  intros prev x n rest i Hx Hp. cbn [repeat app run_starts].
  destruct (Z.ltb_spec (-1) x) as [_|L]; [|lia].
  destruct (Z.eqb_spec x prev) as [E|_]; [contradiction|]. cbn [negb andb app].
  rewrite run_starts_repeat. f_equal. f_equal. lia.
Qed.

Definition head_differs (rest : list Z) (x : Z) : Prop :=
  match rest with [] => True | y :: _ => y <> x end.

Lemma run_stops_block : forall x n rest i, -1 < x -> head_differs rest x ->
  run_stops (repeat x (S n) ++ rest) i = (i + S n)%nat :: run_stops rest (i + S n).
Proof.
  intros x n. induction n as [|n IH]; intros rest i Hx Hr.
  - cbn [repeat app run_stops].
    destruct (Z.ltb_spec (-1) x) as [_|L]; [|lia].
    destruct rest as [|y t].
    + destruct (Z.eqb_spec x (-1)) as [E|_]; [lia|]. cbn [negb andb app].
      replace (i + 1)%nat with (S i) by lia. reflexivity.
    + cbn in Hr. destruct (Z.eqb_spec x y) as [E|_]; [congruence|]. cbn [negb andb app].
      replace (i + 1)%nat with (S i) by lia. reflexivity.
  - change (repeat x (S (S n)) ++ rest) with (x :: (repeat x (S n) ++ rest)).
    cbn [run_stops]. change (repeat x (S n) ++ rest) with (x :: (repeat x n ++ rest)) at 1.
    cbv iota. rewrite Z.eqb_refl. cbn [negb]. rewrite andb_false_r. cbn [app].
    rewrite (IH rest (S i) Hx Hr). f_equal; [lia|f_equal; lia].
Qed.

Lemma slices_expand : forall t a k prev,
  StronglySorted lt (a :: t) -> prev < Z.of_nat k ->
  run_starts prev (expand (adj (a :: t)) (map Z.of_nat (seq k (length t)))) a = map fst (adj (a :: t)) /\
  run_stops (expand (adj (a :: t)) (map Z.of_nat (seq k (length t)))) a = map snd (adj (a :: t)) /\
  head_differs (expand (adj (a :: t)) (map Z.of_nat (seq k (length t)))) prev.
Proof.
  induction t as [|b t IH]; intros a k prev Hs Hp.
  - cbn. repeat split.
  - inversion Hs as [|? ? Hs' Hf]; subst. inversion Hf as [|? ? Hab _]; subst.
    change (adj (a :: b :: t)) with ((a, b) :: adj (b :: t)).
    cbn [length seq map expand fst snd].
    destruct (IH b (S k) (Z.of_nat k) Hs' ltac:(lia)) as [I1 [I2 I3]].
    assert (E : (b - a = S (b - a - 1))%nat) by lia. rewrite E.
    rewrite run_starts_block by lia.
    rewrite run_stops_block by (try lia; exact I3).
    replace (a + S (b - a - 1))%nat with b by lia.
    rewrite I1, I2. repeat split. cbn [repeat app head_differs]. lia.
Qed.

Lemma combine_fst_snd : forall A B (l : list (A * B)), combine (map fst l) (map snd l) = l.
Proof. induction l as [|[x y] t IH]; cbn [map combine fst snd]; [reflexivity|rewrite IH; reflexivity]. Qed.

Lemma all_labels_seq : forall P ph goods,
  all_some (map (seg_accept P false None ph) (adj (boundaries P ph))) = Some goods ->
  get_subset_vector goods = map Z.of_nat (seq 0 (length (adj (boundaries P ph)))).
Proof.
  intros P ph goods Hg. apply nth_error_ext_eq. intros k.
  destruct (lt_dec k (length (adj (boundaries P ph)))) as [L|L].
  - rewrite (labelsA_nth _ _ _ _ k Hg L). rewrite nth_error_map, nth_error_seq by exact L. reflexivity.
  - assert (E1 : nth_error (get_subset_vector goods) k = None).
    { apply nth_error_None. rewrite sv_length, (goods_length _ _ _ _ _ _ Hg). lia. }
    rewrite E1. symmetry. apply nth_error_None. rewrite map_length, seq_length. lia.
Qed.

(* the structure of the vector Cycles.__init__ stores *)
Lemma container_cases : forall P ph cv, container P ph cv ->
  (wrap_hits P ph = [] /\ cv = repeat (-1) (length ph) /\ segs_of P ph = []) \/
  (wrap_hits P ph <> [] /\ segs_of P ph = adj (boundaries P ph) /\
   exists goods, all_some (map (seg_accept P false None ph) (adj (boundaries P ph))) = Some goods /\
     cv = expand (adj (boundaries P ph)) (get_subset_vector goods)).
Proof.
  intros P ph cv H. apply gcv_struct in H. unfold segs_of.
  destruct H as [[E ->]|[Hne [goods [Hg ->]]]].
  - left. rewrite E. repeat split.
  - right. split; [exact Hne|]. split.
    + destruct (wrap_hits P ph); [congruence|reflexivity].
    + exists goods. split; [exact Hg|reflexivity].
Qed.

(* make_slice_cache (repaired) yields exactly the wrap-delimited segments *)
Lemma container_slices : forall P ph cv, container P ph cv -> make_slice_cache cv = segs_of P ph.
Proof.
  intros P ph cv H. destruct (container_cases P ph cv H) as [[_ [-> ->]]|[Hne [-> [goods [Hg ->]]]]].
  - unfold make_slice_cache.
    rewrite <- (app_nil_r (repeat (-1) (length ph))). rewrite run_starts_repeat. reflexivity.
  - rewrite (all_labels_seq P ph goods Hg).
    pose proof (boundaries_sorted P ph Hne) as Hs. unfold boundaries in *.
    rewrite adj_length.
    destruct (slices_expand (wrap_hits P ph ++ [length ph]) 0%nat 0%nat (-1) Hs ltac:(lia)) as [I1 [I2 _]].
    unfold make_slice_cache. cbn [Z.of_nat] in I1. rewrite I1, I2. apply combine_fst_snd.
Qed.

Lemma container_seg_bounds : forall P ph cv k a b, container P ph cv ->
  nth_error (segs_of P ph) k = Some (a, b) -> (a < b <= length ph)%nat.
Proof.
  intros P ph cv k a b H Hk. destruct (container_cases P ph cv H) as [[_ [_ E]]|[Hne [E _]]];
    rewrite E in Hk.
  - destruct k; discriminate.
  - eapply seg_bounds; eauto.
Qed.

Lemma container_seg_adjacent : forall P ph j a' b' a b,
  nth_error (segs_of P ph) j = Some (a', b') -> nth_error (segs_of P ph) (S j) = Some (a, b) -> b' = a.
Proof.
  intros P ph j a' b' a b H1 H2. unfold segs_of in *. destruct (wrap_hits P ph).
  - destruct j; discriminate.
  - apply adj_nth_inv in H1. apply adj_nth_inv in H2. destruct H1 as [_ H1]. destruct H2 as [H2 _]. congruence.
Qed.

Lemma container_ncycles : forall P ph cv, container P ph cv -> ncycles cv = length (segs_of P ph).
Proof.
  intros P ph cv H. destruct (container_cases P ph cv H) as [[_ [-> ->]]|[Hne [-> [goods [Hg ->]]]]].
  - unfold ncycles. rewrite zmax_repeat. reflexivity.
  - apply ncycles_all; assumption.
Qed.

Lemma container_length : forall P ph cv, container P ph cv -> length cv = length ph.
Proof. intros P ph cv H. eapply cycle_vector_length; eauto. Qed.

(* every entry is -1 (no cycles at all) or the number of an existing cycle *)
Lemma container_labels : forall P ph cv i x, container P ph cv -> nth_error cv i = Some x ->
  (x = -1 /\ segs_of P ph = []) \/
  (exists k a b, x = Z.of_nat k /\ nth_error (segs_of P ph) k = Some (a, b) /\ (a <= i < b)%nat).
Proof.
  intros P ph cv i x H Hi. destruct (container_cases P ph cv H) as [[_ [-> E]]|[Hne [E [goods [Hg ->]]]]].
  - left. split; [|exact E]. eapply nth_error_repeat_inv; eauto.
  - right. destruct (gcv_out_inv _ _ _ _ _ _ _ Hne Hg Hi) as [k [a [b [g [Hk [Hab [_ [_ [Hl _]]]]]]]]].
    assert (Hkn : (k < length (adj (boundaries P ph)))%nat) by (apply nth_error_Some; congruence).
    rewrite (labelsA_nth _ _ _ _ k Hg Hkn) in Hl. injection Hl as <-.
    exists k, a, b. rewrite E. repeat split; try assumption; lia.
Qed.

(* the samples labelled k are exactly segment k *)
Lemma container_positions : forall P ph cv k a b, container P ph cv ->
  nth_error (segs_of P ph) k = Some (a, b) ->
  map_cycle_to_samples cv (Z.of_nat k) = seq a (b - a).
Proof.
  intros P ph cv k a b H Hk. unfold map_cycle_to_samples.
  apply sorted_ext; [apply positions_sorted|apply seq_sorted|].
  intros i. rewrite In_positions, in_seq. split.
  - intros [x [Hx He]]. apply Z.eqb_eq in He. subst x.
    destruct (container_labels P ph cv i _ H Hx) as [[E _]|[k' [a' [b' [E [Hk' Hab]]]]]]; [lia|].
    apply Nat2Z.inj in E. subst k'. rewrite Hk in Hk'. injection Hk' as <- <-. lia.
  - intros Hi. exists (Z.of_nat k). split; [|apply Z.eqb_refl].
    destruct (container_cases P ph cv H) as [[_ [_ E]]|[Hne [E [goods [Hg ->]]]]]; rewrite E in Hk.
    + destruct k; discriminate.
    + assert (Hkn : (k < length (adj (boundaries P ph)))%nat) by (apply nth_error_Some; congruence).
      eapply out_nth; eauto; [|lia]. apply (labelsA_nth _ _ _ _ k Hg Hkn).
Qed.

Lemma container_no_negative_label : forall P ph cv k, container P ph cv -> k < 0 ->
  segs_of P ph <> [] -> map_cycle_to_samples cv k = [].
Proof.
  intros P ph cv k H Hk Hne. unfold map_cycle_to_samples.
  destruct (positions (Z.eqb k) cv) as [|i t] eqn:E; [reflexivity|exfalso].
  assert (Hin : In i (positions (Z.eqb k) cv)) by (rewrite E; left; reflexivity).
  apply In_positions in Hin. destruct Hin as [x [Hx He]]. apply Z.eqb_eq in He. subst x.
  destruct (container_labels P ph cv i _ H Hx) as [[_ E0]|[k' [a' [b' [E' _]]]]]; [congruence|lia].
Qed.

Lemma take_inds_seq : forall vals a n, (a + n <= length vals)%nat ->
  take_inds vals (seq a n) = slice vals a (a + n).
Proof.
  intros vals a n H. unfold take_inds, slice. rewrite map_nth_seq by exact H.
  replace (a + n - a)%nat with n by lia. reflexivity.
Qed.

Lemma container_select : forall P ph cv vals k a b, container P ph cv -> length vals = length ph ->
  nth_error (segs_of P ph) k = Some (a, b) ->
  select_cycle cv vals (Z.of_nat k) = slice vals a b.
Proof.
  intros P ph cv vals k a b H Hl Hk. unfold select_cycle.
  rewrite (container_positions P ph cv k a b H Hk).
  pose proof (container_seg_bounds P ph cv k a b H Hk) as Hb.
  change (map (fun i => nth i vals 0) (seq a (b - a))) with (take_inds vals (seq a (b - a))).
  rewrite take_inds_seq by lia. replace (a + (b - a))%nat with b by lia. reflexivity.
Qed.

Lemma list_as_map_nth : forall A (l : list A) d, l = map (fun k => nth k l d) (seq 0 (length l)).
Proof.
  intros A l d. apply nth_error_ext_eq. intros k.
  destruct (lt_dec k (length l)) as [L|L].
  - rewrite nth_error_map, nth_error_seq by exact L. cbn [option_map Nat.add].
    apply nth_error_nth'. exact L.
  - assert (E : nth_error l k = None) by (apply nth_error_None; lia). rewrite E.
    symmetry. apply nth_error_None. rewrite map_length, seq_length. lia.
Qed.

(* cycle mode: slice statistics = label-lookup statistics *)
Lemma slice_stat_label_stat : forall P ph cv f vals, container P ph cv -> length vals = length ph ->
  slice_stat f (segs_of P ph) vals = label_stat f cv vals.
Proof.
  intros P ph cv f vals H Hl. unfold slice_stat, label_stat, cycle_stat.
  rewrite (container_ncycles P ph cv H). rewrite map_map.
  rewrite (list_as_map_nth _ (segs_of P ph) (0%nat, 0%nat)) at 1. rewrite map_map.
  apply map_ext_in. intros k Hk. apply in_seq in Hk.
  destruct (nth_error (segs_of P ph) k) as [[a b]|] eqn:E; [|apply nth_error_None in E; lia].
  rewrite (nth_error_nth _ _ (0%nat, 0%nat) E). cbn [fst snd].
  rewrite (container_select P ph cv vals k a b H Hl E). reflexivity.
Qed.

(* ---------- augmented mode ---------------------------------------------------------- *)

Lemma aug_cache_length : forall trough ph sl prev, length (aug_cache_from trough ph prev sl) = length sl.
Proof. induction sl as [|s t IH]; intros prev; cbn [aug_cache_from length]; [reflexivity|rewrite IH; reflexivity]. Qed.

Lemma aug_cache_nth : forall trough ph sl prev k s,
  nth_error sl k = Some s ->
  nth_error (aug_cache_from trough ph prev sl) k =
    Some (augment_slice trough ph (match k with O => prev | S j => nth_error sl j end) s).
Proof.
  induction sl as [|s0 t IH]; intros prev k s Hk.
  - destruct k; discriminate.
  - destruct k as [|k]; cbn [nth_error aug_cache_from] in *.
    + injection Hk as <-. reflexivity.
    + rewrite (IH (Some s0) k s Hk). destruct k; reflexivity.
Qed.

Lemma filter_head_find : forall A (q : A -> bool) l,
  match filter q l with [] => None | p :: _ => Some p end = find q l.
Proof.
  induction l as [|x t IH]; cbn [filter find]; [reflexivity|]. destruct (q x); [reflexivity|exact IH].
Qed.

Lemma last_seq : forall m a, last (seq (S a) m) a = (a + m)%nat.
Proof.
  induction m as [|m IH]; intros a; cbn [seq].
  - cbn [last]. lia.
  - rewrite last_cons. rewrite IH. lia.
Qed.

(* cached: the slice statistic of augmented slice k is f over the specified samples *)
Lemma aug_slice_stat_spec : forall P ph cv trough f vals k, container P ph cv ->
  (k < length (segs_of P ph))%nat ->
  nth_error (aug_slice_stat f (make_aug_slice_cache trough ph (segs_of P ph)) vals) k =
    Some (option_map f (aug_samples P trough ph vals k)).
Proof.
  intros P ph cv trough f vals k H Hk. unfold aug_slice_stat, make_aug_slice_cache.
  destruct (nth_error (segs_of P ph) k) as [[a b]|] eqn:E; [|apply nth_error_None in E; lia].
  rewrite nth_error_map, (aug_cache_nth trough ph _ None k (a, b) E). cbn [option_map].
  f_equal. unfold aug_samples, augment_slice. destruct k as [|j]; [reflexivity|].
  rewrite E. destruct (nth_error (segs_of P ph) j) as [[a' b']|]; [|reflexivity].
  cbn [snd]. destruct (first_above trough ph a' b'); reflexivity.
Qed.

(* uncached: map_cycle_to_samples_augmented selects the specified samples *)
Lemma aug_label_stat_spec : forall P ph cv trough f vals k, container P ph cv ->
  length vals = length ph -> (k < length (segs_of P ph))%nat ->
  nth_error (aug_label_stat f trough cv ph vals) k =
    Some (option_map f (aug_samples P trough ph vals k)).
Proof.
  intros P ph cv trough f vals k H Hl Hk. unfold aug_label_stat.
  rewrite (container_ncycles P ph cv H). rewrite nth_error_map, nth_error_seq by exact Hk.
  cbn [option_map Nat.add]. f_equal.
  destruct (nth_error (segs_of P ph) k) as [[a b]|] eqn:E; [|apply nth_error_None in E; lia].
  assert (Hne : segs_of P ph <> []) by (intro E0; rewrite E0 in E; destruct k; discriminate).
  unfold map_cycle_to_samples_aug, aug_samples.
  destruct k as [|j].
  - cbn [Z.of_nat Z.sub Z.opp Z.add Z.pos_sub].
    rewrite (container_no_negative_label P ph cv (-1) H ltac:(lia) Hne). reflexivity.
  - replace (Z.of_nat (S j) - 1) with (Z.of_nat j) by lia. rewrite E.
    destruct (nth_error (segs_of P ph) j) as [[a' b']|] eqn:E'; [|apply nth_error_None in E'; lia].
    rewrite (container_positions P ph cv j a' b' H E').
    rewrite (container_positions P ph cv (S j) a b H E).
    pose proof (container_seg_bounds P ph cv j a' b' H E') as Hb'.
    pose proof (container_seg_bounds P ph cv (S j) a b H E) as Hb.
    pose proof (container_seg_adjacent P ph j a' b' a b E' E) as Hadj.
    pose proof (filter_head_find nat (fun i => trough <? nth i ph 0) (seq a' (b' - a'))) as Hf.
    unfold first_above. rewrite <- Hf.
    destruct (filter (fun i => trough <? nth i ph 0) (seq a' (b' - a'))) as [|p t] eqn:Ef; [reflexivity|].
    assert (Hp : (a' <= p < b')%nat).
    { assert (Hin : In p (filter (fun i => trough <? nth i ph 0) (seq a' (b' - a')))) by (rewrite Ef; left; reflexivity).
      apply filter_In in Hin. destruct Hin as [Hin _]. apply in_seq in Hin. lia. }
    assert (Eb : (b - a = S (b - a - 1))%nat) by lia. rewrite Eb. cbn [seq].
    rewrite last_seq. cbn [option_map]. f_equal. f_equal.
    replace (S (a + (b - a - 1)) - p)%nat with (b - p)%nat by lia.
    rewrite take_inds_seq by lia. replace (p + (b - p))%nat with b by lia. reflexivity.
Qed.

(* the two augmented computations agree *)
Lemma aug_stat_equal : forall P ph cv trough f vals, container P ph cv -> length vals = length ph ->
  aug_slice_stat f (make_aug_slice_cache trough ph (segs_of P ph)) vals = aug_label_stat f trough cv ph vals.
Proof.
  intros P ph cv trough f vals H Hl. apply nth_error_ext_eq. intros k.
  destruct (lt_dec k (length (segs_of P ph))) as [L|L].
  - rewrite (aug_slice_stat_spec P ph cv trough f vals k H L).
    rewrite (aug_label_stat_spec P ph cv trough f vals k H Hl L). reflexivity.
  - assert (E1 : nth_error (aug_slice_stat f (make_aug_slice_cache trough ph (segs_of P ph)) vals) k = None).
    { apply nth_error_None. unfold aug_slice_stat, make_aug_slice_cache. rewrite map_length, aug_cache_length. lia. }
    rewrite E1. symmetry. apply nth_error_None. unfold aug_label_stat.
    rewrite map_length, seq_length, (container_ncycles P ph cv H). lia.
Qed.

(* cycle mode, stated on the samples carrying the label *)
Lemma label_stat_spec : forall f cv vals k, length cv = length vals -> (k < ncycles cv)%nat ->
  nth_error (label_stat f cv vals) k = Some (Some (f (samples_with_label cv vals (Z.of_nat k)))).
Proof.
  intros f cv vals k Hl Hk. unfold label_stat, cycle_stat.
  rewrite nth_error_map, nth_error_map, nth_error_seq by exact Hk. cbn [option_map Nat.add].
  rewrite select_cycle_spec by exact Hl. reflexivity.
Qed.

(* ====================================================================================== *)
(* C. the metric store                                                                     *)
(* ====================================================================================== *)

Lemma find_upd : forall n m ms,
  find_metric n (upd_metric m ms) = if String.eqb n (m_name m) then Some m else find_metric n ms.
Proof.
  intros n m ms. unfold find_metric. induction ms as [|x t IH]; cbn [upd_metric find].
  - reflexivity.
  - destruct (String.eqb_spec (m_name m) (m_name x)) as [E|E].
    + cbn [find]. destruct (String.eqb_spec n (m_name m)) as [E1|E1]; [reflexivity|].
      destruct (String.eqb_spec n (m_name x)) as [E2|E2]; [congruence|reflexivity].
    + cbn [find]. destruct (String.eqb_spec n (m_name x)) as [E2|E2].
      * destruct (String.eqb_spec n (m_name m)); [congruence|reflexivity].
      * exact IH.
Qed.

Lemma Forall_upd : forall (Q : metric -> Prop) m ms, Forall Q ms -> Q m -> Forall Q (upd_metric m ms).
Proof.
  intros Q m ms H Hm. induction H as [|x t Hx Ht IH]; cbn [upd_metric].
  - constructor; [exact Hm|constructor].
  - destruct (String.eqb (m_name m) (m_name x)); constructor; assumption.
Qed.

Lemma find_metric_In : forall n ms m, find_metric n ms = Some m -> In m ms /\ m_name m = n.
Proof.
  intros n ms m H. unfold find_metric in H. apply find_some in H. destruct H as [Hin He].
  apply String.eqb_eq in He. split; [exact Hin|symmetry; exact He].
Qed.

Lemma metric_ok_set_metrics : forall st ms c m, metric_ok (set_metrics st ms c) m = metric_ok st m.
Proof. reflexivity. Qed.

(* ---------- what an operation never touches ------------------------------------------- *)
Definition frame (st st' : cstate) : Prop :=
  s_P st' = s_P st /\ s_trough st' = s_trough st /\ s_ph st' = s_ph st /\ s_cv st' = s_cv st /\
  s_cache st' = s_cache st.

Lemma frame_refl : forall st, frame st st.
Proof. intros st. unfold frame. repeat split. Qed.

Lemma frame_trans : forall a b c, frame a b -> frame b c -> frame a c.
Proof.
  unfold frame. intros a b c [H1 [H2 [H3 [H4 H5]]]] [G1 [G2 [G3 [G4 G5]]]].
  repeat split; congruence.
Qed.

Lemma add_metric_frame : forall st n p v, frame st (fst (add_metric st n p v)).
Proof.
  intros st n p v. unfold add_metric. destruct (length v =? ncyc st)%nat; cbn [fst].
  - unfold frame. cbn. repeat split.
  - apply frame_refl.
Qed.

Lemma compute_metric_frame : forall st n f mode vals, frame st (compute_metric st n f mode vals).
Proof. intros. unfold compute_metric. apply add_metric_frame. Qed.

Lemma timings_frame : forall st, frame st (timings st).
Proof.
  intros st. unfold timings.
  eapply frame_trans; [apply compute_metric_frame|].
  eapply frame_trans; [apply compute_metric_frame|]. apply compute_metric_frame.
Qed.

Lemma pick_frame : forall st cs, frame st (fst (pick st cs)).
Proof.
  intros st cs. unfold pick. destruct (get_matching st cs) as [valids|e]; [|apply frame_refl].
  destruct (get_chain_vector (get_subset_vector valids)) as [|c t]; [apply frame_refl|].
  cbn [fst]. eapply frame_trans; [|apply add_metric_frame]. unfold frame. cbn. repeat split.
Qed.

Lemma chain_t_loop_frame : forall kinds st chv sv st', chain_t_loop st chv sv kinds = Some st' -> frame st st'.
Proof.
  induction kinds as [|k t IH]; intros st chv sv st' H; cbn [chain_t_loop] in H.
  - injection H as <-. apply frame_refl.
  - destruct (chain_t_vals st chv sv k) as [vals|]; [|discriminate].
    eapply frame_trans; [apply add_metric_frame|]. eapply IH; eauto.
Qed.

Lemma chain_timings_frame : forall st, frame st (fst (chain_timings st)).
Proof.
  intros st. unfold chain_timings.
  destruct (s_conds st); [|apply frame_refl]. destruct (s_subset st) as [sv|]; [|apply frame_refl].
  destruct (s_chain st) as [chv|]; [|apply frame_refl].
  destruct (chain_t_loop st chv sv [0; 1; 2; 3; 4]%nat) as [st'|] eqn:E; [|apply frame_refl].
  cbn [fst]. eapply chain_t_loop_frame; eauto.
Qed.

Lemma step_frame : forall st o, frame st (fst (step st o)).
Proof.
  intros st o. destruct o as [n f mode vals|n vals| |cs| |w]; cbn [step fst].
  - apply compute_metric_frame.
  - pose proof (add_metric_frame st n PAdded vals) as H.
    destruct (add_metric st n PAdded vals) as [st' b]. exact H.
  - apply timings_frame.
  - apply pick_frame.
  - apply chain_timings_frame.
  - apply frame_refl.
Qed.

(* ====================================================================================== *)
(* D. chain-level metrics                                                                   *)
(* ====================================================================================== *)

Lemma chain_nonneg : forall sv j c, nth_error (get_chain_vector sv) j = Some c -> 0 <= c.
Proof.
  intros sv. destruct (chain_vector_spec sv) as [Hlen [H0 Hstep]].
  induction j as [|j IH]; intros c Hc.
  - rewrite (H0 c Hc). lia.
  - assert (Hj : (S j < length (get_chain_vector sv))%nat) by (apply nth_error_Some; congruence).
    destruct (nth_error (selected_cycles sv) j) as [a|] eqn:Ea; [|apply nth_error_None in Ea; lia].
    destruct (nth_error (selected_cycles sv) (S j)) as [b|] eqn:Eb; [|apply nth_error_None in Eb; lia].
    destruct (nth_error (get_chain_vector sv) j) as [ca|] eqn:Eca; [|apply nth_error_None in Eca; lia].
    specialize (IH ca eq_refl).
    destruct (Hstep j a b ca c Ea Eb Eca Hc) as [S1 S2].
    destruct (Nat.eq_dec b (S a)) as [E|E]; [rewrite (S1 E)|rewrite (S2 E)]; lia.
Qed.

Lemma nan_to_m1_nth : forall l k, nth_error (nan_to_m1 l) k =
  option_map (fun o => match o with Some v => Some v | None => Some (-1) end) (nth_error l k).
Proof. intros. unfold nan_to_m1. apply nth_error_map. Qed.

Lemma project_length : forall A (vect : list Z) (vals : list A), length (project_by vect vals) = length vect.
Proof.
  intros A vect vals. destruct (Nat.eq_dec (length (project_by vect vals)) (length vect)) as [E|E]; [exact E|exfalso].
  destruct (lt_dec (length (project_by vect vals)) (length vect)) as [L|L].
  - assert (N : nth_error (project_by vect vals) (length (project_by vect vals)) = None) by (apply nth_error_None; lia).
    rewrite project_by_spec in N.
    destruct (nth_error vect (length (project_by vect vals))) eqn:E1; [discriminate|].
    apply nth_error_None in E1. lia.
  - assert (N : nth_error vect (length vect) = None) by (apply nth_error_None; lia).
    pose proof (project_by_spec A vect vals (length vect)) as Hs. rewrite N in Hs. cbn in Hs.
    apply nth_error_None in Hs. lia.
Qed.

Lemma project_chain_length : forall A (vals : list A) chv sv,
  length (project_chain_to_cycles vals chv sv) = length sv.
Proof.
  intros. unfold project_chain_to_cycles, join_opt. rewrite map_length. apply project_length.
Qed.

(* a per-chain quantity projected onto the cycles *)
Lemma project_chain_value : forall valids stats (g : nat -> Z) k,
  let sv := get_subset_vector valids in
  let chv := get_chain_vector sv in
  (forall c, (c < nchains chv)%nat -> nth_error stats c = Some (g c)) ->
  (k < length valids)%nat ->
  nth_error (nan_to_m1 (project_chain_to_cycles stats chv sv)) k = Some (Some (chain_value chv sv g k)).
Proof.
  intros valids stats g k sv chv Hst Hk.
  rewrite nan_to_m1_nth, project_chain_to_cycles_spec.
  unfold chain_value, map_cycle_to_chain.
  assert (E1 : map_cycle_to_subset sv (Z.of_nat k) =
               if nth k valids false then FVal (Z.of_nat (count_true (firstn k valids))) else FNone)
    by (apply cycle_to_subset_val; exact Hk).
  assert (E2 : nth_error sv k =
               Some (if nth k valids false then Z.of_nat (count_true (firstn k valids)) else -1)).
  { unfold sv. rewrite subset_vector_spec, (nth_error_nth' valids false Hk). reflexivity. }
  rewrite E1, E2. cbn [option_map].
  destruct (nth k valids false) eqn:Eb; [|reflexivity].
  pose proof (subset_val_lt_chv valids k Eb) as Hs. fold sv in Hs. fold chv in Hs.
  set (s := Z.of_nat (count_true (firstn k valids))) in *.
  destruct (Z.leb_spec 0 s) as [_|L]; [|lia].
  unfold map_subset_to_chain. rewrite py_index_nonneg by lia.
  destruct (nth_error chv (Z.to_nat s)) as [c|] eqn:Ec; [|apply nth_error_None in Ec; lia].
  pose proof (chain_nonneg sv _ c Ec) as Hc0.
  destruct (Z.leb_spec 0 c) as [_|L]; [|lia].
  assert (Hcn : (Z.to_nat c < nchains chv)%nat).
  { unfold nchains. pose proof (zmax_list_ge (-1) chv c (nth_error_In _ _ Ec)). lia. }
  rewrite (Hst _ Hcn). reflexivity.
Qed.

Lemma arange_nth : forall n c, (c < n)%nat -> nth_error (arange n) c = Some (Z.of_nat c).
Proof. intros n c H. unfold arange. rewrite nth_error_map, nth_error_seq by exact H. reflexivity. Qed.

Lemma chain_ind_ok : forall valids k,
  let sv := get_subset_vector valids in
  let chv := get_chain_vector sv in
  (k < length valids)%nat ->
  nth_error (chain_ind_vals chv sv) k = Some (Some (chain_value chv sv (fun c => Z.of_nat c) k)).
Proof.
  intros valids k sv chv Hk. unfold chain_ind_vals.
  apply project_chain_value; [|exact Hk]. intros c Hc. apply arange_nth. exact Hc.
Qed.

Lemma chain_ind_length : forall valids,
  length (chain_ind_vals (get_chain_vector (get_subset_vector valids)) (get_subset_vector valids)) = length valids.
Proof.
  intros. unfold chain_ind_vals, nan_to_m1. rewrite map_length, project_chain_length. apply sv_length.
Qed.

Lemma chain_stat_nth : forall f chv sv cv vals stats c,
  chain_stat f chv sv cv vals = Some stats -> (c < nchains chv)%nat ->
  nth_error stats c = Some (match map_chain_to_samples chv sv cv (Z.of_nat c) with
                            | Some inds => f (take_inds vals inds)
                            | None => -1
                            end).
Proof.
  intros f chv sv cv vals stats c H Hc. unfold chain_stat in H.
  pose proof (all_some_nth _ _ _ H c) as E.
  rewrite nth_error_map, nth_error_seq in E by exact Hc. cbn [option_map Nat.add] in E.
  destruct (nth_error stats c) as [v|] eqn:Ev; cbn [option_map] in E.
  - destruct (map_chain_to_samples chv sv cv (Z.of_nat c)); cbn [option_map] in E; [|discriminate].
    injection E as E. rewrite E. reflexivity.
  - destruct (map_chain_to_samples chv sv cv (Z.of_nat c)); discriminate.
Qed.

Lemma chain_t_vals_length : forall st valids kind vals,
  chain_t_vals st (get_chain_vector (get_subset_vector valids)) (get_subset_vector valids) kind = Some vals ->
  length vals = length valids.
Proof.
  intros st valids kind vals H.
  assert (G : forall (stats : list Z),
            length (nan_to_m1 (project_chain_to_cycles stats (get_chain_vector (get_subset_vector valids))
                                                        (get_subset_vector valids))) = length valids).
  { intros. unfold nan_to_m1. rewrite map_length, project_chain_length. apply sv_length. }
  destruct kind as [|[|[|[|[|kk]]]]]; cbn [chain_t_vals] in H.
  5:{ injection H as <-. unfold nan_to_m1, project_subset_to_cycles.
      rewrite map_length, project_length. apply sv_length. }
  all: match type of H with option_map _ ?x = _ => destruct x as [stats|]; [|discriminate] end;
       injection H as <-; apply G.
Qed.

Lemma chain_t_vals_ok : forall st valids kind vals,
  let sv := get_subset_vector valids in
  let chv := get_chain_vector sv in
  length valids = ncyc st ->
  chain_t_vals st chv sv kind = Some vals ->
  chain_metric_ok st sv chv (PChainT kind) vals.
Proof.
  intros st valids kind vals sv chv Hl H.
  assert (G : forall kk, kk <> 4%nat ->
            option_map (fun stats => nan_to_m1 (project_chain_to_cycles stats chv sv))
                       (chain_stat (chain_t_f kk) chv sv (s_cv st) (chain_t_src st kk)) = Some vals ->
            forall k, (k < ncyc st)%nat ->
              nth_error vals k = Some (Some (chain_value chv sv (chain_quantity st chv sv kk) k))).
  { intros kk _ Hv k Hk.
    destruct (chain_stat (chain_t_f kk) chv sv (s_cv st) (chain_t_src st kk)) as [stats|] eqn:Es; [|discriminate].
    injection Hv as <-. apply project_chain_value; [|lia].
    intros c Hc. rewrite (chain_stat_nth _ _ _ _ _ _ c Es Hc). reflexivity. }
  destruct kind as [|[|[|[|[|kk]]]]]; cbn [chain_metric_ok]; cbn [chain_t_vals] in H.
  5:{ injection H as <-. intros k Hk.
      rewrite nan_to_m1_nth. unfold project_subset_to_cycles. rewrite project_by_spec.
      assert (Hkv : (k < length valids)%nat) by lia.
      assert (E1 : map_cycle_to_subset sv (Z.of_nat k) =
                   if nth k valids false then FVal (Z.of_nat (count_true (firstn k valids))) else FNone)
        by (apply cycle_to_subset_val; exact Hkv).
      assert (E2 : nth_error sv k =
                   Some (if nth k valids false then Z.of_nat (count_true (firstn k valids)) else -1)).
      { unfold sv. rewrite subset_vector_spec, (nth_error_nth' valids false Hkv). reflexivity. }
      rewrite E1, E2. cbn [option_map].
      destruct (nth k valids false) eqn:Eb; [|reflexivity].
      pose proof (subset_val_lt_chv valids k Eb) as Hs. fold sv in Hs. fold chv in Hs.
      set (s := Z.of_nat (count_true (firstn k valids))) in *.
      destruct (Z.leb_spec 0 s) as [_|L]; [|lia].
      unfold chain_pos. rewrite nth_error_map, nth_error_seq by lia. reflexivity. }
  all: apply G; [lia|exact H].
Qed.

(* under the invariant no chain map is undefined: compute_chain_timings cannot fail half way *)
Lemma container_wf_labels : forall P ph cv, container P ph cv -> wf_labels cv (ncycles cv).
Proof.
  intros P ph cv H. unfold wf_labels. apply Forall_forall. intros x Hx.
  apply In_nth_error in Hx. destruct Hx as [i Hi].
  pose proof (zmax_list_ge (-1) cv x (nth_error_In _ _ Hi)) as Hm.
  destruct (container_labels P ph cv i x H Hi) as [[-> _]|[k [a [b [-> _]]]]]; unfold ncycles; lia.
Qed.

Lemma chain_t_vals_some : forall st valids kind, container (s_P st) (s_ph st) (s_cv st) ->
  length valids = ncyc st ->
  chain_t_vals st (get_chain_vector (get_subset_vector valids)) (get_subset_vector valids) kind <> None.
Proof.
  intros st valids kind Hc Hl.
  assert (G : forall f src, chain_stat f (get_chain_vector (get_subset_vector valids)) (get_subset_vector valids)
                                     (s_cv st) src <> None).
  { intros f src. unfold chain_stat. apply all_some_total. intros x Hx.
    apply in_map_iff in Hx. destruct Hx as [c [<- _]].
    pose proof (container_wf_labels _ _ _ Hc) as Hwf. unfold ncyc in Hl. rewrite <- Hl in Hwf.
    destruct (maps_defined (s_cv st) valids Hwf) as [_ [_ [_ Hd]]]. specialize (Hd (Z.of_nat c)).
    destruct (map_chain_to_samples (get_chain_vector (get_subset_vector valids)) (get_subset_vector valids)
                                   (s_cv st) (Z.of_nat c)); [discriminate|congruence]. }
  destruct kind as [|[|[|[|[|kk]]]]]; cbn [chain_t_vals]; try discriminate.
  all: match goal with |- option_map _ (chain_stat ?f _ _ _ ?src) <> None =>
         specialize (G f src); destruct (chain_stat f (get_chain_vector (get_subset_vector valids))
                                                    (get_subset_vector valids) (s_cv st) src);
         [discriminate|congruence] end.
Qed.

(* ====================================================================================== *)
(* E. the invariant                                                                         *)
(* ====================================================================================== *)

Ltac proj := cbn [s_P s_trough s_ph s_cv s_cache s_metrics s_subset s_chain s_conds s_valids s_clock
                  s_pick_clock set_metrics set_subset drop_cache fst snd] in *.

(* get_matching_cycles reads nothing but the metrics *)
Definition gm (ms : list metric) (cs : list string) : res (list bool) :=
  match find_metric "is_good" ms with
  | None => Err 4
  | Some g =>
      match resolve ms cs with
      | Err e => Err e
      | Ok r => Ok (map (sat_all r) (seq 0 (length (m_vals g))))
      end
  end.

Lemma get_matching_gm : forall st cs, get_matching st cs = gm (s_metrics st) cs.
Proof. reflexivity. Qed.

Definition fresh_in (ms : list metric) (pc : nat) (cs : list string) : Prop :=
  Forall (fun s => match parse_cond s with
                   | None => False
                   | Some c => match find_metric (c_name c) ms with
                               | None => False
                               | Some m => (m_stamp m < pc)%nat
                               end
                   end) cs.

Lemma fresh_conds_in : forall st cs, fresh_conds st cs = fresh_in (s_metrics st) (s_pick_clock st) cs.
Proof. reflexivity. Qed.

Lemma resolve_upd_fresh : forall ms m' pc cs,
  fresh_in (upd_metric m' ms) pc cs -> (pc <= m_stamp m')%nat ->
  resolve (upd_metric m' ms) cs = resolve ms cs /\ fresh_in ms pc cs.
Proof.
  intros ms m' pc cs H Hpc. unfold fresh_in in *. induction H as [|s t Hs Ht IH].
  - split; [reflexivity|constructor].
  - destruct IH as [I1 I2]. cbn [resolve].
    destruct (parse_cond s) as [c|] eqn:Ep; [|destruct Hs].
    rewrite find_upd in Hs. rewrite find_upd.
    destruct (String.eqb (c_name c) (m_name m')) eqn:En; [lia|].
    rewrite I1. split; [reflexivity|]. constructor; [rewrite Ep; exact Hs|exact I2].
Qed.

Lemma gm_upd : forall ms m' cs v n,
  gm ms cs = Ok v -> resolve (upd_metric m' ms) cs = resolve ms cs ->
  (forall g, find_metric "is_good" ms = Some g -> length (m_vals g) = n) -> length (m_vals m') = n ->
  gm (upd_metric m' ms) cs = Ok v.
Proof.
  unfold gm. intros ms m' cs v n H Hr Hg Hl. rewrite find_upd.
  destruct (find_metric "is_good" ms) as [g|] eqn:Eg; [|discriminate].
  rewrite Hr. destruct (resolve ms cs) as [r|e]; [|discriminate].
  destruct (String.eqb "is_good" (m_name m')); [|exact H].
  rewrite Hl, <- (Hg g eq_refl). exact H.
Qed.

Lemma is_good_length : forall st g, Forall (metric_ok st) (s_metrics st) ->
  find_metric "is_good" (s_metrics st) = Some g -> length (m_vals g) = ncyc st.
Proof.
  intros st g H Hf. apply find_metric_In in Hf. destruct Hf as [Hin _].
  rewrite Forall_forall in H. exact (proj1 (H g Hin)).
Qed.

Lemma sel_ok_set_metrics : forall st m',
  Forall (metric_ok st) (s_metrics st) -> (s_pick_clock st <= s_clock st)%nat ->
  m_stamp m' = S (s_clock st) -> length (m_vals m') = ncyc st ->
  sel_ok st -> sel_ok (set_metrics st (upd_metric m' (s_metrics st)) (S (s_clock st))).
Proof.
  intros st m' Hm Hp Hst Hl Hs. unfold sel_ok in *. proj.
  destruct (s_conds st) as [cs|]; destruct (s_subset st) as [sv|]; destruct (s_chain st) as [chv|];
    try exact Hs.
  destruct Hs as [H1 [H2 [H3 [H4 H5]]]]. repeat split; try assumption.
  intros Hf. rewrite fresh_conds_in in Hf. rewrite get_matching_gm. proj.
  destruct (resolve_upd_fresh _ _ _ _ Hf ltac:(lia)) as [Hr Hf0].
  specialize (H5 Hf0). rewrite get_matching_gm in H5.
  eapply gm_upd; eauto. intros g Hg. eapply is_good_length; eauto.
Qed.

Lemma inv_add_metric : forall st name p vals,
  Inv st ->
  (length vals = ncyc st ->
   metric_ok st {| m_name := name; m_vals := vals; m_prov := p; m_stamp := S (s_clock st) |}) ->
  Inv (fst (add_metric st name p vals)).
Proof.
  intros st name p vals HI Hnew. unfold add_metric.
  destruct (Nat.eqb_spec (length vals) (ncyc st)) as [E|E]; cbn [fst]; [|exact HI].
  destruct HI as [Hc [Hk [Hm [Hs [Ht Hp]]]]]. specialize (Hnew E).
  unfold Inv. split; [exact Hc|]. split; [exact Hk|]. split; [|split; [|split]].
  - proj. apply Forall_upd; [|exact Hnew].
    eapply Forall_impl; [|exact Hm]. intros m Hmm. exact Hmm.
  - apply sel_ok_set_metrics; try assumption; reflexivity.
  - proj. apply Forall_upd; [|cbn; lia].
    eapply Forall_impl; [|exact Ht]. cbn beta. intros m Hmm. lia.
  - proj. lia.
Qed.

(* ---------- compute_cycle_metric -------------------------------------------------------- *)

Lemma frame_nsamples : forall st st', frame st st' -> nsamples st' = nsamples st.
Proof. intros st st' [_ [_ [_ [H _]]]]. unfold nsamples. rewrite H. reflexivity. Qed.

Lemma compute_vals_label : forall st f mode vals,
  container (s_P st) (s_ph st) (s_cv st) -> cache_ok st -> length vals = nsamples st ->
  compute_vals st f mode vals =
    match mode with
    | MCycle => label_stat f (s_cv st) vals
    | MAug => aug_label_stat f (s_trough st) (s_cv st) (s_ph st) vals
    end.
Proof.
  intros st f mode vals Hc Hk Hl.
  assert (Hl' : length vals = length (s_ph st)).
  { unfold nsamples in Hl. rewrite Hl. eapply container_length; eauto. }
  unfold compute_vals. destruct Hk as [E|E]; rewrite E; destruct mode; try reflexivity.
  - eapply slice_stat_label_stat; eauto.
  - eapply aug_stat_equal; eauto.
Qed.

Lemma compute_metric_ok : forall st name f mode vals stamp,
  container (s_P st) (s_ph st) (s_cv st) -> cache_ok st -> length vals = nsamples st ->
  metric_ok st {| m_name := name; m_vals := compute_vals st f mode vals;
                  m_prov := PComputed f mode vals; m_stamp := stamp |}.
Proof.
  intros st name f mode vals stamp Hc Hk Hl. unfold metric_ok. cbn [m_vals m_prov].
  rewrite (compute_vals_label st f mode vals Hc Hk Hl).
  assert (Hl' : length vals = length (s_ph st)).
  { unfold nsamples in Hl. rewrite Hl. eapply container_length; eauto. }
  destruct mode.
  - split; [unfold label_stat; rewrite map_length, cycle_stat_length; reflexivity|].
    split; [exact Hl|]. intros k Hk'. apply label_stat_spec; [|exact Hk'].
    unfold nsamples in Hl. symmetry. exact Hl.
  - split; [unfold aug_label_stat; rewrite map_length, seq_length; reflexivity|].
    split; [exact Hl|]. intros k Hk'.
    eapply aug_label_stat_spec; eauto. rewrite <- (container_ncycles _ _ _ Hc). exact Hk'.
Qed.

Lemma compute_vals_length : forall st f mode vals,
  container (s_P st) (s_ph st) (s_cv st) -> cache_ok st -> length vals = nsamples st ->
  length (compute_vals st f mode vals) = ncyc st.
Proof. intros. exact (proj1 (compute_metric_ok st EmptyString f mode vals 0%nat H H0 H1)). Qed.

Lemma inv_compute : forall st name f mode vals, Inv st -> length vals = nsamples st ->
  Inv (compute_metric st name f mode vals).
Proof.
  intros st name f mode vals HI Hl. unfold compute_metric. apply inv_add_metric; [exact HI|].
  intros _. destruct HI as [Hc [Hk _]]. apply compute_metric_ok; assumption.
Qed.

Lemma arange_length : forall n, length (arange n) = n.
Proof. intros. unfold arange. rewrite map_length, seq_length. reflexivity. Qed.

Lemma inv_timings : forall st, Inv st -> Inv (timings st).
Proof.
  intros st HI. unfold timings.
  pose proof (compute_metric_frame st "start_sample" f_first MCycle (arange (nsamples st))) as F1.
  set (st1 := compute_metric st "start_sample" f_first MCycle (arange (nsamples st))) in *.
  pose proof (compute_metric_frame st1 "stop_sample" f_last MCycle (arange (nsamples st))) as F2.
  set (st2 := compute_metric st1 "stop_sample" f_last MCycle (arange (nsamples st))) in *.
  assert (I1 : Inv st1) by (apply inv_compute; [exact HI|apply arange_length]).
  assert (I2 : Inv st2).
  { apply inv_compute; [exact I1|]. rewrite arange_length. symmetry. apply frame_nsamples. exact F1. }
  apply inv_compute; [exact I2|].
  rewrite (frame_nsamples _ _ F2), (frame_nsamples _ _ F1). reflexivity.
Qed.

(* ---------- pick_cycle_subset ------------------------------------------------------------- *)

Lemma gm_length : forall ms cs v, gm ms cs = Ok v ->
  exists g, find_metric "is_good" ms = Some g /\ length v = length (m_vals g).
Proof.
  unfold gm. intros ms cs v H. destruct (find_metric "is_good" ms) as [g|]; [|discriminate].
  destruct (resolve ms cs) as [r|e]; [|discriminate]. injection H as <-.
  exists g. split; [reflexivity|]. rewrite map_length, seq_length. reflexivity.
Qed.

Lemma get_matching_length : forall st cs v, Forall (metric_ok st) (s_metrics st) ->
  get_matching st cs = Ok v -> length v = ncyc st.
Proof.
  intros st cs v Hm H. rewrite get_matching_gm in H. destruct (gm_length _ _ _ H) as [g [Hg ->]].
  eapply is_good_length; eauto.
Qed.

Lemma inv_pick : forall st cs, Inv st -> Inv (fst (pick st cs)).
Proof.
  intros st cs HI. unfold pick.
  destruct (get_matching st cs) as [valids|e] eqn:Eg; [|exact HI].
  destruct (get_chain_vector (get_subset_vector valids)) as [|c0 ct] eqn:Ec; [exact HI|].
  cbn [fst]. rewrite <- Ec.
  destruct HI as [Hc [Hk [Hm [Hs [Ht Hp]]]]].
  pose proof (get_matching_length st cs valids Hm Eg) as Hlv.
  apply inv_add_metric.
  - unfold Inv. split; [exact Hc|]. split; [exact Hk|]. split; [|split; [|split]].
    + proj. rewrite Forall_forall in *. intros m Hin. specialize (Hm m Hin). specialize (Ht m Hin).
      unfold metric_ok in *. proj. destruct Hm as [Hm1 Hm2]. split; [exact Hm1|].
      destruct (m_prov m) as [f [|] v| | |kind]; try exact Hm2; intros Hlt; lia.
    + unfold sel_ok. proj. split; [exact Hlv|]. split; [reflexivity|]. split; [reflexivity|].
      split; [rewrite Ec; discriminate|]. intros _. exact Eg.
    + proj. eapply Forall_impl; [|exact Ht]. cbn beta. intros m Hmm. lia.
    + proj. lia.
  - intros _. unfold metric_ok. cbn [m_vals m_prov m_stamp]. proj.
    split; [rewrite chain_ind_length; exact Hlv|].
    intros _. cbn [chain_metric_ok]. intros k Hk'. apply chain_ind_ok.
    unfold ncyc in *. proj. lia.
Qed.

(* ---------- compute_chain_timings ---------------------------------------------------------- *)

Lemma add_metric_sel : forall st n p v,
  s_subset (fst (add_metric st n p v)) = s_subset st /\ s_chain (fst (add_metric st n p v)) = s_chain st /\
  s_conds (fst (add_metric st n p v)) = s_conds st /\
  s_valids (fst (add_metric st n p v)) = s_valids st /\
  s_pick_clock (fst (add_metric st n p v)) = s_pick_clock st.
Proof.
  intros st n p v. unfold add_metric. destruct (length v =? ncyc st)%nat; cbn; repeat split.
Qed.

Lemma inv_chain_loop : forall kinds st sv chv st',
  Inv st -> s_subset st = Some sv -> s_chain st = Some chv ->
  chain_t_loop st chv sv kinds = Some st' -> Inv st'.
Proof.
  induction kinds as [|k t IH]; intros st sv chv st' HI Hsv Hchv H; cbn [chain_t_loop] in H.
  - injection H as <-. exact HI.
  - destruct (chain_t_vals st chv sv k) as [vals|] eqn:Ev; [|discriminate].
    destruct (add_metric_sel st (chain_t_name k) (PChainT k) vals) as [A1 [A2 _]].
    eapply (IH _ sv chv st'); [|rewrite A1; exact Hsv|rewrite A2; exact Hchv|exact H].
    apply inv_add_metric; [exact HI|]. intros Hl.
    unfold metric_ok. cbn [m_vals m_prov m_stamp]. split; [exact Hl|].
    intros _. rewrite Hsv, Hchv.
    destruct HI as [_ [_ [_ [Hs _]]]]. unfold sel_ok in Hs. rewrite Hsv, Hchv in Hs.
    destruct (s_conds st); [|destruct Hs]. destruct Hs as [H1 [H2 [H3 _]]].
    subst sv chv. apply chain_t_vals_ok; assumption.
Qed.

Lemma inv_chain_timings : forall st, Inv st -> Inv (fst (chain_timings st)).
Proof.
  intros st HI. unfold chain_timings.
  destruct (s_conds st); [|exact HI]. destruct (s_subset st) as [sv|] eqn:Esv; [|exact HI].
  destruct (s_chain st) as [chv|] eqn:Echv; [|exact HI].
  destruct (chain_t_loop st chv sv [0; 1; 2; 3; 4]%nat) as [st'|] eqn:E; [|exact HI].
  cbn [fst]. eapply inv_chain_loop; eauto.
Qed.

(* ---------- all operations, all histories ---------------------------------------------------- *)

Lemma inv_step : forall st o, Inv st -> wf_op (nsamples st) o -> Inv (fst (step st o)).
Proof.
  intros st o HI Hwf. destruct o as [n f mode vals|n vals| |cs| |w]; cbn [step fst].
  - apply inv_compute; [exact HI|exact Hwf].
  - pose proof (inv_add_metric st n PAdded vals HI) as H.
    destruct (add_metric st n PAdded vals) as [st' b]. cbn [fst] in *. apply H.
    intros Hl. unfold metric_ok. cbn [m_vals m_prov]. split; [exact Hl|exact I].
  - apply inv_timings. exact HI.
  - apply inv_pick. exact HI.
  - apply inv_chain_timings. exact HI.
  - exact HI.
Qed.

Lemma inv_empty : forall P trough c ph cv, container P ph cv -> Inv (empty_state P trough c ph cv).
Proof.
  intros P trough c ph cv H. unfold Inv, empty_state. proj.
  split; [exact H|]. split; [|split; [constructor|split; [exact I|split; [constructor|lia]]]].
  unfold cache_ok. proj. destruct c; [right|left; reflexivity].
  rewrite (container_slices P ph cv H). reflexivity.
Qed.

Lemma inv_init : forall P trough c ph st, init P trough c ph = Some st -> Inv st.
Proof.
  intros P trough c ph st H. unfold init in H.
  destruct (get_cycle_vector P false None ph) as [cv|] eqn:E; [|discriminate]. injection H as <-.
  apply inv_compute; [apply inv_empty; exact E|].
  unfold nsamples, empty_state. proj. symmetry. eapply container_length; eauto.
Qed.

Lemma init_nsamples : forall P trough c ph st, init P trough c ph = Some st -> nsamples st = length ph.
Proof.
  intros P trough c ph st H. unfold init in H.
  destruct (get_cycle_vector P false None ph) as [cv|] eqn:E; [|discriminate]. injection H as <-.
  rewrite (frame_nsamples _ _ (compute_metric_frame _ _ _ _ _)).
  unfold nsamples, empty_state. proj. eapply container_length; eauto.
Qed.

Lemma inv_run : forall ops st, Inv st -> Forall (wf_op (nsamples st)) ops -> Inv (run st ops).
Proof.
  induction ops as [|o t IH]; intros st HI Hwf; [exact HI|].
  inversion Hwf as [|? ? Ho Ht]; subst. unfold run. cbn [fold_left].
  change (Inv (run (fst (step st o)) t)). apply IH; [apply inv_step; assumption|].
  rewrite (frame_nsamples _ _ (step_frame st o)). exact Ht.
Qed.

Lemma inv_reachable : forall P trough c ph st ops,
  init P trough c ph = Some st -> Forall (wf_op (length ph)) ops -> Inv (run st ops).
Proof.
  intros P trough c ph st ops H Hwf. apply inv_run; [eapply inv_init; eauto|].
  rewrite (init_nsamples _ _ _ _ _ H). exact Hwf.
Qed.

(* the constructor never fails *)
Lemma init_total : forall P trough c ph, init P trough c ph <> None.
Proof.
  intros P trough c ph. unfold init. pose proof (detection_total P false None ph) as H.
  destruct (get_cycle_vector P false None ph); [discriminate|congruence].
Qed.

(* ====================================================================================== *)
(* F. the slice cache changes no result                                                     *)
(* ====================================================================================== *)

Definition cok (st : cstate) : Prop := container (s_P st) (s_ph st) (s_cv st) /\ cache_ok st.

Lemma frame_cok : forall st st', frame st st' -> cok st -> cok st'.
Proof.
  intros st st' [F1 [F2 [F3 [F4 F5]]]] [Hc Hk]. unfold cok, cache_ok in *.
  rewrite F1, F2, F3, F4, F5. split; assumption.
Qed.

Lemma add_metric_drop : forall st n p v,
  add_metric (drop_cache st) n p v = (drop_cache (fst (add_metric st n p v)), snd (add_metric st n p v)).
Proof.
  intros. unfold add_metric. change (ncyc (drop_cache st)) with (ncyc st).
  destruct (length v =? ncyc st)%nat; reflexivity.
Qed.

Lemma compute_metric_drop : forall st n f mode vals, cok st -> length vals = nsamples st ->
  compute_metric (drop_cache st) n f mode vals = drop_cache (compute_metric st n f mode vals).
Proof.
  intros st n f mode vals [Hc Hk] Hl. unfold compute_metric. rewrite add_metric_drop. cbn [fst].
  rewrite (compute_vals_label st f mode vals Hc Hk Hl).
  replace (compute_vals (drop_cache st) f mode vals)
    with (match mode with
          | MCycle => label_stat f (s_cv st) vals
          | MAug => aug_label_stat f (s_trough st) (s_cv st) (s_ph st) vals
          end) by (destruct mode; reflexivity).
  reflexivity.
Qed.

Lemma timings_drop : forall st, cok st -> timings (drop_cache st) = drop_cache (timings st).
Proof.
  intros st Hk. unfold timings.
  change (nsamples (drop_cache st)) with (nsamples st). change (s_cv (drop_cache st)) with (s_cv st).
  pose proof (compute_metric_frame st "start_sample" f_first MCycle (arange (nsamples st))) as F1.
  rewrite (compute_metric_drop st) by (try exact Hk; apply arange_length).
  set (st1 := compute_metric st "start_sample" f_first MCycle (arange (nsamples st))) in *.
  pose proof (compute_metric_frame st1 "stop_sample" f_last MCycle (arange (nsamples st))) as F2.
  pose proof (frame_cok _ _ F1 Hk) as K1.
  rewrite (compute_metric_drop st1) by (try exact K1; rewrite arange_length; symmetry; apply frame_nsamples; exact F1).
  set (st2 := compute_metric st1 "stop_sample" f_last MCycle (arange (nsamples st))) in *.
  pose proof (frame_cok _ _ F2 K1) as K2.
  rewrite (compute_metric_drop st2); [reflexivity|exact K2|].
  rewrite (frame_nsamples _ _ F2), (frame_nsamples _ _ F1). reflexivity.
Qed.

Lemma pick_drop : forall st cs, pick (drop_cache st) cs = (drop_cache (fst (pick st cs)), snd (pick st cs)).
Proof.
  intros st cs. unfold pick. change (get_matching (drop_cache st) cs) with (get_matching st cs).
  destruct (get_matching st cs) as [valids|e]; [|reflexivity].
  destruct (get_chain_vector (get_subset_vector valids)) as [|c0 ct]; [reflexivity|].
  change (set_subset (drop_cache st) cs valids (get_subset_vector valids) (c0 :: ct))
    with (drop_cache (set_subset st cs valids (get_subset_vector valids) (c0 :: ct))).
  rewrite add_metric_drop. reflexivity.
Qed.

Lemma chain_t_loop_drop : forall kinds st chv sv,
  chain_t_loop (drop_cache st) chv sv kinds = option_map drop_cache (chain_t_loop st chv sv kinds).
Proof.
  induction kinds as [|k t IH]; intros st chv sv; cbn [chain_t_loop]; [reflexivity|].
  change (chain_t_vals (drop_cache st) chv sv k) with (chain_t_vals st chv sv k).
  destruct (chain_t_vals st chv sv k) as [vals|]; [|reflexivity].
  rewrite add_metric_drop. cbn [fst]. apply IH.
Qed.

Lemma chain_timings_drop : forall st,
  chain_timings (drop_cache st) = (drop_cache (fst (chain_timings st)), snd (chain_timings st)).
Proof.
  intros st. unfold chain_timings.
  change (s_conds (drop_cache st)) with (s_conds st). change (s_subset (drop_cache st)) with (s_subset st).
  change (s_chain (drop_cache st)) with (s_chain st).
  destruct (s_conds st); [|reflexivity]. destruct (s_subset st) as [sv|]; [|reflexivity].
  destruct (s_chain st) as [chv|]; [|reflexivity].
  rewrite chain_t_loop_drop. destruct (chain_t_loop st chv sv [0; 1; 2; 3; 4]%nat); reflexivity.
Qed.

Lemma step_drop : forall st o, cok st -> wf_op (nsamples st) o ->
  step (drop_cache st) o = (drop_cache (fst (step st o)), snd (step st o)).
Proof.
  intros st o Hk Hwf. destruct o as [n f mode vals|n vals| |cs| |w]; cbn [step].
  - rewrite compute_metric_drop by assumption. reflexivity.
  - rewrite add_metric_drop. destruct (add_metric st n PAdded vals) as [st' b]. reflexivity.
  - rewrite timings_drop by assumption. reflexivity.
  - apply pick_drop.
  - apply chain_timings_drop.
  - reflexivity.
Qed.

Lemma run_drop : forall ops st, cok st -> Forall (wf_op (nsamples st)) ops ->
  run (drop_cache st) ops = drop_cache (run st ops) /\ outs (drop_cache st) ops = outs st ops.
Proof.
  induction ops as [|o t IH]; intros st Hk Hwf; [split; reflexivity|].
  inversion Hwf as [|? ? Ho Ht]; subst.
  pose proof (step_drop st o Hk Ho) as E.
  assert (K' : cok (fst (step st o))) by (eapply frame_cok; [apply step_frame|exact Hk]).
  assert (W' : Forall (wf_op (nsamples (fst (step st o)))) t)
    by (rewrite (frame_nsamples _ _ (step_frame st o)); exact Ht).
  destruct (IH _ K' W') as [I1 I2]. split.
  - unfold run in *. cbn [fold_left]. rewrite E. cbn [fst]. exact I1.
  - cbn [outs]. rewrite E. destruct (step st o) as [st' r]. cbn [fst snd] in *. rewrite I2. reflexivity.
Qed.

Lemma init_drop : forall P trough ph,
  init P trough false ph = option_map drop_cache (init P trough true ph).
Proof.
  intros P trough ph. unfold init. destruct (get_cycle_vector P false None ph) as [cv|] eqn:E; [|reflexivity].
  cbn [option_map]. f_equal.
  change (empty_state P trough false ph cv) with (drop_cache (empty_state P trough true ph cv)).
  apply compute_metric_drop.
  - destruct (inv_empty P trough true ph cv E) as [Hc [Hk _]]. split; assumption.
  - unfold nsamples, empty_state. proj. symmetry. eapply container_length; eauto.
Qed.

Lemma cache_irrelevant : forall P trough ph ops s_on s_off,
  init P trough true ph = Some s_on -> init P trough false ph = Some s_off ->
  Forall (wf_op (length ph)) ops ->
  observe (run s_on ops) = observe (run s_off ops) /\ outs s_on ops = outs s_off ops.
Proof.
  intros P trough ph ops s_on s_off Hon Hoff Hwf.
  rewrite init_drop, Hon in Hoff. cbn [option_map] in Hoff. injection Hoff as <-.
  destruct (inv_init _ _ _ _ _ Hon) as [Hc [Hk _]].
  rewrite <- (init_nsamples _ _ _ _ _ Hon) in Hwf.
  destruct (run_drop ops s_on (conj Hc Hk) Hwf) as [R1 R2]. rewrite R1, R2. split; reflexivity.
Qed.

(* ====================================================================================== *)
(* G. what the invariant says about selections, chains and exports                          *)
(* ====================================================================================== *)


Lemma resolve_sat : forall ms cs r k, resolve ms cs = Ok r ->
  (sat_all r k = true <-> forall s, In s cs -> cond_holds ms k s).
Proof.
  intros ms. induction cs as [|s t IH]; intros r k H; cbn [resolve] in H.
  - injection H as <-. split; [intros _ s []|reflexivity].
  - destruct (parse_cond s) as [c|] eqn:Ep; [|discriminate].
    destruct (find_metric (c_name c) ms) as [m|] eqn:Ef; [|discriminate].
    destruct (resolve ms t) as [r'|e] eqn:Er; [|discriminate]. injection H as <-.
    unfold sat_all. cbn [forallb fst snd]. fold (sat_all r' k). rewrite andb_true_iff, (IH r' k eq_refl).
    split.
    + intros [H1 H2] s' [<-|Hin]; [|apply H2; exact Hin].
      exists c, m. repeat split; assumption.
    + intros Hall. split.
      * destruct (Hall s (or_introl eq_refl)) as [c' [m' [E1 [E2 E3]]]].
        rewrite Ep in E1. injection E1 as <-. rewrite Ef in E2. injection E2 as <-. exact E3.
      * intros s' Hin. apply Hall. right; exact Hin.
Qed.

Lemma get_matching_spec : forall st cs valids k, get_matching st cs = Ok valids ->
  (k < length valids)%nat ->
  (nth k valids false = true <-> forall s, In s cs -> cond_holds (s_metrics st) k s).
Proof.
  intros st cs valids k H Hk. rewrite get_matching_gm in H. unfold gm in H.
  destruct (find_metric "is_good" (s_metrics st)) as [g|]; [|discriminate].
  destruct (resolve (s_metrics st) cs) as [r|e] eqn:Er; [|discriminate]. injection H as <-.
  rewrite map_length, seq_length in Hk.
  rewrite (nth_indep _ false (sat_all r 0%nat)) by (rewrite map_length, seq_length; exact Hk).
  rewrite map_nth, seq_nth by exact Hk. cbn [Nat.add]. apply resolve_sat. exact Er.
Qed.

(* a successful selection stores exactly what it computed; a failing one stores nothing *)
Lemma pick_spec : forall st cs st', pick st cs = (st', OOk) ->
  exists valids, get_matching st cs = Ok valids /\
    s_conds st' = Some cs /\ s_valids st' = valids /\
    s_subset st' = Some (get_subset_vector valids) /\
    s_chain st' = Some (get_chain_vector (get_subset_vector valids)).
Proof.
  intros st cs st' H. unfold pick in H. destruct (get_matching st cs) as [valids|e]; [|discriminate].
  destruct (get_chain_vector (get_subset_vector valids)) as [|c0 ct] eqn:Ec; [discriminate|].
  injection H as <-. exists valids. split; [reflexivity|].
  destruct (add_metric_sel (set_subset st cs valids (get_subset_vector valids) (c0 :: ct)) "chain_ind" PChainInd
              (chain_ind_vals (c0 :: ct) (get_subset_vector valids))) as [A1 [A2 [A3 [A4 _]]]].
  rewrite A1, A2, A3, A4. proj. rewrite Ec. repeat split; reflexivity.
Qed.

Lemma pick_fail_unchanged : forall st cs, snd (pick st cs) <> OOk -> fst (pick st cs) = st.
Proof.
  intros st cs H. unfold pick in *. destruct (get_matching st cs) as [valids|e]; [|reflexivity].
  destruct (get_chain_vector (get_subset_vector valids)); [reflexivity|]. cbn [snd] in H. congruence.
Qed.

(* the stored selection: numbered in order, chains = maximal runs, and - as long as no metric the
   conditions name has been rewritten - exactly the cycles satisfying all stored conditions *)
Lemma selection_spec : forall st cs sv chv,
  Inv st -> s_conds st = Some cs -> s_subset st = Some sv -> s_chain st = Some chv ->
  length sv = ncyc st /\
  (forall k, nth_error sv k =
     option_map (fun b : bool => if b then Z.of_nat (count_true (firstn k (s_valids st))) else -1)
                (nth_error (s_valids st) k)) /\
  (length chv = length (selected_cycles sv) /\
   (forall c, nth_error chv 0 = Some c -> c = 0) /\
   (forall j a b ca cb,
      nth_error (selected_cycles sv) j = Some a -> nth_error (selected_cycles sv) (S j) = Some b ->
      nth_error chv j = Some ca -> nth_error chv (S j) = Some cb ->
      (b = S a -> cb = ca) /\ (b <> S a -> cb = ca + 1))) /\
  (fresh_conds st cs ->
   get_matching st cs = Ok (s_valids st) /\
   forall k, (k < ncyc st)%nat ->
     (nth k (s_valids st) false = true <-> forall s, In s cs -> cond_holds (s_metrics st) k s)).
Proof.
  intros st cs sv chv HI Hcs Hsv Hchv. destruct HI as [_ [_ [_ [Hs _]]]].
  unfold sel_ok in Hs. rewrite Hcs, Hsv, Hchv in Hs. destruct Hs as [H1 [H2 [H3 [H4 H5]]]].
  subst sv chv. split; [rewrite sv_length; exact H1|]. split; [apply subset_vector_spec|].
  split; [apply chain_vector_spec|]. intros Hf. specialize (H5 Hf). split; [exact H5|].
  intros k Hk. apply (get_matching_spec st cs _ k H5). lia.
Qed.

(* every stored metric has exactly one entry per cycle *)
Lemma metric_lengths : forall st m, Inv st -> In m (s_metrics st) -> length (m_vals m) = ncyc st.
Proof.
  intros st m [_ [_ [Hm _]]] Hin. rewrite Forall_forall in Hm. exact (proj1 (Hm m Hin)).
Qed.

(* a computed metric equals the function applied to that cycle's samples *)
Lemma computed_metric_spec : forall st m f mode vals, Inv st -> In m (s_metrics st) ->
  m_prov m = PComputed f mode vals ->
  forall k, (k < ncyc st)%nat ->
    nth_error (m_vals m) k =
      Some (match mode with
            | MCycle => Some (f (samples_with_label (s_cv st) vals (Z.of_nat k)))
            | MAug => option_map f (aug_samples (s_P st) (s_trough st) (s_ph st) vals k)
            end).
Proof.
  intros st m f mode vals [_ [_ [Hm _]]] Hin Hp k Hk. rewrite Forall_forall in Hm.
  destruct (Hm m Hin) as [_ H]. rewrite Hp in H. destruct mode; destruct H as [_ H]; apply H; exact Hk.
Qed.

(* chain metrics written since the last selection describe the current chains *)
Lemma chain_metric_spec : forall st m sv chv, Inv st -> In m (s_metrics st) ->
  s_subset st = Some sv -> s_chain st = Some chv ->
  (s_pick_clock st < m_stamp m)%nat ->
  chain_metric_ok st sv chv (m_prov m) (m_vals m).
Proof.
  intros st m sv chv [_ [_ [Hm _]]] Hin Hsv Hchv Hlt. rewrite Forall_forall in Hm.
  destruct (Hm m Hin) as [_ H]. rewrite Hsv, Hchv in H.
  destruct (m_prov m) as [f [|] v| | |kind]; cbn [chain_metric_ok]; try exact I; apply H; exact Hlt.
Qed.

(* compute_chain_timings never fails half way *)
Lemma chain_timings_total : forall st, Inv st -> snd (chain_timings st) <> ORaised 9.
Proof.
  intros st HI. unfold chain_timings.
  destruct (s_conds st) eqn:Ecs; [|discriminate]. destruct (s_subset st) as [sv|] eqn:Esv; [|discriminate].
  destruct (s_chain st) as [chv|] eqn:Echv; [|discriminate].
  assert (G : forall kinds st0, Inv st0 -> s_subset st0 = Some sv -> s_chain st0 = Some chv ->
              chain_t_loop st0 chv sv kinds <> None).
  { induction kinds as [|k t IH]; intros st0 HI0 Hsv0 Hchv0; cbn [chain_t_loop]; [discriminate|].
    destruct (chain_t_vals st0 chv sv k) as [vals|] eqn:Ev.
    - destruct (add_metric_sel st0 (chain_t_name k) (PChainT k) vals) as [A1 [A2 _]].
      apply IH; [|rewrite A1; exact Hsv0|rewrite A2; exact Hchv0].
      eapply (inv_chain_loop [k] st0 sv chv); eauto. cbn [chain_t_loop]. rewrite Ev. reflexivity.
    - exfalso. destruct HI0 as [Hc [_ [_ [Hs _]]]]. unfold sel_ok in Hs. rewrite Hsv0, Hchv0 in Hs.
      destruct (s_conds st0); [|destruct Hs]. destruct Hs as [H1 [H2 [H3 _]]]. subst sv chv.
      exact (chain_t_vals_some st0 _ k Hc H1 Ev). }
  specialize (G [0; 1; 2; 3; 4]%nat st HI Esv Echv).
  destruct (chain_t_loop st chv sv [0; 1; 2; 3; 4]%nat); [discriminate|congruence].
Qed.

(* exports *)
Lemma export_all_spec : forall st,
  export st ExAll = OTable false (map m_name (s_metrics st)) (map (row (s_metrics st)) (seq 0 (ncyc st))).
Proof. reflexivity. Qed.

Lemma export_conds_spec : forall st cs valids, get_matching st cs = Ok valids ->
  export st (ExConds cs) =
    OTable true (map m_name (s_metrics st))
           (map (row (s_metrics st)) (filter (fun k => nth k valids false) (seq 0 (ncyc st)))).
Proof. intros st cs valids H. unfold export. rewrite H. reflexivity. Qed.

(* the subset export lists exactly the cycles the subset vector selects *)
Lemma export_subset_agrees : forall st cs sv, Inv st ->
  s_conds st = Some cs -> s_subset st = Some sv -> fresh_conds st cs ->
  export st ExSubset =
    OTable true (map m_name (s_metrics st))
           (map (row (s_metrics st)) (filter (fun k => 0 <=? nth k sv (-1)) (seq 0 (ncyc st)))).
Proof.
  intros st cs sv HI Hcs Hsv Hf. pose proof HI as [_ [_ [_ [Hs _]]]].
  unfold sel_ok in Hs. rewrite Hcs, Hsv in Hs. destruct (s_chain st) as [chv|]; [|destruct Hs].
  destruct Hs as [H1 [H2 [_ [_ H5]]]]. specialize (H5 Hf).
  unfold export. rewrite Hcs, H5. f_equal. f_equal. apply filter_ext_in. intros k Hk. apply in_seq in Hk.
  assert (Hkv : (k < length (s_valids st))%nat) by lia.
  assert (E : nth_error sv k =
              Some (if nth k (s_valids st) false then Z.of_nat (count_true (firstn k (s_valids st))) else -1)).
  { subst sv. rewrite subset_vector_spec, (nth_error_nth' _ false Hkv). reflexivity. }
  rewrite (nth_error_nth _ _ (-1) E). destruct (nth k (s_valids st) false).
  - symmetry. apply Z.leb_le. lia.
  - reflexivity.
Qed.

(* ====================================================================================== *)
(* H. the code before the repairs; non-vacuity                                              *)
(* ====================================================================================== *)

(* augmented mode, first cycle: cache on says "missing", cache off f(whole recording) *)
Lemma cache_irrelevant_v0_refuted : exists trough cv ph vals,
  length vals = length cv /\
  compute_vals_v0 true trough cv ph zsum MAug vals <> compute_vals_v0 false trough cv ph zsum MAug vals /\
  nth_error (compute_vals_v0 true trough cv ph zsum MAug vals) 0 = Some None /\
  nth_error (compute_vals_v0 false trough cv ph zsum MAug vals) 0 = Some (Some (zsum vals)).
Proof.
  exists 37, [0; 0; 0; 1; 1; 1; 1; 1; 2; 2], [24; 36; 50; 2; 12; 24; 36; 50; 2; 12], [1; 2; 3; 4; 5; 6; 7; 8; 9; 10].
  split; [reflexivity|]. split; [intro H; vm_compute in H; discriminate|]. split; vm_compute; reflexivity.
Qed.

(* augmented mode, non-monotonic phase: the two definitions of the trough differ *)
Lemma aug_definitions_v0_refuted : exists trough cv ph vals,
  length vals = length cv /\
  nth_error (compute_vals_v0 true trough cv ph zsum MAug vals) 1 <>
  nth_error (compute_vals_v0 false trough cv ph zsum MAug vals) 1.
Proof.
  exists 37, [0; 0; 0; 0; 0; 0; 0; 1; 1; 1], [2; 12; 24; 40; 30; 45; 50; 2; 12; 24], [0; 1; 2; 3; 4; 5; 6; 7; 8; 9].
  split; [reflexivity|]. intro H; vm_compute in H; discriminate.
Qed.

(* a recording without a wrap has no cycle, but the old cache held one slice *)
Lemma slice_cache_v0_no_cycles_refuted : exists cv,
  ncycles cv = 0%nat /\ length (make_slice_cache_v0 cv) = 1%nat /\ make_slice_cache cv = [].
Proof. exists [-1; -1; -1; -1]. vm_compute. repeat split. Qed.

(* the old pick stored the conditions before anything that can fail *)
Lemma pick_v0_refuted : exists P trough ph st,
  init P trough true ph = Some st /\
  ~ sel_ok (fst (pick_v0 st ["nosuch>1"%string])) /\
  fst (pick st ["nosuch>1"%string]) = st.
Proof.
  exists (mk_params [37; 2; 49; 50]), 37, [24; 36; 50; 2; 12; 24; 36; 50; 2; 12].
  destruct (init (mk_params [37; 2; 49; 50]) 37 true [24; 36; 50; 2; 12; 24; 36; 50; 2; 12]) as [st|] eqn:E;
    [|exfalso; exact (init_total _ _ _ _ E)].
  exists st. split; [reflexivity|]. vm_compute in E. injection E as <-.
  split; [intro H; vm_compute in H; exact H|]. vm_compute. reflexivity.
Qed.

(* after a selection with no match the old pick left subset/chains replaced but chain_ind stale *)
Lemma pick_v0_stale_chain_ind : exists P trough ph st ops,
  init P trough true ph = Some st /\
  let st1 := run st ops in
  let st2 := fst (pick_v0 st1 ["duration>100"%string]) in
  snd (pick_v0 st1 ["duration>100"%string]) = ORaised 2 /\
  s_subset st2 = Some [-1; -1; -1; -1] /\ s_chain st2 = Some [] /\
  option_map m_vals (find_metric "chain_ind" (s_metrics st2)) = Some [Some (-1); Some 0; Some 0; Some (-1)] /\
  fst (pick st1 ["duration>100"%string]) = st1.
Proof.
  exists (mk_params [37; 2; 49; 50]), 37, [24; 36; 50; 2; 12; 24; 36; 50; 2; 12; 24; 36; 50; 2; 12; 24].
  destruct (init (mk_params [37; 2; 49; 50]) 37 true [24; 36; 50; 2; 12; 24; 36; 50; 2; 12; 24; 36; 50; 2; 12; 24])
    as [st|] eqn:E; [|exfalso; exact (init_total _ _ _ _ E)].
  exists st, [Timings; Pick ["duration>3"%string]]. split; [reflexivity|].
  vm_compute in E. injection E as <-. vm_compute. repeat split.
Qed.

Definition fresh_b (st : cstate) (cs : list string) : bool :=
  forallb (fun s => match parse_cond s with
                    | None => false
                    | Some c => match find_metric (c_name c) (s_metrics st) with
                                | None => false
                                | Some m => (m_stamp m <? s_pick_clock st)%nat
                                end
                    end) cs.

Lemma fresh_b_ok : forall st cs, fresh_b st cs = true -> fresh_conds st cs.
Proof.
  intros st cs. unfold fresh_b, fresh_conds. induction cs as [|s t IH]; intros H; [constructor|].
  cbn [forallb] in H. apply andb_true_iff in H. destruct H as [H1 H2]. constructor; [|apply IH; exact H2].
  destruct (parse_cond s) as [c|]; [|discriminate].
  destruct (find_metric (c_name c) (s_metrics st)) as [m|]; [|discriminate].
  apply Nat.ltb_lt. exact H1.
Qed.

(* non-vacuity: a container with four cycles, timings, an augmented metric, a selection with a negative
   exponent literal, chain timings and a subset export; every hypothesis of the theorems holds *)
Lemma c15_premises_hold : exists st,
  let ph := [24; 36; 50; 2; 12; 24; 36; 50; 2; 12; 24; 36; 50; 2; 12; 24] in
  let ops := [Timings; ComputeMetric "m" zsum MAug (arange 16);
              Pick ["duration>=45e-1"%string; "is_good!=0"%string]; ChainTimings; Export ExSubset] in
  init (mk_params [37; 2; 49; 50]) 37 true ph = Some st /\
  Forall (wf_op (length ph)) ops /\
  s_cv st = [0; 0; 0; 1; 1; 1; 1; 1; 2; 2; 2; 2; 2; 3; 3; 3] /\
  s_subset (run st ops) = Some [-1; 0; 1; -1] /\ s_chain (run st ops) = Some [0; 0] /\
  fresh_conds (run st ops) ["duration>=45e-1"%string; "is_good!=0"%string] /\
  option_map m_vals (find_metric "m" (s_metrics (run st ops))) = Some [None; Some 27; Some 57; Some 54] /\
  option_map m_vals (find_metric "chain_len_samples" (s_metrics (run st ops)))
    = Some [Some (-1); Some 10; Some 10; Some (-1)] /\
  nth 4 (outs st ops) OOk =
    OTable true (map m_name (s_metrics (run st ops)))
           (map (row (s_metrics (run st ops))) [1; 2]%nat).
Proof.
  destruct (init (mk_params [37; 2; 49; 50]) 37 true [24; 36; 50; 2; 12; 24; 36; 50; 2; 12; 24; 36; 50; 2; 12; 24])
    as [st|] eqn:E; [|exfalso; exact (init_total _ _ _ _ E)].
  exists st. cbv zeta. split; [exact E|].
  split; [repeat constructor|].
  vm_compute in E. injection E as <-.
  split; [reflexivity|]. split; [vm_compute; reflexivity|]. split; [vm_compute; reflexivity|].
  split; [apply fresh_b_ok; vm_compute; reflexivity|].
  split; [vm_compute; reflexivity|]. split; [vm_compute; reflexivity|]. vm_compute. reflexivity.
Qed.
