(* Refinement proofs of the control-skeleton tie of the per-cycle statistics (notes/TIE_CYCLESTAT.md).
   Statements are re-exported by props/Prop_Tie_Cyclestat.v; the reviewable definitions are in
   model/SkelPrims_Cyclestat.v. *)
From Coq Require Import String List Bool Arith ZArith Lia.
From EmdV Require Import lib.NpLite model.CycleMaps model.CycleVec model.Spectra model.CycleStat model.CyclesObj
  proofs.CyclesObjFacts.
From EmdV Require Import lib.PyLoop lib.PyLoopTools gen.Gen_Skel_Cyclestat gen.Gen_Skel_Cyclestatsupport
  model.SkelPrims_Cyclestat.
Import ListNotations.
Open Scope string_scope.

(* ---- list facts ---------------------------------------------------------------------------------- *)
Lemma zmax_list_default : forall a t, Z.max (-1) (zmax_list a t) = zmax_list (-1) (a :: t).
Proof.
  intros a t. cbn [zmax_list]. revert a. induction t as [|b t IH]; intros a; cbn [zmax_list].
  - lia.
  - specialize (IH a). lia.
Qed.

Lemma ncycles_np_max : forall cv m, np_max cv = Some m -> (m + 1 <? 0)%Z = false ->
  Z.to_nat (m + 1) = ncycles cv.
Proof.
  intros cv m Hm H. destruct cv as [|a t]; [discriminate Hm|]. cbn [np_max] in Hm. inversion Hm; subst m.
  apply Z.ltb_ge in H. unfold ncycles. rewrite <- zmax_list_default. f_equal. lia.
Qed.

Lemma positions_from_lt : forall A (p : A -> bool) l i k, In k (positions_from p l i) -> (k < i + length l)%nat.
Proof.
  intros A p l i k H. apply In_positions_from in H. destruct H as (Hik & x & Hx & _).
  assert (nth_error l (k - i) <> None) by congruence. apply nth_error_Some in H. lia.
Qed.

Lemma in_range_cycle : forall cv n k, (length cv <= n)%nat -> in_range n (map_cycle_to_samples cv k) = true.
Proof.
  intros cv n k H. unfold in_range, map_cycle_to_samples, positions. apply forallb_forall. intros x Hx.
  apply positions_from_lt in Hx. apply Nat.ltb_lt. lia.
Qed.

Lemma last_In : forall (A : Type) (t : list A) (i : A), In (last t i) (i :: t).
Proof.
  intros A t i. destruct t as [|a t]; [left; reflexivity|]. right.
  assert (H : a :: t = (removelast (a :: t) ++ [last (a :: t) i])%list) by (apply app_removelast_last; discriminate).
  remember (last (a :: t) i) as z. rewrite H. apply in_or_app. right. left. reflexivity.
Qed.

Lemma in_range_aug : forall trough cv ph n k inds, (length cv <= n)%nat ->
  map_cycle_to_samples_aug trough cv ph k = Some inds -> in_range n inds = true.
Proof.
  intros trough cv ph n k inds H. unfold map_cycle_to_samples_aug.
  destruct (filter _ (map_cycle_to_samples cv (k - 1))) as [|p r]; [discriminate|].
  destruct (map_cycle_to_samples cv k) as [|i t] eqn:E; [discriminate|].
  intros Hs. inversion Hs; subst inds. unfold in_range. apply forallb_forall. intros y Hy.
  apply in_seq in Hy. apply Nat.ltb_lt.
  assert (Hl : In (last t i) (map_cycle_to_samples cv k)) by (rewrite E; apply last_In).
  unfold map_cycle_to_samples, positions in Hl. apply positions_from_lt in Hl. destruct p; lia.
Qed.

Lemma set_nth_fill : forall (A C : Type) (g : nat -> C) (inj : C -> A) (z : A) n d, (d < n)%nat ->
  set_nth d (inj (g d)) (map inj (map g (seq 0 d)) ++ repeat z (n - d))
  = (map inj (map g (seq 0 (S d))) ++ repeat z (n - S d))%list.
Proof.
  intros A C g inj z n d H. unfold set_nth.
  assert (Hl : length (map inj (map g (seq 0 d))) = d) by (rewrite !map_length; apply seq_length).
  rewrite firstn_app, Hl, Nat.sub_diag, firstn_O, app_nil_r, firstn_all2 by lia.
  rewrite skipn_app, Hl, (skipn_all2 (n := S d)) by lia. cbn [app].
  replace (S d - d)%nat with 1%nat by lia.
  replace (n - d)%nat with (S (n - S d)) by lia. cbn [repeat skipn].
  rewrite seq_snoc, !map_app, <- app_assoc. reflexivity.
Qed.

Lemma fill_length : forall (A C : Type) (g : nat -> C) (inj : C -> A) (z : A) n d, (d <= n)%nat ->
  length (map inj (map g (seq 0 d)) ++ repeat z (n - d)) = n.
Proof. intros. rewrite app_length, !map_length, seq_length, repeat_length. lia. Qed.

Lemma assign_at_map : forall (A C : Type) (h : A -> C) out inds v i,
  assign_at (map h out) inds (h v) i = map h (assign_at out inds v i).
Proof.
  intros A C h out. induction out as [|x t IH]; intros inds v i; [reflexivity|].
  cbn [map assign_at]. rewrite IH. destruct (existsb (Nat.eqb i) inds); reflexivity.
Qed.

Lemma project_loop_map : forall (A C : Type) (h : A -> C) vect vals ii out,
  project_loop vect (map h vals) ii (map (option_map h) out) = map (option_map h) (project_loop vect vals ii out).
Proof.
  intros A C h vect vals. induction vals as [|v t IH]; intros ii out; [reflexivity|].
  cbn [map project_loop]. change (Some (h v)) with (option_map h (Some v)).
  rewrite assign_at_map. apply IH.
Qed.

Lemma project_by_map : forall (A C : Type) (h : A -> C) vect vals,
  project_by vect (map h vals) = map (option_map h) (project_by vect vals).
Proof.
  intros A C h vect vals. unfold project_by.
  replace (map (fun _ : Z => @None C) vect) with (map (option_map h) (map (fun _ : Z => @None A) vect))
    by (rewrite map_map; reflexivity).
  apply project_loop_map.
Qed.

Lemma flat_project_cells : forall (B : Type) cv (l : list B),
  map (flat B) (project_by cv (cells_of B l)) = map (ocell B) (project_by cv l).
Proof.
  intros B cv l. unfold cells_of. rewrite project_by_map, map_map. apply map_ext.
  intros [b|]; reflexivity.
Qed.

(* ---- make_slice_cache: the masks against the model's run_starts / run_stops ------------------------ *)
Lemma starts_mask_from : forall cv prev i,
  positions_from (fun b : bool => b) (and_mask (gt_mask cv (-1)) (ne_mask cv (prev :: removelast cv))) i
  = run_starts prev cv i.
Proof.
  induction cv as [|x t IH]; intros prev i; [reflexivity|].
  destruct t as [|y t'].
  - cbn [removelast gt_mask ne_mask and_mask map combine fst snd positions_from run_starts].
    destruct ((-1 <? x)%Z && negb (x =? prev)%Z); reflexivity.
  - change (removelast (x :: y :: t')) with (x :: removelast (y :: t')).
    specialize (IH x (S i)).
    unfold gt_mask, ne_mask, and_mask in *. cbn [map combine fst snd] in *.
    cbn [positions_from run_starts] in *. rewrite <- IH.
    destruct ((-1 <? x)%Z && negb (x =? prev)%Z); reflexivity.
Qed.

Lemma stops_mask_from : forall cv i,
  map (fun k => (k + 1)%nat) (positions_from (fun b : bool => b) (and_mask (gt_mask cv (-1)) (ne_mask cv (tl cv ++ [(-1)%Z]))) i)
  = run_stops cv i.
Proof.
  induction cv as [|x t IH]; intros i; [reflexivity|].
  specialize (IH (S i)). destruct t as [|y t'].
  - cbn [tl app gt_mask ne_mask and_mask map combine fst snd positions_from run_stops].
    destruct ((-1 <? x)%Z && negb (x =? -1)%Z); cbn [map app]; rewrite ?Nat.add_1_r; reflexivity.
  - unfold gt_mask, ne_mask, and_mask in *. cbn [tl app map combine fst snd] in *.
    cbn [positions_from run_stops] in *. rewrite <- IH.
    destruct ((-1 <? x)%Z && negb (x =? y)%Z); cbn [map app]; rewrite ?Nat.add_1_r; reflexivity.
Qed.

Lemma starts_mask : forall cv,
  positions (fun b : bool => b) (and_mask (gt_mask cv (-1)) (ne_mask cv (shift_right cv))) = run_starts (-1) cv 0.
Proof. intros. apply starts_mask_from. Qed.

Lemma stops_mask : forall cv,
  map (fun k => (k + 1)%nat) (positions (fun b : bool => b) (and_mask (gt_mask cv (-1)) (ne_mask cv (shift_left cv))))
  = run_stops cv 0.
Proof. intros. apply stops_mask_from. Qed.

(* ================================================================================================= *)
(* 1. get_cycle_stat_from_samples                                                                     *)
(* ================================================================================================= *)
Section StatTie.
  Variable B : Type.
  Variable f : list Z -> B.
  Variable fn : list (list Z) -> B.
  Variable trough : Z.
  Local Notation V := (sval B).
  Local Notation P := (stat_prims B f fn trough).

  Definition gcsfs_pre : list stmt := Eval cbv in firstn 2 (spine prog_get_cycle_stat_from_samples).
  Definition gcsfs_for : stmt := Eval cbv in nth 2 (spine prog_get_cycle_stat_from_samples) SSkip.
  Definition gcsfs_post : list stmt := Eval cbv in skipn 3 (spine prog_get_cycle_stat_from_samples).
  Definition gcsfs_body : stmt := Eval cbv in match gcsfs_for with SFor _ _ b => b | _ => SSkip end.
  Definition gcsfs_iter : expr := Eval cbv in match gcsfs_for with SFor _ it _ => it | _ => ENone end.

  Ltac ev :=
    cbv beta iota zeta delta
        [exec final_env eval eval_truth bind map_res truthy do_cmp do_arith do_index nat_cmp nat_arith iter_list
         upd lookup env_of assign_all cmp_name ar_name frame overlay normal_env
         try_finish try_finish_env exn_matches
         stat_prims prims_of table_lookup stat_table keys_are is_opaque0 range_handler range_val
         yvec yarr func_tag cell_of call_project mode_str out_val res_outcome
         names_gcsfs env0_gcsfs params_get_cycle_stat_from_samples prog_get_cycle_stat_from_samples
         gcsfs_pre gcsfs_for gcsfs_post gcsfs_body gcsfs_iter exec_list
         names_gacsfs env0_gacsfs params_get_augmented_cycle_stat_from_samples
         names_gcs env0_gcs params_get_cycle_stat prog_get_cycle_stat
         names_gssfs env0_gssfs params_get_slice_stat_from_samples prog_get_slice_stat_from_samples
         names_msc env0_msc params_make_slice_cache prog_make_slice_cache slices_outcome
         String.eqb Ascii.eqb Bool.eqb fst snd nth_error andb negb orb].
  Ltac ev1 := ev; repeat (progress (cbn [Nat.eqb]; oracle_rw); ev).

  Section Vector.
    Variable vals cv : list Z.
    Variable m : Z.                         (* np.max(cycle_vect) *)
    Hypothesis Hm : np_max cv = Some m.
    Hypothesis Hpos : (m + 1 <? 0)%Z = false.
    Hypothesis Hlen : (length cv <= length vals)%nat.

    Let n : nat := Z.to_nat (m + 1).
    Let g (k : nat) : B := f (select_cycle cv vals (Z.of_nat k)).
    Definition gcsfs_out (d : nat) : list (cell B) := (map CVal (map g (seq 0 d)) ++ repeat CZero (n - d))%list.

    Definition gcsfs_head (d : nat) (junk : string -> option (val V)) : env V :=
      env_of names_gcsfs
        (overlay [ ("vals", yvec vals); ("cycle_vect", yvec cv); ("func", func_tag);
                   ("ncycles", VSig (YInt (m + 1)%Z)); ("out", yarr (gcsfs_out d)) ] junk).

    Lemma gcsfs_step : forall fb d junk, (d < n)%nat ->
      exists e2, normal_env (exec P gcsfs_body fb (upd "ii" (VNat d) (gcsfs_head d junk))) = Some e2 /\
                 e2 = gcsfs_head (S d) (fun x => lookup x e2).
    Proof.
      intros fb d junk Hd. unfold gcsfs_head.
      assert (Hr : in_range (length vals) (map_cycle_to_samples cv (Z.of_nat d)) = true)
        by (apply in_range_cycle; exact Hlen).
      assert (Hlt : (d <? length (gcsfs_out d))%nat = true)
        by (apply Nat.ltb_lt; unfold gcsfs_out; rewrite fill_length; lia).
      eexists. split.
      - ev1. change (f (take_inds vals (map_cycle_to_samples cv (Z.of_nat d)))) with (g d).
        unfold gcsfs_out. rewrite (set_nth_fill _ _ g CVal CZero n d Hd). reflexivity.
      - ev. reflexivity.
    Qed.

    Lemma gcsfs_loop : forall fb junk,
      exists junk', for_loop "ii" (fun e' => exec P gcsfs_body fb e') (map VNat (seq 0 n)) (gcsfs_head 0 junk)
                    = Normal (gcsfs_head n junk').
    Proof.
      intros fb junk.
      destruct (for_loop_inv V (fun done e => exists j, e = gcsfs_head (length done) j)
                  "ii" (fun e' => exec P gcsfs_body fb e') (map VNat (seq 0 n)) (gcsfs_head 0 junk))
        as (e' & He' & (j & Hj)).
      - exists junk. reflexivity.
      - intros done v rest e1 Hl (j & He1).
        destruct (range_val_split n done v rest Hl) as (_ & Hv & Hlt). subst v e1.
        destruct (gcsfs_step fb (length done) j Hlt) as (e2 & H2 & He2).
        exists e2. split; [exact H2|]. rewrite app_length, Nat.add_1_r. eexists. exact He2.
      - rewrite map_length, seq_length in Hj. exists j. rewrite He'. rewrite Hj. reflexivity.
    Qed.

    Lemma gcsfs_vector : forall fuel,
      exec P prog_get_cycle_stat_from_samples fuel (env0_gcsfs B (yvec vals) cv)
      = stat_outcome B (cycle_stat f cv vals).
    Proof.
      intros fuel.
      rewrite (exec_nth_split V P prog_get_cycle_stat_from_samples 2 gcsfs_for fuel _ eq_refl).
      change (firstn 2 (spine prog_get_cycle_stat_from_samples)) with gcsfs_pre.
      change (skipn 3 (spine prog_get_cycle_stat_from_samples)) with gcsfs_post.
      assert (Hpre : exec_list P gcsfs_pre fuel (env0_gcsfs B (yvec vals) cv) = Normal (gcsfs_head 0 (fun _ => None))).
      { unfold gcsfs_head, gcsfs_out. ev1. change (Z.of_nat 1) with 1%Z. ev1.
        fold n. rewrite Nat.sub_0_r. reflexivity. }
      rewrite Hpre.
      unfold gcsfs_for. rewrite exec_for.
      assert (Hit : bind (eval P (gcsfs_head 0 (fun _ => None)) gcsfs_iter) (iter_list P) = Ok (map VNat (seq 0 n)))
        by (unfold gcsfs_head; ev; reflexivity).
      change (ECall "range" [EVar "ncycles"] []) with gcsfs_iter. rewrite Hit.
      destruct (gcsfs_loop fuel (fun _ => None)) as (junk' & Hloop).
      match goal with |- context [for_loop "ii" (fun e' => exec P ?b fuel e')] => change b with gcsfs_body end.
      rewrite Hloop.
      unfold gcsfs_head, gcsfs_out. ev1.
      unfold stat_outcome, cells_of, cycle_stat. rewrite Nat.sub_diag. cbn [repeat]. rewrite app_nil_r.
      unfold n. rewrite (ncycles_np_max cv m Hm Hpos). reflexivity.
    Qed.
  End Vector.

  (* ---- get_augmented_cycle_stat_from_samples: the same loop with the augmented index map ------------- *)
  Definition gacsfs_pre : list stmt := Eval cbv in firstn 2 (spine prog_get_augmented_cycle_stat_from_samples).
  Definition gacsfs_for : stmt := Eval cbv in nth 2 (spine prog_get_augmented_cycle_stat_from_samples) SSkip.
  Definition gacsfs_post : list stmt := Eval cbv in skipn 3 (spine prog_get_augmented_cycle_stat_from_samples).
  Definition gacsfs_body : stmt := Eval cbv in match gacsfs_for with SFor _ _ b => b | _ => SSkip end.
  Definition gacsfs_iter : expr := Eval cbv in match gacsfs_for with SFor _ it _ => it | _ => ENone end.

  Ltac eva := cbv delta [gacsfs_pre gacsfs_for gacsfs_post gacsfs_body gacsfs_iter]; ev.
  Ltac eva1 := eva; repeat (progress (cbn [Nat.eqb]; oracle_rw); eva).

  Section Aug.
    Variable vals cv ph : list Z.
    Variable m : Z.
    Hypothesis Hm : np_max cv = Some m.
    Hypothesis Hpos : (m + 1 <? 0)%Z = false.
    Hypothesis Hlen : (length cv <= length vals)%nat.

    Let n : nat := Z.to_nat (m + 1).
    Let g (k : nat) : option B :=
      option_map (fun inds => f (take_inds vals inds)) (map_cycle_to_samples_aug trough cv ph (Z.of_nat k)).
    Definition gacsfs_out (d : nat) : list (cell B) :=
      (map (ocell B) (map g (seq 0 d)) ++ repeat CZero (n - d))%list.

    Definition gacsfs_head (d : nat) (junk : string -> option (val V)) : env V :=
      env_of names_gacsfs
        (overlay [ ("vals", yvec vals); ("cycle_vect", yvec cv); ("phase", yvec ph); ("func", func_tag);
                   ("ncycles", VSig (YInt (m + 1)%Z)); ("out", yarr (gacsfs_out d)) ] junk).

    Lemma gacsfs_step : forall fb d junk, (d < n)%nat ->
      exists e2, normal_env (exec P gacsfs_body fb (upd "ii" (VNat d) (gacsfs_head d junk))) = Some e2 /\
                 e2 = gacsfs_head (S d) (fun x => lookup x e2).
    Proof.
      intros fb d junk Hd. unfold gacsfs_head.
      assert (Hlt : (d <? length (gacsfs_out d))%nat = true)
        by (apply Nat.ltb_lt; unfold gacsfs_out; rewrite fill_length; lia).
      pose proof (set_nth_fill _ _ g (ocell B) CZero n d Hd) as Hfill. fold (gacsfs_out d) in Hfill.
      unfold g at 1 in Hfill.
      destruct (map_cycle_to_samples_aug trough cv ph (Z.of_nat d)) as [inds|] eqn:E;
        cbn [option_map ocell] in Hfill.
      - assert (Hr : in_range (length vals) inds = true) by (eapply in_range_aug; eauto).
        eexists. split; [eva1; rewrite Hfill; reflexivity | eva; reflexivity].
      - eexists. split; [eva1; rewrite Hfill; reflexivity | eva; reflexivity].
    Qed.

    Lemma gacsfs_loop : forall fb junk,
      exists junk', for_loop "ii" (fun e' => exec P gacsfs_body fb e') (map VNat (seq 0 n)) (gacsfs_head 0 junk)
                    = Normal (gacsfs_head n junk').
    Proof.
      intros fb junk.
      destruct (for_loop_inv V (fun done e => exists j, e = gacsfs_head (length done) j)
                  "ii" (fun e' => exec P gacsfs_body fb e') (map VNat (seq 0 n)) (gacsfs_head 0 junk))
        as (e' & He' & (j & Hj)).
      - exists junk. reflexivity.
      - intros done v rest e1 Hl (j & He1).
        destruct (range_val_split n done v rest Hl) as (_ & Hv & Hlt). subst v e1.
        destruct (gacsfs_step fb (length done) j Hlt) as (e2 & H2 & He2).
        exists e2. split; [exact H2|]. rewrite app_length, Nat.add_1_r. eexists. exact He2.
      - rewrite map_length, seq_length in Hj. exists j. rewrite He'. rewrite Hj. reflexivity.
    Qed.

    Lemma gacsfs_main : forall fuel,
      exec P prog_get_augmented_cycle_stat_from_samples fuel (env0_gacsfs B (yvec vals) cv ph)
      = ostat_outcome B (aug_stat B f trough cv ph vals).
    Proof.
      intros fuel.
      rewrite (exec_nth_split V P prog_get_augmented_cycle_stat_from_samples 2 gacsfs_for fuel _ eq_refl).
      change (firstn 2 (spine prog_get_augmented_cycle_stat_from_samples)) with gacsfs_pre.
      change (skipn 3 (spine prog_get_augmented_cycle_stat_from_samples)) with gacsfs_post.
      assert (Hpre : exec_list P gacsfs_pre fuel (env0_gacsfs B (yvec vals) cv ph)
                     = Normal (gacsfs_head 0 (fun _ => None))).
      { unfold gacsfs_head, gacsfs_out. eva1. change (Z.of_nat 1) with 1%Z. eva1.
        fold n. rewrite Nat.sub_0_r. reflexivity. }
      rewrite Hpre.
      unfold gacsfs_for. rewrite exec_for.
      assert (Hit : bind (eval P (gacsfs_head 0 (fun _ => None)) gacsfs_iter) (iter_list P) = Ok (map VNat (seq 0 n)))
        by (unfold gacsfs_head; eva; reflexivity).
      change (ECall "range" [EVar "ncycles"] []) with gacsfs_iter. rewrite Hit.
      destruct (gacsfs_loop fuel (fun _ => None)) as (junk' & Hloop).
      match goal with |- context [for_loop "ii" (fun e' => exec P ?b fuel e')] => change b with gacsfs_body end.
      rewrite Hloop.
      unfold gacsfs_head, gacsfs_out. eva1.
      unfold ostat_outcome, aug_stat. rewrite Nat.sub_diag. cbn [repeat]. rewrite app_nil_r.
      unfold n. rewrite (ncycles_np_max cv m Hm Hpos). reflexivity.
    Qed.
  End Aug.

  Theorem skeleton_get_augmented_cycle_stat_from_samples_row : forall vals cv ph fuel,
    (length cv <= length vals)%nat ->
    exec P prog_get_augmented_cycle_stat_from_samples fuel (env0_gacsfs B (yvec vals) cv ph)
    = res_outcome (call_aug_stat B f trough vals cv ph).
  Proof.
    intros vals cv ph fuel Hlen. unfold call_aug_stat.
    destruct (np_max cv) as [m|] eqn:Hm.
    - destruct (m + 1 <? 0)%Z eqn:Hpos.
      + assert (Hneg : (m + Z.of_nat 1 <? 0)%Z = true) by exact Hpos.
        cbv delta [prog_get_augmented_cycle_stat_from_samples]. ev1. reflexivity.
      + apply Nat.leb_le in Hlen. rewrite Hlen. apply Nat.leb_le in Hlen.
        rewrite (gacsfs_main vals cv ph m Hm Hpos Hlen). reflexivity.
    - cbv delta [prog_get_augmented_cycle_stat_from_samples]. ev1. reflexivity.
  Qed.

  Theorem skeleton_get_augmented_cycle_stat_from_samples : forall vals cv ph fuel,
    cv <> [] -> Forall (fun c => (-1 <= c)%Z) cv -> (length cv <= length vals)%nat ->
    exec P prog_get_augmented_cycle_stat_from_samples fuel (env0_gacsfs B (yvec vals) cv ph)
    = ostat_outcome B (aug_stat B f trough cv ph vals).
  Proof.
    intros vals cv ph fuel Hne Hwf Hlen.
    destruct (np_max cv) as [m|] eqn:Hm; [|destruct cv; [congruence|discriminate Hm]].
    apply (gacsfs_main vals cv ph m Hm); [|exact Hlen].
    apply Z.ltb_ge. destruct cv as [|a t]; [congruence|]. cbn [np_max] in Hm. inversion Hm; subst m.
    inversion Hwf; subst. pose proof (zmax_list_ge_d a t). lia.
  Qed.

  (* every case of the callee row: the translated body computes exactly [call_cycle_stat] wherever it is defined *)
  Theorem skeleton_get_cycle_stat_from_samples_row : forall vals cv fuel,
    (length cv <= length vals)%nat ->
    exec P prog_get_cycle_stat_from_samples fuel (env0_gcsfs B (yvec vals) cv)
    = res_outcome (call_cycle_stat B f vals cv).
  Proof.
    intros vals cv fuel Hlen. unfold call_cycle_stat.
    destruct (np_max cv) as [m|] eqn:Hm.
    - destruct (m + 1 <? 0)%Z eqn:Hpos.
      + assert (Hneg : (m + Z.of_nat 1 <? 0)%Z = true) by exact Hpos.
        ev1. reflexivity.
      + apply Nat.leb_le in Hlen. rewrite Hlen. apply Nat.leb_le in Hlen.
        rewrite (gcsfs_vector vals cv m Hm Hpos Hlen). reflexivity.
    - ev1. reflexivity.
  Qed.

  Theorem skeleton_get_cycle_stat_from_samples : forall vals cv fuel,
    cv <> [] -> Forall (fun c => (-1 <= c)%Z) cv -> (length cv <= length vals)%nat ->
    exec P prog_get_cycle_stat_from_samples fuel (env0_gcsfs B (yvec vals) cv)
    = stat_outcome B (cycle_stat f cv vals).
  Proof.
    intros vals cv fuel Hne Hwf Hlen.
    destruct (np_max cv) as [m|] eqn:Hm; [|destruct cv; [congruence|discriminate Hm]].
    apply (gcsfs_vector vals cv m Hm); [|exact Hlen].
    apply Z.ltb_ge. destruct cv as [|a t]; [congruence|]. cbn [np_max] in Hm. inversion Hm; subst m.
    inversion Hwf; subst. pose proof (zmax_list_ge_d a t). lia.
  Qed.

  (* ---- get_cycle_stat ---------------------------------------------------------------------------- *)
  Lemma call_cycle_stat_ok : forall vals cv,
    cv <> [] -> Forall (fun c => (-1 <= c)%Z) cv -> length cv = length vals ->
    call_cycle_stat B f vals cv = Ok (yarr (cells_of B (cycle_stat f cv vals))).
  Proof.
    intros vals cv Hne Hwf Hlen. unfold call_cycle_stat.
    destruct cv as [|a t]; [congruence|]. cbn [np_max].
    inversion Hwf; subst. pose proof (zmax_list_ge_d a t).
    replace (zmax_list a t + 1 <? 0)%Z with false by (symmetry; apply Z.ltb_ge; lia).
    rewrite Hlen, Nat.leb_refl. reflexivity.
  Qed.

  (* mode='cycle': the per-cycle values, or (out='samples') their projection onto the samples *)
  Theorem skeleton_get_cycle_stat : forall cycles cv ph values o fuel,
    cycles_in B cycles = Some (cv, ph) ->
    cv <> [] -> Forall (fun c => (-1 <= c)%Z) cv -> length cv = length values ->
    exec P prog_get_cycle_stat fuel (env0_gcs B cycles values CMcycle o)
    = match o with
      | OSamples => ostat_outcome B (cycle_stat_samples f cv values)
      | _ => stat_outcome B (cycle_stat f cv values)
      end.
  Proof.
    intros cycles cv ph values o fuel Hc Hne Hwf Hlen.
    pose proof (call_cycle_stat_ok values cv Hne Hwf Hlen) as Hcall.
    destruct cv as [|a t]; [congruence|].
    assert (Hcmp : Nat.eqb (length (a :: t)) (length values) = true) by (apply Nat.eqb_eq; exact Hlen).
    unfold ostat_outcome, stat_outcome, cycle_stat_samples, project_cycles_to_samples.
    rewrite <- flat_project_cells.
    destruct cycles as [[cv'| | | | | |cv' ph'|]| | | | | |]; try discriminate Hc; cbn [cycles_in] in Hc;
      inversion Hc; subst; destruct o; ev1; rewrite Hcall; ev1; reflexivity.
  Qed.

  Lemma call_aug_stat_ok : forall vals cv ph,
    cv <> [] -> Forall (fun c => (-1 <= c)%Z) cv -> length cv = length vals ->
    call_aug_stat B f trough vals cv ph = Ok (yarr (map (ocell B) (aug_stat B f trough cv ph vals))).
  Proof.
    intros vals cv ph Hne Hwf Hlen. unfold call_aug_stat.
    destruct cv as [|a t]; [congruence|]. cbn [np_max].
    inversion Hwf; subst. pose proof (zmax_list_ge_d a t).
    replace (zmax_list a t + 1 <? 0)%Z with false by (symmetry; apply Z.ltb_ge; lia).
    rewrite Hlen, Nat.leb_refl. reflexivity.
  Qed.

  (* mode='augmented' on an iterator object that carries a phase *)
  Theorem skeleton_get_cycle_stat_augmented : forall cv ph values o fuel,
    cv <> [] -> Forall (fun c => (-1 <= c)%Z) cv -> length cv = length values ->
    exec P prog_get_cycle_stat fuel (env0_gcs B (VSig (YObj cv (Some ph))) values CMaug o)
    = match o with
      | OSamples => Return (yarr (map (flat B) (project_by cv (map (ocell B) (aug_stat B f trough cv ph values)))))
      | _ => ostat_outcome B (aug_stat B f trough cv ph values)
      end.
  Proof.
    intros cv ph values o fuel Hne Hwf Hlen.
    pose proof (call_aug_stat_ok values cv ph Hne Hwf Hlen) as Hcall.
    assert (Hcmp : Nat.eqb (length cv) (length values) = true) by (apply Nat.eqb_eq; exact Hlen).
    unfold ostat_outcome. destruct o; ev1; rewrite Hcall; ev1; reflexivity.
  Qed.

  (* mode='augmented' on a bare cycle vector: IterateCycles(cycle_vect=..) has phase None, the callee fails *)
  Theorem skeleton_get_cycle_stat_augmented_nophase : forall cycles cv values o fuel,
    cycles_in B cycles = Some (cv, None) -> cv <> [] -> length cv = length values ->
    exec P prog_get_cycle_stat fuel (env0_gcs B cycles values CMaug o) = Raise "TypeError".
  Proof.
    intros cycles cv values o fuel Hc Hne Hlen.
    destruct cv as [|a t]; [congruence|].
    assert (Hcmp : Nat.eqb (length (a :: t)) (length values) = true) by (apply Nat.eqb_eq; exact Hlen).
    destruct cycles as [[cv'| | | | | |cv' ph'|]| | | | | |]; try discriminate Hc; cbn [cycles_in] in Hc;
      inversion Hc; subst; destruct o; ev1; reflexivity.
  Qed.

  (* the length check: "Mismatched inputs" *)
  Theorem skeleton_get_cycle_stat_mismatch : forall cycles cv ph values m o fuel,
    cycles_in B cycles = Some (cv, ph) -> cv <> [] -> length cv <> length values ->
    exec P prog_get_cycle_stat fuel (env0_gcs B cycles values m o) = Raise "ValueError".
  Proof.
    intros cycles cv ph values m o fuel Hc Hne Hlen.
    destruct cv as [|a t]; [congruence|].
    assert (Hcmp : Nat.eqb (length (a :: t)) (length values) = false) by (apply Nat.eqb_neq; exact Hlen).
    destruct cycles as [[cv'| | | | | |cv' ph'|]| | | | | |]; try discriminate Hc; cbn [cycles_in] in Hc;
      inversion Hc; subst; destruct m, o; ev1; reflexivity.
  Qed.

  (* an empty cycle vector is refused by IterateCycles.__init__; an unknown mode by the dispatch *)
  Theorem skeleton_get_cycle_stat_empty : forall values m o fuel,
    exec P prog_get_cycle_stat fuel (env0_gcs B (yvec []) values m o) = Raise "ValueError".
  Proof. intros values m o fuel. destruct m, o; ev1; reflexivity. Qed.

  Theorem skeleton_get_cycle_stat_badmode : forall cycles cv ph values o fuel,
    cycles_in B cycles = Some (cv, ph) -> cv <> [] -> length cv = length values ->
    exec P prog_get_cycle_stat fuel (env0_gcs B cycles values CMother o) = Raise "ValueError".
  Proof.
    intros cycles cv ph values o fuel Hc Hne Hlen.
    destruct cv as [|a t]; [congruence|].
    assert (Hcmp : Nat.eqb (length (a :: t)) (length values) = true) by (apply Nat.eqb_eq; exact Hlen).
    destruct cycles as [[cv'| | | | | |cv' ph'|]| | | | | |]; try discriminate Hc; cbn [cycles_in] in Hc;
      inversion Hc; subst; destruct o; ev1; reflexivity.
  Qed.

  (* ---- get_slice_stat_from_samples (vals an ndarray) ------------------------------------------------ *)
  Lemma slcs_of_map : forall asl, slcs_of B (map (slc_val B) asl) = Some asl.
  Proof.
    induction asl as [|[[a b]|] t IH]; [reflexivity| |]; cbn [map slc_val slcs_of]; rewrite IH; reflexivity.
  Qed.

  Lemma cells_of_slice_stat : forall vals asl,
    cells_of_vals B (map (slice_stat_val B f vals) asl) = Some (map (ocell B) (opt_slice_stat B f asl vals)).
  Proof.
    intros vals asl. induction asl as [|[[a b]|] t IH]; [reflexivity| |];
      cbn [map slice_stat_val cells_of_vals cell_of opt_slice_stat option_map ocell fst snd String.eqb Ascii.eqb Bool.eqb];
      (unfold opt_slice_stat in IH; rewrite IH); reflexivity.
  Qed.

  Theorem skeleton_get_slice_stat_from_samples : forall vals asl fuel,
    exec P prog_get_slice_stat_from_samples fuel (env0_gssfs B vals asl)
    = ostat_outcome B (opt_slice_stat B f asl vals).
  Proof.
    intros vals asl fuel.
    pose proof (slcs_of_map asl) as H1. pose proof (cells_of_slice_stat vals asl) as H2.
    ev1. reflexivity.
  Qed.

  (* ---- make_slice_cache ------------------------------------------------------------------------------ *)
  Theorem skeleton_make_slice_cache : forall cv fuel,
    exec P prog_make_slice_cache fuel (env0_msc B cv)
    = if (length (run_starts (-1) cv 0) <=? length (run_stops cv 0))%nat
      then slices_outcome B (make_slice_cache cv) else Raise "IndexError".
  Proof.
    intros cv fuel.
    assert (Hgl : (length (gt_mask cv (-1)) =? length cv)%nat = true)
      by (apply Nat.eqb_eq; unfold gt_mask; apply map_length).
    ev1. rewrite starts_mask, stops_mask. unfold make_slice_cache.
    destruct (length (run_starts (-1) cv 0) <=? length (run_stops cv 0))%nat; ev; reflexivity.
  Qed.
End StatTie.

(* ================================================================================================= *)
(* 2. bin_by_phase                                                                                     *)
(* ================================================================================================= *)
Lemma mask_select_digitize : forall edges k ip x,
  mask_select (eq_mask (digitize_all ip edges) k) x
  = map snd (filter (fun px : Z * Z => Nat.eqb (digitize (fst px) edges) k) (combine ip x)).
Proof.
  intros edges k. unfold mask_select, eq_mask, digitize_all.
  induction ip as [|p t IH]; intros x; [reflexivity|].
  destruct x as [|v xt]; [reflexivity|].
  cbn [map combine filter fst]. destruct (Nat.eqb (digitize p edges) k); cbn [map snd]; rewrite IH; reflexivity.
Qed.

Lemma bin_mean_sel : forall edges ip x b,
  bin_mean edges ip x b
  = match mask_select (eq_mask (digitize_all ip edges) (S b)) x with
    | [] => None
    | s :: t => Some (zsum (s :: t), Z.of_nat (length (s :: t)))
    end.
Proof.
  intros. unfold bin_mean. rewrite mask_select_digitize.
  destruct (map snd (filter (fun px : Z * Z => Nat.eqb (digitize (fst px) edges) (S b)) (combine ip x))); reflexivity.
Qed.

Lemma map_const_repeat : forall (A C : Type) (c : C) (l : list A), map (fun _ => c) l = repeat c (length l).
Proof. intros A C c l. induction l as [|a t IH]; [reflexivity|]. cbn [map length repeat]. rewrite IH. reflexivity. Qed.

Lemma range1_val_split : forall {V : Type} (n : nat) (done : list (val V)) (v : val V) (rest : list (val V)),
  map (@VNat V) (seq 1 n) = (done ++ v :: rest)%list -> v = VNat (S (length done)) /\ (length done < n)%nat.
Proof.
  intros V n done v rest H.
  destruct (map_app_cons_inv _ _ _ _ _ H) as (d' & v' & r' & Hl & Hd & Hv & Hr).
  destruct (range_prefix 1 n d' v' r' Hl) as (Hd' & Hv' & Hn).
  subst done v. rewrite map_length. split; [rewrite Hv'; reflexivity | exact Hn].
Qed.

Section BinTie.
  Variable hist_edges : nat -> list Z.
  Local Notation V := (sval binres).
  Local Notation P := (bin_prims hist_edges).

  Definition bin_pre : list stmt := Eval cbv in firstn 7 (spine prog_bin_by_phase).
  Definition bin_for : stmt := Eval cbv in nth 7 (spine prog_bin_by_phase) SSkip.
  Definition bin_post : list stmt := Eval cbv in skipn 8 (spine prog_bin_by_phase).
  Definition bin_body : stmt := Eval cbv in match bin_for with SFor _ _ b => b | _ => SSkip end.
  Definition bin_iter : expr := Eval cbv in match bin_for with SFor _ it _ => it | _ => ENone end.

  Ltac ev :=
    cbv beta iota zeta delta
        [exec final_env eval eval_truth bind map_res truthy do_cmp do_arith do_index nat_cmp nat_arith iter_list
         upd lookup env_of assign_all cmp_name ar_name frame overlay normal_env
         try_finish try_finish_env exn_matches
         bin_prims prims_of table_lookup bin_table keys_are is_opaque0 range_handler range_val
         yvec yarr average_of mean_cell_of var_cell_of store_row vm_str
         names_bin env0_bin params_bin_by_phase prog_bin_by_phase
         bin_pre bin_for bin_post bin_body bin_iter exec_list
         String.eqb Ascii.eqb Bool.eqb fst snd nth_error andb negb orb].
  Ltac ev1 := ev; repeat (progress (cbn [Nat.eqb]; oracle_rw); ev).

  Section Loop.
    Variable ip x edges : list Z.
    Variable nb : nat.
    Variable centres : val V.               (* bin_centres *)
    Hypothesis Hlen : length ip = length x.

    Definition avg_at (d : nat) : list (cell binres) :=
      (map mean_cell (map (bin_mean edges ip x) (seq 0 d)) ++ repeat CNan (nb - d))%list.
    Definition var_at (vm : vmetric) (d : nat) : list (cell binres) :=
      (map (fun c => c) (map (var_cell vm) (seq 0 d)) ++ repeat CNan (nb - d))%list.

    Definition bin_head (vm : vmetric) (d : nat) (junk : string -> option (val V)) : env V :=
      env_of names_bin
        (overlay [ ("ip", yvec ip); ("x", yvec x); ("nbins", VNat nb); ("weights", VNone);
                   ("variance_metric", VStr (vm_str vm)); ("bin_edges", yvec edges); ("bin_centres", centres);
                   ("bin_inds", VSig (YIdx (digitize_all ip edges))); ("out_dims", VList [VNat nb]);
                   ("avg", yarr (avg_at d)); ("var", yarr (var_at vm d)) ] junk).

    Lemma var_at_other : forall d, (d <= nb)%nat -> var_at VMother d = repeat CNan nb.
    Proof.
      intros d Hd. unfold var_at. rewrite map_map. cbn [var_cell].
      rewrite map_const_repeat, seq_length, <- repeat_app. f_equal. lia.
    Qed.

    Lemma bin_step : forall vm fb d junk, (d < nb)%nat ->
      exists e2, normal_env (exec P bin_body fb (upd "ii" (VNat (S d)) (bin_head vm d junk))) = Some e2 /\
                 e2 = bin_head vm (S d) (fun y => lookup y e2).
    Proof.
      intros vm fb d junk Hd. unfold bin_head.
      assert (Hmask : (length (eq_mask (digitize_all ip edges) (S d)) =? length x)%nat = true)
        by (apply Nat.eqb_eq; unfold eq_mask, digitize_all; rewrite !map_length; exact Hlen).
      assert (Hlt1 : (d <? length (avg_at d))%nat = true)
        by (apply Nat.ltb_lt; unfold avg_at; rewrite fill_length; lia).
      assert (Hlt2 : (d <? length (var_at vm d))%nat = true)
        by (apply Nat.ltb_lt; unfold var_at; rewrite fill_length; lia).
      pose proof (bin_mean_sel edges ip x d) as Hbm.
      pose proof (set_nth_fill _ _ (bin_mean edges ip x) mean_cell CNan nb d Hd) as Havg.
      pose proof (set_nth_fill _ _ (var_cell vm) (fun c => c) CNan nb d Hd) as Hvar.
      fold (avg_at d) in Havg. fold (var_at vm d) in Hvar.
      destruct (mask_select (eq_mask (digitize_all ip edges) (S d)) x) as [|s0 st] eqn:E;
        rewrite Hbm in Havg; cbn [mean_cell] in Havg.
      - destruct vm; cbn [var_cell] in Hvar; (eexists; split; [ev1; rewrite E; ev1; rewrite ?Havg, ?Hvar|]).
        1,3,5: reflexivity.
        1-3: ev; reflexivity.
        + rewrite (var_at_other d) by lia. rewrite <- (var_at_other (S d)) by lia. reflexivity.
        + ev. reflexivity.
      - destruct vm; cbn [var_cell] in Hvar; (eexists; split; [ev1; rewrite E; ev1; rewrite ?Havg, ?Hvar|]).
        1,3,5: reflexivity.
        1-3: ev; reflexivity.
        + rewrite (var_at_other d) by lia. rewrite <- (var_at_other (S d)) by lia. reflexivity.
        + ev. reflexivity.
    Qed.

    Lemma bin_loop : forall vm fb junk,
      exists junk', for_loop "ii" (fun e' => exec P bin_body fb e') (map VNat (seq 1 nb)) (bin_head vm 0 junk)
                    = Normal (bin_head vm nb junk').
    Proof.
      intros vm fb junk.
      destruct (for_loop_inv V (fun done e => exists j, e = bin_head vm (length done) j)
                  "ii" (fun e' => exec P bin_body fb e') (map VNat (seq 1 nb)) (bin_head vm 0 junk))
        as (e' & He' & (j & Hj)).
      - exists junk. reflexivity.
      - intros done v rest e1 Hl (j & He1).
        destruct (range1_val_split nb done v rest Hl) as (Hv & Hlt). subst v e1.
        destruct (bin_step vm fb (length done) j Hlt) as (e2 & H2 & He2).
        exists e2. split; [exact H2|]. rewrite app_length, Nat.add_1_r. eexists. exact He2.
      - rewrite map_length, seq_length in Hj. exists j. rewrite He'. rewrite Hj. reflexivity.
    Qed.

    (* the loop and the return statement, from the loop-head environment *)
    Lemma bin_tail : forall vm fuel junk,
      match exec P bin_for fuel (bin_head vm 0 junk) with
      | Normal e2 => exec_list P bin_post fuel e2
      | o => o
      end
      = Return (VList [yarr (map mean_cell (map (bin_mean edges ip x) (seq 0 nb)));
                       yarr (map (var_cell vm) (seq 0 nb)); centres]).
    Proof.
      intros vm fuel junk. unfold bin_for. rewrite exec_for.
      assert (Hit : bind (eval P (bin_head vm 0 junk) bin_iter) (iter_list P) = Ok (map VNat (seq 1 (nb + 1 - 1))))
        by (unfold bin_head; ev; reflexivity).
      match goal with |- context [bind (eval P _ ?it) _] => change it with bin_iter end.
      rewrite Hit, Nat.add_sub.
      destruct (bin_loop vm fuel junk) as (junk' & Hloop).
      match goal with |- context [for_loop "ii" (fun e' => exec P ?b fuel e')] => change b with bin_body end.
      rewrite Hloop. unfold bin_head, avg_at, var_at. ev1.
      rewrite Nat.sub_diag. cbn [repeat]. rewrite !app_nil_r, map_id. reflexivity.
    Qed.
  End Loop.

  Lemma bin_model_length : forall edges ip x, length (bin_by_phase edges ip x) = (length edges - 1)%nat.
  Proof. intros. unfold bin_by_phase. rewrite map_length, seq_length. reflexivity. Qed.

  (* bin_edges given: nbins = len(bin_edges) - 1; the nbins argument is ignored *)
  Theorem skeleton_bin_by_phase_edges : forall ip x nbins vm edges fuel,
    edges <> [] -> zincreasing edges = true ->
    exec P prog_bin_by_phase fuel (env0_bin ip x nbins vm (yvec edges))
    = if (length ip =? length x)%nat
      then bin_outcome (bin_by_phase edges ip x) vm (VOpaque "centres" [yvec edges])
      else Raise "ValueError".
  Proof.
    intros ip x nbins vm edges fuel Hne Hinc.
    destruct (length ip =? length x)%nat eqn:Hlen.
    - rewrite (exec_nth_split V P prog_bin_by_phase 7 bin_for fuel _ eq_refl).
      change (firstn 7 (spine prog_bin_by_phase)) with bin_pre.
      change (skipn 8 (spine prog_bin_by_phase)) with bin_post.
      assert (Hle : (1 <=? length edges)%nat = true) by (apply Nat.leb_le; destruct edges; [congruence|cbn; lia]).
      assert (Hpre : exec_list P bin_pre fuel (env0_bin ip x nbins vm (yvec edges))
                     = Normal (bin_head ip x edges (length edges - 1) (VOpaque "centres" [yvec edges]) vm 0
                                 (fun _ => None))).
      { unfold bin_head, avg_at, var_at. destruct vm; ev1; rewrite Nat.sub_0_r; reflexivity. }
      rewrite Hpre. apply Nat.eqb_eq in Hlen.
      rewrite (bin_tail ip x edges (length edges - 1) _ Hlen vm fuel).
      unfold bin_outcome, bin_by_phase. rewrite map_length, seq_length. reflexivity.
    - destruct vm; ev1; reflexivity.
  Qed.

  (* bin_edges=None: the edges of spectra.define_hist_bins(0, 2*pi, nbins) *)
  Theorem skeleton_bin_by_phase_default : forall ip x nbins vm fuel,
    length (hist_edges nbins) = S nbins -> zincreasing (hist_edges nbins) = true ->
    exec P prog_bin_by_phase fuel (env0_bin ip x nbins vm VNone)
    = if (length ip =? length x)%nat
      then bin_outcome (bin_by_phase (hist_edges nbins) ip x) vm (VOpaque "hist_centres" [VNat nbins])
      else Raise "ValueError".
  Proof.
    intros ip x nbins vm fuel Hhl Hinc.
    destruct (length ip =? length x)%nat eqn:Hlen.
    - rewrite (exec_nth_split V P prog_bin_by_phase 7 bin_for fuel _ eq_refl).
      change (firstn 7 (spine prog_bin_by_phase)) with bin_pre.
      change (skipn 8 (spine prog_bin_by_phase)) with bin_post.
      assert (Hpre : exec_list P bin_pre fuel (env0_bin ip x nbins vm VNone)
                     = Normal (bin_head ip x (hist_edges nbins) nbins (VOpaque "hist_centres" [VNat nbins]) vm 0
                                 (fun _ => None))).
      { unfold bin_head, avg_at, var_at. destruct vm; ev1; rewrite Nat.sub_0_r; reflexivity. }
      rewrite Hpre. apply Nat.eqb_eq in Hlen.
      rewrite (bin_tail ip x (hist_edges nbins) nbins _ Hlen vm fuel).
      unfold bin_outcome, bin_by_phase. rewrite map_length, seq_length, Hhl. cbn [Nat.sub]. rewrite Nat.sub_0_r.
      reflexivity.
    - destruct vm; ev1; reflexivity.
  Qed.
End BinTie.

(* ================================================================================================= *)
(* 3. against model/CyclesObj.v (result type Z): the cached path equals the label path                 *)
(* ================================================================================================= *)
Lemma opt_slice_stat_aug : forall (f : list Z -> Z) asl vals,
  opt_slice_stat Z f asl vals = aug_slice_stat f asl vals.
Proof. reflexivity. Qed.

Lemma opt_slice_stat_plain : forall (f : list Z -> Z) sl vals,
  opt_slice_stat Z f (map Some sl) vals = slice_stat f sl vals.
Proof. intros. unfold opt_slice_stat, slice_stat. rewrite map_map. reflexivity. Qed.

Lemma aug_stat_is_aug_label_stat : forall (f : list Z -> Z) trough cv ph vals,
  aug_stat Z f trough cv ph vals = aug_label_stat f trough cv ph vals.
Proof. reflexivity. Qed.

(* get_slice_stat_from_samples over the cache make_slice_cache builds returns what get_cycle_stat_from_samples
   returns over the labels, for a cycle vector produced by get_cycle_vector (container) *)
Theorem skeleton_cached_equals_label : forall (f : list Z -> Z) fn trough Pc ph cv vals fuel fuel',
  container Pc ph cv -> cv <> [] -> length vals = length ph ->
  exec (stat_prims Z f fn trough) prog_get_slice_stat_from_samples fuel
       (env0_gssfs Z vals (map Some (make_slice_cache cv)))
  = exec (stat_prims Z f fn trough) prog_get_cycle_stat_from_samples fuel' (env0_gcsfs Z (yvec vals) cv).
Proof.
  intros f fn trough Pc ph cv vals fuel fuel' Hc Hne Hl.
  rewrite skeleton_get_slice_stat_from_samples, opt_slice_stat_plain.
  rewrite (container_slices Pc ph cv Hc), (slice_stat_label_stat Pc ph cv f vals Hc Hl).
  rewrite skeleton_get_cycle_stat_from_samples.
  - unfold ostat_outcome, stat_outcome, label_stat, cells_of. rewrite map_map. reflexivity.
  - exact Hne.
  - pose proof (container_wf_labels Pc ph cv Hc) as Hwf. unfold wf_labels in Hwf.
    eapply Forall_impl; [|exact Hwf]. cbv beta. intros c Hcc. lia.
  - rewrite (container_length Pc ph cv Hc), Hl. apply le_n.
Qed.

(* the same in augmented mode: the augmented cache against the augmented index map *)
Theorem skeleton_cached_equals_label_aug : forall (f : list Z -> Z) fn trough Pc ph cv vals fuel fuel',
  container Pc ph cv -> cv <> [] -> length vals = length ph ->
  exec (stat_prims Z f fn trough) prog_get_slice_stat_from_samples fuel
       (env0_gssfs Z vals (make_aug_slice_cache trough ph (make_slice_cache cv)))
  = exec (stat_prims Z f fn trough) prog_get_augmented_cycle_stat_from_samples fuel'
         (env0_gacsfs Z (yvec vals) cv ph).
Proof.
  intros f fn trough Pc ph cv vals fuel fuel' Hc Hne Hl.
  rewrite skeleton_get_slice_stat_from_samples, opt_slice_stat_aug.
  rewrite (container_slices Pc ph cv Hc), (aug_stat_equal Pc ph cv trough f vals Hc Hl).
  rewrite skeleton_get_augmented_cycle_stat_from_samples.
  - reflexivity.
  - exact Hne.
  - pose proof (container_wf_labels Pc ph cv Hc) as Hwf. unfold wf_labels in Hwf.
    eapply Forall_impl; [|exact Hwf]. cbv beta. intros c Hcc. lia.
  - rewrite (container_length Pc ph cv Hc), Hl. apply le_n.
Qed.
