(* Control-skeleton tie of the functions earlier ties left untied: the proofs (definitions: model/SkelPrims_Misc.v;
   notes/TIE_MISC.md). *)
From Coq Require Import String List Bool Arith ZArith Lia.
From EmdV Require Import lib.PyLoop lib.PyLoopTools lib.NpLite.
From EmdV Require Import gen.Gen_Skel_Misc gen.Gen_Skel_Miscsupport gen.Gen_Skel_Misccycles gen.Gen_Skel_Miscspectra.
From EmdV Require model.SkelPrims_Cyclesobj proofs.CyclesObjFacts.
From EmdV Require Import model.SkelPrims_Logger proofs.SkelFacts_Logger model.SkelPrims_Misc.
From EmdV Require model.Logger model.CycleMaps model.CycleVec model.CyclesObj.
Import ListNotations.
Open Scope string_scope.
Open Scope list_scope.

(* ================================================================================================ *)
(* 1. logger.set_up                                                                                  *)
(* ================================================================================================ *)
Lemma thread_erases_set_up : erase_su tprog_set_up = prog_set_up.
Proof. vm_compute. reflexivity. Qed.

Ltac evs :=
  cbv beta iota zeta delta
      [exec final_env eval eval_truth bind map_res truthy do_cmp do_arith do_index nat_cmp nat_arith iter_list
       upd lookup env_of assign_all cmp_name ar_name frame overlay normal_env
       try_finish try_finish_env exn_matches exec_list
       run_eff eff_result py_result st_var
       prims_of table_lookup keys_are is_opaque0
       name_val int_val state_val world_val level_val
       su_prims su_table config_val dict_config has_name remove_name name_in handler_named build_handlers
       existsb forallb
       set_up_entry set_up_names set_up_env0 params_set_up tprog_set_up level_arg format_arg
       set_up_result wants_file
       handlers mgr_disabled logger_disabled
       String.eqb Ascii.eqb Bool.eqb fst snd nth_error andb negb orb].
Ltac evs1 := evs; repeat (progress (cbn [String.length Nat.eqb Nat.ltb Nat.leb]); evs).

Theorem skeleton_set_up : forall fmt_known w prefix fname lvl cf f,
  eff_result (run_eff (su_prims fmt_known) tprog_set_up f (set_up_env0 w prefix fname lvl cf))
  = (set_up_result fmt_known cf, Some (world_val (w_set_up w lvl (wants_file fname)))).
Proof.
  intros fmt_known [hs md ld] prefix fname lvl cf f.
  destruct fname as [|a s]; destruct lvl as [z|]; destruct cf; destruct fmt_known; evs1; reflexivity.
Qed.

(* the world set_up leaves IS, through abs, the model's Logger.set_up *)
Lemma abs_fresh : forall w file,
  abs (w_fresh w file)
  = {| Logger.is_set_up := true; Logger.console := Logger.INFO; Logger.disabled := Logger.disabled (abs w);
       Logger.to_file := file |}.
Proof. intros [hs md ld] file. destruct file; reflexivity. Qed.

Lemma abs_set_up : forall w lvl file, abs (w_set_up w lvl file) = Logger.set_up (abs w) lvl file.
Proof.
  intros w lvl file. unfold w_set_up, Logger.set_up. destruct lvl as [z|].
  - rewrite abs_set_level, abs_fresh. reflexivity.
  - apply abs_fresh.
Qed.

Theorem skeleton_set_up_model : forall fmt_known w prefix fname lvl cf f,
  exists w', eff_result (run_eff (su_prims fmt_known) tprog_set_up f (set_up_env0 w prefix fname lvl cf))
             = (set_up_result fmt_known cf, Some (world_val w')) /\
             abs w' = fst (Logger.step (abs w) (Logger.SetUp lvl (wants_file fname))).
Proof.
  intros fmt_known w prefix fname lvl cf f. exists (w_set_up w lvl (wants_file fname)).
  split; [apply skeleton_set_up|]. apply abs_set_up.
Qed.

(* what the task statement asks about, read off the final world: which handlers, with which levels, and the flags *)
Lemma set_up_handlers : forall w lvl file,
  handlers (w_set_up w lvl file)
  = (HConsole, match lvl with Some z => z | None => Logger.INFO end) :: (if file then [(HFile, 0%Z)] else []) /\
  logger_disabled (w_set_up w lvl file) = false /\
  mgr_disabled (w_set_up w lvl file) = mgr_disabled w.
Proof. intros [hs md ld] lvl file. destruct lvl, file; repeat split. Qed.

(* ================================================================================================ *)
(* 2. get_chain_stat_from_samples                                                                    *)
(* ================================================================================================ *)
Section ChainTie.
  Variable f : list Z -> Z.
  Variables vals chv sv cyv : list Z.
  Local Notation P := chain_prims.

  Definition chain_pre : list stmt := Eval cbv in firstn 2 (spine prog_get_chain_stat_from_samples).
  Definition chain_for : stmt := Eval cbv in nth 2 (spine prog_get_chain_stat_from_samples) SSkip.
  Definition chain_post : list stmt := Eval cbv in skipn 3 (spine prog_get_chain_stat_from_samples).
  Definition chain_iter : expr := Eval cbv in match chain_for with SFor _ it _ => it | _ => ENone end.
  Definition chain_body : stmt := Eval cbv in match chain_for with SFor _ _ b => b | _ => SSkip end.

  Ltac evc :=
    cbv beta iota zeta delta
        [exec final_env eval eval_truth bind map_res truthy do_cmp do_arith do_index nat_cmp nat_arith iter_list
         upd lookup env_of assign_all cmp_name ar_name frame overlay normal_env
         try_finish try_finish_env exn_matches exec_list
         chain_prims prims_of table_lookup chain_table keys_are is_opaque0 range_handler range_val vec_val
         chain_names chain_env0 params_get_chain_stat_from_samples chain_pre chain_for chain_post chain_iter chain_body
         chain_render
         String.eqb Ascii.eqb Bool.eqb fst snd nth_error andb negb orb].
  Ltac evc1 := evc; repeat (progress (cbn [Nat.eqb]; oracle_rw); evc).

  (* the model's statistic of chain c *)
  Definition chain_g (c : nat) : option Z :=
    option_map (fun inds => f (CyclesObj.take_inds vals inds)) (CycleMaps.map_chain_to_samples chv sv cyv (Z.of_nat c)).

  Definition chain_head (n : nat) (out : list Z) (junk : string -> option (val cval)) : env cval :=
    env_of chain_names
      (overlay [ ("vals", vec_val vals); ("chain_vect", vec_val chv); ("subset_vect", vec_val sv);
                 ("cycle_vect", vec_val cyv); ("func", VSig (CFun f)); ("nchains", VNat n);
                 ("out", vec_val out) ] junk).

  Lemma set_nth_mid : forall (pre : list Z) z m, set_nth (length pre) z (pre ++ repeat 0%Z (S m)) = (pre ++ [z]) ++ repeat 0%Z m.
  Proof.
    intros pre z m. unfold set_nth.
    rewrite firstn_app, Nat.sub_diag, firstn_O, app_nil_r, firstn_all.
    rewrite skipn_app, (skipn_all2 (n := S (length pre))) by lia.
    replace (S (length pre) - length pre)%nat with 1%nat by lia. cbn [repeat skipn app].
    rewrite <- app_assoc. reflexivity.
  Qed.

  Lemma chain_step_some : forall fb n pre m junk z,
    chain_g (length pre) = Some z ->
    exists e2, exec P chain_body fb (upd "ii" (VNat (length pre)) (chain_head n (pre ++ repeat 0%Z (S m)) junk)) = Normal e2 /\
               e2 = chain_head n ((pre ++ [z]) ++ repeat 0%Z m) (fun x => lookup x e2).
  Proof.
    intros fb n pre m junk z Hg. unfold chain_g in Hg.
    destruct (CycleMaps.map_chain_to_samples chv sv cyv (Z.of_nat (length pre))) as [inds|] eqn:Em; [|discriminate].
    cbn [option_map] in Hg. inversion Hg as [Hz]. clear Hg.
    assert (Hlt : (length pre <? length (pre ++ repeat 0%Z (S m)))%nat = true)
      by (apply Nat.ltb_lt; rewrite app_length, repeat_length; lia).
    unfold chain_head. eexists. split.
    - evc1. rewrite set_nth_mid. reflexivity.
    - evc. reflexivity.
  Qed.

  Lemma chain_step_none : forall fb n pre m junk,
    chain_g (length pre) = None ->
    exec P chain_body fb (upd "ii" (VNat (length pre)) (chain_head n (pre ++ repeat 0%Z (S m)) junk)) = Stuck.
  Proof.
    intros fb n pre m junk Hg. unfold chain_g in Hg.
    destruct (CycleMaps.map_chain_to_samples chv sv cyv (Z.of_nat (length pre))) as [inds|] eqn:Em; [discriminate|].
    unfold chain_head. evc1. reflexivity.
  Qed.

  (* the loop from chain d = length pre on: m chains to go *)
  Lemma chain_loop : forall fb n m pre junk,
    match CycleVec.all_some (map chain_g (seq (length pre) m)) with
    | Some r => exists junk', for_loop "ii" (fun e' => exec P chain_body fb e') (map VNat (seq (length pre) m))
                                (chain_head n (pre ++ repeat 0%Z m) junk) = Normal (chain_head n (pre ++ r) junk')
    | None => for_loop "ii" (fun e' => exec P chain_body fb e') (map VNat (seq (length pre) m))
                (chain_head n (pre ++ repeat 0%Z m) junk) = Stuck
    end.
  Proof.
    intros fb n m. induction m as [|m IH]; intros pre junk.
    - cbn [seq map CycleVec.all_some repeat for_loop]. exists junk. reflexivity.
    - cbn [seq map CycleVec.all_some]. rewrite for_loop_cons.
      destruct (chain_g (length pre)) as [z|] eqn:Hg.
      + destruct (chain_step_some fb n pre m junk z Hg) as (e2 & He & Hs). rewrite He.
        specialize (IH (pre ++ [z]) (fun x => lookup x e2)).
        rewrite app_length in IH. cbn [length] in IH. rewrite Nat.add_1_r in IH.
        rewrite Hs.
        destruct (CycleVec.all_some (map chain_g (seq (S (length pre)) m))) as [r|].
        * destruct IH as (junk' & IH). exists junk'. rewrite IH, <- app_assoc. reflexivity.
        * exact IH.
      + rewrite (chain_step_none fb n pre m junk Hg). reflexivity.
  Qed.

  (* np.max(chain_vect) + 1 IS the model's nchains when the chain vector holds -1 or chain indices *)
  Lemma true_max_floor : forall l, l <> [] -> Forall (fun c => (-1 <= c)%Z) l -> true_max l = Some (zmax_list (-1) l).
  Proof.
    intros [|x t] Hne Hge; [congruence|]. assert (Hx : (-1 <= x)%Z) by (inversion Hge as [|? ? Hx0 _]; exact Hx0).
    cbn [true_max zmax_list]. f_equal. clear Hne Hge. induction t as [|a t IH]; cbn [zmax_list]; lia.
  Qed.

  Theorem skeleton_get_chain_stat_from_samples : forall fuel,
    chv <> [] -> Forall (fun c => (-1 <= c)%Z) chv ->
    exec P prog_get_chain_stat_from_samples fuel (chain_env0 vals chv sv cyv f)
    = chain_render (CyclesObj.chain_stat f chv sv cyv vals).
  Proof.
    intros fuel Hne Hge.
    pose proof (true_max_floor chv Hne Hge) as Hm.
    rewrite (exec_nth_split cval P prog_get_chain_stat_from_samples 2 chain_for fuel _ eq_refl).
    change (firstn 2 (spine prog_get_chain_stat_from_samples)) with chain_pre.
    change (skipn 3 (spine prog_get_chain_stat_from_samples)) with chain_post.
    set (n := CyclesObj.nchains chv).
    assert (Hpre : exec_list P chain_pre fuel (chain_env0 vals chv sv cyv f)
                   = Normal (chain_head n (repeat 0%Z n) (fun _ => None))).
    { unfold chain_head, n, CyclesObj.nchains. evc1. reflexivity. }
    rewrite Hpre. unfold chain_for. rewrite exec_for.
    assert (Hit : bind (eval P (chain_head n (repeat 0%Z n) (fun _ => None)) (ECall "range" [EVar "nchains"] []))
                       (iter_list P) = Ok (map VNat (seq 0 n))) by (unfold chain_head; evc; reflexivity).
    rewrite Hit.
    pose proof (chain_loop fuel n n [] (fun _ => None)) as Hl. cbn [length app] in Hl.
    change (SAssign "out" _) with chain_body.
    unfold CyclesObj.chain_stat. fold n.
    change (fun c : nat => option_map (fun inds : list nat => f (CyclesObj.take_inds vals inds))
                             (CycleMaps.map_chain_to_samples chv sv cyv (Z.of_nat c))) with chain_g.
    destruct (CycleVec.all_some (map chain_g (seq 0 n))) as [r|].
    - destruct Hl as (junk' & Hl). rewrite Hl. unfold chain_head. evc1. reflexivity.
    - rewrite Hl. reflexivity.
  Qed.

  (* outside the hypothesis: numpy raises on the maximum of an empty vector, the model has no chains there *)
  Lemma get_chain_stat_empty_chain_vect : forall fuel,
    chv = [] ->
    exec P prog_get_chain_stat_from_samples fuel (chain_env0 vals chv sv cyv f) = Raise "ValueError".
  Proof.
    intros fuel H. assert (Hm : true_max chv = None) by (rewrite H; reflexivity).
    rewrite (exec_nth_split cval P prog_get_chain_stat_from_samples 2 chain_for fuel _ eq_refl).
    change (firstn 2 (spine prog_get_chain_stat_from_samples)) with chain_pre.
    assert (Hpre : exec_list P chain_pre fuel (chain_env0 vals chv sv cyv f) = Raise "ValueError") by (evc1; reflexivity).
    rewrite Hpre. reflexivity.
  Qed.
End ChainTie.

(* ================================================================================================ *)
(* 2b. Cycles.compute_chain_timings                                                                  *)
(* ================================================================================================ *)
Lemma thread_erases_ct :
  SkelPrims_Cyclesobj.erase_self ct_writers tprog_ct_a = prog_compute_chain_timings_a /\
  SkelPrims_Cyclesobj.erase_self ct_writers tprog_ct_b = prog_compute_chain_timings_b /\
  tprog_ct = SSeq tprog_ct_a tprog_ct_b.
Proof. repeat split; vm_compute; reflexivity. Qed.

Section ChainTimingsTie.
  Import CyclesObj.
  Local Notation P := ct_prims.

  Ltac evt :=
    cbv beta iota zeta delta
        [exec final_env eval eval_truth bind map_res truthy do_cmp do_arith do_index nat_cmp nat_arith iter_list
         upd lookup env_of assign_all cmp_name ar_name frame overlay normal_env
         try_finish try_finish_env exn_matches exec_list
         ct_prims prims_of table_lookup ct_table h_round ct_round keys_are is_opaque0 tself
         ct_entry ct_names ct_env0 params_compute_chain_timings_a tprog_ct call_result ct_render
         String.eqb Ascii.eqb Bool.eqb fst snd nth_error andb negb orb app].
  Ltac fold_states := repeat match goal with H : ?x = ct_next _ _ _ |- _ => rewrite <- H end.
  Ltac evt1 := evt; repeat (progress (fold_states; oracle_rw); evt).

  (* the next round keeps the selection *)
  Lemma ct_next_sel : forall st k v cs sv chv,
    s_conds st = Some cs -> s_subset st = Some sv -> s_chain st = Some chv ->
    s_conds (ct_next st k v) = Some cs /\ s_subset (ct_next st k v) = Some sv /\ s_chain (ct_next st k v) = Some chv.
  Proof.
    intros st k v cs sv chv Hc Hs Hh. unfold ct_next.
    destruct (CyclesObjFacts.add_metric_sel st (chain_t_name k) (PChainT k) v) as (Hs' & Hh' & Hc' & _).
    rewrite Hs', Hh', Hc'. repeat split; assumption.
  Qed.

  Theorem skeleton_compute_chain_timings : forall st fuel,
    (call_result (exec P tprog_ct fuel (ct_env0 st)), lookup "self" (final_env P tprog_ct fuel (ct_env0 st)))
    = ct_render (chain_timings st)
    \/ (snd (chain_timings st) = ORaised 9 /\ exec P tprog_ct fuel (ct_env0 st) = Stuck).
  Proof.
    intros st fuel. unfold chain_timings.
    destruct (s_conds st) as [cs|] eqn:Hc; [|left; evt1; reflexivity].
    destruct (s_subset st) as [sv|] eqn:Hs; [|left; evt1; reflexivity].
    destruct (s_chain st) as [chv|] eqn:Hh; [|left; evt1; reflexivity].
    cbn [chain_t_loop].
    destruct (chain_t_vals st chv sv 0) as [v0|] eqn:E0; [|right; split; [reflexivity|evt1; reflexivity]].
    change (fst (add_metric st (chain_t_name 0) (PChainT 0) v0)) with (ct_next st 0 v0).
    destruct (ct_next_sel st 0 v0 cs sv chv Hc Hs Hh) as (Hc1 & Hs1 & Hh1).
    remember (ct_next st 0 v0) as st1 eqn:Est1.
    destruct (chain_t_vals st1 chv sv 1) as [v1|] eqn:E1; [|right; split; [reflexivity|evt1; reflexivity]].
    change (fst (add_metric st1 (chain_t_name 1) (PChainT 1) v1)) with (ct_next st1 1 v1).
    destruct (ct_next_sel st1 1 v1 cs sv chv Hc1 Hs1 Hh1) as (Hc2 & Hs2 & Hh2).
    remember (ct_next st1 1 v1) as st2 eqn:Est2.
    destruct (chain_t_vals st2 chv sv 2) as [v2|] eqn:E2; [|right; split; [reflexivity|evt1; reflexivity]].
    change (fst (add_metric st2 (chain_t_name 2) (PChainT 2) v2)) with (ct_next st2 2 v2).
    destruct (ct_next_sel st2 2 v2 cs sv chv Hc2 Hs2 Hh2) as (Hc3 & Hs3 & Hh3).
    remember (ct_next st2 2 v2) as st3 eqn:Est3.
    destruct (chain_t_vals st3 chv sv 3) as [v3|] eqn:E3; [|right; split; [reflexivity|evt1; reflexivity]].
    change (fst (add_metric st3 (chain_t_name 3) (PChainT 3) v3)) with (ct_next st3 3 v3).
    destruct (ct_next_sel st3 3 v3 cs sv chv Hc3 Hs3 Hh3) as (Hc4 & Hs4 & Hh4).
    remember (ct_next st3 3 v3) as st4 eqn:Est4.
    destruct (chain_t_vals st4 chv sv 4) as [v4|] eqn:E4; [|right; split; [reflexivity|evt1; reflexivity]].
    left. evt1. reflexivity.
  Qed.

  (* under the container invariant the second alternative never happens *)
  Corollary skeleton_compute_chain_timings_inv : forall st fuel,
    CyclesObj.Inv st ->
    (call_result (exec P tprog_ct fuel (ct_env0 st)), lookup "self" (final_env P tprog_ct fuel (ct_env0 st)))
    = ct_render (chain_timings st).
  Proof.
    intros st fuel HI. destruct (skeleton_compute_chain_timings st fuel) as [H|[H _]]; [exact H|].
    exfalso. exact (CyclesObjFacts.chain_timings_total st HI H).
  Qed.
End ChainTimingsTie.

(* ================================================================================================ *)
(* 3. define_hist_bins, define_hist_bins_from_data                                                   *)
(* ================================================================================================ *)
Section HistTie.
  Variable A : Type.
  Variable linspace : A -> A -> nat -> list A.
  Variables flog fexp : A -> A.
  Variable add : A -> A -> A.
  Variable half : A -> A.
  Variables amin amax : list A -> A.
  Local Notation P := (hb_prims A linspace flog fexp add half).
  Local Notation PD := (hbd_prims A linspace flog fexp add half amin amax).
  Local Notation model := (hist_bins A linspace flog fexp add half).
  Local Notation model_d := (hist_bins_from_data A linspace flog fexp add half amin amax).

  Ltac evh :=
    cbv beta iota zeta delta
        [exec final_env eval eval_truth bind map_res truthy do_cmp do_arith do_index nat_cmp nat_arith iter_list
         upd lookup env_of assign_all cmp_name ar_name frame overlay normal_env
         try_finish try_finish_env exn_matches exec_list
         hb_prims hbd_prims prims_of table_lookup hb_table hbd_table keys_are is_opaque0 hnum harr hlist
         hb_names hb_env0 params_define_hist_bins prog_define_hist_bins hb_render scale_str scale_of_str mode_str
         hbd_names hbd_env0 nbins_arg params_define_hist_bins_from_data prog_define_hist_bins_from_data
         hist_bins hist_edges hist_bins_from_data option_map
         String.eqb Ascii.eqb Bool.eqb fst snd nth_error andb negb orb].

  Theorem skeleton_define_hist_bins : forall lo hi nbins sc fuel,
    exec P prog_define_hist_bins fuel (hb_env0 A lo hi nbins sc) = hb_render A (model sc lo hi nbins).
  Proof. intros lo hi nbins sc fuel. destruct sc; evh; reflexivity. Qed.

  Theorem skeleton_define_hist_bins_from_data : forall x nb md sc fuel,
    exec PD prog_define_hist_bins_from_data fuel (hbd_env0 A x nb md sc) = hb_render A (model_d sc md nb x).
  Proof.
    intros x nb md sc fuel.
    destruct x as [|x0 xt]; [destruct nb, md, sc; evh; reflexivity|].
    destruct nb as [n|]; destruct md; destruct sc; evh; reflexivity.
  Qed.

  (* ---- the shape of the model's result ---- *)
  Lemma midpoints_length : forall e, length (midpoints A add half e) = (length e - 1)%nat.
  Proof.
    induction e as [|a t IH]; [reflexivity|]. destruct t as [|b t']; [reflexivity|].
    cbn [midpoints length] in *. rewrite IH. lia.
  Qed.

  Lemma midpoints_nth : forall e k a b,
    nth_error e k = Some a -> nth_error e (S k) = Some b ->
    nth_error (midpoints A add half e) k = Some (half (add a b)).
  Proof.
    induction e as [|x t IH]; intros k a b Ha Hb; [destruct k; discriminate|].
    destruct t as [|y t']; [destruct k; discriminate|].
    destruct k as [|k].
    - cbn in Ha, Hb. inversion Ha; inversion Hb; subst. reflexivity.
    - cbn [midpoints nth_error]. apply IH; assumption.
  Qed.

  Hypothesis linspace_length : forall lo hi n, length (linspace lo hi n) = n.

  Theorem hist_bins_shape : forall sc lo hi nbins e c,
    model sc lo hi nbins = Some (e, c) ->
    length e = (nbins + 1)%nat /\ length c = nbins /\
    (forall k a b, nth_error e k = Some a -> nth_error e (S k) = Some b -> nth_error c k = Some (half (add a b))).
  Proof.
    intros sc lo hi nbins e c H. unfold hist_bins in H.
    assert (He : length e = (nbins + 1)%nat /\ c = midpoints A add half e).
    { destruct sc; cbn [hist_edges option_map] in H; inversion H; subst; split; try reflexivity.
      - apply linspace_length.
      - rewrite map_length. apply linspace_length. }
    destruct He as (He & ->). split; [exact He|]. split.
    - rewrite midpoints_length, He. lia.
    - intros k a b. apply midpoints_nth.
  Qed.

  (* the same, as a statement about the translated program: for a known scale the call returns a pair (edges, centres)
     with nbins + 1 edges, nbins centres, and centre k the midpoint of edges k and k + 1 *)
  Theorem define_hist_bins_returns : forall lo hi nbins sc fuel,
    sc <> HOtherScale ->
    exists e c, exec P prog_define_hist_bins fuel (hb_env0 A lo hi nbins sc) = Return (VList [harr A e; harr A c]) /\
                length e = (nbins + 1)%nat /\ length c = nbins /\
                (forall k a b, nth_error e k = Some a -> nth_error e (S k) = Some b -> nth_error c k = Some (half (add a b))).
  Proof.
    intros lo hi nbins sc fuel Hsc. rewrite skeleton_define_hist_bins.
    destruct (model sc lo hi nbins) as [[e c]|] eqn:Hm.
    - exists e, c. split; [reflexivity|]. exact (hist_bins_shape sc lo hi nbins e c Hm).
    - destruct sc; try discriminate. congruence.
  Qed.

  Theorem define_hist_bins_unknown_scale : forall lo hi nbins fuel,
    exec P prog_define_hist_bins fuel (hb_env0 A lo hi nbins HOtherScale) = Raise "ValueError".
  Proof. intros. rewrite skeleton_define_hist_bins. reflexivity. Qed.
End HistTie.
