(* Control-skeleton tie of the masked-sift helpers: the refinement proofs (notes/TIE_MASK.md).
   The reviewable part (tables, environments, rendering) is model/SkelPrims_Mask.v. *)
From Coq Require Import String List Bool Arith Lia QArith.
From EmdV Require Import lib.PyLoop lib.PyLoopTools model.SiftCore model.Variants model.MaskSift
                         proofs.MaskSiftFacts gen.Gen_Skel_Mask model.SkelPrims_Mask.
Import ListNotations.
Open Scope string_scope.

(* ---- the value helpers of SkelPrims_Mask.v on the values the programs build -------------------------------- *)
Lemma sigs_of_map : forall (V : Type) (l : list V), sigs_of (map VSig l) = Some l.
Proof. intros V. induction l as [|a t IH]; [reflexivity|]. cbn [map sigs_of]. rewrite IH. reflexivity. Qed.

Lemma bools_of_map : forall (V : Type) (l : list bool), bools_of (map (@VBool V) l) = Some l.
Proof. intros V. induction l as [|a t IH]; [reflexivity|]. cbn [map bools_of]. rewrite IH. reflexivity. Qed.

Lemma cols_of_mat : forall (V : Type) (l : list V), cols_of (VOpaque "matrix" (map VSig l)) = Some l.
Proof. intros V l. unfold cols_of. cbn [String.eqb Ascii.eqb Bool.eqb]. apply sigs_of_map. Qed.

Lemma args_of_val : forall (V : Type) (l : list V), args_of (VList (map (fun a => VList [VSig a]) l)) = Some l.
Proof.
  intros V l. unfold args_of. rewrite map_map.
  induction l as [|a t IH]; [reflexivity|]. cbn [map all_some]. rewrite IH. reflexivity.
Qed.

Lemma all_some_map_some : forall (B C : Type) (g : B -> C) (l : list B),
  all_some (map (fun x => Some (g x)) l) = Some (map g l).
Proof. intros B C g. induction l as [|a t IH]; [reflexivity|]. cbn [map all_some]. rewrite IH. reflexivity. Qed.

Lemma column0_res : forall (V : Type) (l : list (V * bool)),
  column 0 (VList (map (fun pf => VList [VSig (imf_part pf); VBool (flag_part pf)]) l)) = Some (map VSig (map imf_part l)).
Proof.
  intros V l. unfold column. rewrite !map_map. cbn [nth_error].
  apply (all_some_map_some _ _ (fun x : V * bool => VSig (imf_part x))).
Qed.

Lemma column1_res : forall (V : Type) (l : list (V * bool)),
  column 1 (VList (map (fun pf => VList [VSig (imf_part pf); VBool (flag_part pf)]) l)) = Some (map (@VBool V) (map flag_part l)).
Proof.
  intros V l. unfold column. rewrite !map_map. cbn [nth_error].
  apply (all_some_map_some _ _ (fun x : V * bool => @VBool V (flag_part x))).
Qed.

Lemma take_cols_all : forall (V : Type) (l : list V), take_cols l (length l) = Some l.
Proof.
  intros V l. unfold take_cols.
  rewrite (map_ext _ (fun i => option_map (fun x => x) (nth_error l i))) by (intros i; destruct (nth_error l i); reflexivity).
  rewrite all_some_nth_error. rewrite map_id. reflexivity.
Qed.

Lemma all_some_length : forall (B : Type) (l : list (option B)) r, all_some l = Some r -> length r = length l.
Proof.
  intros B. induction l as [|a t IH]; intros r H.
  - inversion H. reflexivity.
  - destruct a as [b|]; [|discriminate]. cbn [all_some] in H.
    destruct (all_some t) as [r'|] eqn:E; [|discriminate]. inversion H. cbn [length]. rewrite (IH r' eq_refl). reflexivity.
Qed.

Lemma collect_length : forall (T R : Type) (ex : nat -> T -> R) s args res,
  collect T R ex s args = Some res -> length res = length args.
Proof.
  intros T R ex s args res H. unfold collect in H. apply all_some_length in H.
  rewrite map_length, seq_length in H. exact H.
Qed.

Lemma imf_pairs_length : forall (V : Type) (res : list (gni_result V)) pairs,
  imf_pairs res = Some pairs -> length pairs = length res.
Proof.
  intros V. induction res as [|r t IH]; intros pairs H.
  - inversion H. reflexivity.
  - destruct r as [p f k| |]; try discriminate. cbn [imf_pairs] in H.
    destruct (imf_pairs t) as [r'|] eqn:E; [|discriminate]. inversion H. cbn [length]. rewrite (IH r' eq_refl). reflexivity.
Qed.

(* ============================================================================================== *)
(* 1. get_next_imf_mask                                                                             *)
(* ============================================================================================== *)
(* the first two statements (X made a column, the imf_opts default), and the rest; closed terms *)
Definition gnm_pre : list stmt := Eval cbv in firstn 2 (spine prog_get_next_imf_mask).
Definition gnm_post : list stmt := Eval cbv in skipn 2 (spine prog_get_next_imf_mask).

Section GnmTie.
  Variables V A F : Type.
  Variable vzero : V.
  Variable vadd vsub : V -> V -> V.
  Variable vscale : A -> V -> V.
  Variable vdivn : nat -> V -> V.
  Variable cosm : F -> Q -> V.
  Variable gni : val V -> val V -> val V -> nat -> V -> gni_result V.
  Variable sched : schedule.
  Variable z : F.
  Variable amp : A.

  Local Notation P := (gnm_prims V A F vzero vadd vsub vscale vdivn cosm gni sched z amp).
  Local Notation masks := (masks V A F vscale cosm).
  Local Notation unmask := (unmask V vsub).
  Local Notation sub_cols := (sub_cols V vsub).

  Lemma masks_length : forall n, length (masks z amp n) = n.
  Proof. intros n. unfold MaskSift.masks, phases. rewrite !map_length. apply seq_length. Qed.

  (* the model's [unmask] = the collation of the code: tuples taken apart, then imfs - m *)
  Lemma unmask_pairs : forall ms res pairs, imf_pairs res = Some pairs ->
    unmask ms res = match sub_cols (map imf_part pairs) ms with Some ps => Some (ps, map flag_part pairs) | None => None end.
  Proof.
    induction ms as [|m ms' IH]; intros res pairs H.
    - destruct res as [|r t].
      + inversion H. reflexivity.
      + destruct r as [p f k| |]; try discriminate. cbn [imf_pairs] in H.
        destruct (imf_pairs t) as [r'|]; [|discriminate]. inversion H. reflexivity.
    - destruct res as [|r t].
      + inversion H. reflexivity.
      + destruct r as [p f k| |]; try discriminate. cbn [imf_pairs] in H.
        destruct (imf_pairs t) as [r'|] eqn:E; [|discriminate]. inversion H.
        cbn [MaskSift.unmask map fst snd imf_part flag_part SkelPrims_Mask.sub_cols]. rewrite (IH t r' E).
        destruct (sub_cols (map imf_part r') ms'); reflexivity.
  Qed.

  Lemma unmask_raised : forall ms res, imf_pairs res = None -> unmask ms res = None.
  Proof.
    induction ms as [|m ms' IH]; intros res H.
    - destruct res as [|r t]; [discriminate|]. reflexivity.
    - destruct res as [|r t]; [discriminate|].
      destruct r as [p f k| |]; try reflexivity. cbn [imf_pairs] in H. cbn [MaskSift.unmask].
      destruct (imf_pairs t) as [r'|] eqn:E; [discriminate|]. rewrite (IH t E). reflexivity.
  Qed.

  Lemma sub_cols_some : forall a b, length a = length b -> exists c, sub_cols a b = Some c.
  Proof.
    induction a as [|x a' IH]; intros b H.
    - destruct b; [|discriminate]. exists []. reflexivity.
    - destruct b as [|y b']; [discriminate|]. cbn [length] in H.
      destruct (IH b') as (c & Hc); [lia|]. exists (vsub x y :: c). cbn [SkelPrims_Mask.sub_cols]. rewrite Hc. reflexivity.
  Qed.

  Ltac ev :=
    cbv beta iota zeta delta
        [exec final_env eval eval_truth bind map_res truthy do_cmp do_arith do_index nat_cmp nat_arith iter_list
         upd lookup env_of assign_all cmp_name ar_name frame overlay normal_env exec_list
         try_finish try_finish_env exn_matches
         gnm_prims prims_of table_lookup gnm_table mul_handler keys_are is_opaque0 opaque1
         gnm_names gnm_env0 params_get_next_imf_mask gnm_pre gnm_post mat_val args_val res_val
         String.eqb Ascii.eqb Bool.eqb fst snd nth_error andb negb orb].

  Section Fixed.
    Variable X : V.
    Variable n : nat.
    Variable np eo xo : val V.

    (* the frame after `if imf_opts is None: imf_opts = {}` *)
    Definition gnm_head (io' : val V) : env V :=
      env_of gnm_names
        (overlay [ ("X", VSig X); ("z", VOpaque "z" []); ("amp", VOpaque "amp" []); ("nphases", VNat n);
                   ("nprocesses", np); ("imf_opts", io'); ("envelope_opts", eo); ("extrema_opts", xo) ]
                 (fun _ => None)).

    Lemma gnm_prefix : forall io f,
      exec_list P gnm_pre f (gnm_env0 V X n np io eo xo) = Normal (gnm_head (io_eff io)).
    Proof. intros io f. unfold gnm_head. destruct io; ev; reflexivity. Qed.

    Lemma gnm_suffix : forall io' f,
      exec_list P gnm_post f (gnm_head io') =
      gnm_render V n (gni_mask_pool V A F vzero vadd vsub vscale vdivn cosm (gni eo xo io') sched X z amp n).
    Proof.
      intros io' f. unfold gnm_head.
      set (K := exec_list P).
      assert (K_cons : forall s t f e, K (s :: t) f e =
                         match exec P s f e with Normal e' => K t f e' | o => o end) by reflexivity.
      unfold gni_mask_pool, mask_args.
      set (ms := masks z amp n).
      assert (Hms : length ms = n) by apply masks_length.
      unfold gnm_post.
      (* skip; zf; t; phases; m = amp * np.cos(zf * t + phases): the model's mask list *)
      do 5 (rewrite K_cons; ev). rewrite Nat.eqb_refl. ev. fold ms.
      (* my_get_next_imf = functools.partial(get_next_imf, envelope_opts=.., extrema_opts=.., **imf_opts) *)
      rewrite K_cons; ev.
      (* args: X + column ii of THE SAME m, ii < nphases *)
      rewrite K_cons; ev. unfold mk_args. rewrite cols_of_mat.
      pose proof (take_cols_all V ms) as Ht. rewrite Hms in Ht. rewrite Ht. ev.
      (* with mp.Pool(processes=nprocesses) as p *)
      rewrite K_cons; ev.
      (* res = p.starmap(my_get_next_imf, args) *)
      rewrite K_cons; ev. unfold starmap. rewrite args_of_val. ev.
      destruct (collect V (gni_result V) (gni eo xo io') sched (map (vadd X) ms)) as [res|] eqn:Ec; [|reflexivity].
      assert (Hres : length res = n) by (rewrite (collect_length _ _ _ _ _ _ Ec), map_length; exact Hms).
      destruct (imf_pairs res) as [pairs|] eqn:Ep.
      - assert (Hpairs : length pairs = n) by (rewrite (imf_pairs_length _ _ _ Ep); exact Hres).
        ev.
        (* imfs = [r[0] for r in res]; continue_flags = [r[1] for r in res] *)
        rewrite K_cons; ev. unfold col_list. rewrite column0_res. ev.
        rewrite K_cons; ev. unfold col_list. rewrite column1_res. ev.
        (* imfs = np.concatenate(imfs, axis=1) - m *)
        rewrite K_cons; ev. unfold concat_cols. rewrite sigs_of_map.
        destruct (map imf_part pairs) as [|c cs] eqn:Em.
        + (* nphases = 0: np.concatenate([]) raises ValueError *)
          assert (Hn : n = 0%nat) by (rewrite <- Hpairs, <- (map_length imf_part), Em; reflexivity).
          assert (Hnil : ms = []) by (destruct ms; [reflexivity|cbn [length] in Hms; lia]).
          rewrite Hnil, Hn. reflexivity.
        + ev. rewrite <- Em. unfold sub_mats. rewrite !cols_of_mat.
          destruct (sub_cols_some (map imf_part pairs) ms) as (ps & Hps);
            [rewrite map_length, Hpairs, Hms; reflexivity|].
          rewrite Hps. ev.
          (* return imfs.mean(axis=1)[:, np.newaxis], np.any(continue_flags) *)
          rewrite K_cons; ev. unfold mean_cols, any_flags. rewrite cols_of_mat, bools_of_map.
          assert (Hne : ms <> []).
          { intros Hnil. rewrite Hnil in Hms. rewrite <- Hpairs, <- (map_length imf_part), Em in Hms. discriminate. }
          rewrite (collate_nonempty V vzero vadd vsub vdivn ms res Hne), (unmask_pairs ms res pairs Ep), Hps.
          reflexivity.
      - (* a task raised: starmap re-raises *)
        ev.
        assert (Hne : ms <> []).
        { intros Hnil. rewrite Hnil in Hms. rewrite <- Hms in Hres. destruct res; [discriminate|discriminate]. }
        rewrite (collate_nonempty V vzero vadd vsub vdivn ms res Hne), (unmask_raised ms res Ep).
        destruct n as [|n']; [|reflexivity].
        destruct res; [discriminate|discriminate].
    Qed.

    (* THE TIE: for every oracle, every schedule, every input and every fuel *)
    Theorem skeleton_get_next_imf_mask_pool : forall io f,
      exec P prog_get_next_imf_mask f (gnm_env0 V X n np io eo xo) =
      gnm_render V n (gni_mask_pool V A F vzero vadd vsub vscale vdivn cosm (gni eo xo (io_eff io)) sched X z amp n).
    Proof.
      intros io f. rewrite exec_spine.
      change (spine prog_get_next_imf_mask) with (gnm_pre ++ gnm_post)%list.
      rewrite exec_list_app, gnm_prefix. apply gnm_suffix.
    Qed.

    (* pure workers (each task is a function of its argument) and a valid schedule: the sequential model *)
    Theorem skeleton_get_next_imf_mask : forall io f nworkers,
      (forall w a, gni eo xo (io_eff io) w a = gni eo xo (io_eff io) 0%nat a) ->
      valid_schedule nworkers n sched = true ->
      exec P prog_get_next_imf_mask f (gnm_env0 V X n np io eo xo) =
      gnm_render V n (gni_mask V A F vzero vadd vsub vscale vdivn cosm (gni eo xo (io_eff io) 0%nat) X z amp n).
    Proof.
      intros io f nworkers Hpure Hv. rewrite skeleton_get_next_imf_mask_pool.
      rewrite (gni_mask_schedule_independent V A F vzero vadd vsub vscale vdivn cosm
                 (gni eo xo (io_eff io) 0%nat) (gni eo xo (io_eff io)) Hpure nworkers sched X z amp n Hv).
      reflexivity.
    Qed.
  End Fixed.
End GnmTie.

(* ============================================================================================== *)
(* 2. get_mask_freqs                                                                                *)
(* ============================================================================================== *)
Definition gmf_pre : list stmt := Eval cbv in firstn 1 (spine prog_get_mask_freqs).
Definition gmf_post : list stmt := Eval cbv in skipn 1 (spine prog_get_mask_freqs).

Section GmfTie.
  Variables V F : Type.
  Variable gni : val V -> val V -> val V -> V -> gni_result V.
  Variable zc_freq2 if_freq2 : V -> V -> F.
  Variable fvalid : F -> bool.
  Variable lt_half le_zero ge_half : F -> bool.
  Variable fv : F -> val V.
  (* the model's 0 < z < .5 is what the code tests: z < .5 and not (z <= 0 or z >= .5) *)
  Hypothesis fvalid_spec : forall z, fvalid z = lt_half z && negb (le_zero z || ge_half z).

  Local Notation P src := (gmf_prims V F gni zc_freq2 if_freq2 lt_half le_zero ge_half fv src).

  Ltac ev :=
    cbv beta iota zeta delta
        [exec final_env eval eval_truth bind map_res truthy do_cmp do_arith do_index nat_cmp nat_arith iter_list
         upd lookup env_of assign_all cmp_name ar_name frame overlay normal_env exec_list
         try_finish try_finish_env exn_matches
         gmf_prims prims_of table_lookup gmf_table float_cmp fm_val keys_are is_opaque0 opaque1
         gmf_names gmf_env0 params_get_mask_freqs gmf_pre gmf_post
         String.eqb Ascii.eqb Bool.eqb fst snd nth_error andb negb orb].

  Section Fixed.
    Variable src : freq_source F.
    Variable X : V.
    Variable eo xo : val V.

    Definition gmf_head (io' : val V) : env V :=
      env_of gmf_names
        (overlay [ ("X", VSig X); ("first_mask_mode", fm_val V F src); ("imf_opts", io');
                   ("envelope_opts", eo); ("extrema_opts", xo) ] (fun _ => None)).

    Lemma gmf_prefix : forall io f,
      exec_list (P src) gmf_pre f (gmf_env0 V F src X io eo xo) = Normal (gmf_head (io_eff io)).
    Proof. intros io f. unfold gmf_head. destruct io; ev; reflexivity. Qed.

    Lemma gmf_suffix : forall io' f, src_single F src ->
      exec_list (P src) gmf_post f (gmf_head io') =
      gmf_outcome V F lt_half fv src
        (first_freq V F (gni eo xo io') fvalid (fun p => zc_freq2 p p) (fun p => if_freq2 p p) src X).
    Proof.
      intros io' f Hs. unfold gmf_head, gmf_outcome, gmf_render, first_freq.
      destruct src as [| |z|l]; [| | |destruct Hs].
      - destruct (gni eo xo io' X) as [p fl k|k|] eqn:Eg; ev; rewrite Eg; ev; reflexivity.
      - destruct (gni eo xo io' X) as [p fl k|k|] eqn:Eg; ev; rewrite Eg; ev; reflexivity.
      - rewrite fvalid_spec.
        destruct (lt_half z) eqn:E1; destruct (le_zero z) eqn:E2; destruct (ge_half z) eqn:E3;
          ev; repeat (progress oracle_rw; ev); reflexivity.
    Qed.

    Theorem skeleton_get_mask_freqs : forall io f, src_single F src ->
      exec (P src) prog_get_mask_freqs f (gmf_env0 V F src X io eo xo) =
      gmf_outcome V F lt_half fv src
        (first_freq V F (gni eo xo (io_eff io)) fvalid (fun p => zc_freq2 p p) (fun p => if_freq2 p p) src X).
    Proof.
      intros io f Hs. rewrite exec_spine.
      change (spine prog_get_mask_freqs) with (gmf_pre ++ gmf_post)%list.
      rewrite exec_list_app, gmf_prefix. apply gmf_suffix. exact Hs.
    Qed.
  End Fixed.

  (* the finding, spelled out: a float that is not < .5 never raises the documented ValueError *)
  Theorem get_mask_freqs_not_lt_half_unbound : forall z X io eo xo f, lt_half z = false ->
    exec (P (FreqFloat F z)) prog_get_mask_freqs f (gmf_env0 V F (FreqFloat F z) X io eo xo) = Stuck /\
    first_freq V F (gni eo xo (io_eff io)) fvalid (fun p => zc_freq2 p p) (fun p => if_freq2 p p) (FreqFloat F z) X = None.
  Proof.
    intros z X io eo xo f Hz. split.
    - rewrite (skeleton_get_mask_freqs (FreqFloat F z) X eo xo io f I). unfold gmf_outcome. rewrite Hz. reflexivity.
    - unfold first_freq. rewrite fvalid_spec, Hz. reflexivity.
  Qed.
End GmfTie.

(* ============================================================================================== *)
(* 3. mask_sift, statements 0..3: the option pre-processing above the outer loop                    *)
(* ============================================================================================== *)
Section MspTie.
  Variables V F : Type.
  Variable vzero : V.
  Variable gni : val V -> val V -> val V -> V -> gni_result V.
  Variable fdiv : F -> F -> F.
  Variable fpow : F -> nat -> F.
  Variable fvalid : F -> bool.
  Variable zc_freq if_freq : V -> F.
  Variable fv : F -> val V.

  Local Notation P src s := (msp_prims V F gni fdiv fpow fvalid zc_freq if_freq fv src s).

  Ltac ev :=
    cbv beta iota zeta delta
        [exec final_env eval eval_truth bind map_res truthy do_cmp do_arith do_index nat_cmp nat_arith iter_list
         upd lookup env_of assign_all cmp_name ar_name frame overlay normal_env exec_list
         try_finish try_finish_env exn_matches
         msp_prims prims_of table_lookup msp_table keys_are is_opaque0 opaque1 len_handler
         same_src src_val z_val gmf_exn first_of sd_val amp_sd amp_mode_str
         msp_names msp_env0 msp_env1 msp_args msp_render params_mask_sift_pre prog_mask_sift_pre
         p_mask_amp p_ret_mask_freq p_sift_thresh p_nphases p_nprocesses p_verbose
         p_imf_opts p_envelope_opts p_extrema_opts
         String.eqb Ascii.eqb Bool.eqb fst snd nth_error andb negb orb].

  (* THE TIE: the region ends in the frame [msp_env1] built from the model's frequency list and cap (explicit list:
     the list itself and mask_cap; otherwise the ladder and max_imfs) and the model's initial sd, or raises what
     get_mask_freqs raised - for every source, amplitude mode, max_imfs and fuel *)
  Theorem skeleton_mask_sift_pre : forall src s mode X k o f,
    exec (P src s) prog_mask_sift_pre f (msp_env0 V F fv src mode X k o) =
    msp_render V F vzero fv src mode X o
      (mask_freqs V F (gni (p_envelope_opts V o) (p_extrema_opts V o) (io_eff (p_imf_opts V o)))
                  fdiv fpow fvalid zc_freq if_freq src s k X).
  Proof.
    intros src s mode X k o f. destruct o as [ma rmf st nph npr vb io eo xo].
    cbn [p_imf_opts p_envelope_opts p_extrema_opts]. unfold MaskSift.mask_freqs.
    destruct src as [| |z|l].
    - destruct (first_freq V F (gni eo xo (io_eff io)) fvalid zc_freq if_freq (FreqZC F) X) as [z1|] eqn:Ef;
        destruct mode; ev; repeat (progress oracle_rw; ev); reflexivity.
    - destruct (first_freq V F (gni eo xo (io_eff io)) fvalid zc_freq if_freq (FreqIF F) X) as [z1|] eqn:Ef;
        destruct mode; ev; repeat (progress oracle_rw; ev); reflexivity.
    - destruct (first_freq V F (gni eo xo (io_eff io)) fvalid zc_freq if_freq (FreqFloat F z) X) as [z1|] eqn:Ef;
        destruct mode; ev; repeat (progress oracle_rw; ev); reflexivity.
    - unfold mask_cap. rewrite <- (map_length fv l).
      destruct (Nat.ltb (Datatypes.length (map fv l)) k) eqn:El;
        destruct mode; ev; repeat (progress oracle_rw; ev); reflexivity.
  Qed.

  (* what the outer loop (props/Prop_Tie_Sift.v: skeleton_mask_sift_refines) reads from that frame *)
  Theorem mask_sift_pre_hands_over : forall src mode X freqs cap o,
    let e := msp_env1 V F vzero fv src mode X freqs cap o in
    lookup "X" e = Some (VSig X) /\
    lookup "mask_freqs" e = Some (VList (map fv freqs)) /\
    lookup "max_imfs" e = Some (VNat cap) /\
    lookup "sd" e = Some (sd_val V vzero mode X) /\
    lookup "mask_amp" e = Some (p_mask_amp V o) /\
    lookup "mask_amp_mode" e = Some (VStr (amp_mode_str mode)) /\
    lookup "imf_opts" e = Some (p_imf_opts V o) /\
    lookup "envelope_opts" e = Some (p_envelope_opts V o) /\
    lookup "extrema_opts" e = Some (p_extrema_opts V o).
  Proof.
    intros src mode X freqs cap o e. subst e. destruct o as [ma rmf st nph npr vb io eo xo].
    destruct src; destruct mode; ev; repeat split; reflexivity.
  Qed.
End MspTie.
