(* Facts about model/SiftCore.v and model/Toys.v (properties C01, C03, C04). *)
From Coq Require Import ZArith QArith List Bool Lia Arith.
From EmdV Require Import lib.NpLite model.Extrema model.SiftCore model.Toys proofs.ExtremaFacts.
Import ListNotations.

(* ---- helpers on the stopping method ------------------------------------------------------- *)
Lemma method_dec : forall m : stop_method, m = Fixed \/ m <> Fixed.
Proof. intros m; destruct m; [right; discriminate|right; discriminate|left; reflexivity]. Qed.

Lemma is_fixed_true_iff : forall m, is_fixed m = true <-> m = Fixed.
Proof. intros m; destruct m; cbn; split; congruence. Qed.

Lemma is_fixed_false_iff : forall m, is_fixed m = false <-> m <> Fixed.
Proof. intros m; destruct m; cbn; split; congruence. Qed.

Section ExtractionFacts.
  Variable V : Type.
  Variable vsub : V -> V -> V.
  Variable vstep : V -> V.
  Variable vavg : V -> V -> V.
  Variable envs : V -> option (V * V).
  Variable stop_sd stop_ril : V -> V -> bool.
  Variable energy_fires : V -> V -> bool.
  Variable method : stop_method.
  Variable max_iters : nat.
  Variable use_energy : bool.

  Local Notation loopg := (gni_loop V vsub vstep vavg envs stop_sd stop_ril method max_iters).
  Local Notation loop := (gni_loop V vsub vstep vavg envs stop_sd stop_ril method max_iters false (max_iters + 2) 0).
  Local Notation iter := (iterate V vsub vstep vavg envs).
  Local Notation fires := (fires_at V vsub vavg envs stop_sd stop_ril method max_iters).
  Local Notation unfired := (unfired_upto V vsub vstep vavg envs stop_sd stop_ril method max_iters).
  Local Notation sfires := (stop_fires V stop_sd stop_ril method max_iters).
  Local Notation in_range := (method = Fixed -> (1 <= max_iters)%nat).

  Lemma ltb_flag : forall k, (1 <? S k)%nat = (0 <? k)%nat.
  Proof. intros k. reflexivity. Qed.

  Lemma unfired_weaken : forall k j X, (j <= k)%nat -> unfired k X -> unfired j X.
  Proof. intros k j X Hjk Hu i Hi. apply Hu. lia. Qed.

  Lemma unfired_0 : forall X, unfired 0 X.
  Proof. intros X j Hj. lia. Qed.

  Lemma unfired_step : forall k X x u l, unfired k X -> iter k X = Some x -> envs x = Some (u, l) ->
    fires k x = false -> unfired (S k) X.
  Proof.
    intros k X x u l Hu Hi He Hf j Hj.
    destruct (Nat.eq_dec j k) as [->|Hne].
    - exists x, u, l. auto.
    - apply Hu. lia.
  Qed.

  Lemma iterate_S : forall k X x u l, iter k X = Some x -> envs x = Some (u, l) ->
    iter (S k) X = Some (vsub x (vstep (vavg u l))).
  Proof. intros k X x u l Hi He. cbn [iterate]. rewrite Hi, He. reflexivity. Qed.

  Lemma iterate_S_inv : forall k X y, iter (S k) X = Some y ->
    exists x u l, iter k X = Some x /\ envs x = Some (u, l) /\ y = vsub x (vstep (vavg u l)).
  Proof.
    intros k X y H. cbn [iterate] in H.
    destruct (iter k X) as [x|] eqn:Hi; [|discriminate].
    destruct (envs x) as [[u l]|] eqn:He; [|discriminate].
    exists x, u, l. inversion H. auto.
  Qed.

  Lemma iterate_prefix : forall k X y, iter k X = Some y -> forall j, (j < k)%nat ->
    exists x u l, iter j X = Some x /\ envs x = Some (u, l).
  Proof.
    induction k as [|k IH]; intros X y H j Hj; [lia|].
    destruct (iterate_S_inv k X y H) as (x & u & l & Hi & He & _).
    destruct (Nat.eq_dec j k) as [->|Hne].
    - exists x, u, l. auto.
    - apply (IH X x Hi). lia.
  Qed.

  (* the generalised loop invariant *)
  Lemma loop_inv : forall v0 fuel k x X,
    iter k X = Some x -> unfired k X ->
    (max_iters + 2 <= fuel + k)%nat ->
    (method = Fixed -> (k < max_iters)%nat) ->
    (method <> Fixed -> (k <= max_iters + 1)%nat) ->
    (exists k' x' u l, iter k' X = Some x' /\ envs x' = Some (u, l) /\ unfired k' X /\ fires k' x' = true /\
        (method <> Fixed -> (k' <= max_iters)%nat) /\ (method = Fixed -> S k' = max_iters) /\
        loopg v0 fuel k x = Imf (vsub x' (vavg u l)) true (S k'))
    \/ (exists k' x', iter k' X = Some x' /\ envs x' = None /\ unfired k' X /\
         (method <> Fixed -> (k' <= max_iters)%nat) /\ (method = Fixed -> (k' < max_iters)%nat) /\
         loopg v0 fuel k x = Imf x' (if v0 then false else (0 <? k')%nat) (S k'))
    \/ (method <> Fixed /\ unfired (S max_iters) X /\ loopg v0 fuel k x = ConvergeError (S max_iters)).
  Proof.
    intros v0. induction fuel as [|f IH]; intros k x X Hi Hu Hfuel HbF HbN.
    - exfalso. destruct (method_dec method) as [Hf|Hn]; [specialize (HbF Hf)|specialize (HbN Hn)]; lia.
    - cbn [gni_loop].
      destruct (negb (is_fixed method) && (max_iters <? k)%nat) eqn:Ec.
      + apply andb_true_iff in Ec. destruct Ec as [Ec1 Ec2].
        apply negb_true_iff in Ec1. apply is_fixed_false_iff in Ec1.
        apply Nat.ltb_lt in Ec2. specialize (HbN Ec1).
        assert (k = S max_iters) as -> by lia.
        right. right. auto.
      + assert (HkN : method <> Fixed -> (k <= max_iters)%nat).
        { intros Hn. apply andb_false_iff in Ec. destruct Ec as [Ec|Ec].
          - apply negb_false_iff in Ec. apply is_fixed_true_iff in Ec. contradiction.
          - apply Nat.ltb_ge in Ec. exact Ec. }
        destruct (envs x) as [[u l]|] eqn:Ee.
        * destruct (sfires (S k) x (vsub x (vavg u l)) u l) eqn:Es.
          -- left. exists k, x, u, l. repeat split; auto.
             ++ unfold fires_at. rewrite Ee. exact Es.
             ++ intros Hf. unfold stop_fires in Es. rewrite Hf in Es. apply Nat.eqb_eq in Es. exact Es.
          -- apply IH.
             ++ apply iterate_S; assumption.
             ++ apply (unfired_step k X x u l); auto. unfold fires_at. rewrite Ee. exact Es.
             ++ lia.
             ++ intros Hf. specialize (HbF Hf). unfold stop_fires in Es. rewrite Hf in Es.
                apply Nat.eqb_neq in Es. lia.
             ++ intros Hn. specialize (HkN Hn). lia.
        * right. left. exists k, x. repeat split; auto.
  Qed.

  Lemma run_forward : forall v0 F X k x,
    iter k X = Some x -> unfired k X ->
    (method <> Fixed -> (k <= max_iters + 1)%nat) -> (k <= F)%nat ->
    loopg v0 F 0 X = loopg v0 (F - k) k x.
  Proof.
    intros v0 F X. induction k as [|k IH]; intros x Hi Hu Hb HF.
    - cbn in Hi. inversion Hi; subst. rewrite Nat.sub_0_r. reflexivity.
    - destruct (Hu k (Nat.lt_succ_diag_r k)) as (xk & u & l & Hik & Hek & Hfk).
      cbn [iterate] in Hi. rewrite Hik, Hek in Hi. inversion Hi; subst x. clear Hi.
      rewrite (IH xk Hik); [| apply (unfired_weaken (S k)); auto | intros Hn; specialize (Hb Hn); lia | lia].
      replace (F - k)%nat with (S (F - S k)) by lia.
      cbn [gni_loop].
      assert (negb (is_fixed method) && (max_iters <? k)%nat = false) as ->.
      { destruct (method_dec method) as [Hf|Hn].
        - apply is_fixed_true_iff in Hf. rewrite Hf. reflexivity.
        - specialize (Hb Hn). apply andb_false_intro2. apply Nat.ltb_ge. lia. }
      rewrite Hek. unfold fires_at in Hfk. rewrite Hek in Hfk. rewrite Hfk. reflexivity.
  Qed.

  Lemma gni_cases_strong : forall v0 X, in_range ->
    (exists k x u l, iter k X = Some x /\ envs x = Some (u, l) /\ unfired k X /\ fires k x = true /\
        (method <> Fixed -> (k <= max_iters)%nat) /\ (method = Fixed -> S k = max_iters) /\
        loopg v0 (max_iters + 2) 0 X = Imf (vsub x (vavg u l)) true (S k))
    \/ (exists k x, iter k X = Some x /\ envs x = None /\ unfired k X /\
         (method <> Fixed -> (k <= max_iters)%nat) /\ (method = Fixed -> (k < max_iters)%nat) /\
         loopg v0 (max_iters + 2) 0 X = Imf x (if v0 then false else (0 <? k)%nat) (S k))
    \/ (method <> Fixed /\ unfired (S max_iters) X /\ loopg v0 (max_iters + 2) 0 X = ConvergeError (S max_iters)).
  Proof.
    intros v0 X Hr. apply loop_inv.
    - reflexivity.
    - apply unfired_0.
    - lia.
    - intros Hf. specialize (Hr Hf). lia.
    - intros _. lia.
  Qed.

  Lemma gni_result_cases : forall X, in_range ->
    (exists k x u l, iter k X = Some x /\ envs x = Some (u, l) /\ unfired k X /\ fires k x = true /\
                     (method <> Fixed -> (k <= max_iters)%nat) /\
                     loop X = Imf (vsub x (vavg u l)) true (S k))
    \/ (exists k x, iter k X = Some x /\ envs x = None /\ unfired k X /\
                    (method <> Fixed -> (k <= max_iters)%nat) /\
                    loop X = Imf x (0 <? k)%nat (S k))
    \/ (method <> Fixed /\ unfired (S max_iters) X /\ loop X = ConvergeError (S max_iters)).
  Proof.
    intros X Hr.
    destruct (gni_cases_strong false X Hr) as [(k & x & u & l & H1 & H2 & H3 & H4 & H5 & _ & H7)
                                        |[(k & x & H1 & H2 & H3 & H4 & _ & H6)|H]].
    - left. exists k, x, u, l. auto 10.
    - right. left. exists k, x. auto 10.
    - right. right. exact H.
  Qed.

  Lemma gni_never_out_of_fuel : forall X, in_range -> loop X <> GniOutOfFuel.
  Proof.
    intros X Hr.
    destruct (gni_result_cases X Hr) as [(k & x & u & l & _ & _ & _ & _ & _ & H)
                                        |[(k & x & _ & _ & _ & _ & H)|(_ & _ & H)]]; rewrite H; discriminate.
  Qed.

  Lemma gni_iteration_bound : forall X p f n, in_range ->
    loop X = Imf p f n -> (n <= max_iters + 1)%nat /\ (method = Fixed -> (n <= max_iters)%nat).
  Proof.
    intros X p f n Hr HL.
    destruct (gni_cases_strong false X Hr) as [(k & x & u & l & H1 & H2 & H3 & H4 & H5 & H6 & H7)
                                        |[(k & x & H1 & H2 & H3 & H4 & H5 & H6)|(_ & _ & H)]];
      [rewrite H7 in HL | rewrite H6 in HL | rewrite H in HL; discriminate];
      inversion HL; subst; clear HL.
    - destruct (method_dec method) as [Hf|Hn].
      + specialize (H6 Hf). split; [lia|intros _; lia].
      + specialize (H5 Hn). split; [lia|intros Hf; contradiction].
    - destruct (method_dec method) as [Hf|Hn].
      + specialize (H5 Hf). split; [lia|intros _; lia].
      + specialize (H4 Hn). split; [lia|intros Hf; contradiction].
  Qed.

  Lemma gni_first_stop : forall X k x u l, method <> Fixed -> (k <= max_iters)%nat ->
    iter k X = Some x -> envs x = Some (u, l) -> unfired k X -> fires k x = true ->
    loop X = Imf (vsub x (vavg u l)) true (S k).
  Proof.
    intros X k x u l Hn Hk Hi He Hu Hf.
    rewrite (run_forward false (max_iters + 2) X k x Hi Hu); [|intros _; lia|lia].
    replace (max_iters + 2 - k)%nat with (S (max_iters + 1 - k)) by lia.
    cbn [gni_loop].
    assert (negb (is_fixed method) && (max_iters <? k)%nat = false) as ->.
    { apply andb_false_intro2. apply Nat.ltb_ge. lia. }
    rewrite He. unfold fires_at in Hf. rewrite He in Hf. rewrite Hf. reflexivity.
  Qed.

  Lemma gni_fixed_count : forall X x u l, method = Fixed -> (1 <= max_iters)%nat ->
    iter (max_iters - 1) X = Some x -> envs x = Some (u, l) ->
    loop X = Imf (vsub x (vavg u l)) true max_iters.
  Proof.
    intros X x u l Hf Hm Hi He.
    assert (Hu : unfired (max_iters - 1) X).
    { intros j Hj. destruct (iterate_prefix _ _ _ Hi j Hj) as (xj & uj & lj & Hij & Hej).
      exists xj, uj, lj. repeat split; auto.
      unfold fires_at. rewrite Hej. unfold stop_fires. rewrite Hf. apply Nat.eqb_neq. lia. }
    rewrite (run_forward false (max_iters + 2) X _ x Hi Hu); [|intros Hn; contradiction|lia].
    replace (max_iters + 2 - (max_iters - 1))%nat with 3%nat by lia.
    cbn [gni_loop].
    assert (is_fixed method = true) as -> by (apply is_fixed_true_iff; exact Hf).
    cbn [negb andb]. rewrite He. unfold stop_fires. rewrite Hf.
    replace (S (max_iters - 1)) with max_iters by lia.
    rewrite Nat.eqb_refl. reflexivity.
  Qed.

  Lemma gni_first_without_envelopes : forall X k x, (method <> Fixed -> (k <= max_iters)%nat) ->
    (method = Fixed -> (k < max_iters)%nat) ->
    iter k X = Some x -> envs x = None -> unfired k X ->
    loop X = Imf x (0 <? k)%nat (S k).
  Proof.
    intros X k x HbN HbF Hi He Hu.
    assert (Hk : (k <= max_iters)%nat).
    { destruct (method_dec method) as [Hf|Hn]; [specialize (HbF Hf)|specialize (HbN Hn)]; lia. }
    rewrite (run_forward false (max_iters + 2) X k x Hi Hu); [|intros _; lia|lia].
    replace (max_iters + 2 - k)%nat with (S (max_iters + 1 - k)) by lia.
    cbn [gni_loop].
    assert (negb (is_fixed method) && (max_iters <? k)%nat = false) as ->.
    { apply andb_false_intro2. apply Nat.ltb_ge. lia. }
    rewrite He. reflexivity.
  Qed.

  Lemma gni_final_iff_input_has_no_envelopes : forall X p n, in_range ->
    (loop X = Imf p false n <-> envs X = None /\ p = X /\ n = 1%nat).
  Proof.
    intros X p n Hr. split.
    - intros HL.
      destruct (gni_cases_strong false X Hr) as [(k & x & u & l & H1 & H2 & H3 & H4 & H5 & H6 & H7)
                                        |[(k & x & H1 & H2 & H3 & H4 & H5 & H6)|(_ & _ & H)]];
        [rewrite H7 in HL; discriminate | rewrite H6 in HL | rewrite H in HL; discriminate].
      inversion HL as [[Hp Hflag Hn]]. 
      destruct k as [|k]; [|discriminate Hflag].
      cbn in H1. inversion H1; subst. auto.
    - intros (He & -> & ->).
      apply (gni_first_without_envelopes X 0 X); auto.
      + intros _; lia.
      + apply unfired_0.
  Qed.

  Lemma gni_converge_error_iff : forall X n, in_range ->
    (loop X = ConvergeError n <-> method <> Fixed /\ n = S max_iters /\ unfired (S max_iters) X).
  Proof.
    intros X n Hr. split.
    - intros HL.
      destruct (gni_cases_strong false X Hr) as [(k & x & u & l & H1 & H2 & H3 & H4 & H5 & H6 & H7)
                                        |[(k & x & H1 & H2 & H3 & H4 & H5 & H6)|(Hn & Hu & H)]];
        [rewrite H7 in HL; discriminate | rewrite H6 in HL; discriminate | rewrite H in HL].
      inversion HL; subst. auto.
    - intros (Hn & -> & Hu).
      destruct (Hu max_iters (Nat.lt_succ_diag_r _)) as (xm & u & l & Him & Hem & _).
      pose proof (iterate_S _ _ _ _ _ Him Hem) as HiS.
      rewrite (run_forward false (max_iters + 2) X _ _ HiS Hu); [|intros _; lia|lia].
      replace (max_iters + 2 - S max_iters)%nat with 1%nat by lia.
      cbn [gni_loop].
      assert (negb (is_fixed method) && (max_iters <? S max_iters)%nat = true) as ->.
      { apply andb_true_iff. split.
        - apply negb_true_iff. apply is_fixed_false_iff. exact Hn.
        - apply Nat.ltb_lt. lia. }
      reflexivity.
  Qed.

  Lemma gni_no_unconverged_return : forall X p f n, in_range -> loop X = Imf p f n ->
    exists x, iter (n - 1) X = Some x /\ (1 <= n)%nat /\
      ((exists u l, envs x = Some (u, l) /\ fires (n - 1) x = true /\ p = vsub x (vavg u l)) \/
       (envs x = None /\ p = x)).
  Proof.
    intros X p f n Hr HL.
    destruct (gni_cases_strong false X Hr) as [(k & x & u & l & H1 & H2 & H3 & H4 & H5 & H6 & H7)
                                        |[(k & x & H1 & H2 & H3 & H4 & H5 & H6)|(_ & _ & H)]];
      [rewrite H7 in HL | rewrite H6 in HL | rewrite H in HL; discriminate];
      inversion HL as [[Hp Hfl Hn]]; clear HL; exists x;
      replace (S k - 1)%nat with k by lia; (split; [assumption|split; [lia|]]).
    - left. exists u, l. auto.
    - right. auto.
  Qed.

  Local Notation gni := (get_next_imf V vsub vstep vavg envs stop_sd stop_ril energy_fires method max_iters use_energy).

  Lemma energy_only_clears_flag : forall X p f n,
    gni X = Imf p f n ->
    exists f0, loop X = Imf p f0 n /\ (f = true -> f0 = true) /\ (use_energy = false -> f = f0) /\
               (f0 = true -> f = false -> energy_fires X (vsub X p) = true).
  Proof.
    intros X p f n H. unfold get_next_imf, get_next_imf_gen in H.
    destruct (loop X) as [p0 f0 n0| |] eqn:EL; try discriminate.
    inversion H; subst; clear H. exists f0. split; [reflexivity|].
    destruct f0, use_energy, (energy_fires X (vsub X p)); cbn; repeat split; congruence.
  Qed.

  (* the extraction contract *)
  Lemma gni_flag_contract : forall X p n, in_range ->
    get_next_imf V vsub vstep vavg envs stop_sd stop_ril energy_fires method max_iters false X = Imf p false n ->
    p = X /\ envs X = None.
  Proof.
    intros X p n Hr H. unfold get_next_imf, get_next_imf_gen in H.
    destruct (loop X) as [p0 f0 n0| |] eqn:EL; try discriminate.
    cbn [andb negb] in H. rewrite andb_true_r in H. inversion H; subst; clear H.
    apply (gni_final_iff_input_has_no_envelopes X p n Hr) in EL. tauto.
  Qed.

  Lemma gni_flag_contract_energy : forall X p n, in_range ->
    get_next_imf V vsub vstep vavg envs stop_sd stop_ril energy_fires method max_iters true X = Imf p false n ->
    (p = X /\ envs X = None) \/ energy_fires X (vsub X p) = true.
  Proof.
    intros X p n Hr H. unfold get_next_imf, get_next_imf_gen in H.
    destruct (loop X) as [p0 f0 n0| |] eqn:EL; try discriminate.
    cbn [andb] in H. inversion H as [[Hp Hflag Hn]]. subst p0 n0.
    destruct f0.
    - right. cbn [andb] in Hflag. apply negb_false_iff in Hflag. exact Hflag.
    - left. apply (gni_final_iff_input_has_no_envelopes X p n Hr) in EL. tauto.
  Qed.

  (* a property preserved by both updates holds of whatever comes back *)
  Lemma gni_loop_preserves : forall (P : V -> Prop) v0,
    (forall x u l, P x -> envs x = Some (u, l) -> P (vsub x (vavg u l)) /\ P (vsub x (vstep (vavg u l)))) ->
    forall fuel k x p f n, P x -> loopg v0 fuel k x = Imf p f n -> P p.
  Proof.
    intros P v0 HP. induction fuel as [|fu IH]; intros k x p f n Hx H.
    - discriminate.
    - cbn [gni_loop] in H.
      destruct (negb (is_fixed method) && (max_iters <? k)%nat); [discriminate|].
      destruct (envs x) as [[u l]|] eqn:Ee.
      + destruct (HP x u l Hx Ee) as [HP1 HP2].
        destruct (sfires (S k) x (vsub x (vavg u l)) u l).
        * inversion H; subst. exact HP1.
        * apply (IH _ _ _ _ _ HP2 H).
      + inversion H; subst. exact Hx.
  Qed.

  Lemma gni_gen_preserves : forall (P : V -> Prop) v0,
    (forall x u l, P x -> envs x = Some (u, l) -> P (vsub x (vavg u l)) /\ P (vsub x (vstep (vavg u l)))) ->
    forall X p f n, P X ->
      get_next_imf_gen V vsub vstep vavg envs stop_sd stop_ril energy_fires method max_iters use_energy v0 X = Imf p f n -> P p.
  Proof.
    intros P v0 HP X p f n HX H. unfold get_next_imf_gen in H.
    destruct (loopg v0 (max_iters + 2)%nat 0%nat X) as [p0 f0 n0| |] eqn:EL; try discriminate.
    inversion H; subst. apply (gni_loop_preserves P v0 HP _ _ _ _ _ _ HX EL).
  Qed.
End ExtractionFacts.

(* ---- the outer loop ----------------------------------------------------------------------- *)
Section PeelFacts.
  Variable V : Type.
  Variable wf : V -> Prop.
  Variable vzero : V.
  Variable vadd vsub : V -> V -> V.
  Variable small : V -> bool.
  Variable extract : nat -> list V -> V -> gni_result V.

  Hypothesis wf_zero : wf vzero.
  Hypothesis wf_add : forall a b, wf a -> wf b -> wf (vadd a b).
  Hypothesis wf_sub : forall a b, wf a -> wf b -> wf (vsub a b).
  Hypothesis add_zero_l : forall a, wf a -> vadd vzero a = a.
  Hypothesis add_sub_cancel : forall a b, wf a -> wf b -> vadd b (vsub a b) = a.
  Hypothesis extract_wf : forall n acc r p f k, wf r -> extract n acc r = Imf p f k -> wf p.

  Local Notation vsum := (vsum V vzero vadd).
  Local Notation residual := (residual V vzero vadd vsub).
  Local Notation peel := (peel_loop V vzero vadd vsub small extract).

  (* how the loop can end, with an arbitrary invariant on the accumulator *)
  Lemma peel_cases : forall (Inv : list V -> Prop) cap X,
    (forall acc nxt flag n, Inv acc -> extract (length acc) acc (residual X acc) = Imf nxt flag n ->
                            Inv (acc ++ [nxt])) ->
    forall fuel acc imfs e, Inv acc -> peel fuel cap X acc = (imfs, e) ->
    (exists init nxt flag n, Inv init /\ imfs = init ++ [nxt] /\
        extract (length init) init (residual X init) = Imf nxt flag n /\
        cap_hit e = match cap with Some k => Nat.eqb (length imfs) k | None => false end /\
        small_hit e = small nxt /\ flag_stop e = negb flag /\ raised e = false /\ out_of_fuel e = false /\
        cap_hit e || small_hit e || flag_stop e = true)
    \/ (Inv imfs /\ cap_hit e = false /\ small_hit e = false /\ flag_stop e = false /\
        (raised e = true \/ out_of_fuel e = true)).
  Proof.
    intros Inv cap X Hstep. induction fuel as [|f IH]; intros acc imfs e Hacc H.
    - cbn [peel_loop] in H. inversion H; subst; clear H. right. cbn. auto 10.
    - cbn [peel_loop] in H.
      destruct (extract (length acc) acc (residual X acc)) as [nxt flag n| |] eqn:Ee.
      + destruct ((match cap with Some k => Nat.eqb (length (acc ++ [nxt])) k | None => false end)
                  || small nxt || negb flag) eqn:Eb.
        * inversion H; subst; clear H. left. exists acc, nxt, flag, n. cbn. auto 12.
        * apply (IH (acc ++ [nxt])); [|exact H]. apply (Hstep acc nxt flag n Hacc Ee).
      + inversion H; subst; clear H. right. cbn. auto 10.
      + inversion H; subst; clear H. right. cbn. auto 10.
  Qed.

  Lemma peel_inv : forall (Inv : list V -> Prop) cap X,
    (forall acc nxt flag n, Inv acc -> extract (length acc) acc (residual X acc) = Imf nxt flag n ->
                            Inv (acc ++ [nxt])) ->
    forall fuel acc imfs e, Inv acc -> peel fuel cap X acc = (imfs, e) -> Inv imfs.
  Proof.
    intros Inv cap X Hstep fuel acc imfs e Hacc H.
    destruct (peel_cases Inv cap X Hstep fuel acc imfs e Hacc H)
      as [(init & nxt & flag & n & Hi & -> & He & _)|(Hi & _)].
    - apply (Hstep init nxt flag n Hi He).
    - exact Hi.
  Qed.

  Lemma sift_residual_inv : forall fuel cap X imfs e k,
    peel fuel cap X [] = (imfs, e) -> (k < length imfs)%nat ->
    exists f n, extract k (firstn k imfs) (residual X (firstn k imfs)) = Imf (nth k imfs vzero) f n.
  Proof.
    intros fuel cap X imfs e k H.
    revert k.
    apply (peel_inv (fun acc => forall k, (k < length acc)%nat ->
             exists f n, extract k (firstn k acc) (residual X (firstn k acc)) = Imf (nth k acc vzero) f n)
             cap X) with (fuel := fuel) (acc := @nil V) (e := e); [| |exact H].
    - intros acc nxt flag n Hacc He k Hk. rewrite app_length in Hk. cbn [length] in Hk.
      destruct (Nat.eq_dec k (length acc)) as [->|Hne].
      + rewrite firstn_app, firstn_all, Nat.sub_diag. cbn [firstn]. rewrite app_nil_r.
        rewrite app_nth2 by lia. rewrite Nat.sub_diag. cbn [nth]. exists flag, n. exact He.
      + assert (Hlt : (k < length acc)%nat) by lia.
        rewrite firstn_app. replace (k - length acc)%nat with 0%nat by lia. cbn [firstn]. rewrite app_nil_r.
        rewrite app_nth1 by exact Hlt. apply Hacc. exact Hlt.
    - intros k Hk. cbn in Hk. lia.
  Qed.

  (* the loop ends with a cleared flag only right after an extraction that cleared it *)
  Lemma sift_last_extract : forall fuel cap X imfs e,
    peel fuel cap X [] = (imfs, e) -> flag_stop e = true ->
    exists init p n, imfs = init ++ [p] /\ extract (length init) init (residual X init) = Imf p false n.
  Proof.
    intros fuel cap X imfs e H Hfl.
    destruct (peel_cases (fun _ => True) cap X (fun _ _ _ _ _ _ => I) fuel [] imfs e I H)
      as [(init & nxt & flag & n & _ & -> & He & _ & _ & Hf & _)|(_ & _ & _ & Hf & _)].
    - rewrite Hfl in Hf. destruct flag; [discriminate|]. exists init, nxt, n. auto.
    - rewrite Hfl in Hf. discriminate.
  Qed.

  Lemma sift_last_is_residual : forall fuel cap X imfs e,
    (forall n acc r p k, extract n acc r = Imf p false k -> p = r) ->
    peel fuel cap X [] = (imfs, e) -> flag_stop e = true ->
    exists init p, imfs = init ++ [p] /\ p = residual X init.
  Proof.
    intros fuel cap X imfs e Hc H Hfl.
    destruct (sift_last_extract fuel cap X imfs e H Hfl) as (init & p & n & -> & He).
    exists init, p. split; [reflexivity|]. apply (Hc _ _ _ _ _ He).
  Qed.

  Lemma sift_exit_reasons : forall fuel cap X imfs e,
    peel fuel cap X [] = (imfs, e) ->
    out_of_fuel e = false -> raised e = false ->
    cap_hit e = true \/ small_hit e = true \/ flag_stop e = true.
  Proof.
    intros fuel cap X imfs e H Ho Hr.
    destruct (peel_cases (fun _ => True) cap X (fun _ _ _ _ _ _ => I) fuel [] imfs e I H)
      as [(init & nxt & flag & n & _ & _ & _ & _ & _ & _ & _ & _ & Hb)|(_ & _ & _ & _ & [Hx|Hx])].
    - apply orb_true_iff in Hb. destruct Hb as [Hb|Hb]; [|auto].
      apply orb_true_iff in Hb. destruct Hb as [Hb|Hb]; auto.
    - congruence.
    - congruence.
  Qed.

  Lemma sift_cap_hit_only_with_cap : forall fuel X imfs e,
    peel fuel None X [] = (imfs, e) -> cap_hit e = false.
  Proof.
    intros fuel X imfs e H.
    destruct (peel_cases (fun _ => True) None X (fun _ _ _ _ _ _ => I) fuel [] imfs e I H)
      as [(init & nxt & flag & n & _ & _ & _ & Hc & _)|(_ & Hc & _)]; exact Hc.
  Qed.

  Lemma wf_fold : forall l a, wf a -> Forall wf l -> wf (fold_left vadd l a).
  Proof.
    induction l as [|x l IH]; intros a Ha Hl; cbn [fold_left]; [exact Ha|].
    inversion Hl; subst. apply IH; auto.
  Qed.

  Lemma wf_vsum : forall l, Forall wf l -> wf (vsum l).
  Proof. intros l Hl. unfold SiftCore.vsum. apply wf_fold; auto. Qed.

  Lemma wf_residual : forall X acc, wf X -> Forall wf acc -> wf (residual X acc).
  Proof.
    intros X acc HX Hacc. unfold SiftCore.residual. destruct acc as [|a t]; [exact HX|].
    apply wf_sub; [exact HX|]. apply wf_vsum. exact Hacc.
  Qed.

  Lemma sift_complete : forall fuel cap X imfs e, wf X ->
    (forall n acc r p k, extract n acc r = Imf p false k -> p = r) ->
    peel fuel cap X [] = (imfs, e) -> flag_stop e = true ->
    vsum imfs = X.
  Proof.
    intros fuel cap X imfs e HX Hc H Hfl.
    assert (Hstep : forall acc nxt flag n, Forall wf acc ->
               extract (length acc) acc (residual X acc) = Imf nxt flag n -> Forall wf (acc ++ [nxt])).
    { intros acc nxt flag n Hacc He. apply Forall_app. split; [exact Hacc|].
      constructor; [|constructor]. apply (extract_wf _ _ _ _ _ _ (wf_residual X acc HX Hacc) He). }
    destruct (peel_cases (Forall wf) cap X Hstep fuel [] imfs e (Forall_nil _) H)
      as [(init & nxt & flag & n & Hi & -> & He & _ & _ & Hf & _)|(_ & _ & _ & Hf & _)].
    - rewrite Hfl in Hf. destruct flag; [discriminate|].
      apply Hc in He. subst nxt.
      unfold SiftCore.vsum. rewrite fold_left_app. cbn [fold_left].
      change (fold_left vadd init vzero) with (vsum init).
      destruct init as [|a t].
      + cbn. apply add_zero_l. exact HX.
      + cbn [SiftCore.residual]. apply add_sub_cancel; [exact HX|]. apply wf_vsum. exact Hi.
    - rewrite Hfl in Hf. discriminate.
  Qed.
End PeelFacts.

(* ---- the integer-list instance --------------------------------------------------------------- *)
Open Scope Z_scope.

Lemma zip_with_length : forall f a b, length (zip_with f a b) = Nat.min (length a) (length b).
Proof.
  intros f. induction a as [|x a IH]; intros b; [reflexivity|].
  destruct b as [|y b]; [reflexivity|]. cbn [zip_with length Nat.min]. rewrite IH. reflexivity.
Qed.

Lemma vadd_zero_l : forall a, Toys.vadd (Toys.vzero (length a)) a = a.
Proof.
  induction a as [|x a IH]; [reflexivity|].
  unfold Toys.vadd, Toys.vzero in *. cbn [length repeat zip_with]. rewrite IH. reflexivity.
Qed.

Lemma vadd_vsub_cancel : forall a b, length a = length b -> Toys.vadd b (Toys.vsub a b) = a.
Proof.
  unfold Toys.vadd, Toys.vsub.
  induction a as [|x a IH]; intros b Hl; destruct b as [|y b]; try discriminate; [reflexivity|].
  cbn [zip_with]. cbn [length] in Hl. rewrite IH by lia. f_equal. lia.
Qed.

Lemma zvec_group_laws : forall N (a b : list Z), length a = N -> length b = N ->
  length (Toys.vadd a b) = N /\ length (Toys.vsub a b) = N /\
  Toys.vadd (Toys.vzero N) a = a /\ Toys.vadd b (Toys.vsub a b) = a.
Proof.
  intros N a b Ha Hb. unfold Toys.vadd at 1, Toys.vsub at 1. rewrite !zip_with_length.
  rewrite Ha, Hb, Nat.min_id. repeat split.
  - rewrite <- Ha. apply vadd_zero_l.
  - apply vadd_vsub_cancel. lia.
Qed.

Lemma toy_envs_length : forall r x u l, toy_envs r x = Some (u, l) ->
  length u = length x /\ length l = length x.
Proof.
  intros r x u l H. unfold toy_envs in H.
  destruct ((nmaxima x <? 2)%nat || (nminima x <? 2)%nat); [discriminate|].
  inversion H; subst. unfold toy_mean. rewrite !map_length, seq_length. auto.
Qed.

Lemma toy_gni_preserves_length : forall c v0 X p f n,
  toy_gni c v0 X = Imf p f n -> length p = length X.
Proof.
  intros c v0 X p f n H. unfold toy_gni in H.
  refine (gni_gen_preserves _ _ _ _ _ _ _ _ _ _ _ (fun v => length v = length X) v0 _ X p f n eq_refl H).
  intros x u l Hx He. apply toy_envs_length in He. destruct He as [Hu Hl].
  unfold Toys.vsub, Toys.vavg, vscale. rewrite !zip_with_length, map_length, zip_with_length.
  rewrite Hu, Hl, Hx. rewrite !Nat.min_id. auto.
Qed.

Lemma toy_sift_complete : forall c fuel X imfs e,
  cg c 5 <> 1 -> (cg c 1 <> 0 -> cg c 1 <> 1 -> 1 <= cg c 2) ->
  toy_sift c false fuel X = (imfs, e) -> flag_stop e = true ->
  vsum (list Z) (Toys.vzero (length X)) Toys.vadd imfs = X /\
  exists init p, imfs = init ++ [p] /\ ((nmaxima p < 2)%nat \/ (nminima p < 2)%nat).
Proof.
  intros c fuel X imfs e H5 Hr H Hfl. unfold toy_sift in H.
  assert (Hcontract : forall r p k, toy_gni c false r = Imf p false k -> p = r /\ toy_envs (cg c 0) r = None).
  { intros r p k Hg. unfold toy_gni in Hg.
    assert ((cg c 5 =? 1) = false) as E5 by (apply Z.eqb_neq; exact H5).
    rewrite E5 in Hg.
    refine (gni_flag_contract _ _ _ _ _ _ _ _ _ _ r p k _ Hg).
    intros Hm. unfold method_of in Hm.
    destruct (Z.eqb_spec (cg c 1) 0) as [|H0]; [discriminate|].
    destruct (Z.eqb_spec (cg c 1) 1) as [|H1]; [discriminate|].
    specialize (Hr H0 H1). lia. }
  split.
  - refine (sift_complete (list Z) (fun v => length v = length X) _ _ _ _ _ _ _ _ _ _ _ fuel _ X imfs e eq_refl _ H Hfl).
    + unfold Toys.vzero. apply repeat_length.
    + intros a b Ha Hb. apply (zvec_group_laws (length X) a b Ha Hb).
    + intros a b Ha Hb. apply (zvec_group_laws (length X) a b Ha Hb).
    + intros a Ha. apply (zvec_group_laws (length X) a a Ha Ha).
    + intros a b Ha Hb. apply (zvec_group_laws (length X) a b Ha Hb).
    + intros n acc r p f k Hrl Hg. rewrite (toy_gni_preserves_length _ _ _ _ _ _ Hg). exact Hrl.
    + intros n acc r p k Hg. apply (Hcontract r p k Hg).
  - destruct (sift_last_extract _ _ _ _ _ _ _ _ _ _ _ H Hfl) as (init & p & n & -> & He).
    exists init, p. split; [reflexivity|].
    destruct (Hcontract _ _ _ He) as [Hp Hn]. rewrite <- Hp in Hn.
    unfold toy_envs in Hn.
    destruct ((nmaxima p <? 2)%nat || (nminima p <? 2)%nat) eqn:Eb; [|discriminate].
    apply orb_true_iff in Eb. destruct Eb as [Eb|Eb]; apply Nat.ltb_lt in Eb; auto.
Qed.

Lemma no_envelope_iff_few_extrema : forall x p m,
  get_padded_extrema x p m = NoExtrema <-> (length (fst (extrema m x)) <= 1)%nat.
Proof. exact ExtremaFacts.no_extrema_iff. Qed.

(* ---- the concrete stopping rules ------------------------------------------------------------- *)
Lemma sumsq_nonneg : forall v, 0 <= sumsq v.
Proof.
  unfold sumsq. induction v as [|x v IH]; cbn [map zsum]; [lia|nia].
Qed.

Lemma sd_stop_spec : forall sn sd_ proto x1, 0 < sd_ ->
  (sd_stop sn sd_ proto x1 = true <->
   0 < sumsq proto /\ ((sumsq (Toys.vsub proto x1) # 1) / (sumsq proto # 1) < sn # Z.to_pos sd_)%Q).
Proof.
  intros sn sd_ proto x1 Hsd. unfold sd_stop.
  pose proof (sumsq_nonneg proto) as Hb.
  remember (sumsq (Toys.vsub proto x1)) as a eqn:Ea. clear Ea.
  remember (sumsq proto) as b eqn:Eb. clear Eb.
  destruct b as [|pb|pb].
  - cbn [Z.eqb negb andb]. split; [discriminate|intros [H _]; lia].
  - cbn [Z.eqb negb andb]. rewrite Z.ltb_lt.
    unfold Qlt, Qdiv, Qmult, Qinv. cbn [Qnum Qden]. rewrite Z2Pos.id by lia.
    rewrite Pos.mul_1_l, Z.mul_1_r. split; [intros H; split; [lia|exact H]|intros [_ H]; exact H].
  - lia.
Qed.

Lemma ril_exceeds_spec : forall tn td u l, 0 < td -> u <> l ->
  (ril_exceeds tn td u l = true <-> (tn # Z.to_pos td < (Z.abs (u + l) # 1) / (Z.abs (u - l) # 1))%Q).
Proof.
  intros tn td u l Htd Hul. unfold ril_exceeds.
  destruct (Z.eqb_spec (u - l) 0) as [E|E]; [lia|].
  assert (Hd : 0 < Z.abs (u - l)) by lia.
  remember (Z.abs (u + l)) as a eqn:Ea. clear Ea.
  remember (Z.abs (u - l)) as b eqn:Eb. clear Eb.
  destruct b as [|pb|pb]; try lia.
  rewrite Z.ltb_lt.
  unfold Qlt, Qdiv, Qmult, Qinv. cbn [Qnum Qden]. rewrite Z2Pos.id by lia.
  rewrite Pos.mul_1_l, Z.mul_1_r. reflexivity.
Qed.

Lemma existsb_map_false : forall (A : Type) (f : A -> bool) l,
  existsb (fun b => b) (map f l) = false <-> forall x, In x l -> f x = false.
Proof.
  intros A f. induction l as [|a l IH]; cbn [map existsb].
  - split; [intros _ x []|reflexivity].
  - rewrite orb_false_iff, IH. split.
    + intros [Ha Hl] x [<-|Hx]; auto.
    + intros H. split; [apply H; left; reflexivity|intros x Hx; apply H; right; exact Hx].
Qed.

Lemma rilling_stop_spec : forall s1n s1d s2n s2d tn td u l,
  (rilling_stop s1n s1d s2n s2d tn td u l = true <->
   Z.of_nat (count_true (map (fun ul => ril_exceeds s1n s1d (fst ul) (snd ul)) (combine u l))) * td
     <= tn * Z.of_nat (length (combine u l)) /\
   forall a b, In (a, b) (combine u l) -> ril_exceeds s2n s2d a b = false).
Proof.
  intros s1n s1d s2n s2d tn td u l. unfold rilling_stop.
  rewrite negb_true_iff, orb_false_iff, Z.ltb_ge, map_length, existsb_map_false.
  split; intros [H1 H2]; (split; [exact H1|]).
  - intros a b Hab. apply (H2 (a, b) Hab).
  - intros [a b] Hab. apply (H2 a b Hab).
Qed.

(* ---- concrete runs ----------------------------------------------------------------------------- *)
Lemma c04_outcomes_occur :
  run_toy_gni [0; 0; 20; 1; 1; 0; 1; 1024; 1; 16; 1; 2; 1; 16; 1; 0; 0]
              [0; 40; -36; 44; -28; 36; -40; 32; -20; 12; 0; 24; -16; 8]
    = [0; 1; 6; -8; 24; -28; 36; -32; 36; -32; 32; -20; 16; -12; 16; -12; 8]
  /\ run_toy_gni [0; 0; 20; 1; 1; 0; 1; 8; 1; 16; 1; 2; 1; 16; 1; 0; 0] [0; 4; 8; 12; 16]
    = [0; 0; 1; 0; 4; 8; 12; 16]
  /\ run_toy_gni [0; 0; 2; 1; 4; 0; 1; 1024; 1; 16; 1; 2; 1; 16; 1; 0; 0]
              [0; 40; -36; 44; -28; 36; -40; 32; -20; 12; 0; 24; -16; 8]
    = [5; 3].
Proof. vm_compute. repeat split; reflexivity. Qed.

Lemma sift_complete_v0_refuted : exists c X imfs e,
  toy_sift c true 60 X = (imfs, e) /\ flag_stop e = true /\ cap_hit e = false /\ small_hit e = false /\
  vsum (list Z) (Toys.vzero (length X)) Toys.vadd imfs <> X.
Proof.
  exists [2; 0; 20; 1; 1; 0; 1; 8; 1; 16; 1; 2; 1; 16; 1; 0; 0],
         [0; 40; -36; 44; -28; 36; -40; 32; -20; 12; 0; 24; -16; 8].
  eexists. eexists. split; [vm_compute; reflexivity|].
  vm_compute. repeat split; try reflexivity. discriminate.
Qed.

Lemma c01_premises_hold : exists imfs e,
  toy_sift [0; 0; 20; 1; 1; 0; 1; 8; 1; 16; 1; 2; 1; 16; 1; 0; 0] false 60
           [0; 40; -36; 44; -28; 36; -40; 32; -20; 12; 0; 24; -16; 8] = (imfs, e) /\
  flag_stop e = true /\ (2 <= length imfs)%nat.
Proof.
  eexists. eexists. split; [vm_compute; reflexivity|].
  vm_compute. split; [reflexivity|]. apply le_n.
Qed.
