(* Facts about model/SiftCore.v and model/Toys.v (properties C01, C03, C04). *)
From Coq Require Import ZArith QArith List Bool Lia Arith.
From EmdV Require Import lib.NpLite model.Extrema model.SiftCore model.Toys.
Import ListNotations.
