(* Proofs of the control-skeleton tie of emd/cycles.py get_cycle_vector / is_good (notes/TIE_CYCLES.md).
   Statements are those of props/Prop_Tie_Cycles.v; definitions are in model/SkelPrims_Cycles.v. *)
From Coq Require Import String List Bool Arith ZArith Lia Sorted.
From EmdV Require Import lib.PyLoop lib.PyLoopTools lib.NpLite model.CycleMaps model.CycleVec
     proofs.CycleVecFacts gen.Gen_Skel_Cycles model.SkelPrims_Cycles.
Import ListNotations.
Open Scope nat_scope.
Open Scope string_scope.

(* ==================================================================================================== *)
(* is_good                                                                                              *)
(* ==================================================================================================== *)
Section IsGoodTie.
  Variable P : cv_params.

  Definition isgood_spine : list stmt := Eval cbv in spine prog_is_good.
  Definition ig_pre : list stmt := Eval cbv in firstn 2 isgood_spine.
  Definition ig_inc : stmt := Eval cbv in nth 2 isgood_spine SSkip.     (* check 0: increasing phase *)
  Definition ig_start : stmt := Eval cbv in nth 3 isgood_spine SSkip.   (* check 1: starts near 0 *)
  Definition ig_end : stmt := Eval cbv in nth 4 isgood_spine SSkip.     (* check 2: ends near 2pi *)
  Definition ig_post : list stmt := Eval cbv in skipn 5 isgood_spine.   (* check 3 (waveform) and the return *)

  Ltac ev :=
    cbv beta iota zeta delta
        [exec final_env eval eval_truth bind map_res truthy do_cmp do_arith do_index nat_cmp nat_arith iter_list
         upd lookup env_of assign_all cmp_name ar_name frame overlay normal_env
         try_finish try_finish_env exn_matches
         isgood_prims prims_of table_lookup isgood_table keys_are is_opaque0
         isgood_names isgood_env0 params_is_good ig_pre ig_inc ig_start ig_end ig_post exec_list
         String.eqb Ascii.eqb Bool.eqb fst snd nth_error andb negb orb].
  Ltac ev1 := ev; repeat (progress (cbn [Nat.eqb]; oracle_rw); ev).

  Lemma forallb_pos_zdiffs : forall l,
    forallb (fun b : bool => b) (map (fun d => (0 <? d)%Z) (zdiffs l)) = strictly_increasing l.
  Proof.
    induction l as [|a t IH]; [reflexivity|].
    destruct t as [|b t']; [reflexivity|].
    change (zdiffs (a :: b :: t')) with ((b - a)%Z :: zdiffs (b :: t')).
    change (strictly_increasing (a :: b :: t')) with ((a <? b)%Z && strictly_increasing (b :: t')).
    cbn [map forallb]. rewrite IH. f_equal.
    destruct (Z.ltb_spec 0 (b - a)); destruct (Z.ltb_spec a b); try reflexivity; lia.
  Qed.

  (* the environment between the statements of is_good: the four checks so far *)
  Definition ig_head (seg : list Z) (ret_all a b c d : bool) : env cval :=
    env_of isgood_names
      (overlay [ ("phase", VSig (CVec seg)); ("waveform", VNone); ("ret_all_checks", VBool ret_all);
                 ("phase_edge", VOpaque "phase_edge" []); ("mode", VStr "cycle");
                 ("cycle_checks", VList [VBool a; VBool b; VBool c; VBool d]); ("phase_min", VNat 0) ]
               (fun _ => None)).

  Lemma ig_pre_step : forall seg ret_all f,
    exec_list (isgood_prims P) ig_pre f (isgood_env0 seg ret_all) = Normal (ig_head seg ret_all false false false false).
  Proof. intros. unfold ig_head. ev. reflexivity. Qed.

  Lemma ig_inc_step : forall seg ret_all f a b c d,
    exec (isgood_prims P) ig_inc f (ig_head seg ret_all a b c d)
    = Normal (ig_head seg ret_all (strictly_increasing seg || a) b c d).
  Proof.
    intros. rewrite <- forallb_pos_zdiffs. unfold ig_head.
    destruct (forallb (fun b : bool => b) (map (fun d => (0 <? d)%Z) (zdiffs seg))) eqn:E0; ev1; reflexivity.
  Qed.

  Lemma ig_start_step : forall first rest ret_all f a b c d,
    exec (isgood_prims P) ig_start f (ig_head (first :: rest) ret_all a b c d)
    = Normal (ig_head (first :: rest) ret_all a (((0 <=? first) && (first <=? e_lo P))%Z || b) c d).
  Proof.
    intros. unfold ig_head.
    destruct (0 <=? first)%Z eqn:E1; destruct (first <=? e_lo P)%Z eqn:E2; ev1; reflexivity.
  Qed.

  Lemma ig_start_empty : forall ret_all f a b c d,
    exec (isgood_prims P) ig_start f (ig_head [] ret_all a b c d) = Raise "IndexError".
  Proof. intros. unfold ig_head. ev. reflexivity. Qed.

  Lemma ig_end_step : forall first rest ret_all f a b c d,
    let lst := last (first :: rest) first in
    exec (isgood_prims P) ig_end f (ig_head (first :: rest) ret_all a b c d)
    = Normal (ig_head (first :: rest) ret_all a b (((lst <=? twopi P) && (e_hi P <=? lst))%Z || c) d).
  Proof.
    intros. subst lst. unfold ig_head.
    destruct (last (first :: rest) first <=? twopi P)%Z eqn:E3;
      destruct (e_hi P <=? last (first :: rest) first)%Z eqn:E4; ev1; reflexivity.
  Qed.

  Lemma ig_post_step : forall seg ret_all f a b c d,
    exec_list (isgood_prims P) ig_post f (ig_head seg ret_all a b c d)
    = Return (if ret_all then VList [VBool a; VBool b; VBool c; VBool true] else VBool (all4 a b c true)).
  Proof. intros. unfold ig_head. destruct ret_all; ev; reflexivity. Qed.

  Theorem skeleton_is_good : forall seg ret_all f,
    exec (isgood_prims P) prog_is_good f (isgood_env0 seg ret_all) = isgood_render ret_all (is_good_checks P seg).
  Proof.
    intros seg ret_all f.
    rewrite exec_spine. change (spine prog_is_good) with (ig_pre ++ ig_inc :: ig_start :: ig_end :: ig_post)%list.
    rewrite exec_list_app, ig_pre_step. rewrite exec_list_cons, ig_inc_step.
    destruct seg as [|first rest].
    - rewrite exec_list_cons, ig_start_empty. reflexivity.
    - rewrite exec_list_cons, ig_start_step. rewrite exec_list_cons, ig_end_step. rewrite ig_post_step.
      unfold isgood_render, is_good_checks, checks_val, all4. cbn [map forallb].
      rewrite !orb_false_r, !andb_true_r, ?andb_assoc. reflexivity.
  Qed.

  (* the conjunction of the four checks is the model's is_good *)
  Lemma is_good_checks_model : forall seg,
    is_good P seg = option_map (forallb (fun b => b)) (is_good_checks P seg).
  Proof.
    intros [|first rest]; [reflexivity|].
    unfold is_good, is_good_checks, option_map. cbn [forallb]. f_equal.
    rewrite !andb_true_r, !andb_assoc. reflexivity.
  Qed.

  Corollary skeleton_is_good_model : forall seg f,
    exec (isgood_prims P) prog_is_good f (isgood_env0 seg false) =
    match is_good P seg with None => Raise "IndexError" | Some b => Return (VBool b) end.
  Proof.
    intros seg f. rewrite skeleton_is_good, is_good_checks_model.
    destruct (is_good_checks P seg); reflexivity.
  Qed.

  (* is_good as seen by its caller *)
  Lemma isgood_call_spec : forall seg,
    isgood_call P seg =
    match is_good_checks P seg with None => Exc "IndexError" | Some cs => Ok (checks_val cs) end.
  Proof.
    intros seg. unfold isgood_call. rewrite skeleton_is_good.
    destruct (is_good_checks P seg); reflexivity.
  Qed.
End IsGoodTie.

(* ==================================================================================================== *)
(* list facts: the literal numpy operations of the table against the vocabulary of model/CycleVec.v     *)
(* ==================================================================================================== *)
Lemma positions_from_map : forall (A B : Type) (p : B -> bool) (f : A -> B) l i,
  positions_from p (map f l) i = positions_from (fun x => p (f x)) l i.
Proof.
  intros A B p f l. induction l as [|a t IH]; intros i; [reflexivity|].
  cbn [map positions_from]. rewrite IH. reflexivity.
Qed.

(* np.where(np.abs(np.diff(col)) > phase_step)[0] + 1 is the model's wrap_hits *)
Lemma hits_eq : forall P ph,
  map S (positions (fun b : bool => b) (map (fun d => (step P <? d)%Z) (map Z.abs (zdiffs ph)))) = wrap_hits P ph.
Proof.
  intros P ph. unfold wrap_hits, positions. rewrite !positions_from_map. reflexivity.
Qed.

(* any(~mask[a:b]) is the negation of the model's mask_ok *)
Lemma existsb_negb : forall l, existsb (fun b : bool => b) (map notb l) = negb (forallb (fun x : bool => x) l).
Proof.
  induction l as [|a t IH]; [reflexivity|]. cbn [map existsb forallb]. rewrite IH. unfold notb. destruct a; reflexivity.
Qed.

Lemma all4_forallb : forall a b c d, forallb (fun x : bool => x) [a; b; c; d] = all4 a b c d.
Proof. intros a b c d. unfold all4. cbn [forallb]. rewrite andb_true_r, !andb_assoc. reflexivity. Qed.

Lemma nth_opt_mid : forall (A : Type) (l1 : list A) x l2, nth_opt (l1 ++ x :: l2) (length l1) = Some x.
Proof. intros. unfold nth_opt. rewrite nth_error_app2, Nat.sub_diag by lia. reflexivity. Qed.

Lemma set_col_mid : forall l1 c x l2, set_col (length l1) c (l1 ++ x :: l2) = (l1 ++ c :: l2)%list.
Proof.
  intros l1 c x l2. unfold set_col. induction l1 as [|a t IH]; [reflexivity|].
  cbn [length app firstn skipn] in *. f_equal. exact IH.
Qed.

Lemma set_slice_length : forall a b v l, a <= b <= length l -> length (set_slice a b v l) = length l.
Proof.
  intros a b v l H. unfold set_slice. rewrite !app_length, firstn_length, repeat_length, skipn_length. lia.
Qed.

Lemma set_slice_blank : forall a b v pre N, length pre = a -> a <= b <= N ->
  set_slice a b v (pre ++ repeat (-1)%Z (N - a)) = (pre ++ repeat v (b - a) ++ repeat (-1)%Z (N - b))%list.
Proof.
  intros a b v pre N Hl H. unfold set_slice.
  rewrite firstn_app, Hl, Nat.sub_diag, firstn_O, app_nil_r, <- Hl, firstn_all. rewrite Hl.
  f_equal. f_equal.
  rewrite skipn_app, Hl, skipn_all2 by lia. cbn [app].
  replace (N - a) with ((b - a) + (N - b)) by lia. rewrite repeat_app.
  rewrite skipn_app, repeat_length, Nat.sub_diag, skipn_all2 by (rewrite repeat_length; lia). reflexivity.
Qed.

Lemma blank_eq : forall n (c : list (list Z)),
  map (map (fun x => (x - Z.of_nat 1)%Z)) (map (fun _ => repeat 0%Z n) c) = map (fun _ => repeat (-1)%Z n) c.
Proof. intros n c. rewrite map_map. apply map_ext. intros _. rewrite map_repeat_const. reflexivity. Qed.

Lemma skipn_nth_cons : forall (A : Type) (l : list A) s x, nth_error l s = Some x -> skipn s l = x :: skipn (S s) l.
Proof.
  intros A l. induction l as [|a t IH]; intros s x H; destruct s; try discriminate.
  - inversion H. reflexivity.
  - cbn [nth_error] in H. cbn [skipn]. apply IH in H. exact H.
Qed.

(* THE STRUCTURAL REFINEMENT: writing the blocks one after the other into a vector of -1 with a running counter
   (the code) gives the concatenation of the constant blocks labelled by get_subset_vector (the model) *)
Lemma lab_loop_model : forall acc N t a0 pre c,
  StronglySorted lt (a0 :: t) -> Forall (fun x => x <= N) (a0 :: t) -> length pre = a0 ->
  option_map fst (lab_loop acc (adj (a0 :: t)) (pre ++ repeat (-1)%Z (N - a0)) c) =
  match all_some (map acc (adj (a0 :: t))) with
  | None => None
  | Some goods =>
      Some (pre ++ expand (adj (a0 :: t)) (subset_from goods (Z.of_nat c)) ++ repeat (-1)%Z (N - last t a0))%list
  end.
Proof.
  intros acc N t. induction t as [|b t IH]; intros a0 pre c Hs Hf Hl.
  - reflexivity.
  - change (adj (a0 :: b :: t)) with ((a0, b) :: adj (b :: t)). cbn [lab_loop map all_some].
    inversion Hs as [|x l Hs' Hlt]; subst. inversion Hlt as [|x l Hab Hlt']; subst.
    inversion Hf as [|x l Ha Hf']; subst. inversion Hf' as [|x l Hb Hf'']; subst.
    destruct (acc (length pre, b)) as [g|]; [|reflexivity].
    assert (Hlast : last (b :: t) (length pre) = last t b) by apply last_cons.
    destruct g.
    + rewrite set_slice_blank by lia.
      rewrite app_assoc.
      rewrite (IH b (pre ++ repeat (Z.of_nat c) (b - length pre))%list (S c) Hs' Hf')
        by (rewrite app_length, repeat_length; lia).
      destruct (all_some (map acc (adj (b :: t)))) as [goods|]; [|reflexivity].
      cbn [subset_from expand]. rewrite Hlast.
      replace (Z.of_nat c + 1)%Z with (Z.of_nat (S c)) by lia.
      rewrite <- !app_assoc. reflexivity.
    + replace (N - length pre) with ((b - length pre) + (N - b)) by lia. rewrite repeat_app, app_assoc.
      rewrite (IH b (pre ++ repeat (-1)%Z (b - length pre))%list c Hs' Hf')
        by (rewrite app_length, repeat_length; lia).
      destruct (all_some (map acc (adj (b :: t)))) as [goods|]; [|reflexivity].
      cbn [subset_from expand]. rewrite Hlast.
      rewrite <- !app_assoc. reflexivity.
Qed.

(* one column: the code's loop over the completed boundary list is the model's get_cycle_vector *)
Lemma lab_loop_gcv : forall P rg mask ph, wrap_hits P ph <> [] ->
  option_map fst (lab_loop (seg_accept P rg mask ph) (adj (boundaries P ph)) (repeat (-1)%Z (length ph)) 0)
  = get_cycle_vector P rg mask ph.
Proof.
  intros P rg mask ph Hne. unfold get_cycle_vector.
  destruct (wrap_hits P ph) as [|h0 ht] eqn:Hw; [congruence|].
  pose proof (boundaries_sorted P ph ltac:(congruence)) as Hs.
  assert (Hf : Forall (fun x => x <= length ph) (boundaries P ph)).
  { apply Forall_forall. intros x Hx. apply boundaries_In in Hx.
    destruct Hx as [->|[Hx| ->]]; [lia| |lia]. apply wrap_at_bounds in Hx. lia. }
  unfold boundaries in *.
  pose proof (lab_loop_model (seg_accept P rg mask ph) (length ph) (wrap_hits P ph ++ [length ph]) 0 [] 0 Hs Hf eq_refl)
    as H.
  cbn [app length] in H. rewrite Nat.sub_0_r in H. rewrite H.
  destruct (all_some (map (seg_accept P rg mask ph) (adj (0 :: wrap_hits P ph ++ [length ph])))) as [goods|];
    [|reflexivity].
  rewrite last_last, Nat.sub_diag. cbn [repeat]. rewrite app_nil_r. reflexivity.
Qed.

(* ==================================================================================================== *)
(* get_cycle_vector                                                                                     *)
(* ==================================================================================================== *)
(* the top-level statements: [gcv_pre; for ii ..; gcv_post], the body of the column loop:
   [ob_pre; for jj ..; ob_post], and the body of the segment loop *)
Definition gcv_spine : list stmt := Eval cbv in spine prog_get_cycle_vector.
Definition gcv_pre : list stmt := Eval cbv in firstn 6 gcv_spine.
Definition gcv_for : stmt := Eval cbv in nth 6 gcv_spine SSkip.
Definition gcv_post : list stmt := Eval cbv in skipn 7 gcv_spine.
Definition gcv_oiter : expr := Eval cbv in match gcv_for with SFor _ it _ => it | _ => ENone end.
Definition gcv_obody : stmt := Eval cbv in match gcv_for with SFor _ _ b => b | _ => SSkip end.
Definition ob_spine : list stmt := Eval cbv in spine gcv_obody.
Definition ob_pre : list stmt := Eval cbv in firstn 5 ob_spine.
Definition ob_for : stmt := Eval cbv in nth 5 ob_spine SSkip.
Definition ob_post : list stmt := Eval cbv in skipn 6 ob_spine.
Definition ib_iter : expr := Eval cbv in match ob_for with SFor _ it _ => it | _ => ENone end.
Definition ib : stmt := Eval cbv in match ob_for with SFor _ _ b => b | _ => SSkip end.
Definition ib_spine : list stmt := Eval cbv in spine ib.

Lemma for_loop_step : forall (V : Type) x (body : env V -> outcome V) v t e e2,
  normal_env (body (upd x v e)) = Some e2 -> for_loop x body (v :: t) e = for_loop x body t e2.
Proof.
  intros V x body v t e e2 H. rewrite for_loop_cons.
  destruct (body (upd x v e)); cbn [normal_env] in H; try discriminate; inversion H; reflexivity.
Qed.

Section GcvTie.
  Variable P : cv_params.
  Variable needs_wrap : bool.
  Variable wrapped : list (list Z).
  Variable n : nat.
  Variable cols : list (list Z).
  Variable rg : bool.
  Variable mask : option (list bool).
  Variable imfv : val cval.
  Hypothesis shape_ok : gcv_shape_ok wrapped n cols mask.

  Local Notation PR := (gcv_prims P needs_wrap wrapped).
  Local Notation PH := (gcv_phase needs_wrap wrapped cols).
  Local Notation blank := (fun _ : list Z => repeat (-1)%Z n).

  Ltac ev :=
    cbv beta iota zeta delta
        [exec final_env eval eval_truth bind map_res truthy do_cmp do_arith do_index nat_cmp nat_arith iter_list
         upd lookup env_of assign_all cmp_name ar_name frame overlay normal_env
         try_finish try_finish_env exn_matches
         gcv_prims prims_of table_lookup gcv_table keys_are is_opaque0 range_handler range_val
         gcv_names gcv_env0 params_get_cycle_vector mask_val
         gcv_pre gcv_for gcv_post gcv_oiter gcv_obody ob_pre ob_for ob_post ib_iter ib exec_list
         String.eqb Ascii.eqb Bool.eqb fst snd nth_error andb negb orb].
  Ltac orw :=
    oracle_rw;
    repeat match goal with
           | H : isgood_call _ _ = _ |- _ => rewrite H
           | H : wrap_hits _ _ = _ |- _ => rewrite H
           end.
  Ltac ev1 := ev; repeat (progress (cbn [Nat.eqb length]; rewrite ?hits_eq; orw); ev).
  Ltac steps :=
    match goal with
    | |- context [exec_list ?pr _ _ _] =>
        set (K := exec_list pr);
        assert (K_cons : forall s t f e, K (s :: t) f e =
                           match exec pr s f e with Normal e' => K t f e' | o => o end) by reflexivity;
        assert (K_nil : forall f e, K [] f e = Normal e) by reflexivity;
        repeat (rewrite K_cons; ev1); rewrite ?K_nil; ev1
    end.

  Ltac ibsteps := rewrite exec_spine; change (spine ib) with ib_spine; unfold ib_spine; steps.

  Lemma PH_shape : Forall (fun c => length c = n) PH.
  Proof. destruct shape_ok as (H1 & H2 & _). unfold gcv_phase. destruct needs_wrap; assumption. Qed.

  (* the environment between two columns: M = the label matrix so far *)
  Definition ohead (M : list (list Z)) (junk : string -> option (val cval)) : env cval :=
    env_of gcv_names
      (overlay [ ("phase", VSig (CMat n PH)); ("return_good", VBool rg); ("mask", mask_val mask); ("imf", imfv);
                 ("phase_step", VOpaque "phase_step" []); ("phase_edge", VOpaque "phase_edge" []);
                 ("cycles", VSig (CMat n M)) ] junk).

  (* the environment between two segments of column i *)
  Definition ihead (i : nat) (bnds : list nat) (M : list (list Z)) (count : nat)
             (junk : string -> option (val cval)) : env cval :=
    env_of gcv_names
      (overlay [ ("phase", VSig (CMat n PH)); ("return_good", VBool rg); ("mask", mask_val mask); ("imf", imfv);
                 ("phase_step", VOpaque "phase_step" []); ("phase_edge", VOpaque "phase_edge" []);
                 ("cycles", VSig (CMat n M)); ("ii", VNat i); ("inds", VSig (CIdx bnds)); ("count", VNat count) ] junk).

  (* ---- the statements above the column loop ---- *)
  Lemma gcv_pre_step : forall f,
    exec_list PR gcv_pre f (gcv_env0 n cols rg mask imfv) = Normal (ohead (map blank PH) (fun _ => None)).
  Proof.
    intros f. destruct shape_ok as (_ & _ & Hm). unfold ohead, gcv_phase.
    destruct mask as [m|].
    - apply Nat.eqb_eq in Hm.
      destruct needs_wrap; unfold gcv_pre; steps; rewrite blank_eq; reflexivity.
    - destruct needs_wrap; unfold gcv_pre; steps; rewrite blank_eq; reflexivity.
  Qed.

  (* ---- one segment ---- *)
  Lemma ib_step : forall fb i ph outs col rest bnds j a b count junk,
    nth_opt PH i = Some ph -> length outs = i ->
    nth_opt bnds j = Some a -> nth_opt bnds (S j) = Some b -> slice_ok a b col = true ->
    match seg_accept P rg mask ph (a, b) with
    | None => exec PR ib fb (upd "jj" (VNat j) (ihead i bnds (outs ++ col :: rest) count junk)) = Raise "IndexError"
    | Some g =>
        exists e2, normal_env (exec PR ib fb (upd "jj" (VNat j) (ihead i bnds (outs ++ col :: rest) count junk))) = Some e2 /\
                   e2 = ihead i bnds (outs ++ (if g then set_slice a b (Z.of_nat count) col else col) :: rest)
                              (if g then S count else count) (fun x => lookup x e2)
    end.
  Proof.
    intros fb i ph outs col rest bnds j a b count junk Hph Hi Ha Hb Hok.
    assert (HM : nth_opt (outs ++ col :: rest) i = Some col) by (rewrite <- Hi; apply nth_opt_mid).
    pose proof (set_col_mid outs (set_slice a b (Z.of_nat count) col) col rest) as Hset. rewrite Hi in Hset.
    pose proof (isgood_call_spec P (slice ph a b)) as Hcall.
    unfold seg_accept, mask_ok. rewrite is_good_checks_model.
    unfold ihead.
    (* the checks of a non-empty segment *)
    assert (Hshape : forall cs, is_good_checks P (slice ph a b) = Some cs -> exists c0 c1 c2, cs = [c0; c1; c2; true]).
    { intros cs H. unfold is_good_checks in H. destruct (slice ph a b); [discriminate|]. inversion H. eauto. }
    destruct mask as [m|].
    - rewrite <- (negb_involutive (forallb (fun x : bool => x) (slice m a b))), <- existsb_negb.
      destruct (existsb (fun b0 : bool => b0) (map notb (slice m a b))) eqn:Ev; cbn [negb].
      + (* a masked sample: continue *)
        eexists. split; [ibsteps; reflexivity | ev; reflexivity].
      + destruct rg.
        * destruct (is_good_checks P (slice ph a b)) as [cs|] eqn:Hck; cbn [option_map].
          -- destruct (Hshape cs eq_refl) as (c0 & c1 & c2 & ->). unfold checks_val in Hcall; cbn [map] in Hcall.
             rewrite all4_forallb. destruct (all4 c0 c1 c2 true) eqn:Hall.
             ++ eexists. split; [ibsteps; rewrite Hset, Nat.add_1_r; reflexivity | ev; reflexivity].
             ++ eexists. split; [ibsteps; reflexivity | ev; reflexivity].
          -- ibsteps. reflexivity.
        * assert (Hall : all4 true true true true = true) by reflexivity.
          eexists. split; [ibsteps; rewrite Hset, Nat.add_1_r; reflexivity | ev; reflexivity].
    - cbn [negb]. destruct rg.
      + destruct (is_good_checks P (slice ph a b)) as [cs|] eqn:Hck; cbn [option_map].
        * destruct (Hshape cs eq_refl) as (c0 & c1 & c2 & ->). unfold checks_val in Hcall; cbn [map] in Hcall.
          rewrite all4_forallb. destruct (all4 c0 c1 c2 true) eqn:Hall.
          -- eexists. split; [ibsteps; rewrite Hset, Nat.add_1_r; reflexivity | ev; reflexivity].
          -- eexists. split; [ibsteps; reflexivity | ev; reflexivity].
        * ibsteps. reflexivity.
      + assert (Hall : all4 true true true true = true) by reflexivity.
        eexists. split; [ibsteps; rewrite Hset, Nat.add_1_r; reflexivity | ev; reflexivity].
  Qed.

  (* ---- the loop over the segments of column i ---- *)
  Lemma ib_loop : forall fb i ph outs rest bnds,
    nth_opt PH i = Some ph -> length outs = i ->
    (forall j a b, nth_error (adj bnds) j = Some (a, b) -> a <= b <= n) ->
    forall k s col count junk, s + k = length (adj bnds) -> length col = n ->
    exists junk',
      for_loop "jj" (fun e' => exec PR ib fb e') (map VNat (seq s k)) (ihead i bnds (outs ++ col :: rest) count junk) =
      match lab_loop (seg_accept P rg mask ph) (skipn s (adj bnds)) col count with
      | None => Raise "IndexError"
      | Some (col', count') => Normal (ihead i bnds (outs ++ col' :: rest) count' junk')
      end.
  Proof.
    intros fb i ph outs rest bnds Hph Hi Hsegs. induction k as [|k IH]; intros s col count junk Hsk Hcol.
    - rewrite skipn_all2 by lia. exists junk. reflexivity.
    - destruct (nth_error (adj bnds) s) as [[a b]|] eqn:Hs; [|apply nth_error_None in Hs; lia].
      rewrite (skipn_nth_cons _ _ _ _ Hs). cbn [lab_loop seq map].
      destruct (adj_nth_inv _ _ _ _ Hs) as (Ha & Hb). pose proof (Hsegs s a b Hs) as Hab.
      assert (Hok : slice_ok a b col = true).
      { unfold slice_ok. apply andb_true_intro. split; apply Nat.leb_le; lia. }
      pose proof (ib_step fb i ph outs col rest bnds s a b count junk Hph Hi Ha Hb Hok) as Hstep.
      destruct (seg_accept P rg mask ph (a, b)) as [g|].
      + destruct Hstep as (e2 & He2 & Heq). rewrite (for_loop_step _ _ _ _ _ _ _ He2). rewrite Heq.
        apply IH; [lia|]. destruct g; [rewrite set_slice_length; lia | exact Hcol].
      + exists junk. rewrite for_loop_cons, Hstep. reflexivity.
  Qed.

  (* ---- the statements of the column loop above the segment loop ---- *)
  Lemma ob_pre_nohits : forall fb i ph M junk,
    nth_opt PH i = Some ph -> wrap_hits P ph = [] ->
    exists e2, exec_list PR ob_pre fb (upd "ii" (VNat i) (ohead M junk)) = Continue e2 /\
               e2 = ohead M (fun x => lookup x e2).
  Proof.
    intros fb i ph M junk Hph Hw. unfold ohead. destruct mask as [m|];
      (eexists; split; [unfold ob_pre; steps; reflexivity | ev; reflexivity]).
  Qed.

  Lemma ob_pre_hits : forall fb i ph M junk,
    nth_opt PH i = Some ph -> length ph = n -> wrap_hits P ph <> [] ->
    exists e2, exec_list PR ob_pre fb (upd "ii" (VNat i) (ohead M junk)) = Normal e2 /\
               e2 = ihead i (boundaries P ph) M 0 (fun x => lookup x e2).
  Proof.
    intros fb i ph M junk Hph Hn Hne.
    pose proof (boundaries_sorted P ph Hne) as Hs. unfold boundaries in *.
    destruct (wrap_hits P ph) as [|h0 ht] eqn:Hw; [congruence|].
    assert (Hb0 : 1 <= h0 < n).
    { rewrite <- Hn. apply (wrap_hits_bounds P ph). rewrite Hw. left. reflexivity. }
    assert (Hlast : last (0 :: h0 :: ht) 0 < n).
    { rewrite <- Hn. destruct (exists_last (l := 0 :: h0 :: ht) ltac:(discriminate)) as (l' & x & Hx).
      rewrite Hx, last_last.
      assert (Hin : In x (0 :: h0 :: ht)) by (rewrite Hx; apply in_or_app; right; left; reflexivity).
      destruct Hin as [<-|Hin]; [lia|]. rewrite <- Hw in Hin. apply wrap_hits_bounds in Hin. lia. }
    assert (H0 : nth_opt (h0 :: ht) 0 = Some h0) by reflexivity.
    assert (H1 : (1 <=? h0)%nat = true) by (apply Nat.leb_le; lia).
    assert (H2 : (last (0 :: h0 :: ht) 0 <? n)%nat = true) by (apply Nat.ltb_lt; exact Hlast).
    unfold ohead, ihead. rewrite Hn. destruct mask as [m|];
      (eexists; split; [unfold ob_pre; steps; reflexivity | ev; reflexivity]).
  Qed.

  (* ---- one column ---- *)
  Lemma ob_step : forall fb i ph outs rest junk,
    nth_opt PH i = Some ph -> length ph = n -> length outs = i ->
    match get_cycle_vector P rg mask ph with
    | None => exec PR gcv_obody fb (upd "ii" (VNat i) (ohead (outs ++ repeat (-1)%Z n :: rest) junk)) = Raise "IndexError"
    | Some out =>
        exists e2, normal_env (exec PR gcv_obody fb (upd "ii" (VNat i) (ohead (outs ++ repeat (-1)%Z n :: rest) junk))) = Some e2 /\
                   e2 = ohead (outs ++ out :: rest) (fun x => lookup x e2)
    end.
  Proof.
    intros fb i ph outs rest junk Hph Hn Hi.
    rewrite exec_spine. change (spine gcv_obody) with (ob_pre ++ ob_for :: ob_post)%list. rewrite exec_list_app.
    destruct (wrap_hits P ph) as [|h0 ht] eqn:Hw.
    - (* no phase jump in this column: continue *)
      unfold get_cycle_vector. rewrite Hw, Hn.
      destruct (ob_pre_nohits fb i ph (outs ++ repeat (-1)%Z n :: rest) junk Hph Hw) as (e2 & He2 & Heq).
      exists e2. rewrite He2. split; [reflexivity | exact Heq].
    - assert (Hne : wrap_hits P ph <> []) by congruence.
      destruct (ob_pre_hits fb i ph (outs ++ repeat (-1)%Z n :: rest) junk Hph Hn Hne) as (e1 & He1 & Heq1).
      rewrite He1. rewrite exec_list_cons. unfold ob_for. rewrite !exec_for.
      set (bnds := boundaries P ph) in *.
      assert (Hlen : length bnds = S (length (adj bnds))).
      { unfold bnds, boundaries. rewrite adj_length. reflexivity. }
      assert (Hle : (1 <=? length bnds)%nat = true) by (apply Nat.leb_le; lia).
      assert (Hit : bind (eval PR e1 ib_iter) (iter_list PR) = Ok (map VNat (seq 0 (length bnds - 1)))).
      { rewrite Heq1. unfold ihead. ev1. reflexivity. }
      change (ECall "range" _ _) with ib_iter. rewrite Hit.
      assert (Hsegs : forall j a b, nth_error (adj bnds) j = Some (a, b) -> a <= b <= n).
      { intros j a b Hj. pose proof (seg_bounds P ph j a b Hne Hj). lia. }
      rewrite Heq1.
      destruct (ib_loop fb i ph outs rest bnds Hph Hi Hsegs (length bnds - 1) 0 (repeat (-1)%Z n) 0
                        (fun x => lookup x e1) ltac:(lia) (repeat_length _ _)) as (junk' & Hloop).
      match goal with |- context [for_loop "jj" (fun e' => exec PR ?b fb e')] => change b with ib end.
      rewrite Hloop. cbn [skipn].
      rewrite <- (lab_loop_gcv P rg mask ph Hne). rewrite Hn. fold bnds.
      destruct (lab_loop (seg_accept P rg mask ph) (adj bnds) (repeat (-1)%Z n) 0) as [[col' count']|]; cbn [option_map fst].
      + eexists. split; [unfold ihead; ev; reflexivity | unfold ohead; ev; reflexivity].
      + reflexivity.
  Qed.

  (* ---- the loop over the columns ---- *)
  Lemma ob_loop : forall fb k s outs junk, s + k = length PH -> length outs = s ->
    exists junk',
      for_loop "ii" (fun e' => exec PR gcv_obody fb e') (map VNat (seq s k)) (ohead (outs ++ map blank (skipn s PH)) junk) =
      match all_some (map (get_cycle_vector P rg mask) (skipn s PH)) with
      | None => Raise "IndexError"
      | Some r => Normal (ohead (outs ++ r) junk')
      end.
  Proof.
    intros fb. induction k as [|k IH]; intros s outs junk Hsk Hs.
    - rewrite skipn_all2 by lia. exists junk. reflexivity.
    - destruct (nth_error PH s) as [ph|] eqn:Hph; [|apply nth_error_None in Hph; lia].
      rewrite (skipn_nth_cons _ _ _ _ Hph). cbn [map seq all_some].
      assert (Hn : length ph = n).
      { pose proof PH_shape as Hf. rewrite Forall_forall in Hf. apply Hf. eapply nth_error_In. exact Hph. }
      pose proof (ob_step fb s ph outs (map blank (skipn (S s) PH)) junk Hph Hn Hs) as Hstep.
      destruct (get_cycle_vector P rg mask ph) as [out|].
      + destruct Hstep as (e2 & He2 & Heq). rewrite (for_loop_step _ _ _ _ _ _ _ He2). rewrite Heq.
        destruct (IH (S s) (outs ++ [out])%list (fun x => lookup x e2) ltac:(lia)
                     ltac:(rewrite app_length; cbn [length]; lia)) as (junk' & Hl).
        revert Hl. destruct (all_some (map (get_cycle_vector P rg mask) (skipn (S s) PH))) as [r|]; intros Hl.
        * exists junk'. rewrite <- !app_assoc in Hl. exact Hl.
        * exists junk. rewrite <- !app_assoc in Hl. exact Hl.
      + exists junk. rewrite for_loop_cons, Hstep. reflexivity.
  Qed.

  (* ---- the whole function ---- *)
  Theorem skeleton_get_cycle_vector : forall f,
    exec PR prog_get_cycle_vector f (gcv_env0 n cols rg mask imfv)
    = gcv_render n (gcv_model P needs_wrap wrapped rg mask cols).
  Proof.
    intros f. rewrite exec_spine.
    change (spine prog_get_cycle_vector) with (gcv_pre ++ gcv_for :: gcv_post)%list.
    rewrite exec_list_app, gcv_pre_step, exec_list_cons. unfold gcv_for at 1. rewrite exec_for.
    assert (Hit : bind (eval PR (ohead (map blank PH) (fun _ => None)) gcv_oiter) (iter_list PR)
                  = Ok (map VNat (seq 0 (length PH)))) by (unfold ohead; ev; reflexivity).
    unfold gcv_oiter in Hit. rewrite Hit.
    destruct (ob_loop f (length PH) 0 [] (fun _ => None) eq_refl eq_refl) as (junk' & Hloop).
    match goal with |- context [for_loop "ii" (fun e' => exec PR ?b f e')] => change b with gcv_obody end.
    cbn [skipn app] in Hloop. rewrite Hloop.
    unfold gcv_model, gcv_render.
    destruct (all_some (map (get_cycle_vector P rg mask) PH)) as [r|]; [|reflexivity].
    unfold ohead. ev. reflexivity.
  Qed.

  (* with detection_total (C12): the translated program always returns, column c of the result is the model's
     vector for column c of the phase *)
  Corollary skeleton_get_cycle_vector_returns : forall f,
    exists outs,
      exec PR prog_get_cycle_vector f (gcv_env0 n cols rg mask imfv) = Return (VSig (CMat n outs)) /\
      Forall2 (fun ph out => get_cycle_vector P rg mask ph = Some out) PH outs.
  Proof.
    intros f. rewrite skeleton_get_cycle_vector. unfold gcv_model, gcv_render.
    generalize PH as l. intros l.
    assert (H : exists outs, all_some (map (get_cycle_vector P rg mask) l) = Some outs /\
                             Forall2 (fun ph out => get_cycle_vector P rg mask ph = Some out) l outs).
    { induction l as [|ph t IH]; [exists []; split; [reflexivity | constructor]|].
      destruct IH as (outs & Ho & Hf). cbn [map all_some].
      destruct (get_cycle_vector P rg mask ph) as [out|] eqn:Hg; [|exfalso; exact (detection_total _ _ _ _ Hg)].
      rewrite Ho. exists (out :: outs). split; [reflexivity | constructor; assumption]. }
    destruct H as (outs & Ho & Hf). rewrite Ho. exists outs. split; [reflexivity | exact Hf].
  Qed.
End GcvTie.

(* the common call: one phase column, already wrapped *)
Corollary skeleton_get_cycle_vector_column : forall P ph rg mask imfv f,
  match mask with None => True | Some m => length m = length ph end ->
  exec (gcv_prims P false []) prog_get_cycle_vector f (gcv_env0 (length ph) [ph] rg mask imfv)
  = match get_cycle_vector P rg mask ph with
    | None => Raise "IndexError"
    | Some out => Return (VSig (CMat (length ph) [out]))
    end.
Proof.
  intros P ph rg mask imfv f Hm.
  rewrite (skeleton_get_cycle_vector P false [] (length ph) [ph] rg mask imfv).
  - unfold gcv_model, gcv_render, gcv_phase. cbn [map all_some].
    destruct (get_cycle_vector P rg mask ph); reflexivity.
  - unfold gcv_shape_ok. repeat split; [repeat constructor | constructor | exact Hm].
Qed.
