(* Facts about the model of emd/spectra.py (model/Spectra.v): properties C10, C11.
   Every theorem of props/Prop_C10.v and props/Prop_C11.v is proved here under the
   same name. *)
From Coq Require Import ZArith List Bool Lia Arith Sorted.
From EmdV Require Import lib.NpLite model.Spectra.
Import ListNotations.
Open Scope Z_scope.

(* ------------------------------------------------------------------------ *)
(* generic list / zsum helpers                                               *)
(* ------------------------------------------------------------------------ *)

Lemma nth_map_seq_from : forall A (f : nat -> A) s n k d,
  (k < n)%nat -> nth k (map f (seq s n)) d = f (s + k)%nat.
Proof.
  intros A f s n k d Hk.
  rewrite (nth_indep _ d (f 0%nat)) by (rewrite map_length, seq_length; exact Hk).
  rewrite map_nth. rewrite seq_nth by exact Hk. reflexivity.
Qed.

Lemma nth_map_seq : forall A (f : nat -> A) n k d,
  (k < n)%nat -> nth k (map f (seq 0 n)) d = f k.
Proof. intros. rewrite nth_map_seq_from by assumption. reflexivity. Qed.

Lemma zsum_map_ext_in : forall A (f g : A -> Z) l,
  (forall x, In x l -> f x = g x) -> zsum (map f l) = zsum (map g l).
Proof. intros A f g l H. f_equal. apply map_ext_in. exact H. Qed.

Lemma zsum_map_zero : forall A (l : list A), zsum (map (fun _ => 0) l) = 0.
Proof. induction l as [|a t IH]; cbn [map zsum]; [reflexivity|rewrite IH; reflexivity]. Qed.

Lemma zsum_map_add : forall A (f g : A -> Z) l,
  zsum (map (fun x => f x + g x) l) = zsum (map f l) + zsum (map g l).
Proof. induction l as [|a t IH]; cbn [map zsum]; [reflexivity|rewrite IH; lia]. Qed.

Lemma zsum_map_flat_map : forall A B (F : B -> Z) (h : A -> list B) l,
  zsum (map F (flat_map h l)) = zsum (map (fun x => zsum (map F (h x))) l).
Proof.
  induction l as [|a t IH]; cbn [flat_map map zsum]; [reflexivity|].
  rewrite map_app, zsum_app, IH. reflexivity.
Qed.

Lemma zsum_swap : forall A B (F : A -> B -> Z) rows cols,
  zsum (map (fun r => zsum (map (fun j => F r j) cols)) rows) =
  zsum (map (fun j => zsum (map (fun r => F r j) rows)) cols).
Proof.
  intros A B F rows cols; induction rows as [|r rs IH]; cbn [map zsum].
  - rewrite zsum_map_zero. reflexivity.
  - rewrite IH. rewrite <- zsum_map_add. reflexivity.
Qed.

Lemma nth_error_combine : forall A B (l1 : list A) (l2 : list B) t,
  nth_error (combine l1 l2) t =
  match nth_error l1 t, nth_error l2 t with
  | Some a, Some b => Some (a, b)
  | _, _ => None
  end.
Proof.
  induction l1 as [|a l1 IH]; intros l2 t.
  - cbn [combine]. destruct t; reflexivity.
  - destruct l2 as [|b l2]; cbn [combine].
    + destruct t as [|t]; cbn [nth_error]; [reflexivity|]. destruct (nth_error l1 t); reflexivity.
    + destruct t as [|t]; cbn [nth_error]; [reflexivity|apply IH].
Qed.

Lemma nth_nth_error : forall A (l : list A) n d,
  nth n l d = match nth_error l n with Some x => x | None => d end.
Proof.
  induction l as [|a l IH]; intros n d; destruct n; cbn [nth nth_error]; try reflexivity.
  apply IH.
Qed.

Lemma combine_nth_seq : forall A B (l1 : list A) (l2 : list B) n d1 d2,
  length l1 = n -> length l2 = n ->
  combine l1 l2 = map (fun j => (nth j l1 d1, nth j l2 d2)) (seq 0 n).
Proof.
  induction l1 as [|a l1 IH]; intros l2 n d1 d2 H1 H2.
  - cbn [length] in H1. subst n. reflexivity.
  - destruct l2 as [|b l2]; cbn [length] in *; [subst n; discriminate|].
    destruct n as [|n]; [discriminate|].
    cbn [combine seq map nth]. f_equal.
    rewrite <- seq_shift, map_map. cbn [nth].
    apply (IH l2 n d1 d2); lia.
Qed.

Lemma combine_map_map : forall A B C D (f : A -> C) (g : B -> D) l1 l2,
  combine (map f l1) (map g l2) = map (fun p => (f (fst p), g (snd p))) (combine l1 l2).
Proof.
  induction l1 as [|a l1 IH]; intros l2; [reflexivity|].
  destruct l2 as [|b l2]; [reflexivity|].
  cbn [map combine fst snd]. f_equal. apply IH.
Qed.

Lemma zsum_seq_combine : forall A B (F : A -> B -> Z) l1 l2 d1 d2,
  length l1 = length l2 ->
  zsum (map (fun t => F (nth t l1 d1) (nth t l2 d2)) (seq 0 (length l1))) =
  zsum (map (fun p => F (fst p) (snd p)) (combine l1 l2)).
Proof.
  intros A B F l1 l2 d1 d2 Hl.
  rewrite (combine_nth_seq _ _ l1 l2 (length l1) d1 d2 eq_refl (eq_sym Hl)).
  rewrite map_map. reflexivity.
Qed.

(* ------------------------------------------------------------------------ *)
(* digitize / in_bin                                                          *)
(* ------------------------------------------------------------------------ *)

Lemma digitize_le_length : forall x edges, (digitize x edges <= length edges)%nat.
Proof.
  intros x edges; induction edges as [|e t IH]; cbn [digitize length]; [lia|].
  destruct (e <=? x); lia.
Qed.

Lemma digitize_spec : forall edges x d,
  StronglySorted Z.lt edges ->
  (digitize x edges = d <->
   (d <= length edges)%nat /\
   (forall i e, (i < d)%nat -> nth_error edges i = Some e -> e <= x) /\
   (forall i e, (d <= i)%nat -> nth_error edges i = Some e -> x < e)).
Proof.
  intros edges x; induction edges as [|e t IH]; intros d Hs.
  - cbn [digitize length]. split.
    + intros <-. split; [lia|]. split; intros i e Hi Hn; destruct i; discriminate.
    + intros [Hd _]. lia.
  - apply StronglySorted_inv in Hs. destruct Hs as [Hs Hf].
    rewrite Forall_forall in Hf.
    cbn [digitize length]. destruct (Z.leb_spec e x) as [Hle|Hgt].
    + split.
      * intros <-. destruct (proj1 (IH (digitize x t) Hs) eq_refl) as [H1 [H2 H3]].
        split; [lia|]. split.
        -- intros i e0 Hi Hn. destruct i as [|i]; cbn [nth_error] in Hn.
           ++ injection Hn as Hn. lia.
           ++ apply (H2 i); [lia|exact Hn].
        -- intros i e0 Hi Hn. destruct i as [|i]; [lia|]. cbn [nth_error] in Hn.
           apply (H3 i); [lia|exact Hn].
      * intros [H1 [H2 H3]]. destruct d as [|d].
        -- specialize (H3 0%nat e (le_n _) eq_refl). lia.
        -- f_equal. apply IH; [exact Hs|]. split; [lia|]. split.
           ++ intros i e0 Hi Hn. apply (H2 (S i)); [lia|exact Hn].
           ++ intros i e0 Hi Hn. apply (H3 (S i)); [lia|exact Hn].
    + split.
      * intros <-. split; [lia|]. split.
        -- intros i e0 Hi; lia.
        -- intros i e0 _ Hn. destruct i as [|i]; cbn [nth_error] in Hn.
           ++ injection Hn as Hn. lia.
           ++ apply nth_error_In in Hn. specialize (Hf _ Hn). lia.
      * intros [H1 [H2 H3]]. destruct d as [|d]; [reflexivity|].
        assert (H0 : (0 < S d)%nat) by lia.
        specialize (H2 0%nat e H0 eq_refl). lia.
Qed.

Lemma sorted_nth_lt : forall l i j a b,
  StronglySorted Z.lt l -> (i < j)%nat ->
  nth_error l i = Some a -> nth_error l j = Some b -> a < b.
Proof.
  induction l as [|x t IH]; intros i j a b Hs Hij Ha Hb.
  - destruct i; discriminate.
  - apply StronglySorted_inv in Hs. destruct Hs as [Hs Hf]. rewrite Forall_forall in Hf.
    destruct j as [|j]; [lia|]. cbn [nth_error] in Hb.
    destruct i as [|i]; cbn [nth_error] in Ha.
    + injection Ha as Ha. subst x. apply Hf. eapply nth_error_In; exact Hb.
    + apply (IH i j a b Hs); [lia|exact Ha|exact Hb].
Qed.

Lemma sorted_nth_le : forall l i j a b,
  StronglySorted Z.lt l -> (i <= j)%nat ->
  nth_error l i = Some a -> nth_error l j = Some b -> a <= b.
Proof.
  intros l i j a b Hs Hij Ha Hb.
  destruct (Nat.eq_dec i j) as [->|Hne].
  - rewrite Ha in Hb. injection Hb as Hb. lia.
  - assert (a < b) by (apply (sorted_nth_lt l i j a b Hs); [lia|exact Ha|exact Hb]). lia.
Qed.

Lemma digitize_in_bin : forall edges b f,
  StronglySorted Z.lt edges ->
  (in_bin edges b f = true <-> digitize f edges = S b /\ (S b < length edges)%nat).
Proof.
  intros edges b f Hs. unfold in_bin. split.
  - destruct (nth_error edges b) as [lo|] eqn:Elo; [|discriminate].
    destruct (nth_error edges (S b)) as [hi|] eqn:Ehi; [|discriminate].
    intros H. apply andb_true_iff in H. destruct H as [H1 H2].
    apply Z.leb_le in H1. apply Z.ltb_lt in H2.
    assert (Hlen : (S b < length edges)%nat) by (apply nth_error_Some; congruence).
    split; [|exact Hlen].
    apply digitize_spec; [exact Hs|]. split; [lia|]. split.
    + intros i e Hi Hn.
      assert (e <= lo) by (apply (sorted_nth_le edges i b e lo Hs); [lia|exact Hn|exact Elo]). lia.
    + intros i e Hi Hn.
      assert (hi <= e) by (apply (sorted_nth_le edges (S b) i hi e Hs); [lia|exact Ehi|exact Hn]). lia.
  - intros [Hd Hlen].
    apply digitize_spec in Hd; [|exact Hs]. destruct Hd as [_ [H2 H3]].
    destruct (nth_error edges b) as [lo|] eqn:Elo.
    2:{ apply nth_error_None in Elo. lia. }
    destruct (nth_error edges (S b)) as [hi|] eqn:Ehi.
    2:{ apply nth_error_None in Ehi. lia. }
    assert (Hb : (b < S b)%nat) by lia.
    specialize (H2 b lo Hb Elo). specialize (H3 (S b) hi (le_n _) Ehi).
    apply andb_true_iff. split; [apply Z.leb_le|apply Z.ltb_lt]; lia.
Qed.

(* boolean form, used when rewriting inside sums *)
Lemma in_bin_eqb : forall edges b f,
  StronglySorted Z.lt edges -> (S b < length edges)%nat ->
  in_bin edges b f = Nat.eqb (digitize f edges) (S b).
Proof.
  intros edges b f Hs Hb.
  destruct (in_bin edges b f) eqn:E.
  - apply digitize_in_bin in E; [|exact Hs]. destruct E as [E _]. rewrite E.
    symmetry. apply Nat.eqb_refl.
  - symmetry. apply Nat.eqb_neq. intro Hd.
    assert (in_bin edges b f = true) by (apply digitize_in_bin; [exact Hs|split; assumption]).
    congruence.
Qed.

Lemma sorted_le_last : forall l e, StronglySorted Z.lt l -> In e l -> e <= last l 0.
Proof.
  induction l as [|a t IH]; intros e Hs Hin; [destruct Hin|].
  apply StronglySorted_inv in Hs. destruct Hs as [Hs Hf]. rewrite Forall_forall in Hf.
  destruct t as [|a' t'].
  - cbn [last]. destruct Hin as [->|[]]. lia.
  - change (last (a :: a' :: t') 0) with (last (a' :: t') 0).
    destruct Hin as [<-|Hin].
    + assert (a < a') by (apply Hf; left; reflexivity).
      assert (a' <= last (a' :: t') 0) by (apply IH; [exact Hs|left; reflexivity]). lia.
    + apply IH; [exact Hs|exact Hin].
Qed.

Lemma out_of_range_in_no_bin : forall edges f b,
  StronglySorted Z.lt edges ->
  (f < hd 0 edges \/ last edges 0 <= f) -> in_bin edges b f = false.
Proof.
  intros edges f b Hs Hout.
  destruct (in_bin edges b f) eqn:E; [|reflexivity]. exfalso.
  unfold in_bin in E.
  destruct (nth_error edges b) as [lo|] eqn:Elo; [|discriminate].
  destruct (nth_error edges (S b)) as [hi|] eqn:Ehi; [|discriminate].
  apply andb_true_iff in E. destruct E as [H1 H2].
  apply Z.leb_le in H1. apply Z.ltb_lt in H2.
  destruct Hout as [Hlo|Hhi].
  - destruct edges as [|e0 t]; [destruct b; discriminate|]. cbn [hd] in Hlo.
    assert (e0 <= lo).
    { apply (sorted_nth_le (e0 :: t) 0 b e0 lo Hs); [lia|reflexivity|exact Elo]. }
    lia.
  - assert (hi <= last edges 0).
    { apply sorted_le_last; [exact Hs|]. eapply nth_error_In; exact Ehi. }
    lia.
Qed.

Lemma in_bin_unique : forall edges f b b',
  StronglySorted Z.lt edges -> in_bin edges b f = true -> in_bin edges b' f = true -> b = b'.
Proof.
  intros edges f b b' Hs H1 H2.
  apply digitize_in_bin in H1; [|exact Hs]. apply digitize_in_bin in H2; [|exact Hs].
  destruct H1 as [H1 _]. destruct H2 as [H2 _]. congruence.
Qed.

(* ------------------------------------------------------------------------ *)
(* coo_cell / coo_dense / enumerate                                           *)
(* ------------------------------------------------------------------------ *)

Lemma coo_cell_nil : forall r c, coo_cell [] r c = 0.
Proof. reflexivity. Qed.

Lemma coo_cell_single : forall y x v r c,
  coo_cell [(y, x, v)] r c = if (Nat.eqb y r && Nat.eqb x c)%bool then v else 0.
Proof. intros. unfold coo_cell. cbn [map zsum]. lia. Qed.

Lemma coo_cell_app : forall e1 e2 r c, coo_cell (e1 ++ e2) r c = coo_cell e1 r c + coo_cell e2 r c.
Proof. intros. unfold coo_cell. rewrite map_app, zsum_app. reflexivity. Qed.

Lemma coo_cell_flat_map : forall A (g : A -> list (nat * nat * Z)) l r c,
  coo_cell (flat_map g l) r c = zsum (map (fun x => coo_cell (g x) r c) l).
Proof.
  intros A g l r c. induction l as [|a t IH]; cbn [flat_map map zsum]; [reflexivity|].
  rewrite coo_cell_app, IH. reflexivity.
Qed.

Lemma coo_dense_length : forall es n m, length (coo_dense es n m) = n.
Proof. intros. unfold coo_dense. rewrite map_length, seq_length. reflexivity. Qed.

Lemma coo_dense_rect : forall es n m, rectangular (coo_dense es n m) m.
Proof.
  intros es n m. unfold rectangular, coo_dense. apply Forall_forall. intros r Hr.
  apply in_map_iff in Hr. destruct Hr as [k [<- _]].
  rewrite map_length, seq_length. reflexivity.
Qed.

Lemma coo_dense_row : forall es n m b, (b < n)%nat ->
  nth b (coo_dense es n m) [] = map (fun c => coo_cell es b c) (seq 0 m).
Proof. intros es n m b Hb. unfold coo_dense. rewrite nth_map_seq by exact Hb. reflexivity. Qed.

Lemma coo_dense_cell : forall es n m b t, (b < n)%nat -> (t < m)%nat ->
  nth t (nth b (coo_dense es n m) []) 0 = coo_cell es b t.
Proof.
  intros es n m b t Hb Ht. rewrite coo_dense_row by exact Hb.
  rewrite nth_map_seq by exact Ht. reflexivity.
Qed.

Lemma zsum_enum_from_drop : forall A (F : nat * A -> Z) (H : A -> Z) l k,
  (forall j x, F (j, x) = H x) ->
  zsum (map F (enum_from k l)) = zsum (map H l).
Proof.
  intros A F H l; induction l as [|x t IH]; intros k HF; cbn [enum_from map zsum]; [reflexivity|].
  rewrite HF, (IH (S k) HF). reflexivity.
Qed.

Lemma zsum_enum_from_pick : forall A (F : nat * A -> Z) (G : A -> Z) t l k,
  (forall i x, F (i, x) = if Nat.eqb i t then G x else 0) ->
  zsum (map F (enum_from k l)) =
  if (k <=? t)%nat then match nth_error l (t - k) with Some x => G x | None => 0 end else 0.
Proof.
  intros A F G t l; induction l as [|x l IH]; intros k HF; cbn [enum_from map zsum].
  - destruct (k <=? t)%nat; [|reflexivity]. destruct (t - k)%nat; reflexivity.
  - rewrite HF, (IH (S k) HF).
    destruct (Nat.eqb_spec k t) as [->|Hne].
    + rewrite Nat.sub_diag. cbn [nth_error].
      destruct (Nat.leb_spec (S t) t) as [Hc|_]; [lia|].
      rewrite Nat.leb_refl. lia.
    + destruct (Nat.leb_spec k t) as [Hle|Hgt].
      * destruct (Nat.leb_spec (S k) t) as [_|Hc]; [|lia].
        replace (t - k)%nat with (S (t - S k)) by lia. cbn [nth_error]. lia.
      * destruct (Nat.leb_spec (S k) t) as [Hc|_]; [lia|]. lia.
Qed.

(* ------------------------------------------------------------------------ *)
(* hilberthuang                                                               *)
(* ------------------------------------------------------------------------ *)

Definition binw (energy : bool) (edges : list Z) (b : nat) (fa : Z * Z) : Z :=
  if in_bin edges b (fst fa) then weight energy (snd fa) else 0.

Lemma hht_shape : forall energy edges infr inam,
  length (hilberthuang energy edges infr inam) = (length edges - 1)%nat /\
  rectangular (hilberthuang energy edges infr inam) (length infr).
Proof.
  intros. unfold hilberthuang. split; [apply coo_dense_length|apply coo_dense_rect].
Qed.

(* one sample's contribution to cell (b, t) *)
Lemma hht_sample_cell : forall energy edges b t t' (j : nat) f a,
  StronglySorted Z.lt edges -> (b < length edges - 1)%nat ->
  coo_cell (let d := digitize f edges in
            if ((1 <=? d)%nat && (d <=? length edges - 1)%nat)%bool
            then [((d - 1)%nat, t', weight energy a)] else []) b t =
  if Nat.eqb t' t then binw energy edges b (f, a) else 0.
Proof.
  intros energy edges b t t' j f a Hs Hb. unfold binw. cbn [fst snd]. cbv zeta.
  assert (HSb : (S b < length edges)%nat) by lia.
  rewrite (in_bin_eqb edges b f Hs HSb).
  destruct (Nat.eqb_spec (digitize f edges) (S b)) as [E|E].
  - rewrite E.
    destruct (Nat.leb_spec 1 (S b)) as [_|Hc]; [|lia].
    destruct (Nat.leb_spec (S b) (length edges - 1)) as [_|Hc]; [|lia].
    cbn [andb]. rewrite coo_cell_single.
    replace (S b - 1)%nat with b by lia. rewrite Nat.eqb_refl. cbn [andb]. reflexivity.
  - destruct ((1 <=? digitize f edges)%nat && (digitize f edges <=? length edges - 1)%nat)%bool eqn:Ec.
    + apply andb_true_iff in Ec. destruct Ec as [E1 E2].
      apply Nat.leb_le in E1. apply Nat.leb_le in E2.
      rewrite coo_cell_single.
      destruct (Nat.eqb_spec (digitize f edges - 1) b) as [Hc|_]; [lia|].
      cbn [andb]. destruct (Nat.eqb t' t); reflexivity.
    + rewrite coo_cell_nil. destruct (Nat.eqb t' t); reflexivity.
Qed.

Lemma hht_coo_cell : forall energy edges infr inam b t,
  StronglySorted Z.lt edges -> (b < length edges - 1)%nat ->
  coo_cell (hht_entries energy edges infr inam) b t =
  zsum (map (binw energy edges b) (combine (nth t infr []) (nth t inam []))).
Proof.
  intros energy edges infr inam b t Hs Hb.
  unfold hht_entries. cbv zeta. rewrite coo_cell_flat_map.
  unfold samples2. rewrite zsum_map_flat_map. unfold enumerate.
  rewrite (zsum_enum_from_pick _ _
             (fun fr_ar => zsum (map (binw energy edges b) (combine (fst fr_ar) (snd fr_ar)))) t).
  - cbn [Nat.leb]. rewrite Nat.sub_0_r. rewrite nth_error_combine.
    rewrite (nth_nth_error _ infr t []), (nth_nth_error _ inam t []).
    destruct (nth_error infr t) as [fr|]; [|reflexivity].
    destruct (nth_error inam t) as [ar|]; [reflexivity|].
    rewrite combine_nil. reflexivity.
  - intros t' [fr ar]. cbn [fst snd]. rewrite map_map.
    rewrite (zsum_enum_from_drop _ _
               (fun fa => if Nat.eqb t' t then binw energy edges b fa else 0)).
    + destruct (Nat.eqb t' t); [reflexivity|apply zsum_map_zero].
    + intros j [f a]. apply (hht_sample_cell energy edges b t t' j f a Hs Hb).
Qed.

Lemma hht_cell : forall energy edges infr inam b t,
  StronglySorted Z.lt edges ->
  (b < length edges - 1)%nat -> (t < length infr)%nat ->
  nth t (nth b (hilberthuang energy edges infr inam) []) 0 =
  zsum (map (fun fa => if in_bin edges b (fst fa) then weight energy (snd fa) else 0)
            (combine (nth t infr []) (nth t inam []))).
Proof.
  intros energy edges infr inam b t Hs Hb Ht. unfold hilberthuang.
  rewrite coo_dense_cell by assumption.
  rewrite hht_coo_cell by assumption. reflexivity.
Qed.

(* ------------------------------------------------------------------------ *)
(* hilberthuang_1d                                                            *)
(* ------------------------------------------------------------------------ *)

Lemma finds_1d_in_bin : forall edges b f,
  StronglySorted Z.lt edges -> (b < length edges - 1)%nat ->
  Nat.eqb (finds_1d edges f) (S b) = in_bin edges b f.
Proof.
  intros edges b f Hs Hb. unfold finds_1d.
  assert (HSb : (S b < length edges)%nat) by lia.
  destruct ((f <? hd 0 edges) || (last edges 0 <? f))%bool eqn:E.
  - rewrite out_of_range_in_no_bin.
    + apply Nat.eqb_neq. lia.
    + exact Hs.
    + apply orb_true_iff in E. destruct E as [E|E]; apply Z.ltb_lt in E; [left|right]; lia.
  - symmetry. apply in_bin_eqb; assumption.
Qed.

Lemma hht1d_row : forall energy edges infr inam b,
  StronglySorted Z.lt edges -> (b < length edges - 1)%nat ->
  nth b (hilberthuang_1d energy edges infr inam) [] =
  map (fun j => zsum (map (binw energy edges b) (combine (column 0 infr j) (column 0 inam j))))
      (seq 0 (length (hd [] infr))).
Proof.
  intros energy edges infr inam b Hs Hb. unfold hilberthuang_1d. cbv zeta.
  rewrite nth_map_seq by exact Hb.
  apply map_ext. intros j. f_equal. apply map_ext. intros [f a].
  unfold binw. cbn [fst snd]. rewrite finds_1d_in_bin by assumption. reflexivity.
Qed.

Lemma hht1d_cell : forall energy edges infr inam b j,
  StronglySorted Z.lt edges ->
  (b < length edges - 1)%nat -> (j < length (hd [] infr))%nat ->
  nth j (nth b (hilberthuang_1d energy edges infr inam) []) 0 =
  zsum (map (fun fa => if in_bin edges b (fst fa) then weight energy (snd fa) else 0)
            (combine (column 0 infr j) (column 0 inam j))).
Proof.
  intros energy edges infr inam b j Hs Hb Hj.
  rewrite hht1d_row by assumption.
  rewrite nth_map_seq by exact Hj. reflexivity.
Qed.

(* ------------------------------------------------------------------------ *)
(* the two marginals                                                          *)
(* ------------------------------------------------------------------------ *)

Lemma marginals_agree : forall energy edges infr inam b M,
  StronglySorted Z.lt edges ->
  rectangular infr M -> rectangular inam M -> length infr = length inam ->
  (b < length edges - 1)%nat ->
  zsum (nth b (hilberthuang energy edges infr inam) []) =
  zsum (nth b (hilberthuang_1d energy edges infr inam) []).
Proof.
  intros energy edges infr inam b M Hs Hrf Hra Hlen Hb.
  rewrite hht1d_row by assumption.
  unfold hilberthuang. rewrite coo_dense_row by exact Hb.
  (* left: sum over time rows of the row sums *)
  rewrite (zsum_map_ext_in _ _
             (fun t => (fun fr ar => zsum (map (binw energy edges b) (combine fr ar)))
                         (nth t infr []) (nth t inam []))).
  2:{ intros t _. apply hht_coo_cell; assumption. }
  rewrite (zsum_seq_combine _ _
             (fun fr ar => zsum (map (binw energy edges b) (combine fr ar))) infr inam [] [] Hlen).
  (* every row pair has length M *)
  assert (Hrows : forall p, In p (combine infr inam) -> length (fst p) = M /\ length (snd p) = M).
  { intros [fr ar] Hp. cbn [fst snd]. unfold rectangular in *.
    rewrite Forall_forall in Hrf, Hra. split.
    - apply Hrf. eapply in_combine_l; exact Hp.
    - apply Hra. eapply in_combine_r; exact Hp. }
  rewrite (zsum_map_ext_in _ _
             (fun p => zsum (map (fun j => binw energy edges b (nth j (fst p) 0, nth j (snd p) 0))
                                 (seq 0 M)))).
  2:{ intros p Hp. destruct (Hrows p Hp) as [H1 H2].
      rewrite (combine_nth_seq _ _ (fst p) (snd p) M 0 0 H1 H2). rewrite map_map. reflexivity. }
  rewrite (zsum_swap _ _ (fun p j => binw energy edges b (nth j (fst p) 0, nth j (snd p) 0))).
  (* right: columns *)
  destruct infr as [|r0 infr'].
  - cbn [combine map zsum hd length seq]. apply zsum_map_zero.
  - assert (HM : length r0 = M).
    { unfold rectangular in Hrf. rewrite Forall_forall in Hrf. apply Hrf. left. reflexivity. }
    cbn [hd]. rewrite HM.
    apply zsum_map_ext_in. intros j _. unfold column.
    rewrite combine_map_map, map_map. reflexivity.
Qed.

(* ------------------------------------------------------------------------ *)
(* the pre-repair code, and the concrete premises                             *)
(* ------------------------------------------------------------------------ *)

Lemma sorted_4_8_12 : StronglySorted Z.lt [4; 8; 12].
Proof. repeat (constructor; try lia). Qed.

Lemma hht_v0_refuted : exists edges infr inam,
  StronglySorted Z.lt edges /\
  (forall b, in_bin edges b (nth 0 (nth 0 infr []) 0) = false) /\
  nth 0 (nth 0 (hilberthuang_v0 true edges infr inam) []) 0 <> 0.
Proof.
  exists [4; 8; 12], [[-3; 11]], [[3; 4]].
  split; [exact sorted_4_8_12|]. split.
  - intros b. apply out_of_range_in_no_bin; [exact sorted_4_8_12|].
    left. cbn [nth hd]. lia.
  - vm_compute. discriminate.
Qed.

Lemma c10_premises_hold :
  StronglySorted Z.lt [4; 8; 12] /\ rectangular [[5; 8]; [-3; 11]] 2 /\
  hilberthuang true [4; 8; 12] [[5; 8]; [-3; 11]] [[1; 2]; [3; 4]] = [[1; 0]; [4; 16]].
Proof.
  split; [exact sorted_4_8_12|]. split.
  - unfold rectangular. repeat constructor.
  - vm_compute. reflexivity.
Qed.

(* ------------------------------------------------------------------------ *)
(* holospectrum                                                               *)
(* ------------------------------------------------------------------------ *)

Lemma fold_unfold : forall c a D1 : nat,
  (c < D1)%nat -> ((c + a * D1) / D1 = a /\ (c + a * D1) mod D1 = c)%nat.
Proof.
  intros c a D1 Hc. assert (HD : D1 <> 0%nat) by lia. split.
  - rewrite Nat.div_add by exact HD. rewrite Nat.div_small by exact Hc. reflexivity.
  - rewrite Nat.mod_add by exact HD. apply Nat.mod_small. exact Hc.
Qed.

Lemma pack_inj : forall c a c' a' D : nat,
  (c < D)%nat -> (c' < D)%nat -> (c + a * D = c' + a' * D)%nat -> c = c' /\ a = a'.
Proof.
  intros c a c' a' D Hc Hc' H.
  destruct (fold_unfold c a D Hc) as [Q1 R1].
  destruct (fold_unfold c' a' D Hc') as [Q2 R2].
  rewrite H in Q1, R1. split; congruence.
Qed.

Lemma pack_eqb : forall c a c' a' D : nat,
  (c < D)%nat -> (c' < D)%nat ->
  Nat.eqb (c + a * D) (c' + a' * D) = (Nat.eqb c c' && Nat.eqb a a')%bool.
Proof.
  intros c a c' a' D Hc Hc'.
  destruct (Nat.eqb_spec (c + a * D) (c' + a' * D)) as [E|E].
  - destruct (pack_inj c a c' a' D Hc Hc' E) as [-> ->].
    rewrite !Nat.eqb_refl. reflexivity.
  - symmetry. apply andb_false_iff.
    destruct (Nat.eqb_spec c c') as [->|Hn]; [|left; reflexivity].
    destruct (Nat.eqb_spec a a') as [->|Hn]; [|right; reflexivity].
    exfalso. apply E. reflexivity.
Qed.

Lemma tl_map : forall A B (f : A -> B) l, tl (map f l) = map f (tl l).
Proof. intros A B f l. destruct l; reflexivity. Qed.

Lemma removelast_map : forall A B (f : A -> B) l, removelast (map f l) = map f (removelast l).
Proof.
  intros A B f l. induction l as [|a l IH]; [reflexivity|].
  destruct l as [|b l]; [reflexivity|].
  change (removelast (map f (a :: b :: l))) with (f a :: removelast (map f (b :: l))).
  rewrite IH. reflexivity.
Qed.

Lemma trim_map : forall A B (f : A -> B) l, trim (map f l) = map f (trim l).
Proof. intros. unfold trim. rewrite tl_map, removelast_map. reflexivity. Qed.

Lemma trim_seq_S : forall s n, trim (seq s (S n)) = seq (S s) (n - 1).
Proof.
  intros s n. unfold trim. cbn [seq tl].
  destruct n as [|n]; [reflexivity|].
  rewrite seq_S, removelast_last.
  replace (S n - 1)%nat with n by lia. reflexivity.
Qed.

Lemma trim_map_seq : forall A (f : nat -> A) n,
  trim (map f (seq 0 (S n))) = map f (seq 1 (n - 1)).
Proof. intros. rewrite trim_map, trim_seq_S. reflexivity. Qed.

Lemma holo_nf : forall energy edges edges2 infr infr2 inam2,
  holospectrum energy edges edges2 infr infr2 inam2 =
  map (fun t => map (fun a => map (fun c =>
         coo_cell (holo_entries energy edges edges2 infr infr2 inam2) t (c + a * S (length edges))%nat)
       (seq 1 (length edges - 1))) (seq 1 (length edges2 - 1))) (seq 0 (length infr)).
Proof.
  intros. unfold holospectrum, holo_full. cbv zeta. rewrite map_map.
  apply map_ext. intros t.
  rewrite trim_map_seq, map_map. apply map_ext. intros a.
  apply trim_map_seq.
Qed.

Lemma holo_sum_nf : forall energy edges edges2 infr infr2 inam2,
  holospectrum_sum energy edges edges2 infr infr2 inam2 =
  map (fun a => map (fun c =>
         zsum (map (fun t => coo_cell (holo_entries energy edges edges2 infr infr2 inam2) t
                                      (c + a * S (length edges))%nat)
                   (seq 0 (length infr))))
       (seq 1 (length edges - 1))) (seq 1 (length edges2 - 1)).
Proof.
  intros. unfold holospectrum_sum. cbv zeta.
  rewrite trim_map_seq, map_map. apply map_ext. intros a.
  apply trim_map_seq.
Qed.

Lemma holo_shape : forall energy edges edges2 infr infr2 inam2,
  let h := holospectrum energy edges edges2 infr infr2 inam2 in
  length h = length infr /\
  Forall (fun plane => length plane = (length edges2 - 1)%nat /\
                       rectangular plane (length edges - 1)) h.
Proof.
  intros energy edges edges2 infr infr2 inam2. cbv zeta. rewrite holo_nf. split.
  - rewrite map_length, seq_length. reflexivity.
  - apply Forall_forall. intros plane Hp.
    apply in_map_iff in Hp. destruct Hp as [t [<- _]]. split.
    + rewrite map_length, seq_length. reflexivity.
    + unfold rectangular. apply Forall_forall. intros row Hr.
      apply in_map_iff in Hr. destruct Hr as [a [<- _]].
      rewrite map_length, seq_length. reflexivity.
Qed.

Lemma holo_sum_shape : forall energy edges edges2 infr infr2 inam2,
  let h := holospectrum_sum energy edges edges2 infr infr2 inam2 in
  length h = (length edges2 - 1)%nat /\ rectangular h (length edges - 1).
Proof.
  intros energy edges edges2 infr infr2 inam2. cbv zeta. rewrite holo_sum_nf. split.
  - rewrite map_length, seq_length. reflexivity.
  - unfold rectangular. apply Forall_forall. intros row Hr.
    apply in_map_iff in Hr. destruct Hr as [a [<- _]].
    rewrite map_length, seq_length. reflexivity.
Qed.

(* the cell of the trimmed output in terms of the sparse matrix *)
Lemma holo_cell_coo : forall energy edges edges2 infr infr2 inam2 t a c,
  (t < length infr)%nat -> (a < length edges2 - 1)%nat -> (c < length edges - 1)%nat ->
  nth c (nth a (nth t (holospectrum energy edges edges2 infr infr2 inam2) []) []) 0 =
  coo_cell (holo_entries energy edges edges2 infr infr2 inam2) t (S c + S a * S (length edges))%nat.
Proof.
  intros energy edges edges2 infr infr2 inam2 t a c Ht Ha Hc.
  rewrite holo_nf.
  rewrite nth_map_seq by exact Ht.
  rewrite nth_map_seq_from by exact Ha.
  rewrite nth_map_seq_from by exact Hc.
  reflexivity.
Qed.

Lemma holo_sample_cell : forall energy edges edges2 t a c t' f1 f2 amp,
  StronglySorted Z.lt edges -> StronglySorted Z.lt edges2 ->
  (a < length edges2 - 1)%nat -> (c < length edges - 1)%nat ->
  (if (Nat.eqb t' t &&
       Nat.eqb (digitize f1 edges + digitize f2 edges2 * S (length edges))
               (S c + S a * S (length edges)))%bool
   then weight energy amp else 0) =
  (if (Nat.eqb t' t && in_bin edges c f1 && in_bin edges2 a f2)%bool
   then weight energy amp else 0).
Proof.
  intros energy edges edges2 t a c t' f1 f2 amp Hs Hs2 Ha Hc.
  assert (HSc : (S c < length edges)%nat) by lia.
  assert (HSa : (S a < length edges2)%nat) by lia.
  rewrite (in_bin_eqb edges c f1 Hs HSc), (in_bin_eqb edges2 a f2 Hs2 HSa).
  pose proof (digitize_le_length f1 edges) as Hd.
  rewrite pack_eqb by lia.
  rewrite andb_assoc. reflexivity.
Qed.

Lemma holo_cell : forall energy edges edges2 infr infr2 inam2 t a c,
  StronglySorted Z.lt edges -> StronglySorted Z.lt edges2 ->
  (t < length infr)%nat -> (a < length edges2 - 1)%nat -> (c < length edges - 1)%nat ->
  nth c (nth a (nth t (holospectrum energy edges edges2 infr infr2 inam2) []) []) 0 =
  zsum (map (fun s => let '(t', f1, f2, amp) := s in
                if (Nat.eqb t' t && in_bin edges c f1 && in_bin edges2 a f2)%bool
                then weight energy amp else 0)
            (samples3 infr infr2 inam2)).
Proof.
  intros energy edges edges2 infr infr2 inam2 t a c Hs Hs2 Ht Ha Hc.
  rewrite holo_cell_coo by assumption.
  unfold coo_cell, holo_entries. cbv zeta. rewrite map_map.
  f_equal. apply map_ext. intros [[[t' f1] f2] amp].
  apply holo_sample_cell; assumption.
Qed.

Lemma holo_sum_spec : forall energy edges edges2 infr infr2 inam2 a c,
  (a < length edges2 - 1)%nat -> (c < length edges - 1)%nat ->
  nth c (nth a (holospectrum_sum energy edges edges2 infr infr2 inam2) []) 0 =
  zsum (map (fun t => nth c (nth a (nth t (holospectrum energy edges edges2 infr infr2 inam2) []) []) 0)
            (seq 0 (length infr))).
Proof.
  intros energy edges edges2 infr infr2 inam2 a c Ha Hc.
  rewrite holo_sum_nf.
  rewrite nth_map_seq_from by exact Ha.
  rewrite nth_map_seq_from by exact Hc.
  apply zsum_map_ext_in. intros t Ht. apply in_seq in Ht.
  symmetry. rewrite holo_cell_coo; [reflexivity|lia|exact Ha|exact Hc].
Qed.

Lemma c11_premises_hold :
  StronglySorted Z.lt [4; 8; 12] /\ StronglySorted Z.lt [2; 4] /\
  holospectrum true [4; 8; 12] [2; 4] [[5]; [9]] [[[3; 1]]; [[2; 3]]] [[[2; 5]]; [[1; 3]]]
  = [[[4; 0]]; [[0; 10]]].
Proof.
  split; [exact sorted_4_8_12|]. split.
  - repeat (constructor; try lia).
  - vm_compute. reflexivity.
Qed.
