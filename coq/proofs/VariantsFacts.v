(* Facts about model/Variants.v and the outer loop of model/SiftCore.v (property C03). *)
From Coq Require Import ZArith List Bool Lia Arith.
From EmdV Require Import lib.NpLite model.Extrema model.SiftCore model.Toys model.Variants proofs.SiftCoreFacts.
Import ListNotations.

(* ---- the outer loop: caps and prefixes --------------------------------------------------------- *)
Section PeelCapFacts.
  Variable V : Type.
  Variable wf : V -> Prop.
  Variable vzero : V.
  Variable vadd vsub : V -> V -> V.
  Variable small : V -> bool.
  Variable extract : nat -> list V -> V -> gni_result V.
  Hypothesis wf_zero : wf vzero.
  Hypothesis wf_add : forall a b, wf a -> wf b -> wf (vadd a b).
  Hypothesis wf_sub : forall a b, wf a -> wf b -> wf (vsub a b).
  Hypothesis extract_wf : forall n acc r p f k, wf r -> extract n acc r = Imf p f k -> wf p.

  Local Notation residual := (residual V vzero vadd vsub).
  Local Notation peel := (peel_loop V vzero vadd vsub small extract).

  Lemma peel_kth : forall fuel cap X imfs e k,
    peel fuel cap X [] = (imfs, e) -> (k < length imfs)%nat ->
    exists f n, extract k (firstn k imfs) (residual X (firstn k imfs)) = Imf (nth k imfs vzero) f n.
  Proof. exact (sift_residual_inv V vzero vadd vsub small extract). Qed.

  Lemma peel_cap_len_gen : forall fuel k X acc imfs e, (length acc < k)%nat ->
    peel fuel (Some k) X acc = (imfs, e) -> (length imfs <= k)%nat.
  Proof.
    induction fuel as [|f IH]; intros k X acc imfs e Hk H.
    - cbn [peel_loop] in H. inversion H; subst. lia.
    - cbn [peel_loop] in H.
      destruct (extract (length acc) acc (residual X acc)) as [nxt flag n| |] eqn:Ee.
      + destruct (Nat.eqb (length (acc ++ [nxt])) k || small nxt || negb flag) eqn:Eb.
        * inversion H; subst. rewrite app_length. cbn [length]. lia.
        * apply (IH k X (acc ++ [nxt]) imfs e); [|exact H].
          apply orb_false_iff in Eb. destruct Eb as [Eb _].
          apply orb_false_iff in Eb. destruct Eb as [Eb _].
          apply Nat.eqb_neq in Eb. rewrite app_length in *. cbn [length] in *. lia.
      + inversion H; subst. lia.
      + inversion H; subst. lia.
  Qed.

  Lemma peel_cap_len : forall fuel k X imfs e, (1 <= k)%nat ->
    peel fuel (Some k) X [] = (imfs, e) -> (length imfs <= k)%nat.
  Proof.
    intros fuel k X imfs e Hk H. apply (peel_cap_len_gen fuel k X [] imfs e); [cbn [length]; lia|exact H].
  Qed.

  (* the loop only ever appends to its accumulator *)
  Lemma peel_extends : forall fuel cap X acc l e,
    peel fuel cap X acc = (l, e) -> exists rest, l = acc ++ rest.
  Proof.
    induction fuel as [|f IH]; intros cap X acc l e H.
    - cbn [peel_loop] in H. inversion H; subst. exists []. rewrite app_nil_r. reflexivity.
    - cbn [peel_loop] in H.
      destruct (extract (length acc) acc (residual X acc)) as [nxt flag n| |] eqn:Ee.
      + destruct ((match cap with Some k => Nat.eqb (length (acc ++ [nxt])) k | None => false end)
                  || small nxt || negb flag) eqn:Eb.
        * inversion H; subst. exists [nxt]. reflexivity.
        * destruct (IH cap X (acc ++ [nxt]) l e H) as [rest ->].
          exists (nxt :: rest). rewrite <- app_assoc. reflexivity.
      + inversion H; subst. exists []. rewrite app_nil_r. reflexivity.
      + inversion H; subst. exists []. rewrite app_nil_r. reflexivity.
  Qed.

  Lemma peel_cap_prefix_gen : forall fuel k X acc l e, (length acc < k)%nat ->
    peel fuel None X acc = (l, e) -> out_of_fuel e = false ->
    fst (peel fuel (Some k) X acc) = firstn k l.
  Proof.
    induction fuel as [|f IH]; intros k X acc l e Hk H Ho.
    - cbn [peel_loop] in H. inversion H; subst. cbn in Ho. discriminate.
    - cbn [peel_loop] in H. cbn [peel_loop].
      destruct (extract (length acc) acc (residual X acc)) as [nxt flag n| |] eqn:Ee.
      + cbn [orb] in H.
        assert (Hlen : length (acc ++ [nxt]) = S (length acc)).
        { rewrite app_length. cbn [length]. lia. }
        destruct (small nxt || negb flag) eqn:Es.
        * inversion H; subst l e. clear H.
          rewrite <- orb_assoc, Es, orb_true_r. cbn [fst].
          symmetry. apply firstn_all2. lia.
        * rewrite <- orb_assoc, Es, orb_false_r.
          destruct (Nat.eqb (length (acc ++ [nxt])) k) eqn:Ek.
          -- cbn [fst]. apply Nat.eqb_eq in Ek.
             destruct (peel_extends f None X (acc ++ [nxt]) l e H) as [rest ->].
             rewrite <- Ek. rewrite firstn_app, firstn_all, Nat.sub_diag. cbn [firstn].
             rewrite app_nil_r. reflexivity.
          -- apply Nat.eqb_neq in Ek. apply (IH k X (acc ++ [nxt]) l e); [lia|exact H|exact Ho].
      + inversion H; subst l e. cbn [fst]. symmetry. apply firstn_all2. lia.
      + inversion H; subst l e. cbn [fst]. symmetry. apply firstn_all2. lia.
  Qed.

  Lemma peel_cap_prefix : forall fuel k X l e, (1 <= k)%nat ->
    peel fuel None X [] = (l, e) -> out_of_fuel e = false ->
    fst (peel fuel (Some k) X []) = firstn k l.
  Proof.
    intros fuel k X l e Hk H Ho. apply (peel_cap_prefix_gen fuel k X [] l e); [cbn [length]; lia|exact H|exact Ho].
  Qed.

  Lemma peel_all_wf : forall fuel cap X imfs e, wf X ->
    peel fuel cap X [] = (imfs, e) -> Forall wf imfs.
  Proof.
    intros fuel cap X imfs e HX H.
    apply (peel_inv V vzero vadd vsub small extract (Forall wf) cap X) with (fuel := fuel) (acc := @nil V) (e := e);
      [|constructor|exact H].
    intros acc nxt flag n Hacc He. apply Forall_app. split; [exact Hacc|].
    constructor; [|constructor].
    apply (extract_wf _ _ _ _ _ _ (wf_residual V wf vzero vadd vsub wf_zero wf_add wf_sub X acc HX Hacc) He).
  Qed.
End PeelCapFacts.

(* ---- mask_sift's effective cap ------------------------------------------------------------------- *)
Lemma mask_cap_le : forall m e,
  (mask_cap m e <= m)%nat /\ (forall n, e = Some n -> (mask_cap m e <= n)%nat) /\
  (forall n, e = Some n -> (m <= n)%nat -> mask_cap m e = m) /\ (e = None -> mask_cap m e = m).
Proof.
  intros m e. unfold mask_cap. destruct e as [n|].
  - destruct (Nat.ltb_spec n m) as [Hlt|Hge].
    + split; [lia|]. split; [intros n' Hn'; inversion Hn'; subst; lia|].
      split; [intros n' Hn' Hm; inversion Hn'; subst; lia|intros Hn; discriminate].
    + split; [lia|]. split; [intros n' Hn'; inversion Hn'; subst; lia|].
      split; [intros n' Hn' Hm; reflexivity|intros Hn; discriminate].
  - split; [lia|]. split; [intros n Hn; discriminate|].
    split; [intros n Hn; discriminate|reflexivity].
Qed.

(* ---- ensemble / complete ensemble / second layer ------------------------------------------------- *)
Lemma nth_map_seq : forall (A : Type) (f : nat -> A) k ii d, (ii < k)%nat -> nth ii (map f (seq 0 k)) d = f ii.
Proof.
  intros A f k ii d Hii.
  rewrite (nth_indep _ d (f 0%nat)) by (rewrite map_length, seq_length; exact Hii).
  rewrite map_nth. rewrite seq_nth by exact Hii. reflexivity.
Qed.

Section VariantsFacts.
  Variable V : Type.
  Variable vzero : V.
  Variable vadd vsub : V -> V -> V.
  Variable vmean : list V -> V.

  Lemma forallb_le_Forall : forall k (members : list (list V)),
    forallb (fun r => (k <=? length r)%nat) members = true <-> Forall (fun r => (k <= length r)%nat) members.
  Proof.
    intros k members. rewrite forallb_forall, Forall_forall.
    split; intros H r Hr; specialize (H r Hr); [apply Nat.leb_le in H|apply Nat.leb_le]; exact H.
  Qed.

  Lemma ensemble_cols : forall cap members cols,
    ensemble_collect V vzero vmean cap members = Some cols ->
    let k := match cap with Some k => k | None => length (hd [] members) end in
    length cols = k /\ Forall (fun r => (k <= length r)%nat) members /\
    forall ii, (ii < k)%nat -> nth ii cols vzero = vmean (map (fun r => nth ii r vzero) members).
  Proof.
    intros cap members cols H k. unfold ensemble_collect in H. fold k in H.
    destruct (forallb (fun r => (k <=? length r)%nat) members) eqn:Ef; [|discriminate].
    inversion H; subst cols; clear H.
    split; [rewrite map_length, seq_length; reflexivity|].
    split; [apply forallb_le_Forall; exact Ef|].
    intros ii Hii. rewrite nth_map_seq by exact Hii. reflexivity.
  Qed.

  Lemma ensemble_defined_iff : forall cap members,
    ensemble_collect V vzero vmean cap members <> None <->
    Forall (fun r => (match cap with Some k => k | None => length (hd [] members) end <= length r)%nat) members.
  Proof.
    intros cap members. unfold ensemble_collect.
    set (k := match cap with Some k => k | None => length (hd [] members) end).
    rewrite <- forallb_le_Forall.
    destruct (forallb (fun r => (k <=? length r)%nat) members); split; intros H; congruence.
  Qed.

  Variable NS : Type.
  Variable first_layer next_layer : V -> NS -> V.
  Variable upd : NS -> NS.
  Variable few_peaks small_mean : V -> bool.

  Local Notation vsum := (vsum V vzero vadd).
  Local Notation loop := (ceemd_loop V vzero vadd vsub NS next_layer upd few_peaks small_mean).
  Local Notation ceemd := (ceemd V vzero vadd vsub NS first_layer next_layer upd few_peaks small_mean).

  Lemma ceemd_loop_le_cap : forall fuel layer k X imf ns,
    length imf = layer -> (layer < k)%nat ->
    (length (fst (fst (loop fuel layer (Some k) X imf ns))) <= k)%nat.
  Proof.
    induction fuel as [|f IH]; intros layer k X imf ns Hl Hk.
    - cbn [ceemd_loop fst]. lia.
    - cbn [ceemd_loop].
      set (nxt := next_layer (vsub X (vsum imf)) ns).
      destruct (few_peaks nxt || cap_is (Some k) (S layer) || small_mean nxt) eqn:Eb.
      + cbn [fst]. rewrite app_length. cbn [length]. lia.
      + apply IH.
        * rewrite app_length. cbn [length]. lia.
        * apply orb_false_iff in Eb. destruct Eb as [Eb _].
          apply orb_false_iff in Eb. destruct Eb as [_ Eb].
          cbn [cap_is] in Eb. apply Nat.eqb_neq in Eb. lia.
  Qed.

  Lemma ceemd_cols_le_cap : forall fuel k X ns, (1 <= k)%nat ->
    (length (fst (fst (ceemd fuel (Some k) X ns))) <= k)%nat.
  Proof.
    intros fuel k X ns Hk. unfold Variants.ceemd.
    destruct (Nat.leb_spec k 1) as [Hle|Hgt].
    - cbn [fst length]. exact Hk.
    - apply ceemd_loop_le_cap; [reflexivity|exact Hgt].
  Qed.

  Lemma ceemd_loop_kth : forall X ns0 fuel layer cap imf ns r ns' b,
    length imf = layer -> ns = Nat.iter layer upd ns0 ->
    (forall k, (1 <= k < length imf)%nat ->
       nth k imf vzero = next_layer (vsub X (vsum (firstn k imf))) (Nat.iter k upd ns0)) ->
    loop fuel layer cap X imf ns = (r, ns', b) ->
    forall k, (1 <= k < length r)%nat ->
      nth k r vzero = next_layer (vsub X (vsum (firstn k r))) (Nat.iter k upd ns0).
  Proof.
    intros X ns0. induction fuel as [|f IH]; intros layer cap imf ns r ns' b Hl Hns Hinv H.
    - cbn [ceemd_loop] in H. inversion H; subst r. exact Hinv.
    - cbn [ceemd_loop] in H.
      set (nxt := next_layer (vsub X (vsum imf)) ns) in H.
      assert (Hinv' : forall k, (1 <= k < length (imf ++ [nxt]))%nat ->
                nth k (imf ++ [nxt]) vzero
                = next_layer (vsub X (vsum (firstn k (imf ++ [nxt])))) (Nat.iter k upd ns0)).
      { intros k Hk. rewrite app_length in Hk. cbn [length] in Hk.
        destruct (Nat.eq_dec k (length imf)) as [->|Hne].
        - rewrite firstn_app, firstn_all, Nat.sub_diag. cbn [firstn]. rewrite app_nil_r.
          rewrite app_nth2 by lia. rewrite Nat.sub_diag. cbn [nth].
          unfold nxt. rewrite Hns, Hl. reflexivity.
        - assert (Hlt : (k < length imf)%nat) by lia.
          rewrite firstn_app. replace (k - length imf)%nat with 0%nat by lia. cbn [firstn]. rewrite app_nil_r.
          rewrite app_nth1 by exact Hlt. apply Hinv. lia. }
      destruct (few_peaks nxt || cap_is cap (S layer) || small_mean nxt) eqn:Eb.
      + inversion H; subst r. exact Hinv'.
      + apply (IH (S layer) cap (imf ++ [nxt]) (upd ns) r ns' b); [| |exact Hinv'|exact H].
        * rewrite app_length. cbn [length]. lia.
        * rewrite Hns. reflexivity.
  Qed.

  Lemma ceemd_kth : forall fuel cap X ns imf ns' b k,
    ceemd fuel cap X ns = (imf, ns', b) ->
    (1 <= k < length imf)%nat ->
    nth k imf vzero = next_layer (vsub X (vsum (firstn k imf))) (Nat.iter k upd ns).
  Proof.
    intros fuel cap X ns imf ns' b k H.
    assert (Hbase : forall j, (1 <= j < length [first_layer X ns])%nat ->
              nth j [first_layer X ns] vzero
              = next_layer (vsub X (vsum (firstn j [first_layer X ns]))) (Nat.iter j upd ns)).
    { intros j Hj. cbn [length] in Hj. lia. }
    assert (Hloop : loop fuel 1 cap X [first_layer X ns] (upd ns) = (imf, ns', b) ->
              (1 <= k < length imf)%nat ->
              nth k imf vzero = next_layer (vsub X (vsum (firstn k imf))) (Nat.iter k upd ns)).
    { intros HL. apply (ceemd_loop_kth X ns fuel 1%nat cap [first_layer X ns] (upd ns) imf ns' b);
        [reflexivity|reflexivity|exact Hbase|exact HL]. }
    unfold Variants.ceemd in H. destruct cap as [c|].
    - destruct (c <=? 1)%nat.
      + inversion H; subst imf. apply Hbase.
      + apply Hloop. exact H.
    - apply Hloop. exact H.
  Qed.

  Variable sift_fn : option nat -> V -> option (list V).

  Lemma place_length : forall k tmp r, place V vzero k tmp = Some r ->
    r = tmp ++ repeat vzero (k - length tmp) /\ length r = k.
  Proof.
    intros k tmp r H. unfold place in H.
    destruct (Nat.leb_spec (length tmp) k) as [Hle|Hgt]; [|discriminate].
    inversion H; subst r. split; [reflexivity|].
    rewrite app_length, repeat_length. lia.
  Qed.

  Lemma second_layer_shape_k : forall k IA,
    (forall col r, sift_fn (Some k) col = Some r -> (length r <= k)%nat) ->
    (forall col, In col IA -> sift_fn (Some k) col <> None) ->
    exists blocks,
      map_opt (fun col => match sift_fn (Some k) col with None => None | Some tmp => place V vzero k tmp end) IA
        = Some blocks /\
      length blocks = length IA /\ Forall (fun b => length b = k) blocks /\
      forall ii col, nth_error IA ii = Some col ->
        exists tmp, sift_fn (Some k) col = Some tmp /\ nth_error blocks ii = Some (tmp ++ repeat vzero (k - length tmp)).
  Proof.
    intros k IA Hcap. induction IA as [|a t IH]; intros Hdef.
    - exists []. cbn [map_opt length]. split; [reflexivity|]. split; [reflexivity|]. split; [constructor|].
      intros ii col Hn. destruct ii; discriminate.
    - destruct IH as (bt & Hm & Hlen & Hall & Hnth).
      { intros col Hc. apply Hdef. right. exact Hc. }
      destruct (sift_fn (Some k) a) as [tmp|] eqn:Es; [|exfalso; apply (Hdef a (or_introl eq_refl)); exact Es].
      pose proof (Hcap a tmp Es) as Hle.
      assert (Hp : place V vzero k tmp = Some (tmp ++ repeat vzero (k - length tmp))).
      { unfold place. destruct (Nat.leb_spec (length tmp) k) as [_|Hgt]; [reflexivity|lia]. }
      exists ((tmp ++ repeat vzero (k - length tmp)) :: bt).
      cbn [map_opt]. rewrite Es, Hp, Hm. split; [reflexivity|].
      split; [cbn [length]; rewrite Hlen; reflexivity|].
      split.
      + constructor; [|exact Hall]. rewrite app_length, repeat_length. lia.
      + intros ii col Hn. destruct ii as [|ii].
        * cbn [nth_error] in Hn. inversion Hn; subst col. exists tmp. split; [exact Es|reflexivity].
        * cbn [nth_error] in Hn. cbn [nth_error]. apply Hnth. exact Hn.
  Qed.

  Lemma second_layer_shape : forall cap_arg IA,
    (forall c col r, sift_fn (Some c) col = Some r -> (length r <= c)%nat) ->
    (forall col c, In col IA -> sift_fn (Some c) col <> None) ->
    let k := match cap_arg with Some k => k | None => length IA end in
    exists blocks, second_layer V vzero sift_fn cap_arg IA = Some blocks /\
      length blocks = length IA /\ Forall (fun b => length b = k) blocks /\
      forall ii col, nth_error IA ii = Some col ->
        exists tmp, sift_fn (Some k) col = Some tmp /\ nth_error blocks ii = Some (tmp ++ repeat vzero (k - length tmp)).
  Proof.
    intros cap_arg IA Hcap Hdef k. unfold second_layer. fold k.
    apply second_layer_shape_k.
    - intros col r. apply Hcap.
    - intros col Hc. apply Hdef. exact Hc.
  Qed.
End VariantsFacts.

(* ---- the toy instance ----------------------------------------------------------------------------- *)
Open Scope Z_scope.

Lemma toy_sift_cols_cap : forall c k X r, (1 <= k)%nat ->
  toy_sift_cols c (Some k) X = Some r -> (length r <= k)%nat /\ Forall (fun v => length v = length X) r.
Proof.
  intros c k X r Hk H. unfold toy_sift_cols in H.
  destruct (peel_loop (list Z) (Toys.vzero (length X)) Toys.vadd Toys.vsub (small (cg c 14))
              (fun _ _ => toy_gni c false) 60 (Some k) X []) as [imfs e] eqn:E.
  destruct (raised e || out_of_fuel e); [discriminate|]. inversion H; subst r. clear H.
  split.
  - apply (peel_cap_len _ _ _ _ _ _ _ _ _ _ _ Hk E).
  - refine (peel_all_wf (list Z) (fun v => length v = length X) _ _ _ _ _ _ _ _ _ _ _ X imfs e eq_refl E).
    + unfold Toys.vzero. apply repeat_length.
    + intros a b Ha Hb. apply (zvec_group_laws (length X) a b Ha Hb).
    + intros a b Ha Hb. apply (zvec_group_laws (length X) a b Ha Hb).
    + intros n acc r p f j Hrl Hg. rewrite (toy_gni_preserves_length _ _ _ _ _ _ Hg). exact Hrl.
Qed.

(* ---- concrete runs ---------------------------------------------------------------------------------- *)
Lemma ceemd_cols_v0_refuted : exists c X, cg c 15 = 2 /\
  length (fst (toy_ceemd true c X)) = 4%nat /\ length (fst (toy_ceemd false c X)) = 2%nat.
Proof.
  exists [0; 0; 1000; 1; 1; 0; 1; 10; 1; 16; 1; 2; 1; 16; 1; 2; 0],
         [-44; 28; -20; 52; 4; -16; 28; -20; 52; 4; -16; 28; 8; 52; 4; -16; 28; 8; 52; 32;
          -16; 28; 8; -40; 32; -16; 56; 8; -40; 32; -16; 56; 8; -12; 32; -16; 56; 8; -12; 32].
  vm_compute. repeat split; reflexivity.
Qed.

Lemma second_layer_v0_refuted : exists c IA,
  toy_second_layer true c None IA = None /\
  (exists blocks, toy_second_layer false c None IA = Some blocks /\ length blocks = length IA).
Proof.
  exists [0; 0; 20; 1; 1; 0; 1; 8; 1; 16; 1; 2; 1; 16; 1; 0; 0],
         [[0; 40; -36; 44; -28; 36; -40; 32; -20; 12; 0; 24; -16; 8]].
  split; [vm_compute; reflexivity|].
  eexists. split; [vm_compute; reflexivity|reflexivity].
Qed.

Lemma c03_premises_hold :
  let c := [0; 0; 20; 1; 1; 0; 1; 8; 1; 16; 1; 2; 1; 16; 1; 0; 0] in
  let X := [0; 40; -36; 44; -28; 36; -40; 32; -20; 12; 0; 24; -16; 8] in
  exists l, toy_sift_cols c None X = Some l /\ length l = 2%nat /\
            toy_sift_cols c (Some 1%nat) X = Some (firstn 1 l) /\ toy_sift_cols c (Some 3%nat) X = Some l.
Proof.
  intros c X. eexists. split; [vm_compute; reflexivity|].
  vm_compute. repeat split; reflexivity.
Qed.
