(* Proofs for properties C12 and C13: get_cycle_vector partitions the phase
   series at its wraps, and the good cycles are those meeting the documented
   criteria.  The statements of the main lemmas are exactly those of
   props/Prop_C12.v and props/Prop_C13.v. *)
From Coq Require Import ZArith List Bool Lia Arith Sorted.
From EmdV Require Import lib.NpLite model.CycleMaps model.CycleVec proofs.CycleMapsFacts.
Import ListNotations.
Open Scope Z_scope.

(* ---------- general list facts -------------------------------------------- *)

Lemma nth_error_repeat_lt : forall A (x : A) n i,
  (i < n)%nat -> nth_error (repeat x n) i = Some x.
Proof.
  induction n as [|n IH]; intros i H; [lia|].
  destruct i as [|i]; cbn [repeat nth_error]; [reflexivity|]. apply IH. lia.
Qed.

Lemma nth_error_repeat_inv : forall A (x y : A) n i,
  nth_error (repeat x n) i = Some y -> y = x.
Proof.
  intros A x y n i H. apply nth_error_In in H. apply repeat_spec in H. exact H.
Qed.

Lemma nth_error_ext_eq : forall A (l1 l2 : list A),
  (forall k, nth_error l1 k = nth_error l2 k) -> l1 = l2.
Proof.
  induction l1 as [|a t IH]; intros [|b t'] H.
  - reflexivity.
  - specialize (H 0%nat); discriminate.
  - specialize (H 0%nat); discriminate.
  - pose proof (H 0%nat) as H0. cbn [nth_error] in H0. injection H0 as ->.
    f_equal. apply IH. intros k. exact (H (S k)).
Qed.

Lemma last_cons : forall A (t : list A) a d, last (a :: t) d = last t a.
Proof.
  induction t as [|b t IH]; intros a d; [reflexivity|].
  change (last (a :: b :: t) d) with (last (b :: t) d).
  rewrite (IH b d), (IH b a). reflexivity.
Qed.

Lemma last_indep : forall A (l : list A) d d', l <> [] -> last l d = last l d'.
Proof.
  intros A l d d' H. destruct l as [|a t]; [congruence|].
  rewrite !last_cons. reflexivity.
Qed.

Lemma sorted_nth_lt : forall l i j x y, StronglySorted lt l -> (i < j)%nat ->
  nth_error l i = Some x -> nth_error l j = Some y -> (x < y)%nat.
Proof.
  induction l as [|a t IH]; intros i j x y Hs Hij Hi Hj.
  - destruct i; discriminate.
  - inversion Hs as [|? ? Hs' Hf]; subst.
    destruct j as [|j]; [lia|]. cbn [nth_error] in Hj.
    destruct i as [|i]; cbn [nth_error] in Hi.
    + injection Hi as <-. rewrite Forall_forall in Hf. apply Hf.
      eapply nth_error_In; eauto.
    + apply (IH i j x y Hs'); [lia|exact Hi|exact Hj].
Qed.

Lemma sorted_nth_le : forall l i j x y, StronglySorted lt l -> (i <= j)%nat ->
  nth_error l i = Some x -> nth_error l j = Some y -> (x <= y)%nat.
Proof.
  intros l i j x y Hs Hij Hi Hj.
  destruct (Nat.eq_dec i j) as [->|Hne].
  - rewrite Hi in Hj. injection Hj as ->. lia.
  - pose proof (sorted_nth_lt l i j x y Hs ltac:(lia) Hi Hj). lia.
Qed.

Lemma sorted_nth_lt_inv : forall l i j x y, StronglySorted lt l -> (x < y)%nat ->
  nth_error l i = Some x -> nth_error l j = Some y -> (i < j)%nat.
Proof.
  intros l i j x y Hs Hxy Hi Hj.
  destruct (lt_dec i j) as [L|L]; [exact L|].
  pose proof (sorted_nth_le l j i y x Hs ltac:(lia) Hj Hi). lia.
Qed.

Lemma sorted_ext : forall l1 l2 : list nat,
  StronglySorted lt l1 -> StronglySorted lt l2 ->
  (forall x, In x l1 <-> In x l2) -> l1 = l2.
Proof.
  induction l1 as [|a t IH]; intros [|b t'] H1 H2 H.
  - reflexivity.
  - exfalso. apply (proj2 (H b)). left; reflexivity.
  - exfalso. apply (proj1 (H a)). left; reflexivity.
  - inversion H1 as [|? ? H1' F1]; subst. inversion H2 as [|? ? H2' F2]; subst.
    rewrite Forall_forall in F1, F2.
    assert (a = b) as ->.
    { destruct (proj1 (H a) (or_introl eq_refl)) as [E|I1]; [congruence|].
      destruct (proj2 (H b) (or_introl eq_refl)) as [E|I2]; [congruence|].
      specialize (F1 _ I2). specialize (F2 _ I1). lia. }
    f_equal. apply IH; [assumption|assumption|].
    intros x. split; intros Hx.
    + destruct (proj1 (H x) (or_intror Hx)) as [E|I]; [|exact I].
      subst x. specialize (F1 _ Hx). lia.
    + destruct (proj2 (H x) (or_intror Hx)) as [E|I]; [|exact I].
      subst x. specialize (F2 _ Hx). lia.
Qed.

Lemma seq_sorted : forall n a, StronglySorted lt (seq a n).
Proof.
  induction n as [|n IH]; intros a; cbn [seq]; constructor.
  - apply IH.
  - apply Forall_forall. intros x Hx. apply in_seq in Hx. lia.
Qed.

Lemma sorted_map_S : forall l, StronglySorted lt l -> StronglySorted lt (map S l).
Proof.
  induction l as [|a t IH]; intros H; cbn [map]; constructor.
  - inversion H; subst. apply IH. assumption.
  - inversion H as [|? ? _ F]; subst. rewrite Forall_forall in *.
    intros x Hx. apply in_map_iff in Hx. destruct Hx as [y [<- Hy]]. specialize (F _ Hy). lia.
Qed.

Lemma sorted_app_last : forall l N, StronglySorted lt l -> (forall x, In x l -> (x < N)%nat) ->
  StronglySorted lt (l ++ [N]).
Proof.
  induction l as [|a t IH]; intros N Hs Hb; cbn [app].
  - constructor; constructor.
  - inversion Hs as [|? ? Hs' F]; subst. constructor.
    + apply IH; [exact Hs'|]. intros x Hx. apply Hb. right; exact Hx.
    + apply Forall_app. split; [exact F|]. constructor; [|constructor].
      apply Hb. left; reflexivity.
Qed.

Lemma sorted_le_last : forall t a x, StronglySorted lt (a :: t) -> In x (a :: t) ->
  (x <= last t a)%nat.
Proof.
  induction t as [|b t IH]; intros a x Hs Hx.
  - cbn [last]. destruct Hx as [->|[]]. lia.
  - rewrite last_cons. inversion Hs as [|? ? Hs' F]; subst.
    destruct Hx as [->|Hx].
    + inversion F as [|? ? Hab _]; subst.
      pose proof (IH b b Hs' (or_introl eq_refl)). lia.
    + apply IH; assumption.
Qed.

Lemma count_true_all : forall k (l : list bool),
  (forall j, (j < k)%nat -> nth_error l j = Some true) -> count_true (firstn k l) = k.
Proof.
  induction k as [|k IH]; intros l H; [reflexivity|].
  destruct l as [|x t].
  - specialize (H 0%nat ltac:(lia)). discriminate.
  - pose proof (H 0%nat ltac:(lia)) as H0. cbn [nth_error] in H0. injection H0 as ->.
    cbn [firstn count_true]. rewrite IH; [reflexivity|].
    intros j Hj. apply (H (S j)). lia.
Qed.

Lemma map_nth_seq0 : forall (l : list Z) n, (n <= length l)%nat ->
  map (fun i => nth i l 0) (seq 0 n) = firstn n l.
Proof.
  induction l as [|x t IH]; intros n H.
  - cbn [length] in H. assert (n = 0%nat) as -> by lia. reflexivity.
  - destruct n as [|n]; [reflexivity|]. cbn [length] in H.
    cbn [seq map firstn nth]. f_equal.
    rewrite <- seq_shift, map_map. cbn [nth]. apply IH. lia.
Qed.

Lemma map_nth_seq : forall a (l : list Z) n, (a + n <= length l)%nat ->
  map (fun i => nth i l 0) (seq a n) = firstn n (skipn a l).
Proof.
  induction a as [|a IH]; intros l n H.
  - cbn [skipn]. apply map_nth_seq0. lia.
  - destruct l as [|x t]; [cbn [length] in H; lia|].
    cbn [skipn]. rewrite <- seq_shift, map_map. cbn [nth]. apply IH.
    cbn [length] in H. lia.
Qed.

Lemma map_repeat_const : forall A B (f : A -> B) x n, map f (repeat x n) = repeat (f x) n.
Proof. induction n as [|n IH]; cbn [repeat map]; [reflexivity|rewrite IH; reflexivity]. Qed.

(* ---------- slices ---------------------------------------------------------- *)

Lemma slice_length : forall A (l : list A) a b, (b <= length l)%nat ->
  length (slice l a b) = (b - a)%nat.
Proof.
  intros A l a b H. unfold slice. rewrite firstn_length, skipn_length. lia.
Qed.

Lemma slice_nonempty : forall A (l : list A) a b, (a < b <= length l)%nat -> slice l a b <> [].
Proof.
  intros A l a b H E. pose proof (slice_length A l a b ltac:(lia)) as HL.
  rewrite E in HL. cbn [length] in HL. lia.
Qed.

(* ---------- zdiffs, adj ----------------------------------------------------- *)

Lemma zdiffs_nth : forall l k, nth_error (zdiffs l) k =
  match nth_error l k, nth_error l (S k) with
  | Some a, Some b => Some (b - a)
  | _, _ => None
  end.
Proof.
  induction l as [|x t IH]; intros k.
  - destruct k; reflexivity.
  - destruct t as [|y t'].
    + destruct k as [|k]; [reflexivity|]. destruct k; reflexivity.
    + change (zdiffs (x :: y :: t')) with ((y - x) :: zdiffs (y :: t')).
      destruct k as [|k]; [reflexivity|]. cbn [nth_error]. rewrite IH. reflexivity.
Qed.

Lemma adj_nth : forall l k, nth_error (adj l) k =
  match nth_error l k, nth_error l (S k) with
  | Some a, Some b => Some (a, b)
  | _, _ => None
  end.
Proof.
  induction l as [|x t IH]; intros k.
  - destruct k; reflexivity.
  - destruct t as [|y t'].
    + destruct k as [|k]; [reflexivity|]. destruct k; reflexivity.
    + change (adj (x :: y :: t')) with ((x, y) :: adj (y :: t')).
      destruct k as [|k]; [reflexivity|]. cbn [nth_error]. rewrite IH. reflexivity.
Qed.

Lemma adj_nth_inv : forall l k a b, nth_error (adj l) k = Some (a, b) ->
  nth_error l k = Some a /\ nth_error l (S k) = Some b.
Proof.
  intros l k a b H. rewrite adj_nth in H.
  destruct (nth_error l k) as [a'|]; [|discriminate].
  destruct (nth_error l (S k)) as [b'|]; [|discriminate].
  injection H as -> ->. split; reflexivity.
Qed.

Lemma adj_length : forall t a, length (adj (a :: t)) = length t.
Proof.
  induction t as [|b t IH]; intros a; [reflexivity|].
  change (adj (a :: b :: t)) with ((a, b) :: adj (b :: t)). cbn [length]. rewrite IH. reflexivity.
Qed.

(* segments of a strictly sorted boundary list *)
Lemma adj_sorted_lt : forall l k a b, StronglySorted lt l ->
  nth_error (adj l) k = Some (a, b) -> (a < b)%nat.
Proof.
  intros l k a b Hs H. apply adj_nth_inv in H. destruct H as [Ha Hb].
  eapply (sorted_nth_lt l k (S k)); eauto.
Qed.

Lemma adj_sorted_order : forall l k k' a b a' b', StronglySorted lt l -> (k < k')%nat ->
  nth_error (adj l) k = Some (a, b) -> nth_error (adj l) k' = Some (a', b') -> (b <= a')%nat.
Proof.
  intros l k k' a b a' b' Hs Hk H H'.
  apply adj_nth_inv in H. apply adj_nth_inv in H'. destruct H as [_ Hb], H' as [Ha' _].
  eapply (sorted_nth_le l (S k) k'); eauto.
Qed.

Lemma adj_sorted_unique : forall l k k' a b a' b' i, StronglySorted lt l ->
  nth_error (adj l) k = Some (a, b) -> nth_error (adj l) k' = Some (a', b') ->
  (a <= i < b)%nat -> (a' <= i < b')%nat -> k = k'.
Proof.
  intros l k k' a b a' b' i Hs H H' Hi Hi'.
  destruct (lt_eq_lt_dec k k') as [[L|E]|L]; [|exact E|].
  - pose proof (adj_sorted_order l k k' a b a' b' Hs L H H'). lia.
  - pose proof (adj_sorted_order l k' k a' b' a b Hs L H' H). lia.
Qed.

Lemma adj_no_boundary_inside : forall l k a b x, StronglySorted lt l ->
  nth_error (adj l) k = Some (a, b) -> In x l -> ~ (a < x < b)%nat.
Proof.
  intros l k a b x Hs H Hx [L1 L2].
  apply adj_nth_inv in H. destruct H as [Ha Hb].
  apply In_nth_error in Hx. destruct Hx as [m Hm].
  pose proof (sorted_nth_lt_inv l k m a x Hs L1 Ha Hm).
  pose proof (sorted_nth_lt_inv l m (S k) x b Hs L2 Hm Hb). lia.
Qed.

Lemma adj_exists : forall t b0 i, StronglySorted lt (b0 :: t) -> (b0 <= i < last t b0)%nat ->
  exists k a b, nth_error (adj (b0 :: t)) k = Some (a, b) /\ (a <= i < b)%nat.
Proof.
  induction t as [|b1 t IH]; intros b0 i Hs Hi.
  - cbn [last] in Hi. lia.
  - change (adj (b0 :: b1 :: t)) with ((b0, b1) :: adj (b1 :: t)).
    destruct (lt_dec i b1) as [L|L].
    + exists 0%nat, b0, b1. split; [reflexivity|lia].
    + inversion Hs as [|? ? Hs' Hf]; subst. rewrite last_cons in Hi.
      destruct (IH b1 i Hs' ltac:(lia)) as [k [a [b [Hk Hab]]]].
      exists (S k), a, b. split; [exact Hk|exact Hab].
Qed.

(* ---------- expand ----------------------------------------------------------- *)

Lemma expand_length : forall t b0 labels, StronglySorted lt (b0 :: t) ->
  length labels = length t ->
  length (expand (adj (b0 :: t)) labels) = (last t b0 - b0)%nat.
Proof.
  induction t as [|b1 t IH]; intros b0 labels Hs Hl.
  - cbn [adj expand length last]. lia.
  - destruct labels as [|l0 labels]; [discriminate|]. cbn [length] in Hl.
    change (adj (b0 :: b1 :: t)) with ((b0, b1) :: adj (b1 :: t)). cbn [expand].
    inversion Hs as [|? ? Hs' Hf]; subst. inversion Hf as [|? ? Hlt _]; subst.
    rewrite app_length, repeat_length, IH by (auto; lia). rewrite last_cons.
    pose proof (sorted_le_last t b1 b1 Hs' (or_introl eq_refl)). lia.
Qed.

Lemma expand_nth : forall t b0 labels, StronglySorted lt (b0 :: t) ->
  forall k a b l i, nth_error (adj (b0 :: t)) k = Some (a, b) -> nth_error labels k = Some l ->
  (a <= i < b)%nat -> nth_error (expand (adj (b0 :: t)) labels) (i - b0) = Some l.
Proof.
  induction t as [|b1 t IH]; intros b0 labels Hs k a b l i Hk Hl Hi.
  - destruct k; discriminate.
  - change (adj (b0 :: b1 :: t)) with ((b0, b1) :: adj (b1 :: t)) in Hk |- *.
    inversion Hs as [|? ? Hs' Hf]; subst. inversion Hf as [|? ? Hlt _]; subst.
    destruct labels as [|l0 labels]; [destruct k; discriminate|]. cbn [expand].
    destruct k as [|k]; cbn [nth_error] in Hk, Hl.
    + injection Hk as <- <-. injection Hl as <-.
      rewrite nth_error_app1 by (rewrite repeat_length; lia).
      apply nth_error_repeat_lt. lia.
    + pose proof (IH b1 labels Hs' k a b l i Hk Hl Hi) as IH'.
      assert (b1 <= a)%nat.
      { apply adj_nth_inv in Hk. destruct Hk as [Ha _].
        eapply (sorted_nth_le (b1 :: t) 0 k); eauto. lia. }
      rewrite nth_error_app2 by (rewrite repeat_length; lia).
      rewrite repeat_length. replace (i - b0 - (b1 - b0))%nat with (i - b1)%nat by lia.
      exact IH'.
Qed.

Lemma expand_In : forall segs labels x, In x (expand segs labels) -> In x labels.
Proof.
  induction segs as [|[a b] ts IH]; intros labels x H; [destruct H|].
  destruct labels as [|l tl]; [destruct H|]. cbn [expand] in H.
  apply in_app_or in H. destruct H as [H|H].
  - apply repeat_spec in H. left. congruence.
  - right. apply IH. exact H.
Qed.

Lemma expand_map : forall (f : Z -> Z) segs labels,
  map f (expand segs labels) = expand segs (map f labels).
Proof.
  induction segs as [|[a b] ts IH]; intros labels; [reflexivity|].
  destruct labels as [|l tl]; [reflexivity|]. cbn [expand map].
  rewrite map_app, map_repeat_const, IH. reflexivity.
Qed.

(* ---------- all_some --------------------------------------------------------- *)

Lemma all_some_length : forall A (l : list (option A)) r, all_some l = Some r -> length r = length l.
Proof.
  induction l as [|o t IH]; intros r H; cbn [all_some] in H.
  - injection H as <-. reflexivity.
  - destruct o as [x|]; [|discriminate]. destruct (all_some t) as [r'|]; [|discriminate].
    injection H as <-. cbn [length]. rewrite (IH r' eq_refl). reflexivity.
Qed.

Lemma all_some_nth : forall A (l : list (option A)) r, all_some l = Some r ->
  forall k, nth_error l k = option_map Some (nth_error r k).
Proof.
  induction l as [|o t IH]; intros r H k; cbn [all_some] in H.
  - injection H as <-. destruct k; reflexivity.
  - destruct o as [x|]; [|discriminate]. destruct (all_some t) as [r'|]; [|discriminate].
    injection H as <-. destruct k as [|k]; cbn [nth_error option_map]; [reflexivity|].
    apply IH. reflexivity.
Qed.

Lemma all_some_total : forall A (l : list (option A)),
  (forall x, In x l -> x <> None) -> all_some l <> None.
Proof.
  induction l as [|o t IH]; intros H; cbn [all_some]; [discriminate|].
  destruct o as [x|]; [|exfalso; apply (H None); [left; reflexivity|reflexivity]].
  destruct (all_some t) as [r|] eqn:E; [discriminate|].
  exfalso. apply IH; [|reflexivity]. intros y Hy. apply H. right; exact Hy.
Qed.

(* ---------- wraps and boundaries -------------------------------------------- *)

Lemma wrap_hits_In : forall P ph i, In i (wrap_hits P ph) <-> wrap_at P ph i.
Proof.
  intros P ph i. unfold wrap_hits, wrap_at. rewrite in_map_iff. split.
  - intros [p [<- Hp]]. apply In_positions in Hp. destruct Hp as [d [Hd Hw]].
    rewrite zdiffs_nth in Hd. split; [lia|].
    replace (S p - 1)%nat with p by lia.
    destruct (nth_error ph p) as [a|]; [|discriminate].
    destruct (nth_error ph (S p)) as [b|]; [|discriminate].
    injection Hd as <-. exists a, b. split; [reflexivity|]. split; [reflexivity|].
    unfold is_wrap in Hw. apply Z.ltb_lt in Hw. exact Hw.
  - intros [H1 [a [b [Ha [Hb Hw]]]]]. exists (i - 1)%nat. split; [lia|].
    apply In_positions. exists (b - a). split.
    + rewrite zdiffs_nth, Ha. replace (S (i - 1)) with i by lia. rewrite Hb. reflexivity.
    + unfold is_wrap. apply Z.ltb_lt. exact Hw.
Qed.

Lemma wrap_at_bounds : forall P ph i, wrap_at P ph i -> (1 <= i < length ph)%nat.
Proof.
  intros P ph i [H1 [a [b [_ [Hb _]]]]]. split; [exact H1|].
  apply nth_error_Some. congruence.
Qed.

Lemma wrap_hits_bounds : forall P ph i, In i (wrap_hits P ph) -> (1 <= i < length ph)%nat.
Proof. intros P ph i H. apply wrap_hits_In in H. eapply wrap_at_bounds; eauto. Qed.

Lemma wrap_hits_sorted : forall P ph, StronglySorted lt (wrap_hits P ph).
Proof. intros. unfold wrap_hits. apply sorted_map_S. apply positions_sorted. Qed.

Lemma hits_nonempty_len : forall P ph, wrap_hits P ph <> [] -> (0 < length ph)%nat.
Proof.
  intros P ph H. destruct (wrap_hits P ph) as [|i t] eqn:E; [congruence|].
  assert (Hi : In i (wrap_hits P ph)) by (rewrite E; left; reflexivity).
  apply wrap_hits_bounds in Hi. lia.
Qed.

Lemma no_wrap_no_hits : forall P ph, (forall i, ~ wrap_at P ph i) -> wrap_hits P ph = [].
Proof.
  intros P ph H. destruct (wrap_hits P ph) as [|i t] eqn:E; [reflexivity|].
  exfalso. apply (H i). apply wrap_hits_In. rewrite E. left; reflexivity.
Qed.

Lemma boundaries_sorted : forall P ph, wrap_hits P ph <> [] ->
  StronglySorted lt (boundaries P ph).
Proof.
  intros P ph Hne. pose proof (hits_nonempty_len P ph Hne) as HN. unfold boundaries. constructor.
  - apply sorted_app_last; [apply wrap_hits_sorted|].
    intros x Hx. apply wrap_hits_bounds in Hx. lia.
  - apply Forall_app. split.
    + apply Forall_forall. intros x Hx. apply wrap_hits_bounds in Hx. lia.
    + constructor; [lia|constructor].
Qed.

Lemma boundaries_In : forall P ph x,
  In x (boundaries P ph) <-> x = 0%nat \/ wrap_at P ph x \/ x = length ph.
Proof.
  intros P ph x. unfold boundaries. cbn [In]. rewrite in_app_iff, wrap_hits_In. cbn [In]. split.
  - intros [H|[H|[H|[]]]]; auto.
  - intros [H|[H|H]]; auto.
Qed.

Lemma segs_length : forall P ph,
  length (adj (boundaries P ph)) = S (length (wrap_hits P ph)).
Proof.
  intros. unfold boundaries. rewrite adj_length, app_length. cbn [length]. lia.
Qed.

Lemma seg_bounds : forall P ph k a b, wrap_hits P ph <> [] ->
  nth_error (adj (boundaries P ph)) k = Some (a, b) -> (a < b <= length ph)%nat.
Proof.
  intros P ph k a b Hne Hk. pose proof (boundaries_sorted P ph Hne) as Hs. split.
  - eapply adj_sorted_lt; eauto.
  - apply adj_nth_inv in Hk. destruct Hk as [_ Hb]. apply nth_error_In in Hb.
    unfold boundaries in Hs, Hb.
    pose proof (sorted_le_last (wrap_hits P ph ++ [length ph]) 0%nat b Hs Hb) as H.
    rewrite last_last in H. exact H.
Qed.

Lemma seg_exists : forall P ph i, wrap_hits P ph <> [] -> (i < length ph)%nat ->
  exists k a b, nth_error (adj (boundaries P ph)) k = Some (a, b) /\ (a <= i < b)%nat.
Proof.
  intros P ph i Hne Hi. pose proof (boundaries_sorted P ph Hne) as Hs.
  unfold boundaries in *. apply adj_exists; [exact Hs|]. rewrite last_last. lia.
Qed.

Lemma out_length : forall P ph labels, wrap_hits P ph <> [] ->
  length labels = length (adj (boundaries P ph)) ->
  length (expand (adj (boundaries P ph)) labels) = length ph.
Proof.
  intros P ph labels Hne Hl. pose proof (boundaries_sorted P ph Hne) as Hs.
  unfold boundaries in *. rewrite adj_length in Hl.
  rewrite expand_length; [rewrite last_last; lia|exact Hs|exact Hl].
Qed.

Lemma out_nth : forall P ph labels k a b l i, wrap_hits P ph <> [] ->
  nth_error (adj (boundaries P ph)) k = Some (a, b) -> nth_error labels k = Some l ->
  (a <= i < b)%nat -> nth_error (expand (adj (boundaries P ph)) labels) i = Some l.
Proof.
  intros P ph labels k a b l i Hne Hk Hl Hi. pose proof (boundaries_sorted P ph Hne) as Hs.
  unfold boundaries in *.
  pose proof (expand_nth _ 0%nat labels Hs k a b l i Hk Hl Hi) as H.
  rewrite Nat.sub_0_r in H. exact H.
Qed.

Lemma out_inv : forall P ph labels i x, wrap_hits P ph <> [] ->
  length labels = length (adj (boundaries P ph)) ->
  nth_error (expand (adj (boundaries P ph)) labels) i = Some x ->
  exists k a b, nth_error (adj (boundaries P ph)) k = Some (a, b) /\ (a <= i < b)%nat /\
                nth_error labels k = Some x.
Proof.
  intros P ph labels i x Hne Hl Hx.
  assert (Hi : (i < length ph)%nat).
  { rewrite <- (out_length P ph labels Hne Hl). apply nth_error_Some. congruence. }
  destruct (seg_exists P ph i Hne Hi) as [k [a [b [Hk Hab]]]].
  exists k, a, b. split; [exact Hk|]. split; [exact Hab|].
  destruct (nth_error labels k) as [l|] eqn:E.
  - rewrite (out_nth P ph labels k a b l i Hne Hk E Hab) in Hx. exact Hx.
  - apply nth_error_None in E.
    assert (k < length (adj (boundaries P ph)))%nat by (apply nth_error_Some; congruence). lia.
Qed.

(* ---------- the two branches of get_cycle_vector ----------------------------- *)

Lemma gcv_struct : forall P rg mask ph out, get_cycle_vector P rg mask ph = Some out ->
  (wrap_hits P ph = [] /\ out = repeat (-1) (length ph)) \/
  (wrap_hits P ph <> [] /\ exists goods,
     all_some (map (seg_accept P rg mask ph) (adj (boundaries P ph))) = Some goods /\
     out = expand (adj (boundaries P ph)) (get_subset_vector goods)).
Proof.
  intros P rg mask ph out H. unfold get_cycle_vector in H.
  destruct (wrap_hits P ph) as [|h t] eqn:E.
  - left. injection H as <-. split; reflexivity.
  - right. split; [discriminate|].
    destruct (all_some (map (seg_accept P rg mask ph) (adj (boundaries P ph)))) as [goods|];
      [|discriminate].
    injection H as <-. exists goods. split; reflexivity.
Qed.

Lemma goods_length : forall P rg mask ph segs goods,
  all_some (map (seg_accept P rg mask ph) segs) = Some goods -> length goods = length segs.
Proof.
  intros P rg mask ph segs goods H. apply all_some_length in H. rewrite map_length in H. exact H.
Qed.

Lemma goods_nth : forall P rg mask ph segs goods k ab,
  all_some (map (seg_accept P rg mask ph) segs) = Some goods ->
  nth_error segs k = Some ab ->
  exists g, nth_error goods k = Some g /\ seg_accept P rg mask ph ab = Some g.
Proof.
  intros P rg mask ph segs goods k ab H Hk.
  pose proof (all_some_nth _ _ _ H k) as E. rewrite nth_error_map, Hk in E.
  cbn [option_map] in E.
  destruct (nth_error goods k) as [g|]; cbn [option_map] in E; [|discriminate].
  exists g. split; [reflexivity|]. injection E as E. exact E.
Qed.

Definition label_of (goods : list bool) (k : nat) (g : bool) : Z :=
  if g then Z.of_nat (count_true (firstn k goods)) else -1.

Lemma label_nth : forall goods k g, nth_error goods k = Some g ->
  nth_error (get_subset_vector goods) k = Some (label_of goods k g).
Proof. intros goods k g H. rewrite subset_vector_spec, H. reflexivity. Qed.

Lemma gcv_out_nth : forall P rg mask ph goods k a b i, wrap_hits P ph <> [] ->
  all_some (map (seg_accept P rg mask ph) (adj (boundaries P ph))) = Some goods ->
  nth_error (adj (boundaries P ph)) k = Some (a, b) -> (a <= i < b)%nat ->
  exists g, nth_error goods k = Some g /\ seg_accept P rg mask ph (a, b) = Some g /\
    nth_error (expand (adj (boundaries P ph)) (get_subset_vector goods)) i
      = Some (label_of goods k g).
Proof.
  intros P rg mask ph goods k a b i Hne Hg Hk Hi.
  destruct (goods_nth P rg mask ph _ goods k (a, b) Hg Hk) as [g [Hgk Hacc]].
  exists g. split; [exact Hgk|]. split; [exact Hacc|].
  eapply out_nth; eauto. apply label_nth. exact Hgk.
Qed.

Lemma gcv_out_inv : forall P rg mask ph goods i x, wrap_hits P ph <> [] ->
  all_some (map (seg_accept P rg mask ph) (adj (boundaries P ph))) = Some goods ->
  nth_error (expand (adj (boundaries P ph)) (get_subset_vector goods)) i = Some x ->
  exists k a b g, nth_error (adj (boundaries P ph)) k = Some (a, b) /\ (a <= i < b)%nat /\
    nth_error goods k = Some g /\ seg_accept P rg mask ph (a, b) = Some g /\
    nth_error (get_subset_vector goods) k = Some x /\ x = label_of goods k g.
Proof.
  intros P rg mask ph goods i x Hne Hg Hx.
  apply out_inv in Hx; [|exact Hne|rewrite sv_length; eapply goods_length; eauto].
  destruct Hx as [k [a [b [Hk [Hab Hl]]]]].
  destruct (goods_nth P rg mask ph _ goods k (a, b) Hg Hk) as [g [Hgk Hacc]].
  exists k, a, b, g. repeat (split; [assumption|]).
  rewrite (label_nth goods k g Hgk) in Hl. congruence.
Qed.

Lemma label_of_nonneg : forall goods k g, 0 <= label_of goods k g <-> g = true.
Proof.
  intros goods k g. unfold label_of. destruct g; split; intros H; try reflexivity; try lia.
Qed.

(* ---------- C12 --------------------------------------------------------------- *)

Lemma seg_accept_some : forall P rg mask ph a b, (a < b <= length ph)%nat ->
  seg_accept P rg mask ph (a, b) <> None.
Proof.
  intros P rg mask ph a b H. unfold seg_accept.
  destruct (negb (mask_ok mask a b)); [discriminate|].
  destruct rg; [|discriminate]. unfold is_good.
  destruct (slice ph a b) as [|f t] eqn:E; [|discriminate].
  exfalso. eapply slice_nonempty; eauto.
Qed.

Lemma detection_total : forall P rg mask ph, get_cycle_vector P rg mask ph <> None.
Proof.
  intros P rg mask ph. unfold get_cycle_vector.
  destruct (wrap_hits P ph) as [|h t] eqn:E; [discriminate|].
  assert (Hne : wrap_hits P ph <> []) by (rewrite E; discriminate).
  destruct (all_some (map (seg_accept P rg mask ph) (adj (boundaries P ph)))) eqn:Ea;
    [discriminate|].
  exfalso. revert Ea. apply all_some_total. intros x Hx. apply in_map_iff in Hx.
  destruct Hx as [[a b] [<- Hab]]. apply In_nth_error in Hab. destruct Hab as [k Hk].
  apply seg_accept_some. eapply seg_bounds; eauto.
Qed.

Lemma cycle_vector_length : forall P rg mask ph out,
  get_cycle_vector P rg mask ph = Some out -> length out = length ph.
Proof.
  intros P rg mask ph out H. apply gcv_struct in H.
  destruct H as [[_ ->]|[Hne [goods [Hg ->]]]].
  - apply repeat_length.
  - apply out_length; [exact Hne|]. rewrite sv_length. eapply goods_length; eauto.
Qed.

Lemma segments_nonempty : forall P ph a b,
  wrap_hits P ph <> [] ->
  In (a, b) (adj (boundaries P ph)) -> (a < b <= length ph)%nat.
Proof.
  intros P ph a b Hne H. apply In_nth_error in H. destruct H as [k Hk].
  eapply seg_bounds; eauto.
Qed.

Lemma labels_consecutive : forall P rg mask ph out,
  get_cycle_vector P rg mask ph = Some out ->
  exists K,
    (forall x, In x out -> x = -1 \/ 0 <= x < K) /\
    (forall l, 0 <= l < K -> In l out) /\
    (forall i j x y, (i <= j)%nat -> nth_error out i = Some x -> nth_error out j = Some y ->
                     0 <= x -> 0 <= y -> x <= y).
Proof.
  intros P rg mask ph out H. apply gcv_struct in H.
  destruct H as [[_ ->]|[Hne [goods [Hg ->]]]].
  - exists 0. split; [|split].
    + intros x Hx. apply repeat_spec in Hx. left; exact Hx.
    + intros l Hl. lia.
    + intros i j x y _ Hx _ Hx0 _. apply nth_error_repeat_inv in Hx. lia.
  - exists (Z.of_nat (count_true goods)). split; [|split].
    + intros x Hx. apply In_nth_error in Hx. destruct Hx as [i Hi].
      destruct (gcv_out_inv _ _ _ _ _ _ _ Hne Hg Hi)
        as [k [a [b [g [Hk [Hab [Hgk [_ [_ ->]]]]]]]]].
      unfold label_of. destruct g; [right|left; reflexivity].
      pose proof (count_true_firstn_total goods k Hgk). lia.
    + intros l Hl.
      destruct (subset_index_exists goods (Z.to_nat l) ltac:(lia)) as [k Hk].
      rewrite Z2Nat.id in Hk by lia.
      assert (Hkl : (k < length (adj (boundaries P ph)))%nat).
      { rewrite <- (goods_length _ _ _ _ _ _ Hg), <- sv_length.
        apply nth_error_Some. congruence. }
      destruct (nth_error (adj (boundaries P ph)) k) as [[a b]|] eqn:Ek;
        [|apply nth_error_None in Ek; lia].
      pose proof (seg_bounds P ph k a b Hne Ek) as Hb.
      apply (nth_error_In _ a). eapply out_nth; eauto. lia.
    + intros i j x y Hij Hx Hy Hx0 Hy0.
      destruct (gcv_out_inv _ _ _ _ _ _ _ Hne Hg Hx)
        as [k [a [b [g [Hk [Hab [Hgk [_ [_ ->]]]]]]]]].
      destruct (gcv_out_inv _ _ _ _ _ _ _ Hne Hg Hy)
        as [k' [a' [b' [g' [Hk' [Hab' [Hgk' [_ [_ ->]]]]]]]]].
      apply label_of_nonneg in Hx0, Hy0. subst g g'. unfold label_of.
      assert (Hkk : (k <= k')%nat).
      { destruct (le_lt_dec k k') as [L|L]; [exact L|].
        pose proof (adj_sorted_order _ k' k a' b' a b (boundaries_sorted P ph Hne) L Hk' Hk).
        lia. }
      pose proof (count_true_firstn_le goods k k' Hkk). lia.
Qed.

(* two samples carrying the same non-negative label lie in the same segment *)
Lemma same_label_same_seg : forall P rg mask ph goods i j l, wrap_hits P ph <> [] ->
  all_some (map (seg_accept P rg mask ph) (adj (boundaries P ph))) = Some goods ->
  nth_error (expand (adj (boundaries P ph)) (get_subset_vector goods)) i = Some l ->
  nth_error (expand (adj (boundaries P ph)) (get_subset_vector goods)) j = Some l ->
  0 <= l ->
  exists k a b, nth_error (adj (boundaries P ph)) k = Some (a, b) /\
    (a <= i < b)%nat /\ (a <= j < b)%nat /\
    nth_error (get_subset_vector goods) k = Some l.
Proof.
  intros P rg mask ph goods i j l Hne Hg Hi Hj Hl.
  destruct (gcv_out_inv _ _ _ _ _ _ _ Hne Hg Hi)
    as [k [a [b [g [Hk [Hab [Hgk [_ [Hlk _]]]]]]]]].
  destruct (gcv_out_inv _ _ _ _ _ _ _ Hne Hg Hj)
    as [k' [a' [b' [g' [Hk' [Hab' [Hgk' [_ [Hlk' _]]]]]]]]].
  assert (k = k') by (eapply sv_inj; eauto). subst k'.
  rewrite Hk in Hk'. injection Hk' as <- <-.
  exists k, a, b. auto.
Qed.

Lemma label_runs_contiguous : forall P rg mask ph out i j m l,
  get_cycle_vector P rg mask ph = Some out ->
  nth_error out i = Some l -> nth_error out j = Some l -> 0 <= l ->
  (i <= m <= j)%nat -> nth_error out m = Some l.
Proof.
  intros P rg mask ph out i j m l H Hi Hj Hl Hm. apply gcv_struct in H.
  destruct H as [[_ ->]|[Hne [goods [Hg ->]]]].
  - apply nth_error_repeat_inv in Hi. lia.
  - destruct (same_label_same_seg _ _ _ _ _ _ _ _ Hne Hg Hi Hj Hl)
      as [k [a [b [Hk [Hia [Hja Hlk]]]]]].
    eapply out_nth; eauto. lia.
Qed.

Lemma no_internal_wrap : forall P rg mask ph out i l,
  get_cycle_vector P rg mask ph = Some out ->
  nth_error out i = Some l -> nth_error out (S i) = Some l -> 0 <= l ->
  ~ wrap_at P ph (S i).
Proof.
  intros P rg mask ph out i l H Hi Hj Hl Hw. apply gcv_struct in H.
  destruct H as [[_ ->]|[Hne [goods [Hg ->]]]].
  - apply nth_error_repeat_inv in Hi. lia.
  - destruct (same_label_same_seg _ _ _ _ _ _ _ _ Hne Hg Hi Hj Hl)
      as [k [a [b [Hk [Hia [Hja Hlk]]]]]].
    apply (adj_no_boundary_inside _ k a b (S i) (boundaries_sorted P ph Hne) Hk).
    + apply boundaries_In. right; left; exact Hw.
    + lia.
Qed.

Lemma run_begins_at_wrap_or_start : forall P rg mask ph out i l,
  get_cycle_vector P rg mask ph = Some out ->
  nth_error out i = Some l -> 0 <= l ->
  (i = 0%nat \/ exists x, nth_error out (i - 1) = Some x /\ x <> l) ->
  i = 0%nat \/ wrap_at P ph i.
Proof.
  intros P rg mask ph out i l H Hi Hl Hprev.
  destruct (Nat.eq_dec i 0) as [E|E]; [left; exact E|right].
  destruct Hprev as [E0|[x [Hx Hxl]]]; [contradiction|].
  apply gcv_struct in H. destruct H as [[_ ->]|[Hne [goods [Hg ->]]]].
  - apply nth_error_repeat_inv in Hi. lia.
  - destruct (gcv_out_inv _ _ _ _ _ _ _ Hne Hg Hi)
      as [k [a [b [g [Hk [Hab [Hgk [_ [Hlk _]]]]]]]]].
    pose proof (seg_bounds P ph k a b Hne Hk) as Hb.
    destruct (Nat.eq_dec a i) as [Ea|Ea].
    + subst a. apply adj_nth_inv in Hk. destruct Hk as [Ha _]. apply nth_error_In in Ha.
      apply boundaries_In in Ha. destruct Ha as [Ha|[Ha|Ha]]; [lia|exact Ha|lia].
    + exfalso. apply Hxl.
      assert (Hp : nth_error (expand (adj (boundaries P ph)) (get_subset_vector goods)) (i - 1)
                   = Some l) by (eapply out_nth; eauto; lia).
      congruence.
Qed.

Lemma run_ends_at_wrap_or_end : forall P rg mask ph out i l,
  get_cycle_vector P rg mask ph = Some out ->
  nth_error out i = Some l -> 0 <= l ->
  (S i = length ph \/ exists x, nth_error out (S i) = Some x /\ x <> l) ->
  S i = length ph \/ wrap_at P ph (S i).
Proof.
  intros P rg mask ph out i l H Hi Hl Hnext.
  destruct Hnext as [E0|[x [Hx Hxl]]]; [left; exact E0|].
  apply gcv_struct in H. destruct H as [[_ ->]|[Hne [goods [Hg ->]]]].
  - apply nth_error_repeat_inv in Hi. lia.
  - destruct (gcv_out_inv _ _ _ _ _ _ _ Hne Hg Hi)
      as [k [a [b [g [Hk [Hab [Hgk [_ [Hlk _]]]]]]]]].
    pose proof (seg_bounds P ph k a b Hne Hk) as Hb.
    destruct (Nat.eq_dec b (S i)) as [Eb|Eb].
    + subst b. apply adj_nth_inv in Hk. destruct Hk as [_ Hb']. apply nth_error_In in Hb'.
      apply boundaries_In in Hb'. destruct Hb' as [Hb'|[Hb'|Hb']]; [lia|right; exact Hb'|left; exact Hb'].
    + exfalso. apply Hxl.
      assert (Hp : nth_error (expand (adj (boundaries P ph)) (get_subset_vector goods)) (S i)
                   = Some l) by (eapply out_nth; eauto; lia).
      congruence.
Qed.

Lemma all_cycles_cover : forall P ph out,
  get_cycle_vector P false None ph = Some out ->
  (exists i, wrap_at P ph i) ->
  Forall (fun x => 0 <= x) out.
Proof.
  intros P ph out H [i0 Hw]. apply gcv_struct in H.
  destruct H as [[E _]|[Hne [goods [Hg ->]]]].
  - apply wrap_hits_In in Hw. rewrite E in Hw. destruct Hw.
  - apply Forall_forall. intros x Hx. apply In_nth_error in Hx. destruct Hx as [i Hi].
    destruct (gcv_out_inv _ _ _ _ _ _ _ Hne Hg Hi)
      as [k [a [b [g [Hk [Hab [Hgk [Hacc [_ ->]]]]]]]]].
    unfold seg_accept, mask_ok in Hacc. cbn [negb] in Hacc. injection Hacc as <-.
    unfold label_of. lia.
Qed.

Lemma no_wrap_no_cycles : forall P rg mask ph,
  (forall i, ~ wrap_at P ph i) ->
  get_cycle_vector P rg mask ph = Some (repeat (-1) (length ph)).
Proof.
  intros P rg mask ph H. unfold get_cycle_vector. rewrite (no_wrap_no_hits P ph H). reflexivity.
Qed.

Lemma all_cycles_cover_v0_refuted : exists P ph out,
  get_cycle_vector_v0 P false None ph = Some out /\
  (exists i, wrap_at P ph i) /\ ~ Forall (fun x => 0 <= x) out.
Proof.
  exists {| step := 37; e_lo := 2; e_hi := 49; twopi := 50 |}, [2; 24; 50; 2; 36; 50; 2],
         [0; 0; 0; 1; 1; 1; -1].
  split; [vm_compute; reflexivity|]. split.
  - exists 3%nat. split; [lia|]. exists 50, 2. split; [reflexivity|]. split; [reflexivity|].
    cbn [step]. lia.
  - intros H. rewrite Forall_forall in H. specialize (H (-1)).
    assert (Hin : In (-1) [0; 0; 0; 1; 1; 1; -1]) by (cbn [In]; tauto).
    specialize (H Hin). lia.
Qed.

Lemma detection_total_v0_refuted : exists P ph, get_cycle_vector_v0 P true None ph = None.
Proof.
  exists {| step := 37; e_lo := 2; e_hi := 49; twopi := 50 |}, [2; 24; 50; 2; 36; 50; 2].
  vm_compute. reflexivity.
Qed.

Lemma c12_premises_hold :
  let P := {| step := 37; e_lo := 2; e_hi := 49; twopi := 50 |} in
  get_cycle_vector P false None [2; 24; 50; 2; 36; 50; 2] = Some [0; 0; 0; 1; 1; 1; 2] /\
  wrap_at P [2; 24; 50; 2; 36; 50; 2] 6.
Proof.
  intros P. split; [vm_compute; reflexivity|].
  split; [lia|]. exists 50, 2. split; [reflexivity|]. split; [reflexivity|].
  unfold P. cbn [step]. lia.
Qed.

(* ---------- C13 --------------------------------------------------------------- *)

Lemma seg_accept_good_iff : forall P mask ph a b, (a < b <= length ph)%nat ->
  (seg_accept P true mask ph (a, b) = Some true <-> meets_criteria P mask ph a b).
Proof.
  intros P mask ph a b Hab. unfold seg_accept, meets_criteria.
  pose proof (slice_nonempty _ ph a b Hab) as Hne.
  destruct (mask_ok mask a b); cbn [negb].
  2:{ split; [discriminate|]. intros [_ [_ [_ H]]]. discriminate. }
  unfold is_good. destruct (slice ph a b) as [|f t] eqn:E; [congruence|].
  cbv zeta. cbn [hd]. rewrite (last_indep _ (f :: t) f 0) by discriminate.
  split.
  - intros H. injection H as H. rewrite !andb_true_iff in H. rewrite !Z.leb_le in H.
    destruct H as [[H1 [H2 H3]] [H4 H5]]. repeat split; assumption.
  - intros [H1 [[H2 H3] [[H4 H5] _]]]. f_equal. rewrite !andb_true_iff, !Z.leb_le.
    repeat split; assumption.
Qed.

Lemma good_iff : forall P mask ph out a b,
  get_cycle_vector P true mask ph = Some out ->
  wrap_hits P ph <> [] ->
  In (a, b) (adj (boundaries P ph)) ->
  ((forall i, (a <= i < b)%nat -> nth_error out i = Some (-1)) \/
   (exists l, 0 <= l /\ forall i, (a <= i < b)%nat -> nth_error out i = Some l)) /\
  ((exists l, 0 <= l /\ forall i, (a <= i < b)%nat -> nth_error out i = Some l)
   <-> meets_criteria P mask ph a b).
Proof.
  intros P mask ph out a b H Hne Hin. apply gcv_struct in H.
  destruct H as [[E _]|[_ [goods [Hg ->]]]]; [congruence|].
  apply In_nth_error in Hin. destruct Hin as [k Hk].
  pose proof (seg_bounds P ph k a b Hne Hk) as Hb.
  destruct (goods_nth _ _ _ _ _ goods k (a, b) Hg Hk) as [g [Hgk Hacc]].
  assert (Hall : forall i, (a <= i < b)%nat ->
            nth_error (expand (adj (boundaries P ph)) (get_subset_vector goods)) i
            = Some (label_of goods k g)).
  { intros i Hi. eapply out_nth; eauto. apply label_nth; exact Hgk. }
  rewrite <- (seg_accept_good_iff P mask ph a b Hb). rewrite Hacc.
  split.
  - destruct g.
    + right. exists (label_of goods k true).
      split; [apply label_of_nonneg; reflexivity|exact Hall].
    + left. exact Hall.
  - split.
    + intros [l [Hl Hl']]. specialize (Hl' a ltac:(lia)). rewrite (Hall a ltac:(lia)) in Hl'.
      injection Hl' as <-. apply label_of_nonneg in Hl. congruence.
    + intros Hgt. injection Hgt as ->. exists (label_of goods k true).
      split; [apply label_of_nonneg; reflexivity|exact Hall].
Qed.

(* the all-cycles run accepts every segment, so segment k is labelled k *)
Lemma goodsA_true : forall P ph segs goods j,
  all_some (map (seg_accept P false None ph) segs) = Some goods ->
  (j < length segs)%nat -> nth_error goods j = Some true.
Proof.
  intros P ph segs goods j H Hj.
  destruct (nth_error segs j) as [ab|] eqn:E; [|apply nth_error_None in E; lia].
  destruct (goods_nth _ _ _ _ _ _ _ _ H E) as [g [Hg Hacc]]. destruct ab as [a b].
  unfold seg_accept, mask_ok in Hacc. cbn [negb] in Hacc. congruence.
Qed.

Lemma labelsA_nth : forall P ph segs goods k,
  all_some (map (seg_accept P false None ph) segs) = Some goods ->
  (k < length segs)%nat -> nth_error (get_subset_vector goods) k = Some (Z.of_nat k).
Proof.
  intros P ph segs goods k H Hk.
  rewrite subset_vector_spec, (goodsA_true P ph segs goods k H Hk). cbn [option_map].
  rewrite count_true_all; [reflexivity|].
  intros j Hj. eapply goodsA_true; eauto. lia.
Qed.

Lemma zmax_repeat : forall n, zmax_list (-1) (repeat (-1) n) = -1.
Proof. induction n as [|n IH]; cbn [repeat zmax_list]; [reflexivity|rewrite IH; reflexivity]. Qed.

Lemma ncycles_all : forall P ph goods, wrap_hits P ph <> [] ->
  all_some (map (seg_accept P false None ph) (adj (boundaries P ph))) = Some goods ->
  ncycles (expand (adj (boundaries P ph)) (get_subset_vector goods))
  = length (adj (boundaries P ph)).
Proof.
  intros P ph goods Hne Hg. unfold ncycles.
  set (out := expand (adj (boundaries P ph)) (get_subset_vector goods)).
  set (n := length (adj (boundaries P ph))).
  assert (Hn : (1 <= n)%nat) by (unfold n; rewrite segs_length; lia).
  assert (Hub : forall x, In x out -> x < Z.of_nat n).
  { intros x Hx. apply expand_In in Hx. apply In_nth_error in Hx. destruct Hx as [k Hk].
    assert (Hkn : (k < n)%nat).
    { unfold n. rewrite <- (goods_length _ _ _ _ _ _ Hg), <- sv_length.
      apply nth_error_Some. congruence. }
    rewrite (labelsA_nth _ _ _ _ k Hg Hkn) in Hk. injection Hk as <-. lia. }
  assert (Hlast : In (Z.of_nat (n - 1)) out).
  { destruct (nth_error (adj (boundaries P ph)) (n - 1)) as [[a b]|] eqn:Ek;
      [|apply nth_error_None in Ek; fold n in Ek; lia].
    pose proof (seg_bounds P ph _ a b Hne Ek) as Hb.
    apply (nth_error_In _ a). unfold out. eapply out_nth; eauto; [|lia].
    apply (labelsA_nth _ _ _ _ (n - 1)%nat Hg). fold n. lia. }
  pose proof (zmax_list_ge (-1) out _ Hlast) as Hge.
  assert (E : zmax_list (-1) out + 1 = Z.of_nat n).
  { destruct (zmax_list_in (-1) out) as [E|I]; [lia|]. specialize (Hub _ I). lia. }
  rewrite E. apply Nat2Z.id.
Qed.

Lemma good_is_renumbered_subset : forall P mask ph allv good,
  get_cycle_vector P false None ph = Some allv ->
  get_cycle_vector P true mask ph = Some good ->
  exists g : list bool,
    length g = ncycles allv /\
    good = map (fun k => nth (Z.to_nat k) (get_subset_vector g) (-1)) allv.
Proof.
  intros P mask ph allv good HA HG. apply gcv_struct in HA. apply gcv_struct in HG.
  destruct HA as [[EA ->]|[Hne [gA [HgA ->]]]].
  - destruct HG as [[_ ->]|[Hne _]]; [|congruence].
    exists []. split.
    + unfold ncycles. rewrite zmax_repeat. reflexivity.
    + rewrite map_repeat_const. reflexivity.
  - destruct HG as [[E _]|[_ [g [Hg ->]]]]; [congruence|].
    exists g. split.
    + rewrite (ncycles_all P ph gA Hne HgA). eapply goods_length; eauto.
    + rewrite expand_map. f_equal. apply nth_error_ext_eq. intros k.
      rewrite nth_error_map.
      assert (Hlg : length (get_subset_vector g) = length (adj (boundaries P ph))).
      { rewrite sv_length. eapply goods_length; eauto. }
      destruct (lt_dec k (length (adj (boundaries P ph)))) as [L|L].
      * rewrite (labelsA_nth _ _ _ _ k HgA L). cbn [option_map]. rewrite Nat2Z.id.
        apply nth_error_nth'. lia.
      * assert (E1 : nth_error (get_subset_vector g) k = None) by (apply nth_error_None; lia).
        assert (E2 : nth_error (get_subset_vector gA) k = None).
        { apply nth_error_None. rewrite sv_length, (goods_length _ _ _ _ _ _ HgA). lia. }
        rewrite E1, E2. reflexivity.
Qed.

Lemma select_cycle_all : forall P ph goods k a b, wrap_hits P ph <> [] ->
  all_some (map (seg_accept P false None ph) (adj (boundaries P ph))) = Some goods ->
  nth_error (adj (boundaries P ph)) k = Some (a, b) ->
  select_cycle (expand (adj (boundaries P ph)) (get_subset_vector goods)) ph (Z.of_nat k)
  = slice ph a b.
Proof.
  intros P ph goods k a b Hne Hg Hk. unfold select_cycle, map_cycle_to_samples.
  pose proof (seg_bounds P ph k a b Hne Hk) as Hb.
  assert (Hkn : (k < length (adj (boundaries P ph)))%nat) by (apply nth_error_Some; congruence).
  assert (E : positions (Z.eqb (Z.of_nat k))
                (expand (adj (boundaries P ph)) (get_subset_vector goods)) = seq a (b - a)).
  { apply sorted_ext; [apply positions_sorted|apply seq_sorted|].
    intros i. rewrite In_positions, in_seq. split.
    - intros [x [Hx He]]. apply Z.eqb_eq in He. subst x.
      destruct (gcv_out_inv _ _ _ _ _ _ _ Hne Hg Hx)
        as [k' [a' [b' [g [Hk' [Hab' [_ [_ [Hl _]]]]]]]]].
      assert (Hkn' : (k' < length (adj (boundaries P ph)))%nat)
        by (apply nth_error_Some; congruence).
      rewrite (labelsA_nth _ _ _ _ k' Hg Hkn') in Hl. injection Hl as Hl.
      apply Nat2Z.inj in Hl. subst k'. rewrite Hk in Hk'. injection Hk' as <- <-. lia.
    - intros Hi. exists (Z.of_nat k). split; [|apply Z.eqb_refl].
      eapply out_nth; eauto; [|lia]. apply (labelsA_nth _ _ _ _ k Hg Hkn). }
  rewrite E. unfold slice. apply map_nth_seq. lia.
Qed.

Lemma nth_error_seq : forall a n k, (k < n)%nat -> nth_error (seq a n) k = Some (a + k)%nat.
Proof.
  intros a n k H. rewrite (nth_error_nth' _ 0%nat) by (rewrite seq_length; lia).
  rewrite seq_nth by lia. reflexivity.
Qed.

Lemma is_good_some : forall P seg, seg <> [] -> is_good P seg <> None.
Proof. intros P seg H. destruct seg; [congruence|]. discriminate. Qed.

Lemma container_flag_agrees : forall P ph flags allv good,
  container_is_good P ph = Some flags ->
  get_cycle_vector P false None ph = Some allv ->
  get_cycle_vector P true None ph = Some good ->
  length flags = ncycles allv /\
  Forall (fun f => f <> None) flags /\
  (forall i k, nth_error allv i = Some k -> 0 <= k ->
     (nth_error flags (Z.to_nat k) = Some (Some true) <->
      exists l, nth_error good i = Some l /\ 0 <= l)).
Proof.
  intros P ph flags allv good HC HA HG. unfold container_is_good in HC. rewrite HA in HC.
  injection HC as <-.
  split; [rewrite map_length, seq_length; reflexivity|].
  apply gcv_struct in HA. apply gcv_struct in HG.
  destruct HA as [[EA ->]|[Hne [gA [HgA ->]]]].
  - split.
    + unfold ncycles. rewrite zmax_repeat. constructor.
    + intros i k Hk Hk0. apply nth_error_repeat_inv in Hk. lia.
  - destruct HG as [[E _]|[_ [g [Hg ->]]]]; [congruence|].
    rewrite (ncycles_all P ph gA Hne HgA).
    split.
    + apply Forall_forall. intros f Hf. apply in_map_iff in Hf. destruct Hf as [k [<- Hk]].
      apply in_seq in Hk.
      destruct (nth_error (adj (boundaries P ph)) k) as [[a b]|] eqn:Ek;
        [|apply nth_error_None in Ek; lia].
      rewrite (select_cycle_all P ph gA k a b Hne HgA Ek).
      apply is_good_some. apply slice_nonempty. eapply seg_bounds; eauto.
    + intros i k Hk Hk0.
      destruct (gcv_out_inv _ _ _ _ _ _ _ Hne HgA Hk)
        as [kk [a [b [gg [Hkk [Hab [_ [_ [Hl _]]]]]]]]].
      assert (Hkn : (kk < length (adj (boundaries P ph)))%nat)
        by (apply nth_error_Some; congruence).
      rewrite (labelsA_nth _ _ _ _ kk HgA Hkn) in Hl. injection Hl as <-.
      rewrite Nat2Z.id. rewrite nth_error_map, (nth_error_seq 0 _ kk Hkn).
      cbn [option_map Nat.add].
      rewrite (select_cycle_all P ph gA kk a b Hne HgA Hkk).
      destruct (gcv_out_nth P true None ph g kk a b i Hne Hg Hkk Hab) as [gd [Hgd [Hacc Hout]]].
      unfold seg_accept, mask_ok in Hacc. cbn [negb] in Hacc. rewrite Hacc, Hout.
      split.
      * intros H. injection H as ->. exists (label_of g kk true).
        split; [reflexivity|apply label_of_nonneg; reflexivity].
      * intros [l [Hl Hl0]]. injection Hl as <-. apply label_of_nonneg in Hl0.
        subst gd. reflexivity.
Qed.

Lemma container_flag_v0_refuted : exists Pd P ph flags allv good i k,
  container_is_good_v0 Pd P ph = Some flags /\
  get_cycle_vector P false None ph = Some allv /\
  get_cycle_vector P true None ph = Some good /\
  nth_error allv i = Some k /\ 0 <= k /\
  nth_error flags (Z.to_nat k) = Some (Some true) /\
  nth_error good i = Some (-1).
Proof.
  exists {| step := 37; e_lo := 2; e_hi := 49; twopi := 50 |},
         {| step := 37; e_lo := 1; e_hi := 50; twopi := 50 |},
         [50; 2; 24; 50; 2],
         [Some false; Some true; Some false],
         [0; 1; 1; 1; 2],
         [-1; -1; -1; -1; -1],
         1%nat, 1.
  split; [vm_compute; reflexivity|].
  split; [vm_compute; reflexivity|].
  split; [vm_compute; reflexivity|].
  split; [reflexivity|].
  split; [lia|].
  split; reflexivity.
Qed.

Lemma c13_premises_hold :
  let P := {| step := 37; e_lo := 2; e_hi := 49; twopi := 50 |} in
  get_cycle_vector P true None [24; 50; 2; 24; 50; 2; 36] = Some [-1; -1; 0; 0; 0; -1; -1] /\
  meets_criteria P None [24; 50; 2; 24; 50; 2; 36] 2 5.
Proof.
  intros P. split; [vm_compute; reflexivity|].
  assert (E : slice [24; 50; 2; 24; 50; 2; 36] 2 5 = [2; 24; 50]) by reflexivity.
  unfold meets_criteria. cbv zeta. rewrite E. unfold P. cbn [hd last e_lo e_hi twopi].
  split; [reflexivity|]. split; [lia|]. split; [lia|reflexivity].
Qed.
