(* Proofs for properties C12 and C13: get_cycle_vector partitions the phase
   series at its wraps, and the good cycles are those meeting the documented
   criteria.  The statements of the main lemmas are exactly those of
   props/Prop_C12.v and props/Prop_C13.v. *)
From Coq Require Import ZArith List Bool Lia Arith Sorted.
From EmdV Require Import lib.NpLite model.CycleMaps model.CycleVec proofs.CycleMapsFacts.
Import ListNotations.
Open Scope Z_scope.

(* ---------- general list facts -------------------------------------------- *)

Lemma nth_error_repeat_lt : forall A (x : A) n i,
  (i < n)%nat -> nth_error (repeat x n) i = Some x.
Proof.
  induction n as [|n IH]; intros i H; [lia|].
  destruct i as [|i]; cbn [repeat nth_error]; [reflexivity|]. apply IH. lia.
Qed.

Lemma nth_error_repeat_inv : forall A (x y : A) n i,
  nth_error (repeat x n) i = Some y -> y = x.
Proof.
  intros A x y n i H. apply nth_error_In in H. apply repeat_spec in H. exact H.
Qed.

Lemma nth_error_ext_eq : forall A (l1 l2 : list A),
  (forall k, nth_error l1 k = nth_error l2 k) -> l1 = l2.
Proof.
  induction l1 as [|a t IH]; intros [|b t'] H.
  - reflexivity.
  - specialize (H 0%nat); discriminate.
  - specialize (H 0%nat); discriminate.
  - pose proof (H 0%nat) as H0. cbn [nth_error] in H0. injection H0 as ->.
    f_equal. apply IH. intros k. exact (H (S k)).
Qed.

Lemma last_cons : forall A (t : list A) a d, last (a :: t) d = last t a.
Proof.
  induction t as [|b t IH]; intros a d; [reflexivity|].
  change (last (a :: b :: t) d) with (last (b :: t) d).
  rewrite (IH b d), (IH b a). reflexivity.
Qed.

Lemma last_indep : forall A (l : list A) d d', l <> [] -> last l d = last l d'.
Proof.
  intros A l d d' H. destruct l as [|a t]; [congruence|].
  rewrite !last_cons. reflexivity.
Qed.

Lemma sorted_nth_lt : forall l i j x y, StronglySorted lt l -> (i < j)%nat ->
  nth_error l i = Some x -> nth_error l j = Some y -> (x < y)%nat.
Proof.
  induction l as [|a t IH]; intros i j x y Hs Hij Hi Hj.
  - destruct i; discriminate.
  - inversion Hs as [|? ? Hs' Hf]; subst.
    destruct j as [|j]; [lia|]. cbn [nth_error] in Hj.
    destruct i as [|i]; cbn [nth_error] in Hi.
    + injection Hi as <-. rewrite Forall_forall in Hf. apply Hf.
      eapply nth_error_In; eauto.
    + apply (IH i j x y Hs'); [lia|exact Hi|exact Hj].
Qed.

Lemma sorted_nth_le : forall l i j x y, StronglySorted lt l -> (i <= j)%nat ->
  nth_error l i = Some x -> nth_error l j = Some y -> (x <= y)%nat.
Proof.
  intros l i j x y Hs Hij Hi Hj.
  destruct (Nat.eq_dec i j) as [->|Hne].
  - rewrite Hi in Hj. injection Hj as ->. lia.
  - pose proof (sorted_nth_lt l i j x y Hs ltac:(lia) Hi Hj). lia.
Qed.

Lemma sorted_nth_lt_inv : forall l i j x y, StronglySorted lt l -> (x < y)%nat ->
  nth_error l i = Some x -> nth_error l j = Some y -> (i < j)%nat.
Proof.
  intros l i j x y Hs Hxy Hi Hj.
  destruct (lt_dec i j) as [L|L]; [exact L|].
  pose proof (sorted_nth_le l j i y x Hs ltac:(lia) Hj Hi). lia.
Qed.

Lemma sorted_ext : forall l1 l2 : list nat,
  StronglySorted lt l1 -> StronglySorted lt l2 ->
  (forall x, In x l1 <-> In x l2) -> l1 = l2.
Proof.
  induction l1 as [|a t IH]; intros [|b t'] H1 H2 H.
  - reflexivity.
  - exfalso. apply (proj2 (H b)). left; reflexivity.
  - exfalso. apply (proj1 (H a)). left; reflexivity.
  - inversion H1 as [|? ? H1' F1]; subst. inversion H2 as [|? ? H2' F2]; subst.
    rewrite Forall_forall in F1, F2.
    assert (a = b) as ->.
    { destruct (proj1 (H a) (or_introl eq_refl)) as [E|I1]; [congruence|].
      destruct (proj2 (H b) (or_introl eq_refl)) as [E|I2]; [congruence|].
      specialize (F1 _ I2). specialize (F2 _ I1). lia. }
    f_equal. apply IH; [assumption|assumption|].
    intros x. split; intros Hx.
    + destruct (proj1 (H x) (or_intror Hx)) as [E|I]; [|exact I].
      subst x. specialize (F1 _ Hx). lia.
    + destruct (proj2 (H x) (or_intror Hx)) as [E|I]; [|exact I].
      subst x. specialize (F2 _ Hx). lia.
Qed.

Lemma seq_sorted : forall n a, StronglySorted lt (seq a n).
Proof.
  induction n as [|n IH]; intros a; cbn [seq]; constructor.
  - apply IH.
  - apply Forall_forall. intros x Hx. apply in_seq in Hx. lia.
Qed.

Lemma sorted_map_S : forall l, StronglySorted lt l -> StronglySorted lt (map S l).
Proof.
  induction l as [|a t IH]; intros H; cbn [map]; constructor.
  - inversion H; subst. apply IH. assumption.
  - inversion H as [|? ? _ F]; subst. rewrite Forall_forall in *.
    intros x Hx. apply in_map_iff in Hx. destruct Hx as [y [<- Hy]]. specialize (F _ Hy). lia.
Qed.

Lemma sorted_app_last : forall l N, StronglySorted lt l -> (forall x, In x l -> (x < N)%nat) ->
  StronglySorted lt (l ++ [N]).
Proof.
  induction l as [|a t IH]; intros N Hs Hb; cbn [app].
  - constructor; constructor.
  - inversion Hs as [|? ? Hs' F]; subst. constructor.
    + apply IH; [exact Hs'|]. intros x Hx. apply Hb. right; exact Hx.
    + apply Forall_app. split; [exact F|]. constructor; [|constructor].
      apply Hb. left; reflexivity.
Qed.

Lemma sorted_le_last : forall t a x, StronglySorted lt (a :: t) -> In x (a :: t) ->
  (x <= last t a)%nat.
Proof.
  induction t as [|b t IH]; intros a x Hs Hx.
  - cbn [last]. destruct Hx as [->|[]]. lia.
  - rewrite last_cons. inversion Hs as [|? ? Hs' F]; subst.
    destruct Hx as [->|Hx].
    + inversion F as [|? ? Hab _]; subst.
      pose proof (IH b b Hs' (or_introl eq_refl)). lia.
    + apply IH; assumption.
Qed.

Lemma count_true_all : forall k (l : list bool),
  (forall j, (j < k)%nat -> nth_error l j = Some true) -> count_true (firstn k l) = k.
Proof.
  induction k as [|k IH]; intros l H; [reflexivity|].
  destruct l as [|x t].
  - specialize (H 0%nat ltac:(lia)). discriminate.
  - pose proof (H 0%nat ltac:(lia)) as H0. cbn [nth_error] in H0. injection H0 as ->.
    cbn [firstn count_true]. rewrite IH; [reflexivity|].
    intros j Hj. apply (H (S j)). lia.
Qed.

Lemma map_nth_seq0 : forall (l : list Z) n, (n <= length l)%nat ->
  map (fun i => nth i l 0) (seq 0 n) = firstn n l.
Proof.
  induction l as [|x t IH]; intros n H.
  - cbn [length] in H. assert (n = 0%nat) as -> by lia. reflexivity.
  - destruct n as [|n]; [reflexivity|]. cbn [length] in H.
    cbn [seq map firstn nth]. f_equal.
    rewrite <- seq_shift, map_map. cbn [nth]. apply IH. lia.
Qed.

Lemma map_nth_seq : forall a (l : list Z) n, (a + n <= length l)%nat ->
  map (fun i => nth i l 0) (seq a n) = firstn n (skipn a l).
Proof.
  induction a as [|a IH]; intros l n H.
  - cbn [skipn]. apply map_nth_seq0. lia.
  - destruct l as [|x t]; [cbn [length] in H; lia|].
    cbn [skipn]. rewrite <- seq_shift, map_map. cbn [nth]. apply IH.
    cbn [length] in H. lia.
Qed.

Lemma map_repeat_const : forall A B (f : A -> B) x n, map f (repeat x n) = repeat (f x) n.
Proof. induction n as [|n IH]; cbn [repeat map]; [reflexivity|rewrite IH; reflexivity]. Qed.

(* ---------- slices ---------------------------------------------------------- *)

Lemma slice_length : forall A (l : list A) a b, (b <= length l)%nat ->
  length (slice l a b) = (b - a)%nat.
Proof.
  intros A l a b H. unfold slice. rewrite firstn_length, skipn_length. lia.
Qed.

Lemma slice_nonempty : forall A (l : list A) a b, (a < b <= length l)%nat -> slice l a b <> [].
Proof.
  intros A l a b H E. pose proof (slice_length A l a b ltac:(lia)) as HL.
  rewrite E in HL. cbn [length] in HL. lia.
Qed.

(* ---------- zdiffs, adj ----------------------------------------------------- *)

Lemma zdiffs_nth : forall l k, nth_error (zdiffs l) k =
  match nth_error l k, nth_error l (S k) with
  | Some a, Some b => Some (b - a)
  | _, _ => None
  end.
Proof.
  induction l as [|x t IH]; intros k.
  - destruct k; reflexivity.
  - destruct t as [|y t'].
    + destruct k as [|k]; [reflexivity|]. destruct k; reflexivity.
    + change (zdiffs (x :: y :: t')) with ((y - x) :: zdiffs (y :: t')).
      destruct k as [|k]; [reflexivity|]. cbn [nth_error]. rewrite IH. reflexivity.
Qed.

Lemma adj_nth : forall l k, nth_error (adj l) k =
  match nth_error l k, nth_error l (S k) with
  | Some a, Some b => Some (a, b)
  | _, _ => None
  end.
Proof.
  induction l as [|x t IH]; intros k.
  - destruct k; reflexivity.
  - destruct t as [|y t'].
    + destruct k as [|k]; [reflexivity|]. destruct k; reflexivity.
    + change (adj (x :: y :: t')) with ((x, y) :: adj (y :: t')).
      destruct k as [|k]; [reflexivity|]. cbn [nth_error]. rewrite IH. reflexivity.
Qed.

Lemma adj_nth_inv : forall l k a b, nth_error (adj l) k = Some (a, b) ->
  nth_error l k = Some a /\ nth_error l (S k) = Some b.
Proof.
  intros l k a b H. rewrite adj_nth in H.
  destruct (nth_error l k) as [a'|]; [|discriminate].
  destruct (nth_error l (S k)) as [b'|]; [|discriminate].
  injection H as -> ->. split; reflexivity.
Qed.

Lemma adj_length : forall t a, length (adj (a :: t)) = length t.
Proof.
  induction t as [|b t IH]; intros a; [reflexivity|].
  change (adj (a :: b :: t)) with ((a, b) :: adj (b :: t)). cbn [length]. rewrite IH. reflexivity.
Qed.

(* segments of a strictly sorted boundary list *)
Lemma adj_sorted_lt : forall l k a b, StronglySorted lt l ->
  nth_error (adj l) k = Some (a, b) -> (a < b)%nat.
Proof.
  intros l k a b Hs H. apply adj_nth_inv in H. destruct H as [Ha Hb].
  eapply (sorted_nth_lt l k (S k)); eauto.
Qed.

Lemma adj_sorted_order : forall l k k' a b a' b', StronglySorted lt l -> (k < k')%nat ->
  nth_error (adj l) k = Some (a, b) -> nth_error (adj l) k' = Some (a', b') -> (b <= a')%nat.
Proof.
  intros l k k' a b a' b' Hs Hk H H'.
  apply adj_nth_inv in H. apply adj_nth_inv in H'. destruct H as [_ Hb], H' as [Ha' _].
  eapply (sorted_nth_le l (S k) k'); eauto.
Qed.

Lemma adj_sorted_unique : forall l k k' a b a' b' i, StronglySorted lt l ->
  nth_error (adj l) k = Some (a, b) -> nth_error (adj l) k' = Some (a', b') ->
  (a <= i < b)%nat -> (a' <= i < b')%nat -> k = k'.
Proof.
  intros l k k' a b a' b' i Hs H H' Hi Hi'.
  destruct (lt_eq_lt_dec k k') as [[L|E]|L]; [|exact E|].
  - pose proof (adj_sorted_order l k k' a b a' b' Hs L H H'). lia.
  - pose proof (adj_sorted_order l k' k a' b' a b Hs L H' H). lia.
Qed.

Lemma adj_no_boundary_inside : forall l k a b x, StronglySorted lt l ->
  nth_error (adj l) k = Some (a, b) -> In x l -> ~ (a < x < b)%nat.
Proof.
  intros l k a b x Hs H Hx [L1 L2].
  apply adj_nth_inv in H. destruct H as [Ha Hb].
  apply In_nth_error in Hx. destruct Hx as [m Hm].
  pose proof (sorted_nth_lt_inv l k m a x Hs L1 Ha Hm).
  pose proof (sorted_nth_lt_inv l m (S k) x b Hs L2 Hm Hb). lia.
Qed.

Lemma adj_exists : forall t b0 i, StronglySorted lt (b0 :: t) -> (b0 <= i < last t b0)%nat ->
  exists k a b, nth_error (adj (b0 :: t)) k = Some (a, b) /\ (a <= i < b)%nat.
Proof.
  induction t as [|b1 t IH]; intros b0 i Hs Hi.
  - cbn [last] in Hi. lia.
  - change (adj (b0 :: b1 :: t)) with ((b0, b1) :: adj (b1 :: t)).
    destruct (lt_dec i b1) as [L|L].
    + exists 0%nat, b0, b1. split; [reflexivity|lia].
    + inversion Hs as [|? ? Hs' Hf]; subst. rewrite last_cons in Hi.
      destruct (IH b1 i Hs' ltac:(lia)) as [k [a [b [Hk Hab]]]].
      exists (S k), a, b. split; [exact Hk|exact Hab].
Qed.

(* ---------- expand ----------------------------------------------------------- *)

Lemma expand_length : forall t b0 labels, StronglySorted lt (b0 :: t) ->
  length labels = length t ->
  length (expand (adj (b0 :: t)) labels) = (last t b0 - b0)%nat.
Proof.
  induction t as [|b1 t IH]; intros b0 labels Hs Hl.
  - cbn [adj expand length last]. lia.
  - destruct labels as [|l0 labels]; [discriminate|]. cbn [length] in Hl.
    change (adj (b0 :: b1 :: t)) with ((b0, b1) :: adj (b1 :: t)). cbn [expand].
    inversion Hs as [|? ? Hs' Hf]; subst. inversion Hf as [|? ? Hlt _]; subst.
    rewrite app_length, repeat_length, IH by (auto; lia). rewrite last_cons.
    pose proof (sorted_le_last t b1 b1 Hs' (or_introl eq_refl)). lia.
Qed.

Lemma expand_nth : forall t b0 labels, StronglySorted lt (b0 :: t) ->
  forall k a b l i, nth_error (adj (b0 :: t)) k = Some (a, b) -> nth_error labels k = Some l ->
  (a <= i < b)%nat -> nth_error (expand (adj (b0 :: t)) labels) (i - b0) = Some l.
Proof.
  induction t as [|b1 t IH]; intros b0 labels Hs k a b l i Hk Hl Hi.
  - destruct k; discriminate.
  - change (adj (b0 :: b1 :: t)) with ((b0, b1) :: adj (b1 :: t)) in Hk |- *.
    inversion Hs as [|? ? Hs' Hf]; subst. inversion Hf as [|? ? Hlt _]; subst.
    destruct labels as [|l0 labels]; [destruct k; discriminate|]. cbn [expand].
    destruct k as [|k]; cbn [nth_error] in Hk, Hl.
    + injection Hk as <- <-. injection Hl as <-.
      rewrite nth_error_app1 by (rewrite repeat_length; lia).
      apply nth_error_repeat_lt. lia.
    + pose proof (IH b1 labels Hs' k a b l i Hk Hl Hi) as IH'.
      assert (b1 <= a)%nat.
      { apply adj_nth_inv in Hk. destruct Hk as [Ha _].
        eapply (sorted_nth_le (b1 :: t) 0 k); eauto. lia. }
      rewrite nth_error_app2 by (rewrite repeat_length; lia).
      rewrite repeat_length. replace (i - b0 - (b1 - b0))%nat with (i - b1)%nat by lia.
      exact IH'.
Qed.

Lemma expand_In : forall segs labels x, In x (expand segs labels) -> In x labels.
Proof.
  induction segs as [|[a b] ts IH]; intros labels x H; [destruct H|].
  destruct labels as [|l tl]; [destruct H|]. cbn [expand] in H.
  apply in_app_or in H. destruct H as [H|H].
  - apply repeat_spec in H. left. congruence.
  - right. apply IH. exact H.
Qed.

Lemma expand_map : forall (f : Z -> Z) segs labels,
  map f (expand segs labels) = expand segs (map f labels).
Proof.
  induction segs as [|[a b] ts IH]; intros labels; [reflexivity|].
  destruct labels as [|l tl]; [reflexivity|]. cbn [expand map].
  rewrite map_app, map_repeat_const, IH. reflexivity.
Qed.

(* ---------- all_some --------------------------------------------------------- *)

Lemma all_some_length : forall A (l : list (option A)) r, all_some l = Some r -> length r = length l.
Proof.
  induction l as [|o t IH]; intros r H; cbn [all_some] in H.
  - injection H as <-. reflexivity.
  - destruct o as [x|]; [|discriminate]. destruct (all_some t) as [r'|]; [|discriminate].
    injection H as <-. cbn [length]. rewrite (IH r' eq_refl). reflexivity.
Qed.

Lemma all_some_nth : forall A (l : list (option A)) r, all_some l = Some r ->
  forall k, nth_error l k = option_map Some (nth_error r k).
Proof.
  induction l as [|o t IH]; intros r H k; cbn [all_some] in H.
  - injection H as <-. destruct k; reflexivity.
  - destruct o as [x|]; [|discriminate]. destruct (all_some t) as [r'|]; [|discriminate].
    injection H as <-. destruct k as [|k]; cbn [nth_error option_map]; [reflexivity|].
    apply IH. reflexivity.
Qed.

Lemma all_some_total : forall A (l : list (option A)),
  (forall x, In x l -> x <> None) -> all_some l <> None.
Proof.
  induction l as [|o t IH]; intros H; cbn [all_some]; [discriminate|].
  destruct o as [x|]; [|exfalso; apply (H None); [left; reflexivity|reflexivity]].
  destruct (all_some t) as [r|] eqn:E; [discriminate|].
  exfalso. apply IH; [|reflexivity]. intros y Hy. apply H. right; exact Hy.
Qed.

(* ---------- wraps and boundaries -------------------------------------------- *)

Lemma wrap_hits_In : forall P ph i, In i (wrap_hits P ph) <-> wrap_at P ph i.
Proof.
  intros P ph i. unfold wrap_hits, wrap_at. rewrite in_map_iff. split.
  - intros [p [<- Hp]]. apply In_positions in Hp. destruct Hp as [d [Hd Hw]].
    rewrite zdiffs_nth in Hd. split; [lia|].
    replace (S p - 1)%nat with p by lia.
    destruct (nth_error ph p) as [a|]; [|discriminate].
    destruct (nth_error ph (S p)) as [b|]; [|discriminate].
    injection Hd as <-. exists a, b. split; [reflexivity|]. split; [reflexivity|].
    unfold is_wrap in Hw. apply Z.ltb_lt in Hw. exact Hw.
  - intros [H1 [a [b [Ha [Hb Hw]]]]]. exists (i - 1)%nat. split; [lia|].
    apply In_positions. exists (b - a). split.
    + rewrite zdiffs_nth, Ha. replace (S (i - 1)) with i by lia. rewrite Hb. reflexivity.
    + unfold is_wrap. apply Z.ltb_lt. exact Hw.
Qed.

Lemma wrap_at_bounds : forall P ph i, wrap_at P ph i -> (1 <= i < length ph)%nat.
Proof.
  intros P ph i [H1 [a [b [_ [Hb _]]]]]. split; [exact H1|].
  apply nth_error_Some. congruence.
Qed.

Lemma wrap_hits_bounds : forall P ph i, In i (wrap_hits P ph) -> (1 <= i < length ph)%nat.
Proof. intros P ph i H. apply wrap_hits_In in H. eapply wrap_at_bounds; eauto. Qed.

Lemma wrap_hits_sorted : forall P ph, StronglySorted lt (wrap_hits P ph).
Proof. intros. unfold wrap_hits. apply sorted_map_S. apply positions_sorted. Qed.

Lemma hits_nonempty_len : forall P ph, wrap_hits P ph <> [] -> (0 < length ph)%nat.
Proof.
  intros P ph H. destruct (wrap_hits P ph) as [|i t] eqn:E; [congruence|].
  assert (Hi : In i (wrap_hits P ph)) by (rewrite E; left; reflexivity).
  apply wrap_hits_bounds in Hi. lia.
Qed.

Lemma no_wrap_no_hits : forall P ph, (forall i, ~ wrap_at P ph i) -> wrap_hits P ph = [].
Proof.
  intros P ph H. destruct (wrap_hits P ph) as [|i t] eqn:E; [reflexivity|].
  exfalso. apply (H i). apply wrap_hits_In. rewrite E. left; reflexivity.
Qed.

Lemma boundaries_sorted : forall P ph, wrap_hits P ph <> [] ->
  StronglySorted lt (boundaries P ph).
Proof.
  intros P ph Hne. pose proof (hits_nonempty_len P ph Hne) as HN. unfold boundaries. constructor.
  - apply sorted_app_last; [apply wrap_hits_sorted|].
    intros x Hx. apply wrap_hits_bounds in Hx. lia.
  - apply Forall_app. split.
    + apply Forall_forall. intros x Hx. apply wrap_hits_bounds in Hx. lia.
    + constructor; [lia|constructor].
Qed.

Lemma boundaries_In : forall P ph x,
  In x (boundaries P ph) <-> x = 0%nat \/ wrap_at P ph x \/ x = length ph.
Proof.
  intros P ph x. unfold boundaries. cbn [In]. rewrite in_app_iff, wrap_hits_In. cbn [In]. split.
  - intros [H|[H|[H|[]]]]; auto.
  - intros [H|[H|H]]; auto.
Qed.

Lemma segs_length : forall P ph,
  length (adj (boundaries P ph)) = S (length (wrap_hits P ph)).
Proof.
  intros. unfold boundaries. rewrite adj_length, app_length. cbn [length]. lia.
Qed.

Lemma seg_bounds : forall P ph k a b, wrap_hits P ph <> [] ->
  nth_error (adj (boundaries P ph)) k = Some (a, b) -> (a < b <= length ph)%nat.
Proof.
  intros P ph k a b Hne Hk. pose proof (boundaries_sorted P ph Hne) as Hs. split.
  - eapply adj_sorted_lt; eauto.
  - apply adj_nth_inv in Hk. destruct Hk as [_ Hb]. apply nth_error_In in Hb.
    unfold boundaries in Hs, Hb.
    pose proof (sorted_le_last (wrap_hits P ph ++ [length ph]) 0%nat b Hs Hb) as H.
    rewrite last_last in H. exact H.
Qed.

Lemma seg_exists : forall P ph i, wrap_hits P ph <> [] -> (i < length ph)%nat ->
  exists k a b, nth_error (adj (boundaries P ph)) k = Some (a, b) /\ (a <= i < b)%nat.
Proof.
  intros P ph i Hne Hi. pose proof (boundaries_sorted P ph Hne) as Hs.
  unfold boundaries in *. apply adj_exists; [exact Hs|]. rewrite last_last. lia.
Qed.

Lemma out_length : forall P ph labels, wrap_hits P ph <> [] ->
  length labels = length (adj (boundaries P ph)) ->
  length (expand (adj (boundaries P ph)) labels) = length ph.
Proof.
  intros P ph labels Hne Hl. pose proof (boundaries_sorted P ph Hne) as Hs.
  unfold boundaries in *. rewrite adj_length in Hl.
  rewrite expand_length; [rewrite last_last; lia|exact Hs|exact Hl].
Qed.

Lemma out_nth : forall P ph labels k a b l i, wrap_hits P ph <> [] ->
  nth_error (adj (boundaries P ph)) k = Some (a, b) -> nth_error labels k = Some l ->
  (a <= i < b)%nat -> nth_error (expand (adj (boundaries P ph)) labels) i = Some l.
Proof.
  intros P ph labels k a b l i Hne Hk Hl Hi. pose proof (boundaries_sorted P ph Hne) as Hs.
  unfold boundaries in *.
  pose proof (expand_nth _ 0%nat labels Hs k a b l i Hk Hl Hi) as H.
  rewrite Nat.sub_0_r in H. exact H.
Qed.

Lemma out_inv : forall P ph labels i x, wrap_hits P ph <> [] ->
  length labels = length (adj (boundaries P ph)) ->
  nth_error (expand (adj (boundaries P ph)) labels) i = Some x ->
  exists k a b, nth_error (adj (boundaries P ph)) k = Some (a, b) /\ (a <= i < b)%nat /\
                nth_error labels k = Some x.
Proof.
  intros P ph labels i x Hne Hl Hx.
  assert (Hi : (i < length ph)%nat).
  { rewrite <- (out_length P ph labels Hne Hl). apply nth_error_Some. congruence. }
  destruct (seg_exists P ph i Hne Hi) as [k [a [b [Hk Hab]]]].
  exists k, a, b. split; [exact Hk|]. split; [exact Hab|].
  destruct (nth_error labels k) as [l|] eqn:E.
  - rewrite (out_nth P ph labels k a b l i Hne Hk E Hab) in Hx. exact Hx.
  - apply nth_error_None in E.
    assert (k < length (adj (boundaries P ph)))%nat by (apply nth_error_Some; congruence). lia.
Qed.

(* ---------- the two branches of get_cycle_vector ----------------------------- *)

Lemma gcv_struct : forall P rg mask ph out, get_cycle_vector P rg mask ph = Some out ->
  (wrap_hits P ph = [] /\ out = repeat (-1) (length ph)) \/
  (wrap_hits P ph <> [] /\ exists goods,
     all_some (map (seg_accept P rg mask ph) (adj (boundaries P ph))) = Some goods /\
     out = expand (adj (boundaries P ph)) (get_subset_vector goods)).
Proof.
  intros P rg mask ph out H. unfold get_cycle_vector in H.
  destruct (wrap_hits P ph) as [|h t] eqn:E.
  - left. injection H as <-. split; reflexivity.
  - right. split; [discriminate|].
    destruct (all_some (map (seg_accept P rg mask ph) (adj (boundaries P ph)))) as [goods|];
      [|discriminate].
    injection H as <-. exists goods. split; reflexivity.
Qed.

Lemma goods_length : forall P rg mask ph segs goods,
  all_some (map (seg_accept P rg mask ph) segs) = Some goods -> length goods = length segs.
Proof.
  intros P rg mask ph segs goods H. apply all_some_length in H. rewrite map_length in H. exact H.
Qed.

Lemma goods_nth : forall P rg mask ph segs goods k ab,
  all_some (map (seg_accept P rg mask ph) segs) = Some goods ->
  nth_error segs k = Some ab ->
  exists g, nth_error goods k = Some g /\ seg_accept P rg mask ph ab = Some g.
Proof.
  intros P rg mask ph segs goods k ab H Hk.
  pose proof (all_some_nth _ _ _ H k) as E. rewrite nth_error_map, Hk in E.
  cbn [option_map] in E.
  destruct (nth_error goods k) as [g|]; cbn [option_map] in E; [|discriminate].
  exists g. split; [reflexivity|]. injection E as E. exact E.
Qed.

Definition label_of (goods : list bool) (k : nat) (g : bool) : Z :=
  if g then Z.of_nat (count_true (firstn k goods)) else -1.

Lemma label_nth : forall goods k g, nth_error goods k = Some g ->
  nth_error (get_subset_vector goods) k = Some (label_of goods k g).
Proof. intros goods k g H. rewrite subset_vector_spec, H. reflexivity. Qed.

Lemma gcv_out_nth : forall P rg mask ph goods k a b i, wrap_hits P ph <> [] ->
  all_some (map (seg_accept P rg mask ph) (adj (boundaries P ph))) = Some goods ->
  nth_error (adj (boundaries P ph)) k = Some (a, b) -> (a <= i < b)%nat ->
  exists g, nth_error goods k = Some g /\ seg_accept P rg mask ph (a, b) = Some g /\
    nth_error (expand (adj (boundaries P ph)) (get_subset_vector goods)) i
      = Some (label_of goods k g).
Proof.
  intros P rg mask ph goods k a b i Hne Hg Hk Hi.
  destruct (goods_nth P rg mask ph _ goods k (a, b) Hg Hk) as [g [Hgk Hacc]].
  exists g. split; [exact Hgk|]. split; [exact Hacc|].
  eapply out_nth; eauto. apply label_nth. exact Hgk.
Qed.

Lemma gcv_out_inv : forall P rg mask ph goods i x, wrap_hits P ph <> [] ->
  all_some (map (seg_accept P rg mask ph) (adj (boundaries P ph))) = Some goods ->
  nth_error (expand (adj (boundaries P ph)) (get_subset_vector goods)) i = Some x ->
  exists k a b g, nth_error (adj (boundaries P ph)) k = Some (a, b) /\ (a <= i < b)%nat /\
    nth_error goods k = Some g /\ seg_accept P rg mask ph (a, b) = Some g /\
    nth_error (get_subset_vector goods) k = Some x /\ x = label_of goods k g.
Proof.
  intros P rg mask ph goods i x Hne Hg Hx.
  apply out_inv in Hx; [|exact Hne|rewrite sv_length; eapply goods_length; eauto].
  destruct Hx as [k [a [b [Hk [Hab Hl]]]]].
  destruct (goods_nth P rg mask ph _ goods k (a, b) Hg Hk) as [g [Hgk Hacc]].
  exists k, a, b, g. repeat (split; [assumption|]).
  rewrite (label_nth goods k g Hgk) in Hl. congruence.
Qed.

Lemma label_of_nonneg : forall goods k g, 0 <= label_of goods k g <-> g = true.
Proof.
  intros goods k g. unfold label_of. destruct g; split; intros H; try reflexivity; try lia.
Qed.
