(* Proofs of the control-skeleton tie of the sift stopping rules (statements: props/Prop_Tie_Stops.v; tables:
   model/SkelPrims_Stops.v; programs: gen/Gen_Skel_Stops.v, regenerated from emd/sift.py on every run). *)
From Coq Require Import String List Bool Arith ZArith QArith Lia.
From EmdV Require Import lib.NpLite model.Toys lib.PyLoop lib.PyLoopTools gen.Gen_Skel_Stops model.SkelPrims_Stops.
Import ListNotations.
Open Scope string_scope.

Ltac ev :=
  cbv beta iota zeta delta
      [exec final_env eval eval_truth bind map_res truthy do_cmp do_arith do_index nat_cmp nat_arith iter_list
       upd lookup env_of assign_all cmp_name ar_name frame overlay normal_env
       try_finish try_finish_env exn_matches
       stops_prims prims_of table_lookup stops_table keys_are is_opaque0
       ivec thr
       sd_names sd_env0 params_sd_stop prog_sd_stop
       ril_names ril_env0 params_rilling_stop prog_rilling_stop
       fixed_names fixed_env0 params_fixed_stop prog_fixed_stop
       zc_names zc_env0 params_zero_crossing_count prog_zero_crossing_count
       String.eqb Ascii.eqb Bool.eqb fst snd nth_error andb negb orb].

(* ---- arithmetic: numpy's float semantics against the cross-multiplied integer forms of model/Toys.v ---- *)
Lemma sumsq_nonneg : forall v, (0 <= sumsq v)%Z.
Proof. unfold sumsq. induction v as [|x v IH]; cbn [map zsum]; [lia|nia]. Qed.

(* np.sum(v ** 2) is the model's sumsq *)
Lemma pow2_sumsq : forall l, zsum (map (fun z => z ^ Z.of_nat 2)%Z l) = sumsq l.
Proof.
  intros l. unfold sumsq. f_equal. apply map_ext. intros z. change (Z.of_nat 2) with 2%Z. apply Z.pow_2_r.
Qed.

Lemma zdiv_pos : forall a b, (0 < b)%Z -> zdiv a b = XQ (a # Z.to_pos b).
Proof.
  intros a b Hb. unfold zdiv. destruct b as [|p|p]; try lia.
  cbn [Z.eqb Z.sgn Z.abs Z.to_pos]. rewrite Z.mul_1_r. reflexivity.
Qed.

(* metric < sd, metric = a / b with a, b sums of squares: 0/0 = nan and x/0 = inf compare False *)
Lemma sd_decision : forall sn sd_ a b, (0 <= a)%Z -> (0 <= b)%Z ->
  xlt (zdiv a b) (XQ (sn # sd_)) = negb (b =? 0)%Z && (a * Zpos sd_ <? sn * b)%Z.
Proof.
  intros sn sd_ a b Ha Hb. destruct b as [|p|p]; try lia.
  - unfold zdiv. cbn [Z.eqb negb andb]. destruct a as [|q|q]; try lia; reflexivity.
  - rewrite zdiv_pos by lia. cbn [xlt Qnum Qden Z.to_pos Z.eqb negb andb]. reflexivity.
Qed.

Lemma count_true_le : forall l, (count_true l <= length l)%nat.
Proof. induction l as [|b l IH]; cbn [count_true length]; [lia|destruct b; lia]. Qed.

(* np.mean(E) > tol, E a bool array, tol = tn/td: the empty mean is nan and compares False *)
Lemma mean_decision : forall tn td e,
  xlt (XQ (tn # td)) (bmean e) = (tn * Z.of_nat (length e) <? Z.of_nat (count_true e) * Zpos td)%Z.
Proof.
  intros tn td e. unfold bmean. pose proof (count_true_le e) as Hc.
  destruct (length e) as [|n] eqn:El.
  - assert (Hz : count_true e = 0%nat) by lia. rewrite Hz. cbn [Z.of_nat]. unfold zdiv. cbn [Z.eqb xlt].
    rewrite Z.mul_0_r, Z.mul_0_l. reflexivity.
  - rewrite zdiv_pos by lia. cbn [xlt Qnum Qden]. rewrite Z2Pos.id by lia. reflexivity.
Qed.

(* one sample of rilling_stop: |avg|/amp > t with avg = (u+l)/2, amp = |u-l|/2, t = tn/td *)
Lemma ril_elem : forall tn td u l,
  xlt (XQ (tn # td)) (xdiv (xabs (zdiv (u + l) (Z.of_nat 2))) (zdiv (Z.abs (u - l)) (Z.of_nat 2)))
  = ril_exceeds tn (Zpos td) u l.
Proof.
  intros tn td u l. change (Z.of_nat 2) with 2%Z. rewrite !zdiv_pos by lia.
  cbn [xabs xdiv Qnum Qden Z.to_pos]. unfold ril_exceeds.
  destruct (Z.eqb_spec (u - l) 0) as [E|E].
  - replace (Z.abs (u - l) * 2)%Z with 0%Z by lia. unfold zdiv. cbn [Z.eqb].
    destruct (Z.eqb_spec (u + l) 0) as [E2|E2].
    + destruct (Z.eqb_spec (Z.abs (u + l) * 2) 0) as [E3|E3]; [reflexivity|lia].
    + destruct (Z.eqb_spec (Z.abs (u + l) * 2) 0) as [E3|E3]; [lia|].
      destruct (Z.ltb_spec 0 (Z.abs (u + l) * 2)) as [E4|E4]; [reflexivity|lia].
  - rewrite zdiv_pos by lia. cbn [xlt Qnum Qden]. rewrite Z2Pos.id by lia.
    destruct (Z.ltb_spec (tn * (Z.abs (u - l) * 2)) (Z.abs (u + l) * 2 * Zpos td)) as [H1|H1];
      destruct (Z.ltb_spec (tn * Z.abs (u - l)) (Z.abs (u + l) * Zpos td)) as [H2|H2]; try reflexivity; nia.
Qed.

(* the whole array: E > t, E = np.abs((u+l)/2) / (np.abs(u-l)/2) *)
Lemma ril_vec : forall tn td u l,
  map (fun x => xlt (XQ (tn # td)) x)
      (zipx xdiv (map xabs (map (fun z => zdiv z (Z.of_nat 2)) (zip_with Z.add u l)))
                 (map (fun z => zdiv z (Z.of_nat 2)) (map Z.abs (zip_with Z.sub u l))))
  = map (fun ul => ril_exceeds tn (Zpos td) (fst ul) (snd ul)) (combine u l).
Proof.
  intros tn td. induction u as [|a u IH]; intros l; [reflexivity|].
  destruct l as [|b l]; [reflexivity|].
  cbn [zip_with combine map zipx fst snd]. rewrite IH, ril_elem. reflexivity.
Qed.

Lemma zip_with_length : forall f a b, length (zip_with f a b) = Nat.min (length a) (length b).
Proof.
  intros f. induction a as [|x a IH]; intros b; [reflexivity|].
  destruct b as [|y b]; [reflexivity|]. cbn [zip_with length Nat.min]. rewrite IH. reflexivity.
Qed.

Lemma ivec_bin_ok : forall f a b, length a = length b -> ivec_bin f a b = Ok (VSig (NIvec (zip_with f a b))).
Proof. intros f a b H. unfold ivec_bin. rewrite H, Nat.eqb_refl. reflexivity. Qed.

Lemma xvec_div_ok : forall a b, length a = length b -> xvec_div a b = Ok (VSig (NXvec (zipx xdiv a b))).
Proof. intros a b H. unfold xvec_div. rewrite H, Nat.eqb_refl. reflexivity. Qed.

(* ---- sd_stop ------------------------------------------------------------------------------------ *)
Theorem skeleton_sd_stop : forall (sn : Z) (sd_ : positive) (proto x1 : list Z) (niters : val num) (f : nat),
  length proto = length x1 ->
  exec stops_prims prog_sd_stop f (sd_env0 proto x1 (sn # sd_) niters) = sd_render sn sd_ proto x1.
Proof.
  intros sn sd_ proto x1 niters f Hlen.
  ev. rewrite (ivec_bin_ok Z.sub proto x1 Hlen). ev.
  rewrite !pow2_sumsq. rewrite sd_decision by apply sumsq_nonneg.
  unfold sd_render, sd_metric, Toys.sd_stop, Toys.vsub. cbv zeta.
  destruct (negb (sumsq proto =? 0)%Z && (sumsq (zip_with Z.sub proto x1) * Z.pos sd_ <? sn * sumsq proto)%Z);
    ev; reflexivity.
Qed.

(* ---- rilling_stop ------------------------------------------------------------------------------- *)
Theorem skeleton_rilling_stop :
  forall (s1n : Z) (s1d : positive) (s2n : Z) (s2d : positive) (tn : Z) (td : positive)
         (u l : list Z) (niters : val num) (f : nat),
  length u = length l ->
  exec stops_prims prog_rilling_stop f (ril_env0 u l (s1n # s1d) (s2n # s2d) (tn # td) niters)
  = ril_render s1n s1d s2n s2d tn td u l.
Proof.
  intros s1n s1d s2n s2d tn td u l niters f Hlen.
  ev. rewrite (ivec_bin_ok Z.add u l Hlen). ev. rewrite (ivec_bin_ok Z.sub u l Hlen). ev.
  rewrite xvec_div_ok by (rewrite !map_length, !zip_with_length; reflexivity). ev.
  rewrite !ril_vec, mean_decision.
  unfold ril_render, ril_metric, Toys.rilling_stop. cbv zeta.
  set (e1 := map (fun ul => ril_exceeds s1n (Z.pos s1d) (fst ul) (snd ul)) (combine u l)).
  set (e2 := map (fun ul => ril_exceeds s2n (Z.pos s2d) (fst ul) (snd ul)) (combine u l)).
  destruct (tn * Z.of_nat (length e1) <? Z.of_nat (count_true e1) * Z.pos td)%Z;
    destruct (existsb (fun b => b) e2); ev; reflexivity.
Qed.

(* ---- fixed_stop --------------------------------------------------------------------------------- *)
Theorem skeleton_fixed_stop : forall (niters max_iters f : nat),
  exec stops_prims prog_fixed_stop f (fixed_env0 niters max_iters) = fixed_render niters max_iters.
Proof.
  intros niters max_iters f. ev. unfold fixed_render.
  destruct (Nat.eqb niters max_iters); ev; reflexivity.
Qed.

(* ---- zero_crossing_count (1-D integer arrays) ---------------------------------------------------- *)
Theorem skeleton_zero_crossing_count : forall (X : list Z) (f : nat),
  exec stops_prims prog_zero_crossing_count f (zc_env0 X) = zc_render X.
Proof. intros X f. ev. cbn [Nat.eqb]. ev. reflexivity. Qed.

(* ---- _energy_difference / energy_stop: log10 is an oracle ----------------------------------------- *)
Section EnergyTie.
  Variable D : Type.
  Variable lg : Z -> D.
  Variable uninit : D.
  Variable dscale : nat -> D -> D.
  Variable dsub : D -> D -> D.
  Variable dgt : D -> D -> bool.
  Local Notation PB := (energy_base_prims D lg uninit dscale dsub dgt).
  Local Notation PE := (energy_prims D lg uninit dscale dsub dgt).

  Ltac eev :=
    cbv beta iota zeta delta
        [exec final_env eval eval_truth bind map_res truthy do_cmp do_arith do_index nat_cmp nat_arith iter_list
         upd lookup env_of assign_all cmp_name ar_name frame overlay normal_env
         try_finish try_finish_env exn_matches
         energy_base_prims energy_prims prims_of table_lookup energy_base_table energy_table keys_are is_opaque0
         call_energy_difference
         ediff_names ediff_env0 params_energy_difference prog_energy_difference
         estop_names estop_env0 params_energy_stop prog_energy_stop
         String.eqb Ascii.eqb Bool.eqb fst snd nth_error andb negb orb].

  Theorem skeleton_energy_difference : forall (imf residue : list Z) (f : nat),
    exec PB prog_energy_difference f (ediff_env0 D imf residue) = ediff_render D lg uninit dscale dsub imf residue.
  Proof.
    intros imf residue f. eev. rewrite !pow2_sumsq. change (Z.of_nat 0) with 0%Z. reflexivity.
  Qed.

  Theorem skeleton_energy_stop : forall (imf residue : list Z) (thresh : D) (niters : val (enum D)) (f : nat),
    exec PE prog_energy_stop f (estop_env0 D imf residue thresh niters)
    = estop_render D lg uninit dscale dsub dgt imf residue thresh.
  Proof.
    intros imf residue thresh niters f.
    eev. rewrite !pow2_sumsq. change (Z.of_nat 0) with 0%Z.
    unfold estop_render, energy_db, lg_guarded.
    destruct (dgt _ thresh); eev; reflexivity.
  Qed.

  (* the call row of the table is what the translated body of _energy_difference returns *)
  Lemma call_energy_difference_is_body : forall imf residue,
    call_energy_difference D lg uninit dscale dsub dgt [VSig (EIvec imf); VSig (EIvec residue)] []
    = Ok (VSig (EDb (energy_db D lg uninit dscale dsub imf residue))).
  Proof.
    intros imf residue. unfold call_energy_difference.
    rewrite (skeleton_energy_difference imf residue 0). reflexivity.
  Qed.

  (* with the 20 dB contract of the log10 oracle and both sums positive (the cases the harness keeps):
     energy_stop(X, res, 20) decides exactly the model's energy_fires *)
  Theorem energy_stop_fires : forall (t20 : D) (X res : list Z) (niters : val (enum D)) (f : nat),
    log10_contract D lg dscale dsub dgt t20 -> (0 < sumsq X)%Z -> (0 < sumsq res)%Z ->
    exec PE prog_energy_stop f (estop_env0 D X res t20 niters)
    = Return (VList [VBool (Toys.energy_fires X res); VSig (EDb (energy_db D lg uninit dscale dsub X res))]).
  Proof.
    intros t20 X res niters f Hc HX Hr.
    rewrite skeleton_energy_stop. unfold estop_render. do 3 f_equal.
    unfold energy_db, lg_guarded.
    apply Z.ltb_lt in HX. apply Z.ltb_lt in Hr. rewrite HX, Hr.
    apply Z.ltb_lt in HX. apply Z.ltb_lt in Hr.
    rewrite (Hc _ _ HX Hr). reflexivity.
  Qed.
End EnergyTie.

(* ---- numpy's division rows, on concrete inputs (sd = 1/5; sd1 = 1/20, sd2 = 1/2, tol = 1/20) -------- *)
Lemma sd_stop_division_examples :
  (* 0/0 = nan: not < sd *)
  exec stops_prims prog_sd_stop 0 (sd_env0 [0; 0]%Z [0; 0]%Z (1 # 5) VNone)
    = Return (VList [VBool false; VSig (NX XNan)])
  (* x/0 = inf: not < sd *)
  /\ exec stops_prims prog_sd_stop 0 (sd_env0 [0; 0]%Z [1; 2]%Z (1 # 5) VNone)
    = Return (VList [VBool false; VSig (NX XPInf)])
  (* 1/32 < 1/5 *)
  /\ exec stops_prims prog_sd_stop 0 (sd_env0 [4; -4]%Z [3; -4]%Z (1 # 5) VNone)
    = Return (VList [VBool true; VSig (NX (XQ (1 # 32)))]).
Proof. vm_compute. repeat split; reflexivity. Qed.

Lemma rilling_stop_division_examples :
  (* first sample: amp = 0, avg = 2: inf exceeds sd1 and sd2 -> go on; metric = 1/2 *)
  exec stops_prims prog_rilling_stop 0 (ril_env0 [2; 3]%Z [2; -3]%Z (1 # 20) (1 # 2) (1 # 20) VNone)
    = Return (VList [VBool false; VSig (NX (XQ (1 # 2)))])
  (* amp = 0 and avg = 0: nan exceeds nothing -> stop; metric = 0/1 *)
  /\ exec stops_prims prog_rilling_stop 0 (ril_env0 [0]%Z [0]%Z (1 # 20) (1 # 2) (1 # 20) VNone)
    = Return (VList [VBool true; VSig (NX (XQ (0 # 1)))])
  (* empty arrays: mean of nothing = nan, any of nothing = False -> stop *)
  /\ exec stops_prims prog_rilling_stop 0 (ril_env0 [] [] (1 # 20) (1 # 2) (1 # 20) VNone)
    = Return (VList [VBool true; VSig (NX XNan)]).
Proof. vm_compute. repeat split; reflexivity. Qed.
