(* Lemmas about model/Ensemble.v (property C08). *)
From Coq Require Import ZArith List Bool Lia Arith.
From EmdV Require Import lib.NpLite model.Extrema model.SiftCore model.Toys model.Variants model.Ensemble
                         proofs.SiftCoreFacts proofs.VariantsFacts.
Import ListNotations.

(* ---- list helpers ----------------------------------------------------------------------------------- *)
Lemma map_opt_seq_nth : forall (A R : Type) (f : A -> R) (g : nat -> option R) (l : list A) off,
  (forall t a, nth_error l t = Some a -> g (off + t)%nat = Some (f a)) ->
  map_opt g (seq off (length l)) = Some (map f l).
Proof.
  intros A R f g. induction l as [|a t IH]; intros off H.
  - reflexivity.
  - cbn [length seq map_opt map].
    rewrite <- (Nat.add_0_r off) at 1. rewrite (H 0%nat a eq_refl).
    rewrite (IH (S off)); [reflexivity|].
    intros k b Hk. replace (S off + k)%nat with (off + S k)%nat by lia. apply H. exact Hk.
Qed.

Lemma map_opt_ext_in : forall (A R : Type) (g h : A -> option R) (l : list A),
  (forall a, In a l -> g a = h a) -> map_opt g l = map_opt h l.
Proof.
  intros A R g h. induction l as [|a t IH]; intros H.
  - reflexivity.
  - cbn [map_opt]. rewrite (H a (or_introl eq_refl)). rewrite IH; [reflexivity|].
    intros b Hb. apply H. right. exact Hb.
Qed.

Lemma map_opt_map : forall (A B R : Type) (f : A -> B) (g : B -> option R) (l : list A),
  map_opt g (map f l) = map_opt (fun a => g (f a)) l.
Proof.
  intros A B R f g. induction l as [|a t IH]; [reflexivity|].
  cbn [map map_opt]. rewrite IH. reflexivity.
Qed.

Lemma map_opt_nth : forall (A R : Type) (g : A -> option R) (l : list A) (r : list R),
  map_opt g l = Some r ->
  length r = length l /\
  forall i a, nth_error l i = Some a -> exists y, g a = Some y /\ nth_error r i = Some y.
Proof.
  intros A R g. induction l as [|a t IH]; intros r H.
  - cbn [map_opt] in H. inversion H; subst r. split; [reflexivity|]. intros i x Hi. destruct i; discriminate.
  - cbn [map_opt] in H. destruct (g a) as [y|] eqn:Eg; [|discriminate].
    destruct (map_opt g t) as [rt|] eqn:Et; [|discriminate]. inversion H; subst r. clear H.
    destruct (IH rt eq_refl) as [Hl Hn]. split; [cbn [length]; rewrite Hl; reflexivity|].
    intros i x Hi. destruct i as [|i].
    + cbn [nth_error] in Hi. inversion Hi; subst x. exists y. split; [exact Eg|reflexivity].
    + cbn [nth_error] in Hi. cbn [nth_error]. apply Hn. exact Hi.
Qed.

Lemma map_opt_const : forall (A R : Type) (g : A -> option R) (l : list A) (r : R),
  Forall (fun a => g a = Some r) l -> map_opt g l = Some (repeat r (length l)).
Proof.
  intros A R g l r H. induction H as [|a t Ha Ht IH]; [reflexivity|].
  cbn [map_opt length repeat]. rewrite Ha, IH. reflexivity.
Qed.

Lemma map_nth_seq_firstn : forall (A : Type) (d : A) (r : list A) k, (k <= length r)%nat ->
  map (fun ii => nth ii r d) (seq 0 k) = firstn k r.
Proof.
  intros A d. induction r as [|a t IH]; intros k Hk.
  - cbn [length] in Hk. assert (k = 0%nat) by lia. subst k. reflexivity.
  - destruct k as [|k]; [reflexivity|].
    cbn [length] in Hk. cbn [seq map firstn nth]. rewrite <- seq_shift, map_map.
    f_equal. apply IH. lia.
Qed.

Lemma nth_map2 : forall (A : Type) (f : A -> A -> A) (d : A) (a b : list A) k,
  length a = length b -> (k < length a)%nat -> nth k (map2 f a b) d = f (nth k a d) (nth k b d).
Proof.
  intros A f d. induction a as [|x ta IH]; intros b k Hl Hk.
  - cbn [length] in Hk. lia.
  - destruct b as [|y tb]; [discriminate|]. cbn [length] in Hl, Hk. cbn [map2].
    destruct k as [|k]; [reflexivity|]. cbn [nth]. apply IH; lia.
Qed.

Lemma map2_length : forall (A : Type) (f : A -> A -> A) (a b : list A),
  length a = length b -> length (map2 f a b) = length a.
Proof.
  intros A f. induction a as [|x ta IH]; intros b Hl; [reflexivity|].
  destruct b as [|y tb]; [discriminate|]. cbn [map2 length]. rewrite IH; [reflexivity|].
  cbn [length] in Hl. lia.
Qed.

Lemma map_repeat_c : forall (A R : Type) (f : A -> R) (a : A) n, map f (repeat a n) = repeat (f a) n.
Proof. intros A R f a. induction n as [|n IH]; [reflexivity|]. cbn [repeat map]. rewrite IH. reflexivity. Qed.

Lemma nodupb_NoDup : forall l, nodupb l = true -> NoDup l.
Proof.
  induction l as [|a t IH]; intros H; [constructor|].
  cbn [nodupb] in H. apply andb_true_iff in H. destruct H as [Ha Ht].
  constructor; [|apply IH; exact Ht].
  intros Hin. apply negb_true_iff in Ha.
  assert (existsb (Nat.eqb a) t = true) as He.
  { apply existsb_exists. exists a. split; [exact Hin|apply Nat.eqb_refl]. }
  congruence.
Qed.

(* the boolean validity test used by the harness implies the specification *)
Lemma sched_validb_sound : forall nw nt sc, sched_validb nw nt sc = true -> sched_valid nw nt sc.
Proof.
  intros nw nt sc H. unfold sched_validb in H.
  apply andb_true_iff in H. destruct H as [H Hlen].
  apply andb_true_iff in H. destruct H as [H Hlt].
  apply andb_true_iff in H. destruct H as [Hw Hnd].
  apply Nat.eqb_eq in Hlen. apply nodupb_NoDup in Hnd.
  assert (Hlt' : forall t, In t (map snd sc) -> (t < nt)%nat).
  { intros t Ht. rewrite forallb_forall in Hlt. apply Nat.ltb_lt. apply Hlt. exact Ht. }
  split; [|split].
  - apply Forall_forall. intros e He. rewrite forallb_forall in Hw. apply Nat.ltb_lt. apply Hw. exact He.
  - exact Hnd.
  - intros t. split; [apply Hlt'|].
    intros Ht.
    (* a duplicate-free list of nt numbers below nt contains all of them *)
    assert (Hincl : incl (seq 0 nt) (map snd sc)).
    { apply NoDup_length_incl.
      - exact Hnd.
      - rewrite seq_length, map_length. lia.
      - intros x Hx. apply in_seq. specialize (Hlt' x Hx). lia. }
    apply Hincl. apply in_seq. lia.
Qed.

(* ---- generator, fork, starmap -------------------------------------------------------------------------- *)
Section RngFacts.
  Variable rng B : Type.
  Variable draw : rng -> nat -> B * rng.

  Local Notation stream_state := (stream_state rng B draw).
  Local Notation stream_block := (stream_block rng B draw).
  Local Notation draw_blocks := (draw_blocks rng B draw).

  Lemma stream_state_shift : forall s n i, stream_state (snd (draw s n)) n i = stream_state s n (S i).
  Proof.
    intros s n. induction i as [|i IH]; [reflexivity|].
    cbn [Ensemble.stream_state]. cbn [Ensemble.stream_state] in IH. rewrite IH. reflexivity.
  Qed.

  Lemma stream_block_shift : forall s n i, stream_block (snd (draw s n)) n i = stream_block s n (S i).
  Proof. intros s n i. unfold Ensemble.stream_block. rewrite stream_state_shift. reflexivity. Qed.

  (* k successive draws by one process yield blocks 0..k-1 of its stream and leave it before block k *)
  Lemma draw_blocks_spec : forall n k s,
    fst (draw_blocks s n k) = map (stream_block s n) (seq 0 k) /\ snd (draw_blocks s n k) = stream_state s n k.
  Proof.
    intros n. induction k as [|k IH]; intros s.
    - split; reflexivity.
    - cbn [Ensemble.draw_blocks]. destruct (draw s n) as [b s1] eqn:Ed.
      destruct (draw_blocks s1 n k) as [bs s2] eqn:Eb.
      destruct (IH s1) as [Hf Hs]. rewrite Eb in Hf, Hs. cbn [fst snd] in Hf, Hs.
      assert (Hs1 : s1 = snd (draw s n)) by (rewrite Ed; reflexivity).
      cbn [fst snd]. split.
      + cbn [seq map]. rewrite <- seq_shift, map_map. f_equal.
        * unfold Ensemble.stream_block. cbn [Ensemble.stream_state]. rewrite Ed. reflexivity.
        * rewrite Hf. apply map_ext. intros i. rewrite Hs1. apply stream_block_shift.
      + rewrite Hs, Hs1. apply stream_state_shift.
  Qed.

  Lemma draw_blocks_length : forall n k s, length (fst (draw_blocks s n k)) = k.
  Proof. intros n k s. rewrite (proj1 (draw_blocks_spec n k s)), map_length, seq_length. reflexivity. Qed.

  Section Exec.
    Variable A R : Type.

    (* a task body that does not touch the generator: the result depends on the arguments only *)
    Lemma lookup_exec_fixed : forall (f : A -> R) (tasks : list A) sc ws t a,
      nth_error tasks t = Some a -> In t (map snd sc) ->
      lookup t (exec rng A R (uses_args rng A R f) tasks sc ws) = Some (f a).
    Proof.
      intros f tasks. induction sc as [|[w t'] rest IH]; intros ws t a Hn Hin.
      - destruct Hin.
      - cbn [exec]. destruct (nth_error tasks t') as [a'|] eqn:En.
        + unfold uses_args at 1. cbn [lookup]. destruct (Nat.eqb_spec t' t) as [->|Hne].
          * rewrite Hn in En. inversion En; subst a'. reflexivity.
          * apply IH; [exact Hn|]. cbn [map snd] in Hin. destruct Hin as [Heq|Hin]; [congruence|exact Hin].
        + apply IH; [exact Hn|]. cbn [map snd] in Hin. destruct Hin as [Heq|Hin]; [|exact Hin].
          subst t'. congruence.
    Qed.

    Lemma starmap_fixed : forall (f : A -> R) (tasks : list A) nw sc s0,
      sched_valid nw (length tasks) sc ->
      starmap rng A R (uses_args rng A R f) tasks sc s0 = Some (map f tasks).
    Proof.
      intros f tasks nw sc s0 (_ & _ & Hall). unfold starmap.
      apply map_opt_seq_nth. intros t a Hn. cbn [Nat.add].
      apply lookup_exec_fixed; [exact Hn|].
      apply Hall. apply nth_error_Some. congruence.
    Qed.

    (* the body that draws inside the worker: task t receives the block whose number is the rank of t among the
       tasks of ITS OWN worker, of the stream every worker inherited *)
    Lemma lookup_exec_v0 : forall (f : B -> R) (tasks : list A) s0 n sc ws cnt t,
      (forall e, In e sc -> (snd e < length tasks)%nat) ->
      (forall w, ws w = stream_state s0 n (cnt w)) ->
      lookup t (exec rng A R (worker_draws rng B draw A R f n) tasks sc ws)
      = option_map (fun k => f (stream_block s0 n k)) (worker_rank sc cnt t).
    Proof.
      intros f tasks s0 n. induction sc as [|[w t'] rest IH]; intros ws cnt t Hlt Hws.
      - reflexivity.
      - cbn [exec worker_rank].
        destruct (nth_error tasks t') as [a|] eqn:En.
        2:{ exfalso. apply nth_error_None in En. specialize (Hlt (w, t') (or_introl eq_refl)). cbn [snd] in Hlt. lia. }
        unfold worker_draws at 1. destruct (draw (ws w) n) as [b s'] eqn:Ed. cbn [lookup].
        destruct (Nat.eqb t' t).
        + cbn [option_map]. unfold Ensemble.stream_block. rewrite <- Hws, Ed. reflexivity.
        + apply IH.
          * intros e He. apply Hlt. right. exact He.
          * intros v. destruct (Nat.eqb_spec v w) as [->|Hne]; [|apply Hws].
            cbn [Ensemble.stream_state]. rewrite <- Hws, Ed. reflexivity.
    Qed.
  End Exec.

  (* ---- the noise of the members ---- *)
  Lemma noises_v0_spec : forall n nens nw sc s0,
    sched_valid nw nens sc ->
    noises_v0 rng B draw n nens sc s0
    = map_opt (fun t => option_map (stream_block s0 n) (worker_rank sc (fun _ => 0%nat) t)) (seq 0 nens).
  Proof.
    intros n nens nw sc s0 (_ & _ & Hall). unfold noises_v0, starmap. rewrite repeat_length.
    apply map_opt_ext_in. intros t _.
    apply (lookup_exec_v0 unit B (fun x => x) (repeat tt nens) s0 n sc (fork rng s0) (fun _ => 0%nat) t).
    - intros e He. rewrite repeat_length. apply Hall. apply in_map. exact He.
    - intros w. reflexivity.
  Qed.
End RngFacts.

(* ---- C08, the noise of the members ------------------------------------------------------------------------ *)
Section MemberNoiseFacts.
  Variable rng B : Type.
  Variable draw : rng -> nat -> B * rng.

  (* repaired code: whatever the schedule, member i receives block i of the parent's stream *)
  Lemma member_noise_is_block : forall n nens nw sc s0,
    sched_valid nw nens sc ->
    noises rng B draw n nens sc s0 = Some (map (stream_block rng B draw s0 n) (seq 0 nens)).
  Proof.
    intros n nens nw sc s0 Hv. unfold noises.
    rewrite (starmap_fixed rng B B (fun b => b) _ nw).
    - rewrite map_id. rewrite (proj1 (draw_blocks_spec rng B draw n nens s0)). reflexivity.
    - rewrite draw_blocks_length. exact Hv.
  Qed.

  Lemma member_noise_nth : forall n nens nw sc s0 l i,
    sched_valid nw nens sc -> noises rng B draw n nens sc s0 = Some l -> (i < nens)%nat ->
    nth_error l i = Some (stream_block rng B draw s0 n i).
  Proof.
    intros n nens nw sc s0 l i Hv Hn Hi. rewrite (member_noise_is_block n nens nw sc s0 Hv) in Hn.
    inversion Hn; subst l. rewrite nth_error_map.
    assert (Hs : nth_error (seq 0 nens) i = Some i).
    { rewrite (nth_error_nth' _ 0%nat) by (rewrite seq_length; exact Hi). rewrite seq_nth by exact Hi. reflexivity. }
    rewrite Hs. reflexivity.
  Qed.

  (* before the repair: two members that are each the first task of their worker receive the SAME block,
     for every generator *)
  Lemma members_share_noise_v0_refuted : forall s0 n,
    exists sc l, sched_valid 2 2 sc /\ noises_v0 rng B draw n 2 sc s0 = Some l /\
                 nth_error l 0 = Some (stream_block rng B draw s0 n 0) /\
                 nth_error l 1 = Some (stream_block rng B draw s0 n 0).
  Proof.
    intros s0 n. exists [(0, 0); (1, 1)]%nat, [stream_block rng B draw s0 n 0; stream_block rng B draw s0 n 0].
    split; [|split; [|split; reflexivity]].
    - apply sched_validb_sound. reflexivity.
    - rewrite (noises_v0_spec rng B draw n 2 2); [reflexivity|]. apply sched_validb_sound. reflexivity.
  Qed.

  (* more generally: equal rank on their workers means equal noise *)
  Lemma members_share_noise_v0 : forall n nens nw sc s0 l t1 t2 k,
    sched_valid nw nens sc -> noises_v0 rng B draw n nens sc s0 = Some l ->
    (t1 < nens)%nat -> (t2 < nens)%nat ->
    worker_rank sc (fun _ => 0%nat) t1 = Some k -> worker_rank sc (fun _ => 0%nat) t2 = Some k ->
    nth_error l t1 = nth_error l t2.
  Proof.
    intros n nens nw sc s0 l t1 t2 k Hv Hn H1 H2 Hr1 Hr2.
    rewrite (noises_v0_spec rng B draw n nens nw sc s0 Hv) in Hn.
    destruct (map_opt_nth _ _ _ _ _ Hn) as [_ Hnth].
    assert (Hs : forall t, (t < nens)%nat -> nth_error (seq 0 nens) t = Some t).
    { intros t Ht. rewrite (nth_error_nth' _ 0%nat) by (rewrite seq_length; exact Ht). rewrite seq_nth by exact Ht. reflexivity. }
    destruct (Hnth t1 t1 (Hs t1 H1)) as (y1 & Hy1 & Hl1).
    destruct (Hnth t2 t2 (Hs t2 H2)) as (y2 & Hy2 & Hl2).
    rewrite Hr1 in Hy1. rewrite Hr2 in Hy2. cbn [option_map] in Hy1, Hy2.
    rewrite Hl1, Hl2. congruence.
  Qed.
End MemberNoiseFacts.

(* ---- stream positions (the generator's contract: drawing a+b samples = drawing a, then b) ---------------- *)

Lemma member_blocks_disjoint : forall n i j p, i <> j ->
  In p (block_positions n i) -> ~ In p (block_positions n j).
Proof.
  intros n i j p Hij Hi Hj. unfold block_positions in *. apply in_seq in Hi. apply in_seq in Hj.
  assert (i < j \/ j < i)%nat as [H|H] by lia; nia.
Qed.

Lemma matrix_columns_disjoint : forall n nens ii jj p, (ii < nens)%nat -> (jj < nens)%nat -> ii <> jj ->
  In p (column_positions n nens ii) -> ~ In p (column_positions n nens jj).
Proof.
  intros n nens ii jj p Hi Hj Hne H1 H2. unfold column_positions in *.
  apply in_map_iff in H1. destruct H1 as (r1 & E1 & _).
  apply in_map_iff in H2. destruct H2 as (r2 & E2 & _).
  assert (Hm1 : (p mod nens = ii)%nat).
  { rewrite <- E1. rewrite Nat.add_comm, Nat.mod_add by lia. apply Nat.mod_small. exact Hi. }
  assert (Hm2 : (p mod nens = jj)%nat).
  { rewrite <- E2. rewrite Nat.add_comm, Nat.mod_add by lia. apply Nat.mod_small. exact Hj. }
  congruence.
Qed.

Section Positions.
  Variable rng T : Type.
  Variable draw : rng -> nat -> list T * rng.
  Hypothesis draw_zero : forall s, draw s 0 = ([], s).
  Hypothesis draw_length : forall s n, length (fst (draw s n)) = n.
  Hypothesis draw_split : forall s a b,
    draw s (a + b) = (fst (draw s a) ++ fst (draw (snd (draw s a)) b), snd (draw (snd (draw s a)) b)).

  Lemma stream_prefix : forall s n i,
    stream_state rng (list T) draw s n i = snd (draw s (i * n)) /\
    fst (draw s (i * n + n)) = fst (draw s (i * n)) ++ stream_block rng (list T) draw s n i.
  Proof.
    intros s n. induction i as [|i [IHs IHf]].
    - cbn [Nat.mul Nat.add Ensemble.stream_state]. unfold Ensemble.stream_block. cbn [Ensemble.stream_state].
      rewrite draw_zero. cbn [fst snd app]. split; reflexivity.
    - assert (Hs : stream_state rng (list T) draw s n (S i) = snd (draw s (S i * n))).
      { cbn [Ensemble.stream_state]. rewrite IHs.
        replace (S i * n)%nat with (i * n + n)%nat by lia. rewrite (draw_split s (i * n) n). reflexivity. }
      split; [exact Hs|].
      rewrite (draw_split s (S i * n) n). cbn [fst]. unfold Ensemble.stream_block. rewrite Hs. reflexivity.
  Qed.

  (* member i's block is exactly the samples at positions i*n .. i*n+n-1 of ONE long draw *)
  Lemma member_block_positions : forall s n i m, (i * n + n <= m)%nat ->
    stream_block rng (list T) draw s n i = firstn n (skipn (i * n) (fst (draw s m))).
  Proof.
    intros s n i m Hm. destruct (stream_prefix s n i) as [_ Hf].
    replace m with ((i * n + n) + (m - (i * n + n)))%nat by lia.
    rewrite (draw_split s (i * n + n)). cbn [fst]. rewrite Hf. rewrite <- app_assoc.
    rewrite skipn_app. rewrite draw_length, Nat.sub_diag. cbn [skipn].
    rewrite skipn_all2 by (rewrite draw_length; lia). cbn [app].
    rewrite firstn_app.
    assert (Hl : length (stream_block rng (list T) draw s n i) = n).
    { unfold Ensemble.stream_block. apply draw_length. }
    rewrite Hl, Nat.sub_diag. cbn [firstn]. rewrite app_nil_r.
    symmetry. rewrite <- Hl at 1. apply firstn_all.
  Qed.
End Positions.

(* ---- _sift_with_noise, ensemble_sift ------------------------------------------------------------------------ *)
Lemma all_some_map : forall (A R : Type) (f : A -> option R) (l : list A), all_some (map f l) = map_opt f l.
Proof. intros A R f l. unfold all_some. rewrite map_opt_map. reflexivity. Qed.

Lemma all_some_repeat : forall (A : Type) (a : A) n, all_some (repeat (Some a) n) = Some (repeat a n).
Proof.
  intros A a. induction n as [|n IH]; [reflexivity|].
  unfold all_some in *. cbn [repeat map_opt]. rewrite IH. reflexivity.
Qed.

Section MemberFacts.
  Variable W : Type.
  Variable wzero : W.
  Variable wadd wsub : W -> W -> W.
  Variable whalf : W -> W.
  Variable wmean : list W -> W.
  Variable SC : Type.
  Variable wscale : SC -> W -> W.
  Variable sift_fn : option nat -> W -> option (list W).

  Local Notation swn := (sift_with_noise W wadd wsub whalf SC wscale sift_fn).
  Local Notation scaled := (scaled W SC wscale).
  Local Notation ens_blocks := (ensemble_of_blocks W wzero wadd wsub whalf wmean SC wscale sift_fn).

  Lemma single_member_spec : forall cap X s noise,
    swn Single cap X s noise = sift_fn cap (wadd X (scaled s noise)).
  Proof. intros cap X s noise. unfold sift_with_noise. destruct (sift_fn cap _); reflexivity. Qed.

  (* flip mode: defined exactly when both decompositions are and have the same number of columns; then every
     column is half of (column of sift(X + n) + column of sift(X - n)) *)
  Lemma flip_member_spec : forall cap X s noise r,
    swn Flip cap X s noise = Some r ->
    exists a b, sift_fn cap (wadd X (scaled s noise)) = Some a /\ sift_fn cap (wsub X (scaled s noise)) = Some b /\
                length a = length b /\ length r = length a /\
                forall k, (k < length a)%nat -> nth k r wzero = whalf (wadd (nth k a wzero) (nth k b wzero)).
  Proof.
    intros cap X s noise r H. unfold sift_with_noise in H. cbv zeta in H.
    destruct (sift_fn cap (wadd X (scaled s noise))) as [a|] eqn:Ea; [|discriminate].
    destruct (sift_fn cap (wsub X (scaled s noise))) as [b|] eqn:Eb; [|discriminate].
    destruct (Nat.eqb_spec (length a) (length b)) as [Hl|Hl]; [|discriminate].
    inversion H; subst r. clear H. exists a, b.
    split; [reflexivity|]. split; [reflexivity|]. split; [exact Hl|].
    split; [rewrite map_length; apply map2_length; exact Hl|].
    intros k Hk.
    rewrite (nth_indep _ wzero (whalf wzero)) by (rewrite map_length, map2_length by exact Hl; exact Hk).
    rewrite map_nth. rewrite (nth_map2 _ _ _ _ _ _ Hl Hk). reflexivity.
  Qed.

  Lemma flip_member_error : forall cap X s noise,
    swn Flip cap X s noise = None <->
    (sift_fn cap (wadd X (scaled s noise)) = None \/ sift_fn cap (wsub X (scaled s noise)) = None \/
     exists a b, sift_fn cap (wadd X (scaled s noise)) = Some a /\ sift_fn cap (wsub X (scaled s noise)) = Some b /\
                 length a <> length b).
  Proof.
    intros cap X s noise. unfold sift_with_noise. cbv zeta.
    destruct (sift_fn cap (wadd X (scaled s noise))) as [a|] eqn:Ea.
    - destruct (sift_fn cap (wsub X (scaled s noise))) as [b|] eqn:Eb.
      + destruct (Nat.eqb_spec (length a) (length b)) as [Hl|Hl].
        * split; [discriminate|]. intros [H|[H|(a' & b' & Ha & Hb & Hne)]]; try discriminate.
          inversion Ha; inversion Hb; subst a' b'. contradiction.
        * split; [|reflexivity]. intros _. right. right. exists a, b. auto.
      + split; [|reflexivity]. intros _. right. left. reflexivity.
    - split; [|reflexivity]. intros _. left. reflexivity.
  Qed.

  (* the result is the per-IMF mean over the members, member i being the decomposition with block i *)
  Lemma ensemble_mean_spec : forall m cap X s blocks cols,
    ens_blocks m cap X s blocks = Some cols ->
    exists members,
      length members = length blocks /\
      (forall i b, nth_error blocks i = Some b ->
         exists r, swn m cap X (Some s) b = Some r /\ nth_error members i = Some r) /\
      let k := match cap with Some k => k | None => length (hd [] members) end in
      length cols = k /\ Forall (fun r => (k <= length r)%nat) members /\
      forall ii, (ii < k)%nat -> nth ii cols wzero = wmean (map (fun r => nth ii r wzero) members).
  Proof.
    intros m cap X s blocks cols H. unfold ensemble_of_blocks in H.
    destruct (map_opt (swn m cap X (Some s)) blocks) as [members|] eqn:Em; [|discriminate].
    exists members. destruct (map_opt_nth _ _ _ _ _ Em) as [Hl Hn].
    split; [exact Hl|]. split; [exact Hn|].
    exact (ensemble_cols W wzero wmean cap members cols H).
  Qed.

  Section Sched.
    Variable rng : Type.
    Variable draw : rng -> nat -> W * rng.

    (* the repaired ensemble_sift: the same result for every schedule and every number of workers, determined by
       the parent's generator state alone; the parent's state advances by exactly nens blocks *)
    Lemma ensemble_schedule_independent : forall m cap X s n nens nw sc s0,
      sched_valid nw nens sc ->
      ensemble_sift W wzero wadd wsub whalf wmean SC wscale sift_fn rng draw m cap X s n nens sc s0
      = (ens_blocks m cap X s (map (stream_block rng W draw s0 n) (seq 0 nens)), stream_state rng W draw s0 n nens).
    Proof.
      intros m cap X s n nens nw sc s0 Hv. unfold ensemble_sift.
      destruct (draw_blocks rng W draw s0 n nens) as [blocks s1] eqn:Ed.
      pose proof (draw_blocks_spec rng W draw n nens s0) as [Hb Hs]. rewrite Ed in Hb, Hs. cbn [fst snd] in Hb, Hs.
      rewrite (starmap_fixed rng W (option (list W)) (swn m cap X (Some s)) blocks nw).
      - rewrite all_some_map. rewrite Hs, <- Hb. reflexivity.
      - rewrite Hb, map_length, seq_length. exact Hv.
    Qed.

    Lemma ensemble_any_two_schedules : forall m cap X s n nens nw1 sc1 nw2 sc2 s0,
      sched_valid nw1 nens sc1 -> sched_valid nw2 nens sc2 ->
      ensemble_sift W wzero wadd wsub whalf wmean SC wscale sift_fn rng draw m cap X s n nens sc1 s0
      = ensemble_sift W wzero wadd wsub whalf wmean SC wscale sift_fn rng draw m cap X s n nens sc2 s0.
    Proof.
      intros m cap X s n nens nw1 sc1 nw2 sc2 s0 H1 H2.
      rewrite (ensemble_schedule_independent m cap X s n nens nw1 sc1 s0 H1).
      rewrite (ensemble_schedule_independent m cap X s n nens nw2 sc2 s0 H2). reflexivity.
    Qed.
  End Sched.

  (* ---- zero noise amplitude, under the contracts of the signal arithmetic --------------------------------- *)
  Section ZeroNoise.
    Variable wf : W -> Prop.
    Variable zero : SC.
    Hypothesis scale0 : forall b, wf b -> wscale zero b = wzero.
    Hypothesis add0 : forall x, wf x -> wadd x wzero = x.
    Hypothesis sub0 : forall x, wf x -> wsub x wzero = x.
    Hypothesis half_double : forall a, wf a -> whalf (wadd a a) = a.
    Hypothesis mean_const : forall a n, wf a -> (1 <= n)%nat -> wmean (repeat a n) = a.
    Hypothesis sift_wf : forall cap x r, wf x -> sift_fn cap x = Some r -> Forall wf r.

    Lemma half_double_cols : forall r, Forall wf r -> map whalf (map2 wadd r r) = r.
    Proof.
      intros r H. induction H as [|a t Ha Ht IH]; [reflexivity|].
      cbn [map2 map]. rewrite (half_double a Ha), IH. reflexivity.
    Qed.

    Lemma member_zero_noise : forall m cap X b r,
      wf X -> wf b -> sift_fn cap X = Some r -> swn m cap X (Some zero) b = Some r.
    Proof.
      intros m cap X b r HX Hb Hr. unfold sift_with_noise, Ensemble.scaled.
      rewrite (scale0 b Hb), (add0 X HX), (sub0 X HX), Hr.
      destruct m; [reflexivity|]. rewrite Nat.eqb_refl.
      rewrite (half_double_cols r (sift_wf cap X r HX Hr)). reflexivity.
    Qed.

    Lemma collect_repeat : forall cap r n, Forall wf r -> (1 <= n)%nat ->
      ensemble_collect W wzero wmean cap (repeat r n)
      = let k := match cap with Some k => k | None => length r end in
        if (k <=? length r)%nat then Some (firstn k r) else None.
    Proof.
      intros cap r n Hr Hn. unfold ensemble_collect.
      assert (Hhd : hd [] (repeat r n) = r) by (destruct n; [lia|reflexivity]).
      rewrite Hhd. set (k := match cap with Some k => k | None => length r end). cbv zeta.
      assert (Hfa : forallb (fun r0 : list W => (k <=? length r0)%nat) (repeat r n) = (k <=? length r)%nat).
      { destruct (k <=? length r)%nat eqn:E.
        - apply forallb_forall. intros x Hx. apply repeat_spec in Hx. subst x. exact E.
        - destruct n; [lia|]. cbn [repeat forallb]. rewrite E. reflexivity. }
      rewrite Hfa. destruct (Nat.leb_spec k (length r)) as [Hk|Hk]; [|reflexivity].
      f_equal. rewrite <- (map_nth_seq_firstn W wzero r k Hk).
      apply map_ext_in. intros ii Hii. apply in_seq in Hii.
      rewrite map_repeat_c. apply mean_const; [|exact Hn].
      rewrite Forall_forall in Hr. apply Hr. apply nth_In. lia.
    Qed.

    (* with zero amplitude every member IS the classic sift with the same cap, and so is the ensemble *)
    Lemma ensemble_zero_noise : forall m cap X blocks r,
      wf X -> Forall wf blocks -> (1 <= length blocks)%nat -> sift_fn cap X = Some r ->
      Forall (fun b => swn m cap X (Some zero) b = Some r) blocks /\
      ens_blocks m cap X zero blocks
      = let k := match cap with Some k => k | None => length r end in
        if (k <=? length r)%nat then Some (firstn k r) else None.
    Proof.
      intros m cap X blocks r HX Hb Hn Hr.
      assert (Hall : Forall (fun b => swn m cap X (Some zero) b = Some r) blocks).
      { rewrite Forall_forall in Hb. apply Forall_forall. intros b Hin.
        apply member_zero_noise; [exact HX|apply Hb; exact Hin|exact Hr]. }
      split; [exact Hall|].
      unfold ensemble_of_blocks. rewrite (map_opt_const _ _ _ _ r Hall).
      apply collect_repeat; [exact (sift_wf cap X r HX Hr)|exact Hn].
    Qed.

    (* ... in particular, when the classic sift returns exactly cap columns (or there is no cap) *)
    Lemma ensemble_zero_noise_eq : forall m cap X blocks r,
      wf X -> Forall wf blocks -> (1 <= length blocks)%nat -> sift_fn cap X = Some r ->
      (forall k, cap = Some k -> length r = k) ->
      ens_blocks m cap X zero blocks = Some r.
    Proof.
      intros m cap X blocks r HX Hb Hn Hr Hcap.
      rewrite (proj2 (ensemble_zero_noise m cap X blocks r HX Hb Hn Hr)). cbv zeta.
      assert (Hk : match cap with Some k => k | None => length r end = length r).
      { destruct cap as [k|]; [symmetry; apply Hcap; reflexivity|reflexivity]. }
      rewrite Hk, Nat.leb_refl, firstn_all. reflexivity.
    Qed.
  End ZeroNoise.
End MemberFacts.

(* ---- complete_ensemble_sift ----------------------------------------------------------------------------------- *)
Section LoopPrefix.
  Variable V : Type.
  Variable vzero : V.
  Variable vadd vsub : V -> V -> V.
  Variable NS : Type.
  Variable first_layer next_layer : V -> NS -> V.
  Variable upd : NS -> NS.
  Variable few_peaks small_mean : V -> bool.

  Lemma ceemd_loop_prefix : forall fuel layer cap X imf ns,
    exists tail, fst (fst (ceemd_loop V vzero vadd vsub NS next_layer upd few_peaks small_mean fuel layer cap X imf ns))
                 = imf ++ tail.
  Proof.
    induction fuel as [|f IH]; intros layer cap X imf ns.
    - exists []. cbn [ceemd_loop fst]. rewrite app_nil_r. reflexivity.
    - cbn [ceemd_loop].
      set (nxt := next_layer (vsub X (vsum V vzero vadd imf)) ns).
      destruct (few_peaks nxt || cap_is cap (S layer) || small_mean nxt).
      + exists [nxt]. reflexivity.
      + destruct (IH (S layer) cap X (imf ++ [nxt]) (upd ns)) as [tail Ht].
        exists (nxt :: tail). rewrite Ht, <- app_assoc. reflexivity.
  Qed.

  Lemma ceemd_first_col : forall fuel cap X ns d,
    nth 0 (fst (fst (ceemd V vzero vadd vsub NS first_layer next_layer upd few_peaks small_mean fuel cap X ns))) d
    = first_layer X ns.
  Proof.
    intros fuel cap X ns d. unfold ceemd.
    destruct (ceemd_loop_prefix fuel 1 cap X [first_layer X ns] (upd ns)) as [tail Ht].
    destruct cap as [k|].
    - destruct (k <=? 1)%nat; [reflexivity|]. rewrite Ht. reflexivity.
    - rewrite Ht. reflexivity.
  Qed.
End LoopPrefix.

Section CeemdFacts.
  Variable W : Type.
  Variable wzero : W.
  Variable wadd wsub : W -> W -> W.
  Variable whalf : W -> W.
  Variable wmean : list W -> W.
  Variable SC : Type.
  Variable wscale : SC -> W -> W.
  Variable sift_fn : option nat -> W -> option (list W).
  Variable few small_mean : W -> bool.

  Local Notation oadd := (olift2 W wadd).
  Local Notation osub := (olift2 W wsub).
  Local Notation fimf := (first_imf W wadd wsub whalf SC wscale sift_fn).
  Local Notation upd := (ce_upd W wsub sift_fn).
  Local Notation run := (ceemd_run W wzero wadd wsub whalf wmean SC wscale sift_fn few small_mean).
  Local Notation plain := (ceemd_plain W wzero wadd wsub sift_fn few small_mean).
  Local Notation osum := (vsum (oW W) (Some wzero) oadd).

  (* column 0 is the mean over members of the first IMF of X + (column i of the matrix, scaled again as coded);
     column k >= 1 is the mean over members of the first IMF of (X - earlier columns) + (column i of the matrix
     after k updates): member i uses column i of the ONE parent-generated matrix in every layer *)
  Lemma ceemd_members_use_matrix_columns : forall m s fuel cap X cols imf ns' b,
    run m s fuel cap X cols = (imf, ns', b) ->
    nth 0 imf (Some wzero) = omean W wmean (map (fimf m (Some s) (Some X)) cols) /\
    forall k, (1 <= k < length imf)%nat ->
      nth k imf (Some wzero)
      = match Nat.iter k upd (Some cols) with
        | None => None
        | Some ck => omean W wmean (map (fimf m None (osub (Some X) (osum (firstn k imf)))) ck)
        end.
  Proof.
    intros m s fuel cap X cols imf ns' b H. split.
    - pose proof (ceemd_first_col (oW W) (Some wzero) oadd osub (NSt W)
                    (ce_first W wadd wsub whalf wmean SC wscale sift_fn m s)
                    (ce_next W wadd wsub whalf wmean SC wscale sift_fn m) upd
                    (ofew W few) (osmall W small_mean) fuel cap (Some X) (Some cols) (Some wzero)) as Hf.
      unfold ceemd_run in H. rewrite H in Hf. cbn [fst] in Hf. exact Hf.
    - intros k Hk.
      exact (ceemd_kth (oW W) (Some wzero) oadd osub (NSt W)
               (ce_first W wadd wsub whalf wmean SC wscale sift_fn m s)
               (ce_next W wadd wsub whalf wmean SC wscale sift_fn m) upd
               (ofew W few) (osmall W small_mean) fuel cap (Some X) (Some cols) imf ns' b k H Hk).
  Qed.

  (* the update touches every column separately: column i minus ITS OWN first IMF *)
  Lemma ce_upd_columns : forall cols cols',
    upd (Some cols) = Some cols' ->
    length cols' = length cols /\
    forall i n, nth_error cols i = Some n ->
      exists a, first_col W (sift_fn (Some 1%nat) n) = Some a /\ nth_error cols' i = Some (wsub n a).
  Proof.
    intros cols cols' H. cbn [ce_upd] in H.
    destruct (map_opt_nth _ _ _ _ _ H) as [Hl Hn]. split; [exact Hl|].
    intros i n Hi. destruct (Hn i n Hi) as (y & Hy & Hc).
    unfold noise_minus_first in Hy.
    destruct (first_col W (sift_fn (Some 1%nat) n)) as [a|]; [|discriminate].
    inversion Hy; subst y. exists a. split; [reflexivity|exact Hc].
  Qed.

  (* every layer is a starmap whose task bodies only use their arguments: any schedule gives the same members *)
  Lemma ceemd_layer_schedule_independent : forall (rng : Type) m s X cols nw sc (s0 : rng),
    sched_valid nw (length cols) sc ->
    starmap rng W (oW W) (uses_args rng W (oW W) (fimf m s X)) cols sc s0 = Some (map (fimf m s X) cols).
  Proof. intros rng m s X cols nw sc s0 Hv. apply (starmap_fixed rng W (oW W) _ cols nw sc s0 Hv). Qed.

  (* ---- zero noise amplitude ---- *)
  Section ZeroNoise.
    Variable wf : W -> Prop.
    Variable zero : SC.
    Hypothesis wf_zero : wf wzero.
    Hypothesis wf_add : forall a b, wf a -> wf b -> wf (wadd a b).
    Hypothesis wf_sub : forall a b, wf a -> wf b -> wf (wsub a b).
    Hypothesis scale0 : forall b, wf b -> wscale zero b = wzero.
    Hypothesis add0 : forall x, wf x -> wadd x wzero = x.
    Hypothesis sub0 : forall x, wf x -> wsub x wzero = x.
    Hypothesis half_double : forall a, wf a -> whalf (wadd a a) = a.
    Hypothesis mean_const : forall a n, wf a -> (1 <= n)%nat -> wmean (repeat a n) = a.
    Hypothesis sift_wf : forall cap x r, wf x -> sift_fn cap x = Some r -> Forall wf r.
    Hypothesis sift_zero : sift_fn (Some 1%nat) wzero = Some [wzero].

    Definition owf (v : oW W) : Prop := match v with Some x => wf x | None => True end.

    Lemma owf_add : forall a b, owf a -> owf b -> owf (oadd a b).
    Proof. intros [a|] [b|] Ha Hb; cbn; auto. Qed.
    Lemma owf_sub : forall a b, owf a -> owf b -> owf (osub a b).
    Proof. intros [a|] [b|] Ha Hb; cbn; auto. Qed.

    Lemma owf_sum : forall l acc, owf acc -> Forall owf l -> owf (fold_left oadd l acc).
    Proof.
      induction l as [|a t IH]; intros acc Hacc Hl; [exact Hacc|].
      inversion Hl; subst. cbn [fold_left]. apply IH; [apply owf_add; assumption|assumption].
    Qed.

    Lemma owf_first_sift : forall x, owf x -> owf (first_sift W sift_fn x).
    Proof.
      intros [x|] Hx; [|exact I]. cbn [first_sift owf] in *.
      destruct (sift_fn (Some 1%nat) x) as [[|a r]|] eqn:E; cbn [first_col]; try exact I.
      pose proof (sift_wf _ _ _ Hx E) as Hr. inversion Hr; subst. assumption.
    Qed.

    Lemma omean_repeat : forall (v : oW W) n, owf v -> (1 <= n)%nat -> omean W wmean (repeat v n) = v.
    Proof.
      intros [a|] n Hv Hn.
      - unfold omean. rewrite all_some_repeat. rewrite (mean_const a n Hv Hn). reflexivity.
      - destruct n; [lia|]. reflexivity.
    Qed.

    (* one member with a zero noise column: the first IMF of the residual itself *)
    Lemma first_imf_zero : forall m s X, owf X -> (s = None \/ s = Some zero) ->
      fimf m s X wzero = first_sift W sift_fn X.
    Proof.
      intros m s [x|] HX Hs; [|reflexivity]. cbn [owf] in HX. cbn [first_imf first_sift].
      unfold sift_with_noise, Ensemble.scaled.
      assert (Hnz : match s with Some k => wscale k wzero | None => wzero end = wzero).
      { destruct Hs as [->| ->]; [reflexivity|apply scale0; exact wf_zero]. }
      rewrite Hnz, (add0 x HX), (sub0 x HX).
      destruct (sift_fn (Some 1%nat) x) as [r|] eqn:Er; [|reflexivity].
      destruct m; [reflexivity|]. rewrite Nat.eqb_refl.
      rewrite (half_double_cols W wadd whalf wf half_double r (sift_wf _ _ _ HX Er)). reflexivity.
    Qed.

    Lemma layer_zero : forall m s X n, owf X -> (s = None \/ s = Some zero) -> (1 <= n)%nat ->
      omean W wmean (map (fimf m s X) (repeat wzero n)) = first_sift W sift_fn X.
    Proof.
      intros m s X n HX Hs Hn. rewrite map_repeat_c, (first_imf_zero m s X HX Hs).
      apply omean_repeat; [apply owf_first_sift; exact HX|exact Hn].
    Qed.

    Lemma upd_zero : forall n, upd (Some (repeat wzero n)) = Some (repeat wzero n).
    Proof.
      intros n. cbn [ce_upd].
      rewrite (map_opt_const _ _ _ (repeat wzero n) wzero).
      - rewrite repeat_length. reflexivity.
      - apply Forall_forall. intros x Hx. apply repeat_spec in Hx. subst x.
        unfold noise_minus_first. rewrite sift_zero. cbn [first_col]. rewrite (sub0 wzero wf_zero). reflexivity.
    Qed.

    Lemma loop_zero : forall m n X cap, wf X -> (1 <= n)%nat ->
      forall fuel layer imf, Forall owf imf ->
      ceemd_loop (oW W) (Some wzero) oadd osub (NSt W) (ce_next W wadd wsub whalf wmean SC wscale sift_fn m) upd
                 (ofew W few) (osmall W small_mean) fuel layer cap (Some X) imf (Some (repeat wzero n))
      = ceemd_loop (oW W) (Some wzero) oadd osub (NSt W) (fun x _ => first_sift W sift_fn x) (fun u => u)
                 (ofew W few) (osmall W small_mean) fuel layer cap (Some X) imf (Some (repeat wzero n)).
    Proof.
      intros m n X cap HX Hn. induction fuel as [|f IH]; intros layer imf Himf; [reflexivity|].
      cbn [ceemd_loop].
      assert (Hres : owf (osub (Some X) (osum imf))).
      { apply owf_sub; [exact HX|]. unfold vsum. apply owf_sum; [exact wf_zero|exact Himf]. }
      assert (Hnxt : ce_next W wadd wsub whalf wmean SC wscale sift_fn m (osub (Some X) (osum imf)) (Some (repeat wzero n))
                     = first_sift W sift_fn (osub (Some X) (osum imf))).
      { cbn [ce_next]. apply layer_zero; [exact Hres|left; reflexivity|exact Hn]. }
      rewrite Hnxt, upd_zero.
      set (nxt := first_sift W sift_fn (osub (Some X) (osum imf))).
      destruct (ofew W few nxt || cap_is cap (S layer) || osmall W small_mean nxt); [reflexivity|].
      apply IH. apply Forall_app. split; [exact Himf|]. constructor; [|constructor].
      apply owf_first_sift. exact Hres.
    Qed.

    (* zero amplitude: the complete ensemble IS the plain loop "first IMF of the running residual" *)
    Lemma ceemd_zero_noise : forall m fuel cap X n, wf X -> (1 <= n)%nat ->
      run m zero fuel cap X (repeat wzero n) = plain fuel cap X (repeat wzero n).
    Proof.
      intros m fuel cap X n HX Hn. unfold ceemd_run, ceemd_plain, ceemd.
      assert (Hfl : ce_first W wadd wsub whalf wmean SC wscale sift_fn m zero (Some X) (Some (repeat wzero n))
                    = first_sift W sift_fn (Some X)).
      { cbn [ce_first]. apply layer_zero; [exact HX|right; reflexivity|exact Hn]. }
      rewrite Hfl, upd_zero.
      assert (H1 : Forall owf [first_sift W sift_fn (Some X)]).
      { constructor; [|constructor]. apply owf_first_sift. exact HX. }
      destruct cap as [k|].
      - destruct (k <=? 1)%nat; [reflexivity|]. apply loop_zero; assumption.
      - apply loop_zero; assumption.
    Qed.

    (* ... whose column k is the classic single-IMF extraction applied to the input minus the columns before it *)
    Lemma ceemd_plain_kth : forall fuel cap X cols imf ns' b,
      plain fuel cap X cols = (imf, ns', b) ->
      nth 0 imf (Some wzero) = first_sift W sift_fn (Some X) /\
      forall k, (1 <= k < length imf)%nat ->
        nth k imf (Some wzero) = first_sift W sift_fn (osub (Some X) (osum (firstn k imf))).
    Proof.
      intros fuel cap X cols imf ns' b H. split.
      - pose proof (ceemd_first_col (oW W) (Some wzero) oadd osub (NSt W)
                      (fun x _ => first_sift W sift_fn x) (fun x _ => first_sift W sift_fn x) (fun u => u)
                      (ofew W few) (osmall W small_mean) fuel cap (Some X) (Some cols) (Some wzero)) as Hf.
        unfold ceemd_plain in H. rewrite H in Hf. exact Hf.
      - intros k Hk.
        exact (ceemd_kth (oW W) (Some wzero) oadd osub (NSt W)
                 (fun x _ => first_sift W sift_fn x) (fun x _ => first_sift W sift_fn x) (fun u => u)
                 (ofew W few) (osmall W small_mean) fuel cap (Some X) (Some cols) imf ns' b k H Hk).
    Qed.

    Lemma scale0_cols : forall l, Forall wf l -> map (wscale zero) l = repeat wzero (length l).
    Proof.
      intros l Hw. induction Hw as [|a t Ha Ht IH]; [reflexivity|].
      cbn [map length repeat]. rewrite (scale0 a Ha), IH. reflexivity.
    Qed.

    (* the whole call: one matrix draw, scaled by zero *)
    Section Draw.
      Variable rng MB : Type.
      Variable mdraw : rng -> nat -> MB * rng.
      Variable to_cols : nat -> nat -> MB -> list W.
      Variable n : nat.                                  (* the number of samples *)
      Hypothesis to_cols_wf : forall nens blk, Forall wf (to_cols n nens blk).
      Hypothesis to_cols_length : forall nens blk, length (to_cols n nens blk) = nens.

      Lemma complete_ensemble_zero_noise : forall m fuel cap X nens s0, wf X -> (1 <= nens)%nat ->
        complete_ensemble_sift W wzero wadd wsub whalf wmean SC wscale sift_fn rng few small_mean MB mdraw to_cols
                               m zero fuel cap X n nens s0
        = (plain fuel cap X (repeat wzero nens), snd (mdraw s0 (n * nens)%nat)).
      Proof.
        intros m fuel cap X nens s0 HX Hn. unfold complete_ensemble_sift.
        destruct (mdraw s0 (n * nens)%nat) as [blk s1]. cbn [snd].
        assert (Hc : map (wscale zero) (to_cols n nens blk) = repeat wzero nens).
        { rewrite (scale0_cols _ (to_cols_wf nens blk)), to_cols_length. reflexivity. }
        rewrite Hc, (ceemd_zero_noise m fuel cap X nens HX Hn). reflexivity.
      Qed.
    End Draw.
  End ZeroNoise.
End CeemdFacts.

(* ---- the executable integer instance meets the contracts -------------------------------------------------------- *)
Open Scope Z_scope.

Lemma z_add0 : forall x, Toys.vadd x (Toys.vzero (length x)) = x.
Proof.
  induction x as [|a t IH]; [reflexivity|].
  unfold Toys.vadd, Toys.vzero in *. cbn [length repeat zip_with]. rewrite IH, Z.add_0_r. reflexivity.
Qed.

Lemma z_sub0 : forall x, Toys.vsub x (Toys.vzero (length x)) = x.
Proof.
  induction x as [|a t IH]; [reflexivity|].
  unfold Toys.vsub, Toys.vzero in *. cbn [length repeat zip_with]. rewrite IH, Z.sub_0_r. reflexivity.
Qed.

Lemma z_scale0 : forall b, zscale 0 b = Toys.vzero (length b).
Proof.
  induction b as [|a t IH]; [reflexivity|].
  unfold zscale, Toys.vzero in *. cbn [map length repeat]. rewrite IH. reflexivity.
Qed.

Lemma z_half_double : forall a, zhalf 2 (Toys.vadd a a) = a.
Proof.
  induction a as [|x t IH]; [reflexivity|].
  unfold zhalf, Toys.vadd in *. cbn [zip_with map]. rewrite IH. f_equal.
  replace (x + x) with (x * 2) by lia. apply Z.div_mul. lia.
Qed.

Lemma zip_with_zero_mul : forall acc a : list Z, length acc = length a ->
  zip_with (fun x y => x + 0 * y) acc a = acc.
Proof.
  induction acc as [|x t IH]; intros a Hl; [reflexivity|].
  destruct a as [|y ta]; [discriminate|]. cbn [zip_with]. rewrite IH by (cbn [length] in Hl; lia).
  f_equal. lia.
Qed.

Lemma zip_with_step : forall (k : Z) (acc a : list Z),
  zip_with (fun x y => x + k * y) (zip_with Z.add acc a) a = zip_with (fun x y => x + (k + 1) * y) acc a.
Proof.
  intros k. induction acc as [|x t IH]; intros a; [reflexivity|].
  destruct a as [|y ta]; [reflexivity|]. cbn [zip_with]. rewrite IH. f_equal. lia.
Qed.

Lemma fold_vadd_repeat : forall (a : list Z) n acc, length acc = length a ->
  fold_left Toys.vadd (repeat a n) acc = zip_with (fun x y => x + Z.of_nat n * y) acc a.
Proof.
  intros a. induction n as [|n IH]; intros acc Hl.
  - cbn [repeat fold_left]. change (Z.of_nat 0) with 0. symmetry. apply zip_with_zero_mul. exact Hl.
  - cbn [repeat fold_left]. rewrite IH.
    + unfold Toys.vadd. rewrite zip_with_step. replace (Z.of_nat n + 1) with (Z.of_nat (S n)) by lia. reflexivity.
    + unfold Toys.vadd. rewrite zip_with_length. rewrite Hl. apply Nat.min_id.
Qed.

Lemma z_mean_const : forall (a : list Z) n, (1 <= n)%nat -> zmean (length a) 1 (repeat a n) = a.
Proof.
  intros a n Hn. unfold zmean. change (1 =? 0) with false. cbv iota.
  unfold vsum_cols. rewrite fold_vadd_repeat by (unfold Toys.vzero; apply repeat_length).
  rewrite repeat_length.
  assert (Hk : Z.of_nat n <> 0) by lia. revert Hk. generalize (Z.of_nat n) as k. intros k Hk.
  induction a as [|x t IH]; [reflexivity|].
  unfold Toys.vzero in *. cbn [length repeat zip_with map]. rewrite IH. f_equal.
  replace (0 + k * x) with (x * (1 * k)) by lia. apply Z.div_mul. lia.
Qed.

Lemma toy_sift_cols_wf : forall c cap X r, toy_sift_cols c cap X = Some r -> Forall (fun v => length v = length X) r.
Proof.
  intros c cap X r H. unfold toy_sift_cols in H.
  destruct (peel_loop (list Z) (Toys.vzero (length X)) Toys.vadd Toys.vsub (small (cg c 14))
              (fun _ _ => toy_gni c false) 60 cap X []) as [imfs e] eqn:E.
  destruct (raised e || out_of_fuel e); [discriminate|]. inversion H; subst r. clear H.
  refine (peel_all_wf (list Z) (fun v => length v = length X) _ _ _ _ _ _ _ _ _ _ _ X imfs e eq_refl E).
  - unfold Toys.vzero. apply repeat_length.
  - intros a b Ha Hb. apply (zvec_group_laws (length X) a b Ha Hb).
  - intros a b Ha Hb. apply (zvec_group_laws (length X) a b Ha Hb).
  - intros n acc r p f j Hrl Hg. rewrite (toy_gni_preserves_length _ _ _ _ _ _ Hg). exact Hrl.
Qed.

Lemma maxima_from_zeros : forall n i, maxima_from i (repeat 0 n) = [].
Proof.
  induction n as [|n IH]; intros i; [reflexivity|].
  destruct n as [|[|n]]; try reflexivity.
  change (repeat 0 (S (S (S n)))) with (0 :: repeat 0 (S (S n))).
  change (repeat 0 (S (S n))) with (0 :: 0 :: repeat 0 n) at 1.
  cbn [maxima_from]. change (0 <? 0) with false. cbn [andb].
  change (0 :: 0 :: repeat 0 n) with (repeat 0 (S (S n))). apply IH.
Qed.

(* the toy sift of the zero signal with a cap of one is the zero signal (no extrema: the extraction returns its input) *)
Lemma toy_sift_zero : forall c N, toy_sift_cols c (Some 1%nat) (Toys.vzero N) = Some [Toys.vzero N].
Proof.
  intros c N. unfold toy_sift_cols.
  assert (Hg : exists fl, toy_gni c false (Toys.vzero N) = Imf (Toys.vzero N) fl 1%nat).
  { unfold toy_gni, get_next_imf_gen.
    rewrite (Nat.add_comm (Z.to_nat (cg c 2)) 2). cbn [Nat.add gni_loop].
    assert (Hlt : (Z.to_nat (cg c 2) <? 0)%nat = false) by (apply Nat.ltb_ge; lia).
    rewrite Hlt, andb_false_r.
    assert (He : toy_envs (cg c 0) (Toys.vzero N) = None).
    { unfold toy_envs, nmaxima, find_maxima, Toys.vzero. rewrite maxima_from_zeros. reflexivity. }
    rewrite He. eexists. reflexivity. }
  destruct Hg as [fl Hg].
  change 60%nat with (S 59). cbn [peel_loop length residual]. rewrite Hg.
  cbn [app length Nat.eqb orb raised out_of_fuel]. reflexivity.
Qed.

(* the counter generator meets the stream contract *)
Lemma toy_draw_zero : forall g s, toy_draw g s 0 = ([], s).
Proof. intros g s. unfold toy_draw. cbn [seq map]. rewrite Nat.add_0_r. reflexivity. Qed.
Lemma toy_draw_length : forall g s n, length (fst (toy_draw g s n)) = n.
Proof. intros g s n. unfold toy_draw. cbn [fst]. rewrite map_length, seq_length. reflexivity. Qed.
Lemma toy_draw_split : forall g s a b,
  toy_draw g s (a + b) = (fst (toy_draw g s a) ++ fst (toy_draw g (snd (toy_draw g s a)) b),
                          snd (toy_draw g (snd (toy_draw g s a)) b)).
Proof.
  intros g s a b. unfold toy_draw. cbn [fst snd]. rewrite seq_app, map_app, Nat.add_assoc. reflexivity.
Qed.

Lemma toy_block_is_positions : forall g s n i,
  stream_block nat (list Z) (toy_draw g) s n i = map g (seq (s + i * n) n).
Proof.
  intros g s n i.
  rewrite (member_block_positions nat Z (toy_draw g) (toy_draw_zero g) (toy_draw_length g) (toy_draw_split g)
             s n i (i * n + n) (le_n _)).
  unfold toy_draw. cbn [fst]. rewrite seq_app, map_app, skipn_app.
  rewrite map_length, seq_length, Nat.sub_diag. cbn [skipn].
  rewrite skipn_all2 by (rewrite map_length, seq_length; lia). cbn [app].
  rewrite <- (seq_length n (s + i * n)) at 1. rewrite <- (map_length g). apply firstn_all.
Qed.

Lemma toy_to_cols_length : forall n nens blk, length (toy_to_cols n nens blk) = nens.
Proof. intros. unfold toy_to_cols. rewrite map_length, seq_length. reflexivity. Qed.
Lemma toy_to_cols_wf : forall n nens blk, Forall (fun v => length v = n) (toy_to_cols n nens blk).
Proof.
  intros n nens blk. unfold toy_to_cols. apply Forall_forall. intros v Hv.
  apply in_map_iff in Hv. destruct Hv as (ii & <- & _). rewrite map_length, seq_length. reflexivity.
Qed.
(* column ii of the toy matrix holds exactly the stream positions r * nens + ii *)
Lemma toy_to_cols_positions : forall n nens blk ii, (ii < nens)%nat ->
  nth ii (toy_to_cols n nens blk) [] = map (fun p => nth p blk 0) (column_positions n nens ii).
Proof.
  intros n nens blk ii Hii. unfold toy_to_cols, column_positions.
  rewrite nth_map_seq by exact Hii. rewrite map_map. reflexivity.
Qed.

(* ---- zero noise on the instance: the ensemble IS the toy classic sift, for every schedule ----------------------- *)
Lemma toy_ensemble_zero_noise : forall c m nens nw sc X r,
  sched_valid nw nens sc -> (1 <= nens)%nat ->
  toy_sift_cols c (opt_cap (cg c 15)) X = Some r ->
  (forall k, opt_cap (cg c 15) = Some k -> length r = k) ->
  fst (toy_ensemble_noise c [m; Z.of_nat nens; 0; 2; 1] sc X) = Some r.
Proof.
  intros c m nens nw sc X r Hv Hn Hr Hcap. unfold toy_ensemble_noise, pg. cbn [nth]. rewrite Nat2Z.id.
  rewrite (ensemble_schedule_independent (list Z) (Toys.vzero (length X)) Toys.vadd Toys.vsub (zhalf 2)
             (zmean (length X) 1) Z zscale (toy_sift_cols c) nat (toy_draw gen_n)
             (mode_of m) (opt_cap (cg c 15)) X 0 (length X) nens nw sc 0%nat Hv).
  cbn [fst].
  apply (ensemble_zero_noise_eq (list Z) (Toys.vzero (length X)) Toys.vadd Toys.vsub (zhalf 2) (zmean (length X) 1)
           Z zscale (toy_sift_cols c) (fun v => length v = length X) 0).
  - intros b Hb. rewrite z_scale0, Hb. reflexivity.
  - intros x Hx. rewrite <- Hx. apply z_add0.
  - intros x Hx. rewrite <- Hx. apply z_sub0.
  - intros a _. apply z_half_double.
  - intros a n Ha Hn1. rewrite <- Ha. apply z_mean_const. exact Hn1.
  - intros cap x r0 Hx Hs. rewrite <- Hx. apply (toy_sift_cols_wf c cap x r0 Hs).
  - reflexivity.
  - apply Forall_forall. intros b Hb. apply in_map_iff in Hb. destruct Hb as (i & <- & _).
    unfold stream_block. apply toy_draw_length.
  - rewrite map_length, seq_length. exact Hn.
  - exact Hr.
  - exact Hcap.
Qed.

Lemma toy_ceemd_zero_noise : forall c m nens X, (1 <= nens)%nat ->
  fst (toy_ceemd_noise c [m; Z.of_nat nens; 0; 2; 1] X)
  = ceemd_plain (list Z) (Toys.vzero (length X)) Toys.vadd Toys.vsub (toy_sift_cols c) toy_few
                (toy_small_mean (cg c 14) (length X)) 60 (opt_cap (cg c 15)) X (repeat (Toys.vzero (length X)) nens).
Proof.
  intros c m nens X Hn. unfold toy_ceemd_noise, pg. cbn [nth]. rewrite Nat2Z.id.
  set (wf := fun v : list Z => length v = length X).
  assert (H0 : wf (Toys.vzero (length X))) by (unfold wf, Toys.vzero; apply repeat_length).
  assert (Ha : forall a b, wf a -> wf b -> wf (Toys.vadd a b)).
  { intros a b Ha Hb. apply (zvec_group_laws (length X) a b Ha Hb). }
  assert (Hs : forall a b, wf a -> wf b -> wf (Toys.vsub a b)).
  { intros a b Ha' Hb. apply (zvec_group_laws (length X) a b Ha' Hb). }
  assert (H1 : forall b, wf b -> zscale 0 b = Toys.vzero (length X)).
  { intros b Hb. rewrite z_scale0, Hb. reflexivity. }
  assert (H2 : forall x, wf x -> Toys.vadd x (Toys.vzero (length X)) = x).
  { intros x Hx. rewrite <- Hx. apply z_add0. }
  assert (H3 : forall x, wf x -> Toys.vsub x (Toys.vzero (length X)) = x).
  { intros x Hx. rewrite <- Hx. apply z_sub0. }
  assert (H4 : forall a, wf a -> zhalf 2 (Toys.vadd a a) = a).
  { intros a _. apply z_half_double. }
  assert (H5 : forall a n, wf a -> (1 <= n)%nat -> zmean (length X) 1 (repeat a n) = a).
  { intros a n Ha' Hn1. rewrite <- Ha'. apply z_mean_const. exact Hn1. }
  assert (H6 : forall cap x r0, wf x -> toy_sift_cols c cap x = Some r0 -> Forall wf r0).
  { intros cap x r0 Hx Hsf. unfold wf. rewrite <- Hx. apply (toy_sift_cols_wf c cap x r0 Hsf). }
  rewrite (complete_ensemble_zero_noise (list Z) (Toys.vzero (length X)) Toys.vadd Toys.vsub (zhalf 2)
             (zmean (length X) 1) Z zscale (toy_sift_cols c) toy_few (toy_small_mean (cg c 14) (length X))
             wf 0 H0 Ha Hs H1 H2 H3 H4 H5 H6 (toy_sift_zero c (length X))
             nat (list Z) (toy_draw gen_u) toy_to_cols (length X)
             (fun nens0 blk => toy_to_cols_wf (length X) nens0 blk)
             (fun nens0 blk => toy_to_cols_length (length X) nens0 blk)
             (mode_of m) 60%nat (opt_cap (cg c 15)) X nens 0%nat eq_refl Hn).
  reflexivity.
Qed.

(* ---- distinctness of the members' noise, UNDER the generator's contract (not proved: an oracle property) ---------- *)
Section Distinct.
  Variable rng B : Type.
  Variable draw : rng -> nat -> B * rng.
  Variable s0 : rng.
  Variable n : nat.
  Hypothesis blocks_differ : forall i j, i <> j ->
    stream_block rng B draw s0 n i <> stream_block rng B draw s0 n j.

  Lemma members_noise_distinct : forall nens nw sc l i j,
    sched_valid nw nens sc -> noises rng B draw n nens sc s0 = Some l ->
    (i < nens)%nat -> (j < nens)%nat -> i <> j -> nth_error l i <> nth_error l j.
  Proof.
    intros nens nw sc l i j Hv Hl Hi Hj Hij.
    rewrite (member_noise_nth rng B draw n nens nw sc s0 l i Hv Hl Hi).
    rewrite (member_noise_nth rng B draw n nens nw sc s0 l j Hv Hl Hj).
    intros H. inversion H as [H']. exact (blocks_differ i j Hij H').
  Qed.
End Distinct.

(* ---- concrete runs ---------------------------------------------------------------------------------------------- *)

(* the toy generator: 8 members x 16 samples, the blocks are pairwise different (bounded instance of the contract) *)
Lemma toy_blocks_differ_example :
  forallb (fun i => forallb (fun j => (i =? j)%nat ||
             negb (zeqb_list (stream_block nat (list Z) (toy_draw gen_n) 0%nat 16 i)
                             (stream_block nat (list Z) (toy_draw gen_n) 0%nat 16 j)))
                    (seq 0 8)) (seq 0 8) = true.
Proof. vm_compute. reflexivity. Qed.

(* before the repair, two members on two workers: the same noise, and the "ensemble" is just one member;
   after it: different noise, and the two disagree *)
Lemma toy_ensemble_v0_refuted :
  let sc := [(0, 0); (1, 1)]%nat in
  let par := [0; 2; 8; 1; 0] in
  sched_valid 2 2 sc /\
  (exists b, toy_noises true 20 2 sc = Some [b; b]) /\
  (exists b1 b2, toy_noises false 20 2 sc = Some [b1; b2] /\ b1 <> b2) /\
  fst (toy_ensemble_noise_v0 c08_cfg par sc c08_sig) <> fst (toy_ensemble_noise c08_cfg par sc c08_sig) /\
  (* the v0 mean over the two members is the single member: nothing is averaged *)
  fst (toy_ensemble_noise_v0 c08_cfg [0; 2; 8; 1; 1] sc c08_sig)
  = fst (toy_ensemble_noise c08_cfg [0; 1; 8; 1; 1] [(0, 0)]%nat c08_sig).
Proof.
  cbv zeta. split; [apply sched_validb_sound; reflexivity|].
  split; [eexists; vm_compute; reflexivity|].
  split.
  - eexists. eexists. split; [vm_compute; reflexivity|]. intros H. discriminate H.
  - split; [|vm_compute; reflexivity].
    intros H. vm_compute in H. discriminate H.
Qed.

(* the hypotheses of the main theorems are met by a concrete non-trivial state: 4 members on 3 workers in flip mode,
   every member defined with 2 columns, result defined; with zero amplitude the result is the classic toy sift *)
Lemma c08_premises_hold :
  let sc := [(2, 1); (0, 0); (1, 3); (0, 2)]%nat in
  sched_valid 3 4 sc /\
  (exists cols, fst (toy_ensemble_noise c08_cfg [1; 4; 8; 1; 0] sc c08_sig) = Some cols /\ length cols = 2%nat) /\
  snd (toy_ensemble_noise c08_cfg [1; 4; 8; 1; 0] sc c08_sig) = 80%nat /\
  (exists r, toy_sift_cols c08_cfg (Some 2%nat) c08_sig = Some r /\ length r = 2%nat /\
             fst (toy_ensemble_noise c08_cfg [1; 4; 0; 2; 1] sc c08_sig) = Some r) /\
  (exists imf ns, fst (toy_ceemd_noise c08_cfg [1; 2; 4; 1; 2] c08_sig) = (imf, Some ns, false) /\ length imf = 2%nat /\
                  length ns = 2%nat).
Proof.
  cbv zeta. split; [apply sched_validb_sound; reflexivity|].
  split; [eexists; split; vm_compute; reflexivity|].
  split; [vm_compute; reflexivity|].
  split.
  - eexists. split; [vm_compute; reflexivity|]. split; vm_compute; reflexivity.
  - eexists. eexists. split; [vm_compute; reflexivity|]. split; reflexivity.
Qed.
