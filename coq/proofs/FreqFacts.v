(* Facts about the model of instantaneous phase / frequency / amplitude (model/Freq.v), property C09.
   Everything is over canonical rationals (Qc): an exact-arithmetic statement about every finite
   input; IEEE rounding enters only through the explicit [rnd] of wrap_phase.
   NOT proved here (no Gallina model of scipy's FFT Hilbert transform or of the interpolants exists):
   the accuracy of the estimates on a sampled sinusoid - that clause is watched by the oracle only. *)
From Coq Require Import ZArith QArith Qcanon Qround List Bool Lia Lqa Arith.
From EmdV Require Import lib.NpLite model.Freq.
Import ListNotations.
Open Scope Qc_scope.

(* ---- Qc toolkit ------------------------------------------------------------ *)

Lemma q2_eq : q2 = 1 + 1.
Proof. apply Qc_is_canon. reflexivity. Qed.
Lemma q4_eq : q4 = (1 + 1) * (1 + 1).
Proof. apply Qc_is_canon. reflexivity. Qed.
Lemma two_neq0 : 1 + 1 <> 0.
Proof. intro H. apply (f_equal this) in H. discriminate H. Qed.
Lemma div2_half : forall x, x / q2 = x * qhalf.
Proof. intros x. unfold Qcdiv. f_equal; try (apply Qc_is_canon; reflexivity). Qed.
Lemma half_half : forall x, x * qhalf + x * qhalf = x.
Proof.
  intros x. replace qhalf with (/ (1 + 1)) by (apply Qc_is_canon; reflexivity).
  field. exact two_neq0.
Qed.

(* turn an order statement on Qc into one on Q that lra understands *)
Ltac q2q := unfold Qclt, Qcle, Qcminus, Qcplus, Qcmult, Qcopp, qz, qn, qhalf in *;
            cbn [this Q2Qc] in *; rewrite ?Qred_correct in *.

Lemma Qclt_neq0 : forall t : Qc, 0 < t -> t <> 0.
Proof. intros t Ht E. subst t. q2q. lra. Qed.

Lemma qz_plus : forall a b, qz (a + b) = qz a + qz b.
Proof. intros. unfold qz. apply Qc_is_canon. cbn [this Q2Qc Qcplus]. rewrite !Qred_correct. rewrite inject_Z_plus. reflexivity. Qed.
Lemma qz_opp : forall a, qz (- a) = - qz a.
Proof. intros. unfold qz. apply Qc_is_canon. cbn [this Q2Qc Qcopp]. rewrite !Qred_correct. rewrite inject_Z_opp. reflexivity. Qed.
Lemma qz_0 : qz 0 = 0.
Proof. reflexivity. Qed.
Lemma qz_1 : qz 1 = 1.
Proof. reflexivity. Qed.
Lemma qn_S : forall k, qn (S k) = qn k + 1.
Proof. intros. unfold qn. rewrite Nat2Z.inj_succ. unfold Z.succ. rewrite qz_plus. reflexivity. Qed.

Lemma qleb_true : forall x y, qleb x y = true <-> x <= y.
Proof. intros. unfold qleb, Qcle. apply Qle_bool_iff. Qed.
Lemma qltb_true : forall x y, qltb x y = true <-> x < y.
Proof.
  intros. unfold qltb, Qclt. rewrite negb_true_iff. split.
  - intros H. apply Qnot_le_lt. intro Hle. apply Qle_bool_iff in Hle. congruence.
  - intros H. destruct (Qle_bool y x) eqn:E; [|reflexivity]. apply Qle_bool_iff in E. exfalso. apply (Qlt_not_le _ _ H E).
Qed.
Lemma qltb_false : forall x y, qltb x y = false <-> y <= x.
Proof.
  intros. unfold qltb. rewrite negb_false_iff. apply qleb_true.
Qed.

(* ---- floor and numpy's remainder ---------------------------------------------- *)
Lemma Qfloor_unique : forall (y : Q) (n : Z), (inject_Z n <= y)%Q -> (y < inject_Z (n + 1))%Q -> Qfloor y = n.
Proof.
  intros y n Hlo Hhi.
  pose proof (Qfloor_resp_le _ _ Hlo) as H1. rewrite Qfloor_Z in H1.
  pose proof (Qfloor_le y) as H2.
  assert (H3 : (inject_Z (Qfloor y) < inject_Z (n + 1))%Q) by (eapply Qle_lt_trans; eassumption).
  rewrite <- Zlt_Qlt in H3. lia.
Qed.

Lemma Qfloor_plus_Z : forall (y : Q) (k : Z), Qfloor (y + inject_Z k) = (Qfloor y + k)%Z.
Proof.
  intros y k. apply Qfloor_unique.
  - rewrite inject_Z_plus. pose proof (Qfloor_le y). lra.
  - pose proof (Qlt_floor y) as H. rewrite !inject_Z_plus in *. lra.
Qed.

Lemma qfloor_plus_qz : forall y k, qfloor (y + qz k) = (qfloor y + k)%Z.
Proof.
  intros y k. unfold qfloor. rewrite <- Qfloor_plus_Z. apply Qfloor_comp.
  unfold qz, Qcplus. cbn [this Q2Qc]. rewrite !Qred_correct. reflexivity.
Qed.

Lemma qfloor_bounds : forall y, qz (qfloor y) <= y /\ y < qz (qfloor y) + 1.
Proof.
  intros y. unfold qfloor. pose proof (Qfloor_le y) as H1. pose proof (Qlt_floor y) as H2.
  rewrite inject_Z_plus in H2. change (inject_Z 1) with 1%Q in H2. split; q2q; lra.
Qed.

Lemma qmod_range : forall x t, 0 < t -> 0 <= qmod x t /\ qmod x t < t.
Proof.
  intros x t Ht. unfold qmod.
  assert (Hx : x = t * (x / t)) by (field; apply Qclt_neq0; exact Ht).
  set (y := x / t) in *. destruct (qfloor_bounds y) as [H1 H2].
  set (f := qz (qfloor y)) in *. rewrite Hx. clearbody y f. clear Hx.
  split; q2q; nra.
Qed.

Lemma qmod_shift : forall x t k, t <> 0 -> qmod (x + qz k * t) t = qmod x t.
Proof.
  intros x t k Ht. unfold qmod.
  replace ((x + qz k * t) / t) with (x / t + qz k) by (field; exact Ht).
  rewrite qfloor_plus_qz, qz_plus. ring.
Qed.
(* ---- list helpers ------------------------------------------------------------------ *)
Lemma nthq_map_seq : forall (f : nat -> Qc) n k, (k < n)%nat -> nthq (map f (seq 0 n)) k = f k.
Proof.
  intros f n k Hk. unfold nthq.
  rewrite (nth_indep _ 0 (f 0%nat)) by (rewrite map_length, seq_length; exact Hk).
  rewrite (map_nth f (seq 0 n) 0%nat k). rewrite seq_nth by exact Hk. reflexivity.
Qed.

Lemma nthq_map : forall (f : Qc -> Qc) l k, (k < length l)%nat -> nthq (map f l) k = f (nthq l k).
Proof.
  intros f l k Hk. unfold nthq.
  rewrite (nth_indep _ 0 (f 0)) by (rewrite map_length; exact Hk).
  apply map_nth.
Qed.

Lemma zipw_length : forall A B C (f : A -> B -> C) a b, length (zipw f a b) = Nat.min (length a) (length b).
Proof.
  intros A B C f a; induction a as [|x a IH]; intros [|y b]; cbn [zipw length Nat.min]; try reflexivity.
  rewrite IH. reflexivity.
Qed.

Lemma nthq_zipw : forall (f : Qc -> Qc -> Qc) a b k, (k < length a)%nat -> (k < length b)%nat ->
  nthq (zipw f a b) k = f (nthq a k) (nthq b k).
Proof.
  intros f a; induction a as [|x a IH]; intros [|y b] k Ha Hb; cbn [length] in *; try lia.
  destruct k as [|k]; cbn [zipw nthq nth]; [reflexivity|]. apply IH; lia.
Qed.

(* ---- gradient ------------------------------------------------------------------------ *)
Lemma gradient_none : forall l, gradient l = None <-> (length l < 2)%nat.
Proof.
  intros l. unfold gradient. destruct (length l <? 2)%nat eqn:E.
  - apply Nat.ltb_lt in E. split; auto.
  - apply Nat.ltb_ge in E. split; [discriminate|lia].
Qed.

Lemma gradient_some : forall l, (2 <= length l)%nat -> exists g, gradient l = Some g.
Proof.
  intros l H. destruct (gradient l) eqn:E; [eauto|]. apply gradient_none in E. lia.
Qed.

Lemma gradient_length : forall l g, gradient l = Some g -> length g = length l.
Proof.
  intros l g. unfold gradient. destruct (length l <? 2)%nat; [discriminate|].
  intros H; inversion H; subst. rewrite map_length, seq_length. reflexivity.
Qed.

Lemma gradient_nth : forall l g k, gradient l = Some g -> (k < length l)%nat ->
  nthq g k = if (k =? 0)%nat then nthq l 1 - nthq l 0
             else if (k =? length l - 1)%nat then nthq l (length l - 1) - nthq l (length l - 2)
             else (nthq l (k + 1) - nthq l (k - 1)) / q2.
Proof.
  intros l g k. unfold gradient. destruct (length l <? 2)%nat; [discriminate|].
  intros H Hk; inversion H; subst. rewrite nthq_map_seq by exact Hk. reflexivity.
Qed.

(* ---- cumsum --------------------------------------------------------------------------- *)
Lemma cumsum_from_length : forall l a, length (cumsum_from a l) = length l.
Proof. induction l as [|x t IH]; intros a; cbn [cumsum_from length]; [reflexivity|]. rewrite IH. reflexivity. Qed.

Lemma cumsum_from_nth_0 : forall l a, l <> [] -> nthq (cumsum_from a l) 0 = a + nthq l 0.
Proof. intros [|x t] a H; [congruence|]. reflexivity. Qed.

Lemma cumsum_from_nth_S : forall l a k, (S k < length l)%nat ->
  nthq (cumsum_from a l) (S k) = nthq (cumsum_from a l) k + nthq l (S k).
Proof.
  induction l as [|x t IH]; intros a k Hk; cbn [length] in Hk; [lia|].
  destruct k as [|k].
  - destruct t as [|y t']; cbn [length] in Hk; [lia|]. reflexivity.
  - cbn [cumsum_from]. change (nthq (?h :: ?r) (S ?j)) with (nthq r j).
    apply IH. lia.
Qed.

Section WithTau.
Variable tau : Qc.
Hypothesis tau_pos : 0 < tau.

Lemma tau_neq0 : tau <> 0.
Proof. apply Qclt_neq0. exact tau_pos. Qed.
Ltac fin := repeat split; first [exact two_neq0 | exact tau_neq0 | assumption].

(* ---- phase_from_freq / freq_from_phase -------------------------------------------------- *)
Lemma phase_from_freq_length : forall f sr ps, length (phase_from_freq tau f sr ps) = length f.
Proof. intros. unfold phase_from_freq, cumsum. rewrite map_length, cumsum_from_length, map_length. reflexivity. Qed.

Lemma phase_from_freq_step : forall f sr ps k, (S k < length f)%nat ->
  nthq (phase_from_freq tau f sr ps) (S k) = nthq (phase_from_freq tau f sr ps) k + nthq f (S k) / sr * tau.
Proof.
  intros f sr ps k Hk. unfold phase_from_freq, cumsum.
  rewrite !nthq_map by (rewrite cumsum_from_length, map_length; lia).
  rewrite cumsum_from_nth_S by (rewrite map_length; lia).
  rewrite nthq_map by lia. ring.
Qed.

Lemma phase_from_freq_first : forall f sr ps, f <> [] ->
  nthq (phase_from_freq tau f sr ps) 0 = ps + nthq f 0 / sr * tau.
Proof.
  intros f sr ps Hf. unfold phase_from_freq, cumsum.
  assert (0 < length f)%nat by (destruct f; [congruence|cbn; lia]).
  rewrite nthq_map by (rewrite cumsum_from_length, map_length; lia).
  rewrite cumsum_from_nth_0 by (destruct f; [congruence|discriminate]).
  rewrite nthq_map by lia. ring.
Qed.

Lemma freq_from_phase_some : forall U sr, (2 <= length U)%nat ->
  exists F, freq_from_phase tau U sr = Some F /\ length F = length U.
Proof.
  intros U sr H. unfold freq_from_phase. destruct (gradient_some U H) as [g Hg]. rewrite Hg. cbn [option_map].
  eexists; split; [reflexivity|]. rewrite map_length. eapply gradient_length; eauto.
Qed.

Lemma freq_from_phase_none : forall U sr, freq_from_phase tau U sr = None <-> (length U < 2)%nat.
Proof.
  intros U sr. unfold freq_from_phase. destruct (gradient U) eqn:E; cbn [option_map].
  - split; [discriminate|]. intros H. apply gradient_none in H. congruence.
  - split; [intros _; apply gradient_none; exact E|reflexivity].
Qed.

Lemma freq_from_phase_nth : forall U sr F k, freq_from_phase tau U sr = Some F -> (k < length U)%nat ->
  nthq F k = (if (k =? 0)%nat then nthq U 1 - nthq U 0
              else if (k =? length U - 1)%nat then nthq U (length U - 1) - nthq U (length U - 2)
              else (nthq U (k + 1) - nthq U (k - 1)) / q2) / tau * sr.
Proof.
  intros U sr F k. unfold freq_from_phase. destruct (gradient U) as [g|] eqn:E; [|discriminate].
  cbn [option_map]. intros H Hk; inversion H; subst.
  rewrite nthq_map by (erewrite gradient_length; eauto).
  rewrite (gradient_nth U g k E Hk). reflexivity.
Qed.

(* converting a frequency profile to phase and back: two-sample averaging in the interior *)
Theorem roundtrip_interior : forall f sr ps k, sr <> 0 -> (0 < k)%nat -> (k + 1 < length f)%nat ->
  exists F, freq_from_phase tau (phase_from_freq tau f sr ps) sr = Some F /\ length F = length f /\
            nthq F k = (nthq f k + nthq f (k + 1)) / q2.
Proof.
  intros f sr ps k Hsr Hk0 Hk.
  set (P := phase_from_freq tau f sr ps).
  assert (HP : length P = length f) by apply phase_from_freq_length.
  destruct (freq_from_phase_some P sr) as [F [HF HL]]; [lia|].
  exists F. split; [exact HF|]. split; [lia|].
  rewrite (freq_from_phase_nth P sr F k HF) by lia.
  destruct (k =? 0)%nat eqn:E0; [apply Nat.eqb_eq in E0; lia|].
  destruct (k =? length P - 1)%nat eqn:E1; [apply Nat.eqb_eq in E1; lia|].
  replace (k + 1)%nat with (S k) by lia.
  unfold P. rewrite (phase_from_freq_step f sr ps k) by lia.
  destruct k as [|j]; [lia|]. rewrite (phase_from_freq_step f sr ps j) by lia.
  replace (S j - 1)%nat with j by lia.
  rewrite q2_eq. field; fin.
Qed.

Theorem roundtrip_ends : forall f sr ps, sr <> 0 -> (2 <= length f)%nat ->
  exists F, freq_from_phase tau (phase_from_freq tau f sr ps) sr = Some F /\ length F = length f /\
            nthq F 0 = nthq f 1 /\ nthq F (length f - 1) = nthq f (length f - 1).
Proof.
  intros f sr ps Hsr Hn.
  set (P := phase_from_freq tau f sr ps).
  assert (HP : length P = length f) by apply phase_from_freq_length.
  destruct (freq_from_phase_some P sr) as [F [HF HL]]; [lia|].
  exists F. split; [exact HF|]. split; [lia|]. split.
  - rewrite (freq_from_phase_nth P sr F 0 HF) by lia. cbn [Nat.eqb].
    unfold P. rewrite (phase_from_freq_step f sr ps 0) by lia.
    field; fin.
  - rewrite (freq_from_phase_nth P sr F (length f - 1) HF) by lia.
    destruct (length f - 1 =? 0)%nat eqn:E0; [apply Nat.eqb_eq in E0; lia|].
    rewrite HP. rewrite Nat.eqb_refl.
    replace (length f - 1)%nat with (S (length f - 2)) by lia.
    unfold P. rewrite (phase_from_freq_step f sr ps (length f - 2)) by lia.
    replace (S (length f - 2) - 0)%nat with (S (length f - 2)) by lia.
    field; fin.
Qed.

(* exact where the profile is locally constant *)
Corollary roundtrip_constant : forall f sr ps k, sr <> 0 -> (0 < k)%nat -> (k + 1 < length f)%nat ->
  nthq f k = nthq f (k + 1) ->
  exists F, freq_from_phase tau (phase_from_freq tau f sr ps) sr = Some F /\ nthq F k = nthq f k.
Proof.
  intros f sr ps k Hsr Hk0 Hk Heq.
  destruct (roundtrip_interior f sr ps k Hsr Hk0 Hk) as [F [HF [_ Hv]]].
  exists F. split; [exact HF|]. rewrite Hv, <- Heq. rewrite q2_eq. field; fin.
Qed.

(* a linear unwrapped phase has a constant instantaneous frequency, end samples included *)
Theorem linear_phase_constant_if : forall U sr a b, (2 <= length U)%nat ->
  (forall k, (k < length U)%nat -> nthq U k = a + b * qn k) ->
  exists F, freq_from_phase tau U sr = Some F /\ length F = length U /\
            forall k, (k < length U)%nat -> nthq F k = b / tau * sr.
Proof.
  intros U sr a b Hn Hlin.
  destruct (freq_from_phase_some U sr Hn) as [F [HF HL]].
  exists F. split; [exact HF|]. split; [exact HL|].
  intros k Hk. rewrite (freq_from_phase_nth U sr F k HF Hk).
  destruct (k =? 0)%nat eqn:E0.
  - rewrite !Hlin by lia. change (qn 0) with 0. change (qn 1) with 1. field; fin.
  - apply Nat.eqb_neq in E0. destruct (k =? length U - 1)%nat eqn:E1.
    + rewrite !Hlin by lia. replace (length U - 1)%nat with (S (length U - 2)) by lia.
      rewrite qn_S. field; fin.
    + apply Nat.eqb_neq in E1. rewrite !Hlin by lia.
      replace (k + 1)%nat with (S (S (k - 1))) by lia. rewrite !qn_S.
      rewrite q2_eq. field; fin.
Qed.

End WithTau.
(* ---- wrap_phase ------------------------------------------------------------------------ *)
Section Wrap.
Variable tau : Qc.
Hypothesis tau_pos : 0 < tau.
Variable rnd : Qc -> Qc.

(* the repaired wrap_phase stays in [0, tau) for EVERY rounding function that keeps non-negative
   numbers non-negative (floating point rounding is monotone and 0 is representable) *)
Theorem wrap_range : (forall v, 0 <= v -> 0 <= rnd v) -> forall x, 0 <= wrap tau rnd x /\ wrap tau rnd x < tau.
Proof.
  intros Hr x. unfold wrap. cbv zeta. destruct (qmod_range x tau tau_pos) as [H0 _].
  specialize (Hr _ H0). destruct (qleb tau (rnd (qmod x tau))) eqn:E.
  - split; [apply Qcle_refl | exact tau_pos].
  - split; [exact Hr|]. apply qltb_true. unfold qltb. unfold qleb in E. rewrite E. reflexivity.
Qed.

(* in exact arithmetic (no rounding) it is numpy's remainder *)
Theorem wrap_exact : forall x, wrap tau id_rnd x = qmod x tau.
Proof.
  intros x. unfold wrap, id_rnd. cbv zeta. destruct (qmod_range x tau tau_pos) as [_ H1].
  destruct (qleb tau (qmod x tau)) eqn:E; [|reflexivity].
  apply qleb_true in E. exfalso. exact (Qclt_not_le _ _ H1 E).
Qed.

Theorem wrap_periodic : forall x k, wrap tau rnd (x + qz k * tau) = wrap tau rnd x.
Proof. intros. unfold wrap. rewrite qmod_shift by (apply Qclt_neq0; exact tau_pos). reflexivity. Qed.

(* ---- np.unwrap ---------------------------------------------------------------------------- *)
Definition is_mult (x : Qc) : Prop := exists m : Z, x = qz m * tau.

Lemma is_mult_0 : is_mult 0.
Proof. exists 0%Z. rewrite qz_0. ring. Qed.

Lemma is_mult_plus : forall x y, is_mult x -> is_mult y -> is_mult (x + y).
Proof. intros x y [m Hm] [n Hn]. exists (m + n)%Z. rewrite qz_plus, Hm, Hn. ring. Qed.

Lemma ph_correct_mult : forall dd, is_mult (ph_correct tau dd).
Proof.
  intros dd. unfold ph_correct.
  destruct (qltb (qabs dd) (tau / q2)); [apply is_mult_0|].
  set (fl := qfloor ((dd + tau / q2) / tau)).
  assert (H0 : qmod (dd + tau / q2) tau - tau / q2 - dd = qz (- fl) * tau).
  { unfold qmod. fold fl. rewrite qz_opp. ring. }
  destruct (Qc_eq_bool (qmod (dd + tau / q2) tau - tau / q2) (- (tau / q2)) && qltb 0 dd) eqn:E.
  - apply andb_true_iff in E. destruct E as [E _]. apply Qc_eq_bool_correct in E.
    exists (- fl + 1)%Z. rewrite qz_plus, qz_1.
    replace (tau / q2 - dd) with ((qmod (dd + tau / q2) tau - tau / q2 - dd) + tau).
    + rewrite H0. ring.
    + rewrite E. rewrite q2_eq. field. exact two_neq0.
  - exists (- fl)%Z. exact H0.
Qed.

Lemma cumsum_from_mult : forall l a, is_mult a -> Forall is_mult l -> Forall is_mult (cumsum_from a l).
Proof.
  induction l as [|x t IH]; intros a Ha Hl; cbn [cumsum_from]; [constructor|].
  inversion Hl; subst. constructor; [apply is_mult_plus; assumption|].
  apply IH; [apply is_mult_plus; assumption|assumption].
Qed.

Lemma diffs_length : forall l, length (diffs l) = (length l - 1)%nat.
Proof. intros. unfold diffs. rewrite map_length, seq_length. reflexivity. Qed.

Lemma diffs_nth : forall l k, (S k < length l)%nat -> nthq (diffs l) k = nthq l (S k) - nthq l k.
Proof. intros l k Hk. unfold diffs. rewrite nthq_map_seq by lia. reflexivity. Qed.

Definition corrections (p : list Qc) : list Qc := cumsum (map (ph_correct tau) (diffs p)).

Lemma corrections_length : forall p, length (corrections p) = (length p - 1)%nat.
Proof. intros. unfold corrections, cumsum. rewrite cumsum_from_length, map_length, diffs_length. reflexivity. Qed.

Lemma unwrap_length : forall p, length (unwrap tau p) = length p.
Proof.
  intros [|p0 t]; [reflexivity|]. cbn [unwrap length]. rewrite zipw_length.
  fold (corrections (p0 :: t)). rewrite corrections_length. cbn [length]. lia.
Qed.

Lemma unwrap_nth_0 : forall p, nthq (unwrap tau p) 0 = nthq p 0.
Proof. intros [|p0 t]; reflexivity. Qed.

Lemma unwrap_nth_S : forall p k, (S k < length p)%nat ->
  nthq (unwrap tau p) (S k) = nthq p (S k) + nthq (corrections p) k.
Proof.
  intros [|p0 t] k Hk; cbn [length] in Hk; [lia|].
  cbn [unwrap]. change (nthq (?h :: ?r) (S ?j)) with (nthq r j).
  fold (corrections (p0 :: t)).
  rewrite nthq_zipw; [reflexivity|lia|rewrite corrections_length; cbn [length]; lia].
Qed.

Lemma corrections_mult : forall p, Forall is_mult (corrections p).
Proof.
  intros p. unfold corrections, cumsum. apply cumsum_from_mult; [apply is_mult_0|].
  apply Forall_forall. intros x Hx. apply in_map_iff in Hx. destruct Hx as [d [<- _]]. apply ph_correct_mult.
Qed.

(* unwrapping only ever adds whole periods *)
Theorem unwrap_congruent : forall p k, (k < length p)%nat ->
  exists m : Z, nthq (unwrap tau p) k = nthq p k + qz m * tau.
Proof.
  intros p [|k] Hk.
  - exists 0%Z. rewrite unwrap_nth_0, qz_0. ring.
  - rewrite unwrap_nth_S by exact Hk.
    pose proof (corrections_mult p) as HF. rewrite Forall_forall in HF.
    destruct (HF (nthq (corrections p) k)) as [m Hm].
    { apply nth_In. rewrite corrections_length. lia. }
    exists m. rewrite Hm. reflexivity.
Qed.

(* hence the wrapped phase of the unwrapped series is the wrapped phase of the original *)
Theorem wrap_unwrap : forall p k, (k < length p)%nat ->
  wrap tau rnd (nthq (unwrap tau p) k) = wrap tau rnd (nthq p k).
Proof.
  intros p k Hk. destruct (unwrap_congruent p k Hk) as [m Hm]. rewrite Hm. apply wrap_periodic.
Qed.

(* and consecutive unwrapped samples never differ by more than half a period *)
Lemma corrections_step : forall p k, (S k < length p)%nat ->
  nthq (corrections p) k = (match k with O => 0 | S j => nthq (corrections p) j end) + ph_correct tau (nthq p (S k) - nthq p k).
Proof.
  intros p k Hk. unfold corrections, cumsum. destruct k as [|j].
  - rewrite cumsum_from_nth_0.
    + rewrite nthq_map by (rewrite diffs_length; lia). rewrite diffs_nth by lia. reflexivity.
    + intro E. apply (f_equal (@length Qc)) in E. rewrite map_length, diffs_length in E. cbn [length] in E. lia.
  - rewrite cumsum_from_nth_S by (rewrite map_length, diffs_length; lia).
    rewrite nthq_map by (rewrite diffs_length; lia). rewrite diffs_nth by lia. reflexivity.
Qed.

Lemma unwrap_step : forall p k, (S k < length p)%nat ->
  nthq (unwrap tau p) (S k) - nthq (unwrap tau p) k =
  (nthq p (S k) - nthq p k) + ph_correct tau (nthq p (S k) - nthq p k).
Proof.
  intros p k Hk. rewrite unwrap_nth_S by exact Hk. rewrite (corrections_step p k Hk).
  destruct k as [|j].
  - rewrite unwrap_nth_0. ring.
  - rewrite unwrap_nth_S by lia. ring.
Qed.

Lemma qabs_lt : forall x h, qltb (qabs x) h = true -> - h < x /\ x < h.
Proof.
  intros x h H. apply qltb_true in H. unfold qabs in H. destruct (qleb 0 x) eqn:E.
  - apply qleb_true in E. split; q2q; lra.
  - assert (E' : qltb x 0 = true) by (unfold qltb; unfold qleb in E; rewrite E; reflexivity).
    apply qltb_true in E'. split; q2q; lra.
Qed.

Lemma step_bounded : forall dd, - (tau * qhalf) <= dd + ph_correct tau dd /\ dd + ph_correct tau dd <= tau * qhalf.
Proof.
  intros dd. unfold ph_correct. rewrite !div2_half.
  destruct (qltb (qabs dd) (tau * qhalf)) eqn:E1.
  - apply qabs_lt in E1. destruct E1. split; q2q; lra.
  - destruct (qmod_range (dd + tau * qhalf) tau tau_pos) as [H0 H1].
    assert (Hh1 : tau * qhalf + tau * qhalf <= tau) by (rewrite half_half; apply Qcle_refl).
    assert (Hh2 : tau <= tau * qhalf + tau * qhalf) by (rewrite half_half; apply Qcle_refl).
    pose proof tau_pos as Htp.
    set (r := qmod (dd + tau * qhalf) tau) in *.
    set (h := tau * qhalf) in *.
    destruct (Qc_eq_bool (r - h) (- h) && qltb 0 dd).
    + replace (dd + (h - dd)) with h by ring. clearbody r h. split; q2q; lra.
    + replace (dd + (r - h - dd)) with (r - h) by ring. clearbody r h. split; q2q; lra.
Qed.

Theorem unwrap_steps_bounded : forall p k, (S k < length p)%nat ->
  - (tau / q2) <= nthq (unwrap tau p) (S k) - nthq (unwrap tau p) k /\
  nthq (unwrap tau p) (S k) - nthq (unwrap tau p) k <= tau / q2.
Proof.
  intros p k Hk. rewrite unwrap_step by exact Hk. rewrite div2_half. apply step_bounded.
Qed.

End Wrap.
(* ---- median smoothing ------------------------------------------------------------------ *)
Lemma qleb_of_lt : forall x y, x < y -> qleb x y = true.
Proof. intros x y H. apply qleb_true. apply Qclt_le_weak. exact H. Qed.

Lemma median5_increasing : forall a b c d e, a < b -> b < c -> c < d -> d < e -> median5 a b c d e = c.
Proof.
  intros a b c d e Hab Hbc Hcd Hde. unfold median5, sortq. cbn [fold_right insert_sorted].
  rewrite (qleb_of_lt d e Hde). cbn [insert_sorted]. rewrite (qleb_of_lt c d Hcd). cbn [insert_sorted].
  rewrite (qleb_of_lt b c Hbc). cbn [insert_sorted]. rewrite (qleb_of_lt a b Hab). reflexivity.
Qed.

Lemma medfilt5_length : forall l, length (medfilt5 l) = length l.
Proof. intros. unfold medfilt5. rewrite map_length, seq_length. reflexivity. Qed.

Lemma padded_in : forall l i, (i < length l)%nat -> padded l (Z.of_nat i) = nthq l i.
Proof.
  intros l i Hi. unfold padded.
  destruct (0 <=? Z.of_nat i)%Z eqn:E0; [|apply Z.leb_gt in E0; lia].
  destruct (Z.of_nat i <? Z.of_nat (length l))%Z eqn:E1; [|apply Z.ltb_ge in E1; lia].
  cbn [andb]. rewrite Nat2Z.id. reflexivity.
Qed.

(* the median of five of a strictly increasing run is its middle sample: smoothing leaves a clean,
   monotonically advancing phase untouched away from the two samples at each end *)
Theorem medfilt_increasing_interior : forall l k, (2 <= k)%nat -> (k + 2 < length l)%nat ->
  nthq l (k - 2) < nthq l (k - 1) -> nthq l (k - 1) < nthq l k ->
  nthq l k < nthq l (k + 1) -> nthq l (k + 1) < nthq l (k + 2) ->
  nthq (medfilt5 l) k = nthq l k.
Proof.
  intros l k H2 Hk Ha Hb Hc Hd. unfold medfilt5. rewrite nthq_map_seq by lia. cbv zeta.
  replace (Z.of_nat k - 2)%Z with (Z.of_nat (k - 2)) by lia.
  replace (Z.of_nat k - 1)%Z with (Z.of_nat (k - 1)) by lia.
  replace (Z.of_nat k + 1)%Z with (Z.of_nat (k + 1)) by lia.
  replace (Z.of_nat k + 2)%Z with (Z.of_nat (k + 2)) by lia.
  rewrite !padded_in by lia. apply median5_increasing; assumption.
Qed.

(* ---- frequency_transform ------------------------------------------------------------------ *)
Lemma all_some_length : forall A (l : list (option A)) r, all_some l = Some r -> length r = length l.
Proof.
  intros A l; induction l as [|[a|] t IH]; intros r H; cbn [all_some] in H.
  - inversion H. reflexivity.
  - destruct (all_some t) as [r'|]; [|discriminate]. inversion H; subst. cbn [length]. rewrite (IH r' eq_refl). reflexivity.
  - discriminate.
Qed.

Lemma all_some_nth : forall A (l : list (option A)) r j, all_some l = Some r ->
  nth_error l j = option_map Some (nth_error r j).
Proof.
  intros A l; induction l as [|[a|] t IH]; intros r j H; cbn [all_some] in H.
  - inversion H. destruct j; reflexivity.
  - destruct (all_some t) as [r'|] eqn:E; [|discriminate]. inversion H; subst.
    destruct j as [|j]; [reflexivity|]. cbn [nth_error]. apply IH. reflexivity.
  - discriminate.
Qed.

Lemma all_some_map : forall A B (f : A -> B) (l : list (option A)),
  all_some (map (option_map f) l) = option_map (map f) (all_some l).
Proof.
  intros A B f l; induction l as [|[a|] t IH]; cbn [map all_some option_map]; [reflexivity| |reflexivity].
  rewrite IH. destruct (all_some t); reflexivity.
Qed.

Section Transform.
Variable tau : Qc.
Variable rnd : Qc -> Qc.
Variable analytic : list Qc -> list (Qc * Qc).
Variable angle : Qc * Qc -> Qc.
Variable cabs : Qc * Qc -> Qc.
Variable qsqrt : Qc -> Qc.
Variable env_upper : list Qc -> option (list Qc).
Variable env_comb : list Qc -> option (list Qc).
Variable thresh : Qc.

(* contracts of the oracles: shapes *)
Hypothesis analytic_len : forall x, length (analytic x) = length x.
Hypothesis env_upper_len : forall x e, env_upper x = Some e -> length e = length x.
Hypothesis env_comb_len : forall x e, env_comb x = Some e -> length e = length x.

Notation normalise := (amplitude_normalise env_comb thresh).
Notation nloop := (normalise_loop env_comb thresh).
Notation csignal := (complex_signal analytic qsqrt env_comb thresh).
Notation ftcol := (ft_col tau rnd analytic angle cabs qsqrt env_upper env_comb thresh).
Notation ftrans := (frequency_transform tau rnd analytic angle cabs qsqrt env_upper env_comb thresh).

Lemma normalise_loop_length : forall fuel x e, length e = length x -> length (nloop fuel x e) = length x.
Proof.
  induction fuel as [|fuel IH]; intros x e He; cbn [normalise_loop]; [reflexivity|].
  assert (Hz : length (zipw Qcdiv x e) = length x) by (rewrite zipw_length; lia).
  destruct (env_comb (zipw Qcdiv x e)) as [e'|] eqn:E; [|exact Hz].
  destruct (qltb _ thresh); [exact Hz|].
  rewrite IH; [exact Hz|]. apply env_comb_len in E. exact E.
Qed.

Lemma normalise_length : forall x, length (normalise x) = length x.
Proof.
  intros x. unfold amplitude_normalise. destruct (env_comb x) as [e|] eqn:E; [|reflexivity].
  apply normalise_loop_length. apply env_comb_len. exact E.
Qed.

Lemma quad_mask_length : forall nx, nx <> [] -> length (quad_mask nx) = length nx.
Proof.
  intros nx H. unfold quad_mask. rewrite app_length, map_length, diffs_length. cbn [length].
  destruct nx; [congruence|cbn [length]; lia].
Qed.

Lemma quadrature_length : forall x, length (quadrature qsqrt env_comb thresh x) = length x.
Proof.
  intros x. unfold quadrature. cbv zeta. set (nx := map clip1 (normalise x)).
  assert (Hn : length nx = length x) by (unfold nx; rewrite map_length; apply normalise_length).
  rewrite combine_length, zipw_length, map_length.
  destruct x as [|a x'].
  - cbn [length] in *. rewrite Hn. reflexivity.
  - rewrite quad_mask_length by (intro E; rewrite E in Hn; discriminate). lia.
Qed.

Lemma complex_signal_length : forall m x, length (csignal m x) = length x.
Proof.
  intros [| |] x; cbn [complex_signal].
  - apply analytic_len.
  - rewrite analytic_len. apply normalise_length.
  - apply quadrature_length.
Qed.

Lemma unwrapped_phase_length : forall s a, length (unwrapped_phase tau s a) = length a.
Proof.
  intros s a. unfold unwrapped_phase. rewrite map_length. destruct s.
  - rewrite medfilt5_length. apply unwrap_length.
  - apply unwrap_length.
Qed.

Lemma ft_from_angles_shapes : forall s sr a p f, ft_from_angles tau rnd s sr a = Some (p, f) ->
  length p = length a /\ length f = length a.
Proof.
  intros s sr a p f. unfold ft_from_angles. cbv zeta.
  destruct (freq_from_phase tau (unwrapped_phase tau s a) sr) as [F|] eqn:E; [|discriminate].
  intros H; inversion H; subst. rewrite map_length, unwrapped_phase_length. split; [reflexivity|].
  unfold freq_from_phase in E. destruct (gradient (unwrapped_phase tau s a)) as [g|] eqn:Eg; [|discriminate].
  cbn [option_map] in E. inversion E; subst. rewrite map_length. rewrite (gradient_length _ _ Eg).
  apply unwrapped_phase_length.
Qed.

Lemma ft_from_angles_none : forall s sr a, ft_from_angles tau rnd s sr a = None <-> (length a < 2)%nat.
Proof.
  intros s sr a. unfold ft_from_angles. cbv zeta.
  destruct (freq_from_phase tau (unwrapped_phase tau s a) sr) as [F|] eqn:E.
  - split; [discriminate|]. intros H. exfalso.
    assert (freq_from_phase tau (unwrapped_phase tau s a) sr = None)
      by (apply freq_from_phase_none; rewrite unwrapped_phase_length; exact H).
    congruence.
  - split; [|reflexivity]. intros _. apply freq_from_phase_none in E. rewrite unwrapped_phase_length in E. exact E.
Qed.

(* shapes: every output column has the length of the input column; the call fails exactly for
   columns of fewer than two samples (np.gradient's ValueError) *)
Theorem ft_col_shapes : forall m s sr x o, ftcol m s sr x = Some o ->
  length (IP o) = length x /\ length (IFq o) = length x /\ (forall a, IA o = Some a -> length a = length x).
Proof.
  intros m s sr x o. unfold ft_col.
  destruct (ft_from_angles tau rnd s sr (map angle (csignal m x))) as [[p f]|] eqn:E; [|discriminate].
  intros H; inversion H; subst; cbn [IP IFq IA].
  apply ft_from_angles_shapes in E. rewrite map_length, complex_signal_length in E. destruct E as [E1 E2].
  split; [exact E1|]. split; [exact E2|].
  intros a Ha. destruct m; cbn [amplitude] in Ha.
  - inversion Ha; subst. rewrite map_length. apply analytic_len.
  - eapply env_upper_len; eauto.
  - eapply env_upper_len; eauto.
Qed.

Theorem ft_col_fails_iff : forall m s sr x, ftcol m s sr x = None <-> (length x < 2)%nat.
Proof.
  intros m s sr x. unfold ft_col.
  destruct (ft_from_angles tau rnd s sr (map angle (csignal m x))) as [[p f]|] eqn:E.
  - split; [discriminate|]. intros H. exfalso.
    assert (ft_from_angles tau rnd s sr (map angle (csignal m x)) = None)
      by (apply ft_from_angles_none; rewrite map_length, complex_signal_length; exact H).
    congruence.
  - split; [|reflexivity]. intros _. apply ft_from_angles_none in E.
    rewrite map_length, complex_signal_length in E. exact E.
Qed.

Theorem ft_shapes : forall m s sr cols outs, ftrans m s sr cols = Some outs ->
  length outs = length cols /\
  forall j x o, nth_error cols j = Some x -> nth_error outs j = Some o ->
    length (IP o) = length x /\ length (IFq o) = length x /\ (forall a, IA o = Some a -> length a = length x).
Proof.
  intros m s sr cols outs H. unfold frequency_transform in H. split.
  - apply all_some_length in H. rewrite map_length in H. exact H.
  - intros j x o Hx Ho. pose proof (all_some_nth _ _ _ j H) as Hn.
    rewrite nth_error_map, Hx, Ho in Hn. cbn [option_map] in Hn. inversion Hn as [Hc].
    eapply ft_col_shapes. exact Hc.
Qed.

(* frequency is the sample-rate-scaled derivative (np.gradient) of the SAME unwrapped phase whose
   wrapped value is returned as the instantaneous phase *)
Theorem if_is_scaled_gradient : forall m s sr x o, ftcol m s sr x = Some o ->
  let U := unwrapped_phase tau s (map angle (csignal m x)) in
  exists g, gradient U = Some g /\
            IFq o = map (fun d => d / tau * sr) g /\
            IP o = map (wrap tau rnd) U.
Proof.
  intros m s sr x o. unfold ft_col, ft_from_angles, freq_from_phase. cbv zeta.
  destruct (gradient (unwrapped_phase tau s (map angle (csignal m x)))) as [g|] eqn:E; cbn [option_map]; [|discriminate].
  intros H; inversion H; subst; cbn [IP IFq]. exists g. repeat split.
Qed.

(* ---- invariance under positive rescaling ---------------------------------------------------- *)
(* contracts of the oracles (TRUSTED: they describe scipy.signal.hilbert, np.angle, np.abs and the
   envelope interpolants; they are exercised, not proved, by the harness) *)
Hypothesis analytic_scale : forall c x, 0 < c -> analytic (qscale c x) = map (cscale c) (analytic x).
Hypothesis angle_scale : forall c z, 0 < c -> angle (cscale c z) = angle z.
Hypothesis cabs_scale : forall c z, 0 < c -> cabs (cscale c z) = c * cabs z.
Hypothesis env_upper_scale : forall c x, 0 < c -> env_upper (qscale c x) = option_map (qscale c) (env_upper x).
Hypothesis env_comb_scale : forall c x, 0 < c -> env_comb (qscale c x) = option_map (qscale c) (env_comb x).

Lemma div_scale : forall c a b, c <> 0 -> (c * a) / (c * b) = a / b.
Proof.
  intros c a b Hc. destruct (Qc_eq_dec b 0) as [->|Hb].
  - replace (c * 0) with 0 by ring. unfold Qcdiv. replace (/ 0) with 0 by (apply Qc_is_canon; reflexivity). ring.
  - field. split; assumption.
Qed.

Lemma zipw_div_scale : forall c x e, c <> 0 -> zipw Qcdiv (qscale c x) (qscale c e) = zipw Qcdiv x e.
Proof.
  intros c x; induction x as [|a x IH]; intros [|b e] Hc; cbn [qscale map zipw]; try reflexivity.
  rewrite div_scale by exact Hc. f_equal. apply IH. exact Hc.
Qed.

Lemma normalise_loop_scale : forall fuel c x e, c <> 0 ->
  nloop (S fuel) (qscale c x) (qscale c e) = nloop (S fuel) x e.
Proof.
  intros fuel c x e Hc. cbn [normalise_loop]. rewrite zipw_div_scale by exact Hc. reflexivity.
Qed.

(* an IMF that has an envelope is normalised to the same unit-amplitude signal whatever its scale *)
Lemma normalise_scale : forall c x e, 0 < c -> env_comb x = Some e -> normalise (qscale c x) = normalise x.
Proof.
  intros c x e Hc He. unfold amplitude_normalise. rewrite env_comb_scale by exact Hc. rewrite He. cbn [option_map].
  apply normalise_loop_scale. apply Qclt_neq0. exact Hc.
Qed.

Lemma angles_scale : forall c z, 0 < c -> map angle (map (cscale c) z) = map angle z.
Proof.
  intros c z Hc. rewrite map_map. apply map_ext. intros a. apply angle_scale. exact Hc.
Qed.

Lemma signal_angles_scale : forall m c x, 0 < c -> (m = Quad -> env_comb x <> None) ->
  map angle (csignal m (qscale c x)) = map angle (csignal m x).
Proof.
  intros m c x Hc Hq. destruct m; cbn [complex_signal].
  - rewrite analytic_scale by exact Hc. apply angles_scale. exact Hc.
  - destruct (env_comb x) as [e|] eqn:E.
    + rewrite (normalise_scale c x e Hc E). reflexivity.
    + unfold amplitude_normalise. rewrite env_comb_scale by exact Hc. rewrite E. cbn [option_map].
      rewrite analytic_scale by exact Hc. apply angles_scale. exact Hc.
  - destruct (env_comb x) as [e|] eqn:E; [|exfalso; apply Hq; reflexivity].
    unfold quadrature. cbv zeta. rewrite (normalise_scale c x e Hc E). reflexivity.
Qed.

Lemma amplitude_scale : forall m c x, 0 < c ->
  amplitude analytic cabs env_upper m (qscale c x) = option_map (qscale c) (amplitude analytic cabs env_upper m x).
Proof.
  intros m c x Hc. destruct m; cbn [amplitude]; try (apply env_upper_scale; exact Hc).
  cbn [option_map]. f_equal. rewrite analytic_scale by exact Hc. unfold qscale. rewrite !map_map.
  apply map_ext. intros z. apply cabs_scale. exact Hc.
Qed.

(* positive rescaling of an IMF: phase and frequency unchanged, amplitude times c.
   For 'quad' the IMF must have an envelope (otherwise the clip to [-1, 1] is not scale free). *)
Theorem scale_invariance : forall m s sr c x, 0 < c -> (m = Quad -> env_comb x <> None) ->
  ftcol m s sr (qscale c x) = option_map (scale_out c) (ftcol m s sr x).
Proof.
  intros m s sr c x Hc Hq. unfold ft_col. rewrite (signal_angles_scale m c x Hc Hq).
  destruct (ft_from_angles tau rnd s sr (map angle (csignal m x))) as [[p f]|]; [|reflexivity].
  cbn [option_map]. unfold scale_out. cbn [IP IFq IA]. rewrite amplitude_scale by exact Hc. reflexivity.
Qed.

Theorem scale_invariance_array : forall m s sr c cols, 0 < c ->
  (m = Quad -> forall x, In x cols -> env_comb x <> None) ->
  ftrans m s sr (map (qscale c) cols) = option_map (map (scale_out c)) (ftrans m s sr cols).
Proof.
  intros m s sr c cols Hc Hq. unfold frequency_transform. rewrite map_map.
  rewrite <- all_some_map. rewrite map_map. f_equal. apply map_ext_in.
  intros x Hx. apply scale_invariance; [exact Hc|]. intros Hm. apply Hq; assumption.
Qed.

End Transform.
(* ---- the float corner of wrap_phase before the repair ------------------------------------------- *)

Lemma tau8_pos : 0 < tau8.
Proof. reflexivity. Qed.

Lemma toy_rnd_nonneg : forall v, 0 <= v -> 0 <= toy_rnd v.
Proof.
  intros v Hv. unfold toy_rnd. destruct (qltb v q4); [exact Hv|].
  assert (H : (0 <= qfloor (v + Q2Qc (1 # 2)))%Z).
  { unfold qfloor. rewrite <- (Qfloor_Z 0). apply Qfloor_resp_le. change (inject_Z 0) with 0%Q. q2q. lra. }
  unfold qz, Qcle. cbn [this Q2Qc]. rewrite !Qred_correct. rewrite Zle_Qle in H. exact H.
Qed.

(* on a toy floating point grid (quarter resolution below 4, integers from 4 up, round to nearest)
   the unrepaired wrap_phase maps the representable phase -1/4 to the period itself, although the
   rounding keeps non-negative numbers non-negative; the repaired one returns phase zero *)
Theorem wrap_v0_range_refuted :
  (forall v, 0 <= v -> 0 <= toy_rnd v) /\
  exists x, toy_rnd x = x /\ wrap_v0 tau8 toy_rnd x = tau8 /\ wrap tau8 toy_rnd x = 0.
Proof.
  split; [exact toy_rnd_nonneg|]. exists (Q2Qc (-1 # 4)).
  repeat split; apply Qc_is_canon; vm_compute; reflexivity.
Qed.

(* ---- the oracle contracts are satisfiable: a toy instance ------------------------------------------ *)

Lemma mult_pos_iff : forall c b, 0 < c -> (0 < c * b <-> 0 < b).
Proof.
  intros c b Hc. split; intros H.
  - destruct (Qclt_le_dec 0 b) as [Hb|Hb]; [exact Hb|]. exfalso. q2q. nra.
  - q2q. nra.
Qed.

Lemma mult_neg_iff : forall c b, 0 < c -> (c * b < 0 <-> b < 0).
Proof.
  intros c b Hc. split; intros H.
  - destruct (Qclt_le_dec b 0) as [Hb|Hb]; [exact Hb|]. exfalso. q2q. nra.
  - q2q. nra.
Qed.

Lemma qltb_iff_compat : forall a b a' b', (a < b <-> a' < b') -> qltb a b = qltb a' b'.
Proof.
  intros a b a' b' H. destruct (qltb a b) eqn:E1, (qltb a' b') eqn:E2; try reflexivity.
  - apply qltb_true in E1. apply H in E1. apply qltb_true in E1. congruence.
  - apply qltb_true in E2. apply H in E2. apply qltb_true in E2. congruence.
Qed.

Lemma qabs_scale : forall c a, 0 < c -> qabs (c * a) = c * qabs a.
Proof.
  intros c a Hc. unfold qabs.
  assert (E : qleb 0 (c * a) = qleb 0 a).
  { destruct (qleb 0 (c * a)) eqn:E1, (qleb 0 a) eqn:E2; try reflexivity.
    - apply qleb_true in E1. assert (H : qltb a 0 = true) by (unfold qltb; unfold qleb in E2; rewrite E2; reflexivity).
      apply qltb_true in H. exfalso. q2q. nra.
    - apply qleb_true in E2. assert (H : qltb (c * a) 0 = true) by (unfold qltb; unfold qleb in E1; rewrite E1; reflexivity).
      apply qltb_true in H. exfalso. q2q. nra. }
  rewrite E. destruct (qleb 0 a); ring.
Qed.

Lemma toy_env_scale : forall c x, 0 < c -> toy_env (qscale c x) = option_map (qscale c) (toy_env x).
Proof.
  intros c x Hc. unfold toy_env, qscale. rewrite map_length. destruct (length x <? 3)%nat; [reflexivity|].
  cbn [option_map]. f_equal. rewrite !map_map. apply map_ext. intros a. apply qabs_scale. exact Hc.
Qed.

Theorem toy_contracts_hold :
  (forall x, length (toy_analytic x) = length x) /\
  (forall x e, toy_env x = Some e -> length e = length x) /\
  (forall c x, 0 < c -> toy_analytic (qscale c x) = map (cscale c) (toy_analytic x)) /\
  (forall c z, 0 < c -> toy_angle (cscale c z) = toy_angle z) /\
  (forall c z, 0 < c -> toy_cabs (cscale c z) = c * toy_cabs z) /\
  (forall c x, 0 < c -> toy_env (qscale c x) = option_map (qscale c) (toy_env x)).
Proof.
  split; [intros; apply map_length|].
  split; [intros x e; unfold toy_env; destruct (length x <? 3)%nat; [discriminate|]; intros H; inversion H; apply map_length|].
  split; [intros c x Hc; unfold toy_analytic, qscale; rewrite !map_map; apply map_ext; intros a; unfold cscale; cbn [fst snd]; f_equal; ring|].
  split.
  { intros c [a b] Hc. unfold toy_angle, cscale. cbn [fst snd].
    rewrite (qltb_iff_compat 0 (c * b) 0 b (mult_pos_iff c b Hc)).
    rewrite (qltb_iff_compat (c * b) 0 b 0 (mult_neg_iff c b Hc)).
    rewrite (qltb_iff_compat (c * a) 0 a 0 (mult_neg_iff c a Hc)). reflexivity. }
  split.
  { intros c [a b] Hc. unfold toy_cabs, cscale. cbn [fst snd]. rewrite !qabs_scale by exact Hc. ring. }
  exact toy_env_scale.
Qed.

(* the theorems' premises are met by concrete, non-trivial data (tau = 8, toy oracles) *)

Example c09_premises_hold :
  0 < tau8 /\
  (forall k, (k < 4)%nat -> nthq (zq [1; 3; 5; 7]%Z) k = 1 + q2 * qn k) /\
  nthq (zq [0; 1; 3; 4; 9; 11; 12]%Z) 1 < nthq (zq [0; 1; 3; 4; 9; 11; 12]%Z) 2 /\
  toy_env (zq [3; -1; 2; -4; 1; 5; -2; -3; 4]%Z) <> None /\
  option_map (fun o => (map this (IP o), map this (IFq o), option_map (map this) (IA o)))
             (toy_ft Quad true (Q2Qc 16) (zq [3; -1; 2; -4; 1; 5; -2; -3; 4]%Z))
    = Some ([2; 2; 2; 2; 2; 6; 2; 2; 2]%Q, [0; 0; 0; 0; 4; 0; -4; 0; 0]%Q, Some [3; 1; 2; 4; 1; 5; 2; 3; 4]%Q) /\
  option_map (fun o => (map this (IP o), map this (IFq o), option_map (map this) (IA o)))
             (toy_ft Hilbert false (Q2Qc 16) (zq [3; -1; 2; -4; 1; 5; -2; -3; 4]%Z))
    = Some ([3; 1; 3; 1; 3; 3; 1; 1; 3]%Q, [-4; 0; 0; 0; 2; -2; -2; 2; 4]%Q, Some [9; 3; 6; 12; 3; 15; 6; 9; 12]%Q).
Proof.
  split; [reflexivity|].
  split; [intros k Hk; do 4 (destruct k as [|k]; [apply Qc_is_canon; vm_compute; reflexivity|]); lia|].
  split; [reflexivity|].
  split; [discriminate|].
  split; vm_compute; reflexivity.
Qed.
