(* Proofs of the control-skeleton tie "wave" of emd/cycles.py (notes/TIE_WAVE.md).
   Statements are those of props/Prop_Tie_Wave.v; definitions are in model/SkelPrims_Wave.v. *)
From Coq Require Import String List Bool Arith ZArith Lia Sorted.
From EmdV Require Import lib.PyLoop lib.PyLoopTools lib.NpLite model.CycleMaps model.CycleVec
     proofs.CycleVecFacts gen.Gen_Skel_Wave model.SkelPrims_Wave.
From EmdV Require model.Shapes.
Import ListNotations.
Open Scope nat_scope.
Open Scope string_scope.

(* ==================================================================================================== *)
(* small list facts                                                                                     *)
(* ==================================================================================================== *)
Lemma nth_opt_mid : forall (A : Type) (l1 : list A) x l2, nth_opt (l1 ++ x :: l2) (length l1) = Some x.
Proof. intros. unfold nth_opt. rewrite nth_error_app2, Nat.sub_diag by lia. reflexivity. Qed.

Lemma set_col_mid : forall l1 c x l2, set_col (length l1) c (l1 ++ x :: l2) = (l1 ++ c :: l2)%list.
Proof.
  intros l1 c x l2. unfold set_col. induction l1 as [|a t IH]; [reflexivity|].
  cbn [length app firstn skipn] in *. f_equal. exact IH.
Qed.

Lemma skipn_nth_cons : forall (A : Type) (l : list A) s x, nth_error l s = Some x -> skipn s l = x :: skipn (S s) l.
Proof.
  intros A l. induction l as [|a t IH]; intros s x H; destruct s; try discriminate.
  - inversion H. reflexivity.
  - cbn [nth_error] in H. cbn [skipn]. apply IH in H. exact H.
Qed.

Lemma for_loop_step : forall (V : Type) x (body : env V -> outcome V) v t e e2,
  normal_env (body (upd x v e)) = Some e2 -> for_loop x body (v :: t) e = for_loop x body t e2.
Proof.
  intros V x body v t e e2 H. rewrite for_loop_cons.
  destruct (body (upd x v e)); cbn [normal_env] in H; try discriminate; inversion H; reflexivity.
Qed.

Lemma exec_if_true : forall (V : Type) (P : prims V) c a b f e,
  eval_truth P e c = Ok true -> exec P (SIf c a b) f e = exec P a f e.
Proof. intros V P c a b f e H. cbn [exec]. rewrite H. reflexivity. Qed.

Lemma exec_if_false : forall (V : Type) (P : prims V) c a b f e,
  eval_truth P e c = Ok false -> exec P (SIf c a b) f e = exec P b f e.
Proof. intros V P c a b f e H. cbn [exec]. rewrite H. reflexivity. Qed.

(* ==================================================================================================== *)
(* get_cycle_vector_from_waveform                                                                       *)
(* ==================================================================================================== *)
Definition wave_spine : list stmt := Eval cbv in spine prog_get_cycle_vector_from_waveform.
Definition wave_pre : list stmt := Eval cbv in firstn 3 wave_spine.
Definition wave_for : stmt := Eval cbv in nth 3 wave_spine SSkip.
Definition wave_post : list stmt := Eval cbv in skipn 4 wave_spine.
Definition wave_oiter : expr := Eval cbv in match wave_for with SFor _ it _ => it | _ => ENone end.
Definition wave_obody : stmt := Eval cbv in match wave_for with SFor _ _ b => b | _ => SSkip end.
Definition wob_spine : list stmt := Eval cbv in spine wave_obody.
Definition wob_pre : list stmt := Eval cbv in firstn 3 wob_spine.
Definition wob_for : stmt := Eval cbv in nth 3 wob_spine SSkip.
Definition wib_iter : expr := Eval cbv in match wob_for with SFor _ it _ => it | _ => ENone end.
Definition wib : stmt := Eval cbv in match wob_for with SFor _ _ b => b | _ => SSkip end.
(* the 'asc' branch of the inner body: if peaks A elif asc B else C *)
Definition wib_c1 : expr := Eval cbv in match wib with SIf c _ _ => c | _ => ENone end.
Definition wib_A : stmt := Eval cbv in match wib with SIf _ a _ => a | _ => SSkip end.
Definition wib_r : stmt := Eval cbv in match wib with SIf _ _ r => r | _ => SSkip end.
Definition wib_c2 : expr := Eval cbv in match wib_r with SIf c _ _ => c | _ => ENone end.
Definition wib_B : stmt := Eval cbv in match wib_r with SIf _ a _ => a | _ => SSkip end.
Definition wib_C : stmt := Eval cbv in match wib_r with SIf _ _ r => r | _ => SSkip end.
Definition wib_B_spine : list stmt := Eval cbv in spine wib_B.
Definition wib_B1 : list stmt := Eval cbv in firstn 5 wib_B_spine.   (* ... start = <crossing before peak jj> *)
Definition wib_B2 : list stmt := Eval cbv in skipn 5 wib_B_spine.    (* ... stop = <crossing before peak jj+1>; the store *)

Section WaveTie.
  Variable ext : list Z -> list nat * list Z.
  Variable n : nat.
  Variable cols : list (list Z).

  Local Notation PR := (wave_prims ext).
  Local Notation blank := (fun _ : list Z => repeat 0%Z n).

  Ltac ev :=
    cbv beta iota zeta delta
        [exec final_env eval eval_truth bind map_res truthy do_cmp do_arith do_index nat_cmp nat_arith iter_list
         upd lookup env_of assign_all cmp_name ar_name frame overlay normal_env
         try_finish try_finish_env exn_matches
         wave_prims prims_of table_lookup wave_table keys_are is_opaque0 range_handler range_val
         wave_names wave_env0 params_get_cycle_vector_from_waveform cstart_str
         wave_pre wave_for wave_post wave_oiter wave_obody wob_pre wob_for wib_iter wib
         wib_c1 wib_A wib_r wib_c2 wib_B wib_C wib_B1 wib_B2 exec_list
         String.eqb Ascii.eqb Bool.eqb fst snd nth_error andb negb orb].
  Ltac orw :=
    oracle_rw;
    repeat match goal with
           | H : positions _ _ = _ |- _ => rewrite H
           end.
  Ltac ev1 := ev; repeat (progress (cbn [Nat.eqb]; orw); ev).
  Ltac steps :=
    match goal with
    | |- context [exec_list ?pr _ _ _] =>
        set (K := exec_list pr);
        assert (K_cons : forall s t f e, K (s :: t) f e =
                           match exec pr s f e with Normal e' => K t f e' | o => o end) by reflexivity;
        assert (K_nil : forall f e, K [] f e = Normal e) by reflexivity;
        repeat (rewrite K_cons; ev1); rewrite ?K_nil; ev1
    end.

  (* the environment between two columns: M = the label matrix so far *)
  Definition wohead (m : cstart) (M : list (list Z)) (junk : string -> option (val wval)) : env wval :=
    env_of wave_names
      (overlay [ ("imf", VSig (WMat n cols)); ("cycle_start", VStr (cstart_str m));
                 ("cycles", VSig (WMat n M)) ] junk).

  (* the environment between two iterations of the inner loop of column i *)
  Definition wihead (m : cstart) (i : nat) (pk tl : list nat) (M : list (list Z))
             (junk : string -> option (val wval)) : env wval :=
    env_of wave_names
      (overlay [ ("imf", VSig (WMat n cols)); ("cycle_start", VStr (cstart_str m));
                 ("cycles", VSig (WMat n M)); ("ii", VNat i);
                 ("peak_loc", VSig (WIdx pk)); ("trough_loc", VSig (WIdx tl)) ] junk).

  (* inside the 'asc' branch, after `start = ...` *)
  Definition wahead (i : nat) (pk tl : list nat) (M : list (list Z)) (j start : nat)
             (junk : string -> option (val wval)) : env wval :=
    env_of wave_names
      (overlay [ ("imf", VSig (WMat n cols)); ("cycle_start", VStr "asc");
                 ("cycles", VSig (WMat n M)); ("ii", VNat i);
                 ("peak_loc", VSig (WIdx pk)); ("trough_loc", VSig (WIdx tl));
                 ("jj", VNat j); ("start", VNat start) ] junk).

  (* ---- 'asc': the crossing before the peak at pk[j] (first half of the branch) ---- *)
  Lemma asc_first : forall fb i col pk tl M j p junk,
    nth_opt cols i = Some col -> nth_opt pk j = Some p ->
    match asc_cross col tl p with
    | None => exec_list PR wib_B1 fb (upd "jj" (VNat j) (wihead SAsc i pk tl M junk)) = Raise "IndexError"
    | Some None => exists e2, exec_list PR wib_B1 fb (upd "jj" (VNat j) (wihead SAsc i pk tl M junk)) = Continue e2 /\
                              e2 = wihead SAsc i pk tl M (fun x => lookup x e2)
    | Some (Some s) => exists e2, exec_list PR wib_B1 fb (upd "jj" (VNat j) (wihead SAsc i pk tl M junk)) = Normal e2 /\
                                  e2 = wahead i pk tl M j s (fun x => lookup x e2)
    end.
  Proof.
    intros fb i col pk tl M j p junk Hcol Hp. unfold asc_cross, wihead, wahead.
    destruct (last_below tl p) as [ti|] eqn:E1; [|unfold wib_B1; steps; reflexivity].
    destruct (nth_opt tl ti) as [tr|] eqn:E2; [|unfold wib_B1; steps; reflexivity].
    destruct (nth_opt col tr) as [vt|] eqn:E3; [|unfold wib_B1; steps; reflexivity].
    destruct (0 <? vt)%Z eqn:E4.
    { eexists. split; [unfold wib_B1; steps; reflexivity | ev; reflexivity]. }
    destruct (nth_opt col p) as [vp|] eqn:E5; [|unfold wib_B1; steps; reflexivity].
    destruct (vp <? 0)%Z eqn:E6.
    { eexists. split; [unfold wib_B1; steps; reflexivity | ev; reflexivity]. }
    destruct (positions (fun b : bool => b) (map (fun d => (d =? 2)%Z) (zdiffs (map Z.sgn (slice col tr p)))))
      as [|c r] eqn:E7.
    - assert (H0 : nth_opt (@nil nat) 0 = None) by reflexivity.
      unfold wib_B1; steps; reflexivity.
    - assert (H0 : nth_opt (c :: r) 0 = Some c) by reflexivity.
      eexists. split; [unfold wib_B1; steps; reflexivity | ev; reflexivity].
  Qed.

  (* ---- 'asc': the crossing before the peak at pk[j+1], and the store (second half of the branch) ---- *)
  Lemma asc_second : forall fb i col pk tl outs c rest j s p2 junk,
    nth_opt cols i = Some col -> length outs = i -> nth_opt pk (S j) = Some p2 ->
    match asc_cross col tl p2 with
    | None => exec_list PR wib_B2 fb (wahead i pk tl (outs ++ c :: rest) j s junk) = Raise "IndexError"
    | Some None => exists e2, exec_list PR wib_B2 fb (wahead i pk tl (outs ++ c :: rest) j s junk) = Continue e2 /\
                              e2 = wihead SAsc i pk tl (outs ++ c :: rest) (fun x => lookup x e2)
    | Some (Some t) =>
        exists e2, exec_list PR wib_B2 fb (wahead i pk tl (outs ++ c :: rest) j s junk) = Normal e2 /\
                   e2 = wihead SAsc i pk tl (outs ++ set_range s t (Z.of_nat (j + 1)) c :: rest) (fun x => lookup x e2)
    end.
  Proof.
    intros fb i col pk tl outs c rest j s p2 junk Hcol Hi Hp.
    assert (HM : nth_opt (outs ++ c :: rest) i = Some c) by (rewrite <- Hi; apply nth_opt_mid).
    unfold asc_cross, wihead, wahead.
    destruct (last_below tl p2) as [ti|] eqn:E1; [|unfold wib_B2; steps; reflexivity].
    destruct (nth_opt tl ti) as [tr|] eqn:E2; [|unfold wib_B2; steps; reflexivity].
    destruct (nth_opt col tr) as [vt|] eqn:E3; [|unfold wib_B2; steps; reflexivity].
    destruct (0 <? vt)%Z eqn:E4.
    { eexists. split; [unfold wib_B2; steps; reflexivity | ev; reflexivity]. }
    destruct (nth_opt col p2) as [vp|] eqn:E5; [|unfold wib_B2; steps; reflexivity].
    destruct (vp <? 0)%Z eqn:E6.
    { eexists. split; [unfold wib_B2; steps; reflexivity | ev; reflexivity]. }
    destruct (positions (fun b : bool => b) (map (fun d => (d =? 2)%Z) (zdiffs (map Z.sgn (slice col tr p2)))))
      as [|c0 r] eqn:E7.
    - assert (H0 : nth_opt (@nil nat) 0 = None) by reflexivity.
      unfold wib_B2; steps; reflexivity.
    - assert (H0 : nth_opt (c0 :: r) 0 = Some c0) by reflexivity.
      pose proof (set_col_mid outs (set_range s (c0 + tr) (Z.of_nat (j + 1)) c) c rest) as Hset. rewrite Hi in Hset.
      eexists. split; [unfold wib_B2; steps; rewrite Hset; reflexivity | ev; reflexivity].
  Qed.

  (* ---- one iteration of the inner loop ---- *)
  Lemma wib_step : forall m fb i col outs c rest pk tl j junk,
    nth_opt cols i = Some col -> length outs = i ->
    match wave_seg m col pk tl j with
    | None => exec PR wib fb (upd "jj" (VNat j) (wihead m i pk tl (outs ++ c :: rest) junk)) = Raise "IndexError"
    | Some None =>
        exists e2, normal_env (exec PR wib fb (upd "jj" (VNat j) (wihead m i pk tl (outs ++ c :: rest) junk))) = Some e2 /\
                   e2 = wihead m i pk tl (outs ++ c :: rest) (fun x => lookup x e2)
    | Some (Some (a, b)) =>
        exists e2, normal_env (exec PR wib fb (upd "jj" (VNat j) (wihead m i pk tl (outs ++ c :: rest) junk))) = Some e2 /\
                   e2 = wihead m i pk tl (outs ++ set_range a b (Z.of_nat (j + 1)) c :: rest) (fun x => lookup x e2)
    end.
  Proof.
    intros m fb i col outs c rest pk tl j junk Hcol Hi.
    assert (HM : nth_opt (outs ++ c :: rest) i = Some c) by (rewrite <- Hi; apply nth_opt_mid).
    destruct m; unfold wave_seg.
    - (* peaks *)
      unfold wihead.
      destruct (nth_opt pk j) as [a|] eqn:Ea; [|ev1; reflexivity].
      destruct (nth_opt pk (S j)) as [b|] eqn:Eb; [|ev1; reflexivity].
      pose proof (set_col_mid outs (set_range a b (Z.of_nat (j + 1)) c) c rest) as Hset. rewrite Hi in Hset.
      eexists. split; [ev1; rewrite Hset; reflexivity | ev; reflexivity].
    - (* asc *)
      assert (T1 : eval_truth PR (upd "jj" (VNat j) (wihead SAsc i pk tl (outs ++ c :: rest) junk)) wib_c1 = Ok false)
        by (unfold wihead; ev; reflexivity).
      assert (T2 : eval_truth PR (upd "jj" (VNat j) (wihead SAsc i pk tl (outs ++ c :: rest) junk)) wib_c2 = Ok true)
        by (unfold wihead; ev; reflexivity).
      change wib with (SIf wib_c1 wib_A (SIf wib_c2 wib_B wib_C)).
      rewrite (exec_if_false _ _ _ _ _ _ _ T1), (exec_if_true _ _ _ _ _ _ _ T2).
      rewrite exec_spine. change (spine wib_B) with (wib_B1 ++ wib_B2)%list. rewrite exec_list_app.
      destruct (nth_opt pk j) as [p|] eqn:Ep.
      2:{ unfold wihead, wib_B1. steps. reflexivity. }
      pose proof (asc_first fb i col pk tl (outs ++ c :: rest) j p junk Hcol Ep) as H1.
      destruct (asc_cross col tl p) as [[s|]|].
      + destruct H1 as (e1 & He1 & Heq1). rewrite He1, Heq1.
        destruct (nth_opt pk (S j)) as [p2|] eqn:Ep2.
        2:{ unfold wahead, wib_B2. steps. reflexivity. }
        pose proof (asc_second fb i col pk tl outs c rest j s p2 (fun x => lookup x e1) Hcol Hi Ep2) as H2.
        destruct (asc_cross col tl p2) as [[t|]|].
        * destruct H2 as (e2 & He2 & Heq2). exists e2. rewrite He2. split; [reflexivity | exact Heq2].
        * destruct H2 as (e2 & He2 & Heq2). exists e2. rewrite He2. split; [reflexivity | exact Heq2].
        * exact H2.
      + destruct H1 as (e1 & He1 & Heq1). exists e1. rewrite He1. split; [reflexivity | exact Heq1].
      + rewrite H1. reflexivity.
    - (* troughs *)
      unfold wihead.
      destruct (nth_opt tl j) as [a|] eqn:Ea; [|ev1; reflexivity].
      destruct (nth_opt tl (S j)) as [b|] eqn:Eb; [|ev1; reflexivity].
      pose proof (set_col_mid outs (set_range a b (Z.of_nat (j + 1)) c) c rest) as Hset. rewrite Hi in Hset.
      eexists. split; [ev1; rewrite Hset; reflexivity | ev; reflexivity].
    - (* desc: pass *)
      unfold wihead. eexists. split; [ev1; reflexivity | ev; reflexivity].
    - (* any other string: no branch *)
      unfold wihead. eexists. split; [ev1; reflexivity | ev; reflexivity].
  Qed.

  (* ---- the inner loop ---- *)
  Lemma wib_loop : forall m fb i col outs rest pk tl,
    nth_opt cols i = Some col -> length outs = i ->
    forall k s c junk,
    exists junk',
      for_loop "jj" (fun e' => exec PR wib fb e') (map VNat (seq s k)) (wihead m i pk tl (outs ++ c :: rest) junk) =
      match wave_loop (wave_seg m col pk tl) (seq s k) c with
      | None => Raise "IndexError"
      | Some c' => Normal (wihead m i pk tl (outs ++ c' :: rest) junk')
      end.
  Proof.
    intros m fb i col outs rest pk tl Hcol Hi. induction k as [|k IH]; intros s c junk.
    - exists junk. reflexivity.
    - cbn [seq map wave_loop].
      pose proof (wib_step m fb i col outs c rest pk tl s junk Hcol Hi) as Hstep.
      destruct (wave_seg m col pk tl s) as [[[a b]|]|].
      + destruct Hstep as (e2 & He2 & Heq). rewrite (for_loop_step _ _ _ _ _ _ _ He2). rewrite Heq. apply IH.
      + destruct Hstep as (e2 & He2 & Heq). rewrite (for_loop_step _ _ _ _ _ _ _ He2). rewrite Heq. apply IH.
      + exists junk. rewrite for_loop_cons, Hstep. reflexivity.
  Qed.

  (* ---- one column ---- *)
  Lemma wob_step : forall m fb i col outs rest junk,
    nth_opt cols i = Some col -> length outs = i ->
    match wave_col ext m n col with
    | None => exec PR wave_obody fb (upd "ii" (VNat i) (wohead m (outs ++ repeat 0%Z n :: rest) junk)) = Raise "IndexError"
    | Some out =>
        exists e2, normal_env (exec PR wave_obody fb (upd "ii" (VNat i) (wohead m (outs ++ repeat 0%Z n :: rest) junk))) = Some e2 /\
                   e2 = wohead m (outs ++ out :: rest) (fun x => lookup x e2)
    end.
  Proof.
    intros m fb i col outs rest junk Hcol Hi.
    rewrite exec_spine. change (spine wave_obody) with (wob_pre ++ [wob_for])%list. rewrite exec_list_app.
    set (pk := fst (ext col)). set (tl := fst (ext (map Z.opp col))).
    assert (Hpre : exists e1, exec_list PR wob_pre fb (upd "ii" (VNat i) (wohead m (outs ++ repeat 0%Z n :: rest) junk)) = Normal e1 /\
                              e1 = wihead m i pk tl (outs ++ repeat 0%Z n :: rest) (fun x => lookup x e1)).
    { unfold wohead, wihead, pk, tl. eexists. split; [unfold wob_pre; steps; reflexivity | ev; reflexivity]. }
    destruct Hpre as (e1 & He1 & Heq1). rewrite He1. rewrite exec_list_cons. unfold wob_for. rewrite exec_for.
    assert (Hit : bind (eval PR e1 wib_iter) (iter_list PR) = Ok (map VNat (seq 0 (length pk - 1)))).
    { rewrite Heq1. unfold wihead. ev.
      replace (Z.to_nat (Z.of_nat (length pk) - Z.of_nat 1)) with (length pk - 1) by lia. reflexivity. }
    change (ECall "range" _ _) with wib_iter. rewrite Hit. rewrite Heq1.
    destruct (wib_loop m fb i col outs rest pk tl Hcol Hi (length pk - 1) 0 (repeat 0%Z n) (fun x => lookup x e1))
      as (junk' & Hloop).
    match goal with |- context [for_loop "jj" (fun e' => exec PR ?b fb e')] => change b with wib end.
    rewrite Hloop. unfold wave_col. fold pk tl.
    destruct (wave_loop (wave_seg m col pk tl) (seq 0 (length pk - 1)) (repeat 0%Z n)) as [c'|].
    - eexists. split; [unfold wihead; ev; reflexivity | unfold wohead; ev; reflexivity].
    - reflexivity.
  Qed.

  (* ---- the loop over the columns ---- *)
  Lemma wob_loop : forall m fb k s outs junk, s + k = length cols -> length outs = s ->
    exists junk',
      for_loop "ii" (fun e' => exec PR wave_obody fb e') (map VNat (seq s k)) (wohead m (outs ++ map blank (skipn s cols)) junk) =
      match all_some (map (wave_col ext m n) (skipn s cols)) with
      | None => Raise "IndexError"
      | Some r => Normal (wohead m (outs ++ r) junk')
      end.
  Proof.
    intros m fb. induction k as [|k IH]; intros s outs junk Hsk Hs.
    - rewrite skipn_all2 by lia. exists junk. reflexivity.
    - destruct (nth_error cols s) as [col|] eqn:Hcol; [|apply nth_error_None in Hcol; lia].
      rewrite (skipn_nth_cons _ _ _ _ Hcol). cbn [map seq all_some].
      pose proof (wob_step m fb s col outs (map blank (skipn (S s) cols)) junk Hcol Hs) as Hstep.
      destruct (wave_col ext m n col) as [out|].
      + destruct Hstep as (e2 & He2 & Heq). rewrite (for_loop_step _ _ _ _ _ _ _ He2). rewrite Heq.
        destruct (IH (S s) (outs ++ [out])%list (fun x => lookup x e2) ltac:(lia)
                     ltac:(rewrite app_length; cbn [length]; lia)) as (junk' & Hl).
        revert Hl. destruct (all_some (map (wave_col ext m n) (skipn (S s) cols))) as [r|]; intros Hl.
        * exists junk'. rewrite <- !app_assoc in Hl. exact Hl.
        * exists junk. rewrite <- !app_assoc in Hl. exact Hl.
      + exists junk. rewrite for_loop_cons, Hstep. reflexivity.
  Qed.

  (* ---- from the column loop to the return ---- *)
  Lemma wave_from_loop : forall m f,
    exec_list PR (wave_for :: wave_post) f (wohead m (map blank cols) (fun _ => None)) =
    match all_some (map (wave_col ext m n) cols) with
    | None => Raise "IndexError"
    | Some outs => Return (VSig (WMat n outs))
    end.
  Proof.
    intros m f. rewrite exec_list_cons. unfold wave_for at 1. rewrite exec_for.
    assert (Hit : bind (eval PR (wohead m (map blank cols) (fun _ => None)) wave_oiter) (iter_list PR)
                  = Ok (map VNat (seq 0 (length cols)))) by (unfold wohead; ev; reflexivity).
    unfold wave_oiter in Hit. rewrite Hit.
    destruct (wob_loop m f (length cols) 0 [] (fun _ => None) eq_refl eq_refl) as (junk' & Hloop).
    match goal with |- context [for_loop "ii" (fun e' => exec PR ?b f e')] => change b with wave_obody end.
    cbn [skipn app] in Hloop. rewrite Hloop.
    destruct (all_some (map (wave_col ext m n) cols)) as [r|]; [|reflexivity].
    unfold wohead. ev. reflexivity.
  Qed.
End WaveTie.

Section WaveMain.
  Variable ext : list Z -> list nat * list Z.
  Local Notation PR := (wave_prims ext).

  Ltac ev :=
    cbv beta iota zeta delta
        [exec final_env eval eval_truth bind map_res truthy do_cmp do_arith do_index nat_cmp nat_arith iter_list
         upd lookup env_of assign_all cmp_name ar_name frame overlay normal_env
         try_finish try_finish_env exn_matches
         wave_prims prims_of table_lookup wave_table keys_are is_opaque0 range_handler range_val
         wave_names wave_env0 params_get_cycle_vector_from_waveform cstart_str wave_norm
         wave_pre exec_list
         String.eqb Ascii.eqb Bool.eqb fst snd nth_error andb negb orb].

  (* the statements above the column loop, on a normalised input *)
  Lemma wave_pre_ok : forall a m n cols f, wave_input a -> wave_norm a = Some (n, cols) ->
    exec_list PR wave_pre f (wave_env0 a m) =
    match m with
    | SDesc => Raise "ValueError"
    | _ => Normal (wohead n cols m (map (fun _ => repeat 0%Z n) cols) (fun _ => None))
    end.
  Proof.
    intros a m n cols f Ha Hn. unfold wohead.
    destruct a as [n0 c0|l| | | |]; try contradiction.
    - cbn [wave_norm] in Hn. destruct (length c0 =? 1)%nat eqn:E; [|discriminate]. inversion Hn; subst.
      destruct m; ev; rewrite E; ev; reflexivity.
    - cbn [wave_norm] in Hn. inversion Hn; subst. destruct m; ev; reflexivity.
  Qed.

  Lemma wave_pre_bad : forall a m f, wave_input a -> wave_norm a = None ->
    exec_list PR wave_pre f (wave_env0 a m) = Raise "ValueError".
  Proof.
    intros a m f Ha Hn. destruct a as [n0 c0|l| | | |]; try contradiction.
    - cbn [wave_norm] in Hn. destruct (length c0 =? 1)%nat eqn:E; [discriminate|].
      destruct m; ev; rewrite E; ev; reflexivity.
    - discriminate.
  Qed.

  Theorem skeleton_get_cycle_vector_from_waveform : forall a m f, wave_input a ->
    exec PR prog_get_cycle_vector_from_waveform f (wave_env0 a m) = wave_render (wave_model ext m a).
  Proof.
    intros a m f Ha. rewrite exec_spine.
    change (spine prog_get_cycle_vector_from_waveform) with (wave_pre ++ wave_for :: wave_post)%list.
    rewrite exec_list_app. unfold wave_model.
    destruct (wave_norm a) as [[n cols]|] eqn:Hn.
    - rewrite (wave_pre_ok a m n cols f Ha Hn).
      destruct m; try reflexivity; rewrite wave_from_loop;
        destruct (all_some (map (wave_col ext _ n) cols)); reflexivity.
    - rewrite (wave_pre_bad a m f Ha Hn). reflexivity.
  Qed.
End WaveMain.

(* ==================================================================================================== *)
(* the block model: 'peaks' and 'troughs' paint the blocks between consecutive extrema                  *)
(* ==================================================================================================== *)
Open Scope nat_scope.

Definition idx_seg (l : list nat) (j : nat) : option (option (nat * nat)) :=
  match nth_opt l j, nth_opt l (S j) with
  | Some a, Some b => Some (Some (a, b))
  | _, _ => None
  end.

Lemma idx_seg_adj : forall l j, idx_seg l j = option_map Some (nth_error (adj l) j).
Proof.
  intros l j. unfold idx_seg, nth_opt. rewrite adj_nth.
  destruct (nth_error l j); [destruct (nth_error l (S j))|]; reflexivity.
Qed.

Lemma adj_len : forall l, length (adj l) = length l - 1.
Proof. destruct l as [|a t]; [reflexivity|]. rewrite adj_length. cbn [length]. lia. Qed.

Lemma idx_loop_full : forall l k s c, s + k <= length (adj l) ->
  wave_loop (idx_seg l) (seq s k) c = Some (paint (firstn k (skipn s (adj l))) (Z.of_nat (s + 1)) c).
Proof.
  intros l. induction k as [|k IH]; intros s c H.
  - reflexivity.
  - cbn [seq wave_loop]. rewrite idx_seg_adj.
    destruct (nth_error (adj l) s) as [[a b]|] eqn:E; [|apply nth_error_None in E; lia].
    cbn [option_map]. rewrite (skipn_nth_cons _ _ _ _ E). cbn [firstn paint].
    rewrite IH by lia. replace (Z.of_nat (S s + 1)) with (Z.of_nat (s + 1) + 1)%Z by lia. reflexivity.
Qed.

Lemma idx_loop_short : forall l k s c, s <= length (adj l) < s + k -> wave_loop (idx_seg l) (seq s k) c = None.
Proof.
  intros l. induction k as [|k IH]; intros s c H; [lia|].
  cbn [seq wave_loop]. rewrite idx_seg_adj.
  destruct (nth_error (adj l) s) as [[a b]|] eqn:E; cbn [option_map]; [|reflexivity].
  apply IH. assert (s < length (adj l)) by (apply nth_error_Some; congruence). lia.
Qed.

Theorem wave_col_peaks : forall ext n col,
  wave_col ext SPeaks n col = Some (paint (adj (fst (ext col))) 1 (repeat 0%Z n)).
Proof.
  intros ext n col. unfold wave_col. set (pk := fst (ext col)). set (tl := fst (ext (map Z.opp col))).
  change (wave_seg SPeaks col pk tl) with (idx_seg pk).
  rewrite idx_loop_full by (rewrite adj_len; lia).
  cbn [skipn]. rewrite <- adj_len, firstn_all. reflexivity.
Qed.

Theorem wave_col_troughs : forall ext n col,
  wave_col ext STroughs n col =
  if (length (fst (ext col)) - 1 <=? length (fst (ext (map Z.opp col))) - 1)%nat
  then Some (paint (firstn (length (fst (ext col)) - 1) (adj (fst (ext (map Z.opp col))))) 1 (repeat 0%Z n))
  else None.
Proof.
  intros ext n col. unfold wave_col. set (pk := fst (ext col)). set (tl := fst (ext (map Z.opp col))).
  change (wave_seg STroughs col pk tl) with (idx_seg tl).
  destruct (Nat.leb_spec (length pk - 1) (length tl - 1)) as [H|H].
  - rewrite idx_loop_full by (rewrite adj_len; lia). reflexivity.
  - apply idx_loop_short. rewrite adj_len. lia.
Qed.

(* ---- pointwise description of set_range and paint ---- *)
Lemma set_range_from_nth : forall l o a b v i,
  nth_error (set_range_from o a b v l) i =
  option_map (fun x => if ((a <=? o + i) && (o + i <? b))%bool then v else x) (nth_error l i).
Proof.
  induction l as [|x t IH]; intros o a b v i.
  - destruct i; reflexivity.
  - destruct i as [|i]; cbn [set_range_from nth_error option_map].
    + rewrite Nat.add_0_r. reflexivity.
    + rewrite IH. replace (S o + i) with (o + S i) by lia. reflexivity.
Qed.

Lemma set_range_nth : forall l a b v i,
  nth_error (set_range a b v l) i =
  option_map (fun x => if ((a <=? i) && (i <? b))%bool then v else x) (nth_error l i).
Proof. intros. unfold set_range. rewrite set_range_from_nth. reflexivity. Qed.

Lemma set_range_length : forall l a b v, length (set_range a b v l) = length l.
Proof.
  intros l a b v. unfold set_range. generalize 0. induction l as [|x t IH]; intros o; [reflexivity|].
  cbn [set_range_from length]. rewrite IH. reflexivity.
Qed.

Lemma paint_outside : forall t a0 lab col i, StronglySorted lt (a0 :: t) -> (i < a0 \/ last t a0 <= i) ->
  nth_error (paint (adj (a0 :: t)) lab col) i = nth_error col i.
Proof.
  induction t as [|b1 t IH]; intros a0 lab col i Hs Hi; [reflexivity|].
  change (adj (a0 :: b1 :: t)) with ((a0, b1) :: adj (b1 :: t)). cbn [paint].
  inversion Hs as [|? ? Hs' Hf]; subst. inversion Hf as [|? ? Hlt _]; subst.
  rewrite last_cons in Hi.
  pose proof (sorted_le_last t b1 b1 Hs' (or_introl eq_refl)) as Hle.
  rewrite IH by (auto; lia). rewrite set_range_nth.
  destruct (nth_error col i) as [x|]; [|reflexivity]. cbn [option_map].
  destruct Hi as [Hi|Hi].
  - destruct (Nat.leb_spec a0 i); [lia|]. reflexivity.
  - destruct (Nat.ltb_spec i b1); [lia|]. rewrite andb_false_r. reflexivity.
Qed.

Lemma paint_inside : forall t a0 lab col k a b i, StronglySorted lt (a0 :: t) ->
  nth_error (adj (a0 :: t)) k = Some (a, b) -> a <= i < b -> i < length col ->
  nth_error (paint (adj (a0 :: t)) lab col) i = Some (lab + Z.of_nat k)%Z.
Proof.
  induction t as [|b1 t IH]; intros a0 lab col k a b i Hs Hk Hi Hlen.
  - destruct k; discriminate.
  - change (adj (a0 :: b1 :: t)) with ((a0, b1) :: adj (b1 :: t)) in Hk |- *. cbn [paint].
    inversion Hs as [|? ? Hs' Hf]; subst.
    destruct k as [|k]; cbn [nth_error] in Hk.
    + injection Hk as <- <-. rewrite paint_outside by (auto; lia). rewrite set_range_nth.
      destruct (nth_error col i) as [x|] eqn:E; [|apply nth_error_None in E; lia]. cbn [option_map].
      destruct (Nat.leb_spec a0 i); [|lia]. destruct (Nat.ltb_spec i b1); [|lia]. cbn [andb].
      f_equal. lia.
    + rewrite (IH b1 (lab + 1)%Z _ k a b i Hs' Hk Hi) by (rewrite set_range_length; exact Hlen).
      f_equal. lia.
Qed.

Lemma paint_length : forall segs lab col, length (paint segs lab col) = length col.
Proof.
  induction segs as [|[a b] t IH]; intros lab col; [reflexivity|]. cbn [paint]. rewrite IH. apply set_range_length.
Qed.

(* ---- the painted vector, shifted to the labels of get_cycle_vector, is a valid cycle vector ---- *)
Definition cvof (l : list nat) (n : nat) : list Z := shift_labels (paint (adj l) 1 (repeat 0%Z n)).

Lemma cv_inside : forall l n, StronglySorted lt l -> Forall (fun x => x <= n) l ->
  forall k a b i, nth_error (adj l) k = Some (a, b) -> a <= i < b ->
  nth_error (cvof l n) i = Some (Z.of_nat k).
Proof.
  intros l n Hs Hn k a b i Hk Hi. destruct l as [|a0 t]; [destruct k; discriminate|].
  assert (Hb : b <= n).
  { pose proof Hk as Hk'. apply adj_nth_inv in Hk'. destruct Hk' as [_ Hb]. apply nth_error_In in Hb.
    rewrite Forall_forall in Hn. apply Hn. exact Hb. }
  unfold cvof, shift_labels. rewrite nth_error_map.
  rewrite (paint_inside t a0 1%Z _ k a b i Hs Hk Hi) by (rewrite repeat_length; lia).
  cbn [option_map]. f_equal. lia.
Qed.

Lemma cv_char : forall l n, StronglySorted lt l -> Forall (fun x => x <= n) l ->
  forall i x, nth_error (cvof l n) i = Some x ->
  x = (-1)%Z \/ exists k a b, nth_error (adj l) k = Some (a, b) /\ a <= i < b /\ x = Z.of_nat k.
Proof.
  intros l n Hs Hn i x Hx.
  assert (Hi : i < n).
  { assert (H : i < length (cvof l n)) by (apply nth_error_Some; congruence).
    unfold cvof, shift_labels in H. rewrite map_length, paint_length, repeat_length in H. exact H. }
  assert (Hout : nth_error (paint (adj l) 1 (repeat 0%Z n)) i = nth_error (repeat 0%Z n) i -> x = (-1)%Z).
  { intros E. unfold cvof, shift_labels in Hx. rewrite nth_error_map, E in Hx.
    rewrite (nth_error_repeat_lt _ 0%Z n i Hi) in Hx. cbn [option_map] in Hx. inversion Hx. reflexivity. }
  destruct l as [|a0 t].
  - left. apply Hout. reflexivity.
  - destruct (le_lt_dec a0 i) as [L1|L1]; [destruct (lt_dec i (last t a0)) as [L2|L2]|].
    + destruct (adj_exists t a0 i Hs (conj L1 L2)) as (k & a & b & Hk & Hab).
      right. exists k, a, b. split; [exact Hk|]. split; [exact Hab|].
      rewrite (cv_inside _ n Hs Hn k a b i Hk Hab) in Hx. inversion Hx. reflexivity.
    + left. apply Hout. apply paint_outside; [exact Hs | lia].
    + left. apply Hout. apply paint_outside; [exact Hs | lia].
Qed.

Theorem paint_valid : forall l n, StronglySorted lt l -> Forall (fun x => x <= n) l ->
  valid_cycle_vector (shift_labels (paint (adj l) 1 (repeat 0%Z n))) (length l - 1).
Proof.
  intros l n Hs Hn. change (shift_labels (paint (adj l) 1 (repeat 0%Z n))) with (cvof l n).
  pose proof (cv_char l n Hs Hn) as cvc. pose proof (cv_inside l n Hs Hn) as cvi.
  unfold valid_cycle_vector. rewrite <- adj_len. repeat split.
  - unfold wf_labels. apply Forall_forall. intros x Hx. apply In_nth_error in Hx. destruct Hx as [i Hi].
    destruct (cvc i x Hi) as [->|(k & a & b & Hk & _ & ->)]; [lia|].
    assert (k < length (adj l)) by (apply nth_error_Some; congruence). lia.
  - intros lab Hlab.
    destruct (nth_error (adj l) (Z.to_nat lab)) as [[a b]|] eqn:Hk; [|apply nth_error_None in Hk; lia].
    pose proof (adj_sorted_lt l _ a b Hs Hk) as Hab.
    apply (nth_error_In _ a). rewrite (cvi _ a b a Hk) by lia. f_equal. lia.
  - intros i j x y Hij Hx Hy Hx0 Hy0.
    destruct (cvc i x Hx) as [->|(k & a & b & Hk & Hi & ->)]; [lia|].
    destruct (cvc j y Hy) as [->|(k' & a' & b' & Hk' & Hj & ->)]; [lia|].
    destruct (le_lt_dec k k') as [L|L]; [lia|].
    pose proof (adj_sorted_order l k' k a' b' a b Hs L Hk' Hk). lia.
  - intros i j m lab Hi Hj Hlab Hm.
    destruct (cvc i lab Hi) as [->|(k & a & b & Hk & Hia & ->)]; [lia|].
    destruct (cvc j _ Hj) as [E|(k' & a' & b' & Hk' & Hja & E)]; [lia|].
    apply Nat2Z.inj in E. subst k'. rewrite Hk in Hk'. injection Hk' as <- <-.
    apply (cvi k a b m Hk). lia.
Qed.

(* ---- the translated program on one column, 'peaks': returns a valid cycle vector (after the label shift) ---- *)
Theorem skeleton_wave_peaks_valid : forall ext col f,
  StronglySorted lt (fst (ext col)) -> Forall (fun x => x <= length col) (fst (ext col)) ->
  exists out,
    exec (wave_prims ext) prog_get_cycle_vector_from_waveform f (wave_env0 (WVec col) SPeaks)
    = Return (VSig (WMat (length col) [out])) /\
    out = paint (adj (fst (ext col))) 1 (repeat 0%Z (length col)) /\
    valid_cycle_vector (shift_labels out) (length (fst (ext col)) - 1).
Proof.
  intros ext col f Hs Hn. eexists. split; [|split; [reflexivity|]].
  - rewrite skeleton_get_cycle_vector_from_waveform by exact I.
    unfold wave_model, wave_norm. cbn [map all_some]. rewrite wave_col_peaks. reflexivity.
  - apply paint_valid; assumption.
Qed.

(* 'troughs': the loop still runs len(peak_loc) - 1 times; with fewer troughs than peaks it raises IndexError *)
Theorem skeleton_wave_troughs_short : forall ext col f,
  2 <= length (fst (ext col)) -> length (fst (ext (map Z.opp col))) < length (fst (ext col)) ->
  exec (wave_prims ext) prog_get_cycle_vector_from_waveform f (wave_env0 (WVec col) STroughs) = Raise "IndexError".
Proof.
  intros ext col f H2 H. rewrite skeleton_get_cycle_vector_from_waveform by exact I.
  unfold wave_model, wave_norm. cbn [map all_some]. rewrite wave_col_troughs.
  destruct (Nat.leb_spec (length (fst (ext col)) - 1) (length (fst (ext (map Z.opp col))) - 1)); [lia|]. reflexivity.
Qed.

Theorem skeleton_wave_troughs_valid : forall ext col f,
  let pk := fst (ext col) in let tl := fst (ext (map Z.opp col)) in
  length pk = length tl ->
  StronglySorted lt tl -> Forall (fun x => x <= length col) tl ->
  exists out,
    exec (wave_prims ext) prog_get_cycle_vector_from_waveform f (wave_env0 (WVec col) STroughs)
    = Return (VSig (WMat (length col) [out])) /\
    out = paint (adj tl) 1 (repeat 0%Z (length col)) /\
    valid_cycle_vector (shift_labels out) (length tl - 1).
Proof.
  intros ext col f pk tl Hlen Hs Hn. eexists. split; [|split; [reflexivity|]].
  - rewrite skeleton_get_cycle_vector_from_waveform by exact I.
    unfold wave_model, wave_norm. cbn [map all_some]. rewrite wave_col_troughs. fold pk tl.
    rewrite Hlen, Nat.leb_refl. rewrite <- adj_len, firstn_all. reflexivity.
  - apply paint_valid; assumption.
Qed.

(* ---- examples (the Python outputs on the same inputs are in notes/TIE_WAVE.md) ---- *)
Lemma wave_examples :
  let x1 := [0; 1; 0; -1; 0; 1; 0; -1; 0; 1; 0]%Z in
  let x2 := [0; -1; 0; 1; 0; -1; 0; 1; 0; -1; 0; 1; 0; -1; 0]%Z in
  let x3 := [1; -1; -2; -1; 1; 2; 1; -1; -2; -1; 1; 2; 1; -1; -2; -1; 1; 2; 1]%Z in
  wave_col toy_ext SPeaks 11 x1 = Some [0; 1; 1; 1; 1; 2; 2; 2; 2; 0; 0]%Z /\
  wave_col toy_ext STroughs 11 x1 = None /\
  wave_col toy_ext SAsc 11 x1 = None /\
  wave_col toy_ext SPeaks 15 x2 = Some [0; 0; 0; 1; 1; 1; 1; 2; 2; 2; 2; 0; 0; 0; 0]%Z /\
  wave_col toy_ext STroughs 15 x2 = Some [0; 1; 1; 1; 1; 2; 2; 2; 2; 0; 0; 0; 0; 0; 0]%Z /\
  wave_col toy_ext SAsc 15 x2 = None /\
  wave_col toy_ext SAsc 19 x3 = Some [0; 0; 0; 1; 1; 1; 1; 1; 1; 2; 2; 2; 2; 2; 2; 0; 0; 0; 0]%Z /\
  wave_col toy_ext SOther 11 x1 = Some (repeat 0%Z 11).
Proof. vm_compute. repeat split. Qed.

(* FINDING: in 'asc' mode a skipped cycle (`continue`) leaves a gap in the labels (they are jj + 1): the result
   is not a valid cycle vector for any number of cycles *)
Lemma wave_asc_label_gap :
  let x := [2; -2; -4; -2; 2; 4; 2; 1; 2; 4; 2; -2; -4; -2; 2; 4; 2; -2; -4; -2; 2; 4; 2]%Z in
  let out := [0; 0; 0; 0; 0; 0; 0; 0; 0; 0; 0; 0; 0; 3; 3; 3; 3; 3; 3; 0; 0; 0; 0]%Z in
  wave_col toy_ext SAsc 23 x = Some out /\ forall K, ~ valid_cycle_vector (shift_labels out) K.
Proof.
  intros x out. split; [vm_compute; reflexivity|].
  intros K (Hwf & Hall & _). unfold wf_labels in Hwf. rewrite Forall_forall in Hwf.
  assert (H2 : (-1 <= 2 < Z.of_nat K)%Z) by (apply Hwf; vm_compute; tauto).
  assert (H0 : In 0%Z (shift_labels out)) by (apply Hall; lia).
  vm_compute in H0. repeat (destruct H0 as [H0|H0]; [discriminate|]). exact H0.
Qed.

(* ---- ensure_1d_with_singleton as mapped in the table is model/Shapes.v e1d_one on the argument's shape (C19) ---- *)
Theorem wave_norm_shapes : forall a, wave_input a ->
  match wave_norm a with
  | Some (n, cols) => Shapes.e1d_one (wshape a) = Shapes.Ok [n; length cols]
  | None => Shapes.e1d_one (wshape a) = Shapes.Err Shapes.ValueErr
  end.
Proof.
  intros a Ha. destruct a as [n0 c0|l| | | |]; try contradiction.
  - unfold wave_norm, wshape, Shapes.e1d_one. cbn [length Nat.ltb Nat.leb Nat.eqb andb nth tl].
    destruct (length c0 =? 1)%nat eqn:E.
    + cbn [negb andb]. reflexivity.
    + cbn [negb andb]. reflexivity.
  - reflexivity.
Qed.

Open Scope string_scope.
(* ==================================================================================================== *)
(* get_chain_stat                                                                                       *)
(* ==================================================================================================== *)
Theorem skeleton_get_chain_stat : forall f chs vals fuel,
  exec (gcs_prims f) prog_get_chain_stat fuel (gcs_env0 chs vals) = gcs_render (chain_stat_list f chs vals).
Proof.
  intros f chs vals fuel.
  destruct (chain_stat_list f chs vals) as [r|] eqn:E;
    cbv beta iota zeta delta
        [exec final_env eval eval_truth bind map_res truthy do_cmp do_arith do_index nat_cmp nat_arith iter_list
         upd lookup env_of assign_all cmp_name ar_name frame overlay normal_env
         gcs_prims prims_of table_lookup gcs_table keys_are is_opaque0 gcs_names gcs_env0 params_get_chain_stat
         prog_get_chain_stat gcs_render
         String.eqb Ascii.eqb Bool.eqb fst snd nth_error andb negb orb];
    rewrite E; reflexivity.
Qed.

(* the shape of model/CyclesObj.v chain_stat: when the index lists are the defined results of an index map
   g over the chains 0..k-1, the list computed by the comprehension is all_some of the per-chain option_map *)
Lemma chain_stat_is_model : forall (f : list Z -> Z) (g : nat -> option (list nat)) cs chs vals,
  all_some (map g cs) = Some chs ->
  all_some (map (fun c => option_map (fun inds => f (take_inds vals inds)) (g c)) cs)
  = Some (map (fun x => f (take_inds vals x)) chs).
Proof.
  intros f g cs. induction cs as [|c t IH]; intros chs vals H.
  - inversion H. reflexivity.
  - cbn [map all_some] in H |- *. destruct (g c) as [inds|]; [|discriminate].
    destruct (all_some (map g t)) as [r|] eqn:E; [|discriminate]. inversion H; subst.
    cbn [option_map]. rewrite (IH r vals eq_refl). reflexivity.
Qed.

Corollary skeleton_get_chain_stat_model : forall f (g : nat -> option (list nat)) cs chs vals fuel,
  all_some (map g cs) = Some chs -> inds_ok (length vals) chs = true ->
  exists r, exec (gcs_prims f) prog_get_chain_stat fuel (gcs_env0 chs vals) = Return (VSig (SVec r)) /\
            all_some (map (fun c => option_map (fun inds => f (take_inds vals inds)) (g c)) cs) = Some r /\
            length r = length cs.
Proof.
  intros f g cs chs vals fuel Hg Hok. rewrite skeleton_get_chain_stat. unfold chain_stat_list. rewrite Hok.
  eexists. split; [reflexivity|]. split; [apply chain_stat_is_model; exact Hg|].
  rewrite map_length. apply all_some_length in Hg. rewrite Hg, map_length. reflexivity.
Qed.

(* ==================================================================================================== *)
(* basis_project                                                                                        *)
(* ==================================================================================================== *)
Definition bp_spine : list stmt := Eval cbv in spine prog_basis_project.
Definition bp_pre : list stmt := Eval cbv in firstn 2 bp_spine.
Definition bp_if : stmt := Eval cbv in nth 2 bp_spine SSkip.
Definition bp_post : list stmt := Eval cbv in skipn 3 bp_spine.
Definition bp_for : stmt := Eval cbv in match bp_if with SIf _ a _ => a | _ => SSkip end.
Definition bp_iter : expr := Eval cbv in match bp_for with SFor _ it _ => it | _ => ENone end.
Definition bp_body : stmt := Eval cbv in match bp_for with SFor _ _ b => b | _ => SSkip end.

Section BasisTie.
  Variable n ncomps : nat.
  Variable rb : bool.

  Ltac ev :=
    cbv beta iota zeta delta
        [exec final_env eval eval_truth bind map_res truthy do_cmp do_arith do_index nat_cmp nat_arith iter_list
         upd lookup env_of assign_all cmp_name ar_name frame overlay normal_env
         bp_prims prims_of table_lookup bp_table keys_are is_opaque0 range_handler range_val
         bp_names bp_env0 params_basis_project bp_pre bp_if bp_post bp_for bp_iter bp_body exec_list bp_render
         String.eqb Ascii.eqb Bool.eqb fst snd nth_error andb negb orb].
  Ltac ev1 := ev; repeat (progress (cbn [Nat.eqb]; oracle_rw); ev).

  Definition bp_head (rows : list (bool * nat)) (junk : string -> option (val bval)) : env bval :=
    env_of bp_names
      (overlay [ ("X", VSig (BX n)); ("ncomps", VNat ncomps); ("ret_basis", VBool rb); ("nsamples", VNat n);
                 ("basis", VSig (BBasis false n rows)) ] junk).

  Lemma bp_step : forall fb rows ii junk,
    exists e2, normal_env (exec bp_prims bp_body fb (upd "ii" (VNat ii) (bp_head rows junk))) = Some e2 /\
               e2 = bp_head (rows ++ basis_pair (ii + 1)) (fun x => lookup x e2).
  Proof.
    intros fb rows ii junk. unfold bp_head.
    assert (Hn : (n =? n)%nat = true) by apply Nat.eqb_refl.
    eexists. split; [ev1; reflexivity | ev; reflexivity].
  Qed.

  Lemma bp_loop : forall fb k s rows junk,
    exists junk',
      for_loop "ii" (fun e' => exec bp_prims bp_body fb e') (map VNat (seq s k)) (bp_head rows junk)
      = Normal (bp_head (rows ++ flat_map (fun ii => basis_pair (ii + 1)) (seq s k)) junk').
  Proof.
    intros fb. induction k as [|k IH]; intros s rows junk.
    - exists junk. cbn [seq map flat_map for_loop]. rewrite app_nil_r. reflexivity.
    - cbn [seq map flat_map]. destruct (bp_step fb rows s junk) as (e2 & He2 & Heq).
      rewrite (for_loop_step _ _ _ _ _ _ _ He2). rewrite Heq.
      destruct (IH (S s) (rows ++ basis_pair (s + 1))%list (fun x => lookup x e2)) as (junk' & Hl).
      exists junk'. rewrite <- app_assoc in Hl. exact Hl.
  Qed.

  Theorem skeleton_basis_project : forall f,
    exec bp_prims prog_basis_project f (bp_env0 n ncomps rb) = bp_render n rb (basis_rows ncomps).
  Proof.
    intros f. rewrite exec_spine. change (spine prog_basis_project) with (bp_pre ++ bp_if :: bp_post)%list.
    rewrite exec_list_app.
    assert (Hpre : exec_list bp_prims bp_pre f (bp_env0 n ncomps rb) = Normal (bp_head (basis_pair 1) (fun _ => None)))
      by (unfold bp_head; ev; reflexivity).
    rewrite Hpre, exec_list_cons. unfold basis_rows.
    assert (Hn : (n =? n)%nat = true) by apply Nat.eqb_refl.
    destruct (1 <? ncomps)%nat eqn:E.
    - assert (T : eval_truth bp_prims (bp_head (basis_pair 1) (fun _ => None)) (ECmp CGt (EVar "ncomps") (ENat 1)) = Ok true).
      { unfold bp_head. ev. rewrite E. reflexivity. }
      change bp_if with (SIf (ECmp CGt (EVar "ncomps") (ENat 1)) bp_for SSkip).
      rewrite (exec_if_true _ _ _ _ _ _ _ T). unfold bp_for. rewrite exec_for.
      assert (Hit : bind (eval bp_prims (bp_head (basis_pair 1) (fun _ => None)) bp_iter) (iter_list bp_prims)
                    = Ok (map VNat (seq 1 ncomps))).
      { unfold bp_head. ev. replace (ncomps + 1 - 1) with ncomps by lia. reflexivity. }
      change (ECall "range" _ _) with bp_iter. rewrite Hit.
      destruct (bp_loop f ncomps 1 (basis_pair 1) (fun _ => None)) as (junk' & Hl).
      match goal with |- context [for_loop "ii" (fun e' => exec bp_prims ?b f e')] => change b with bp_body end.
      rewrite Hl. unfold bp_head. destruct rb; ev1; reflexivity.
    - assert (T : eval_truth bp_prims (bp_head (basis_pair 1) (fun _ => None)) (ECmp CGt (EVar "ncomps") (ENat 1)) = Ok false).
      { unfold bp_head. ev. rewrite E. reflexivity. }
      change bp_if with (SIf (ECmp CGt (EVar "ncomps") (ENat 1)) bp_for SSkip).
      rewrite (exec_if_false _ _ _ _ _ _ _ T). rewrite app_nil_r. unfold bp_head. destruct rb; ev1; reflexivity.
  Qed.
End BasisTie.

(* shape law, and the FINDING: for ncomps > 1 the basis has ncomps + 1 sine-cosine pairs, not ncomps *)
Lemma flat_map_pair_length : forall l, length (flat_map (fun ii => basis_pair (ii + 1)) l) = 2 * length l.
Proof. induction l as [|a t IH]; [reflexivity|]. cbn [flat_map basis_pair app length]. rewrite IH. lia. Qed.

Theorem basis_rows_length : forall ncomps,
  length (basis_rows ncomps) = if (1 <? ncomps)%nat then 2 * (ncomps + 1) else 2.
Proof.
  intros ncomps. unfold basis_rows. rewrite app_length. destruct (1 <? ncomps)%nat.
  - rewrite flat_map_pair_length, seq_length. cbn [basis_pair length]. lia.
  - reflexivity.
Qed.

Theorem basis_rows_not_ncomps_pairs : forall ncomps, (2 <= ncomps)%nat -> length (basis_rows ncomps) <> 2 * ncomps.
Proof.
  intros ncomps H. rewrite basis_rows_length. destruct (Nat.ltb_spec 1 ncomps); lia.
Qed.

(* ==================================================================================================== *)
(* mean_vector                                                                                          *)
(* ==================================================================================================== *)
Section MeanVecTie.
  Variable C : Type.
  Variables (fcos fsin : C -> C) (imag : C) (cadd cmul : C -> C -> C) (cmean : list C -> C).
  Local Notation MP := (mv_prims C fcos fsin imag cadd cmul cmean).

  Lemma combine_map_map : forall (A B D : Type) (g : A -> B) (h : A -> D) l,
    combine (map g l) (map h l) = map (fun x => (g x, h x)) l.
  Proof. induction l as [|a t IH]; [reflexivity|]. cbn [map combine]. rewrite IH. reflexivity. Qed.

  Lemma combine_map_l : forall (A B D : Type) (g : A -> B) (l : list A) (r : list D),
    combine (map g l) r = map (fun pr => (g (fst pr), snd pr)) (combine l r).
  Proof.
    induction l as [|a t IH]; intros r; [reflexivity|]. destruct r as [|x r]; [reflexivity|].
    cbn [map combine fst snd]. rewrite IH. reflexivity.
  Qed.

  Lemma phasor_eq : forall IP,
    map (fun pr => cadd (fst pr) (snd pr)) (combine (map fcos IP) (map (cmul imag) (map fsin IP)))
    = map (unit_phasor C fcos fsin imag cadd cmul) IP.
  Proof.
    intros IP. rewrite map_map, combine_map_map, map_map. reflexivity.
  Qed.

  Theorem skeleton_mean_vector : forall IP X mask f, length IP = length X ->
    exec MP prog_mean_vector f (mv_env0 C IP X mask)
    = Return (VSig (MVec C (mean_vector_model C fcos fsin imag cadd cmul cmean
                               (match X with [] => 0 | r :: _ => length r end) IP X))).
  Proof.
    intros IP X mask f Hlen.
    assert (H1 : (length (map fcos IP) =? length (map (cmul imag) (map fsin IP)))%nat = true)
      by (rewrite !map_length; apply Nat.eqb_refl).
    assert (H2 : (length (map (fun pr => cadd (fst pr) (snd pr)) (combine (map fcos IP) (map (cmul imag) (map fsin IP))))
                  =? length X)%nat = true).
    { rewrite phasor_eq, map_length. apply Nat.eqb_eq. exact Hlen. }
    cbv beta iota zeta delta
        [exec final_env eval eval_truth bind map_res truthy do_cmp do_arith do_index nat_cmp nat_arith iter_list
         upd lookup env_of assign_all cmp_name ar_name frame overlay normal_env
         mv_prims prims_of table_lookup mv_table keys_are is_opaque0 mv_names mv_env0 params_mean_vector
         prog_mean_vector
         String.eqb Ascii.eqb Bool.eqb nth_error andb negb orb].
    rewrite H1.
    cbv beta iota zeta delta
        [exec final_env eval eval_truth bind map_res truthy do_cmp do_arith do_index nat_cmp nat_arith iter_list
         upd lookup env_of assign_all cmp_name ar_name frame overlay normal_env
         mv_prims prims_of table_lookup mv_table keys_are is_opaque0 mv_names mv_env0 params_mean_vector
         prog_mean_vector
         String.eqb Ascii.eqb Bool.eqb nth_error andb negb orb].
    rewrite H2.
    cbv beta iota zeta delta
        [exec final_env eval eval_truth bind map_res truthy do_cmp do_arith do_index nat_cmp nat_arith iter_list
         upd lookup env_of assign_all cmp_name ar_name frame overlay normal_env
         mv_prims prims_of table_lookup mv_table keys_are is_opaque0 mv_names mv_env0 params_mean_vector
         prog_mean_vector
         String.eqb Ascii.eqb Bool.eqb nth_error andb negb orb].
    unfold mean_vector_model. rewrite phasor_eq, combine_map_l, map_map.
    do 4 f_equal.
    destruct IP as [|p IP']; destruct X as [|r X']; try discriminate; [reflexivity|].
    cbn [combine map fst snd]. rewrite map_length. reflexivity.
  Qed.

  (* shape law: one mean per column of X *)
  Lemma transpose_rows_length : forall k rows, length (transpose_rows C imag k rows) = k.
  Proof. induction k as [|k IH]; intros rows; [reflexivity|]. cbn [transpose_rows length]. rewrite IH. reflexivity. Qed.

  Theorem mean_vector_length : forall k IP X,
    length (mean_vector_model C fcos fsin imag cadd cmul cmean k IP X) = k.
  Proof. intros k IP X. unfold mean_vector_model. rewrite map_length. apply transpose_rows_length. Qed.
End MeanVecTie.
