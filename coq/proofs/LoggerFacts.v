(* Lemmas about model/Logger.v (property C20). *)
From Coq Require Import ZArith List Bool Lia.
From EmdV Require Import lib.NpLite model.Logger.
Import ListNotations.
Open Scope Z_scope.

Lemma set_level_back : forall s v, set_level (set_level s v) (console s) = s.
Proof.
  intros [su c d f] v. unfold set_level. cbn [is_set_up console disabled to_file].
  destruct su; cbn [is_set_up console disabled to_file]; reflexivity.
Qed.

(* the whole logger state - not only the console level - is back in place after a call,
   whether it returns or raises, whatever the override, in every state *)
Lemma call_restores_state : forall s v o, fst (call s v o) = s.
Proof.
  intros s v o. unfold call. destruct v as [v|]; [|reflexivity].
  unfold get_level. destruct (is_set_up s) eqn:E; cbn [fst].
  - apply set_level_back.
  - unfold set_level. rewrite E. reflexivity.
Qed.

Lemma override_temporary : forall s v o, get_level (fst (call s v o)) = get_level s.
Proof. intros. rewrite call_restores_state. reflexivity. Qed.

(* what the caller sees is the function's own outcome *)
Lemma outcome_preserved : forall s v o,
  snd (call s v o) = match o with Returns => SawResult | Raises => SawFunctionError end.
Proof.
  intros s v o. unfold call. destruct v as [v|]; [|reflexivity].
  destruct (get_level s); reflexivity.
Qed.

Lemma results_independent_of_logger : forall s s' v v' o, snd (call s v o) = snd (call s' v' o).
Proof. intros. rewrite !outcome_preserved. reflexivity. Qed.

Lemma override_before_setup_harmless : forall v o,
  call init_state v o = (init_state, match o with Returns => SawResult | Raises => SawFunctionError end).
Proof.
  intros v o. rewrite (surjective_pairing (call init_state v o)).
  rewrite call_restores_state, outcome_preserved. reflexivity.
Qed.

Lemma step_call_state : forall s v o, fst (step s (Call v o)) = s.
Proof.
  intros. cbn [step]. destruct (call s v o) as [s' r] eqn:E. cbn [fst].
  change s' with (fst (s', r)). rewrite <- E. apply call_restores_state.
Qed.

(* over whole histories: calls never influence the logger state *)
Lemma calls_do_not_affect_state : forall ops s,
  run s ops = run s (filter (fun o => negb (is_call o)) ops).
Proof.
  unfold run. induction ops as [|o t IH]; intros s; [reflexivity|].
  cbn [fold_left filter]. destruct o as [l f|l| | |v oc]; cbn [is_call negb fold_left]; try apply IH.
  rewrite step_call_state. apply IH.
Qed.

Lemma level_after_history : forall ops s,
  get_level (run s ops) = get_level (run s (filter (fun o => negb (is_call o)) ops)).
Proof. intros. rewrite <- calls_do_not_affect_state. reflexivity. Qed.

(* in the observation trace every call step shows the level that was there before it *)
Lemma trace_call_level : forall s v o t,
  trace s (Call v o :: t) =
  obs_level s :: (match o with Returns => 1 | Raises => 2 end) :: trace s t.
Proof.
  intros. cbn [trace step]. destruct (call s v o) as [s' r] eqn:E.
  assert (Hs : s' = s) by (change s' with (fst (s', r)); rewrite <- E; apply call_restores_state).
  assert (Hr : r = match o with Returns => SawResult | Raises => SawFunctionError end)
    by (change r with (snd (s', r)); rewrite <- E; apply outcome_preserved).
  subst s' r. destruct o; reflexivity.
Qed.

(* ---- the code before the repair ---- *)
Lemma call_v0_raise_refuted : exists s v,
  get_level (fst (call_v0 s (Some v) Raises)) <> get_level s.
Proof.
  exists {| is_set_up := true; console := 30; disabled := false; to_file := false |}, 50.
  vm_compute. discriminate.
Qed.

Lemma call_v0_before_setup_refuted : exists v, snd (call_v0 init_state (Some v) Returns) = SawOtherError.
Proof. exists 50. reflexivity. Qed.

Lemma c20_premises_hold :
  run_trace [[0; 30; 0]; [4; 50; 1]; [4; 10; 0]; [1; 20; 0]] = [30; 0; 30; 2; 30; 1; 20; 0].
Proof. vm_compute. reflexivity. Qed.
