(* Proofs of the control-skeleton tie of emd/cycles.py get_subset_vector / get_chain_vector and of the methods of
   class Cycles (notes/TIE_CYCLESOBJ.md): the translated programs of gen/Gen_Skel_Cyclesobj.v compute, under the
   tables of model/SkelPrims_Cyclesobj.v, what model/CycleMaps.v and model/CyclesObj.v define. *)
From Coq Require Import String Ascii List Bool Arith ZArith QArith Lia.
From EmdV Require Import lib.NpLite model.CycleMaps model.CyclesObj proofs.CycleMapsFacts proofs.CyclesObjFacts.
From EmdV Require Import lib.PyLoop lib.PyLoopTools gen.Gen_Skel_Cyclesobj model.SkelPrims_Cyclesobj.
Import ListNotations.
Open Scope string_scope.

Local Notation V := cval.

(* ---- list facts ----------------------------------------------------------------------------------- *)
Lemma firstn_snoc_nth : forall (B : Type) (l : list B) d c,
  nth_error l d = Some c -> firstn (S d) l = (firstn d l ++ [c])%list.
Proof.
  intros B l. induction l as [|a t IH]; intros d c H; [destruct d; discriminate|].
  destruct d as [|d]; cbn [nth_error] in H.
  - inversion H. reflexivity.
  - cbn [firstn app]. f_equal. apply IH. exact H.
Qed.

Lemma set_nth_app_repeat : forall (B : Type) (a : list B) (x y : B) d n,
  length a = d -> (d < n)%nat ->
  set_nth d x (a ++ repeat y (n - d)) = ((a ++ [x]) ++ repeat y (n - S d))%list.
Proof.
  intros B a x y d n Hl Hd. unfold set_nth.
  rewrite firstn_app, Hl, Nat.sub_diag, firstn_O, app_nil_r, firstn_all2 by lia.
  rewrite skipn_app, Hl, (skipn_all2 (n := S d)) by lia. cbn [app].
  replace (S d - d)%nat with 1%nat by lia.
  replace (n - d)%nat with (S (n - S d)) by lia. cbn [repeat skipn].
  rewrite <- app_assoc. reflexivity.
Qed.

Lemma minus1_zeros : forall (B : Type) (l : list B), minus1 (zeros l) = repeat (-1)%Z (length l).
Proof. intros B l. unfold minus1, zeros. induction l as [|a t IH]; [reflexivity|]. cbn [map length repeat]. rewrite IH. reflexivity. Qed.

Lemma positions_from_mask : forall (B : Type) (p : B -> bool) (l : list B) (i : nat),
  positions_from (fun b : bool => b) (map p l) i = positions_from p l i.
Proof.
  intros B p l. induction l as [|a t IH]; intros i; cbn [map positions_from]; [reflexivity|].
  rewrite IH. reflexivity.
Qed.

(* np.where(subset_vect > -1)[0] is the model's selected_cycles *)
Lemma where_gt : forall sv, where_true (gt_mask sv (-1)) = selected_cycles sv.
Proof. intros sv. unfold where_true, gt_mask, selected_cycles, positions. apply positions_from_mask. Qed.

(* ---- subset_from / chain_loop over a prefix ---------------------------------------------------------- *)
Lemma subset_from_app : forall a b c,
  subset_from (a ++ b) c = (subset_from a c ++ subset_from b (c + Z.of_nat (count_true a))%Z)%list.
Proof.
  induction a as [|x a IH]; intros b c; cbn [app subset_from count_true].
  - rewrite Z.add_0_r. reflexivity.
  - destruct x; cbn [app]; rewrite IH; f_equal; f_equal; f_equal; lia.
Qed.

Lemma count_true_app : forall a b, count_true (a ++ b) = (count_true a + count_true b)%nat.
Proof. induction a as [|x a IH]; intros b; cbn [app count_true]; [reflexivity|]. rewrite IH. lia. Qed.

(* number of chain starts after the first one *)
Fixpoint ccount (d : list Z) : nat :=
  match d with
  | [] => 0%nat
  | x :: t => ((if Z.eqb x 1 then 0 else if Z.ltb 1 x then 1 else 0) + ccount t)%nat
  end.

Lemma chain_loop_app : forall a b c,
  chain_loop (a ++ b) c = (chain_loop a c ++ chain_loop b (c + Z.of_nat (ccount a))%Z)%list.
Proof.
  induction a as [|x a IH]; intros b c; cbn [app chain_loop ccount].
  - rewrite Z.add_0_r. reflexivity.
  - destruct (Z.eqb x 1); [|destruct (Z.ltb 1 x)]; cbn [app]; rewrite IH; f_equal; f_equal; f_equal; lia.
Qed.

Lemma ccount_app : forall a b, ccount (a ++ b) = (ccount a + ccount b)%nat.
Proof. induction a as [|x a IH]; intros b; cbn [app ccount]; [reflexivity|]. rewrite IH. lia. Qed.

(* ================================================================================================ *)
(* PART 1. get_subset_vector / get_chain_vector                                                       *)
(* ================================================================================================ *)
(* the top-level statements of the two programs: [pre; SFor ..; post] as CLOSED terms *)
Definition gsv_pre : list stmt := Eval cbv in firstn 2 (spine prog_get_subset_vector).
Definition gsv_for : stmt := Eval cbv in nth 2 (spine prog_get_subset_vector) SSkip.
Definition gsv_post : list stmt := Eval cbv in skipn 3 (spine prog_get_subset_vector).
Definition gsv_body : stmt := Eval cbv in match gsv_for with SFor _ _ b => b | _ => SSkip end.
Definition gcv_pre : list stmt := Eval cbv in firstn 4 (spine prog_get_chain_vector).
Definition gcv_for : stmt := Eval cbv in nth 4 (spine prog_get_chain_vector) SSkip.
Definition gcv_post : list stmt := Eval cbv in skipn 5 (spine prog_get_chain_vector).
Definition gcv_body : stmt := Eval cbv in match gcv_for with SFor _ _ b => b | _ => SSkip end.

Section VectorsTie.
  Local Notation P := vectors_prims.

  Ltac ev :=
    cbv beta iota zeta delta
        [exec final_env eval eval_truth bind map_res truthy do_cmp do_arith do_index nat_cmp nat_arith iter_list
         upd lookup env_of assign_all cmp_name ar_name frame overlay normal_env
         try_finish try_finish_env exn_matches
         vectors_prims prims_of table_lookup vectors_table keys_are is_opaque0 range_handler range_val
         h_len h_store_z as_int vbools vvec vidx vint varr
         names_get_subset_vector env0_get_subset_vector params_get_subset_vector
         names_get_chain_vector env0_get_chain_vector params_get_chain_vector
         gsv_pre gsv_for gsv_post gsv_body gcv_pre gcv_for gcv_post gcv_body exec_list
         String.eqb Ascii.eqb Bool.eqb fst snd nth_error andb negb orb].
  Ltac ev1 := ev; repeat (progress (cbn [Nat.eqb]; oracle_rw); ev).

  (* ---- get_subset_vector ---- *)
  Section Gsv.
    Variable valids : list bool.
    Let n := length valids.

    (* subset_vect after d iterations: d computed entries, then the initial -1s *)
    Definition sv_at (d : nat) : list Z := (subset_from (firstn d valids) 0 ++ repeat (-1)%Z (length valids - d))%list.

    Lemma sv_at_length : forall d, (d <= n)%nat -> length (sv_at d) = n.
    Proof.
      intros d H. unfold sv_at. rewrite app_length, subset_from_length, firstn_length, repeat_length. fold n. lia.
    Qed.

    Lemma sv_at_step : forall d b, nth_error valids d = Some b ->
      store_z (sv_at d) d (if b then Z.of_nat (count_true (firstn d valids)) else (-1)%Z) = Some (sv_at (S d)).
    Proof.
      intros d b Hb.
      assert (Hd : (d < n)%nat) by (apply nth_error_Some; rewrite Hb; discriminate).
      unfold store_z. rewrite sv_at_length by lia.
      assert (Hlt : (d <? n)%nat = true) by (apply Nat.ltb_lt; exact Hd). rewrite Hlt. f_equal.
      unfold sv_at. rewrite set_nth_app_repeat; [| rewrite subset_from_length, firstn_length; fold n; lia | exact Hd].
      rewrite (firstn_snoc_nth _ valids d b Hb), subset_from_app. cbn [subset_from]. rewrite Z.add_0_l.
      destruct b; reflexivity.
    Qed.

    Definition gsv_head (d : nat) (junk : string -> option (val V)) : env V :=
      env_of names_get_subset_vector
        (overlay [ ("valids", vbools valids); ("subset_vect", vvec (sv_at d));
                   ("count", VNat (count_true (firstn d valids))) ] junk).

    Lemma gsv_step : forall fb d junk, (d < n)%nat ->
      exists e2, normal_env (exec P gsv_body fb (upd "ii" (VNat d) (gsv_head d junk))) = Some e2 /\
                 e2 = gsv_head (S d) (fun x => lookup x e2).
    Proof.
      intros fb d junk Hd. unfold gsv_head.
      destruct (nth_error valids d) as [b|] eqn:Hb; [|apply nth_error_None in Hb; fold n in Hb; lia].
      assert (Hb' : bool_at valids d = Some b) by exact Hb.
      pose proof (sv_at_step d b Hb) as Hs.
      rewrite (firstn_snoc_nth _ valids d b Hb), count_true_app. cbn [count_true].
      destruct b; eexists; (split; [ev1; reflexivity|]).
      - ev. rewrite Nat.add_0_r. reflexivity.
      - ev. rewrite !Nat.add_0_r. reflexivity.
    Qed.

    Lemma gsv_loop : forall fb junk,
      exists junk', for_loop "ii" (fun e' => exec P gsv_body fb e') (map VNat (seq 0 n)) (gsv_head 0 junk)
                    = Normal (gsv_head n junk').
    Proof.
      intros fb junk.
      destruct (for_loop_inv V (fun done e => exists j, e = gsv_head (length done) j)
                  "ii" (fun e' => exec P gsv_body fb e') (map VNat (seq 0 n)) (gsv_head 0 junk))
        as (e' & He' & (j & Hj)).
      - exists junk. reflexivity.
      - intros done v rest e1 Hl (j & He1).
        destruct (range_val_split n done v rest Hl) as (_ & Hv & Hlt). subst v e1.
        destruct (gsv_step fb (length done) j Hlt) as (e2 & H2 & He2).
        exists e2. split; [exact H2|]. rewrite app_length, Nat.add_1_r. eexists. exact He2.
      - rewrite map_length, seq_length in Hj. exists j. rewrite He'. rewrite Hj. reflexivity.
    Qed.

    Theorem skeleton_get_subset_vector : forall f,
      exec P prog_get_subset_vector f (env0_get_subset_vector valids) = vec_outcome (get_subset_vector valids).
    Proof.
      intros f.
      rewrite (exec_nth_split V P prog_get_subset_vector 2 gsv_for f _ eq_refl).
      change (firstn 2 (spine prog_get_subset_vector)) with gsv_pre.
      change (skipn 3 (spine prog_get_subset_vector)) with gsv_post.
      assert (Hpre : exec_list P gsv_pre f (env0_get_subset_vector valids) = Normal (gsv_head 0 (fun _ => None))).
      { unfold gsv_head, sv_at. cbn [firstn subset_from count_true app]. rewrite Nat.sub_0_r.
        ev1. rewrite minus1_zeros. reflexivity. }
      rewrite Hpre. unfold gsv_for. rewrite exec_for.
      assert (Hit : bind (eval P (gsv_head 0 (fun _ => None)) (ECall "range" [ECall "len" [EVar "valids"] []] []))
                         (iter_list P) = Ok (map VNat (seq 0 n))) by (unfold gsv_head; ev; reflexivity).
      rewrite Hit.
      destruct (gsv_loop f (fun _ => None)) as (junk' & Hloop).
      match goal with |- context [for_loop _ (fun e' => exec P ?b f e')] => change b with gsv_body end.
      rewrite Hloop. unfold gsv_head, sv_at. ev1.
      unfold vec_outcome, get_subset_vector, vvec. fold n. rewrite Nat.sub_diag. cbn [repeat]. rewrite app_nil_r.
      unfold n. rewrite firstn_all. reflexivity.
    Qed.
  End Gsv.

  (* ---- get_chain_vector ---- *)
  Section Gcv.
    Variable sv : list Z.
    Let inds := where_true (gt_mask sv (-1)).
    Let dl := r1_diff inds.
    Let n := length inds.

    Lemma dl_length : (n <= length dl)%nat.
    Proof. unfold dl, r1_diff, n. cbn [length]. rewrite zdiffs_length, map_length. lia. Qed.

    (* chainv after d iterations *)
    Definition ch_at (d : nat) : list Z :=
      (chain_loop (firstn d (r1_diff (where_true (gt_mask sv (-1))))) 0
       ++ repeat (-1)%Z (length (where_true (gt_mask sv (-1))) - d))%list.

    Lemma ch_at_length : forall d, (d <= n)%nat -> length (ch_at d) = n.
    Proof.
      intros d H. pose proof dl_length as Hl. unfold ch_at. fold inds. fold dl. fold n.
      rewrite app_length, chain_loop_length, firstn_length, repeat_length. lia.
    Qed.

    Lemma ch_at_store : forall d x, nth_error dl d = Some x -> (d < n)%nat ->
      store_z (ch_at d) d (if Z.eqb x 1 then Z.of_nat (ccount (firstn d dl))
                           else Z.of_nat (ccount (firstn d dl) + 1)) =
      Some (if Z.eqb x 1 then ch_at (S d) else if Z.ltb 1 x then ch_at (S d)
            else set_nth d (Z.of_nat (ccount (firstn d dl) + 1)) (ch_at d)).
    Proof.
      intros d x Hx Hd. pose proof dl_length as Hl.
      unfold store_z. rewrite ch_at_length by lia.
      assert (Hlt : (d <? n)%nat = true) by (apply Nat.ltb_lt; exact Hd). rewrite Hlt. f_equal.
      assert (Hs : forall y, set_nth d y (ch_at d) =
                             ((chain_loop (firstn d dl) 0 ++ [y]) ++ repeat (-1)%Z (n - S d))%list).
      { intros y. unfold ch_at. fold inds. fold dl. fold n. apply set_nth_app_repeat; [|exact Hd].
        rewrite chain_loop_length, firstn_length. lia. }
      assert (Hn : ch_at (S d) = ((chain_loop (firstn d dl) 0 ++ chain_loop [x] (Z.of_nat (ccount (firstn d dl))))
                                  ++ repeat (-1)%Z (n - S d))%list).
      { unfold ch_at. fold inds. fold dl. fold n. rewrite (firstn_snoc_nth _ dl d x Hx), chain_loop_app.
        rewrite Z.add_0_l. reflexivity. }
      destruct (Z.eqb x 1) eqn:E1.
      - rewrite Hs, Hn. cbn [chain_loop]. rewrite E1. reflexivity.
      - destruct (Z.ltb 1 x) eqn:E2; [|reflexivity].
        rewrite Hs, Hn. cbn [chain_loop]. rewrite E1, E2. do 3 f_equal. lia.
    Qed.

    (* neither branch: the entry keeps its initial -1 *)
    Lemma ch_at_skip : forall d x, nth_error dl d = Some x -> (d < n)%nat ->
      Z.eqb x 1 = false -> Z.ltb 1 x = false -> ch_at (S d) = ch_at d.
    Proof.
      intros d x Hx Hd E1 E2. unfold ch_at. fold inds. fold dl. fold n.
      rewrite (firstn_snoc_nth _ dl d x Hx), chain_loop_app. cbn [chain_loop]. rewrite E1, E2.
      rewrite <- app_assoc. cbn [app]. replace (n - d)%nat with (S (n - S d)) by lia. reflexivity.
    Qed.

    Lemma ccount_step : forall d x, nth_error dl d = Some x ->
      ccount (firstn (S d) dl) =
      (ccount (firstn d dl) + (if Z.eqb x 1 then 0 else if Z.ltb 1 x then 1 else 0))%nat.
    Proof.
      intros d x Hx. rewrite (firstn_snoc_nth _ dl d x Hx), ccount_app. cbn [ccount]. lia.
    Qed.

    Definition gcv_head (d : nat) (junk : string -> option (val V)) : env V :=
      env_of names_get_chain_vector
        (overlay [ ("subset_vect", vvec sv); ("chain_inds", vidx (where_true (gt_mask sv (-1))));
                   ("dchain_inds", vvec (r1_diff (where_true (gt_mask sv (-1)))));
                   ("chainv", vvec (ch_at d));
                   ("count", VNat (ccount (firstn d (r1_diff (where_true (gt_mask sv (-1))))))) ] junk).

    Lemma gcv_step : forall fb d junk, (d < n)%nat ->
      exists e2, normal_env (exec P gcv_body fb (upd "ii" (VNat d) (gcv_head d junk))) = Some e2 /\
                 e2 = gcv_head (S d) (fun x => lookup x e2).
    Proof.
      intros fb d junk Hd. pose proof dl_length as Hl. unfold gcv_head. fold inds. fold dl.
      destruct (nth_error dl d) as [x|] eqn:Hx; [|apply nth_error_None in Hx; lia].
      assert (Hx' : z_at dl d = Some x) by exact Hx.
      pose proof (ch_at_store d x Hx Hd) as Hs.
      pose proof (ch_at_skip d x Hx Hd) as Hk.
      rewrite (ccount_step d x Hx).
      change (Z.of_nat 1) with 1%Z in *.
      destruct (Z.eqb x 1) eqn:E1; [|destruct (Z.ltb 1 x) eqn:E2].
      - assert (E1' : Z.eqb x (Z.of_nat 1) = true) by exact E1.
        eexists. split; [ev1; reflexivity|]. ev. rewrite Nat.add_0_r. reflexivity.
      - assert (E1' : Z.eqb x (Z.of_nat 1) = false) by exact E1.
        assert (E2' : Z.ltb (Z.of_nat 1) x = true) by exact E2.
        eexists. split; [ev1; reflexivity|]. ev. reflexivity.
      - assert (E1' : Z.eqb x (Z.of_nat 1) = false) by exact E1.
        assert (E2' : Z.ltb (Z.of_nat 1) x = false) by exact E2.
        rewrite (Hk eq_refl eq_refl).
        eexists. split; [ev1; reflexivity|]. ev. rewrite Nat.add_0_r. reflexivity.
    Qed.

    Lemma gcv_loop : forall fb junk,
      exists junk', for_loop "ii" (fun e' => exec P gcv_body fb e') (map VNat (seq 0 n)) (gcv_head 0 junk)
                    = Normal (gcv_head n junk').
    Proof.
      intros fb junk.
      destruct (for_loop_inv V (fun done e => exists j, e = gcv_head (length done) j)
                  "ii" (fun e' => exec P gcv_body fb e') (map VNat (seq 0 n)) (gcv_head 0 junk))
        as (e' & He' & (j & Hj)).
      - exists junk. reflexivity.
      - intros done v rest e1 Hl (j & He1).
        destruct (range_val_split n done v rest Hl) as (_ & Hv & Hlt). subst v e1.
        destruct (gcv_step fb (length done) j Hlt) as (e2 & H2 & He2).
        exists e2. split; [exact H2|]. rewrite app_length, Nat.add_1_r. eexists. exact He2.
      - rewrite map_length, seq_length in Hj. exists j. rewrite He'. rewrite Hj. reflexivity.
    Qed.

    (* the loop runs over range(len(chain_inds)): with no selected cycle it does not run at all, although
       dchain_inds = [1] has one element - the model's case split *)
    Lemma chain_loop_model : chain_loop (firstn n dl) 0 = get_chain_vector sv.
    Proof.
      unfold get_chain_vector. rewrite <- where_gt. fold inds. unfold n, dl, r1_diff.
      destruct inds as [|i t] eqn:E; [reflexivity|].
      rewrite firstn_all2; [reflexivity|].
      cbn [length]. rewrite zdiffs_length, map_length. cbn [length]. lia.
    Qed.

    Theorem skeleton_get_chain_vector : forall f,
      exec P prog_get_chain_vector f (env0_get_chain_vector sv) = vec_outcome (get_chain_vector sv).
    Proof.
      intros f.
      rewrite (exec_nth_split V P prog_get_chain_vector 4 gcv_for f _ eq_refl).
      change (firstn 4 (spine prog_get_chain_vector)) with gcv_pre.
      change (skipn 5 (spine prog_get_chain_vector)) with gcv_post.
      assert (Hpre : exec_list P gcv_pre f (env0_get_chain_vector sv) = Normal (gcv_head 0 (fun _ => None))).
      { unfold gcv_head, ch_at. cbn [firstn chain_loop ccount app]. rewrite Nat.sub_0_r.
        ev1. rewrite minus1_zeros. reflexivity. }
      rewrite Hpre. unfold gcv_for. rewrite exec_for.
      assert (Hit : bind (eval P (gcv_head 0 (fun _ => None)) (ECall "range" [ECall "len" [EVar "chain_inds"] []] []))
                         (iter_list P) = Ok (map VNat (seq 0 n))) by (unfold gcv_head; ev; reflexivity).
      rewrite Hit.
      destruct (gcv_loop f (fun _ => None)) as (junk' & Hloop).
      match goal with |- context [for_loop _ (fun e' => exec P ?b f e')] => change b with gcv_body end.
      rewrite Hloop. unfold gcv_head, ch_at. ev1.
      unfold vec_outcome, vvec. fold inds. fold dl. fold n. rewrite Nat.sub_diag. cbn [repeat]. rewrite app_nil_r.
      rewrite chain_loop_model. reflexivity.
    Qed.
  End Gcv.
End VectorsTie.

(* ================================================================================================ *)
(* PART 2. class Cycles                                                                               *)
(* ================================================================================================ *)
(* the transformations added the plumbing and nothing else *)
Lemma erase_pick : erase_self writers tprog_pick_cycle_subset = prog_Cycles_pick_cycle_subset.
Proof. reflexivity. Qed.
Lemma erase_add : erase_self writers tprog_add_cycle_metric = prog_Cycles_add_cycle_metric.
Proof. reflexivity. Qed.
Lemma erase_gm : uncallvar "func" tprog_get_matching_cycles = prog_Cycles_get_matching_cycles.
Proof. reflexivity. Qed.

(* ---- facts about the model ------------------------------------------------------------------------- *)
Lemma strs_of_map : forall cs, strs_of (map VStr cs) = Some cs.
Proof. induction cs as [|s t IH]; [reflexivity|]. cbn [map strs_of]. rewrite IH. reflexivity. Qed.

Lemma parse_fail_not_ok : forall s v, parse_fail s <> Ok v.
Proof.
  intros s v. unfold parse_fail. destruct (snd (span_name (chars s))) as [|a l]; [discriminate|].
  destruct (parse_float (lstrip_ops (a :: l))); discriminate.
Qed.

Lemma gm_err_not_ok : forall ms cs v, gm_err ms cs <> Ok v.
Proof.
  intros ms cs v. induction cs as [|s t IH]; cbn [gm_err]; [discriminate|].
  destruct (parse_cond s) as [c|]; [|apply parse_fail_not_ok].
  destruct (find_metric (c_name c) ms); [exact IH|discriminate].
Qed.

Lemma zmax_list_base : forall t x, (-1 <= x)%Z -> zmax_list x t = Z.max x (zmax_list (-1) t).
Proof.
  induction t as [|y t IH]; intros x Hx; cbn [zmax_list]; [lia|]. rewrite (IH x Hx). lia.
Qed.

Lemma vec_max_chain : forall sv c t, get_chain_vector sv = c :: t ->
  vec_max (get_chain_vector sv) = Some (zmax_list (-1) (get_chain_vector sv)).
Proof.
  intros sv c t H. rewrite H. cbn [vec_max zmax_list]. f_equal. apply zmax_list_base.
  assert (0 <= c)%Z; [|lia]. apply (chain_nonneg sv 0%nat). rewrite H. reflexivity.
Qed.

Definition mview (m : metric) := (m_name m, m_vals m).

Lemma upd_metric_view : forall m1 m2 ms1 ms2, mview m1 = mview m2 -> map mview ms1 = map mview ms2 ->
  map mview (upd_metric m1 ms1) = map mview (upd_metric m2 ms2).
Proof.
  intros m1 m2 ms1. induction ms1 as [|x t IH]; intros ms2 Hm H; destruct ms2 as [|y u]; try discriminate.
  - cbn [upd_metric map]. rewrite Hm. reflexivity.
  - cbn [map] in H.
    assert (Hx : mview x = mview y) by congruence.
    assert (Ht : map mview t = map mview u) by congruence.
    cbn [upd_metric].
    assert (Hn : m_name m1 = m_name m2) by (unfold mview in Hm; congruence).
    assert (Hxy : m_name x = m_name y) by (unfold mview in Hx; congruence).
    rewrite Hn, Hxy. destruct (String.eqb (m_name m2) (m_name y)); cbn [map].
    + rewrite Hm, Ht. reflexivity.
    + rewrite Hx. f_equal. apply IH; assumption.
Qed.

Lemma add_metric_view : forall st1 st2 name p1 p2 vals, pyview st1 = pyview st2 ->
  pyview (fst (add_metric st1 name p1 vals)) = pyview (fst (add_metric st2 name p2 vals)).
Proof.
  intros st1 st2 name p1 p2 vals H. unfold pyview in H. inversion H as [[HP Ht Hph Hcv Hc Hm Hs Hch Hcs]].
  unfold add_metric, ncyc. rewrite Hcv.
  match goal with |- context [if ?b then _ else _] => destruct b end; cbn [fst]; [|unfold pyview; congruence].
  unfold pyview, set_metrics. cbn [s_P s_trough s_ph s_cv s_cache s_metrics s_subset s_chain s_conds].
  rewrite HP, Ht, Hph, Hcv, Hc, Hs, Hch, Hcs. do 4 f_equal.
  change (fun m : metric => (m_name m, m_vals m)) with mview in *.
  apply upd_metric_view; [reflexivity | exact Hm].
Qed.

Section CyclesTie.
  Local Notation P := cycles_prims.

  Ltac ev :=
    cbv beta iota zeta delta
        [exec final_env eval eval_truth bind map_res truthy do_cmp do_arith do_index nat_cmp nat_arith iter_list
         upd lookup env_of assign_all cmp_name ar_name frame overlay normal_env
         try_finish try_finish_env exn_matches as_call res_outcome
         cycles_prims prims_of table_lookup cycles_table keys_are is_opaque0
         h_len as_int vbools vvec vidx vint varr vself vconds vdtype
         names_pick_cycle_subset env0_pick_cycle_subset params_Cycles_pick_cycle_subset tprog_pick_cycle_subset
         names_get_matching_cycles env0_get_matching_cycles params_Cycles_get_matching_cycles
         names_add_cycle_metric env0_add_cycle_metric params_Cycles_add_cycle_metric tprog_add_cycle_metric
         names_safe_add_metric env0_safe_add_metric params_Cycles__safe_add_metric prog_Cycles__safe_add_metric
         exec_list
         String.eqb Ascii.eqb Bool.eqb fst snd nth_error andb negb orb].
  Ltac ev1 := ev; repeat (progress (cbn [Nat.eqb]; oracle_rw); ev).

  (* ---- pick_cycle_subset: compute everything, then store (atomic on failure) ---- *)
  Theorem skeleton_pick_cycle_subset : forall st cs f,
    exists st',
      as_call (exec P tprog_pick_cycle_subset f (env0_pick_cycle_subset st cs)) = pick_outcome st cs /\
      lookup "self" (final_env P tprog_pick_cycle_subset f (env0_pick_cycle_subset st cs)) = Some (vself st') /\
      pyview st' = pyview (fst (pick st cs)).
  Proof.
    intros st cs f.
    assert (Hc : conds_of (VList (map VStr cs)) = Some cs) by apply strs_of_map.
    pose proof (strs_of_map cs) as Hs.
    unfold pick_outcome, pick.
    destruct (get_matching st cs) as [valids|e] eqn:Em.
    - assert (Hg : gm_row st cs = Ok (VSig (CBools valids))) by (unfold gm_row; rewrite Em; reflexivity).
      rewrite Hg.
      destruct (get_chain_vector (get_subset_vector valids)) as [|c t] eqn:Ec.
      + assert (Hm : vec_max (get_chain_vector (get_subset_vector valids)) = None) by (rewrite Ec; reflexivity).
        exists st. split; [|split]; [ev1; rewrite Hg; ev1; reflexivity | ev1; rewrite Hg; ev1; reflexivity | reflexivity].
      + pose proof (vec_max_chain _ c t Ec) as Hm. rewrite <- Ec in *.
        eexists. split; [|split]; [ev1; rewrite Hg; ev1; reflexivity
                                  | ev1; rewrite Hg; ev1; reflexivity |].
        cbn [fst]. apply add_metric_view. reflexivity.
    - destruct (gm_row st cs) as [v|x|] eqn:Hg.
      + exfalso. unfold gm_row in Hg. rewrite Em in Hg.
        destruct (find_metric "is_good" (s_metrics st)); [exact (gm_err_not_ok _ _ _ Hg)|discriminate].
      + exists st. split; [|split]; [ev1; rewrite Hg; ev1; reflexivity | ev1; rewrite Hg; ev1; reflexivity | reflexivity].
      + exists st. split; [|split]; [ev1; rewrite Hg; ev1; reflexivity | ev1; rewrite Hg; ev1; reflexivity | reflexivity].
  Qed.

  (* ---- _safe_add_metric: the length guard raises, otherwise the dict store ---- *)
  Theorem skeleton_safe_add_metric : forall st name vals f,
    as_call (exec P prog_Cycles__safe_add_metric f (env0_safe_add_metric st name vals))
      = (if (length vals =? ncyc st)%nat then Return VNone else Raise "ValueError") /\
    lookup "self" (final_env P prog_Cycles__safe_add_metric f (env0_safe_add_metric st name vals))
      = Some (vself (fst (add_metric st name PAdded vals))).
  Proof.
    intros st name vals f. unfold add_metric.
    destruct (length vals =? ncyc st)%nat eqn:E; split; ev1; reflexivity.
  Qed.

  (* ---- add_cycle_metric: the length guard RETURNS an exception object; nothing is stored then ---- *)
  Theorem skeleton_add_cycle_metric : forall st name vals (toint : bool) f,
    let vals' := if toint then nan_to_m1 vals else vals in
    as_call (exec P tprog_add_cycle_metric f (env0_add_cycle_metric st name vals toint))
      = add_outcome (snd (add_metric st name PAdded vals')) /\
    lookup "self" (final_env P tprog_add_cycle_metric f (env0_add_cycle_metric st name vals toint))
      = Some (vself (fst (add_metric st name PAdded vals'))).
  Proof.
    intros st name vals toint f vals'.
    assert (Hl : length vals' = length vals) by (unfold vals', nan_to_m1; destruct toint; [apply map_length|reflexivity]).
    unfold add_metric, add_outcome, safe_add_row. rewrite Hl. unfold vals'.
    destruct (length vals =? ncyc st)%nat eqn:E.
    - assert (E' : (length (nan_to_m1 vals) =? ncyc st)%nat = true)
        by (unfold nan_to_m1; rewrite map_length; exact E).
      destruct toint; split; ev1; unfold safe_add_row; oracle_rw; ev1; reflexivity.
    - destruct toint; split; ev1; reflexivity.
  Qed.
End CyclesTie.

(* ================================================================================================ *)
(* Cycles._parse_condition                                                                            *)
(* ================================================================================================ *)
Lemma ascii_eqb_code : forall a c, Ascii.eqb a c = Z.eqb (code a) (code c).
Proof.
  intros a c. destruct (Ascii.eqb_spec a c) as [->|Hn].
  - symmetry. apply Z.eqb_refl.
  - symmetry. apply Z.eqb_neq. intros H. apply Hn. unfold code in H. apply Nat2Z.inj in H.
    rewrite <- (ascii_nat_embedding a), <- (ascii_nat_embedding c), H. reflexivity.
Qed.

Definition second_code (rest : list ascii) : Z := match rest with [] => 0%Z | x :: _ => code x end.

Lemma str2_spec : forall a rest c1 c2, Z.eqb 0 (code c2) = false ->
  str_is (firstn 2 (a :: rest)) (String c1 (String c2 "")) = (Z.eqb (code a) (code c1) && Z.eqb (second_code rest) (code c2)).
Proof.
  intros a rest c1 c2 H0. unfold str_is. destruct rest as [|x r]; cbn [firstn unchars String.eqb second_code].
  - rewrite H0, ascii_eqb_code. destruct (Z.eqb (code a) (code c1)); reflexivity.
  - rewrite !ascii_eqb_code. destruct (Z.eqb (code a) (code c1)); [|reflexivity].
    destruct (Z.eqb (code x) (code c2)); [|reflexivity]. destruct r; reflexivity.
Qed.

Lemma str1_spec : forall a c1, str_is [a] (String c1 "") = Z.eqb (code a) (code c1).
Proof. intros a c1. unfold str_is. cbn [unchars String.eqb]. rewrite ascii_eqb_code. destruct (Z.eqb (code a) (code c1)); reflexivity. Qed.

(* the if/elif chain of the code is the model's parse_cmp *)
Lemma parse_cmp_tests : forall a rest,
  parse_cmp (a :: rest) =
  if str_is (firstn 2 (a :: rest)) "==" then Some CyclesObj.CEq
  else if str_is (firstn 2 (a :: rest)) "!=" then Some CyclesObj.CNe
  else if str_is (firstn 2 (a :: rest)) "<=" then Some CyclesObj.CLe
  else if str_is (firstn 2 (a :: rest)) ">=" then Some CyclesObj.CGe
  else if str_is [a] "<" then Some CyclesObj.CLt
  else if str_is [a] ">" then Some CyclesObj.CGt
  else None.
Proof.
  intros a rest. rewrite !str2_spec by reflexivity. rewrite !str1_spec.
  unfold parse_cmp. fold (second_code rest). reflexivity.
Qed.

Lemma span_name_split : forall l a b, span_name l = (a, b) -> l = (a ++ b)%list.
Proof.
  induction l as [|c t IH]; intros a b H; cbn [span_name] in H.
  - inversion H. reflexivity.
  - destruct (is_opchar c).
    + inversion H. reflexivity.
    + destruct (span_name t) as [a' b'] eqn:E. inversion H; subst. cbn [app]. f_equal. apply IH. reflexivity.
Qed.

Lemma length_unchars : forall l, String.length (unchars l) = length l.
Proof. induction l as [|c t IH]; cbn [unchars String.length length]; [reflexivity|rewrite IH; reflexivity]. Qed.

(* comp = cond[len(name):] is the second component of the model's split *)
Lemma drop_name_span : forall s, drop_name s (unchars (fst (span_name (chars s)))) = snd (span_name (chars s)).
Proof.
  intros s. unfold drop_name. destruct (span_name (chars s)) as [a b] eqn:E. cbn [fst snd].
  rewrite (span_name_split _ _ _ E), length_unchars, skipn_app, Nat.sub_diag, skipn_all. reflexivity.
Qed.

Section ParseTie.
  Local Notation P := parse_prims.

  Ltac ev :=
    cbv beta iota zeta delta
        [exec final_env eval eval_truth bind map_res truthy do_cmp do_arith do_index nat_cmp nat_arith iter_list
         upd lookup env_of assign_all cmp_name ar_name frame overlay normal_env res_outcome
         parse_prims prims_of table_lookup parse_table keys_are is_opaque0 h_cmp vcond
         names_parse_condition env0_parse_condition params_Cycles__parse_condition prog_Cycles__parse_condition
         c_name c_cmp c_lit
         String.eqb Ascii.eqb Bool.eqb fst snd nth_error andb negb orb].
  Ltac ev1 := ev; repeat (progress (cbn [Nat.eqb]; oracle_rw); ev).

  Theorem skeleton_parse_condition : forall self s f,
    exec P prog_Cycles__parse_condition f (env0_parse_condition self s) = res_outcome (parse_row s).
  Proof.
    intros self s f. unfold parse_row, parse_cond, parse_fail.
    pose proof (drop_name_span s) as Hd.
    destruct (span_name (chars s)) as [name comp] eqn:Esp. cbn [fst snd] in Hd |- *.
    destruct comp as [|a rest].
    - assert (H1 : str_is (firstn 2 []) "==" = false) by reflexivity.
      assert (H2 : str_is (firstn 2 []) "!=" = false) by reflexivity.
      assert (H3 : str_is (firstn 2 []) "<=" = false) by reflexivity.
      assert (H4 : str_is (firstn 2 []) ">=" = false) by reflexivity.
      cbn [parse_cmp]. ev. rewrite Esp. ev. rewrite Hd. ev1. reflexivity.
    - rewrite parse_cmp_tests.
      destruct (parse_float (lstrip_ops (a :: rest))) as [q|] eqn:Ef;
        (destruct (str_is (firstn 2 (a :: rest)) "==") eqn:B1;
         [|destruct (str_is (firstn 2 (a :: rest)) "!=") eqn:B2;
           [|destruct (str_is (firstn 2 (a :: rest)) "<=") eqn:B3;
             [|destruct (str_is (firstn 2 (a :: rest)) ">=") eqn:B4;
               [|destruct (str_is [a] "<") eqn:B5; [|destruct (str_is [a] ">") eqn:B6]]]]]);
        ev; rewrite Esp; ev; rewrite Hd; ev1; reflexivity.
  Qed.
End ParseTie.

(* ================================================================================================ *)
(* Cycles.get_matching_cycles                                                                         *)
(* ================================================================================================ *)
Definition gm_pre : list stmt := Eval cbv in firstn 2 (spine tprog_get_matching_cycles).
Definition gm_for : stmt := Eval cbv in nth 2 (spine tprog_get_matching_cycles) SSkip.
Definition gm_post : list stmt := Eval cbv in skipn 3 (spine tprog_get_matching_cycles).
Definition gm_body : stmt := Eval cbv in match gm_for with SFor _ _ b => b | _ => SSkip end.

Lemma set_nth_mid : forall (B : Type) (a : list B) x y r, set_nth (length a) x (a ++ y :: r) = ((a ++ [x]) ++ r)%list.
Proof.
  intros B a x y r. unfold set_nth.
  rewrite firstn_app, Nat.sub_diag, firstn_all, firstn_O, app_nil_r.
  rewrite skipn_app, (skipn_all2 (n := S (length a))) by lia.
  replace (S (length a) - length a)%nat with 1%nat by lia. cbn [skipn app].
  rewrite <- app_assoc. reflexivity.
Qed.

Definition colof (cv : cond * list (option Z)) : list bool := cmp_col (c_cmp (fst cv)) (snd cv) (c_lit (fst cv)).

Lemma forallb_map' : forall (B C : Type) (f : C -> bool) (g : B -> C) l,
  forallb f (map g l) = forallb (fun x => f (g x)) l.
Proof. intros B C f g l. induction l as [|a t IH]; [reflexivity|]. cbn [map forallb]. rewrite IH. reflexivity. Qed.

Lemma forallb_ext' : forall (B : Type) (f g : B -> bool) l,
  (forall x, In x l -> f x = g x) -> forallb f l = forallb g l.
Proof.
  intros B f g l. induction l as [|a t IH]; intros H; [reflexivity|]. cbn [forallb].
  rewrite (H a (or_introl eq_refl)), IH; [reflexivity|]. intros x Hx. apply H. right. exact Hx.
Qed.

(* np.all(out, axis=1) over the comparison columns is the model's conjunction over the conditions *)
Lemma all_rows_sat : forall n r, Forall (fun cv : cond * list (option Z) => length (snd cv) = n) r ->
  all_rows n (map colof r) = map (sat_all r) (seq 0 n).
Proof.
  intros n r Hr. unfold all_rows. apply map_ext_in. intros i Hi. apply in_seq in Hi.
  unfold sat_all. rewrite forallb_map'. apply forallb_ext'. intros cv Hcv.
  rewrite Forall_forall in Hr. specialize (Hr cv Hcv).
  unfold colof, cmp_col.
  rewrite (nth_indep _ false (eval_cmp (c_cmp (fst cv)) None (c_lit (fst cv)))) by (rewrite map_length; lia).
  apply (map_nth (fun v => eval_cmp (c_cmp (fst cv)) v (c_lit (fst cv)))).
Qed.

Lemma resolve_lengths : forall ms n cs r, Forall (fun m => length (m_vals m) = n) ms ->
  resolve ms cs = CyclesObj.Ok r -> Forall (fun cv : cond * list (option Z) => length (snd cv) = n) r.
Proof.
  intros ms n cs. induction cs as [|s t IH]; intros r Hms H; cbn [resolve] in H.
  - inversion H. constructor.
  - destruct (parse_cond s) as [c|]; [|discriminate].
    destruct (find_metric (c_name c) ms) as [m|] eqn:Ef; [|discriminate].
    destruct (resolve ms t) as [r'|e]; [|discriminate]. inversion H; subst. constructor.
    + cbn [snd]. rewrite Forall_forall in Hms. apply Hms. apply (find_metric_In _ _ _ Ef).
    + apply IH; [exact Hms|reflexivity].
Qed.

Section MatchingTie.
  Local Notation P := cycles_prims.
  Variable st : cstate.
  Variable cv0 : val V.                      (* the value of `conditions` inside the loop (a list) *)
  Variable n : nat.                          (* len(self.metrics['is_good']) *)
  Hypothesis Hms : Forall (fun m => length (m_vals m) = n) (s_metrics st).
  Let ms := s_metrics st.

  Ltac ev :=
    cbv beta iota zeta delta
        [exec final_env eval eval_truth bind map_res truthy do_cmp do_arith do_index nat_cmp nat_arith iter_list
         upd lookup env_of assign_all cmp_name ar_name frame overlay normal_env
         try_finish try_finish_env exn_matches as_call res_outcome
         cycles_prims prims_of table_lookup cycles_table keys_are is_opaque0
         h_len as_int vbools vvec vidx vint varr vself vconds vdtype vcond
         names_get_matching_cycles env0_get_matching_cycles params_Cycles_get_matching_cycles
         gm_pre gm_for gm_post gm_body exec_list
         String.eqb Ascii.eqb Bool.eqb fst snd nth_error andb negb orb].
  Ltac ev1 := ev; repeat (progress (cbn [Nat.eqb]; oracle_rw); ev).

  Definition gm_head (cols : list (list bool)) (junk : string -> option (val V)) : env V :=
    env_of names_get_matching_cycles
      (overlay [ ("self", vself st); ("conditions", cv0); ("ret_separate", VBool false);
                 ("out", VSig (CMat n cols)) ] junk).

  Lemma gm_loop : forall fb cs done junk,
    (forall r, resolve ms cs = CyclesObj.Ok r ->
       exists junk', for_loop "(idx, c)" (fun e' => exec P gm_body fb e') (enum_vals (length done) (map VStr cs))
                       (gm_head (done ++ zero_cols n (length cs)) junk)
                     = Normal (gm_head (done ++ map colof r) junk')) /\
    (forall e, resolve ms cs = Err e ->
       for_loop "(idx, c)" (fun e' => exec P gm_body fb e') (enum_vals (length done) (map VStr cs))
         (gm_head (done ++ zero_cols n (length cs)) junk) = res_outcome (gm_err ms cs)).
  Proof.
    intros fb cs. induction cs as [|s t IH]; intros done junk.
    - split.
      + intros r H. cbn [resolve] in H. inversion H; subst. exists junk. reflexivity.
      + intros e H. discriminate.
    - cbn [map enum_vals length resolve gm_err]. rewrite !for_loop_cons.
      unfold zero_cols. cbn [repeat]. fold (zero_cols n (length t)).
      destruct (parse_cond s) as [c|] eqn:Ep.
      + assert (Hrow : parse_row s = Ok (vcond c)) by (unfold parse_row; rewrite Ep; reflexivity).
        destruct (find_metric (c_name c) ms) as [m|] eqn:Ef.
        * assert (Hmv : metric_vals (c_name c) (s_metrics st) = Some (m_vals m))
            by (unfold metric_vals; fold ms; rewrite Ef; reflexivity).
          assert (Hlm : length (m_vals m) = n).
          { rewrite Forall_forall in Hms. apply Hms. apply (find_metric_In _ _ _ Ef). }
          assert (Hst : store_col n (done ++ repeat false n :: zero_cols n (length t)) (length done)
                                  (cmp_col (c_cmp c) (m_vals m) (c_lit c))
                        = Some ((done ++ [cmp_col (c_cmp c) (m_vals m) (c_lit c)]) ++ zero_cols n (length t))%list).
          { unfold store_col. rewrite app_length. cbn [length].
            assert (H1 : (length done <? length done + S (length (zero_cols n (length t))))%nat = true)
              by (apply Nat.ltb_lt; lia).
            assert (H2 : (length (cmp_col (c_cmp c) (m_vals m) (c_lit c)) =? n)%nat = true)
              by (apply Nat.eqb_eq; unfold cmp_col; rewrite map_length; exact Hlm).
            rewrite H1, H2. cbn [andb]. rewrite set_nth_mid. reflexivity. }
          assert (Hbody : exists e2,
                    exec P gm_body fb (upd "(idx, c)" (VList [VNat (length done); VStr s])
                                        (gm_head (done ++ repeat false n :: zero_cols n (length t)) junk)) = Normal e2 /\
                    e2 = gm_head ((done ++ [cmp_col (c_cmp c) (m_vals m) (c_lit c)]) ++ zero_cols n (length t))
                                 (fun x => lookup x e2)).
          { unfold gm_head. eexists. split.
            - ev. rewrite Hrow. ev1. reflexivity.
            - ev. reflexivity. }
          destruct Hbody as (e2 & Hb & He2). rewrite Hb, He2.
          replace (S (length done)) with (length (done ++ [cmp_col (c_cmp c) (m_vals m) (c_lit c)]))
            by (rewrite app_length; cbn [length]; lia).
          destruct (IH (done ++ [cmp_col (c_cmp c) (m_vals m) (c_lit c)])%list (fun x => lookup x e2)) as (IHok & IHerr).
          split.
          -- intros r H. destruct (resolve ms t) as [r'|e']; [|discriminate]. inversion H; subst r.
             destruct (IHok r' eq_refl) as (junk' & Hl). exists junk'. rewrite Hl.
             cbn [map]. unfold colof at 2. cbn [fst snd]. rewrite <- app_assoc. reflexivity.
          -- intros e H. destruct (resolve ms t) as [r'|e']; [discriminate|]. apply (IHerr e' eq_refl).
        * assert (Hmv : metric_vals (c_name c) (s_metrics st) = None)
            by (unfold metric_vals; fold ms; rewrite Ef; reflexivity).
          split; [intros r H; discriminate|]. intros e _. unfold gm_head. ev. rewrite Hrow. ev1. reflexivity.
      + assert (Hrow : parse_row s = parse_fail s) by (unfold parse_row; rewrite Ep; reflexivity).
        split; [intros r H; discriminate|]. intros e _.
        destruct (parse_fail s) as [v|x|] eqn:Epf; [exfalso; exact (parse_fail_not_ok _ _ Epf)| |];
          unfold gm_head; ev; rewrite Hrow; ev1; reflexivity.
  Qed.
End MatchingTie.

Section MatchingMain.
  Local Notation P := cycles_prims.

  Ltac ev :=
    cbv beta iota zeta delta
        [exec final_env eval eval_truth bind map_res truthy do_cmp do_arith do_index nat_cmp nat_arith iter_list
         upd lookup env_of assign_all cmp_name ar_name frame overlay normal_env
         try_finish try_finish_env exn_matches as_call res_outcome
         cycles_prims prims_of table_lookup cycles_table keys_are is_opaque0
         h_len as_int vbools vvec vidx vint varr vself vconds vdtype vcond
         names_get_matching_cycles env0_get_matching_cycles params_Cycles_get_matching_cycles
         gm_pre gm_for gm_post gm_body exec_list gm_head
         String.eqb Ascii.eqb Bool.eqb fst snd nth_error andb negb orb].
  Ltac ev1 := ev; repeat (progress (cbn [Nat.eqb]; oracle_rw); ev).

  (* the common part: conditions0 is what the caller passed (a list, or one str that the first statement wraps) *)
  Lemma gm_main : forall st cs conditions0 f, metrics_aligned st ->
    (conditions0 = vconds cs \/ exists s, conditions0 = VStr s /\ cs = [s]) ->
    exec P tprog_get_matching_cycles f (env0_get_matching_cycles st conditions0 false) = res_outcome (gm_row st cs).
  Proof.
    intros st cs conditions0 f Hal Hc.
    rewrite (exec_nth_split V P tprog_get_matching_cycles 2 gm_for f _ eq_refl).
    change (firstn 2 (spine tprog_get_matching_cycles)) with gm_pre.
    change (skipn 3 (spine tprog_get_matching_cycles)) with gm_post.
    unfold gm_row, get_matching.
    destruct (find_metric "is_good" (s_metrics st)) as [g|] eqn:Eg.
    - assert (Hmv : metric_vals "is_good" (s_metrics st) = Some (m_vals g))
        by (unfold metric_vals; rewrite Eg; reflexivity).
      pose proof (Hal g Eg) as Hms.
      assert (Hpre : exec_list P gm_pre f (env0_get_matching_cycles st conditions0 false)
                     = Normal (gm_head st (vconds cs) (length (m_vals g)) ([] ++ zero_cols (length (m_vals g)) (length cs))
                                       (fun _ => None))).
      { destruct Hc as [->|(s & -> & ->)]; unfold gm_head; ev1; cbn [app]; rewrite ?map_length; reflexivity. }
      rewrite Hpre. unfold gm_for. rewrite exec_for.
      assert (Hit : bind (eval P (gm_head st (vconds cs) (length (m_vals g))
                                          ([] ++ zero_cols (length (m_vals g)) (length cs)) (fun _ => None))
                               (ECall "enumerate" [EVar "conditions"] [])) (iter_list P)
                    = Ok (enum_vals 0 (map VStr cs))) by (ev; reflexivity).
      rewrite Hit.
      match goal with |- context [for_loop _ (fun e' => exec P ?b f e')] => change b with gm_body end.
      destruct (gm_loop st (vconds cs) (length (m_vals g)) Hms f cs [] (fun _ => None)) as (Hok & Herr).
      cbn [length] in Hok, Herr.
      destruct (resolve (s_metrics st) cs) as [r|e] eqn:Er.
      + destruct (Hok r eq_refl) as (junk' & Hl). rewrite Hl. cbn [app]. ev1.
        rewrite (all_rows_sat _ r (resolve_lengths _ _ _ _ Hms Er)). reflexivity.
      + rewrite (Herr e eq_refl).
        destruct (gm_err (s_metrics st) cs) as [v|x|] eqn:Ee; [exfalso; exact (gm_err_not_ok _ _ _ Ee)| |]; reflexivity.
    - assert (Hmv : metric_vals "is_good" (s_metrics st) = None)
        by (unfold metric_vals; rewrite Eg; reflexivity).
      destruct Hc as [->|(s & -> & ->)]; ev1; reflexivity.
  Qed.

  Theorem skeleton_get_matching_cycles : forall st cs f, metrics_aligned st ->
    exec P tprog_get_matching_cycles f (env0_get_matching_cycles st (vconds cs) false) = res_outcome (gm_row st cs).
  Proof. intros st cs f H. apply gm_main; [exact H|left; reflexivity]. Qed.

  (* one condition given as a plain str *)
  Theorem skeleton_get_matching_cycles_str : forall st s f, metrics_aligned st ->
    exec P tprog_get_matching_cycles f (env0_get_matching_cycles st (VStr s) false) = res_outcome (gm_row st [s]).
  Proof. intros st s f H. apply gm_main; [exact H|right; exists s; split; reflexivity]. Qed.
End MatchingMain.

(* the model's error codes: 4 = KeyError exactly when the code raises KeyError; 9 = a condition that does not parse *)
Lemma gm_row_codes : forall st cs e, get_matching st cs = Err e ->
  (e = 4%Z /\ gm_row st cs = Exc "KeyError") \/
  (e = 9%Z /\ exists s, In s cs /\ parse_cond s = None /\ gm_row st cs = parse_fail s).
Proof.
  intros st cs e H. unfold gm_row. rewrite H. unfold get_matching in H.
  destruct (find_metric "is_good" (s_metrics st)) as [g|]; [|inversion H; left; split; reflexivity].
  destruct (resolve (s_metrics st) cs) as [r|e'] eqn:Er; [discriminate|]. inversion H; subst e'. clear H.
  revert e Er. induction cs as [|s t IH]; intros e Er; cbn [resolve gm_err] in *; [discriminate|].
  destruct (parse_cond s) as [c|] eqn:Ep.
  - destruct (find_metric (c_name c) (s_metrics st)) as [m|].
    + destruct (resolve (s_metrics st) t) as [r|e'] eqn:Er'; [discriminate|]. inversion Er; subst e'.
      destruct (IH e eq_refl) as [(He & Hg)|(He & s' & Hin & Hp & Hg)].
      * left. split; assumption.
      * right. split; [exact He|]. exists s'. repeat split; [right; exact Hin|exact Hp|exact Hg].
    + inversion Er. left. split; reflexivity.
  - inversion Er. right. split; [reflexivity|]. exists s. repeat split; [left; reflexivity|exact Ep].
Qed.

(* the hypothesis of the get_matching_cycles theorem follows from the invariant of C15 *)
Lemma aligned_of_metric_ok : forall st, Forall (metric_ok st) (s_metrics st) -> metrics_aligned st.
Proof.
  intros st H g Hg. rewrite Forall_forall in *. intros m Hm.
  destruct (H m Hm) as (Hl & _). destruct (H g (proj1 (find_metric_In _ _ _ Hg))) as (Hlg & _). congruence.
Qed.
