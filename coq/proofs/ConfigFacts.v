(* Lemmas about model/Config.v (property C18). *)
From Coq Require Import ZArith List Bool String Ascii Lia.
From EmdV Require Import model.Config gen.Gen_Defaults.
Import ListNotations.
Open Scope Z_scope.

(* ------------------------------------------------------------------ induction over nested values *)
Section ValInd.
  Variable P : val -> Prop.
  Hypothesis HNone : P VNone.
  Hypothesis HBool : forall b, P (VBool b).
  Hypothesis HInt : forall z, P (VInt z).
  Hypothesis HFloat : forall r, P (VFloat r).
  Hypothesis HStr : forall s, P (VStr s).
  Hypothesis HList : forall l, Forall P l -> P (VList l).
  Hypothesis HTuple : forall l, Forall P l -> P (VTuple l).
  Hypothesis HArr : forall l, Forall P l -> P (VArr l).

  Fixpoint val_ind' (v : val) : P v :=
    let go := fix go (l : list val) : Forall P l :=
      match l with
      | [] => Forall_nil P
      | x :: r => @Forall_cons _ P x r (val_ind' x) (go r)
      end in
    match v with
    | VNone => HNone
    | VBool b => HBool b
    | VInt z => HInt z
    | VFloat r => HFloat r
    | VStr s => HStr s
    | VList l => HList l (go l)
    | VTuple l => HTuple l (go l)
    | VArr l => HArr l (go l)
    end.
End ValInd.

Section TreeInd.
  Variable P : tree -> Prop.
  Hypothesis HLeaf : forall v, P (Leaf v).
  Hypothesis HNode : forall kids, Forall (fun kt => P (snd kt)) kids -> P (Node kids).

  Fixpoint tree_ind' (t : tree) : P t :=
    match t with
    | Leaf v => HLeaf v
    | Node kids =>
        HNode kids ((fix go (l : list (string * tree)) : Forall (fun kt => P (snd kt)) l :=
                       match l with
                       | [] => Forall_nil _
                       | kt :: r => @Forall_cons _ (fun kt => P (snd kt)) kt r
                                      (match kt with (k, c) => tree_ind' c end) (go r)
                       end) kids)
    end.
End TreeInd.

(* ------------------------------------------------------------------ association lists *)
Lemma aget_aset_same : forall k v l, aget k (aset k v l) = Some v.
Proof.
  intros k v l. induction l as [|[k' t] r IH]; cbn [aset aget].
  - rewrite String.eqb_refl. reflexivity.
  - destruct (String.eqb k k') eqn:E; cbn [aget]; rewrite E; [reflexivity | exact IH].
Qed.

Lemma aget_aset_other : forall k k' v l, String.eqb k' k = false -> aget k' (aset k v l) = aget k' l.
Proof.
  intros k k' v l Hne. induction l as [|[ka t] r IH]; cbn [aset aget].
  - rewrite Hne. reflexivity.
  - destruct (String.eqb k ka) eqn:E; cbn [aget].
    + apply String.eqb_eq in E. subst ka. rewrite Hne. reflexivity.
    + destruct (String.eqb k' ka); [reflexivity | exact IH].
Qed.

Lemma aget_adel_same : forall k l, aget k (adel k l) = None.
Proof.
  intros k l. induction l as [|[ka t] r IH]; cbn [adel aget]; [reflexivity|].
  destruct (String.eqb k ka) eqn:E; [exact IH | cbn [aget]; rewrite E; exact IH].
Qed.

Lemma aget_adel_other : forall k k' l, String.eqb k' k = false -> aget k' (adel k l) = aget k' l.
Proof.
  intros k k' l Hne. induction l as [|[ka t] r IH]; cbn [adel aget]; [reflexivity|].
  destruct (String.eqb k ka) eqn:E.
  - apply String.eqb_eq in E. subst ka. rewrite Hne. exact IH.
  - cbn [aget]. destruct (String.eqb k' ka); [reflexivity | exact IH].
Qed.

Lemma bind_ok_r : forall A (r : result A), bind r Ok = r.
Proof. intros A [a|e]; reflexivity. Qed.

Lemma idx_idx_set_same : forall k v t t', idx_set k v t = Ok t' -> idx k t' = Ok v.
Proof.
  intros k v [x|kids] t' H; cbn [idx_set] in H; [discriminate|].
  injection H as <-. cbn [idx]. rewrite aget_aset_same. reflexivity.
Qed.

Lemma idx_idx_set_other : forall k k' v t t',
  String.eqb k' k = false -> idx_set k v t = Ok t' -> idx k' t' = idx k' t.
Proof.
  intros k k' v [x|kids] t' Hne H; cbn [idx_set] in H; [discriminate|].
  injection H as <-. cbn [idx]. rewrite aget_aset_other by exact Hne. reflexivity.
Qed.

(* ------------------------------------------------------------------ key paths *)
Lemma split_slash_nonempty : forall s, split_slash s <> [].
Proof.
  intros s. destruct s as [|c r]; cbn [split_slash]; [discriminate|].
  destruct (Ascii.eqb c slash); [discriminate|].
  destruct (split_slash r); discriminate.
Qed.

Lemma split_noslash : forall a, no_slash a = true -> split_slash a = [a].
Proof.
  induction a as [|c a IH]; intros H; [reflexivity|].
  cbn [no_slash] in H. apply andb_true_iff in H. destruct H as [Hc Ha].
  cbn [split_slash]. apply negb_true_iff in Hc. rewrite Hc. rewrite (IH Ha). reflexivity.
Qed.

Lemma split_app_noslash : forall a r, no_slash a = true ->
  split_slash (a ++ String slash r) = a :: split_slash r.
Proof.
  induction a as [|c a IH]; intros r H.
  - cbn [String.append split_slash]. rewrite Ascii.eqb_refl. reflexivity.
  - cbn [no_slash] in H. apply andb_true_iff in H. destruct H as [Hc Ha].
    apply negb_true_iff in Hc.
    change (String c a ++ String slash r)%string with (String c (a ++ String slash r)).
    cbn [split_slash]. rewrite Hc. rewrite (IH r Ha). reflexivity.
Qed.

Lemma split_join : forall ks, ks <> [] -> forallb no_slash ks = true -> split_slash (join_slash ks) = ks.
Proof.
  induction ks as [|k r IH]; intros Hne H; [contradiction|].
  cbn [forallb] in H. apply andb_true_iff in H. destruct H as [Hk Hr].
  destruct r as [|k2 r'].
  - cbn [join_slash]. apply split_noslash. exact Hk.
  - change (join_slash (k :: k2 :: r')) with (k ++ String slash (join_slash (k2 :: r')))%string.
    rewrite split_app_noslash by exact Hk. rewrite IH; [reflexivity | discriminate | exact Hr].
Qed.

Lemma join_split : forall s, join_slash (split_slash s) = s.
Proof.
  induction s as [|c r IH]; [reflexivity|].
  cbn [split_slash]. destruct (Ascii.eqb c slash) eqn:E.
  - apply Ascii.eqb_eq in E. subst c.
    destruct (split_slash r) as [|p q] eqn:Es; [exfalso; exact (split_slash_nonempty r Es)|].
    change (join_slash (EmptyString :: p :: q)) with (EmptyString ++ String slash (join_slash (p :: q)))%string.
    rewrite IH. reflexivity.
  - destruct (split_slash r) as [|p q] eqn:Es; [exfalso; exact (split_slash_nonempty r Es)|].
    destruct q as [|q1 q'].
    + cbn [join_slash] in *. rewrite IH. reflexivity.
    + change (join_slash (String c p :: q1 :: q')) with (String c (p ++ String slash (join_slash (q1 :: q'))))%string.
      change (join_slash (p :: q1 :: q')) with (p ++ String slash (join_slash (q1 :: q')))%string in IH.
      rewrite IH. reflexivity.
Qed.

Lemma split_parts_noslash : forall s, forallb no_slash (split_slash s) = true.
Proof.
  induction s as [|c r IH]; [reflexivity|].
  cbn [split_slash]. destruct (Ascii.eqb c slash) eqn:E.
  - cbn [forallb no_slash]. exact IH.
  - destruct (split_slash r) as [|p q]; cbn [forallb no_slash] in *; rewrite E; [reflexivity|].
    exact IH.
Qed.

Lemma keytransform_ok : forall key ps, keytransform key = Ok ps ->
  ps = split_slash key /\ ps <> [] /\ (List.length ps <= 3)%nat.
Proof.
  intros key ps H. unfold keytransform in H.
  destruct (3 <? Z.of_nat (List.length (split_slash key))) eqn:E; [discriminate|].
  injection H as <-. apply Z.ltb_ge in E.
  split; [reflexivity|]. split; [apply split_slash_nonempty | lia].
Qed.

Lemma keytransform_err : forall key e, keytransform key = Err e ->
  e = ETooDeep /\ (3 < List.length (split_slash key))%nat.
Proof.
  intros key e H. unfold keytransform in H.
  destruct (3 <? Z.of_nat (List.length (split_slash key))) eqn:E; [|discriminate].
  injection H as <-. apply Z.ltb_lt in E. split; [reflexivity | lia].
Qed.

Lemma keytransform_join : forall ks, ks <> [] -> forallb no_slash ks = true ->
  keytransform (join_slash ks) = if (3 <? Z.of_nat (List.length ks)) then Err ETooDeep else Ok ks.
Proof.
  intros ks Hne H. unfold keytransform. rewrite split_join by assumption. reflexivity.
Qed.

(* the three item methods are nested indexing along the parts of the key *)
Lemma getitem_nget : forall key s,
  getitem key s = match keytransform key with Ok ps => nget ps s | Err e => Err e end.
Proof.
  intros key s. unfold getitem. destruct (keytransform key) as [ps|e] eqn:E; [|reflexivity].
  apply keytransform_ok in E. destruct E as (_ & Hne & Hlen).
  destruct ps as [|a [|b [|c [|d r]]]]; cbn [List.length] in Hlen; try contradiction; try lia.
  - cbn [nget]. rewrite bind_ok_r. reflexivity.
  - cbn [nget]. destruct (idx a s) as [i1|]; cbn [bind]; [|reflexivity]. rewrite bind_ok_r. reflexivity.
  - cbn [nget]. destruct (idx a s) as [i1|]; cbn [bind]; [|reflexivity].
    destruct (idx b i1) as [i2|]; cbn [bind]; [|reflexivity]. rewrite bind_ok_r. reflexivity.
Qed.

Lemma setitem_nset : forall key v s,
  setitem key v s = match keytransform key with Ok ps => nset ps v s | Err e => Err e end.
Proof.
  intros key v s. unfold setitem. destruct (keytransform key) as [ps|e] eqn:E; [|reflexivity].
  apply keytransform_ok in E. destruct E as (_ & Hne & Hlen).
  destruct ps as [|a [|b [|c [|d r]]]]; cbn [List.length] in Hlen; try contradiction; try lia.
  - reflexivity.
  - reflexivity.
  - cbn [nset]. destruct (idx a s) as [i1|]; cbn [bind]; [|reflexivity].
    destruct (idx b i1) as [i2|]; cbn [bind]; [|reflexivity].
    destruct (idx_set c v i2) as [i2'|]; cbn [bind]; reflexivity.
Qed.

Lemma delitem_ndel : forall key s,
  delitem key s = match keytransform key with Ok ps => ndel ps s | Err e => Err e end.
Proof.
  intros key s. unfold delitem. destruct (keytransform key) as [ps|e] eqn:E; [|reflexivity].
  apply keytransform_ok in E. destruct E as (_ & Hne & Hlen).
  destruct ps as [|a [|b [|c [|d r]]]]; cbn [List.length] in Hlen; try contradiction; try lia.
  - reflexivity.
  - reflexivity.
  - cbn [ndel]. destruct (idx a s) as [i1|]; cbn [bind]; [|reflexivity].
    destruct (idx b i1) as [i2|]; cbn [bind]; [|reflexivity].
    destruct (idx_del c i2) as [i2'|]; cbn [bind]; reflexivity.
Qed.

Lemma keytransform_plain : forall ks, plain_keys ks -> keytransform (join_slash ks) = Ok ks.
Proof.
  intros ks (Hne & Hns & Hlen). rewrite keytransform_join by assumption.
  destruct (3 <? Z.of_nat (List.length ks)) eqn:E; [apply Z.ltb_lt in E; lia | reflexivity].
Qed.

Theorem path_get_eq_nested : forall ks s, plain_keys ks -> getitem (join_slash ks) s = nget ks s.
Proof. intros ks s H. rewrite getitem_nget, (keytransform_plain ks H). reflexivity. Qed.

Theorem path_set_eq_nested : forall ks v s, plain_keys ks -> setitem (join_slash ks) v s = nset ks v s.
Proof. intros ks v s H. rewrite setitem_nset, (keytransform_plain ks H). reflexivity. Qed.

Theorem path_del_eq_nested : forall ks s, plain_keys ks -> delitem (join_slash ks) s = ndel ks s.
Proof. intros ks s H. rewrite delitem_ndel, (keytransform_plain ks H). reflexivity. Qed.

(* every key string names exactly one list of plain keys, and a key of more than three parts is refused
   by all three methods without touching anything *)
Theorem path_names_one_entry : forall key,
  join_slash (split_slash key) = key /\ forallb no_slash (split_slash key) = true /\ split_slash key <> [].
Proof. intros key. split; [apply join_split|]. split; [apply split_parts_noslash | apply split_slash_nonempty]. Qed.

Theorem path_too_deep : forall ks v s, forallb no_slash ks = true -> (3 < List.length ks)%nat ->
  getitem (join_slash ks) s = Err ETooDeep /\ setitem (join_slash ks) v s = Err ETooDeep
  /\ delitem (join_slash ks) s = Err ETooDeep.
Proof.
  intros ks v s Hns Hlen.
  assert (Hne : ks <> []) by (destruct ks; [cbn in Hlen; lia | discriminate]).
  assert (Hk : keytransform (join_slash ks) = Err ETooDeep).
  { rewrite keytransform_join by assumption.
    destruct (3 <? Z.of_nat (List.length ks)) eqn:E; [reflexivity | apply Z.ltb_ge in E; lia]. }
  rewrite getitem_nget, setitem_nset, delitem_ndel, Hk. repeat split; reflexivity.
Qed.

(* ------------------------------------------------------------------ writes and deletes, nested form *)
Lemma nset_shape : forall k r v t t', nset (k :: r) v t = Ok t' ->
  exists kids X, t = Node kids /\ t' = Node (aset k X kids) /\
    ((r = [] /\ X = v) \/ (r <> [] /\ exists c, aget k kids = Some c /\ nset r v c = Ok X)).
Proof.
  intros k r v t t' H. destruct r as [|k2 r'].
  - cbn [nset] in H. destruct t as [x|kids]; cbn [idx_set] in H; [discriminate|].
    injection H as <-. exists kids, v. repeat split. left. split; reflexivity.
  - change (nset (k :: k2 :: r') v t)
      with (bind (idx k t) (fun c => bind (nset (k2 :: r') v c) (fun c' => idx_set k c' t))) in H.
    destruct t as [x|kids]; cbn [idx bind] in H; [discriminate|].
    destruct (aget k kids) as [c|] eqn:Ec; cbn [bind] in H; [|discriminate].
    destruct (nset (k2 :: r') v c) as [X|] eqn:En; cbn [bind idx_set] in H; [|discriminate].
    injection H as <-. exists kids, X. repeat split. right. split; [discriminate|].
    exists c. split; [exact Ec | exact En].
Qed.

Lemma ndel_shape : forall k r t t', ndel (k :: r) t = Ok t' ->
  exists kids, t = Node kids /\
    ((r = [] /\ amem k kids = true /\ t' = Node (adel k kids)) \/
     (r <> [] /\ exists c X, aget k kids = Some c /\ ndel r c = Ok X /\ t' = Node (aset k X kids))).
Proof.
  intros k r t t' H. destruct r as [|k2 r'].
  - cbn [ndel] in H. destruct t as [x|kids]; cbn [idx_del] in H; [discriminate|].
    destruct (amem k kids) eqn:Em; [|discriminate]. injection H as <-.
    exists kids. split; [reflexivity|]. left. split; [reflexivity|]. split; [exact Em | reflexivity].
  - change (ndel (k :: k2 :: r') t)
      with (bind (idx k t) (fun c => bind (ndel (k2 :: r') c) (fun c' => idx_set k c' t))) in H.
    destruct t as [x|kids]; cbn [idx bind] in H; [discriminate|].
    destruct (aget k kids) as [c|] eqn:Ec; cbn [bind] in H; [|discriminate].
    destruct (ndel (k2 :: r') c) as [X|] eqn:En; cbn [bind idx_set] in H; [|discriminate].
    injection H as <-. exists kids. split; [reflexivity|]. right. split; [discriminate|].
    exists c, X. split; [exact Ec|]. split; [exact En | reflexivity].
Qed.

Lemma nget_cons_node : forall k r kids, nget (k :: r) (Node kids) =
  match aget k kids with Some c => nget r c | None => Err EKey end.
Proof. intros k r kids. cbn [nget idx]. destruct (aget k kids); reflexivity. Qed.

Theorem nset_get_same : forall ks v t t', nset ks v t = Ok t' -> nget ks t' = Ok v.
Proof.
  induction ks as [|k r IH]; intros v t t' H; [discriminate|].
  destruct (nset_shape _ _ _ _ _ H) as (kids & X & -> & -> & [[-> ->] | [Hne (c & Hc & Hn)]]).
  - rewrite nget_cons_node, aget_aset_same. reflexivity.
  - rewrite nget_cons_node, aget_aset_same. exact (IH _ _ _ Hn).
Qed.

Lemma diverge_nil_l : forall ks', diverge [] ks' = false.
Proof. intros ks'. reflexivity. Qed.

Theorem nset_get_other : forall ks ks' v t t',
  diverge ks ks' = true -> nset ks v t = Ok t' -> nget ks' t' = nget ks' t.
Proof.
  induction ks as [|k r IH]; intros ks' v t t' Hd H; [discriminate|].
  destruct ks' as [|k' r']; [discriminate|].
  destruct (nset_shape _ _ _ _ _ H) as (kids & X & -> & -> & Hcase).
  cbn [diverge] in Hd. rewrite !nget_cons_node.
  destruct (String.eqb k k') eqn:E.
  - apply String.eqb_eq in E. subst k'. rewrite aget_aset_same.
    destruct Hcase as [[-> _] | [Hne (c & Hc & Hn)]]; [discriminate|].
    rewrite Hc. exact (IH _ _ _ _ Hd Hn).
  - rewrite aget_aset_other; [reflexivity|]. rewrite String.eqb_sym. exact E.
Qed.

Theorem ndel_get_same : forall ks t t', ndel ks t = Ok t' -> nget ks t' = Err EKey.
Proof.
  induction ks as [|k r IH]; intros t t' H; [discriminate|].
  destruct (ndel_shape _ _ _ _ H) as (kids & -> & [(-> & Hm & ->) | (Hne & c & X & Hc & Hn & ->)]).
  - rewrite nget_cons_node, aget_adel_same. reflexivity.
  - rewrite nget_cons_node, aget_aset_same. exact (IH _ _ Hn).
Qed.

Theorem ndel_get_other : forall ks ks' t t',
  diverge ks ks' = true -> ndel ks t = Ok t' -> nget ks' t' = nget ks' t.
Proof.
  induction ks as [|k r IH]; intros ks' t t' Hd H; [discriminate|].
  destruct ks' as [|k' r']; [discriminate|].
  destruct (ndel_shape _ _ _ _ H) as (kids & -> & Hcase).
  cbn [diverge] in Hd.
  destruct (String.eqb k k') eqn:E.
  - apply String.eqb_eq in E. subst k'.
    destruct Hcase as [(-> & _ & _) | (Hne & c & X & Hc & Hn & ->)]; [discriminate Hd|].
    rewrite !nget_cons_node. rewrite aget_aset_same, Hc. exact (IH _ _ _ Hd Hn).
  - assert (E' : String.eqb k' k = false) by (rewrite String.eqb_sym; exact E).
    destruct Hcase as [(-> & _ & ->) | (Hne & c & X & Hc & Hn & ->)]; rewrite !nget_cons_node.
    + rewrite aget_adel_other by exact E'. reflexivity.
    + rewrite aget_aset_other by exact E'. reflexivity.
Qed.

(* a delete succeeds exactly when the entry is there; a write exactly when its parent is a dict *)
Theorem ndel_ok_iff : forall ks t, ks <> [] ->
  ((exists t', ndel ks t = Ok t') <-> (exists x, nget ks t = Ok x)).
Proof.
  induction ks as [|k r IH]; intros t Hne; [contradiction|].
  destruct r as [|k2 r'].
  - cbn [ndel nget]. destruct t as [x|kids]; cbn [idx_del idx bind].
    + split; intros [y Hy]; discriminate.
    + unfold amem. destruct (aget k kids) as [c|]; cbn [bind].
      * split; intros _; eexists; reflexivity.
      * split; intros [y Hy]; discriminate.
  - change (ndel (k :: k2 :: r') t)
      with (bind (idx k t) (fun c => bind (ndel (k2 :: r') c) (fun c' => idx_set k c' t))).
    change (nget (k :: k2 :: r') t) with (bind (idx k t) (nget (k2 :: r'))).
    destruct t as [x|kids]; cbn [idx bind].
    + split; intros [y Hy]; discriminate.
    + destruct (aget k kids) as [c|]; cbn [bind].
      * specialize (IH c ltac:(discriminate)). split.
        -- intros [t' Ht']. apply IH. destruct (ndel (k2 :: r') c) as [X|]; [eexists; reflexivity | discriminate].
        -- intros Hx. apply IH in Hx. destruct Hx as [X HX]. rewrite HX. cbn [bind idx_set]. eexists; reflexivity.
      * split; intros [y Hy]; discriminate.
Qed.

Theorem nset_ok_iff : forall ks v t, ks <> [] ->
  ((exists t', nset ks v t = Ok t') <-> (exists kids, nget (removelast ks) t = Ok (Node kids))).
Proof.
  induction ks as [|k r IH]; intros v t Hne; [contradiction|].
  destruct r as [|k2 r'].
  - cbn [nset removelast nget]. destruct t as [x|kids]; cbn [idx_set].
    + split; intros [y Hy]; discriminate.
    + split; intros _; eexists; reflexivity.
  - change (nset (k :: k2 :: r') v t)
      with (bind (idx k t) (fun c => bind (nset (k2 :: r') v c) (fun c' => idx_set k c' t))).
    change (removelast (k :: k2 :: r')) with (k :: removelast (k2 :: r')).
    change (nget (k :: removelast (k2 :: r')) t) with (bind (idx k t) (nget (removelast (k2 :: r')))).
    destruct t as [x|kids]; cbn [idx bind].
    + split; intros [y Hy]; discriminate.
    + destruct (aget k kids) as [c|]; cbn [bind].
      * specialize (IH v c ltac:(discriminate)). split.
        -- intros [t' Ht']. apply IH. destruct (nset (k2 :: r') v c) as [X|]; [eexists; reflexivity | discriminate].
        -- intros Hx. apply IH in Hx. destruct Hx as [X HX]. rewrite HX. cbn [bind idx_set]. eexists; reflexivity.
      * split; intros [y Hy]; discriminate.
Qed.

(* ------------------------------------------------------------------ the same, for key paths *)
Theorem set_get_same : forall key v s s', setitem key v s = Ok s' -> getitem key s' = Ok v.
Proof.
  intros key v s s' H. rewrite setitem_nset in H. rewrite getitem_nget.
  destruct (keytransform key) as [ps|e]; [|discriminate]. exact (nset_get_same _ _ _ _ H).
Qed.

Theorem set_get_other : forall key key' ps ps' v s s',
  keytransform key = Ok ps -> keytransform key' = Ok ps' -> diverge ps ps' = true ->
  setitem key v s = Ok s' -> getitem key' s' = getitem key' s.
Proof.
  intros key key' ps ps' v s s' Hk Hk' Hd H. rewrite setitem_nset, Hk in H.
  rewrite !getitem_nget, Hk'. exact (nset_get_other _ _ _ _ _ Hd H).
Qed.

Theorem del_get_same : forall key s s', delitem key s = Ok s' -> getitem key s' = Err EKey.
Proof.
  intros key s s' H. rewrite delitem_ndel in H. rewrite getitem_nget.
  destruct (keytransform key) as [ps|e]; [|discriminate]. exact (ndel_get_same _ _ _ H).
Qed.

Theorem del_get_other : forall key key' ps ps' s s',
  keytransform key = Ok ps -> keytransform key' = Ok ps' -> diverge ps ps' = true ->
  delitem key s = Ok s' -> getitem key' s' = getitem key' s.
Proof.
  intros key key' ps ps' s s' Hk Hk' Hd H. rewrite delitem_ndel, Hk in H.
  rewrite !getitem_nget, Hk'. exact (ndel_get_other _ _ _ _ Hd H).
Qed.

Theorem del_ok_iff_present : forall key s,
  (exists s', delitem key s = Ok s') <-> (exists x, getitem key s = Ok x).
Proof.
  intros key s. rewrite delitem_ndel, getitem_nget.
  destruct (keytransform key) as [ps|e] eqn:E.
  - apply ndel_ok_iff. apply keytransform_ok in E. tauto.
  - split; intros [y Hy]; discriminate.
Qed.

(* ------------------------------------------------------------------ preparing for YAML *)
Lemma list_sim_refl : forall (f : val -> val -> bool) l,
  Forall (fun x => f x x = true) l -> list_sim f l l = true.
Proof.
  intros f l H. induction H as [|x l Hx Hl IH]; [reflexivity|].
  cbn [list_sim]. rewrite Hx. exact IH.
Qed.

Lemma val_sim_refl : forall v, val_sim v v = true.
Proof.
  induction v as [| b | z | r | s | l IH | l IH | l IH] using val_ind'; cbn [val_sim];
    try reflexivity.
  - destruct b; reflexivity.
  - apply Z.eqb_refl.
  - apply String.eqb_refl.
  - apply String.eqb_refl.
  - apply list_sim_refl; exact IH.
  - apply list_sim_refl; exact IH.
  - apply list_sim_refl; exact IH.
Qed.

Lemma list_sim_map : forall (g : val -> val) l,
  Forall (fun x => val_sim x (g x) = true) l -> list_sim val_sim l (map g l) = true.
Proof.
  intros g l H. induction H as [|x l Hx Hl IH]; [reflexivity|].
  cbn [map list_sim]. rewrite Hx. exact IH.
Qed.

Lemma val_sim_tolist : forall v, val_sim v (tolist v) = true.
Proof.
  induction v as [| b | z | r | s | l IH | l IH | l IH] using val_ind';
    try apply val_sim_refl.
  cbn [tolist val_sim]. apply list_sim_map. exact IH.
Qed.

Lemma val_sim_listify : forall v, val_sim v (listify_val v) = true.
Proof.
  intros v. destruct v; try apply val_sim_refl.
  - cbn [listify_val val_sim]. apply list_sim_refl. apply Forall_forall. intros x _. apply val_sim_refl.
  - cbn [listify_val val_sim]. apply list_sim_map. apply Forall_forall. intros x _. apply val_sim_tolist.
Qed.

Lemma kids_sim_map : forall (g : tree -> tree) kids,
  Forall (fun kt => tree_sim (snd kt) (g (snd kt)) = true) kids ->
  kids_sim tree_sim kids (map (fun kt => match kt with (k, c) => (k, g c) end) kids) = true.
Proof.
  intros g kids H. induction H as [|[k c] l Hx Hl IH]; [reflexivity|].
  cbn [map kids_sim]. cbn [snd] in Hx. rewrite String.eqb_refl, Hx. exact IH.
Qed.

(* same keys in the same order, same values up to the kind of a sequence *)
Theorem listify_same_options : forall t, tree_sim t (listify t) = true.
Proof.
  induction t as [v | kids IH] using tree_ind'.
  - cbn [listify tree_sim]. apply val_sim_listify.
  - cbn [listify tree_sim]. apply kids_sim_map. exact IH.
Qed.

Lemma tolist_plain : forall v, arr_ok v = true -> val_plain (tolist v) = true.
Proof.
  induction v as [| b | z | r | s | l IH | l IH | l IH] using val_ind'; intros H;
    try reflexivity; try discriminate.
  cbn [arr_ok] in H. cbn [tolist val_plain].
  induction IH as [|x l Hx Hl IHl]; [reflexivity|].
  cbn [forallb] in H. apply andb_true_iff in H. destruct H as [H1 H2].
  cbn [map forallb]. rewrite (Hx H1). exact (IHl H2).
Qed.

Lemma listify_val_plain : forall v, val_exportable v = true -> val_plain (listify_val v) = true.
Proof.
  intros v H. destruct v; try exact H.
  cbn [val_exportable] in H. cbn [listify_val val_plain].
  induction l as [|x l IH]; [reflexivity|].
  cbn [forallb] in H. apply andb_true_iff in H. destruct H as [H1 H2].
  cbn [map forallb]. rewrite (tolist_plain x H1). exact (IH H2).
Qed.

Theorem listify_plain : forall t, tree_exportable t = true -> tree_plain (listify t) = true.
Proof.
  induction t as [v | kids IH] using tree_ind'; intros H.
  - cbn [listify tree_plain]. apply listify_val_plain. exact H.
  - cbn [tree_exportable] in H. cbn [listify tree_plain].
    induction IH as [|[k c] l Hx Hl IHl]; [reflexivity|].
    cbn [forallb] in H. apply andb_true_iff in H. destruct H as [H1 H2].
    cbn [map forallb]. cbn [snd] in Hx. rewrite (Hx H1). exact (IHl H2).
Qed.

Lemma tolist_idem : forall v, tolist (tolist v) = tolist v.
Proof. intros v. destruct v; reflexivity. Qed.

Lemma listify_val_idem : forall v, listify_val (listify_val v) = listify_val v.
Proof. intros v. destruct v; reflexivity. Qed.

Theorem listify_idem : forall t, listify (listify t) = listify t.
Proof.
  induction t as [v | kids IH] using tree_ind'.
  - cbn [listify]. rewrite listify_val_idem. reflexivity.
  - cbn [listify]. f_equal. rewrite map_map.
    induction IH as [|[k c] l Hx Hl IHl]; [reflexivity|].
    cbn [map]. cbn [snd] in Hx. rewrite Hx, IHl. reflexivity.
Qed.

Lemma listify_node : forall kids,
  listify (Node kids) = Node (map (fun kt => match kt with (k, c) => (k, listify c) end) kids).
Proof. reflexivity. Qed.

(* exporting rewrites the live configuration below the first level, but only in the kind of sequences,
   and a second export writes the same documents *)
Theorem export_keeps_options : forall s,
  tree_sim s (store_after_export s) = true /\ listify (store_after_export s) = listify s.
Proof.
  intros [v | kids]; cbn [store_after_export].
  - split; [cbn [tree_sim]; apply val_sim_refl | reflexivity].
  - split.
    + cbn [tree_sim]. induction kids as [|[k [v|g]] l IH]; [reflexivity| |].
      * cbn [map kids_sim tree_sim]. rewrite String.eqb_refl, val_sim_refl. exact IH.
      * cbn [map kids_sim]. rewrite String.eqb_refl, (listify_same_options (Node g)). exact IH.
    + rewrite !listify_node. f_equal. rewrite map_map.
      induction kids as [|[k c] l IH]; [reflexivity|].
      rewrite !map_cons. rewrite IH. f_equal.
      destruct c as [v|g]; [reflexivity|].
      cbv beta iota. rewrite listify_idem. reflexivity.
Qed.

(* ------------------------------------------------------------------ YAML round trips *)
Lemma yamlsafe_plain : forall c, tree_exportable (cstore c) = true ->
  forallb tree_plain (yamlsafe c) = true.
Proof.
  intros c H. unfold yamlsafe. cbn [forallb]. rewrite (listify_plain _ H). reflexivity.
Qed.

Lemma idx_type_doc : forall c, idx "sift_type" (type_doc c) = Ok (Leaf (VStr (ctype c))).
Proof. intros c. reflexivity. Qed.

Section YamlFacts.
  Variable ytext : Type.
  Variable dump : ydoc -> ytext.
  Variable dump_all : list ydoc -> ytext.
  Variable load : ytext -> option ydoc.
  Variable load_all : ytext -> list ydoc.
  (* the contract of PyYAML (dump / FullLoader) on documents free of ndarrays *)
  Hypothesis load_dump : forall d, doc_plain d = true -> load (dump d) = Some d.
  Hypothesis load_all_dump_all : forall ds, forallb doc_plain ds = true -> load_all (dump_all ds) = ds.

  Theorem yaml_file_roundtrip : forall c, tree_exportable (cstore c) = true ->
    from_yaml_file ytext load_all (to_yaml_file ytext dump_all c) = roundtrip_spec c.
  Proof.
    intros c H. unfold from_yaml_file, to_yaml_file.
    rewrite load_all_dump_all.
    - unfold yamlsafe. cbn [map doc_tree]. rewrite idx_type_doc. reflexivity.
    - pose proof (yamlsafe_plain c H) as Hp. unfold yamlsafe in *. cbn [map forallb doc_plain] in *. exact Hp.
  Qed.

  Theorem yaml_text_roundtrip : forall c, tree_exportable (cstore c) = true ->
    from_yaml_stream ytext load (to_yaml_text ytext dump c) = roundtrip_spec c.
  Proof.
    intros c H. unfold from_yaml_stream, to_yaml_text.
    rewrite load_dump.
    - unfold yamlsafe, split_pair. rewrite idx_type_doc. reflexivity.
    - cbn [doc_plain]. exact (yamlsafe_plain c H).
  Qed.

  (* the code before the repair: the pair itself becomes the store, the type is the constructor default *)
  Theorem yaml_text_v0_installs_list : forall c, tree_exportable (cstore c) = true ->
    from_yaml_stream_v0 ytext load (to_yaml_text ytext dump c)
    = Ok (Leaf (VStr DEFAULT_NAME), DSeq [type_doc c; listify (cstore c)]).
  Proof.
    intros c H. unfold from_yaml_stream_v0, to_yaml_text.
    rewrite load_dump; [reflexivity|]. cbn [doc_plain]. exact (yamlsafe_plain c H).
  Qed.

  Theorem yaml_text_roundtrip_v0_never : forall c, tree_exportable (cstore c) = true ->
    from_yaml_stream_v0 ytext load (to_yaml_text ytext dump c) <> roundtrip_spec c.
  Proof.
    intros c H. rewrite (yaml_text_v0_installs_list c H). unfold roundtrip_spec. intros E. discriminate E.
  Qed.
End YamlFacts.

(* the contract is satisfiable: the model's own evaluation instance meets it *)
Theorem yaml_contract_inhabited :
  (forall d, loadI (dumpI d) = Some d) /\ (forall ds, load_allI (dump_allI ds) = ds).
Proof. split; reflexivity. Qed.

Definition witness_config : config :=
  {| ctype := "mask_sift";
     cstore := Node [("max_imfs"%string, Leaf (VInt 3));
                     ("imf_opts"%string, Node [("rilling_thresh"%string,
                                                Leaf (VTuple [VFloat "0.05"; VFloat "0.5"; VFloat "0.05"]))])] |}.

Theorem yaml_text_roundtrip_v0_refuted : exists c,
  tree_exportable (cstore c) = true /\ text_roundtrip_v0 c <> roundtrip_spec c.
Proof.
  exists witness_config. split; [vm_compute; reflexivity|].
  vm_compute. intros E. discriminate E.
Qed.

Definition witness_none_stage : config :=
  {| ctype := "sift";
     cstore := Node [("max_imfs"%string, Leaf (VInt 3)); ("extrema_opts"%string, Leaf VNone)] |}.

Theorem yaml_file_roundtrip_v0_refuted : exists c,
  tree_exportable (cstore c) = true /\ file_roundtrip c = roundtrip_spec c
  /\ file_roundtrip_v0 c <> roundtrip_spec c.
Proof.
  exists witness_none_stage. split; [vm_compute; reflexivity|].
  split; [vm_compute; reflexivity|]. vm_compute. intros E. discriminate E.
Qed.

Theorem yaml_roundtrips_instance : forall c, tree_exportable (cstore c) = true ->
  file_roundtrip c = roundtrip_spec c /\ text_roundtrip c = roundtrip_spec c.
Proof.
  intros c H. split.
  - apply (yaml_file_roundtrip (list ydoc) dump_allI load_allI); [intros; reflexivity | exact H].
  - apply (yaml_text_roundtrip (list ydoc) dumpI loadI); [intros; reflexivity | exact H].
Qed.

(* ------------------------------------------------------------------ defaults (over the generated tables) *)
Definition eff (variant : string) (opts : tree) : list (string * tree) :=
  effective_options sig_defaults fallbacks variant opts.

Definition NO_OPTIONS : tree := Node [].

Theorem default_config_faithful : forall v t, In (v, t) config_trees ->
  eff v t = eff v NO_OPTIONS /\ keys_accepted sig_defaults v t = true.
Proof.
  intros v t H. unfold config_trees in H. cbn [In] in H.
  repeat (destruct H as [H|H]; [injection H as <- <-; split; vm_compute; reflexivity|]).
  contradiction.
Qed.

Theorem default_config_exportable : forall v t, In (v, t) config_trees -> tree_exportable t = true.
Proof.
  intros v t H. unfold config_trees in H. cbn [In] in H.
  repeat (destruct H as [H|H]; [injection H as <- <-; vm_compute; reflexivity|]).
  contradiction.
Qed.

(* non-vacuity of the defaults theorem: the classic sift is configured, its default call resolves
   stage options through every fall-back, and the generated tables cover all four stages *)
Theorem defaults_nonvacuous :
  (exists t, In ("sift"%string, t) config_trees)
  /\ (exists t, lookup "imf_opts/sd_thresh" (eff "sift" NO_OPTIONS) = Some (Leaf (VFloat t)))
  /\ (exists g, lookup "extrema_opts/mag_pad_opts" (eff "mask_sift" NO_OPTIONS) = Some (Node g) /\ g <> [])
  /\ (10 <= List.length (eff "sift" NO_OPTIONS))%nat.
Proof.
  split; [eexists; unfold config_trees; left; reflexivity|].
  split; [eexists; vm_compute; reflexivity|].
  split; [eexists; split; [vm_compute; reflexivity | discriminate]|].
  vm_compute. repeat constructor.
Qed.

(* non-vacuity of the addressing theorems: a three-level write, read, delete on a real default tree *)
Example c18_premises_hold :
  plain_keys ["extrema_opts"; "mag_pad_opts"; "stat_length"]%string
  /\ (exists t s', In ("sift"%string, t) config_trees
        /\ setitem "extrema_opts/mag_pad_opts/stat_length" (Leaf (VInt 3)) t = Ok s'
        /\ getitem "extrema_opts/mag_pad_opts/stat_length" s' = Ok (Leaf (VInt 3))
        /\ getitem "extrema_opts/mag_pad_opts/mode" s' = Ok (Leaf (VStr "median"))
        /\ (exists s'', delitem "extrema_opts/mag_pad_opts/stat_length" s' = Ok s''
              /\ getitem "extrema_opts/mag_pad_opts/stat_length" s'' = Err EKey)
        /\ diverge ["extrema_opts"; "mag_pad_opts"; "stat_length"]%string ["extrema_opts"; "mag_pad_opts"; "mode"]%string = true
        /\ tree_exportable t = true
        /\ listify t <> t).
Proof.
  split; [split; [discriminate | split; [vm_compute; reflexivity | cbn; lia]]|].
  eexists. eexists. split; [unfold config_trees; left; reflexivity|].
  split; [vm_compute; reflexivity|].
  split; [vm_compute; reflexivity|].
  split; [vm_compute; reflexivity|].
  split; [eexists; split; vm_compute; reflexivity|].
  split; [vm_compute; reflexivity|].
  split; [vm_compute; reflexivity|].
  vm_compute. intros E. discriminate E.
Qed.
