(* Lemmas about the array-layout validation model (property C19). *)
From Coq Require Import ZArith List Bool Arith Lia.
From EmdV Require Import model.Shapes.
Import ListNotations.
Local Open Scope nat_scope.

(* ---- small facts ------------------------------------------------------------------------- *)
Lemma all_ones_repeat : forall k, all_ones (repeat 1 k) = true.
Proof. induction k as [|k IH]; [reflexivity|]. unfold all_ones in *. cbn [repeat forallb]. rewrite IH. reflexivity. Qed.

Lemma all_ones_true : forall t, all_ones t = true -> t = repeat 1 (length t).
Proof.
  induction t as [|a t IH]; intros H; [reflexivity|].
  unfold all_ones in *. cbn [forallb] in H. apply andb_true_iff in H. destruct H as [Ha Ht].
  apply Nat.eqb_eq in Ha. subst a. cbn [length repeat]. f_equal. apply IH. exact Ht.
Qed.

Lemma squeeze_ones : forall k, squeeze (repeat 1 k) = [].
Proof. induction k as [|k IH]; [reflexivity|]. unfold squeeze in *. cbn [repeat filter Nat.eqb negb]. exact IH. Qed.

Lemma shape_size_ones : forall k, shape_size (repeat 1 k) = 1.
Proof. induction k as [|k IH]; [reflexivity|]. unfold shape_size in *. cbn [repeat fold_right]. rewrite IH. reflexivity. Qed.

Lemma shape_size_cons : forall n t, shape_size (n :: t) = n * shape_size t.
Proof. reflexivity. Qed.

Lemma repeat_length_eq : forall k, length (repeat 1 k) = k.
Proof. intros k. apply repeat_length. Qed.

Lemma map_result_idempotent : forall A (f : A -> result A) l l',
  (forall s s', f s = Ok s' -> f s' = Ok s') -> map_result f l = Ok l' -> map_result f l' = Ok l'.
Proof.
  intros A f l. induction l as [|a t IH]; intros l' Hf H.
  - cbn [map_result] in H. inversion H. reflexivity.
  - cbn [map_result] in H. destruct (f a) as [b|e] eqn:Fa; [|discriminate].
    destruct (map_result f t) as [bs|e] eqn:Ft; [|discriminate]. inversion H. subst l'.
    cbn [map_result]. rewrite (Hf a b Fa). rewrite (IH bs Hf eq_refl). reflexivity.
Qed.

(* ---- ensure_1d_with_singleton: complete case analysis ------------------------------------- *)
Lemma e1d_vector : forall n, e1d_one [n] = Ok [n; 1].
Proof. reflexivity. Qed.

Lemma e1d_column : forall n, e1d_one [n; 1] = Ok [n; 1].
Proof. reflexivity. Qed.

Lemma e1d_two_dim : forall n m, m <> 1 -> e1d_one [n; m] = Err ValueErr.
Proof.
  intros n m Hm. unfold e1d_one. cbn [length tl nth Nat.ltb Nat.leb Nat.eqb andb].
  destruct (m =? 1) eqn:E; [apply Nat.eqb_eq in E; contradiction|]. reflexivity.
Qed.

Lemma e1d_trailing_ones : forall n k, n <> 1 -> e1d_one (n :: repeat 1 (S (S k))) = Ok [n; 1].
Proof.
  intros n k Hn. unfold e1d_one.
  cbn [length tl repeat]. rewrite repeat_length_eq.
  replace (2 <? S (S (S k))) with true by (symmetry; apply Nat.ltb_lt; lia).
  change (1 :: 1 :: repeat 1 k) with (repeat 1 (S (S k))). rewrite all_ones_repeat. cbn [andb].
  change (squeeze (n :: repeat 1 (S (S k)))) with
    (if negb (n =? 1) then n :: squeeze (repeat 1 (S (S k))) else squeeze (repeat 1 (S (S k)))).
  destruct (n =? 1) eqn:E; [apply Nat.eqb_eq in E; contradiction|].
  cbn [negb]. rewrite squeeze_ones. reflexivity.
Qed.

(* one sample, rank >= 3: np.squeeze removes the sample axis too and [:, np.newaxis] fails *)
Lemma e1d_one_sample_corner : forall k, e1d_one (1 :: repeat 1 (S (S k))) = Err IndexErr.
Proof.
  intros k. unfold e1d_one.
  cbn [length tl repeat]. rewrite repeat_length_eq.
  replace (2 <? S (S (S k))) with true by (symmetry; apply Nat.ltb_lt; lia).
  change (1 :: 1 :: repeat 1 k) with (repeat 1 (S (S k))). rewrite all_ones_repeat. cbn [andb].
  change (squeeze (1 :: repeat 1 (S (S k)))) with (squeeze (repeat 1 (S (S (S k))))).
  rewrite squeeze_ones. reflexivity.
Qed.

Lemma e1d_trailing_not_ones : forall n m t, t <> [] -> all_ones (m :: t) = false -> e1d_one (n :: m :: t) = Err ValueErr.
Proof.
  intros n m t Ht Hao. unfold e1d_one. cbn [length tl].
  destruct t as [|c t]; [contradiction|]. cbn [length].
  replace (2 <? S (S (S (length t)))) with true by (symmetry; apply Nat.ltb_lt; lia).
  rewrite Hao. reflexivity.
Qed.

Theorem singleton_layouts_normalise : forall n k,
  n <> 1 \/ k <= 1 -> e1d_one (n :: repeat 1 k) = Ok [n; 1].
Proof.
  intros n k H. destruct k as [|[|k]].
  - apply e1d_vector.
  - apply e1d_column.
  - destruct H as [H|H]; [|lia]. apply e1d_trailing_ones. exact H.
Qed.

Lemma not_layout_two : forall n m, (forall n' k, [n; m] <> n' :: repeat 1 k) -> m <> 1.
Proof. intros n m H ->. apply (H n 1). reflexivity. Qed.

Theorem multi_column_rejected : forall s,
  s <> [] -> ~ single_signal_layout s -> e1d_one s = Err ValueErr.
Proof.
  intros s Hne Hnl.
  assert (H : forall n k, s <> n :: repeat 1 k).
  { intros n k E. apply Hnl. exists n, k. exact E. }
  destruct s as [|n [|m t]].
  - contradiction.
  - exfalso. apply (H n 0). reflexivity.
  - destruct t as [|c t].
    + apply e1d_two_dim. apply (not_layout_two n m). exact H.
    + apply e1d_trailing_not_ones; [discriminate|].
      destruct (all_ones (m :: c :: t)) eqn:E; [|reflexivity].
      exfalso. apply all_ones_true in E. apply (H n (length (m :: c :: t))). rewrite <- E. reflexivity.
Qed.

(* the complete input/output relation of the normaliser *)
Theorem e1d_accepts_iff : forall s s',
  e1d_one s = Ok s' <->
  (s = [] /\ s' = []) \/
  (exists n k, s = n :: repeat 1 k /\ (n <> 1 \/ k <= 1) /\ s' = [n; 1]).
Proof.
  intros s s'. split.
  - intros H. destruct s as [|n t].
    + left. cbv in H. inversion H. auto.
    + right. destruct (all_ones t) eqn:E.
      * apply all_ones_true in E. remember (length t) as k eqn:Hk. clear Hk. subst t.
        exists n, k. split; [reflexivity|].
        destruct (Nat.eq_dec n 1) as [->|Hn].
        -- destruct k as [|[|k]].
           ++ split; [right; lia|]. cbn [repeat] in H. rewrite e1d_vector in H. inversion H. reflexivity.
           ++ split; [right; lia|]. cbn [repeat] in H. rewrite e1d_column in H. inversion H. reflexivity.
           ++ exfalso. rewrite e1d_one_sample_corner in H. discriminate.
        -- split; [left; exact Hn|]. rewrite singleton_layouts_normalise in H by (left; exact Hn).
           inversion H. reflexivity.
      * exfalso. rewrite multi_column_rejected in H; [discriminate|discriminate|].
        intros [n' [k Hs]]. inversion Hs. subst. rewrite all_ones_repeat in E. discriminate.
  - intros [[-> ->]|[n [k [-> [Hg ->]]]]]; [reflexivity|]. apply singleton_layouts_normalise. exact Hg.
Qed.

Theorem e1d_idempotent : forall s s', e1d_one s = Ok s' -> e1d_one s' = Ok s'.
Proof.
  intros s s' H. apply e1d_accepts_iff in H. destruct H as [[_ ->]|[n [k [_ [_ ->]]]]]; reflexivity.
Qed.

(* nothing is dropped or duplicated: same first axis, same number of elements *)
Theorem e1d_preserves_samples : forall s s',
  s <> [] -> e1d_one s = Ok s' -> s' = [hd 0 s; 1] /\ shape_size s' = shape_size s.
Proof.
  intros s s' Hne H. apply e1d_accepts_iff in H. destruct H as [[-> _]|[n [k [-> [_ ->]]]]]; [contradiction|].
  split; [reflexivity|]. rewrite !shape_size_cons, shape_size_ones. cbn [shape_size fold_right]. lia.
Qed.

(* the code before the repair lets every 2-d array through unchanged *)
Theorem multi_column_rejected_v0_refuted : exists s,
  s <> [] /\ ~ single_signal_layout s /\ e1d_one_v0 s = Ok s.
Proof.
  exists [5; 2]. split; [discriminate|]. split; [|reflexivity].
  intros [n [k H]]. inversion H as [[Hn Hk]]. destruct k as [|k]; [discriminate|]. cbn [repeat] in Hk. discriminate.
Qed.

Theorem row_vector_accepted_v0 : forall n, e1d_one_v0 [1; n] = Ok [1; n].
Proof. reflexivity. Qed.

(* the repair changes nothing else: the two versions agree off rank 2 and on columns *)
Theorem e1d_v0_agrees : forall s, (length s <> 2 \/ nth 1 s 0 = 1) -> e1d_one_v0 s = e1d_one s.
Proof.
  intros s H. unfold e1d_one, e1d_one_v0.
  destruct ((2 <? length s) && all_ones (tl s)); [reflexivity|].
  destruct (2 <? length s); [reflexivity|].
  destruct H as [H|H].
  - replace (length s =? 2) with false by (symmetry; apply Nat.eqb_neq; exact H). reflexivity.
  - rewrite H. cbn [Nat.eqb negb]. rewrite andb_false_r. reflexivity.
Qed.

(* ---- ensure_vector ------------------------------------------------------------------------ *)
Theorem ev_spec : forall s,
  ev_one s = match s with
             | [] => Ok []
             | [n] => Ok [n]
             | [n; 1] => Ok [n]
             | _ => Err ValueErr
             end.
Proof.
  intros s. destruct s as [|n [|m [|c t]]]; [reflexivity|reflexivity| |].
  - unfold ev_one. cbn [length nth Nat.ltb Nat.leb andb]. destruct m as [|[|m]]; reflexivity.
  - unfold ev_one. cbn [length].
    replace (2 <? S (S (S (length t)))) with true by (symmetry; apply Nat.ltb_lt; lia).
    destruct m as [|[|m]]; reflexivity.
Qed.

Theorem vector_layouts_normalise : forall n, ev_one [n] = Ok [n] /\ ev_one [n; 1] = Ok [n].
Proof. intros n. split; reflexivity. Qed.

(* everything else of rank >= 2 is rejected: several columns, or more than two axes *)
Theorem ev_multi_column_rejected : forall s,
  2 <= length s -> (forall n, s <> [n; 1]) -> ev_one s = Err ValueErr.
Proof.
  intros s Hl Hn. rewrite ev_spec. destruct s as [|n [|m [|c t]]]; cbn [length] in Hl; try lia.
  - destruct m as [|[|m]]; [reflexivity| |reflexivity]. elim (Hn n). reflexivity.
  - destruct m as [|[|m]]; reflexivity.
Qed.

Theorem ev_accepts_iff : forall s s',
  ev_one s = Ok s' <-> (s = [] /\ s' = []) \/ exists n, (s = [n] \/ s = [n; 1]) /\ s' = [n].
Proof.
  intros s s'. rewrite ev_spec. split.
  - intros H. destruct s as [|n [|m [|c t]]].
    + inversion H. left. auto.
    + inversion H. right. exists n. auto.
    + destruct m as [|[|m]]; try discriminate. inversion H. right. exists n. auto.
    + destruct m as [|[|m]]; discriminate.
  - intros [[-> ->]|[n [[->| ->] ->]]]; reflexivity.
Qed.

Theorem ev_result_is_vector : forall s s', s <> [] -> ev_one s = Ok s' -> s' = [hd 0 s] /\ shape_size s' = shape_size s.
Proof.
  intros s s' Hne H. apply ev_accepts_iff in H. destruct H as [[-> _]|[n [[->| ->] ->]]]; [contradiction| |];
    split; reflexivity.
Qed.

Theorem ev_idempotent : forall s s', ev_one s = Ok s' -> ev_one s' = Ok s'.
Proof.
  intros s s' H. apply ev_accepts_iff in H. destruct H as [[_ ->]|[n [_ ->]]]; reflexivity.
Qed.

Theorem ensure_vector_idempotent : forall l l', ensure_vector l = Ok l' -> ensure_vector l' = Ok l'.
Proof. intros l l'. apply map_result_idempotent. exact ev_idempotent. Qed.

(* the code before the repair: the `ndim > 2` test came last and was shadowed, so a rank-3 array with a
   singleton second axis was accepted and came back 2-d (several columns included), not as a vector *)
Theorem ev_rank3_accepted_v0 : forall n m, ev_one_v0 [n; 1; m] = Ok [n; m].
Proof. reflexivity. Qed.

Theorem ev_multi_column_rejected_v0_refuted : exists s s',
  2 <= length s /\ (forall n, s <> [n; 1]) /\ ev_one_v0 s = Ok s' /\ length s' = 2.
Proof. exists [5; 1; 2], [5; 2]. repeat split; try (cbn; lia). intros n; discriminate. Qed.

Theorem ev_v0_agrees : forall s, length s <= 2 -> ev_one_v0 s = ev_one s.
Proof.
  intros s Hl. destruct s as [|n [|m [|c t]]]; [reflexivity|reflexivity| |cbn [length] in Hl; lia].
  destruct m as [|[|m]]; reflexivity.
Qed.

(* ---- ensure_2d ---------------------------------------------------------------------------- *)
Theorem e2d_spec : forall s, e2d_one s = match s with [n] => Ok [n; 1] | _ => Ok s end.
Proof. intros s. destruct s as [|n [|m t]]; reflexivity. Qed.

Theorem e2d_vector_is_column : forall n, e2d_one [n] = Ok [n; 1] /\ e2d_one [n; 1] = Ok [n; 1].
Proof. intros n. split; reflexivity. Qed.

Theorem e2d_idempotent : forall s s', e2d_one s = Ok s' -> e2d_one s' = Ok s'.
Proof.
  intros s s' H. rewrite e2d_spec in H. destruct s as [|n [|m t]]; inversion H; reflexivity.
Qed.

Theorem e2d_preserves_size : forall s s', e2d_one s = Ok s' -> shape_size s' = shape_size s /\ hd 0 s' = hd 0 s.
Proof.
  intros s s' H. rewrite e2d_spec in H. destruct s as [|n [|m t]]; inversion H; split; reflexivity.
Qed.

Lemma e2d_total : forall s, exists s', e2d_one s = Ok s'.
Proof. intros s. rewrite e2d_spec. destruct s as [|n [|m t]]; eexists; reflexivity. Qed.

Lemma e2d_rank : forall s s', s <> [] -> e2d_one s = Ok s' -> 2 <= length s'.
Proof.
  intros s s' Hne H. rewrite e2d_spec in H. destruct s as [|n [|m t]]; [contradiction| |]; inversion H; cbn [length]; lia.
Qed.

(* ---- the loop over several arrays ------------------------------------------------------------ *)
Lemma map_result_ok_iff : forall A B (f : A -> result B) l l',
  map_result f l = Ok l' <-> Forall2 (fun a b => f a = Ok b) l l'.
Proof.
  intros A B f l. induction l as [|a t IH]; intros l'.
  - cbn [map_result]. split.
    + intros H. inversion H. constructor.
    + intros H. inversion H. reflexivity.
  - cbn [map_result]. split.
    + intros H. destruct (f a) as [b|e] eqn:Fa; [|discriminate].
      destruct (map_result f t) as [bs|e] eqn:Ft; [|discriminate].
      inversion H. subst l'. constructor; [exact Fa|]. apply IH. reflexivity.
    + intros H. inversion H as [|a' b l1 l2 Hab Ht]. subst. rewrite Hab.
      apply IH in Ht. rewrite Ht. reflexivity.
Qed.

(* the first array that fails decides the error *)
Lemma map_result_err_iff : forall A B (f : A -> result B) l e,
  map_result f l = Err e <->
  exists l1 a l2, l = l1 ++ a :: l2 /\ Forall (fun x => exists b, f x = Ok b) l1 /\ f a = Err e.
Proof.
  intros A B f l e. induction l as [|a t IH].
  - cbn [map_result]. split; [discriminate|]. intros [l1 [a [l2 [H _]]]]. destruct l1; discriminate.
  - cbn [map_result]. destruct (f a) as [b|e'] eqn:Fa.
    + destruct (map_result f t) as [bs|e''] eqn:Ft.
      * split; [discriminate|]. intros [l1 [x [l2 [Hl [Hall Hx]]]]].
        destruct l1 as [|y l1].
        -- cbn [app] in Hl. inversion Hl. subst. rewrite Fa in Hx. discriminate.
        -- cbn [app] in Hl. inversion Hl. subst. inversion Hall as [|? ? _ Hall'].
           assert (E : @Ok (list B) bs = Err e) by (apply IH; exists l1, x, l2; auto). discriminate.
      * split.
        -- intros H. inversion H. subst e''. destruct (proj1 IH eq_refl) as [l1 [x [l2 [Hl [Hall Hx]]]]].
           exists (a :: l1), x, l2. subst t. split; [reflexivity|]. split; [|exact Hx].
           constructor; [exists b; exact Fa|exact Hall].
        -- intros [l1 [x [l2 [Hl [Hall Hx]]]]]. destruct l1 as [|y l1].
           ++ cbn [app] in Hl. inversion Hl. subst. rewrite Fa in Hx. discriminate.
           ++ cbn [app] in Hl. inversion Hl. subst. inversion Hall as [|? ? _ Hall'].
              apply IH. exists l1, x, l2. auto.
    + split.
      * intros H. inversion H. subst e'. exists [], a, t. split; [reflexivity|]. split; [constructor|exact Fa].
      * intros [l1 [x [l2 [Hl [Hall Hx]]]]]. destruct l1 as [|y l1].
        -- cbn [app] in Hl. inversion Hl. subst. rewrite Fa in Hx. inversion Hx. reflexivity.
        -- cbn [app] in Hl. inversion Hl. subst. inversion Hall as [|? ? [b Hb] _]. rewrite Fa in Hb. discriminate.
Qed.

Theorem ensure_1d_with_singleton_idempotent : forall l l',
  ensure_1d_with_singleton l = Ok l' -> ensure_1d_with_singleton l' = Ok l'.
Proof. intros l l'. apply map_result_idempotent. exact e1d_idempotent. Qed.

Theorem ensure_2d_idempotent : forall l l', ensure_2d l = Ok l' -> ensure_2d l' = Ok l'.
Proof. intros l l'. apply map_result_idempotent. exact e2d_idempotent. Qed.

(* all arrays are normalised independently, positions kept *)
Theorem ensure_1d_with_singleton_pointwise : forall l l',
  ensure_1d_with_singleton l = Ok l' <-> Forall2 (fun s s' => e1d_one s = Ok s') l l'.
Proof. intros l l'. apply map_result_ok_iff. Qed.

Theorem ensure_1d_with_singleton_rejects_any : forall l s,
  In s l -> s <> [] -> ~ single_signal_layout s -> exists e, ensure_1d_with_singleton l = Err e.
Proof.
  intros l s Hin Hne Hnl. destruct (ensure_1d_with_singleton l) as [l'|e] eqn:E; [|exists e; reflexivity].
  exfalso. apply map_result_ok_iff in E.
  induction E as [|a b l1 l2 Hab _ IH]; [contradiction|].
  destruct Hin as [->|Hin]; [|apply IH; exact Hin].
  rewrite multi_column_rejected in Hab by assumption. discriminate.
Qed.

(* ---- ensure_equal_dims --------------------------------------------------------------------- *)
Lemma dims_eqb_true : forall a b, dims_eqb a b = true <-> a = b.
Proof. intros a b. unfold dims_eqb. destruct (list_eq_dec Nat.eq_dec a b); split; intros H; congruence. Qed.

Lemma compared_dims_ok : forall dim r0 s d,
  compared_dims dim r0 s = Ok d <-> has_dims dim r0 s /\ d = dims_of dim r0 s.
Proof.
  intros dim r0 s d. destruct dim as [k|]; cbn [compared_dims has_dims dims_of].
  - destruct (nth_error s k) as [v|] eqn:E.
    + assert (Hlt : k < length s) by (apply nth_error_Some; congruence).
      rewrite (nth_error_nth s k 0 E). split.
      * intros H. inversion H. auto.
      * intros [_ ->]. reflexivity.
    + apply nth_error_None in E. split; [discriminate|]. intros [H _]. lia.
  - destruct (r0 <=? length s) eqn:E.
    + apply Nat.leb_le in E. split.
      * intros H. inversion H. auto.
      * intros [_ ->]. reflexivity.
    + apply Nat.leb_gt in E. split; [discriminate|]. intros [H _]. lia.
Qed.

Lemma compared_dims_err : forall dim r0 s e,
  compared_dims dim r0 s = Err e -> e = IndexErr /\ ~ has_dims dim r0 s.
Proof.
  intros dim r0 s e. destruct dim as [k|]; cbn [compared_dims has_dims].
  - destruct (nth_error s k) as [v|] eqn:E; [discriminate|]. apply nth_error_None in E.
    intros H. inversion H. split; [reflexivity|lia].
  - destruct (r0 <=? length s) eqn:E; [discriminate|]. apply Nat.leb_gt in E.
    intros H. inversion H. split; [reflexivity|lia].
Qed.

Lemma map_compared_ok : forall dim r0 l ds,
  map_result (compared_dims dim r0) l = Ok ds <-> Forall (has_dims dim r0) l /\ ds = map (dims_of dim r0) l.
Proof.
  intros dim r0 l. induction l as [|s t IH]; intros ds.
  - cbn [map_result map]. split.
    + intros H. inversion H. split; [constructor|reflexivity].
    + intros [_ ->]. reflexivity.
  - cbn [map_result map]. destruct (compared_dims dim r0 s) as [d|e] eqn:Cs.
    + apply compared_dims_ok in Cs. destruct Cs as [Hs ->].
      destruct (map_result (compared_dims dim r0) t) as [dt|e] eqn:Ct.
      * destruct (proj1 (IH dt) eq_refl) as [Ht ->]. split.
        -- intros H. inversion H. split; [constructor; assumption|reflexivity].
        -- intros [_ ->]. reflexivity.
      * split; [discriminate|]. intros [Hall _]. inversion Hall as [|? ? _ Ht].
        assert (E : Err e = Ok (map (dims_of dim r0) t)) by (apply IH; auto). discriminate.
    + apply compared_dims_err in Cs. destruct Cs as [_ Hn]. split; [discriminate|].
      intros [Hall _]. inversion Hall. contradiction.
Qed.

Lemma map_compared_err : forall dim r0 l e,
  map_result (compared_dims dim r0) l = Err e -> e = IndexErr /\ ~ Forall (has_dims dim r0) l.
Proof.
  intros dim r0 l e H. apply map_result_err_iff in H. destruct H as [l1 [a [l2 [-> [_ Ha]]]]].
  apply compared_dims_err in Ha. destruct Ha as [-> Hn]. split; [reflexivity|].
  intros Hall. apply Forall_app in Hall. destruct Hall as [_ Hall]. inversion Hall. contradiction.
Qed.

Lemma all_same_map : forall (f : shape -> list nat) s0 l,
  all_same (map f (s0 :: l)) = true <-> forall s, In s (s0 :: l) -> f s = f s0.
Proof.
  intros f s0 l. cbn [map all_same]. rewrite forallb_forall. split.
  - intros H s [<-|Hin]; [reflexivity|]. symmetry. apply dims_eqb_true. apply H. apply in_map. exact Hin.
  - intros H d Hd. apply in_map_iff in Hd. destruct Hd as [s [<- Hin]]. apply dims_eqb_true. symmetry. apply H. right. exact Hin.
Qed.

Lemma ensure_equal_dims_unfold : forall l dim, l <> [] ->
  ensure_equal_dims l dim =
  match map_result (compared_dims dim (length (hd [] l))) l with
  | Err e => Err e
  | Ok ds => if all_same ds then Ok tt else Err ValueErr
  end.
Proof. intros l dim Hne. destruct l as [|s t]; [contradiction|]. destruct dim; reflexivity. Qed.

(* accept iff every array has the compared axes and they agree with the first array's *)
Theorem equal_dims_spec : forall l dim, l <> [] ->
  let r0 := length (hd [] l) in
  ensure_equal_dims l dim = Ok tt <->
  Forall (has_dims dim r0) l /\ forall s, In s l -> dims_of dim r0 s = dims_of dim r0 (hd [] l).
Proof.
  intros l dim Hne r0. rewrite ensure_equal_dims_unfold by exact Hne. fold r0.
  destruct l as [|s0 t]; [contradiction|]. cbn [hd] in *.
  destruct (map_result (compared_dims dim r0) (s0 :: t)) as [ds|e] eqn:M.
  - apply map_compared_ok in M. destruct M as [Hall ->].
    destruct (all_same (map (dims_of dim r0) (s0 :: t))) eqn:A.
    + pose proof (proj1 (all_same_map (dims_of dim r0) s0 t) A) as A'. split; [intros _; split; assumption|reflexivity].
    + split; [discriminate|]. intros [_ H]. pose proof (proj2 (all_same_map (dims_of dim r0) s0 t) H) as H'. pose proof (eq_trans (eq_sym H') A) as X. discriminate X.
  - apply map_compared_err in M. destruct M as [_ Hn]. split; [discriminate|]. intros [H _]. contradiction.
Qed.

Theorem equal_dims_index_error : forall l dim, l <> [] ->
  let r0 := length (hd [] l) in
  ensure_equal_dims l dim = Err IndexErr <-> ~ Forall (has_dims dim r0) l.
Proof.
  intros l dim Hne r0. rewrite ensure_equal_dims_unfold by exact Hne. fold r0.
  destruct (map_result (compared_dims dim r0) l) as [ds|e] eqn:M.
  - apply map_compared_ok in M. destruct M as [Hall _].
    destruct (all_same ds); split; try discriminate; intros H; contradiction.
  - apply map_compared_err in M. destruct M as [-> Hn]. split; [intros _; exact Hn|reflexivity].
Qed.

Lemma dims_scan : forall (f : shape -> list nat) d0 l,
  Exists (fun s => f s <> d0) l \/ Forall (fun s => f s = d0) l.
Proof.
  intros f d0 l. induction l as [|s t IH].
  - right. constructor.
  - destruct (list_eq_dec Nat.eq_dec (f s) d0) as [Hs|Hs].
    + destruct IH as [IH|IH]; [left; apply Exists_cons_tl; exact IH|right; constructor; assumption].
    + left. apply Exists_cons_hd. exact Hs.
Qed.

Theorem equal_dims_value_error : forall l dim, l <> [] ->
  let r0 := length (hd [] l) in
  ensure_equal_dims l dim = Err ValueErr <->
  Forall (has_dims dim r0) l /\ exists s, In s l /\ dims_of dim r0 s <> dims_of dim r0 (hd [] l).
Proof.
  intros l dim Hne r0.
  pose proof (equal_dims_spec l dim Hne) as Hok. pose proof (equal_dims_index_error l dim Hne) as Hix.
  cbv zeta in Hok, Hix. fold r0 in Hok, Hix.
  destruct (ensure_equal_dims l dim) as [[]|[|]] eqn:E.
  - split; [discriminate|]. intros [_ [s [Hin Hd]]]. destruct (proj1 Hok eq_refl) as [_ H]. elim Hd. apply H. exact Hin.
  - split; [discriminate|]. intros [Hall _]. elim (proj1 Hix eq_refl). exact Hall.
  - split; [|reflexivity]. intros _.
    assert (Hall : Forall (has_dims dim r0) l).
    { clear Hok. rewrite ensure_equal_dims_unfold in E by exact Hne. fold r0 in E.
      destruct (map_result (compared_dims dim r0) l) as [ds|e] eqn:M.
      - apply map_compared_ok in M. tauto.
      - apply map_compared_err in M. destruct M as [-> _]. discriminate. }
    split; [exact Hall|].
    (* some array disagrees, found by scanning the (decidable) comparison *)
    destruct (dims_scan (dims_of dim r0) (dims_of dim r0 (hd [] l)) l) as [Hex|Hfa].
    + apply Exists_exists in Hex. exact Hex.
    + exfalso. assert (X : Err ValueErr = Ok tt :> result unit); [|discriminate X].
      apply Hok. split; [exact Hall|]. apply Forall_forall. exact Hfa.
Qed.

(* the three outcomes are the only ones *)
Theorem equal_dims_outcomes : forall l dim,
  ensure_equal_dims l dim = Ok tt \/ ensure_equal_dims l dim = Err IndexErr \/ ensure_equal_dims l dim = Err ValueErr.
Proof. intros l dim. destruct (ensure_equal_dims l dim) as [[]|[|]]; auto. Qed.

(* arrays whose first axes differ are never accepted when axis 0 is among those compared *)
Theorem equal_dims_rejects_length_mismatch : forall l dim s,
  (dim = None \/ dim = Some 0) -> hd [] l <> [] -> In s l -> s <> [] -> hd 0 s <> hd 0 (hd [] l) ->
  exists e, ensure_equal_dims l dim = Err e.
Proof.
  intros l dim s Hdim Hh Hin Hs Hne.
  assert (Hl : l <> []) by (destruct l; [contradiction|discriminate]).
  destruct (ensure_equal_dims l dim) as [[]|e] eqn:E; [|exists e; reflexivity].
  exfalso. apply (equal_dims_spec l dim Hl) in E. destruct E as [_ E]. specialize (E s Hin).
  destruct (hd [] l) as [|n0 t0] eqn:H0; [contradiction|]. destruct s as [|n t]; [contradiction|].
  cbn [hd] in Hne. destruct Hdim as [->| ->]; cbn [dims_of length firstn nth] in E; inversion E; contradiction.
Qed.

(* ---- entry points --------------------------------------------------------------------------- *)
Theorem sift_entries_layout_insensitive : forall e n k,
  n <> 1 \/ k <= 1 ->
  sift_entry_layout e (n :: repeat 1 k) = Ok [n; 1] /\
  sift_entry_layout e (n :: repeat 1 k) = sift_entry_layout e [n].
Proof.
  intros e n k H. unfold sift_entry_layout. rewrite singleton_layouts_normalise by exact H. split; reflexivity.
Qed.

Theorem sift_entries_reject_multi_column : forall e s,
  s <> [] -> ~ single_signal_layout s -> sift_entry_layout e s = Err ValueErr.
Proof. intros e s. unfold sift_entry_layout. apply multi_column_rejected. Qed.

Theorem sift_entries_v0_refuted : forall e, exists s,
  s <> [] /\ ~ single_signal_layout s /\ sift_entry_layout_v0 e s = Ok s.
Proof. intros e. exact multi_column_rejected_v0_refuted. Qed.

Theorem extrema_view_vector_is_column : forall n, extrema_view [n; 1] = extrema_view [n] /\ extrema_view [n] = Ok [n].
Proof. intros n. split; reflexivity. Qed.

Theorem transform_layout_vector_is_column : forall n, transform_layout [n] = transform_layout [n; 1].
Proof. reflexivity. Qed.

Theorem cycle_input_layout_vector_is_column : forall n, cycle_input_layout [n; 1] = cycle_input_layout [n].
Proof. reflexivity. Qed.

(* helper: unpack the monadic validators *)
Lemma bind_ok : forall A B (r : result A) (f : A -> result B) b,
  bind r f = Ok b <-> exists a, r = Ok a /\ f a = Ok b.
Proof.
  intros A B r f b. destruct r as [a|e]; cbn [bind].
  - split; [intros H; exists a; auto|]. intros [a' [H1 H2]]. inversion H1. subst. exact H2.
  - split; [discriminate|]. intros [a' [H1 _]]. discriminate.
Qed.

Lemma not_ok_err : forall A (r : result A), (forall a, r <> Ok a) -> exists e, r = Err e.
Proof. intros A r H. destruct r as [a|e]; [elim (H a); reflexivity|exists e; reflexivity]. Qed.

Lemma map_result_two : forall (f : shape -> result shape) a b l,
  map_result f [a; b] = Ok l -> exists a' b', l = [a'; b'] /\ f a = Ok a' /\ f b = Ok b'.
Proof.
  intros f a b l H. apply map_result_ok_iff in H.
  inversion H as [|? a' ? l1 Ha H1]. subst. inversion H1 as [|? b' ? l2 Hb H2]. subst. inversion H2. subst.
  exists a', b'. auto.
Qed.

Lemma map_result_one : forall (f : shape -> result shape) a l,
  map_result f [a] = Ok l -> exists a', l = [a'] /\ f a = Ok a'.
Proof.
  intros f a l H. apply map_result_ok_iff in H.
  inversion H as [|? a' ? l1 Ha H1]. subst. inversion H1. subst. exists a'. auto.
Qed.

Lemma e2d_nonempty : forall s s', s <> [] -> e2d_one s = Ok s' -> s' <> [] /\ hd 0 s' = hd 0 s.
Proof.
  intros s s' Hne H. rewrite e2d_spec in H. destruct s as [|n [|m t]]; [contradiction| |]; inversion H; split; try discriminate; reflexivity.
Qed.

Lemma ev_nonempty : forall s s', s <> [] -> ev_one s = Ok s' -> s' <> [] /\ hd 0 s' = hd 0 s.
Proof.
  intros s s' Hne H. destruct (ev_result_is_vector s s' Hne H) as [-> _]. split; [discriminate|reflexivity].
Qed.

Lemma e1d_nonempty : forall s s', s <> [] -> e1d_one s = Ok s' -> s' <> [] /\ hd 0 s' = hd 0 s.
Proof.
  intros s s' Hne H. destruct (e1d_preserves_samples s s' Hne H) as [-> _]. split; [discriminate|reflexivity].
Qed.

(* mismatched lengths are rejected by every multi-array routine *)
Theorem hilberthuang_rejects_mismatch : forall a b,
  a <> [] -> b <> [] -> hd 0 a <> hd 0 b -> exists e, hilberthuang_validate a b = Err e.
Proof.
  intros a b Ha Hb Hne. apply not_ok_err. intros l H. unfold hilberthuang_validate in H.
  apply bind_ok in H. destruct H as [l2 [H1 H2]]. apply bind_ok in H2. destruct H2 as [u [H2 _]].
  apply map_result_two in H1. destruct H1 as [a' [b' [-> [Ea Eb]]]].
  destruct (e2d_nonempty a a' Ha Ea) as [Ha' Hha]. destruct (e2d_nonempty b b' Hb Eb) as [Hb' Hhb].
  destruct (equal_dims_rejects_length_mismatch [a'; b'] None b') as [e He]; auto.
  - right. left. reflexivity.
  - cbn [hd]. congruence.
  - pose proof (eq_trans (eq_sym He) H2) as X. discriminate X.
Qed.

Theorem phase_align_rejects_mismatch : forall a b,
  a <> [] -> b <> [] -> hd 0 a <> hd 0 b -> exists e, phase_align_validate a b = Err e.
Proof.
  intros a b Ha Hb Hne. apply not_ok_err. intros l H. unfold phase_align_validate in H.
  apply bind_ok in H. destruct H as [l2 [H1 H2]]. apply bind_ok in H2. destruct H2 as [u [H2 _]].
  apply map_result_two in H1. destruct H1 as [a' [b' [-> [Ea Eb]]]].
  destruct (ev_nonempty a a' Ha Ea) as [Ha' Hha]. destruct (ev_nonempty b b' Hb Eb) as [Hb' Hhb].
  destruct (equal_dims_rejects_length_mismatch [a'; b'] None b') as [e He]; auto.
  - right. left. reflexivity.
  - cbn [hd]. congruence.
  - pose proof (eq_trans (eq_sym He) H2) as X. discriminate X.
Qed.

Theorem cycle_vector_mask_rejects_mismatch : forall a b,
  a <> [] -> b <> [] -> hd 0 a <> hd 0 b -> exists e, cycle_vector_mask_validate a b = Err e.
Proof.
  intros a b Ha Hb Hne. apply not_ok_err. intros l H. unfold cycle_vector_mask_validate in H.
  apply bind_ok in H. destruct H as [l2 [H1 H2]]. apply bind_ok in H2. destruct H2 as [u [H2 _]].
  apply map_result_two in H1. destruct H1 as [a' [b' [-> [Ea Eb]]]].
  destruct (e2d_nonempty a a' Ha Ea) as [Ha' Hha]. destruct (e2d_nonempty b b' Hb Eb) as [Hb' Hhb].
  destruct (equal_dims_rejects_length_mismatch [a'; b'] (Some 0) b') as [e He]; auto.
  - right. left. reflexivity.
  - cbn [hd]. congruence.
  - pose proof (eq_trans (eq_sym He) H2) as X. discriminate X.
Qed.

Theorem bin_by_phase_rejects_mismatch : forall ip x,
  ip <> [] -> x <> [] -> hd 0 ip <> hd 0 x -> exists e, bin_by_phase_validate ip x None = Err e.
Proof.
  intros a b Ha Hb Hne. apply not_ok_err. intros l H. unfold bin_by_phase_validate in H.
  apply bind_ok in H. destruct H as [l2 [H1 H2]].
  apply map_result_one in H1. destruct H1 as [a' [-> Ea]]. cbv beta zeta in H2. cbn [app] in H2.
  apply bind_ok in H2. destruct H2 as [u [H2 _]].
  destruct (ev_nonempty a a' Ha Ea) as [Ha' Hha].
  destruct (equal_dims_rejects_length_mismatch [a'; b] (Some 0) b) as [e He]; auto.
  - right. left. reflexivity.
  - cbn [hd]. congruence.
  - pose proof (eq_trans (eq_sym He) H2) as X. discriminate X.
Qed.

Theorem bin_by_phase_weights_rejects_mismatch : forall ip x w,
  ip <> [] -> x <> [] -> w <> [] -> (hd 0 ip <> hd 0 x \/ hd 0 ip <> hd 0 w) ->
  exists e, bin_by_phase_validate ip x (Some w) = Err e.
Proof.
  intros a b w Ha Hb Hw Hne. apply not_ok_err. intros l H. unfold bin_by_phase_validate in H.
  apply bind_ok in H. destruct H as [l2 [H1 H2]].
  apply map_result_one in H1. destruct H1 as [a' [-> Ea]].
  apply bind_ok in H2. destruct H2 as [lw [H3 H2]].
  apply map_result_one in H3. destruct H3 as [w' [-> Ew]]. cbv beta zeta in H2. cbn [app] in H2.
  apply bind_ok in H2. destruct H2 as [u [H2 _]].
  destruct (ev_nonempty a a' Ha Ea) as [Ha' Hha]. destruct (e1d_nonempty w w' Hw Ew) as [Hw' Hhw].
  destruct Hne as [Hne|Hne].
  - destruct (equal_dims_rejects_length_mismatch [a'; b; w'] (Some 0) b) as [e He]; auto.
    + right. left. reflexivity.
    + cbn [hd]. congruence.
    + pose proof (eq_trans (eq_sym He) H2) as X. discriminate X.
  - destruct (equal_dims_rejects_length_mismatch [a'; b; w'] (Some 0) w') as [e He]; auto.
    + right. right. left. reflexivity.
    + cbn [hd]. congruence.
    + pose proof (eq_trans (eq_sym He) H2) as X. discriminate X.
Qed.

Theorem holospectrum_rejects_mismatch : forall a b c,
  a <> [] -> b <> [] -> c <> [] -> (hd 0 a <> hd 0 b \/ hd 0 a <> hd 0 c) ->
  exists e, holospectrum_validate a b c = Err e.
Proof.
  intros a b c Ha Hb Hc Hne. apply not_ok_err. intros l H. unfold holospectrum_validate in H.
  apply bind_ok in H. destruct H as [l2 [H1 H2]]. apply bind_ok in H2. destruct H2 as [u [H2 _]].
  apply map_result_ok_iff in H1.
  inversion H1 as [|? a' ? l1 Ea H1']. subst. inversion H1' as [|? b' ? l3 Eb H1'']. subst.
  inversion H1'' as [|? c' ? l4 Ec H1''']. subst. inversion H1'''. subst.
  destruct (e2d_nonempty a a' Ha Ea) as [Ha' Hha]. destruct (e2d_nonempty b b' Hb Eb) as [Hb' Hhb].
  destruct (e2d_nonempty c c' Hc Ec) as [Hc' Hhc].
  destruct Hne as [Hne|Hne].
  - destruct (equal_dims_rejects_length_mismatch [a'; b'; c'] (Some 0) b') as [e He]; auto.
    + right. left. reflexivity.
    + cbn [hd]. congruence.
    + pose proof (eq_trans (eq_sym He) H2) as X. discriminate X.
  - destruct (equal_dims_rejects_length_mismatch [a'; b'; c'] (Some 0) c') as [e He]; auto.
    + right. right. left. reflexivity.
    + cbn [hd]. congruence.
    + pose proof (eq_trans (eq_sym He) H2) as X. discriminate X.
Qed.

(* ... and vectors / single columns of equal length are accepted, in every combination *)
Lemma dims_eqb_refl : forall a, dims_eqb a a = true.
Proof. intros a. apply dims_eqb_true. reflexivity. Qed.

Theorem hilberthuang_accepts_vector_or_column : forall n,
  hilberthuang_validate [n] [n] = Ok [[n; 1]; [n; 1]] /\
  hilberthuang_validate [n] [n; 1] = Ok [[n; 1]; [n; 1]] /\
  hilberthuang_validate [n; 1] [n] = Ok [[n; 1]; [n; 1]] /\
  hilberthuang_validate [n; 1] [n; 1] = Ok [[n; 1]; [n; 1]].
Proof.
  intros n. unfold hilberthuang_validate, ensure_2d, ensure_equal_dims.
  cbn [map_result e2d_one length Nat.eqb add_axis1 bind hd compared_dims Nat.leb firstn all_same forallb].
  rewrite dims_eqb_refl. cbn [andb bind]. auto.
Qed.

Theorem phase_align_accepts_vector_or_column : forall n,
  phase_align_validate [n] [n] = Ok [[n]; [n]] /\
  phase_align_validate [n] [n; 1] = Ok [[n]; [n]] /\
  phase_align_validate [n; 1] [n] = Ok [[n]; [n]] /\
  phase_align_validate [n; 1] [n; 1] = Ok [[n]; [n]].
Proof.
  intros n. unfold phase_align_validate, ensure_vector, ensure_equal_dims.
  cbn [map_result ev_one length Nat.ltb Nat.leb Nat.eqb nth andb drop_axis1 bind hd compared_dims firstn all_same forallb].
  rewrite dims_eqb_refl. cbn [andb bind]. auto.
Qed.

Theorem cycle_vector_mask_accepts_vector_or_column : forall n,
  cycle_vector_mask_validate [n] [n] = Ok [[n; 1]; [n; 1]] /\
  cycle_vector_mask_validate [n; 1] [n] = Ok [[n; 1]; [n; 1]] /\
  cycle_vector_mask_validate [n] [n; 1] = Ok [[n; 1]; [n; 1]].
Proof.
  intros n. unfold cycle_vector_mask_validate, ensure_2d, ensure_equal_dims.
  cbn [map_result e2d_one length Nat.eqb add_axis1 bind hd compared_dims nth_error all_same forallb].
  rewrite dims_eqb_refl. cbn [andb bind]. auto.
Qed.

Theorem bin_by_phase_accepts_vector_or_column : forall n t,
  bin_by_phase_validate [n] (n :: t) None = Ok [[n]; n :: t] /\
  bin_by_phase_validate [n; 1] (n :: t) None = Ok [[n]; n :: t] /\
  bin_by_phase_validate [n] (n :: t) (Some [n]) = Ok [[n]; n :: t; [n; 1]] /\
  bin_by_phase_validate [n; 1] (n :: t) (Some [n; 1]) = Ok [[n]; n :: t; [n; 1]].
Proof.
  intros n t. unfold bin_by_phase_validate, ensure_vector, ensure_1d_with_singleton, ensure_equal_dims.
  cbn [map_result ev_one length Nat.ltb Nat.leb Nat.eqb nth andb drop_axis1 bind hd app compared_dims nth_error all_same forallb].
  rewrite !e1d_vector, !e1d_column.
  cbn [bind app length hd map_result compared_dims nth_error all_same forallb].
  rewrite !dims_eqb_refl. cbn [andb bind]. auto.
Qed.

(* ---- the premises are met by concrete, non-trivial states ------------------------------------- *)
Example c19_premises_hold :
  e1d_one [7; 1; 1; 1] = Ok [7; 1] /\
  e1d_one [7; 2] = Err ValueErr /\ e1d_one [1; 7] = Err ValueErr /\ e1d_one [7; 2; 3] = Err ValueErr /\
  e1d_one_v0 [7; 2] = Ok [7; 2] /\
  ensure_1d_with_singleton [[7]; [7; 1; 1]; [3; 1]] = Ok [[7; 1]; [7; 1]; [3; 1]] /\
  ensure_vector [[7; 1]; [7; 2]] = Err ValueErr /\
  ensure_equal_dims [[5; 2]; [5; 3]] (Some 0) = Ok tt /\
  ensure_equal_dims [[5; 2]; [5; 3]] (Some 1) = Err ValueErr /\
  ensure_equal_dims [[5; 2]; [5; 2; 3]] None = Ok tt /\
  ensure_equal_dims [[5; 2; 3]; [5; 2]] None = Err IndexErr /\
  hilberthuang_validate [6] [6; 1] = Ok [[6; 1]; [6; 1]] /\
  hilberthuang_validate [6] [7] = Err ValueErr /\
  holospectrum_validate [6; 2] [6; 2; 3] [6; 2; 3] = Ok [[6; 2]; [6; 2; 3]; [6; 2; 3]] /\
  holospectrum_validate [6; 2] [5; 2; 3] [6; 2; 3] = Err ValueErr.
Proof. vm_compute. repeat split; reflexivity. Qed.
