(* Proofs of the control-skeleton tie "Parab" (notes/TIE_PARAB.md); definitions in model/SkelPrims_Parab.v,
   statements in props/Prop_Tie_Parab.v. *)
From Coq Require Import String List Bool Arith ZArith QArith Qreduction Qfield Lia Lqa.
From EmdV Require Import model.Extrema lib.PyLoop lib.PyLoopTools gen.Gen_Skel_Parab model.SkelPrims_Parab.
From EmdV Require model.Config.
Import ListNotations.
Open Scope string_scope.

(* ================================================================================================ *)
(* 1. compute_parabolic_extrema                                                                      *)
(* ================================================================================================ *)
Section ParabTie.
  Local Notation P := cpe_prims.

  Ltac ev :=
    cbv beta iota zeta delta
        [exec final_env eval eval_truth bind map_res truthy do_cmp do_arith do_index nat_cmp nat_arith iter_list
         upd lookup env_of assign_all cmp_name ar_name frame overlay normal_env
         try_finish try_finish_env exn_matches
         cpe_prims prims_of table_lookup cpe_table keys_are is_opaque0
         bin operand_of scalar_q scalars_q rows_q
         cpe_names cpe_env0 params_compute_parabolic_extrema prog_compute_parabolic_extrema
         String.eqb Ascii.eqb Bool.eqb fst snd nth_error andb negb orb].

  (* ---- signs of rationals ---- *)
  Lemma qsign_Qeq : forall p q : Q, (p == q)%Q -> qsign p = qsign q.
  Proof.
    intros [pn pd] [qn qd] H. unfold Qeq in H. cbn [Qnum Qden] in H. unfold qsign. cbn [Qnum].
    destruct (Z.compare_spec pn 0) as [E|E|E]; destruct (Z.compare_spec qn 0) as [F|F|F]; try reflexivity; nia.
  Qed.

  Lemma qsign_Qred : forall q, qsign (Qred q) = qsign q.
  Proof. intros q. apply qsign_Qeq. apply Qred_correct. Qed.

  Lemma qsign_opp : forall q, qsign (- q) = CompOpp (qsign q).
  Proof.
    intros [n d]. unfold qsign, Qopp. cbn [Qnum].
    destruct (Z.compare_spec n 0) as [E|E|E]; destruct (Z.compare_spec (- n) 0) as [F|F|F]; try reflexivity; lia.
  Qed.

  Lemma qsign_zero_iff : forall q, qsign q = Eq <-> (q == 0)%Q.
  Proof.
    intros [n d]. unfold qsign, Qeq. cbn [Qnum Qden]. rewrite Z.compare_eq_iff. split; intros H; lia.
  Qed.

  Lemma qsign_two_mul : forall q, qsign (2 * q) = qsign q.
  Proof.
    intros [n d]. unfold qsign, Qmult. cbn [Qnum].
    destruct (Z.compare_spec n 0) as [E|E|E]; destruct (Z.compare_spec (2 * n) 0) as [F|F|F]; try reflexivity; lia.
  Qed.

  (* ---- arrays that are all maps over the list of extrema ---- *)
  Lemma zipx_map : forall (A : Type) (f : xr -> xr -> xr) (g h : A -> xr) (l : list A),
    zipx f (map g l) (map h l) = map (fun e => f (g e) (h e)) l.
  Proof. intros A f g h l. induction l as [|a t IH]; [reflexivity|]. cbn [map zipx]. rewrite IH. reflexivity. Qed.

  Lemma vec_zip_map : forall (A : Type) (f : xr -> xr -> xr) (g h : A -> xr) (l : list A),
    vec_zip f (map g l) (map h l) = Ok (VSig (PVec (map (fun e => f (g e) (h e)) l))).
  Proof. intros A f g h l. unfold vec_zip. rewrite !map_length, Nat.eqb_refl, zipx_map. reflexivity. Qed.

  (* the coefficients as the code computes them: row k of w_inv . column *)
  Definition w0 : Q * Q * Q := ((1 # 2)%Q, inject_Z (-1), (1 # 2)%Q).
  Definition w1 : Q * Q * Q := (Qred (inject_Z (-5) / nat_q 2), nat_q 4, Qred (inject_Z (-3) / nat_q 2)).
  Definition w2 : Q * Q * Q := (nat_q 3, inject_Z (-3), nat_q 1).

  Lemma abc_a : forall y0 y1 y2, (dot3 w0 (y0, y1, y2) == par_a y0 y1 y2)%Q.
  Proof. intros. unfold dot3, w0, par_a. change (inject_Z (-1)) with (-1 # 1)%Q. ring. Qed.
  Lemma abc_b : forall y0 y1 y2, (dot3 w1 (y0, y1, y2) == par_b y0 y1 y2)%Q.
  Proof.
    intros. unfold dot3, w1, par_b. rewrite !Qred_correct.
    change (inject_Z (-5) / nat_q 2)%Q with (-5 # 2)%Q. change (inject_Z (-3) / nat_q 2)%Q with (-3 # 2)%Q.
    change (nat_q 4) with 4%Q. ring.
  Qed.
  Lemma abc_c : forall y0 y1 y2, (dot3 w2 (y0, y1, y2) == par_c y0 y1 y2)%Q.
  Proof.
    intros. unfold dot3, w2, par_c. change (nat_q 3) with 3%Q. change (nat_q 1) with 1%Q.
    change (inject_Z (-3)) with (-3 # 1)%Q. ring.
  Qed.

  (* what the program computes for one extremum: the composition of the primitives, as it comes out of the run *)
  Definition tp_prog (e : ext) : xr :=
    xdiv (xopp (XQ (row_k 1 (mat3_apply w0 w1 w2 (ext_col e)))))
         (xmul (XQ (nat_q 2)) (XQ (row_k 0 (mat3_apply w0 w1 w2 (ext_col e))))).
  Definition t_prog (e : ext) : xr := xadd (xsub (tp_prog e) (XQ (nat_q 2))) (XQ (ext_loc e)).
  Definition yhat_prog (e : ext) : xr :=
    xadd (xdiv (xmul (tp_prog e) (XQ (row_k 1 (mat3_apply w0 w1 w2 (ext_col e))))) (XQ (nat_q 2)))
         (XQ (row_k 2 (mat3_apply w0 w1 w2 (ext_col e)))).

  Lemma cpe_run : forall l f,
    exec P prog_compute_parabolic_extrema f (cpe_env0 l)
    = Return (VList [VSig (PVec (map t_prog l)); VSig (PVec (map yhat_prog l))]).
  Proof.
    intros l f.
    ev. rewrite !map_map.
    repeat (progress (rewrite ?vec_zip_map, ?map_map); ev).
    reflexivity.
  Qed.

  (* ---- one extremum: the composition is np_vertex ---- *)
  Lemma prog_vertex : forall e, (t_prog e, yhat_prog e) = np_vertex e.
  Proof.
    intros [[[y0 y1] y2] loc].
    unfold t_prog, yhat_prog, tp_prog, np_vertex, ext_col, ext_loc, mat3_apply, row_k.
    assert (Ha := abc_a y0 y1 y2). assert (Hb := abc_b y0 y1 y2). assert (Hc := abc_c y0 y1 y2).
    set (a' := dot3 w0 (y0, y1, y2)) in *. set (b' := dot3 w1 (y0, y1, y2)) in *.
    set (c' := dot3 w2 (y0, y1, y2)) in *.
    set (a := par_a y0 y1 y2) in *. set (b := par_b y0 y1 y2) in *. set (c := par_c y0 y1 y2) in *.
    assert (Sden : qsign (Qred (nat_q 2 * a')) = qsign a).
    { rewrite qsign_Qred. change (nat_q 2) with 2%Q. rewrite qsign_two_mul. apply qsign_Qeq. exact Ha. }
    assert (Snum : qsign (Qred (- b')) = CompOpp (qsign b)).
    { rewrite qsign_Qred, qsign_opp. f_equal. apply qsign_Qeq. exact Hb. }
    assert (Sb : qsign b' = qsign b) by (apply qsign_Qeq; exact Hb).
    assert (Nondeg : qsign a <> Eq ->
      (XQ (Qred (Qred (Qred (Qred (- b') / Qred (nat_q 2 * a')) - nat_q 2) + loc)),
       XQ (Qred (Qred (Qred (Qred (Qred (- b') / Qred (nat_q 2 * a')) * b') / nat_q 2) + c')))
      = (XQ (Qred (fst (parabolic_vertex y0 y1 y2 loc))), XQ (Qred (snd (parabolic_vertex y0 y1 y2 loc))))).
    { intros _. unfold parabolic_vertex. cbn [fst snd]. fold a b c.
      f_equal; f_equal; apply Qred_complete; rewrite !Qred_correct; change (nat_q 2) with 2%Q; rewrite Ha, Hb, ?Hc;
        reflexivity. }
    cbn [xopp xmul xdiv]. rewrite Sden.
    destruct (qsign a) eqn:Ea.
    - (* degenerate: division by zero *)
      rewrite Snum. destruct (qsign b) eqn:Eb; cbn [CompOpp xinf xopp xsub xadd xmul xdiv]; rewrite ?Sb, ?Eb;
        cbn [CompOpp xinf xopp xsub xadd xmul xdiv]; try change (qsign (nat_q 2)) with Gt; cbn iota; reflexivity.
    - cbn [xsub xadd xmul xdiv]. change (qsign (nat_q 2)) with Gt. cbn iota. apply Nondeg. discriminate.
    - cbn [xsub xadd xmul xdiv]. change (qsign (nat_q 2)) with Gt. cbn iota. apply Nondeg. discriminate.
  Qed.

  Theorem skeleton_compute_parabolic_extrema : forall l f,
    exec P prog_compute_parabolic_extrema f (cpe_env0 l) = cpe_render l.
  Proof.
    intros l f. rewrite cpe_run. unfold cpe_render.
    assert (H1 : map t_prog l = map (fun e => fst (np_vertex e)) l)
      by (apply map_ext; intros e; rewrite <- prog_vertex; reflexivity).
    assert (H2 : map yhat_prog l = map (fun e => snd (np_vertex e)) l)
      by (apply map_ext; intros e; rewrite <- prog_vertex; reflexivity).
    rewrite H1, H2. reflexivity.
  Qed.

  (* every parabola non-degenerate: the translated formula IS Extrema.parabolic_vertex, per extremum *)
  Lemma np_vertex_nondegenerate : forall e, nondegenerate e ->
    np_vertex e = (XQ (Qred (fst (model_vertex e))), XQ (Qred (snd (model_vertex e)))).
  Proof.
    intros [[[y0 y1] y2] loc] H. unfold nondegenerate in H. unfold np_vertex, model_vertex.
    destruct (qsign (par_a y0 y1 y2)) eqn:E; try reflexivity.
    exfalso. apply H. apply qsign_zero_iff. exact E.
  Qed.

  Theorem skeleton_compute_parabolic_extrema_model : forall l f, Forall nondegenerate l ->
    exec P prog_compute_parabolic_extrema f (cpe_env0 l) = cpe_render_model l.
  Proof.
    intros l f H. rewrite skeleton_compute_parabolic_extrema. unfold cpe_render, cpe_render_model.
    assert (H1 : map (fun e => fst (np_vertex e)) l = map (fun e => XQ (Qred (fst (model_vertex e)))) l).
    { apply map_ext_in. intros e He. rewrite Forall_forall in H. rewrite (np_vertex_nondegenerate e (H e He)).
      reflexivity. }
    assert (H2 : map (fun e => snd (np_vertex e)) l = map (fun e => XQ (Qred (snd (model_vertex e)))) l).
    { apply map_ext_in. intros e He. rewrite Forall_forall in H. rewrite (np_vertex_nondegenerate e (H e He)).
      reflexivity. }
    rewrite H1, H2. reflexivity.
  Qed.

  (* degenerate = the three samples are on a line; a strict extremum never is *)
  Lemma par_a_zero_iff_collinear : forall y0 y1 y2 : Q, (par_a y0 y1 y2 == 0 <-> y1 - y0 == y2 - y1)%Q.
  Proof. intros. unfold par_a. split; intros H; lra. Qed.

  Lemma strict_extremum_nondegenerate : forall y0 y1 y2 loc : Q,
    ((y0 < y1 /\ y2 < y1) \/ (y1 < y0 /\ y1 < y2))%Q -> nondegenerate (y0, y1, y2, loc).
  Proof. intros y0 y1 y2 loc H. unfold nondegenerate, par_a. intros E. lra. Qed.

  (* THE DEGENERATE CASE: code and model differ. The code divides by zero (nan / inf, RuntimeWarning);
     Extrema.parabolic_vertex, with Coq's total division x / 0 = 0, answers (loc - 2, c) *)
  Lemma np_vertex_degenerate : forall y0 y1 y2 loc : Q, (par_a y0 y1 y2 == 0)%Q ->
    np_vertex (y0, y1, y2, loc)
    = match qsign (par_b y0 y1 y2) with Eq => (XNan, XNan) | Gt => (XNInf, XNInf) | Lt => (XPInf, XNInf) end
    /\ (fst (parabolic_vertex y0 y1 y2 loc) == loc - 2)%Q
    /\ (snd (parabolic_vertex y0 y1 y2 loc) == par_c y0 y1 y2)%Q.
  Proof.
    intros y0 y1 y2 loc H. split; [|split].
    - unfold np_vertex. apply qsign_zero_iff in H. rewrite H. reflexivity.
    - unfold parabolic_vertex. cbn [fst]. fold (par_a y0 y1 y2). unfold Qdiv. rewrite H.
      setoid_replace (2 * 0)%Q with 0%Q by ring. change (/ 0)%Q with 0%Q. ring.
    - unfold parabolic_vertex. cbn [snd]. fold (par_a y0 y1 y2) (par_c y0 y1 y2). unfold Qdiv. rewrite H.
      setoid_replace (2 * 0)%Q with 0%Q by ring. change (/ 0)%Q with 0%Q. ring.
  Qed.

  (* the concrete inputs: y = (0, 1, 2), (2, 1, 0), (0, 0, 0) around an "extremum" at 5 *)
  Lemma cpe_degenerate_examples : forall f,
    exec P prog_compute_parabolic_extrema f (cpe_env0 [(0, 1, 2, 5); (2, 1, 0, 5); (0, 0, 0, 5)]%Q)
    = Return (VList [VSig (PVec [XNInf; XPInf; XNan]); VSig (PVec [XNInf; XNInf; XNan])])
    /\ map (fun e => (Qred (fst (model_vertex e)), Qred (snd (model_vertex e)))) [(0, 1, 2, 5); (2, 1, 0, 5); (0, 0, 0, 5)]%Q
       = [(3, -1); (3, 3); (3, 0)]%Q.
  Proof. intros f. split; [rewrite skeleton_compute_parabolic_extrema|]; vm_compute; reflexivity. Qed.
End ParabTie.

(* ================================================================================================ *)
(* 2. _nsamples_warn                                                                                 *)
(* ================================================================================================ *)
Section WarnTie.
  Ltac ev :=
    cbv beta iota zeta delta
        [exec final_env eval eval_truth bind map_res truthy do_cmp do_arith do_index nat_cmp nat_arith iter_list
         upd lookup env_of assign_all cmp_name ar_name frame overlay normal_env
         try_finish try_finish_env exn_matches
         nsw_prims prims_of table_lookup nsw_table keys_are is_opaque0
         nsw_names nsw_env0 params_nsamples_warn prog_nsamples_warn max_imfs_val nsw_render nsamples_warns nsw_msg
         String.eqb Ascii.eqb Bool.eqb fst snd nth_error andb negb orb String.append].
  Ltac ev1 := ev; repeat (progress (cbn [Nat.eqb]; oracle_rw); ev).

  Theorem skeleton_nsamples_warn : forall n m f,
    exec nsw_prims prog_nsamples_warn f (nsw_env0 n m) = nsw_render n m.
  Proof.
    intros n [k|] f; [|ev; reflexivity].
    destruct (n <? 2 ^ (k + 1))%nat eqn:E; ev1; reflexivity.
  Qed.

  (* the guard in words: a warning iff max_imfs is given and N < 2^(max_imfs+1) *)
  Lemma nsamples_warns_spec : forall n m,
    nsamples_warns n m = true <-> exists k, m = Some k /\ (n < 2 ^ (k + 1))%nat.
  Proof.
    intros n [k|]; cbn [nsamples_warns]; split.
    - intros H. exists k. split; [reflexivity|]. apply Nat.ltb_lt. exact H.
    - intros (k' & Hk & H). inversion Hk; subst. apply Nat.ltb_lt. exact H.
    - discriminate.
    - intros (k' & Hk & _). discriminate.
  Qed.
End WarnTie.

(* ================================================================================================ *)
(* 3. is_imf                                                                                         *)
(* ================================================================================================ *)
Definition imf_pre : list stmt := Eval cbv in firstn 3 (spine prog_is_imf).
Definition imf_for : stmt := Eval cbv in nth 3 (spine prog_is_imf) SSkip.
Definition imf_post : list stmt := Eval cbv in skipn 4 (spine prog_is_imf).
Definition imf_body : stmt := Eval cbv in match imf_for with SFor _ _ b => b | _ => SSkip end.
Definition imf_body_l : list stmt := Eval cbv in spine imf_body.
Definition imf_iter : expr := Eval cbv in match imf_for with SFor _ it _ => it | _ => ENone end.

Section IsImfTie.
  Variables S E : Type.
  Local Notation val := (val (ival S E)).
  Variable zc : S -> nat.
  Variable npeaks ntroughs : S -> nat.
  Variable envelope : emode -> S -> val -> val -> envres E.
  Variable mean_ok : E -> E -> S -> bool.
  Local Notation P := (imf_prims S E zc npeaks ntroughs envelope mean_ok).
  Local Notation imf_row := (imf_row S E zc npeaks ntroughs envelope mean_ok).
  Local Notation imf_rows := (imf_rows S E zc npeaks ntroughs envelope mean_ok).
  Local Notation is_imf_model := (is_imf_model S E zc npeaks ntroughs envelope mean_ok).

  Ltac ev :=
    cbv beta iota zeta delta
        [exec final_env eval eval_truth bind map_res truthy do_cmp do_arith do_index nat_cmp nat_arith iter_list
         upd lookup env_of assign_all cmp_name ar_name frame overlay normal_env
         try_finish try_finish_env exn_matches
         imf_prims prims_of table_lookup imf_table keys_are is_opaque0 range_handler range_val
         find_peaks_count store_handler env_val empty_dict avg_tol_val
         imf_names imf_env0 params_is_imf imf_pre imf_for imf_post imf_body imf_body_l imf_iter
         String.eqb Ascii.eqb Bool.eqb fst snd nth_error andb negb orb].

  Lemma col_at_app : forall (pre : list S) x rest d, length pre = d -> col_at S (pre ++ x :: rest) d = Some x.
  Proof.
    intros pre x rest d H. subst d. unfold col_at. rewrite nth_error_app2 by lia. rewrite Nat.sub_diag. reflexivity.
  Qed.

  Lemma store_cell_app : forall k (done : list (bool * bool)) r t d b, length done = d ->
    store_cell k d b (done ++ r :: t) = Some (done ++ set_cell k b r :: t)%list.
  Proof.
    intros k done r t d b H. subst d. unfold store_cell.
    rewrite nth_error_app2 by lia. rewrite Nat.sub_diag. cbn [nth_error].
    rewrite firstn_app, Nat.sub_diag, firstn_O, app_nil_r, firstn_all.
    rewrite skipn_app. rewrite (skipn_all2 (n := Datatypes.S (length done))) by lia.
    replace (Datatypes.S (length done) - length done)%nat with 1%nat by lia. reflexivity.
  Qed.

  (* the environment between two iterations *)
  Definition imf_head (cols : list S) (eo xo : val) (rows : list (bool * bool)) (junk : string -> option val)
    : env (ival S E) :=
    env_of imf_names
      (overlay [ ("imf", VSig (I2d cols)); ("avg_tol", avg_tol_val S E); ("envelope_opts", eo); ("extrema_opts", xo);
                 ("checks", VSig (IChecks rows)) ] junk).

  Ltac ev1 Hcol Eu El Hst := ev; repeat (progress (rewrite ?Hcol, ?Eu, ?El, ?Hst); ev).
  (* statement by statement: the continuation stays folded as [K rest fuel env] *)
  Ltac steps Hcol Eu El Hst :=
    rewrite exec_spine; change (spine imf_body) with imf_body_l; unfold imf_body_l;
    set (K := exec_list P);
    assert (K_cons : forall s t f e, K (s :: t) f e =
                       match exec P s f e with Normal e' => K t f e' | o => o end) by reflexivity;
    assert (K_nil : forall f e, K [] f e = Normal e) by reflexivity;
    repeat (rewrite K_cons; ev1 Hcol Eu El Hst); rewrite ?K_nil; ev1 Hcol Eu El Hst.

  (* one column: ii = d = the number of columns done *)
  Lemma imf_step : forall fb eo xo (pre : list S) x rest (done : list (bool * bool)) blanks junk d,
    length pre = d -> length done = d ->
    let o := exec P imf_body fb (upd "ii" (VNat d) (imf_head (pre ++ x :: rest) eo xo (done ++ (false, false) :: blanks) junk)) in
    match imf_row eo xo x with
    | inl s => o = Raise s
    | inr r => exists e2, (o = Normal e2 \/ o = Continue e2) /\
                          e2 = imf_head (pre ++ x :: rest) eo xo (done ++ r :: blanks) (fun y => lookup y e2)
    end.
  Proof.
    intros fb eo xo pre x rest done blanks junk d Hp Hd. cbv zeta.
    assert (Hcol := col_at_app pre x rest d Hp).
    assert (Hst : forall k b r t, store_cell k d b (done ++ r :: t) = Some (done ++ set_cell k b r :: t)%list)
      by (intros; apply store_cell_app; exact Hd).
    unfold SkelPrims_Parab.imf_row, imf_head.
    destruct (envelope Upper x eo xo) as [u| |su] eqn:Eu; destruct (envelope Lower x eo xo) as [l| |sl] eqn:El.
    (* Upper: envelope / None / raises  x  Lower: envelope / None / raises *)
    - eexists. split; [left; steps Hcol Eu El Hst; reflexivity | ev; reflexivity].   (* the two stores *)
    - eexists. split; [right; steps Hcol Eu El Hst; reflexivity | ev; reflexivity].  (* continue *)
    - steps Hcol Eu El Hst; reflexivity.
    - eexists. split; [right; steps Hcol Eu El Hst; reflexivity | ev; reflexivity].
    - eexists. split; [right; steps Hcol Eu El Hst; reflexivity | ev; reflexivity].
    - steps Hcol Eu El Hst; reflexivity.
    - steps Hcol Eu El Hst; reflexivity.
    - steps Hcol Eu El Hst; reflexivity.
    - steps Hcol Eu El Hst; reflexivity.
  Qed.

  (* the loop over the remaining columns, against the model's own recursion *)
  Lemma imf_loop : forall fb eo xo (rest pre : list S) (done : list (bool * bool)) junk,
    length pre = length done ->
    let o := for_loop "ii" (fun e' => exec P imf_body fb e') (map VNat (seq (length pre) (length rest)))
               (imf_head (pre ++ rest) eo xo (done ++ blank_rows (length rest)) junk) in
    match imf_rows eo xo rest with
    | inl s => o = Raise s
    | inr rs => exists junk', o = Normal (imf_head (pre ++ rest) eo xo (done ++ rs) junk')
    end.
  Proof.
    intros fb eo xo rest. induction rest as [|x t IH]; intros pre done junk Hl; cbv zeta.
    - cbn [length seq map for_loop SkelPrims_Parab.imf_rows blank_rows repeat]. exists junk. reflexivity.
    - cbn [length seq map SkelPrims_Parab.imf_rows].
      change (blank_rows (Datatypes.S (length t))) with ((false, false) :: blank_rows (length t)).
      rewrite for_loop_cons.
      assert (Hstep := imf_step fb eo xo pre x t done (blank_rows (length t)) junk (length pre) eq_refl (eq_sym Hl)).
      cbv zeta in Hstep.
      destruct (imf_row eo xo x) as [s|r].
      + rewrite Hstep. reflexivity.
      + destruct Hstep as (e2 & Ho & He2).
        assert (Hl' : length (pre ++ [x]) = length (done ++ [r])) by (rewrite !app_length; cbn [length]; lia).
        specialize (IH (pre ++ [x])%list (done ++ [r])%list (fun y => lookup y e2) Hl'). cbv zeta in IH.
        rewrite <- !app_assoc in IH. cbn [app] in IH.
        rewrite app_length in IH. cbn [length] in IH. rewrite Nat.add_1_r in IH.
        rewrite <- He2 in IH.
        assert (Hfl : match exec P imf_body fb (upd "ii" (VNat (length pre))
                              (imf_head (pre ++ x :: t) eo xo (done ++ (false, false) :: blank_rows (length t)) junk)) with
                      | Normal e' | Continue e' => for_loop "ii" (fun e' => exec P imf_body fb e')
                                                     (map VNat (seq (Datatypes.S (length pre)) (length t))) e'
                      | o => o end
                      = for_loop "ii" (fun e' => exec P imf_body fb e') (map VNat (seq (Datatypes.S (length pre)) (length t))) e2)
          by (destruct Ho as [Ho|Ho]; rewrite Ho; reflexivity).
        rewrite Hfl.
        destruct (imf_rows eo xo t) as [s|rs].
        * exact IH.
        * destruct IH as (junk' & IH). exists junk'. rewrite IH. rewrite <- app_assoc. reflexivity.
  Qed.

  (* THE TIE for is_imf: every column list, every envelope_opts / extrema_opts value, every oracle, every fuel *)
  Theorem skeleton_is_imf : forall (cols : list S) (eo xo : val) f,
    exec P prog_is_imf f (imf_env0 S E cols eo xo) = imf_render S E (is_imf_model cols eo xo).
  Proof.
    intros cols eo xo f.
    rewrite (exec_nth_split _ P prog_is_imf 3 imf_for f _ eq_refl).
    change (firstn 3 (spine prog_is_imf)) with imf_pre.
    change (skipn 4 (spine prog_is_imf)) with imf_post.
    assert (Hpre : exec_list P imf_pre f (imf_env0 S E cols eo xo)
                   = Normal (imf_head cols (eff_opts S E eo) xo (blank_rows (length cols)) (fun _ => None))).
    { unfold imf_head. destruct eo; cbv [exec_list imf_pre]; ev; reflexivity. }
    rewrite Hpre.
    change imf_for with (SFor "ii" imf_iter imf_body). rewrite exec_for.
    assert (Hit : bind (eval P (imf_head cols (eff_opts S E eo) xo (blank_rows (length cols)) (fun _ => None)) imf_iter)
                       (iter_list P) = Ok (map VNat (seq 0 (length cols))))
      by (unfold imf_head; ev; reflexivity).
    rewrite Hit.
    assert (Hloop := imf_loop f (eff_opts S E eo) xo cols [] [] (fun _ => None) eq_refl).
    cbv zeta in Hloop. cbn [app length] in Hloop.
    unfold SkelPrims_Parab.is_imf_model.
    destruct (imf_rows (eff_opts S E eo) xo cols) as [s|rs].
    - rewrite Hloop. reflexivity.
    - destruct Hloop as (junk' & Hloop). rewrite Hloop. unfold imf_head. cbv [exec_list imf_post]. ev. reflexivity.
  Qed.

  (* ---- laws of the model a user relies on ---- *)
  (* one row of two booleans per column *)
  Lemma is_imf_one_row_per_column : forall cols eo xo rows,
    is_imf_model cols eo xo = inr rows -> length rows = length cols.
  Proof.
    intros cols eo xo. unfold SkelPrims_Parab.is_imf_model. generalize (eff_opts S E eo) as eo'. intros eo'.
    induction cols as [|x t IH]; intros rows H; cbn [SkelPrims_Parab.imf_rows] in H.
    - inversion H. reflexivity.
    - destruct (imf_row eo' xo x) as [s|r]; [discriminate|].
      destruct (imf_rows eo' xo t) as [s|rs]; [discriminate|]. inversion H. cbn [length]. rewrite (IH rs eq_refl).
      reflexivity.
  Qed.

  (* row i is the verdict on column i *)
  Lemma is_imf_row_of_column : forall cols eo xo rows i x,
    is_imf_model cols eo xo = inr rows -> nth_error cols i = Some x ->
    exists r, nth_error rows i = Some r /\ imf_row (eff_opts S E eo) xo x = inr r.
  Proof.
    intros cols eo xo. unfold SkelPrims_Parab.is_imf_model. generalize (eff_opts S E eo) as eo'. intros eo'.
    induction cols as [|y t IH]; intros rows i x H Hi; [destruct i; discriminate|].
    cbn [SkelPrims_Parab.imf_rows] in H.
    destruct (imf_row eo' xo y) as [s|r] eqn:Er; [discriminate|].
    destruct (imf_rows eo' xo t) as [s|rs]; [discriminate|]. inversion H; subst rows.
    destruct i as [|i]; cbn [nth_error] in *.
    - inversion Hi; subst y. exists r. split; [reflexivity | exact Er].
    - apply (IH rs i x eq_refl Hi).
  Qed.

  (* a column one of whose envelopes does not exist gets (False, False) (when the call returns at all) *)
  Lemma is_imf_no_envelope : forall cols eo xo rows i x,
    is_imf_model cols eo xo = inr rows -> nth_error cols i = Some x ->
    (envelope Upper x (eff_opts S E eo) xo = EnvNone \/ envelope Lower x (eff_opts S E eo) xo = EnvNone) ->
    nth_error rows i = Some (false, false).
  Proof.
    intros cols eo xo rows i x H Hi Hn.
    destruct (is_imf_row_of_column cols eo xo rows i x H Hi) as (r & Hr & Hx). rewrite Hr. f_equal.
    unfold SkelPrims_Parab.imf_row in Hx.
    destruct (envelope Upper x (eff_opts S E eo) xo) as [u| |su]; destruct (envelope Lower x (eff_opts S E eo) xo) as [l| |sl];
      try discriminate; try (inversion Hx; reflexivity); destruct Hn as [Hn|Hn]; discriminate.
  Qed.

  (* with both envelopes: (|#extrema - #zero crossings| <= 1, relative mean below avg_tol) *)
  Lemma is_imf_both_envelopes : forall cols eo xo rows i x u l,
    is_imf_model cols eo xo = inr rows -> nth_error cols i = Some x ->
    envelope Upper x (eff_opts S E eo) xo = EnvOk u -> envelope Lower x (eff_opts S E eo) xo = EnvOk l ->
    nth_error rows i = Some (count_ok S zc npeaks ntroughs x, mean_ok u l x).
  Proof.
    intros cols eo xo rows i x u l H Hi Hu Hl.
    destruct (is_imf_row_of_column cols eo xo rows i x H Hi) as (r & Hr & Hx). rewrite Hr. f_equal.
    unfold SkelPrims_Parab.imf_row in Hx. rewrite Hu, Hl in Hx. inversion Hx. reflexivity.
  Qed.

  (* envelope_opts=None is envelope_opts={} *)
  Lemma is_imf_opts_none_is_empty : forall cols xo,
    is_imf_model cols VNone xo = is_imf_model cols (empty_dict S E) xo.
  Proof. reflexivity. Qed.
End IsImfTie.

(* THE OPTION PLUMBING as a law: the verdict depends on the envelope oracle only through its values at
   (mode, column, eff_opts envelope_opts, extrema_opts) for the columns of the input - i.e. both modes receive the
   same two option values, the ones of the call, unchanged *)
Lemma is_imf_plumbing : forall (S E : Type) zc npeaks ntroughs mean_ok
    (env1 env2 : emode -> S -> val (ival S E) -> val (ival S E) -> envres E) cols eo xo,
  (forall m x, In x cols -> env1 m x (eff_opts S E eo) xo = env2 m x (eff_opts S E eo) xo) ->
  is_imf_model S E zc npeaks ntroughs env1 mean_ok cols eo xo = is_imf_model S E zc npeaks ntroughs env2 mean_ok cols eo xo.
Proof.
  intros S E zc npeaks ntroughs mean_ok env1 env2 cols eo xo. unfold is_imf_model.
  generalize (eff_opts S E eo) as eo'. intros eo' H.
  induction cols as [|x t IH]; [reflexivity|]. cbn [imf_rows].
  unfold imf_row. rewrite !(H _ x (or_introl eq_refl)).
  rewrite IH by (intros m y Hy; apply H; right; exact Hy). reflexivity.
Qed.

(* ================================================================================================ *)
(* 4. SiftConfig.__iter__, __len__, __repr__                                                         *)
(* ================================================================================================ *)
Section ConfigTie.
  Variable fmt : string -> list string -> string.
  Local Notation P := (cfg_prims fmt).

  Ltac ev :=
    cbv beta iota zeta delta
        [exec final_env eval eval_truth bind map_res truthy do_cmp do_arith do_index nat_cmp nat_arith iter_list
         upd lookup env_of assign_all cmp_name ar_name frame overlay normal_env
         try_finish try_finish_env exn_matches assigned
         cfg_prims prims_of table_lookup cfg_table keys_are is_opaque0 cfg_env0 keys_val
         params_config_iter prog_config_iter prog_config_len prog_config_repr
         String.eqb Ascii.eqb Bool.eqb fst snd nth_error andb negb orb String.append].

  Theorem skeleton_config_iter : forall ty kids f,
    exec P prog_config_iter f (cfg_env0 ty (Config.Node kids)) = iter_render (Config.Node kids).
  Proof. intros ty kids f. ev. reflexivity. Qed.

  Theorem skeleton_config_len : forall ty kids f,
    exec P prog_config_len f (cfg_env0 ty (Config.Node kids)) = len_render (Config.Node kids).
  Proof. intros ty kids f. ev. unfold len_render, Config.keys_of. rewrite map_length. reflexivity. Qed.

  Theorem skeleton_config_repr : forall ty st f,
    exec P prog_config_repr f (cfg_env0 ty st) = repr_render fmt ty.
  Proof. intros ty st f. ev. reflexivity. Qed.
End ConfigTie.
