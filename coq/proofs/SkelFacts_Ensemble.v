(* Proofs of the control-skeleton tie of the ensemble variants (notes/TIE_ENSEMBLE.md): the programs of
   gen/Gen_Skel_Ensemble.v, run by the interpreter of lib/PyLoop.v under the primitive tables of
   model/SkelPrims_Ensemble.v, compute exactly what the hand-written models of model/Variants.v and
   model/Ensemble.v compute - for every oracle, every input and every fuel. *)
From Coq Require Import String List Bool Arith Lia.
(* model.Ensemble also defines [exec] / [lookup] (its Pool model): PyLoop is imported after it on purpose *)
From EmdV Require Import model.SiftCore model.Variants model.Ensemble.
From EmdV Require Import lib.PyLoop lib.PyLoopTools gen.Gen_Skel_Ensemble model.SkelPrims_Ensemble.
Import ListNotations.
Local Open Scope nat_scope.
Open Scope string_scope.
Open Scope list_scope.

(* ============================================================================================== *)
(* 1. complete_ensemble_sift  <->  Variants.ceemd                                                  *)
(* ============================================================================================== *)
Section CeemdTie.
  Variable V : Type.
  Variable NS : Type.
  Variable vzero : V.
  Variable vadd vsub : V -> V -> V.
  Variable first_layer next_layer : V -> NS -> V.
  Variable nfirst : NS -> NS.
  Variable nsub : NS -> NS -> NS.
  Variable few_peaks small_mean : V -> bool.
  Variable noise0 : NS.

  Local Notation U := (CU V NS).
  Local Notation P := (ceemd_prims V NS vzero vadd vsub first_layer next_layer nfirst nsub few_peaks small_mean noise0).
  Local Notation updn := (ce_upd_of NS nfirst nsub).
  Local Notation vcol := (vcol V NS).
  Local Notation vmat := (vmat V NS).
  Local Notation ccols_of := (ccols_of V NS).
  Local Notation csigs := (csigs V NS).
  Local Notation cmat_val := (cmat_val V NS).
  Local Notation vsum := (vsum V vzero vadd).
  Local Notation loop := (ceemd_loop V vzero vadd vsub NS next_layer updn few_peaks small_mean).
  Local Notation model := (ceemd V vzero vadd vsub NS first_layer next_layer updn few_peaks small_mean).

  Lemma csigs_map : forall l : list V, csigs (map vcol l) = Some l.
  Proof. induction l as [|a t IH]; [reflexivity|]. cbn [map SkelPrims_Ensemble.csigs SkelPrims_Ensemble.vcol]. fold (map vcol t). rewrite IH. reflexivity. Qed.

  Lemma csigs_map' : forall l : list V, csigs (map (fun x : V => VSig (inl x)) l) = Some l.
  Proof. exact csigs_map. Qed.

  Lemma ccols_mat : forall l : list V, ccols_of (cmat_val l) = Some l.
  Proof.
    intros [|a [|b t]]; try reflexivity.
    unfold SkelPrims_Ensemble.cmat_val, SkelPrims_Ensemble.ccols_of. cbn [String.eqb Ascii.eqb Bool.eqb]. apply csigs_map.
  Qed.

  Lemma ccols_matrix : forall l : list V, ccols_of (VOpaque "matrix" (map vcol l)) = Some l.
  Proof. intros l. unfold SkelPrims_Ensemble.ccols_of. cbn [String.eqb Ascii.eqb Bool.eqb]. apply csigs_map. Qed.

  Lemma cmat_val_snoc : forall (l : list V) x, l <> [] -> cmat_val (l ++ [x]) = VOpaque "matrix" (map vcol (l ++ [x])).
  Proof. intros [|a [|b t]] x H; try reflexivity. contradiction. Qed.

  Definition ce_split := Eval cbv in split_at_while (spine prog_complete_ensemble_sift).
  Definition ce_pre : list stmt := match ce_split with Some (p, _, _) => p | None => [] end.
  Definition ce_cond : expr := match ce_split with Some (_, (c, _), _) => c | None => ENone end.
  Definition ce_body : stmt := match ce_split with Some (_, (_, b), _) => b | None => SSkip end.
  Definition ce_post : list stmt := match ce_split with Some (_, _, q) => q | None => [] end.

  Lemma ce_split_ok :
    split_at_while (spine prog_complete_ensemble_sift) = Some (ce_pre, (ce_cond, ce_body), ce_post).
  Proof. reflexivity. Qed.

  Ltac ev :=
    cbv beta iota zeta delta
        [exec final_env eval eval_truth bind map_res truthy do_cmp do_arith do_index nat_cmp nat_arith iter_list
         upd lookup env_of assign_all cmp_name ar_name frame overlay normal_env
         try_finish try_finish_env exn_matches
         ceemd_prims prims_of table_lookup ceemd_table keys_are is_opaque0 ensure_handler cap_val
         SkelPrims_Ensemble.vcol SkelPrims_Ensemble.vmat
         ceemd_names ceemd_env0 ceemd_args params_complete_ensemble_sift
         ce_split ce_pre ce_cond ce_body ce_post exec_list
         String.eqb Ascii.eqb Bool.eqb fst snd nth_error andb negb orb].
  Ltac ev1 := ev; repeat (progress (cbn [Nat.eqb SkelPrims_Ensemble.ccols_of]; rewrite ?csigs_map', ?rev_unit; oracle_rw); ev).
  Ltac steps :=
    set (K := exec_list P);
    assert (K_cons : forall s t f e, K (s :: t) f e =
                       match exec P s f e with Normal e' => K t f e' | o => o end) by reflexivity;
    assert (K_nil : forall f e, K [] f e = Normal e) by reflexivity;
    repeat (rewrite K_cons; ev1); rewrite ?K_nil; ev1.

  Section Fixed.
    Variable cap : option nat.
    Variable X : V.
    Variables nens en nm npr vb io eo xo : val U.     (* the parameters the code only hands on *)

    (* the environment at the loop head *)
    Definition ce_head (L : nat) (m : val U) (ns : NS) (cs : bool) (junk : string -> option (val U)) : env U :=
      env_of ceemd_names
        (overlay [ ("X", vcol X);
                   ("nensembles", nens);
                   ("ensemble_noise", en);
                   ("noise_mode", nm);
                   ("nprocesses", npr);
                   ("sift_thresh", VOpaque "sift_thresh" []);
                   ("max_imfs", cap_val cap);
                   ("verbose", vb);
                   ("imf_opts", io);
                   ("envelope_opts", eo);
                   ("extrema_opts", xo);
                   ("p", VOpaque "pool" []);
                   ("continue_sift", VBool cs);
                   ("layer", VNat L);
                   ("noise", vmat ns);
                   ("imf", m) ] junk).

    (* the loop body in two segments: the straight-line part (new layer, new noise, layer += 1) and the
       three stopping tests *)
    Definition ce_bodyA : list stmt := Eval cbv in firstn 9 (spine ce_body).
    Definition ce_bodyB : list stmt := Eval cbv in skipn 9 (spine ce_body).

    Definition ce_mid (L : nat) (m : val U) (ns : NS) (nxt : V) (cs : bool) (junk : string -> option (val U)) : env U :=
      env_of ceemd_names
        (overlay [ ("X", vcol X);
                   ("nensembles", nens);
                   ("ensemble_noise", en);
                   ("noise_mode", nm);
                   ("nprocesses", npr);
                   ("sift_thresh", VOpaque "sift_thresh" []);
                   ("max_imfs", cap_val cap);
                   ("verbose", vb);
                   ("imf_opts", io);
                   ("envelope_opts", eo);
                   ("extrema_opts", xo);
                   ("p", VOpaque "pool" []);
                   ("continue_sift", VBool cs);
                   ("layer", VNat L);
                   ("noise", vmat ns);
                   ("imf", m);
                   ("next_imf", vcol nxt) ] junk).

    Lemma ce_stepA : forall fb L m ns junk acc,
      ccols_of m = Some acc ->
      let nxt := next_layer (vsub X (vsum acc)) ns in
      exists e1, exec_list P ce_bodyA fb (ce_head L m ns true junk) = Normal e1 /\
        e1 = ce_mid (L + 1) (VOpaque "matrix" (map vcol (acc ++ [nxt]))) (nsub ns (nfirst ns)) nxt true
                    (fun x => lookup x e1).
    Proof.
      intros fb L m ns junk acc Hm nxt. subst nxt. unfold ce_head, ce_mid.
      eexists; split; [unfold ce_bodyA; steps; reflexivity | ev; reflexivity].
    Qed.

    Lemma ce_stepB : forall fb L acc ns nxt junk,
      exists e', exec_list P ce_bodyB fb (ce_mid L (VOpaque "matrix" (map vcol (acc ++ [nxt]))) ns nxt true junk)
                 = Normal e' /\
        e' = ce_head L (VOpaque "matrix" (map vcol (acc ++ [nxt]))) ns
               (negb (few_peaks nxt || cap_is cap L || small_mean nxt)) (fun x => lookup x e').
    Proof.
      intros fb L acc ns nxt junk. unfold ce_head, ce_mid, cap_is.
      destruct cap as [k|]; [destruct (Nat.eqb L k) eqn:Ek|];
        destruct (few_peaks nxt) eqn:Ef; destruct (small_mean nxt) eqn:Es;
        (eexists; split; [unfold ce_bodyB; steps; reflexivity | ev; reflexivity]).
    Qed.

    Lemma ce_body_step : forall fb L m ns junk acc,
      ccols_of m = Some acc ->
      let nxt := next_layer (vsub X (vsum acc)) ns in
      exists e', normal_env (exec P ce_body fb (ce_head L m ns true junk)) = Some e' /\
        e' = ce_head (L + 1) (VOpaque "matrix" (map vcol (acc ++ [nxt]))) (nsub ns (nfirst ns))
               (negb (few_peaks nxt || cap_is cap (L + 1) || small_mean nxt))
               (fun x => lookup x e').
    Proof.
      intros fb L m ns junk acc Hm nxt.
      rewrite exec_spine. change (spine ce_body) with (ce_bodyA ++ ce_bodyB). rewrite exec_list_app.
      destruct (ce_stepA fb L m ns junk acc Hm) as (e1 & HA & He1). fold nxt in He1. rewrite HA, He1.
      destruct (ce_stepB fb (L + 1) acc (nsub ns (nfirst ns)) nxt (fun x => lookup x e1)) as (e' & HB & He').
      exists e'. rewrite HB. split; [reflexivity | exact He'].
    Qed.

    Lemma ce_test : forall L m ns cs junk,
      eval_truth P (ce_head L m ns cs junk) ce_cond = Ok cs.
    Proof. intros. unfold ce_head. ev. reflexivity. Qed.

    (* the while loop against ceemd_loop, for every fuel: one body execution per unit of model fuel *)
    Lemma ce_while : forall fb f L acc ns junk, acc <> [] ->
      let w := while_loop (fun e' => eval_truth P e' ce_cond) (fun e' => exec P ce_body fb e') f
                          (ce_head L (cmat_val acc) ns true junk) in
      match loop f L cap X acc ns with
      | (imf', ns', true) => w = OutOfFuel
      | (imf', ns', false) =>
          exists L' junk', w = Normal (ce_head L' (cmat_val imf') ns' false junk')
      end.
    Proof.
      intros fb. induction f as [|f IH]; intros L acc ns junk Hne w; subst w.
      - cbn [ceemd_loop]. rewrite while_loop_unfold, ce_test. reflexivity.
      - cbn [ceemd_loop]. rewrite while_loop_unfold, ce_test.
        destruct (ce_body_step fb L (cmat_val acc) ns junk acc (ccols_mat acc)) as (e' & He' & Hs).
        assert (Hw : forall k,
                  match exec P ce_body fb (ce_head L (cmat_val acc) ns true junk) with
                  | Normal e1 | Continue e1 => k e1
                  | o => o
                  end = k e').
        { intros k. destruct (exec P ce_body fb _); cbn [normal_env] in He'; try discriminate;
            inversion He'; reflexivity. }
        rewrite Hw. clear Hw He'.
        rewrite <- cmat_val_snoc in Hs by exact Hne.
        rewrite Nat.add_1_r in Hs.
        fold (updn ns) in Hs.
        set (nxt := next_layer (vsub X (vsum acc)) ns) in *.
        destruct (few_peaks nxt || cap_is cap (S L) || small_mean nxt).
        + cbn [negb] in Hs. rewrite Hs. rewrite while_loop_unfold, ce_test. eexists. eexists. reflexivity.
        + cbn [negb] in Hs. rewrite Hs. apply IH. destruct acc; discriminate.
    Qed.

    Lemma ce_prefix : forall f,
      exists junk,
        exec_list P ce_pre f (ceemd_env0 V NS cap X nens en nm npr vb io eo xo) =
        Normal (ce_head 1 (vcol (first_layer X noise0)) (nsub noise0 (nfirst noise0))
                        (match cap with Some k => negb (Nat.leb k 1) | None => true end) junk).
    Proof.
      intros f.
      assert (H : exists e1,
                exec_list P ce_pre f (ceemd_env0 V NS cap X nens en nm npr vb io eo xo) = Normal e1 /\
                e1 = ce_head 1 (vcol (first_layer X noise0)) (nsub noise0 (nfirst noise0))
                             (match cap with Some k => negb (Nat.leb k 1) | None => true end)
                             (fun x => lookup x e1)).
      { unfold ce_head.
        destruct cap as [k|]; [destruct (Nat.leb k 1) eqn:Ek|];
          (eexists; split; [ev; steps; reflexivity | ev; reflexivity]). }
      destruct H as (e1 & H1 & H2). exists (fun x => lookup x e1). rewrite H1. f_equal. exact H2.
    Qed.

    Lemma ce_suffix : forall f L m ns junk,
      exec_list P ce_post f (ce_head L m ns false junk) = Return (VList [m; vmat ns]).
    Proof. intros. unfold ce_head. ev; steps; reflexivity. Qed.

    (* THE TIE for complete_ensemble_sift: the translated whole body returns exactly (the columns, the noise
       matrix) of Variants.ceemd, and runs out of fuel iff the model does - for every fuel (= bound on the
       number of layers after the first) *)
    Theorem skeleton_ceemd_refines : forall f,
      exec P prog_complete_ensemble_sift f (ceemd_env0 V NS cap X nens en nm npr vb io eo xo)
      = ceemd_render V NS (model f cap X noise0).
    Proof.
      intros f. rewrite (exec_split _ _ _ _ _ _ _ _ _ ce_split_ok).
      destruct (ce_prefix f) as (junk & Hpre). rewrite Hpre. cbn [exec].
      fold (updn noise0).
      unfold ceemd, ceemd_render.
      assert (Hstop : forall j,
                match while_loop (fun e' => eval_truth P e' ce_cond) (fun e' => exec P ce_body f e') f
                        (ce_head 1 (vcol (first_layer X noise0)) (updn noise0) false j) with
                | Normal e2 => exec_list P ce_post f e2
                | o => o
                end = Return (VList [cmat_val [first_layer X noise0]; vmat (updn noise0)])).
      { intros j. rewrite while_loop_unfold, ce_test. apply ce_suffix. }
      assert (Hgo : forall j,
                match while_loop (fun e' => eval_truth P e' ce_cond) (fun e' => exec P ce_body f e') f
                        (ce_head 1 (vcol (first_layer X noise0)) (updn noise0) true j) with
                | Normal e2 => exec_list P ce_post f e2
                | o => o
                end = let '(imf, ns, oof) := loop f 1 cap X [first_layer X noise0] (updn noise0) in
                      if oof then OutOfFuel else Return (VList [cmat_val imf; vmat ns])).
      { intros j.
        pose proof (ce_while f f 1 [first_layer X noise0] (updn noise0) j) as Hw.
        cbv zeta in Hw. change (cmat_val [first_layer X noise0]) with (vcol (first_layer X noise0)) in Hw.
        specialize (Hw ltac:(discriminate)).
        destruct (loop f 1 cap X [first_layer X noise0] (updn noise0)) as [[imf' ns'] [|]].
        - rewrite Hw. reflexivity.
        - destruct Hw as (L' & junk' & Hw). rewrite Hw. apply ce_suffix. }
      destruct cap as [k|]; [destruct (Nat.leb k 1)|]; cbn [negb]; [apply Hstop | apply Hgo | apply Hgo].
    Qed.
  End Fixed.
End CeemdTie.

(* ============================================================================================== *)
(* 2. sift_second_layer  <->  Variants.second_layer                                                *)
(* ============================================================================================== *)
Section ListFacts.
  Context {A B : Type}.

  Lemma pick_app_mid : forall (l1 : list A) a l2, pick (l1 ++ a :: l2) (length l1) = Some a.
  Proof. intros l1 a l2. unfold pick. rewrite nth_error_app2, Nat.sub_diag by lia. reflexivity. Qed.

  Lemma set_nth_app_mid : forall (l1 : list A) a b l2, set_nth (length l1) b (l1 ++ a :: l2) = (l1 ++ [b]) ++ l2.
  Proof.
    intros l1 a b l2. unfold set_nth.
    rewrite firstn_app, firstn_all, Nat.sub_diag, firstn_O, app_nil_r.
    rewrite skipn_app, (skipn_all2 (n := S (length l1))) by lia.
    replace (S (length l1) - length l1) with 1 by lia. cbn [skipn app].
    rewrite <- app_assoc. reflexivity.
  Qed.

  Lemma map_opt_length : forall (f : A -> option B) l r, map_opt f l = Some r -> length r = length l.
  Proof.
    intros f. induction l as [|a t IH]; intros r H; cbn [map_opt] in H.
    - inversion H. reflexivity.
    - destruct (f a) as [b|]; [|discriminate]. destruct (map_opt f t) as [rt|]; [|discriminate].
      inversion H. cbn [length]. rewrite (IH rt eq_refl). reflexivity.
  Qed.

  Lemma map_opt_snoc : forall (f : A -> option B) l r a b,
    map_opt f l = Some r -> f a = Some b -> map_opt f (l ++ [a]) = Some (r ++ [b]).
  Proof.
    intros f. induction l as [|x t IH]; intros r a b H Ha; cbn [map_opt app] in *.
    - inversion H. rewrite Ha. reflexivity.
    - destruct (f x) as [y|]; [|discriminate]. destruct (map_opt f t) as [rt|] eqn:Et; [|discriminate].
      inversion H. rewrite (IH rt a b eq_refl Ha). reflexivity.
  Qed.
End ListFacts.

Section SecondTie.
  Variable V : Type.
  Variable vzero : V.
  Variable sift_fn : option nat -> V -> option (list V).
  Local Notation P := (second_prims V vzero sift_fn).
  Local Notation block_val := (block_val V).
  Local Notation zero_block := (zero_block V vzero).

  Definition sl_pre : list stmt := Eval cbv in firstn 5 (spine prog_sift_second_layer).
  Definition sl_for : stmt := Eval cbv in nth 5 (spine prog_sift_second_layer) SSkip.
  Definition sl_post : list stmt := Eval cbv in skipn 6 (spine prog_sift_second_layer).
  Definition sl_iter : expr := Eval cbv in match sl_for with SFor _ it _ => it | _ => ENone end.
  Definition sl_body : stmt := Eval cbv in match sl_for with SFor _ _ b => b | _ => SSkip end.

  Ltac ev :=
    cbv beta iota zeta delta
        [exec final_env eval eval_truth bind map_res truthy do_cmp do_arith do_index nat_cmp nat_arith iter_list
         upd lookup env_of assign_all cmp_name ar_name frame overlay normal_env
         try_finish try_finish_env exn_matches
         second_prims prims_of table_lookup second_table keys_are is_opaque0 ensure_handler cap_val
         range_handler range_val sift_args_val
         second_names second_env0 params_sift_second_layer
         sl_pre sl_for sl_post sl_iter sl_body exec_list
         String.eqb Ascii.eqb Bool.eqb fst snd nth_error andb negb orb].
  Ltac ev1 := ev; repeat (progress (cbn [Nat.eqb]; rewrite ?map_length; oracle_rw); ev).
  Ltac steps :=
    set (K := exec_list P);
    assert (K_cons : forall s t f e, K (s :: t) f e =
                       match exec P s f e with Normal e' => K t f e' | o => o end) by reflexivity;
    assert (K_nil : forall f e, K [] f e = Normal e) by reflexivity;
    repeat (rewrite K_cons; ev1); rewrite ?K_nil; ev1.

  Lemma map_repeat_sig : forall (x : V) n, map (@VSig V) (repeat x n) = repeat (VSig x) n.
  Proof. intros x n. induction n as [|n IH]; [reflexivity|]. cbn [repeat map]. rewrite IH. reflexivity. Qed.

  Lemma skipn_repeat : forall (A : Type) (x : A) n k, skipn n (repeat x k) = repeat x (k - n).
  Proof.
    intros A x. induction n as [|n IH]; intros k.
    - rewrite Nat.sub_0_r. reflexivity.
    - destruct k as [|k]; [reflexivity|]. cbn [repeat skipn Nat.sub]. apply IH.
  Qed.

  (* store_block on a zero block is Variants.place *)
  Lemma store_block_place : forall k (tmp : list V),
    store_block (repeat (@VSig V vzero) k) (map VSig tmp) (map VSig tmp)
    = match place V vzero k tmp with Some b => Some (map VSig b) | None => None end.
  Proof.
    intros k tmp. unfold store_block, place. rewrite map_length, repeat_length.
    destruct (Nat.leb_spec (length tmp) k) as [Hle|Hgt].
    - rewrite Nat.min_l by exact Hle. rewrite Nat.eqb_refl.
      rewrite map_app, map_repeat_sig, skipn_repeat. reflexivity.
    - rewrite Nat.min_r by lia. destruct (Nat.eqb_spec (length tmp) k) as [E|_]; [lia|reflexivity].
  Qed.

  Section Fixed.
    Variable IA : list V.
    Variable sf : val V.
    Variable k : nat.                          (* the block width = the cap of the inner sifts *)

    Definition sl_F (col : V) : option (list V) :=
      match sift_fn (Some k) col with None => None | Some tmp => place V vzero k tmp end.

    (* the environment between iterations: bl = the blocks of imf2 *)
    Definition sl_head (bl : list (val V)) (junk : string -> option (val V)) : env V :=
      env_of second_names
        (overlay [ ("IA", VOpaque "matrix" (map VSig IA));
                   ("sift_func", sf);
                   ("sift_args", VOpaque "dict" [VNat k]);
                   ("max_imfs", VNat k);
                   ("imf2", VOpaque "array3" bl) ] junk).

    (* one iteration, ii = d, on column a, with block d still zero *)
    Lemma sl_step : forall fb d a bl junk,
      pick (map (@VSig V) IA) d = Some (VSig a) ->
      pick bl d = Some (zero_block k) ->
      let e := upd "ii" (VNat d) (sl_head bl junk) in
      match sl_F a with
      | Some blk => exists e2, normal_env (exec P sl_body fb e) = Some e2 /\
                      e2 = sl_head (set_nth d (block_val blk) bl) (fun x => lookup x e2)
      | None => exec P sl_body fb e = Raise "SiftError" \/ exec P sl_body fb e = Raise "ValueError"
      end.
    Proof.
      intros fb d a bl junk Ha Hb e. subst e. unfold sl_F, sl_head, SkelPrims_Ensemble.zero_block in *.
      destruct (sift_fn (Some k) a) as [tmp|] eqn:Es.
      - pose proof (store_block_place k tmp) as Hst.
        destruct (place V vzero k tmp) as [blk|] eqn:Ep.
        + eexists. split; [ev1; reflexivity | ev; reflexivity].
        + right. ev1. reflexivity.
      - left. ev1. reflexivity.
    Qed.

    Lemma sl_loop : forall fb rest pre done junk,
      IA = pre ++ rest -> map_opt sl_F pre = Some done ->
      let w := for_loop "ii" (fun e' => exec P sl_body fb e') (map VNat (seq (length pre) (length rest)))
                        (sl_head (map block_val done ++ repeat (zero_block k) (length rest)) junk) in
      match map_opt sl_F rest with
      | Some bl' => exists junk', w = Normal (sl_head (map block_val (done ++ bl')) junk')
      | None => w = Raise "SiftError" \/ w = Raise "ValueError"
      end.
    Proof.
      intros fb. induction rest as [|a rest IH]; intros pre done junk HIA Hdone w; subst w.
      - cbn [map_opt length seq map repeat for_loop]. rewrite !app_nil_r. exists junk. reflexivity.
      - cbn [length seq map repeat]. rewrite for_loop_cons.
        pose proof (map_opt_length _ _ _ Hdone) as Hlen.
        assert (Ha : pick (map (@VSig V) IA) (length pre) = Some (VSig a)).
        { rewrite HIA, map_app. cbn [map]. rewrite <- (map_length (@VSig V) pre). apply pick_app_mid. }
        assert (Hb : pick (map block_val done ++ zero_block k :: repeat (zero_block k) (length rest)) (length pre)
                     = Some (zero_block k)).
        { rewrite <- Hlen, <- (map_length block_val done). apply pick_app_mid. }
        pose proof (sl_step fb (length pre) a _ junk Ha Hb) as Hs. cbv zeta in Hs.
        cbn [map_opt]. destruct (sl_F a) as [blk|] eqn:EF.
        + destruct Hs as (e2 & He2 & Hs).
          assert (Hw : forall K,
                    match exec P sl_body fb (upd "ii" (VNat (length pre))
                            (sl_head (map block_val done ++ zero_block k :: repeat (zero_block k) (length rest)) junk)) with
                    | Normal e1 | Continue e1 => K e1
                    | o => o
                    end = K e2).
          { intros K. destruct (exec P sl_body fb _); cbn [normal_env] in He2; try discriminate;
              inversion He2; reflexivity. }
          rewrite Hw. clear Hw He2.
          rewrite <- Hlen, <- (map_length block_val done), set_nth_app_mid in Hs.
          change [block_val blk] with (map block_val [blk]) in Hs. rewrite <- map_app in Hs.
          rewrite Hs.
          specialize (IH (pre ++ [a]) (done ++ [blk]) (fun x => lookup x e2)).
          rewrite app_length in IH. cbn [length] in IH. rewrite Nat.add_1_r in IH.
          specialize (IH ltac:(rewrite <- app_assoc; exact HIA) (map_opt_snoc _ _ _ _ _ Hdone EF)).
          cbv zeta in IH.
          destruct (map_opt sl_F rest) as [bl'|].
          * destruct IH as (junk' & IH). exists junk'. rewrite IH. rewrite <- app_assoc. reflexivity.
          * exact IH.
        + destruct Hs as [Hs|Hs]; rewrite Hs; [left|right]; reflexivity.
    Qed.

    Lemma sl_suffix : forall f bl junk,
      exec_list P sl_post f (sl_head bl junk) = Return (VOpaque "array3" bl).
    Proof. intros. unfold sl_head. ev; steps; reflexivity. Qed.

    Lemma sl_iter_ok : forall bl junk,
      bind (eval P (sl_head bl junk) sl_iter) (iter_list P) = Ok (map VNat (seq 0 (length IA))).
    Proof. intros. unfold sl_head. ev1. reflexivity. Qed.
  End Fixed.

  Lemma sl_prefix : forall f IA sf sa,
    let k := match cap_arg_of sa with Some k => k | None => length IA end in
    exists junk,
      exec_list P sl_pre f (second_env0 V IA sf sa) = Normal (sl_head IA sf k (repeat (zero_block k) (length IA)) junk).
  Proof.
    intros f IA sf sa k.
    assert (H : exists e1, exec_list P sl_pre f (second_env0 V IA sf sa) = Normal e1 /\
                           e1 = sl_head IA sf k (repeat (zero_block k) (length IA)) (fun x => lookup x e1)).
    { subst k. unfold sl_head. destruct sa as [[c|]|]; cbn [cap_arg_of];
        (eexists; split; [ev; steps; reflexivity | ev; reflexivity]). }
    destruct H as (e1 & H1 & H2). exists (fun x => lookup x e1). rewrite H1. f_equal. exact H2.
  Qed.

  (* THE TIE for sift_second_layer: the translated whole body returns exactly the blocks of
     Variants.second_layer, and raises (the inner sift's exception, or numpy's ValueError for a decomposition
     wider than the block) exactly when the model is undefined *)
  Theorem skeleton_second_layer_refines : forall f IA sf sa,
    second_agrees V (exec P prog_sift_second_layer f (second_env0 V IA sf sa))
                  (second_layer V vzero sift_fn (cap_arg_of sa) IA).
  Proof.
    intros f IA sf sa.
    rewrite (exec_nth_split V P prog_sift_second_layer 5 sl_for f _ eq_refl).
    change (firstn 5 (spine prog_sift_second_layer)) with sl_pre.
    change (skipn 6 (spine prog_sift_second_layer)) with sl_post.
    destruct (sl_prefix f IA sf sa) as (junk & Hpre). cbv zeta in Hpre. rewrite Hpre.
    unfold second_layer.
    set (k := match cap_arg_of sa with Some k => k | None => length IA end) in *.
    change sl_for with (SFor "ii" sl_iter sl_body). rewrite exec_for, sl_iter_ok.
    pose proof (sl_loop IA sf k f IA [] [] junk eq_refl eq_refl) as Hl. cbv zeta in Hl.
    cbn [length map app] in Hl.
    change (fun col => match sift_fn (Some k) col with
                       | Some tmp => place V vzero k tmp
                       | None => None
                       end) with (sl_F k).
    unfold second_agrees.
    destruct (map_opt (sl_F k) IA) as [bl|].
    - destruct Hl as (junk' & Hl). rewrite Hl. apply sl_suffix.
    - destruct Hl as [Hl|Hl]; rewrite Hl; [left|right]; reflexivity.
  Qed.
End SecondTie.

(* ============================================================================================== *)
(* 3. _sift_with_noise  <->  Ensemble.sift_with_noise                                              *)
(* ============================================================================================== *)
Section MemberTie.
  Variable W : Type.
  Variable wadd wsub : W -> W -> W.
  Variable whalf : W -> W.
  Variable SC : Type.
  Variable wscale : SC -> W -> W.
  Variable sift_fn : option nat -> W -> option (list W).
  Variable drawn : W.
  Local Notation U := (MU W SC).
  Local Notation P := (member_prims W wadd wsub whalf SC wscale sift_fn drawn).
  Local Notation wsigs := (wsigs W SC).
  Local Notation wsig := (wsig W SC).
  Local Notation model := (sift_with_noise W wadd wsub whalf SC wscale sift_fn).

  Lemma wsigs_map : forall l : list W, wsigs (map wsig l) = Some l.
  Proof.
    induction l as [|a t IH]; [reflexivity|].
    cbn [map SkelPrims_Ensemble.wsigs SkelPrims_Ensemble.wsig]. fold (map wsig t). rewrite IH. reflexivity.
  Qed.
  Lemma wsigs_map' : forall l : list W, wsigs (map (fun x : W => VSig (inl x)) l) = Some l.
  Proof. exact wsigs_map. Qed.

  Definition mb_pre : list stmt := Eval cbv in firstn 3 (spine prog_sift_with_noise).
  Definition mb_post : list stmt := Eval cbv in skipn 3 (spine prog_sift_with_noise).

  Lemma cap_of_cap_val : forall cap, cap_of_val W SC (cap_val cap) = Some cap.
  Proof. intros [k|]; reflexivity. Qed.

  Ltac ev :=
    cbv beta iota zeta delta
        [exec final_env eval eval_truth bind map_res truthy do_cmp do_arith do_index nat_cmp nat_arith iter_list
         upd lookup env_of assign_all cmp_name ar_name frame overlay normal_env
         try_finish try_finish_env exn_matches
         member_prims prims_of table_lookup member_table sift_call keys_are is_opaque0 opt_val nm_str
         SkelPrims_Ensemble.wsig SkelPrims_Ensemble.wsc SkelPrims_Ensemble.wmat
         member_names member_env0 member_args params_sift_with_noise mb_pre mb_post exec_list
         String.eqb Ascii.eqb Bool.eqb fst snd nth_error andb negb orb].
  Ltac ev1 := ev; repeat (progress (cbn [Nat.eqb]; rewrite ?wsigs_map', ?cap_of_cap_val; oracle_rw); ev).

  Section Fixed.
    Variable X : W.
    Variable m : noise_mode.
    Variable cap : option nat.
    Variables io eo xo : val U.

    (* after the option pre-processing: noise = the scaled noise *)
    Definition mb_head (sv jv : val U) (nz : W) (junk : string -> option (val U)) : env U :=
      env_of member_names
        (overlay [ ("X", wsig X);
                   ("noise_scaling", sv);
                   ("noise", wsig nz);
                   ("noise_mode", VStr (nm_str m));
                   ("sift_thresh", VOpaque "sift_thresh" []);
                   ("max_imfs", cap_val cap);
                   ("job_ind", jv);
                   ("imf_opts", io);
                   ("envelope_opts", eo);
                   ("extrema_opts", xo) ] junk).

    Lemma mb_prefix : forall f s noise ji,
      exists sv jv junk,
        exec_list P mb_pre f (member_env0 W SC X s noise m cap ji io eo xo)
        = Normal (mb_head sv jv (scaled W SC wscale s (match noise with Some n => n | None => drawn end)) junk).
    Proof.
      intros f s noise ji.
      assert (H : exists sv jv e1,
                exec_list P mb_pre f (member_env0 W SC X s noise m cap ji io eo xo) = Normal e1 /\
                e1 = mb_head sv jv (scaled W SC wscale s (match noise with Some n => n | None => drawn end))
                             (fun x => lookup x e1)).
      { unfold mb_head, scaled.
        destruct ji, noise, s; do 3 eexists; (split; [ev1; reflexivity | ev; reflexivity]). }
      destruct H as (sv & jv & e1 & H1 & H2). exists sv, jv, (fun x => lookup x e1). rewrite H1. f_equal. exact H2.
    Qed.

    Lemma mb_suffix : forall f sv jv nz junk,
      member_agrees W SC (exec_list P mb_post f (mb_head sv jv nz junk))
        (match sift_fn cap (wadd X nz) with
         | None => None
         | Some a =>
             match m with
             | Single => Some a
             | Flip => match sift_fn cap (wsub X nz) with
                       | None => None
                       | Some b => if Nat.eqb (length a) (length b) then Some (map whalf (map2 wadd a b)) else None
                       end
             end
         end).
    Proof.
      intros f sv jv nz junk. unfold mb_head, member_agrees.
      destruct (sift_fn cap (wadd X nz)) as [a|] eqn:Ea.
      - destruct m.
        + ev1. reflexivity.
        + destruct (sift_fn cap (wsub X nz)) as [b|] eqn:Eb.
          * destruct (Nat.eqb (length a) (length b)) eqn:El; ev1; [reflexivity | right; reflexivity].
          * ev1. left. reflexivity.
      - destruct m; ev1; left; reflexivity.
    Qed.
  End Fixed.

  (* THE TIE for _sift_with_noise: the translated whole body returns exactly the decomposition of
     Ensemble.sift_with_noise (noise = the argument, or what randn returned when it is None), and raises
     exactly when the model is undefined *)
  Theorem skeleton_sift_with_noise_refines : forall f X s noise m cap ji io eo xo,
    member_agrees W SC
      (exec P prog_sift_with_noise f (member_env0 W SC X s noise m cap ji io eo xo))
      (model m cap X s (match noise with Some n => n | None => drawn end)).
  Proof.
    intros f X s noise m cap ji io eo xo.
    rewrite exec_spine.
    change (spine prog_sift_with_noise) with (mb_pre ++ mb_post). rewrite exec_list_app.
    destruct (mb_prefix X m cap io eo xo f s noise ji) as (sv & jv & junk & Hpre). rewrite Hpre.
    apply mb_suffix.
  Qed.
End MemberTie.

(* ============================================================================================== *)
(* 4. ensemble_sift  <->  Ensemble.ensemble_of_blocks                                              *)
(* ============================================================================================== *)
Section EnsembleTie.
  Variable W : Type.
  Variable wzero : W.
  Variable wadd wsub : W -> W -> W.
  Variable whalf : W -> W.
  Variable wmean : list W -> W.
  Variable SC : Type.
  Variable wscale : SC -> W -> W.
  Variable sift_fn : option nat -> W -> option (list W).
  Variable scale : SC.
  Variable blocks : list W.
  Local Notation U := (MU W SC).
  Local Notation P := (ensemble_prims W wzero wadd wsub whalf wmean SC wscale sift_fn scale blocks).
  Local Notation wsigs := (wsigs W SC).
  Local Notation wsig := (wsig W SC).
  Local Notation wmat := (wmat W SC).
  Local Notation swn := (sift_with_noise W wadd wsub whalf SC wscale sift_fn).
  Local Notation members_of := (members_of W SC).

  Lemma ens_wsigs_map : forall l : list W, wsigs (map (fun x : W => VSig (inl x)) l) = Some l.
  Proof. exact (wsigs_map W SC). Qed.

  Lemma wcols_wmat : forall r : list W, wcols_of W SC (wmat r) = Some r.
  Proof.
    intros r. unfold wcols_of, SkelPrims_Ensemble.wmat. cbn [String.eqb Ascii.eqb Bool.eqb]. apply (wsigs_map W SC).
  Qed.

  Lemma members_of_map : forall members : list (list W), members_of (map wmat members) = Some members.
  Proof.
    induction members as [|r t IH]; [reflexivity|].
    unfold SkelPrims_Ensemble.members_of in *. cbn [map map_opt]. rewrite wcols_wmat, IH. reflexivity.
  Qed.

  Lemma ens_cap_of_cap_val : forall cap, cap_of_val W SC (cap_val cap) = Some cap.
  Proof. intros [k|]; reflexivity. Qed.

  Definition en_pre : list stmt := Eval cbv in firstn 10 (spine prog_ensemble_sift).
  Definition en_for : stmt := Eval cbv in nth 10 (spine prog_ensemble_sift) SSkip.
  Definition en_post : list stmt := Eval cbv in skipn 11 (spine prog_ensemble_sift).
  Definition en_iter : expr := Eval cbv in match en_for with SFor _ it _ => it | _ => ENone end.
  Definition en_body : stmt := Eval cbv in match en_for with SFor _ _ b => b | _ => SSkip end.

  Ltac ev :=
    cbv beta iota zeta delta
        [exec final_env eval eval_truth bind map_res truthy do_cmp do_arith do_index nat_cmp nat_arith iter_list
         upd lookup env_of assign_all cmp_name ar_name frame overlay normal_env
         try_finish try_finish_env exn_matches
         ensemble_prims prims_of table_lookup ensemble_table keys_are is_opaque0 ensure_handler nm_str cap_val cap_of_val
         mode_of_val bad_mode range_handler range_val wcols_of
         SkelPrims_Ensemble.wsig SkelPrims_Ensemble.wsc SkelPrims_Ensemble.wmat
         ensemble_names ensemble_env0 ensemble_args params_ensemble_sift
         en_pre en_for en_post en_iter en_body exec_list
         String.eqb Ascii.eqb Bool.eqb fst snd nth_error andb negb orb].
  Ltac ev1 := ev; repeat (progress (cbn [Nat.eqb]; rewrite ?ens_wsigs_map, ?members_of_map; oracle_rw); ev).
  Ltac steps :=
    set (K := exec_list P);
    assert (K_cons : forall s t f e, K (s :: t) f e =
                       match exec P s f e with Normal e' => K t f e' | o => o end) by reflexivity;
    assert (K_nil : forall f e, K [] f e = Normal e) by reflexivity;
    repeat (rewrite K_cons; ev1); rewrite ?K_nil; ev1.

  Section Fixed.
    Variable X : W.
    Variable nens : nat.
    Variable m : noise_mode.
    Variable cap : option nat.
    Variables en npr vb io eo xo : val U.
    Variable members : list (list W).          (* the results of the pool *)
    Variable k : nat.                          (* the number of columns collated *)

    Definition colmean (ii : nat) : W := wmean (map (fun r => nth ii r wzero) members).

    (* imfs after d iterations: d mean columns, then the zero columns *)
    Definition en_cols_at (d : nat) : list (val U) :=
      map wsig (map colmean (seq 0 d)) ++ repeat (wsig wzero) (k - d).

    Lemma en_cols_at_length : forall d, d <= k -> length (en_cols_at d) = k.
    Proof. intros d H. unfold en_cols_at. rewrite app_length, !map_length, seq_length, repeat_length. lia. Qed.

    Lemma en_set_nth_cols : forall d, d < k -> set_nth d (wsig (colmean d)) (en_cols_at d) = en_cols_at (S d).
    Proof.
      intros d H. unfold set_nth, en_cols_at.
      assert (Hl : length (map wsig (map colmean (seq 0 d))) = d) by (rewrite !map_length; apply seq_length).
      rewrite firstn_app, Hl, Nat.sub_diag, firstn_O, app_nil_r, firstn_all2 by lia.
      rewrite skipn_app, Hl, (skipn_all2 (n := S d)) by lia. cbn [app].
      replace (S d - d) with 1 by lia.
      replace (k - d) with (S (k - S d)) by lia. cbn [repeat skipn].
      rewrite seq_snoc, !map_app, <- app_assoc. reflexivity.
    Qed.

    Definition en_head_gen (cols : list (val U)) (junk : string -> option (val U)) : env U :=
      env_of ensemble_names
        (overlay [ ("max_imfs", VNat k);
                   ("res", VOpaque "results" (map wmat members));
                   ("imfs", VOpaque "matrix" cols) ] junk).
    Definition en_head (d : nat) := en_head_gen (en_cols_at d).

    Lemma en_step : forall fb d junk, d < k ->
      let e := upd "ii" (VNat d) (en_head d junk) in
      if forallb (fun r => Nat.ltb d (length r)) members
      then exists e2, normal_env (exec P en_body fb e) = Some e2 /\ e2 = en_head (S d) (fun x => lookup x e2)
      else exec P en_body fb e = Raise "IndexError".
    Proof.
      intros fb d junk Hd e. subst e. unfold en_head, en_head_gen.
      assert (Hlt : Nat.ltb d (@length (val (W + SC)%type) (en_cols_at d)) = true)
        by (apply Nat.ltb_lt; rewrite en_cols_at_length; lia).
      destruct (forallb (fun r => Nat.ltb d (length r)) members) eqn:Ec.
      - eexists. split.
        + ev1. fold (colmean d). fold (wsig (colmean d)). rewrite (en_set_nth_cols d Hd). reflexivity.
        + ev. reflexivity.
      - ev1. reflexivity.
    Qed.

    Lemma short_member : forall d, d < k ->
      forallb (fun r => Nat.ltb d (length r)) members = false ->
      forallb (fun r : list W => Nat.leb k (length r)) members = false.
    Proof.
      intros d Hd H. destruct (forallb (fun r : list W => Nat.leb k (length r)) members) eqn:E; [|reflexivity].
      rewrite <- H. symmetry. apply forallb_forall. intros r Hr.
      rewrite forallb_forall in E. specialize (E r Hr). apply Nat.leb_le in E. apply Nat.ltb_lt. lia.
    Qed.

    Lemma en_loop : forall fb n d junk, d + n = k ->
      forallb (fun r : list W => Nat.leb d (length r)) members = true ->
      let w := for_loop "ii" (fun e' => exec P en_body fb e') (map VNat (seq d n)) (en_head d junk) in
      if forallb (fun r : list W => Nat.leb k (length r)) members
      then exists junk', w = Normal (en_head k junk')
      else w = Raise "IndexError".
    Proof.
      intros fb. induction n as [|n IH]; intros d junk Hk Hinv w; subst w.
      - cbn [seq map for_loop]. replace k with d by lia. rewrite Hinv. exists junk. reflexivity.
      - cbn [seq map]. rewrite for_loop_cons.
        assert (Hd : d < k) by lia.
        pose proof (en_step fb d junk Hd) as Hs. cbv zeta in Hs.
        destruct (forallb (fun r => Nat.ltb d (length r)) members) eqn:Ec.
        + destruct Hs as (e2 & He2 & Hs).
          assert (Hw : forall K,
                    match exec P en_body fb (upd "ii" (VNat d) (en_head d junk)) with
                    | Normal e1 | Continue e1 => K e1
                    | o => o
                    end = K e2).
          { intros K. destruct (exec P en_body fb _); cbn [normal_env] in He2; try discriminate;
              inversion He2; reflexivity. }
          rewrite Hw. clear Hw He2. rewrite Hs.
          apply IH; [lia | exact Ec].
        + rewrite Hs. rewrite (short_member d Hd Ec). reflexivity.
    Qed.

    Lemma en_iter_ok : forall cols junk,
      bind (eval P (en_head_gen cols junk) en_iter) (iter_list P) = Ok (map VNat (seq 0 k)).
    Proof. intros. unfold en_head_gen. ev1. reflexivity. Qed.

    Lemma en_suffix : forall f cols junk,
      exec_list P en_post f (en_head_gen cols junk) = Return (VOpaque "matrix" cols).
    Proof. intros. unfold en_head_gen. ev; steps; reflexivity. Qed.

    Lemma en_cols_at_0 : en_cols_at 0 = repeat (wsig wzero) k.
    Proof. unfold en_cols_at. cbn [seq map app]. rewrite Nat.sub_0_r. reflexivity. Qed.

    Lemma en_cols_at_k : en_cols_at k = map wsig (map colmean (seq 0 k)).
    Proof. unfold en_cols_at. rewrite Nat.sub_diag. cbn [repeat]. apply app_nil_r. Qed.
  End Fixed.

  Definition width_of (cap : option nat) (members : list (list W)) : nat :=
    match cap with Some k => k | None => length (hd [] members) end.

  (* the statements above the collation loop: validation, the pool, the member results, max_imfs, np.zeros *)
  Lemma en_prefix : forall f X nens m cap en npr vb io eo xo,
    Nat.eqb (length blocks) nens = true ->
    let e0 := ensemble_env0 W SC X nens en m npr cap vb io eo xo in
    match map_opt (swn m cap X (Some scale)) blocks with
    | None => exec_list P en_pre f e0 = Raise "MemberError"
    | Some members =>
        match cap, members with
        | None, [] => exec_list P en_pre f e0 = Raise "IndexError"
        | _, _ => exists junk, exec_list P en_pre f e0
                               = Normal (en_head_gen members (width_of cap members)
                                                     (repeat (wsig wzero) (width_of cap members)) junk)
        end
    end.
  Proof.
    intros f X nens m cap en npr vb io eo xo Hn e0. subst e0.
    destruct m; destruct cap as [k|];
      (destruct (map_opt _ blocks) as [members|] eqn:Em;
       [ | ev; steps; reflexivity ]).
    all: try (destruct members as [|r t]; [ev; steps; reflexivity | ]).
    all: match goal with
         | |- exists junk, ?lhs = Normal (?h ?mm ?kk ?cc junk) =>
             assert (H : exists e1, lhs = Normal e1 /\ e1 = h mm kk cc (fun x => lookup x e1));
             [ unfold en_head_gen, width_of; cbn [hd];
               eexists; split;
               [ ev; steps; cbn [map]; ev1; rewrite ?wsigs_map; reflexivity | ev; reflexivity ]
             | destruct H as (e1 & H1 & H2); exists (fun x => lookup x e1); rewrite H1; f_equal; exact H2 ]
         end.
  Qed.

  (* THE TIE for ensemble_sift: the translated whole body returns exactly the columns of
     Ensemble.ensemble_of_blocks (one _sift_with_noise per block drawn in the parent, then
     Variants.ensemble_collect), and raises exactly when that model is undefined.
     Excluded: nensembles = 0 with max_imfs = None, where the code raises IndexError (res[0]) and
     ensemble_collect returns the empty matrix - see skeleton_ensemble_empty_differs *)
  Theorem skeleton_ensemble_refines : forall f X nens m cap en npr vb io eo xo,
    length blocks = nens -> (nens = 0 -> cap <> None) ->
    ensemble_agrees W SC
      (exec P prog_ensemble_sift f (ensemble_env0 W SC X nens en m npr cap vb io eo xo))
      (ensemble_of_blocks W wzero wadd wsub whalf wmean SC wscale sift_fn m cap X scale blocks).
  Proof.
    intros f X nens m cap en npr vb io eo xo Hn Hne.
    rewrite (exec_nth_split U P prog_ensemble_sift 10 en_for f _ eq_refl).
    change (firstn 10 (spine prog_ensemble_sift)) with en_pre.
    change (skipn 11 (spine prog_ensemble_sift)) with en_post.
    assert (Hn' : Nat.eqb (length blocks) nens = true) by (apply Nat.eqb_eq; exact Hn).
    pose proof (en_prefix f X nens m cap en npr vb io eo xo Hn') as Hp. cbv zeta in Hp.
    unfold ensemble_of_blocks, ensemble_agrees.
    destruct (map_opt (swn m cap X (Some scale)) blocks) as [members|] eqn:Em.
    2:{ rewrite Hp. left. reflexivity. }
    assert (Hgo : (exists junk, exec_list P en_pre f (ensemble_env0 W SC X nens en m npr cap vb io eo xo)
                     = Normal (en_head_gen members (width_of cap members)
                                           (repeat (wsig wzero) (width_of cap members)) junk))).
    { destruct cap as [k|]; [exact Hp|].
      destruct members as [|r t]; [|exact Hp].
      exfalso. apply (Hne); [|reflexivity].
      pose proof (map_opt_length _ _ _ Em) as Hl. cbn [length] in Hl. lia. }
    clear Hp. destruct Hgo as (junk & Hpre). rewrite Hpre.
    unfold ensemble_collect. fold (width_of cap members). set (k := width_of cap members) in *.
    change en_for with (SFor "ii" en_iter en_body). rewrite exec_for, en_iter_ok.
    rewrite <- (en_cols_at_0 members k). fold (en_head members k 0 junk).
    pose proof (en_loop members k f k 0 junk eq_refl) as Hl. cbv zeta in Hl.
    specialize (Hl ltac:(apply forallb_forall; intros; reflexivity)).
    destruct (forallb (fun r : list W => Nat.leb k (length r)) members).
    - destruct Hl as (junk' & Hl). rewrite Hl. unfold en_head. rewrite en_suffix, en_cols_at_k.
      unfold SkelPrims_Ensemble.wmat. reflexivity.
    - rewrite Hl. right. reflexivity.
  Qed.

  (* the excluded input: no members and no cap - the code raises, the model returns no columns *)
  Theorem skeleton_ensemble_empty_differs : forall f X m en npr vb io eo xo,
    blocks = [] ->
    exec P prog_ensemble_sift f (ensemble_env0 W SC X 0 en m npr None vb io eo xo) = Raise "IndexError" /\
    ensemble_of_blocks W wzero wadd wsub whalf wmean SC wscale sift_fn m None X scale blocks = Some [].
  Proof.
    intros f X m en npr vb io eo xo Hb. split.
    - rewrite (exec_nth_split U P prog_ensemble_sift 10 en_for f _ eq_refl).
      change (firstn 10 (spine prog_ensemble_sift)) with en_pre.
      assert (Hn' : Nat.eqb (length blocks) 0 = true) by (rewrite Hb; reflexivity).
      pose proof (en_prefix f X 0 m None en npr vb io eo xo Hn') as Hp. cbv zeta in Hp.
      assert (Em : map_opt (swn m None X (Some scale)) blocks = Some []) by (rewrite Hb; reflexivity).
      rewrite Em in Hp. rewrite Hp. reflexivity.
    - rewrite Hb. reflexivity.
  Qed.
End EnsembleTie.
