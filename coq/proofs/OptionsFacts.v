(* Lemmas and proofs for model/Options.v (property C06).
   The generic part lives in a Section over the abstract value type: nothing in it inspects an option value.
   Facts about today's tables (gen/Gen_Defaults.v) are closed by computation: the parameter names and the
   literals are concrete even though the values are abstract. *)
From Coq Require Import ZArith List Bool String Lia.
From EmdV Require Import lib.NpLite model.Config gen.Gen_Defaults model.Options.
Import ListNotations.
Open Scope string_scope.

(* ------------------------------------------------------------------ lists *)
Lemma map_concat_repeat : forall A B (f : A -> B) (l : list A) n,
  map f (List.concat (repeat l n)) = List.concat (repeat (map f l) n).
Proof.
  intros A B f l n. induction n as [|n IH]; simpl.
  - reflexivity.
  - rewrite map_app, IH. reflexivity.
Qed.

Lemma in_concat_repeat : forall A (x : A) l n, In x (List.concat (repeat l n)) -> In x l.
Proof.
  intros A x l n. induction n as [|n IH]; simpl; intro H.
  - contradiction.
  - apply in_app_or in H. destruct H as [H|H]; auto.
Qed.

Lemma map_fst_flat_map : forall A B C (f : A -> list (B * C)) l,
  map fst (flat_map f l) = flat_map (fun x => map fst (f x)) l.
Proof.
  intros A B C f l. induction l as [|a t IH]; simpl.
  - reflexivity.
  - rewrite map_app, IH. reflexivity.
Qed.

Lemma flat_map_ext_eq : forall A B (f g : A -> list B) l,
  (forall x, f x = g x) -> flat_map f l = flat_map g l.
Proof.
  intros A B f g l H. induction l as [|a t IH]; simpl.
  - reflexivity.
  - rewrite H, IH. reflexivity.
Qed.

Lemma flat_map_map_fst : forall A B C (h : A -> list C) (l : list (A * B)),
  flat_map (fun g => h (fst g)) l = flat_map h (map fst l).
Proof.
  intros A B C h l. induction l as [|a t IH]; simpl.
  - reflexivity.
  - rewrite IH. reflexivity.
Qed.

Lemma map_tag_fst : forall A B (x : B) (l : list A), map fst (map (fun n => (n, x)) l) = l.
Proof.
  intros A B x l. induction l as [|a t IH]; simpl.
  - reflexivity.
  - rewrite IH. reflexivity.
Qed.

Lemma Forall_flat_map_intro : forall A B (P : B -> Prop) (f : A -> list B) l,
  (forall x, In x l -> Forall P (f x)) -> Forall P (flat_map f l).
Proof.
  intros A B P f l H. apply Forall_forall. intros y Hy.
  apply in_flat_map in Hy. destruct Hy as [x [Hx Hy]].
  specialize (H x Hx). rewrite Forall_forall in H. auto.
Qed.

Lemma Forall_map_intro : forall A B (P : B -> Prop) (f : A -> B) l,
  (forall x, In x l -> P (f x)) -> Forall P (map f l).
Proof.
  intros A B P f l H. apply Forall_forall. intros y Hy.
  apply in_map_iff in Hy. destruct Hy as [x [E Hx]]. subst y. auto.
Qed.

Lemma Forall_app_intro : forall A (P : A -> Prop) l m, Forall P l -> Forall P m -> Forall P (l ++ m).
Proof.
  intros A P l m Hl Hm. apply Forall_forall. intros x Hx.
  rewrite Forall_forall in Hl, Hm. apply in_app_or in Hx. destruct Hx; auto.
Qed.

Section Facts.
  Variable V : Type.
  Variable vfalsy : V -> bool.
  Variable inj : val -> V.

  Local Notation obj := (Options.obj V).
  Local Notation kwargs := (Options.kwargs V).
  Local Notation call := (Options.call V).
  Local Notation ginv := (Options.ginv V).
  Local Notation uopts := (Options.uopts V).
  Local Notation sites := (Options.sites V).
  Local Notation kget := (Options.kget V).
  Local Notation kset := (Options.kset V).
  Local Notation kval := (Options.kval V).
  Local Notation dict_kids := (Options.dict_kids V).
  Local Notation overrides := (Options.overrides V).
  Local Notation falsy := (Options.falsy V vfalsy).
  Local Notation is_none := (Options.is_none V).
  Local Notation of_tree := (Options.of_tree V inj).
  Local Notation G_PARAMS := (Options.G_PARAMS V inj).
  Local Notation E_PARAMS := (Options.E_PARAMS V inj).
  Local Notation P_PARAMS := (Options.P_PARAMS V inj).
  Local Notation own := (Options.own V).
  Local Notation bind_params := (Options.bind_params V).
  Local Notation fallback := (Options.fallback V vfalsy inj).
  Local Notation effective := (Options.effective V vfalsy inj).
  Local Notation key := (Options.key V vfalsy inj).
  Local Notation G_calls := (Options.G_calls V vfalsy inj).
  Local Notation expand := (Options.expand V vfalsy inj).
  Local Notation gni_kw := (Options.gni_kw V).
  Local Notation kw3 := (Options.kw3 V).
  Local Notation sift_entry := (Options.sift_entry V vfalsy inj).
  Local Notation swn_entry := (Options.swn_entry V vfalsy inj).
  Local Notation members := (Options.members V vfalsy inj).
  Local Notation ensemble_entry := (Options.ensemble_entry V vfalsy inj).
  Local Notation noise_sifts := (Options.noise_sifts V vfalsy inj).
  Local Notation mask_freqs := (Options.mask_freqs V vfalsy inj).
  Local Notation next_imf_mask := (Options.next_imf_mask V vfalsy inj).
  Local Notation repaired := (Options.repaired V vfalsy inj).
  Local Notation ceemd_entry := (Options.ceemd_entry V vfalsy inj).
  Local Notation mask_entry := (Options.mask_entry V inj).
  Local Notation second_entry := (Options.second_entry V).
  Local Notation entry := (Options.entry V vfalsy inj).
  Local Notation keyword_kw := (Options.keyword_kw V).
  Local Notation cfg_store := (Options.cfg_store V inj).
  Local Notation config_kw := (Options.config_kw V inj).
  Local Notation ginvs := (Options.ginvs V vfalsy inj).
  Local Notation calls := (Options.calls V vfalsy inj).
  Local Notation expected_for_stage := (Options.expected_for_stage V vfalsy inj).
  Local Notation direct_calls := (Options.direct_calls V vfalsy inj).
  Local Notation bundle_ok := (Options.bundle_ok V).
  Local Notation uopts_ok := (Options.uopts_ok V).
  Local Notation u_imf := (Options.u_imf V).
  Local Notation u_env := (Options.u_env V).
  Local Notation u_ext := (Options.u_ext V).
  Local Notation u_bundle := (Options.u_bundle V).

  (* ---------------------------------------------------------------- dictionaries *)
  Lemma kget_kset_same : forall k v (l : kwargs), kget k (kset k v l) = Some v.
  Proof.
    intros k v l. induction l as [|[a w] t IH]; simpl.
    - rewrite String.eqb_refl. reflexivity.
    - destruct (String.eqb k a) eqn:E; simpl; rewrite E; auto.
  Qed.

  Lemma kget_kset_other : forall k k' v (l : kwargs),
    String.eqb k' k = false -> kget k' (kset k v l) = kget k' l.
  Proof.
    intros k k' v l H. induction l as [|[a w] t IH]; simpl.
    - rewrite H. reflexivity.
    - destruct (String.eqb k a) eqn:E; simpl.
      + apply String.eqb_eq in E. subst a. rewrite H. reflexivity.
      + destruct (String.eqb k' a); auto.
  Qed.

  Lemma kget_overrides : forall p (base u : kwargs),
    kget p (overrides base u) = match kget p u with Some v => Some v | None => kget p base end.
  Proof.
    intros p base u. induction u as [|[a w] t IH]; simpl.
    - reflexivity.
    - destruct (String.eqb p a) eqn:E.
      + apply String.eqb_eq in E. subst a. apply kget_kset_same.
      + rewrite kget_kset_other by exact E. exact IH.
  Qed.

  Lemma kset_nonempty : forall k v (l : kwargs), kset k v l <> [].
  Proof.
    intros k v l. destruct l as [|[a w] t]; simpl.
    - discriminate.
    - destruct (String.eqb k a); discriminate.
  Qed.

  Lemma overrides_nonempty : forall (base u : kwargs), base <> [] -> overrides base u <> [].
  Proof.
    intros base u H. destruct u as [|[a w] t]; simpl.
    - exact H.
    - apply kset_nonempty.
  Qed.

  Lemma kget_bind : forall p (ps kw : kwargs),
    kget p (bind_params ps kw)
    = match kget p ps with
      | Some d => Some (match kget p kw with Some v => v | None => d end)
      | None => None
      end.
  Proof.
    intros p ps kw. induction ps as [|[a d] t IH]; simpl.
    - reflexivity.
    - destruct (String.eqb p a) eqn:E.
      + apply String.eqb_eq in E. subst a. reflexivity.
      + exact IH.
  Qed.

  Lemma kget_map_f : forall (f : string -> obj -> obj) p (l : kwargs),
    kget p (map (fun kv => (fst kv, f (fst kv) (snd kv))) l)
    = match kget p l with Some v => Some (f p v) | None => None end.
  Proof.
    intros f p l. induction l as [|[a d] t IH]; simpl.
    - reflexivity.
    - destruct (String.eqb p a) eqn:E.
      + apply String.eqb_eq in E. subst a. reflexivity.
      + exact IH.
  Qed.

  Lemma kget_filter : forall (g : string -> bool) p (l : kwargs),
    g p = true -> kget p (filter (fun kv => g (fst kv)) l) = kget p l.
  Proof.
    intros g p l Hg. induction l as [|[a d] t IH]; simpl.
    - reflexivity.
    - destruct (g a) eqn:Ga; simpl.
      + destruct (String.eqb p a); auto.
      + destruct (String.eqb p a) eqn:E; auto.
        apply String.eqb_eq in E. subst a. rewrite Hg in Ga. discriminate.
  Qed.

  (* f-images of the bound arguments do not change when a dictionary is laid over one that f cannot tell from
     the defaults *)
  Lemma bind_overrides_f : forall (f : string -> obj -> obj) (ps base uk : kwargs),
    (forall p d, In (p, d) ps -> f p (match kget p base with Some v => v | None => d end) = f p d) ->
    map (fun kv => (fst kv, f (fst kv) (snd kv))) (bind_params ps (overrides base uk))
    = map (fun kv => (fst kv, f (fst kv) (snd kv))) (bind_params ps uk).
  Proof.
    intros f ps base uk H. unfold Options.bind_params. rewrite !map_map.
    apply map_ext_in. intros [p d] Hin. simpl.
    rewrite kget_overrides. destruct (kget p uk) as [v|].
    - reflexivity.
    - rewrite (H p d Hin). reflexivity.
  Qed.

  Lemma bind_overrides : forall (ps base uk : kwargs),
    (forall p d, In (p, d) ps -> match kget p base with Some v => v | None => d end = d) ->
    bind_params ps (overrides base uk) = bind_params ps uk.
  Proof.
    intros ps base uk H. unfold Options.bind_params.
    apply map_ext_in. intros [p d] Hin. simpl.
    rewrite kget_overrides. destruct (kget p uk) as [v|].
    - reflexivity.
    - rewrite (H p d Hin). reflexivity.
  Qed.

  Lemma forallb_kget : forall (allowed : list string) (kids : kwargs) k v,
    forallb (fun kv => mem_str (fst kv) allowed) kids = true -> kget k kids = Some v -> mem_str k allowed = true.
  Proof.
    intros allowed kids k v. induction kids as [|[a w] t IH]; simpl; intros Hf Hg.
    - discriminate.
    - apply andb_true_iff in Hf. destruct Hf as [Ha Ht].
      destruct (String.eqb k a) eqn:E.
      + apply String.eqb_eq in E. subst a. exact Ha.
      + auto.
  Qed.

  (* a truthy value passes every fall-back test unchanged *)
  Lemma fallback_truthy : forall fn p (x : obj), falsy x = false -> fallback fn p x = x.
  Proof.
    intros fn p x H. unfold Options.fallback.
    destruct (lookup fn fallbacks) as [l|]; [|reflexivity].
    destruct (lookup p l) as [[by_truth lit]|]; [|reflexivity].
    destruct by_truth.
    - rewrite H. reflexivity.
    - destruct x; simpl in *; try reflexivity. discriminate.
  Qed.

  (* ---------------------------------------------------------------- one get_next_imf invocation *)
  Definition fbP (kv : string * obj) : string * obj := (fst kv, fallback "get_padded_extrema" (fst kv) (snd kv)).

  (* what the envelope / extrema stages end up with, as a function of what get_next_imf received *)
  Definition eff_E (eo : obj) : kwargs :=
    bind_params (own E_PARAMS) (dict_kids (fallback "get_next_imf" "envelope_opts" eo)).
  Definition eff_P (xo : obj) : kwargs :=
    map fbP (bind_params P_PARAMS (dict_kids (fallback "interp_envelope" "extrema_opts" xo))).

  Definition iter_keys (e p : kwargs) : list (stage * kwargs) :=
    [(SE Upper, e); (SP Upper, p); (SE Lower, e); (SP Lower, p)].
  Definition gkey (n : nat) (g e p : kwargs) : list (stage * kwargs) :=
    (SG, g) :: List.concat (repeat (iter_keys e p) n).

  Lemma G_key : forall n (io eo xo : obj),
    map key (G_calls n (gni_kw io eo xo))
    = gkey n (bind_params (own G_PARAMS) (dict_kids io)) (eff_E eo) (eff_P xo).
  Proof.
    intros n io eo xo. unfold Options.G_calls, gkey. cbn [map].
    assert (E0 : forall A (a b : A) l m, a = b -> l = m -> a :: l = b :: m) by (intros; subst; reflexivity).
    apply E0.
    - vm_compute. reflexivity.
    - rewrite map_concat_repeat.
      match goal with
      | |- List.concat (repeat ?a n) = List.concat (repeat ?b n) =>
          assert (E : a = b) by (vm_compute; reflexivity); rewrite E; reflexivity
      end.
  Qed.


  (* ---------------------------------------------------------------- keyword arguments of the entry points *)
  Local Notation arg := (Options.arg V inj).

  Lemma arg_kval : forall fn p (kw : kwargs),
    of_tree (sig_default sig_defaults fn p) = ONone -> arg fn kw p = kval p kw.
  Proof.
    intros fn p kw H. unfold Options.arg, Options.kval. rewrite H. reflexivity.
  Qed.

  (* ---------------------------------------------------------------- iteration structure does not depend on options *)
  Lemma fst_sift : forall sh kw, map fst (sift_entry sh kw) = sh.
  Proof. intros sh kw. unfold Options.sift_entry. apply map_tag_fst. Qed.

  Definition swn_skel (s : swn_shape) : list nat :=
    (fst s ++ match snd s with Some s2 => s2 | None => [] end)%list.

  Lemma fst_swn : forall s kw, map fst (swn_entry s kw) = swn_skel s.
  Proof.
    intros [s1 o] kw. unfold Options.swn_entry, swn_skel. simpl. rewrite map_app, fst_sift.
    destruct o as [s2|]; [rewrite fst_sift|]; reflexivity.
  Qed.

  Lemma fst_members : forall shs io eo xo, map fst (members shs io eo xo) = flat_map swn_skel shs.
  Proof.
    intros shs io eo xo. unfold Options.members. rewrite map_fst_flat_map.
    apply flat_map_ext_eq. intro s. apply fst_swn.
  Qed.

  Lemma fst_noise : forall shs io eo xo, map fst (noise_sifts shs io eo xo) = flat_map (fun s => s) shs.
  Proof.
    intros shs io eo xo. unfold Options.noise_sifts. rewrite map_fst_flat_map.
    apply flat_map_ext_eq. intro s. apply fst_sift.
  Qed.

  Lemma fst_gmf : forall sh io eo xo,
    map fst (mask_freqs sh io eo xo) = match sh with Some n => [n] | None => [] end.
  Proof. intros [n|] io eo xo; reflexivity. Qed.

  Lemma fst_gnim : forall sh kw, map fst (next_imf_mask sh kw) = sh.
  Proof. intros sh kw. unfold Options.next_imf_mask. apply map_tag_fst. Qed.

  Lemma fst_mask : forall sh kw,
    map fst (mask_entry repaired sh kw)
    = (match fst sh with Some n => [n] | None => [] end ++ flat_map (fun l => l) (snd sh))%list.
  Proof.
    intros [o ls] kw. unfold Options.mask_entry. cbn [fst snd Options.s_gmf Options.s_gnim Options.repaired]. rewrite map_app, fst_gmf. f_equal.
    etransitivity; [apply map_fst_flat_map|]. apply flat_map_ext_eq. intro l. apply fst_gnim.
  Qed.

  Lemma fst_entry : forall v sh kw kw',
    map fst (entry repaired v sh kw) = map fst (entry repaired v sh kw').
  Proof.
    intros v sh kw kw'. destruct v; unfold Options.entry.
    - rewrite !fst_sift. reflexivity.
    - unfold Options.ensemble_entry. rewrite !fst_members. reflexivity.
    - unfold Options.ceemd_entry. rewrite !map_fst_flat_map. apply flat_map_ext_eq. intro layer.
      simpl. rewrite !map_app, !fst_members, !fst_noise. reflexivity.
    - rewrite !fst_mask. reflexivity.
    - unfold Options.second_entry. rewrite !map_fst_flat_map. apply flat_map_ext_eq. intro s.
      rewrite !fst_sift. reflexivity.
    - unfold Options.second_entry. rewrite !map_fst_flat_map. apply flat_map_ext_eq. intro s.
      rewrite !fst_mask. reflexivity.
  Qed.

  Lemma ginvs_partial : forall (S : sites) v sh (u : uopts), ginvs S v RPartial sh u = ginvs S v RConfig sh u.
  Proof. intros S v sh u. destruct v; reflexivity. Qed.

  (* ---------------------------------------------------------------- the user's options, fixed *)
  Section U.
    Variable u : uopts.
    Local Notation exp := (expected_for_stage u).

    Definition ukey (n : nat) : list (stage * kwargs) := gkey n (exp SG) (exp (SE Upper)) (exp (SP Upper)).

    Lemma ukey_in : forall n s e, In (s, e) (ukey n) -> e = exp s.
    Proof.
      intros n s e H. unfold ukey, gkey in H. destruct H as [H|H].
      - inversion H. reflexivity.
      - apply in_concat_repeat in H. unfold iter_keys in H.
        repeat (destruct H as [H|H]; [inversion H; reflexivity|]). contradiction.
    Qed.

    Definition IMF_FNS : list string := ["sift"; "get_mask_freqs"; "get_next_imf_mask"].

    (* bundles as they arrive somewhere, worth the same as the user's at every stage *)
    Definition bundles_ok (io eo xo : obj) : Prop :=
      (forall fn, In fn IMF_FNS ->
         bind_params (own G_PARAMS) (dict_kids (fallback fn "imf_opts" io)) = exp SG)
      /\ eff_E eo = exp (SE Upper) /\ eff_P xo = exp (SP Upper).

    (* a get_next_imf invocation that received such bundles *)
    Definition good (g : ginv) : Prop :=
      exists io eo xo, snd g = gni_kw io eo xo
        /\ bind_params (own G_PARAMS) (dict_kids io) = exp SG
        /\ eff_E eo = exp (SE Upper) /\ eff_P xo = exp (SP Upper).

    Lemma expand_good : forall l, Forall good l -> map key (expand l) = flat_map (fun g => ukey (fst g)) l.
    Proof.
      intros l H. induction H as [|g t Hg Ht IH].
      - reflexivity.
      - destruct g as [n kw]. destruct Hg as (io & eo & xo & E & H1 & H2 & H3).
        cbn [snd] in E. subst kw.
        unfold Options.expand in *. cbn [flat_map fst snd]. rewrite map_app, IH. f_equal.
        rewrite G_key, H1, H2, H3. reflexivity.
    Qed.

    Lemma sift_entry_good : forall sh kw io eo xo,
      arg "sift" kw "imf_opts" = io -> arg "sift" kw "envelope_opts" = eo -> arg "sift" kw "extrema_opts" = xo ->
      bundles_ok io eo xo -> Forall good (sift_entry sh kw).
    Proof.
      intros sh kw io eo xo E1 E2 E3 (H1 & H2 & H3). unfold Options.sift_entry.
      apply Forall_map_intro. intros n _. rewrite E1, E2, E3.
      exists (fallback "sift" "imf_opts" io), eo, xo. simpl. repeat split; auto.
      apply H1. simpl. auto.
    Qed.

    Lemma swn_entry_good : forall s kw io eo xo,
      arg "_sift_with_noise" kw "imf_opts" = io -> arg "_sift_with_noise" kw "envelope_opts" = eo ->
      arg "_sift_with_noise" kw "extrema_opts" = xo ->
      bundles_ok io eo xo -> Forall good (swn_entry s kw).
    Proof.
      intros [s1 o] kw io eo xo E1 E2 E3 H. unfold Options.swn_entry. rewrite E1, E2, E3. simpl.
      apply Forall_app_intro.
      - apply sift_entry_good with (io := io) (eo := eo) (xo := xo); try reflexivity. exact H.
      - destruct o as [s2|]; [|constructor].
        apply sift_entry_good with (io := io) (eo := eo) (xo := xo); try reflexivity. exact H.
    Qed.

    Lemma members_good : forall shs io eo xo, bundles_ok io eo xo -> Forall good (members shs io eo xo).
    Proof.
      intros shs io eo xo H. unfold Options.members. apply Forall_flat_map_intro. intros s _.
      apply swn_entry_good with (io := io) (eo := eo) (xo := xo); try reflexivity. exact H.
    Qed.

    Lemma noise_sifts_good : forall shs io eo xo, bundles_ok io eo xo -> Forall good (noise_sifts shs io eo xo).
    Proof.
      intros shs io eo xo H. unfold Options.noise_sifts. apply Forall_flat_map_intro. intros s _.
      apply sift_entry_good with (io := io) (eo := eo) (xo := xo); try reflexivity. exact H.
    Qed.

    Lemma mask_freqs_good : forall sh io eo xo, bundles_ok io eo xo -> Forall good (mask_freqs sh io eo xo).
    Proof.
      intros [n|] io eo xo (H1 & H2 & H3); simpl; [|constructor].
      constructor; [|constructor].
      exists (fallback "get_mask_freqs" "imf_opts" io), eo, xo. simpl. repeat split; auto.
      apply H1. simpl. auto.
    Qed.

    Lemma next_imf_mask_good : forall sh kw io eo xo,
      arg "get_next_imf_mask" kw "imf_opts" = io -> arg "get_next_imf_mask" kw "envelope_opts" = eo ->
      arg "get_next_imf_mask" kw "extrema_opts" = xo ->
      bundles_ok io eo xo -> Forall good (next_imf_mask sh kw).
    Proof.
      intros sh kw io eo xo E1 E2 E3 (H1 & H2 & H3). unfold Options.next_imf_mask.
      apply Forall_map_intro. intros n _. rewrite E1, E2, E3.
      exists (fallback "get_next_imf_mask" "imf_opts" io), eo, xo. simpl. repeat split; auto.
      apply H1. simpl. auto.
    Qed.

    Lemma mask_entry_good : forall sh kw,
      bundles_ok (kval "imf_opts" kw) (kval "envelope_opts" kw) (kval "extrema_opts" kw) ->
      Forall good (mask_entry repaired sh kw).
    Proof.
      intros [o ls] kw H. unfold Options.mask_entry. rewrite !arg_kval by reflexivity. simpl.
      apply Forall_app_intro.
      - apply mask_freqs_good. exact H.
      - apply Forall_flat_map_intro. intros l _.
        eapply next_imf_mask_good; try reflexivity. exact H.
    Qed.

    Lemma entry_good : forall v sh kw,
      bundles_ok (kval "imf_opts" kw) (kval "envelope_opts" kw) (kval "extrema_opts" kw) ->
      Forall good (entry repaired v sh kw).
    Proof.
      intros v sh kw H. destruct v; unfold Options.entry.
      - eapply sift_entry_good; try (apply arg_kval; reflexivity). exact H.
      - unfold Options.ensemble_entry. rewrite !arg_kval by reflexivity. apply members_good. exact H.
      - unfold Options.ceemd_entry. rewrite !arg_kval by reflexivity.
        apply Forall_flat_map_intro. intros layer _. simpl. apply Forall_app_intro.
        + apply members_good. exact H.
        + apply noise_sifts_good. exact H.
      - apply mask_entry_good. exact H.
      - unfold Options.second_entry. apply Forall_flat_map_intro. intros s _.
        eapply sift_entry_good; try (apply arg_kval; reflexivity). exact H.
      - unfold Options.second_entry. apply Forall_flat_map_intro. intros s _.
        apply mask_entry_good. exact H.
    Qed.

    (* ---------------------------------------------------------------- routes *)
    Hypothesis Hok : uopts_ok u = true.

    Lemma guard_parts : bundle_ok (Options.G_KEYS) (u_imf u) = true
                        /\ bundle_ok (Options.E_KEYS) (u_env u) = true
                        /\ bundle_ok (Options.P_KEYS) (u_ext u) = true.
    Proof.
      unfold Options.uopts_ok in Hok. apply andb_true_iff in Hok. destruct Hok as [H12 H3].
      apply andb_true_iff in H12. destruct H12 as [H1 H2]. auto.
    Qed.

    Lemma kval_keyword : kval "imf_opts" (keyword_kw u) = u_imf u
                         /\ kval "envelope_opts" (keyword_kw u) = u_env u
                         /\ kval "extrema_opts" (keyword_kw u) = u_ext u.
    Proof.
      unfold Options.keyword_kw, Options.kw3.
      destruct (u_imf u), (u_env u), (u_ext u); repeat split; reflexivity.
    Qed.

    Lemma keyword_bundles : bundles_ok (u_imf u) (u_env u) (u_ext u).
    Proof.
      destruct guard_parts as (G1 & G2 & G3).
      unfold bundles_ok, eff_E, eff_P, Options.expected_for_stage.
      split; [|split].
      - intros fn Hfn. simpl in Hfn.
        destruct (u_imf u) as [|v|[|a t]]; try discriminate G1;
          destruct Hfn as [<-|[<-|[<-|[]]]]; vm_compute; reflexivity.
      - destruct (u_env u) as [|v|kids]; try discriminate G2; reflexivity.
      - destruct (u_ext u) as [|v|[|a t]]; try discriminate G3; vm_compute; reflexivity.
    Qed.

    (* get_config's bundles with the user's keys laid over them *)
    Definition cfg_bundle (name b : string) : kwargs := dict_kids (kval b (cfg_store name)).

    Lemma config_kval : forall name,
      kval "imf_opts" (config_kw name u) = ODict (overrides (cfg_bundle name "imf_opts") (dict_kids (u_imf u)))
      /\ kval "envelope_opts" (config_kw name u)
         = ODict (overrides (cfg_bundle name "envelope_opts") (dict_kids (u_env u)))
      /\ kval "extrema_opts" (config_kw name u)
         = ODict (overrides (cfg_bundle name "extrema_opts") (dict_kids (u_ext u))).
    Proof.
      intro name. unfold Options.config_kw, Options.cfg_set_bundle, cfg_bundle, Options.kval.
      repeat split.
      - rewrite kget_kset_other by reflexivity. rewrite kget_kset_other by reflexivity.
        rewrite kget_kset_same. reflexivity.
      - rewrite kget_kset_other by reflexivity. rewrite kget_kset_same.
        rewrite kget_kset_other by reflexivity. reflexivity.
      - rewrite kget_kset_same. rewrite kget_kset_other by reflexivity.
        rewrite kget_kset_other by reflexivity. reflexivity.
    Qed.

    Definition CFG_NAMES : list string := ["sift"; "ensemble_sift"; "complete_ensemble_sift"; "mask_sift"].

    Ltac in_cases H :=
      vm_compute in H;
      repeat (destruct H as [H|H]; [inversion H; subst; clear H; vm_compute; reflexivity|]);
      contradiction.

    (* today's get_config trees cannot be told from the defaults (re-proved against the generated tables) *)
    Lemma cfg_tables : forall name, In name CFG_NAMES ->
      cfg_bundle name "imf_opts" <> [] /\ cfg_bundle name "extrema_opts" <> []
      /\ (forall p d, In (p, d) (own G_PARAMS) ->
            match kget p (cfg_bundle name "imf_opts") with Some v => v | None => d end = d)
      /\ (forall p d, In (p, d) (own E_PARAMS) ->
            match kget p (cfg_bundle name "envelope_opts") with Some v => v | None => d end = d)
      /\ (forall p d, In (p, d) P_PARAMS ->
            fallback "get_padded_extrema" p
              (match kget p (cfg_bundle name "extrema_opts") with Some v => v | None => d end)
            = fallback "get_padded_extrema" p d).
    Proof.
      intros name Hn. simpl in Hn.
      destruct Hn as [<-|[<-|[<-|[<-|[]]]]];
        (split; [vm_compute; discriminate|]); (split; [vm_compute; discriminate|]);
        (split; [intros p d H; in_cases H|]); (split; [intros p d H; in_cases H|]);
        intros p d H; in_cases H.
    Qed.

    Lemma config_bundles : forall name, In name CFG_NAMES ->
      bundles_ok (kval "imf_opts" (config_kw name u)) (kval "envelope_opts" (config_kw name u))
                 (kval "extrema_opts" (config_kw name u)).
    Proof.
      intros name Hn. destruct (config_kval name) as (-> & -> & ->).
      destruct (cfg_tables name Hn) as (N1 & N3 & T1 & T2 & T3).
      unfold bundles_ok, eff_E, eff_P, Options.expected_for_stage.
      split; [|split].
      - intros fn Hfn.
        pose proof (overrides_nonempty (cfg_bundle name "imf_opts") (dict_kids (u_imf u)) N1) as Hne.
        destruct (overrides (cfg_bundle name "imf_opts") (dict_kids (u_imf u))) as [|a t] eqn:Eo;
          [contradiction|].
        assert (Ef : fallback fn "imf_opts" (ODict (a :: t)) = ODict (a :: t))
          by (apply fallback_truthy; reflexivity).
        rewrite Ef. simpl Options.dict_kids. rewrite <- Eo. apply bind_overrides. exact T1.
      - assert (Ef : forall l, fallback "get_next_imf" "envelope_opts" (ODict l) = ODict l) by reflexivity.
        rewrite Ef. simpl Options.dict_kids. apply bind_overrides. exact T2.
      - pose proof (overrides_nonempty (cfg_bundle name "extrema_opts") (dict_kids (u_ext u)) N3) as Hne.
        destruct (overrides (cfg_bundle name "extrema_opts") (dict_kids (u_ext u))) as [|a t] eqn:Eo;
          [contradiction|].
        assert (Ef : fallback "interp_envelope" "extrema_opts" (ODict (a :: t)) = ODict (a :: t))
          by (apply fallback_truthy; reflexivity).
        rewrite Ef. simpl Options.dict_kids. rewrite <- Eo.
        apply (bind_overrides_f (fallback "get_padded_extrema")). exact T3.
    Qed.

    Lemma cfg_name_known : forall v, In (cfg_name v) CFG_NAMES.
    Proof. intro v. destruct v; simpl; auto. Qed.

    Lemma all_good : forall v r sh, Forall good (ginvs repaired v r sh u).
    Proof.
      intros v r sh. destruct r.
      - unfold Options.ginvs. apply entry_good.
        destruct kval_keyword as (-> & -> & ->). apply keyword_bundles.
      - unfold Options.ginvs. apply entry_good. apply config_bundles. apply cfg_name_known.
      - rewrite ginvs_partial. unfold Options.ginvs. apply entry_good. apply config_bundles. apply cfg_name_known.
    Qed.

    (* ---------------------------------------------------------------- the theorems *)
    Theorem calls_canonical : forall v r sh,
      map key (calls repaired v r sh u) = flat_map ukey (map fst (ginvs repaired v r sh u)).
    Proof.
      intros v r sh. unfold Options.calls. rewrite (expand_good _ (all_good v r sh)).
      apply flat_map_map_fst.
    Qed.

    Theorem options_reach_stages : forall v r sh c,
      In c (calls repaired v r sh u) -> effective c = exp (Options.c_stage V c).
    Proof.
      intros v r sh c Hc.
      assert (Hk : In (key c) (map key (calls repaired v r sh u))) by (apply in_map; exact Hc).
      rewrite calls_canonical in Hk. apply in_flat_map in Hk. destruct Hk as [n [_ Hk]].
      apply ukey_in in Hk. exact Hk.
    Qed.

    Theorem routes_agree : forall v sh,
      map key (calls repaired v RKeyword sh u) = map key (calls repaired v RConfig sh u)
      /\ calls repaired v RPartial sh u = calls repaired v RConfig sh u.
    Proof.
      intros v sh. split.
      - rewrite !calls_canonical. f_equal. unfold Options.ginvs. apply fst_entry.
      - unfold Options.calls. rewrite ginvs_partial. reflexivity.
    Qed.

    (* the keys a stage accepts are parameters of that stage: the expected table has an entry for each *)
    Lemma stage_key_param : forall s k, mem_str k (Options.stage_keys s) = true ->
      exists d, kget k (exp s)
        = Some (fallback (stage_fn s) k
                  (match kget k (dict_kids (u_bundle u s)) with Some v => v | None => d end)).
    Proof.
      intros s k Hk.
      assert (Hcases : forall l, mem_str k l = true -> exists a, In a l /\ k = a).
      { intros l Hl. unfold mem_str in Hl. apply existsb_exists in Hl. destruct Hl as [a [Ha E]].
        apply String.eqb_eq in E. exists a. auto. }
      destruct (Hcases _ Hk) as [a [Ha ->]]. clear Hk Hcases.
      destruct s as [|m|m]; unfold Options.stage_keys in Ha; vm_compute in Ha;
        repeat (destruct Ha as [Ha|Ha];
                [subst a; unfold Options.expected_for_stage, Options.u_bundle; try rewrite kget_map_f;
                 rewrite kget_bind; eexists; vm_compute; reflexivity|]);
        contradiction.
    Qed.

    Theorem no_option_dropped : forall v r sh c k x,
      In c (calls repaired v r sh u) ->
      kget k (dict_kids (u_bundle u (Options.c_stage V c))) = Some x ->
      kget k (effective c) = Some (fallback (stage_fn (Options.c_stage V c)) k x).
    Proof.
      intros v r sh c k x Hc Hk.
      rewrite (options_reach_stages v r sh c Hc).
      set (s := Options.c_stage V c) in *.
      assert (Hmem : mem_str k (Options.stage_keys s) = true).
      { destruct guard_parts as (G1 & G2 & G3).
        destruct s as [|m|m]; unfold Options.u_bundle in Hk; simpl Options.stage_keys.
        - destruct (u_imf u) as [|w|kids]; simpl in Hk; try discriminate. eapply forallb_kget; eauto.
        - destruct (u_env u) as [|w|kids]; simpl in Hk; try discriminate. eapply forallb_kget; eauto.
        - destruct (u_ext u) as [|w|kids]; simpl in Hk; try discriminate. eapply forallb_kget; eauto. }
      destruct (stage_key_param s k Hmem) as [d E]. rewrite E, Hk. reflexivity.
    Qed.

    (* a supplied value that is truthy is exactly what the stage works with *)
    Corollary supplied_value_kept : forall v r sh c k x,
      In c (calls repaired v r sh u) ->
      kget k (dict_kids (u_bundle u (Options.c_stage V c))) = Some x -> falsy x = false ->
      kget k (effective c) = Some x.
    Proof.
      intros v r sh c k x Hc Hk Hx. rewrite (no_option_dropped v r sh c k x Hc Hk).
      rewrite fallback_truthy by exact Hx. reflexivity.
    Qed.

    (* [expected_for_stage] is what the stages see when get_next_imf is called by hand with the user's dictionaries *)
    Theorem expected_is_direct_pipeline : forall n c,
      In c (direct_calls n u) -> effective c = exp (Options.c_stage V c).
    Proof.
      intros n c Hc. unfold Options.direct_calls in Hc.
      assert (Hk : In (key c) (map key (G_calls n (gni_kw (u_imf u) (u_env u) (u_ext u)))))
        by (apply in_map; exact Hc).
      rewrite G_key in Hk. destruct keyword_bundles as (_ & H2 & H3). rewrite H2, H3 in Hk.
      change (bind_params (own G_PARAMS) (dict_kids (u_imf u))) with (exp SG) in Hk.
      apply (ukey_in n) in Hk. exact Hk.
    Qed.
  End U.
End Facts.

(* every invocation of get_next_imf with at least one sifting iteration reaches all five stage calls,
   whatever it was given *)
Lemma stages_of_invocation : forall V vfalsy inj n kw,
  map (Options.c_stage V) (Options.G_calls V vfalsy inj n kw)
  = SG :: List.concat (repeat [SE Upper; SP Upper; SE Lower; SP Lower] n).
Proof.
  intros V vfalsy inj n kw. unfold Options.G_calls. cbn [map Options.c_stage]. f_equal.
  rewrite map_concat_repeat. reflexivity.
Qed.

(* ------------------------------------------------------------------ the code as it was: three call sites refuted
   (instance: values are Config.val) *)
Local Notation callsC := (calls val vfalsy_c inj_c).
Local Notation effC := (effective val vfalsy_c inj_c).
Local Notation expC := (expected_for_stage val vfalsy_c inj_c).

Definition u_interp : uopts val :=
  {| u_imf := ONone; u_env := ODict [("interp_method", OVal (VStr "mono_pchip"))]; u_ext := ONone |}.
Definition u_pad : uopts val :=
  {| u_imf := ONone; u_env := ONone; u_ext := ODict [("pad_width", OVal (VInt 4))] |}.
Definition u_stop : uopts val :=
  {| u_imf := ODict [("stop_method", OVal (VStr "rilling"))]; u_env := ONone; u_ext := ONone |}.
Definition no_call : call val := {| c_stage := SG; c_kw := [] |}.

Ltac refute k :=
  match goal with
  | |- exists c, In c ?l /\ _ =>
      exists (nth k l no_call); split;
      [ apply nth_In; vm_compute; lia
      | let H := fresh in intro H; vm_compute in H; discriminate H ]
  end.

(* get_next_imf_mask built functools.partial(get_next_imf, **imf_opts): the masked sifts ran with the default
   interpolation and padding whatever was asked for *)
Theorem next_imf_mask_v0_refuted :
  (uopts_ok val u_interp = true /\ exists c,
     In c (callsC (sites_gnim_v0 val vfalsy_c inj_c) VMask RKeyword unit_shape u_interp)
     /\ effC c <> expC u_interp (c_stage val c))
  /\ (uopts_ok val u_pad = true /\ exists c,
     In c (callsC (sites_gnim_v0 val vfalsy_c inj_c) VMaskSecond RConfig unit_shape u_pad)
     /\ effC c <> expC u_pad (c_stage val c)).
Proof.
  split; (split; [reflexivity|]).
  - refute 6%nat.
  - refute 2%nat.
Qed.

(* get_mask_freqs was given imf_opts only: the first-IMF sift that fixes the mask frequencies ignored the
   envelope and extrema options *)
Theorem mask_freqs_v0_refuted :
  uopts_ok val u_interp = true /\ exists c,
    In c (callsC (sites_gmf_v0 val vfalsy_c inj_c) VMask RKeyword unit_shape u_interp)
    /\ effC c <> expC u_interp (c_stage val c).
Proof.
  split; [reflexivity|]. refute 1%nat.
Qed.

(* complete_ensemble_sift: starmap(sift, (noise, sift_thresh, 1, imf_opts)) binds imf_opts to `verbose`; the
   sifts of the noise ran on defaults for all three bundles *)
Theorem ceemd_noise_v0_refuted :
  (uopts_ok val u_stop = true /\ exists c,
     In c (callsC (sites_noise_v0 val vfalsy_c inj_c) VComplete RKeyword unit_shape u_stop)
     /\ effC c <> expC u_stop (c_stage val c))
  /\ (uopts_ok val u_interp = true /\ exists c,
     In c (callsC (sites_noise_v0 val vfalsy_c inj_c) VComplete RPartial unit_shape u_interp)
     /\ effC c <> expC u_interp (c_stage val c)).
Proof.
  split; (split; [reflexivity|]).
  - refute 5%nat.
  - refute 6%nat.
Qed.

(* ------------------------------------------------------------------ non-vacuity *)
Definition u_all : uopts val :=
  {| u_imf := ODict [("stop_method", OVal (VStr "rilling")); ("env_step_size", OVal (VFloat "0.5"));
                     ("rilling_thresh", OVal (VTuple [VFloat "0.1"; VFloat "0.5"; VFloat "0.1"]))];
     u_env := ODict [("interp_method", OVal (VStr "mono_pchip"))];
     u_ext := ODict [("pad_width", OVal (VInt 3)); ("parabolic_extrema", OVal (VBool true));
                     ("mag_pad_opts", ODict [("mode", OVal (VStr "mean")); ("stat_length", OVal (VInt 2))])] |}.

Theorem c06_premises_hold :
  uopts_ok val u_all = true
  /\ (forall v r, (5 <= List.length (callsC (repaired val vfalsy_c inj_c) v r unit_shape u_all))%nat)
  /\ map (fun c => stage_code (c_stage val c))
         (firstn 5 (callsC (repaired val vfalsy_c inj_c) VMask RPartial unit_shape u_all)) = [1; 2; 5; 3; 6]%Z
  /\ Forall (fun c => c_stage val c = SE Upper ->
                      kget val "interp_method" (effC c) = Some (OVal (VStr "mono_pchip")))
            (callsC (repaired val vfalsy_c inj_c) VComplete RConfig unit_shape u_all)
  /\ kget val "loc_pad_opts" (expC u_all (SP Lower))
     = Some (ODict [("mode", OVal (VStr "reflect")); ("reflect_type", OVal (VStr "odd"))])
  /\ kget val "mag_pad_opts" (expC u_all (SP Lower))
     = Some (ODict [("mode", OVal (VStr "mean")); ("stat_length", OVal (VInt 2))]).
Proof.
  split; [reflexivity|]. split.
  - intros v r. destruct v; destruct r; vm_compute; lia.
  - split; [vm_compute; reflexivity|]. split; [|split; vm_compute; reflexivity].
    vm_compute. repeat constructor; intro H; try discriminate H.
Qed.

