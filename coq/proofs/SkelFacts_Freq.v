(* Proofs of the control-skeleton tie of the instantaneous phase / frequency code (notes/TIE_FREQ.md):
   the programs of gen/Gen_Skel_Freq.v and gen/Gen_Skel_Frequtils.v, run by the interpreter of lib/PyLoop.v with
   the primitive table of model/SkelPrims_Freq.v, compute what model/Freq.v defines. *)
From Coq Require Import String List Bool Arith ZArith QArith Qcanon Lia.
From EmdV Require Import lib.NpLite lib.PyLoop lib.PyLoopTools model.Freq proofs.FreqFacts
     gen.Gen_Skel_Freq gen.Gen_Skel_Frequtils model.SkelPrims_Freq.
Import ListNotations.
Close Scope Q_scope.
Close Scope Z_scope.
Open Scope nat_scope.
Open Scope string_scope.

(* ---- list facts ------------------------------------------------------------------------------------ *)
Lemma zipw_map_map : forall {A B C D} (f : B -> C -> D) (g : A -> B) (h : A -> C) (l : list A),
  zipw f (map g l) (map h l) = map (fun x => f (g x) (h x)) l.
Proof. intros A B C D f g h l. induction l as [|a t IH]; cbn [map zipw]; [reflexivity|]. rewrite IH. reflexivity. Qed.

Lemma map2_map2 : forall {A B C} (g : B -> C) (h : A -> B) (a : list (list A)),
  map2 g (map2 h a) = map2 (fun x => g (h x)) a.
Proof.
  intros A B C g h a. unfold map2. rewrite map_map. apply map_ext. intros c. apply map_map.
Qed.

Lemma zip2_map2_map2 : forall {A B C D} (f : B -> C -> D) (g : A -> B) (h : A -> C) (a : list (list A)),
  zip2 f (map2 g a) (map2 h a) = map2 (fun x => f (g x) (h x)) a.
Proof.
  intros A B C D f g h a. unfold zip2, map2. rewrite zipw_map_map. apply map_ext. intros c. apply zipw_map_map.
Qed.

Lemma map2_ext : forall {A B} (f g : A -> B) (a : list (list A)), (forall x, f x = g x) -> map2 f a = map2 g a.
Proof. intros A B f g a H. unfold map2. apply map_ext. intros c. apply map_ext. exact H. Qed.

Lemma all_some_map_some : forall {A B} (f : A -> B) (l : list A), all_some (map (fun x => Some (f x)) l) = Some (map f l).
Proof. intros A B f l. induction l as [|a t IH]; cbn [map all_some]; [reflexivity|]. rewrite IH. reflexivity. Qed.

(* ---- a column-by-column loop: columns < d are done (f), the others still as they were (g) ------------ *)
Definition prog_arr {A B} (f g : A -> B) (d : nat) (l : list A) : list B := (map f (firstn d l) ++ map g (skipn d l))%list.

Lemma prog_arr_0 : forall {A B} (f g : A -> B) l, prog_arr f g 0 l = map g l.
Proof. reflexivity. Qed.

Lemma prog_arr_all : forall {A B} (f g : A -> B) l, prog_arr f g (length l) l = map f l.
Proof. intros A B f g l. unfold prog_arr. rewrite firstn_all, skipn_all. cbn [map]. apply app_nil_r. Qed.

Lemma firstn_len_app : forall {A} (l1 r : list A), firstn (length l1) (l1 ++ r) = l1.
Proof. intros A l1 r. induction l1 as [|a t IH]; cbn [length firstn app]; [destruct r; reflexivity|]. rewrite IH. reflexivity. Qed.
Lemma skipn_len_app : forall {A} (l1 r : list A), skipn (length l1) (l1 ++ r) = r.
Proof. intros A l1 r. induction l1 as [|a t IH]; cbn [length skipn app]; [reflexivity|exact IH]. Qed.
Lemma firstn_Slen_app : forall {A} (l1 : list A) x r, firstn (S (length l1)) (l1 ++ x :: r) = (l1 ++ [x])%list.
Proof.
  intros A l1 x r. induction l1 as [|a t IH]; [destruct r; reflexivity|].
  change (firstn (S (length (a :: t))) ((a :: t) ++ x :: r)) with (a :: firstn (S (length t)) (t ++ x :: r)).
  rewrite IH. reflexivity.
Qed.
Lemma skipn_Slen_app : forall {A} (l1 : list A) x r, skipn (S (length l1)) (l1 ++ x :: r) = r.
Proof. intros A l1 x r. induction l1 as [|a t IH]; [reflexivity|]. exact IH. Qed.

Lemma col_at_prog : forall {A B} (f g : A -> B) d l x, col_at l d = Some x -> col_at (prog_arr f g d l) d = Some (g x).
Proof.
  intros A B f g d l x H. unfold col_at in *. apply nth_error_split in H. destruct H as (l1 & l2 & Hl & Hd). subst l d.
  unfold prog_arr. rewrite firstn_len_app, skipn_len_app. cbn [map].
  rewrite nth_error_app2 by (rewrite map_length; lia). rewrite map_length, Nat.sub_diag. reflexivity.
Qed.

Lemma set_nth_prog : forall {A B} (f g : A -> B) d l x, col_at l d = Some x ->
  set_nth d (f x) (prog_arr f g d l) = prog_arr f g (S d) l.
Proof.
  intros A B f g d l x H. unfold col_at in *. apply nth_error_split in H. destruct H as (l1 & l2 & Hl & Hd). subst l d.
  unfold prog_arr, set_nth. rewrite firstn_len_app, skipn_len_app, firstn_Slen_app, skipn_Slen_app. cbn [map].
  replace (length l1) with (length (map f l1)) by apply map_length.
  rewrite firstn_len_app, skipn_Slen_app, map_app, <- app_assoc. reflexivity.
Qed.

Lemma col_at_some : forall {A} (l : list A) d, d < length l -> exists x, col_at l d = Some x.
Proof.
  intros A l d H. unfold col_at. destruct (nth_error l d) as [x|] eqn:E; [exists x; reflexivity|].
  apply nth_error_None in E. lia.
Qed.

Lemma col_at_set_nth : forall {A} (l : list A) d x v, col_at l d = Some x -> col_at (set_nth d v l) d = Some v.
Proof.
  intros A l d x v H. unfold col_at in *. apply nth_error_split in H. destruct H as (l1 & l2 & Hl & Hd). subst l d.
  unfold set_nth. rewrite firstn_len_app, skipn_Slen_app.
  rewrite nth_error_app2 by lia. rewrite Nat.sub_diag. reflexivity.
Qed.

Lemma set_nth_same : forall {A} (l : list A) d x, col_at l d = Some x -> set_nth d x l = l.
Proof.
  intros A l d x H. unfold col_at in *. apply nth_error_split in H. destruct H as (l1 & l2 & Hl & Hd). subst l d.
  unfold set_nth. rewrite firstn_len_app, skipn_Slen_app. reflexivity.
Qed.

Lemma set_nth_twice : forall {A} (l : list A) d x v w, col_at l d = Some x -> set_nth d v (set_nth d w l) = set_nth d v l.
Proof.
  intros A l d x v w H. unfold col_at in *. apply nth_error_split in H. destruct H as (l1 & l2 & Hl & Hd). subst l d.
  unfold set_nth. rewrite !firstn_len_app, !skipn_Slen_app. reflexivity.
Qed.

(* ---- scalars --------------------------------------------------------------------------------------- *)
Lemma two_pi : forall tau : Qc, (qn 2 * pi_ tau)%Qc = tau.
Proof.
  intros tau. unfold pi_. replace (qn 2) with q2 by (apply Qc_is_canon; reflexivity).
  rewrite q2_eq. field. exact two_neq0.
Qed.

Lemma period_of_1 : forall tau : Qc, period_of tau 1 = tau.
Proof. intros tau. unfold period_of. change (1 * 2) with 2. apply two_pi. Qed.

Section FreqTie.
  Variable tau : Qc.
  Variable rnd : Qc -> Qc.
  Variable analytic : list Qc -> list (Qc * Qc).
  Variable angle : Qc * Qc -> Qc.
  Variable cabs : Qc * Qc -> Qc.
  Variable qsqrt : Qc -> Qc.
  Variable env_upper : list Qc -> option (list Qc).
  Variable env_comb : list Qc -> option (list Qc).
  Variable thresh : Qc.
  Local Notation P := (freq_prims tau rnd analytic angle cabs qsqrt env_upper env_comb thresh).

  Ltac ev :=
    cbv beta iota zeta delta
        [exec final_env eval eval_truth bind map_res truthy do_cmp do_arith do_index nat_cmp nat_arith iter_list
         upd lookup env_of assign_all cmp_name ar_name frame overlay normal_env
         try_finish try_finish_env exn_matches exec_list
         freq_prims prims_of table_lookup freq_table keys_are is_opaque0 range_handler range_val
         h_pi h_mul h_sub h_add h_ge h_lt h_mode_not_in h_mod h_mod_shift axis0 h_gradient h_div_tau h_div_scal
         h_cumsum h_angle h_unwrap h_medfilt h_half_pi h_ndim h_newaxis h_shape h_getcol h_setcol h_squeeze h_copy
         h_zeros_like opt_col h_setamp col_val h_env_upper h_env_comb h_div_env h_sum h_abs h_neg1 h_clip
         h_ensure_2d h_hilbert h_quadrature h_call_normalise h_call_pfcs h_call_ffp h_call_wrap h_format
         wrap_spec wrap_pm_spec pff_spec pfcs_spec an_spec res_outcome
         wmode_str method_str smooth_val is_smooth
         wp_names wp_env0 params_wrap_phase prog_wrap_phase
         ffp_names ffp_env0 params_freq_from_phase prog_freq_from_phase
         pff_names pff_env0 params_phase_from_freq prog_phase_from_freq
         String.eqb Ascii.eqb Bool.eqb fst snd nth_error andb negb orb].
  Ltac ev1 := ev; repeat (progress (cbn [Nat.eqb]; oracle_rw); ev).

  (* ================= utils.wrap_phase ================================================================== *)
  (* the fold `phases - period * (phases >= period)` against the model's `if period <= r then 0 else r` *)
  Lemma fold_is_wrap : forall p x, (rnd (qmod x p) <= p)%Qc ->
    (rnd (qmod x p) - (if qleb p (rnd (qmod x p)) then p else 0))%Qc = wrap p rnd x.
  Proof.
    intros p x H. unfold wrap. cbv zeta. destruct (qleb p (rnd (qmod x p))) eqn:E.
    - apply qleb_true in E. rewrite (Qcle_antisym _ _ H E). ring.
    - ring.
  Qed.

  Theorem skeleton_wrap_phase_2pi : forall (a : list (list Qc)) (n f : nat),
    (forall x, (rnd (qmod x (period_of tau n)) <= period_of tau n)%Qc) ->
    exec P prog_wrap_phase f (wp_env0 a n (wmode_str W2pi)) = res_outcome (wrap_spec tau rnd n a).
  Proof.
    intros a n f H.
    assert (Hk : mode_known "2pi" = true) by reflexivity.
    ev1. fold (period_of tau n).
    rewrite map2_map2, map2_map2, zip2_map2_map2.
    do 3 f_equal. apply map2_ext. intros x. apply fold_is_wrap. apply H.
  Qed.

  Theorem skeleton_wrap_phase_pm : forall (a : list (list Qc)) (n f : nat),
    (forall x, (rnd (qmod x (period_of tau n)) <= period_of tau n)%Qc) ->
    exec P prog_wrap_phase f (wp_env0 a n (wmode_str Wpm)) = res_outcome (wrap_pm_spec tau rnd n a).
  Proof.
    intros a n f H.
    assert (Hk : mode_known "-pi2pi" = true) by reflexivity.
    ev1. fold (period_of tau n).
    rewrite map2_map2, map2_map2, zip2_map2_map2, map2_map2.
    do 3 f_equal. apply map2_ext. intros x. unfold wrap_pm. f_equal.
    apply (fold_is_wrap (period_of tau n) (x + pi_ tau * qn n)%Qc). apply H.
  Qed.

  Theorem skeleton_wrap_phase_badmode : forall (a : list (list Qc)) (n f : nat) (mode : string),
    mode_known mode = false ->
    exec P prog_wrap_phase f (wp_env0 a n mode) = Raise "ValueError".
  Proof. intros a n f mode H. ev1. reflexivity. Qed.

  (* the call that frequency_transform and phase_from_complex_signal make: defaults ncycles=1, mode='2pi' *)
  Theorem skeleton_wrap_phase : forall (a : list (list Qc)) (f : nat),
    (forall x, (rnd (qmod x tau) <= tau)%Qc) ->
    exec P prog_wrap_phase f (wp_env0 a 1 "2pi") = Return (VSig (Arr (map2 (wrap tau rnd) a))).
  Proof.
    intros a f H. change "2pi" with (wmode_str W2pi). rewrite skeleton_wrap_phase_2pi.
    - unfold wrap_spec, res_outcome. rewrite period_of_1. reflexivity.
    - rewrite period_of_1. exact H.
  Qed.

  (* ================= spectra.freq_from_phase =========================================================== *)
  Theorem skeleton_freq_from_phase : forall (a : list (list Qc)) (sr : Qc) (f : nat),
    exec P prog_freq_from_phase f (ffp_env0 a sr) = res_outcome (ffp_spec tau a sr).
  Proof.
    intros a sr f. unfold ffp_spec, freq_from_phase.
    rewrite <- (map_map gradient (option_map (map (fun g => (g / tau * sr)%Qc)))), all_some_map.
    destruct (all_some (map gradient a)) as [g|] eqn:E; ev1; [|reflexivity].
    rewrite map2_map2. reflexivity.
  Qed.

  (* ================= spectra.phase_from_freq =========================================================== *)
  Theorem skeleton_phase_from_freq : forall (a : list (list Qc)) (sr ps : Qc) (f : nat),
    exec P prog_phase_from_freq f (pff_env0 a sr ps) = res_outcome (pff_spec tau a sr ps).
  Proof.
    intros a sr ps f. ev1. rewrite map2_map2, two_pi.
    do 3 f_equal. unfold map2, phase_from_freq. rewrite !map_map. reflexivity.
  Qed.

  Lemma exec_if_true : forall c a b f e, eval_truth P e c = Ok true -> exec P (SIf c a b) f e = exec P a f e.
  Proof.
    intros c a b f e H.
    change (exec P (SIf c a b) f e)
      with (match eval_truth P e c with Ok true => exec P a f e | Ok false => exec P b f e | Exc n => Raise n | Bad => Stuck end).
    rewrite H. reflexivity.
  Qed.
  Lemma exec_if_false : forall c a b f e, eval_truth P e c = Ok false -> exec P (SIf c a b) f e = exec P b f e.
  Proof.
    intros c a b f e H.
    change (exec P (SIf c a b) f e)
      with (match eval_truth P e c with Ok true => exec P a f e | Ok false => exec P b f e | Exc n => Raise n | Bad => Stuck end).
    rewrite H. reflexivity.
  Qed.

  (* ================= spectra.phase_from_complex_signal ================================================= *)
  Definition pfcs_pre : list stmt := Eval cbv in firstn 3 (spine prog_phase_from_complex_signal).
  Definition pfcs_if : stmt := Eval cbv in nth 3 (spine prog_phase_from_complex_signal) SSkip.
  Definition pfcs_post : list stmt := Eval cbv in skipn 4 (spine prog_phase_from_complex_signal).
  Definition pfcs_for : stmt := Eval cbv in match pfcs_if with SIf _ a _ => a | _ => SSkip end.
  Definition pfcs_inner : stmt := Eval cbv in match pfcs_for with SFor _ _ b => b | _ => SSkip end.
  Definition pfcs_body : stmt := Eval cbv in match pfcs_inner with SFor _ _ b => b | _ => SSkip end.

  Ltac evp :=
    cbv beta iota zeta delta
        [exec final_env eval eval_truth bind map_res truthy do_cmp do_arith do_index nat_cmp nat_arith iter_list
         upd lookup env_of assign_all cmp_name ar_name frame overlay normal_env
         try_finish try_finish_env exn_matches exec_list
         freq_prims prims_of table_lookup freq_table keys_are is_opaque0 range_handler range_val
         h_pi h_mul h_sub h_add h_ge h_lt axis0
         h_angle h_unwrap h_medfilt h_half_pi h_ndim h_newaxis h_shape h_getcol h_setcol h_squeeze h_call_wrap
         res_outcome smooth_val is_smooth
         pfcs_names pfcs_env0 params_phase_from_complex_signal
         pfcs_pre pfcs_if pfcs_post pfcs_for pfcs_inner pfcs_body
         String.eqb Ascii.eqb Bool.eqb fst snd nth_error andb negb orb].
  Ltac evp1 := evp; repeat (progress (cbn [Nat.eqb]; oracle_rw); evp).

  Section Pfcs.
    Variable cs : list (list (Qc * Qc)).
    (* the unwrapped angles, column by column *)
    Definition pf_U : list (list Qc) := map (unwrap tau) (map2 angle cs).
    Definition idc (c : list Qc) : list Qc := c.

    Definition pfcs_head (s : option nat) (A : list (list Qc)) (junk : string -> option (val npv)) : env npv :=
      env_of pfcs_names
        (overlay [ ("complex_signal", VSig (CArr cs)); ("smoothing", smooth_val s); ("ret_phase", VStr "unwrapped");
                   ("phase_jump", VStr "ascending"); ("iphase", VSig (Arr3 A)); ("orig_dim", VNat 2) ] junk).

    Lemma pfcs_body_step : forall s fb d junk, d < length pf_U ->
      exists e2, exec P pfcs_body fb (upd "jj" (VNat 0) (upd "ii" (VNat d) (pfcs_head s (prog_arr medfilt5 idc d pf_U) junk)))
                 = Normal e2 /\
                 e2 = pfcs_head s (prog_arr medfilt5 idc (S d) pf_U) (fun x => lookup x e2).
    Proof.
      intros s fb d junk Hd. destruct (col_at_some pf_U d Hd) as (x & Hx).
      pose proof (col_at_prog medfilt5 idc d pf_U x Hx) as Hc. unfold idc at 2 in Hc.
      unfold pfcs_head. eexists. split.
      - evp1. rewrite (set_nth_prog medfilt5 idc d pf_U x Hx). reflexivity.
      - evp. reflexivity.
    Qed.

    Lemma pfcs_outer_step : forall s fb d junk, d < length pf_U ->
      exists e2, normal_env (exec P pfcs_inner fb (upd "ii" (VNat d) (pfcs_head s (prog_arr medfilt5 idc d pf_U) junk))) = Some e2 /\
                 e2 = pfcs_head s (prog_arr medfilt5 idc (S d) pf_U) (fun x => lookup x e2).
    Proof.
      intros s fb d junk Hd. unfold pfcs_inner. rewrite exec_for.
      assert (Hit : bind (eval P (upd "ii" (VNat d) (pfcs_head s (prog_arr medfilt5 idc d pf_U) junk))
                            (ECall "range" [EIndex (ECall "iphase.shape" [EVar "iphase"] []) (ENat 2)] []))
                         (iter_list P) = Ok (map VNat (seq 0 1))) by (unfold pfcs_head; evp; reflexivity).
      rewrite Hit. change (map (@VNat npv) (seq 0 1)) with [@VNat npv 0]. rewrite for_loop_cons.
      destruct (pfcs_body_step s fb d junk Hd) as (e2 & H2 & He2).
      change (SAssign "iphase" _) with pfcs_body. rewrite H2, for_loop_nil. exists e2. split; [reflexivity|exact He2].
    Qed.

    Lemma pfcs_loop : forall s fb junk,
      exists junk', for_loop "ii" (fun e' => exec P pfcs_inner fb e') (map VNat (seq 0 (length pf_U)))
                             (pfcs_head s (prog_arr medfilt5 idc 0 pf_U) junk)
                    = Normal (pfcs_head s (prog_arr medfilt5 idc (length pf_U) pf_U) junk').
    Proof.
      intros s fb junk.
      destruct (for_loop_inv npv (fun done e => exists j, e = pfcs_head s (prog_arr medfilt5 idc (length done) pf_U) j)
                  "ii" (fun e' => exec P pfcs_inner fb e') (map VNat (seq 0 (length pf_U)))
                  (pfcs_head s (prog_arr medfilt5 idc 0 pf_U) junk))
        as (e' & He' & (j & Hj)).
      - exists junk. reflexivity.
      - intros done v rest e1 Hl (j & He1).
        destruct (range_val_split (length pf_U) done v rest Hl) as (_ & Hv & Hlt). subst v e1.
        destruct (pfcs_outer_step s fb (length done) j Hlt) as (e2 & H2 & He2).
        exists e2. split; [exact H2|]. rewrite app_length, Nat.add_1_r. eexists. exact He2.
      - rewrite map_length, seq_length in Hj. exists j. rewrite He'. rewrite Hj. reflexivity.
    Qed.

    Theorem skeleton_phase_from_complex_signal : forall s f,
      exec P prog_phase_from_complex_signal f (pfcs_env0 cs s) = res_outcome (pfcs_spec tau angle s cs).
    Proof.
      intros s f.
      rewrite (exec_nth_split npv P prog_phase_from_complex_signal 3 pfcs_if f _ eq_refl).
      change (firstn 3 (spine prog_phase_from_complex_signal)) with pfcs_pre.
      change (skipn 4 (spine prog_phase_from_complex_signal)) with pfcs_post.
      assert (Hpre : exec_list P pfcs_pre f (pfcs_env0 cs s) = Normal (pfcs_head s pf_U (fun _ => None))).
      { unfold pfcs_head, pf_U. evp1. reflexivity. }
      rewrite Hpre.
      assert (Hmid : exists junk', exec P pfcs_if f (pfcs_head s pf_U (fun _ => None))
                     = Normal (pfcs_head s ((if is_smooth s then map medfilt5 else (fun l => l)) pf_U) junk')).
      { destruct s as [k|].
        - unfold pfcs_if. rewrite exec_if_true by (unfold pfcs_head; evp; reflexivity). rewrite exec_for.
          assert (Hit : bind (eval P (pfcs_head (Some k) pf_U (fun _ => None))
                                (ECall "range" [EIndex (ECall "iphase.shape" [EVar "iphase"] []) (ENat 1)] []))
                             (iter_list P) = Ok (map VNat (seq 0 (length pf_U)))) by (unfold pfcs_head; evp; reflexivity).
          rewrite Hit.
          destruct (pfcs_loop (Some k) f (fun _ => None)) as (junk' & Hloop).
          rewrite prog_arr_0 in Hloop. unfold idc in Hloop at 1. rewrite map_id in Hloop.
          change (SFor "jj" _ _) with pfcs_inner. rewrite Hloop. rewrite prog_arr_all. exists junk'. reflexivity.
        - exists (fun _ => None). unfold pfcs_head. evp. reflexivity. }
      destruct Hmid as (junk' & Hmid). rewrite Hmid.
      unfold pfcs_head. evp1. unfold pfcs_spec, res_outcome. do 3 f_equal.
      unfold pf_U, unwrapped_phase, map2, idc. destruct s; cbn [is_smooth]; rewrite !map_map; reflexivity.
    Qed.
  End Pfcs.

  (* ================= spectra.frequency_transform ======================================================= *)
  Definition ft_pre : list stmt := Eval cbv in firstn 3 (spine prog_frequency_transform).
  Definition ft_chain : stmt := Eval cbv in nth 3 (spine prog_frequency_transform) SSkip.
  Definition ft_post : list stmt := Eval cbv in skipn 4 (spine prog_frequency_transform).
  Definition ft_b_nht : stmt := Eval cbv in match ft_chain with SIf _ _ (SIf _ a _) => a | _ => SSkip end.
  Definition ft_b_quad : stmt :=
    Eval cbv in match ft_chain with SIf _ _ (SIf _ _ (SIf _ _ (SIf _ a _))) => a | _ => SSkip end.
  Definition nht_pre : list stmt := Eval cbv in firstn 6 (spine ft_b_nht).
  Definition nht_post : list stmt := Eval cbv in skipn 7 (spine ft_b_nht).
  Definition quad_pre : list stmt := Eval cbv in firstn 5 (spine ft_b_quad).
  Definition quad_post : list stmt := Eval cbv in skipn 6 (spine ft_b_quad).
  (* the loop that fills iamp: the same statement in the nht and the quad branch *)
  Definition amp_for : stmt := Eval cbv in nth 6 (spine ft_b_nht) SSkip.
  Definition amp_inner : stmt := Eval cbv in match amp_for with SFor _ _ b => b | _ => SSkip end.
  Definition amp_body : stmt := Eval cbv in match amp_inner with SFor _ _ b => b | _ => SSkip end.

  Definition quad_st1 : stmt := Eval cbv in nth 1 (spine ft_b_quad) SSkip.
  Definition quad_pre2 : list stmt := Eval cbv in skipn 2 quad_pre.

  Lemma amp_for_quad : nth_error (spine ft_b_quad) 5 = Some amp_for.
  Proof. reflexivity. Qed.

  Ltac evf :=
    cbv beta iota zeta delta
        [exec final_env eval eval_truth bind map_res truthy do_cmp do_arith do_index nat_cmp nat_arith iter_list
         upd lookup env_of assign_all cmp_name ar_name frame overlay normal_env
         try_finish try_finish_env exn_matches exec_list
         freq_prims prims_of table_lookup freq_table keys_are is_opaque0 range_handler range_val
         axis0 h_ndim h_newaxis h_shape h_getcol h_squeeze h_abs
         h_zeros_like opt_col h_setamp col_val h_env_upper
         h_ensure_2d h_hilbert h_quadrature h_call_normalise h_call_pfcs h_call_ffp h_call_wrap h_format
         wrap_spec pfcs_spec an_spec ffp_spec res_outcome
         method_str smooth_val is_smooth
         ft_names ft_env0 params_frequency_transform prog_frequency_transform
         ft_pre ft_chain ft_post ft_b_nht ft_b_quad nht_pre nht_post quad_pre quad_post amp_for amp_inner amp_body quad_st1 quad_pre2
         String.eqb Ascii.eqb Bool.eqb fst snd nth_error andb negb orb].
  Ltac evf1 := evf; repeat (progress (cbn [Nat.eqb]; oracle_rw); evf).

  Section FT.
    Variable cols : list (list Qc).
    Variable sr : Qc.

    Definition zc (c : list Qc) : option (list Qc) := Some (map (fun _ => 0%Qc) c).

    (* before the method dispatch *)
    Definition ft_mid (mv : string) (s : option nat) : env npv :=
      env_of ft_names
        (overlay [ ("imf", VSig (Arr cols)); ("sample_rate", VSig (Scal sr)); ("method", VStr mv);
                   ("smooth_phase", smooth_val s) ] (fun _ => None)).
    (* while iamp is filled: d columns done *)
    Definition amp_head (mv : string) (s : option nat) (AS : list (list (Qc * Qc))) (d : nat)
               (junk : string -> option (val npv)) : env npv :=
      env_of ft_names
        (overlay [ ("imf", VSig (Arr3 cols)); ("sample_rate", VSig (Scal sr)); ("method", VStr mv);
                   ("smooth_phase", smooth_val s); ("analytic_signal", VSig (CArr AS));
                   ("iamp", VSig (Amp3 (prog_arr env_upper zc d cols))); ("orig_dim", VNat 2) ] junk).
    (* after the method dispatch *)
    Definition ft_after (mv : string) (s : option nat) (IMF : npv) (AS : list (list (Qc * Qc)))
               (IAv : list (option (list Qc))) (junk : string -> option (val npv)) : env npv :=
      env_of ft_names
        (overlay [ ("imf", VSig IMF); ("sample_rate", VSig (Scal sr)); ("method", VStr mv);
                   ("smooth_phase", smooth_val s); ("analytic_signal", VSig (CArr AS));
                   ("iamp", VSig (Amp IAv)) ] junk).

    Lemma amp_body_step : forall mv s AS fb d junk, d < length cols ->
      exists e2, exec P amp_body fb (upd "jj" (VNat 0) (upd "ii" (VNat d) (amp_head mv s AS d junk))) = Normal e2 /\
                 e2 = amp_head mv s AS (S d) (fun x => lookup x e2).
    Proof.
      intros mv s AS fb d junk Hd. destruct (col_at_some cols d Hd) as (x & Hx).
      pose proof (col_at_prog env_upper zc d cols x Hx) as Hc.
      pose proof (set_nth_prog env_upper zc d cols x Hx) as Hset.
      unfold amp_head. destruct (env_upper x) as [e|] eqn:E; (eexists; split; [evf1; rewrite Hset; reflexivity | evf; reflexivity]).
    Qed.

    Lemma amp_outer_step : forall mv s AS fb d junk, d < length cols ->
      exists e2, normal_env (exec P amp_inner fb (upd "ii" (VNat d) (amp_head mv s AS d junk))) = Some e2 /\
                 e2 = amp_head mv s AS (S d) (fun x => lookup x e2).
    Proof.
      intros mv s AS fb d junk Hd. unfold amp_inner. rewrite exec_for.
      assert (Hit : bind (eval P (upd "ii" (VNat d) (amp_head mv s AS d junk))
                            (ECall "range" [EIndex (ECall "imf.shape" [EVar "imf"] []) (ENat 2)] []))
                         (iter_list P) = Ok (map VNat (seq 0 1))) by (unfold amp_head; evf; reflexivity).
      rewrite Hit. change (map (@VNat npv) (seq 0 1)) with [@VNat npv 0]. rewrite for_loop_cons.
      destruct (amp_body_step mv s AS fb d junk Hd) as (e2 & H2 & He2).
      change (SAssign "iamp" _) with amp_body. rewrite H2, for_loop_nil. exists e2. split; [reflexivity|exact He2].
    Qed.

    Lemma amp_loop : forall mv s AS fb junk,
      exists junk', exec P amp_for fb (amp_head mv s AS 0 junk) = Normal (amp_head mv s AS (length cols) junk').
    Proof.
      intros mv s AS fb junk. unfold amp_for. rewrite exec_for.
      assert (Hit : bind (eval P (amp_head mv s AS 0 junk)
                            (ECall "range" [EIndex (ECall "imf.shape" [EVar "imf"] []) (ENat 1)] []))
                         (iter_list P) = Ok (map VNat (seq 0 (length cols)))) by (unfold amp_head; evf; reflexivity).
      rewrite Hit. change (SFor "jj" _ _) with amp_inner.
      destruct (for_loop_inv npv (fun done e => exists j, e = amp_head mv s AS (length done) j)
                  "ii" (fun e' => exec P amp_inner fb e') (map VNat (seq 0 (length cols))) (amp_head mv s AS 0 junk))
        as (e' & He' & (j & Hj)).
      - exists junk. reflexivity.
      - intros done v rest e1 Hl (j & He1).
        destruct (range_val_split (length cols) done v rest Hl) as (_ & Hv & Hlt). subst v e1.
        destruct (amp_outer_step mv s AS fb (length done) j Hlt) as (e2 & H2 & He2).
        exists e2. split; [exact H2|]. rewrite app_length, Nat.add_1_r. eexists. exact He2.
      - rewrite map_length, seq_length in Hj. exists j. rewrite He'. rewrite Hj. reflexivity.
    Qed.

    (* the complex signal and the amplitudes the dispatch leaves behind: the model's, column by column *)
    Lemma ft_chain_spec : forall m s f, (m = Quad -> short_col cols = false) ->
      exists IMF e2, exec P ft_chain f (ft_mid (method_str m) s) = Normal e2 /\
        e2 = ft_after (method_str m) s IMF
                    (map (complex_signal analytic qsqrt env_comb thresh m) cols)
                    (map (amplitude analytic cabs env_upper m) cols) (fun x => lookup x e2).
    Proof.
      intros m s f Hq. destruct m; cbn [method_str].
      - (* hilbert *)
        exists (Arr cols).
        change (map (complex_signal analytic qsqrt env_comb thresh Hilbert) cols) with (map analytic cols).
        change (map (amplitude analytic cabs env_upper Hilbert) cols) with (map (fun x => Some (map cabs (analytic x))) cols).
        unfold ft_mid, ft_after. eexists. split; [evf1; rewrite map_map; reflexivity|evf; reflexivity].
      - (* nht *)
        exists (Arr3 cols).
        change (map (complex_signal analytic qsqrt env_comb thresh Nht) cols)
          with (map (fun x => analytic (normalise_col env_comb thresh 3 x)) cols).
        change (map (amplitude analytic cabs env_upper Nht) cols) with (map env_upper cols).
        unfold ft_chain.
        rewrite exec_if_false by (unfold ft_mid; evf; reflexivity).
        rewrite exec_if_true by (unfold ft_mid; evf; reflexivity).
        change (SSeq SSkip _) with ft_b_nht.
        rewrite (exec_nth_split npv P ft_b_nht 6 amp_for f _ eq_refl).
        change (firstn 6 (spine ft_b_nht)) with nht_pre. change (skipn 7 (spine ft_b_nht)) with nht_post.
        assert (Hpre : exists e1, exec_list P nht_pre f (ft_mid "nht" s) = Normal e1 /\
                   e1 = amp_head "nht" s (map analytic (map (normalise_col env_comb thresh 3) cols)) 0 (fun x => lookup x e1)).
        { unfold ft_mid, amp_head. eexists. split; [evf1; reflexivity|evf; reflexivity]. }
        destruct Hpre as (e1 & Hpre & He1). rewrite Hpre, He1.
        destruct (amp_loop "nht" s (map analytic (map (normalise_col env_comb thresh 3) cols)) f (fun x => lookup x e1))
          as (junk' & Hloop).
        rewrite Hloop. unfold amp_head, ft_after. rewrite prog_arr_all, map_map.
        eexists. split; [evf1; reflexivity|evf; reflexivity].
      - (* quad *)
        pose proof (Hq eq_refl) as Hs. exists (Arr3 cols).
        change (map (complex_signal analytic qsqrt env_comb thresh Quad) cols)
          with (map (quadrature qsqrt env_comb thresh) cols).
        change (map (amplitude analytic cabs env_upper Quad) cols) with (map env_upper cols).
        unfold ft_chain.
        rewrite exec_if_false by (unfold ft_mid; evf; reflexivity).
        rewrite exec_if_false by (unfold ft_mid; evf; reflexivity).
        rewrite exec_if_false by (unfold ft_mid; evf; reflexivity).
        rewrite exec_if_true by (unfold ft_mid; evf; reflexivity).
        change (SSeq SSkip _) with ft_b_quad.
        rewrite (exec_nth_split npv P ft_b_quad 5 amp_for f _ amp_for_quad).
        change (firstn 5 (spine ft_b_quad)) with quad_pre. change (skipn 6 (spine ft_b_quad)) with quad_post.
        assert (Hpre : exists e1, exec_list P quad_pre f (ft_mid "quad" s) = Normal e1 /\
                   e1 = amp_head "quad" s (map (quadrature qsqrt env_comb thresh) cols) 0 (fun x => lookup x e1)).
        { assert (H1 : exec P quad_st1 f (ft_mid "quad" s)
                       = Normal (upd "analytic_signal" (VSig (CArr (map (quadrature qsqrt env_comb thresh) cols))) (ft_mid "quad" s)))
            by (unfold ft_mid, quad_st1; evf1; reflexivity).
          change quad_pre with (SSkip :: quad_st1 :: quad_pre2).
          rewrite exec_list_cons. change (exec P SSkip f (ft_mid "quad" s)) with (Normal (ft_mid "quad" s)). cbv iota beta.
          rewrite exec_list_cons, H1.
          unfold ft_mid, amp_head. eexists. split; [evf1; reflexivity|evf; reflexivity]. }
        destruct Hpre as (e1 & Hpre & He1). rewrite Hpre, He1.
        destruct (amp_loop "quad" s (map (quadrature qsqrt env_comb thresh) cols) f (fun x => lookup x e1))
          as (junk' & Hloop).
        rewrite Hloop. unfold amp_head, ft_after. rewrite prog_arr_all.
        eexists. split; [evf1; reflexivity|evf; reflexivity].
    Qed.

    (* the part after the dispatch: unwrapped phase U from the complex signal, IF from U, IP = wrap U *)
    Definition ft_U (s : option nat) (AS : list (list (Qc * Qc))) : list (list Qc) :=
      map (fun c => unwrapped_phase tau (is_smooth s) (map angle c)) AS.

    Lemma ft_post_spec : forall m s IMF AS IAv junk f,
      exec_list P ft_post f (ft_after (method_str m) s IMF AS IAv junk)
      = match all_some (map (fun c => freq_from_phase tau c sr) (ft_U s AS)) with
        | Some F => Return (VList [VSig (Arr (map2 (wrap tau rnd) (ft_U s AS))); VSig (Arr F); VSig (Amp IAv)])
        | None => Raise "ValueError"
        end.
    Proof.
      intros m s IMF AS IAv junk f.
      unfold ft_U, ft_after.
      destruct s as [k|]; cbn [is_smooth];
        match goal with |- _ = match ?X with _ => _ end => destruct X eqn:EF end;
        destruct m; evf1; rewrite ?period_of_1; reflexivity.
    Qed.

    (* the model's frequency_transform, column by column, against the three arrays the code builds *)
    Lemma ft_model_arrays : forall m sm (l : list (list Qc)),
      let U := fun x => unwrapped_phase tau sm (map angle (complex_signal analytic qsqrt env_comb thresh m x)) in
      match all_some (map (fun x => freq_from_phase tau (U x) sr) l) with
      | Some F => exists outs,
          frequency_transform tau rnd analytic angle cabs qsqrt env_upper env_comb thresh m sm sr l = Some outs /\
          map IP outs = map (fun x => map (wrap tau rnd) (U x)) l /\ map IFq outs = F /\
          map IA outs = map (amplitude analytic cabs env_upper m) l
      | None => frequency_transform tau rnd analytic angle cabs qsqrt env_upper env_comb thresh m sm sr l = None
      end.
    Proof.
      intros m sm l U. unfold frequency_transform. induction l as [|x t IH]; cbn [map all_some].
      - exists []. repeat split.
      - assert (Hcol : ft_col tau rnd analytic angle cabs qsqrt env_upper env_comb thresh m sm sr x
                       = match freq_from_phase tau (U x) sr with
                         | Some fx => Some {| IP := map (wrap tau rnd) (U x); IFq := fx; IA := amplitude analytic cabs env_upper m x |}
                         | None => None
                         end).
        { unfold ft_col, ft_from_angles. cbv zeta. fold (U x). destruct (freq_from_phase tau (U x) sr); reflexivity. }
        rewrite Hcol. clear Hcol.
        destruct (freq_from_phase tau (U x) sr) as [fx|] eqn:Ex; [|reflexivity].
        destruct (all_some (map (fun x0 => freq_from_phase tau (U x0) sr) t)) as [F|] eqn:Et.
        + destruct IH as (outs & Ho & H1 & H2 & H3). rewrite Ho.
          eexists. split; [reflexivity|]. cbn [map IP IFq IA]. rewrite H1, H2, H3. repeat split.
        + rewrite IH. reflexivity.
    Qed.

    Theorem skeleton_frequency_transform : forall (m : method) (s : option nat) (f : nat),
      (m = Quad -> short_col cols = false) ->
      exec P prog_frequency_transform f (ft_env0 cols sr (method_str m) s)
      = ft_render (frequency_transform tau rnd analytic angle cabs qsqrt env_upper env_comb thresh m (is_smooth s) sr cols).
    Proof.
      intros m s f Hq.
      rewrite (exec_nth_split npv P prog_frequency_transform 3 ft_chain f _ eq_refl).
      change (firstn 3 (spine prog_frequency_transform)) with ft_pre.
      change (skipn 4 (spine prog_frequency_transform)) with ft_post.
      assert (Hpre : exec_list P ft_pre f (ft_env0 cols sr (method_str m) s) = Normal (ft_mid (method_str m) s)).
      { unfold ft_mid. destruct m; evf; reflexivity. }
      rewrite Hpre.
      destruct (ft_chain_spec m s f Hq) as (IMF & e2 & Hc & He2). rewrite Hc, He2.
      rewrite ft_post_spec. unfold ft_U. rewrite map_map.
      pose proof (ft_model_arrays m (is_smooth s) cols) as Hm. cbv zeta in Hm.
      rewrite map_map.
      destruct (all_some (map (fun x => freq_from_phase tau
                  (unwrapped_phase tau (is_smooth s) (map angle (complex_signal analytic qsqrt env_comb thresh m x))) sr) cols))
        as [F|] eqn:EF.
      - destruct Hm as (outs & Ho & H1 & H2 & H3). rewrite Ho. unfold ft_render. rewrite H1, H2, H3.
        unfold map2. rewrite !map_map. reflexivity.
      - rewrite Hm. reflexivity.
    Qed.

    (* 'quad' on fewer than 2 samples: quadrature_transform's mask[-1] is an IndexError (the other methods get to
       np.gradient's ValueError) *)
    Theorem skeleton_frequency_transform_quad_short : forall (s : option nat) (f : nat), short_col cols = true ->
      exec P prog_frequency_transform f (ft_env0 cols sr "quad" s) = Raise "IndexError".
    Proof.
      intros s f Hs.
      rewrite (exec_nth_split npv P prog_frequency_transform 3 ft_chain f _ eq_refl).
      change (firstn 3 (spine prog_frequency_transform)) with ft_pre.
      assert (Hpre : exec_list P ft_pre f (ft_env0 cols sr "quad" s) = Normal (ft_mid "quad" s)).
      { unfold ft_mid. evf; reflexivity. }
      rewrite Hpre. unfold ft_chain.
      rewrite exec_if_false by (unfold ft_mid; evf; reflexivity).
      rewrite exec_if_false by (unfold ft_mid; evf; reflexivity).
      rewrite exec_if_false by (unfold ft_mid; evf; reflexivity).
      rewrite exec_if_true by (unfold ft_mid; evf; reflexivity).
      change (SSeq SSkip _) with ft_b_quad.
      rewrite (exec_nth_split npv P ft_b_quad 1 quad_st1 f _ eq_refl).
      change (firstn 1 (spine ft_b_quad)) with [SSkip].
      assert (H1 : exec P quad_st1 f (ft_mid "quad" s) = Raise "IndexError")
        by (unfold ft_mid, quad_st1; evf1; reflexivity).
      change (exec_list P [SSkip] f (ft_mid "quad" s)) with (Normal (ft_mid "quad" s)). cbv iota beta.
      rewrite H1. reflexivity.
    Qed.

    (* direct_quad is refused before anything is computed *)
    Theorem skeleton_frequency_transform_direct_quad : forall (s : option nat) (f : nat),
      exec P prog_frequency_transform f (ft_env0 cols sr "direct_quad" s) = Raise "ValueError".
    Proof. intros s f. evf. reflexivity. Qed.
  End FT.

  (* ================= utils.amplitude_normalise ========================================================= *)
  Definition an_pre : list stmt := Eval cbv in firstn 6 (spine prog_amplitude_normalise).
  Definition an_for : stmt := Eval cbv in nth 6 (spine prog_amplitude_normalise) SSkip.
  Definition an_post : list stmt := Eval cbv in skipn 7 (spine prog_amplitude_normalise).
  Definition an_inner : stmt := Eval cbv in match an_for with SFor _ _ b => b | _ => SSkip end.
  Definition an_jbody : stmt := Eval cbv in match an_inner with SFor _ _ b => b | _ => SSkip end.
  Definition an_jpre : list stmt := Eval cbv in firstn 3 (spine an_jbody).
  Definition an_while : stmt := Eval cbv in nth 3 (spine an_jbody) SSkip.
  Definition an_cond : expr := Eval cbv in match an_while with SWhile c _ => c | _ => ENone end.
  Definition an_wbody : stmt := Eval cbv in match an_while with SWhile _ b => b | _ => SSkip end.

  Ltac eva :=
    cbv beta iota zeta delta
        [exec final_env eval eval_truth bind map_res truthy do_cmp do_arith do_index nat_cmp nat_arith iter_list
         upd lookup env_of assign_all cmp_name ar_name frame overlay normal_env
         try_finish try_finish_env exn_matches exec_list
         freq_prims prims_of table_lookup freq_table keys_are is_opaque0 range_handler range_val
         h_sub h_lt h_ndim h_newaxis h_shape h_getcol h_setcol h_squeeze h_copy
         col_val h_env_comb h_div_env h_sum h_abs h_neg1 h_clip
         an_spec res_outcome
         an_names an_env0 params_amplitude_normalise
         an_pre an_for an_post an_inner an_jbody an_jpre an_while an_cond an_wbody
         String.eqb Ascii.eqb Bool.eqb fst snd nth_error andb negb orb].
  Ltac eva1 := eva; repeat (progress (cbn [Nat.eqb]; oracle_rw); eva).

  Section AN.
    Variable cols : list (list Qc).
    Variable clip : bool.
    Variable im : val npv.           (* interp_method: only passed on *)
    Variable k : nat.                (* max_iters *)
    Local Notation N := (normalise_col env_comb thresh k).
    Local Notation nloop := (normalise_loop env_comb thresh).

    (* between columns (the names of the column loops and of the normalisation loop are junk) *)
    Definition an_head (A : list (list Qc)) (junk : string -> option (val npv)) : env npv :=
      env_of an_names
        (overlay [ ("X", VSig (Arr3 A)); ("thresh", VSig (Scal thresh)); ("clip", VBool clip); ("interp_method", im);
                   ("max_iters", VNat k); ("orig_dim", VNat 2) ] junk).
    (* at the test of the normalisation loop of column d *)
    Definition wh_head (d : nat) (A : list (list Qc)) (eo : option (list Qc)) (cn : bool) (it : nat)
               (junk : string -> option (val npv)) : env npv :=
      env_of an_names
        (overlay [ ("X", VSig (Arr3 A)); ("thresh", VSig (Scal thresh)); ("clip", VBool clip); ("interp_method", im);
                   ("max_iters", VNat k); ("orig_dim", VNat 2); ("iimf", VNat d); ("jimf", VNat 0);
                   ("env", col_val eo); ("continue_norm", VBool cn); ("iters", VNat it) ] junk).

    Lemma an_test : forall d A eo cn it junk,
      eval_truth P (wh_head d A eo cn it junk) an_cond = Ok (if cn then (Nat.ltb it k) else false).
    Proof. intros d A eo cn it junk. unfold wh_head. destruct cn; eva; reflexivity. Qed.

    Lemma wh_exit : forall fb n d A eo it junk,
      exists e', while_loop (fun e' => eval_truth P e' an_cond) (fun e' => exec P an_wbody fb e') n (wh_head d A eo false it junk)
                 = Normal e' /\ e' = an_head A (fun y => lookup y e').
    Proof.
      intros fb n d A eo it junk. rewrite while_loop_unfold, an_test.
      eexists. split; [reflexivity|]. unfold wh_head, an_head. eva. reflexivity.
    Qed.

    (* one normalisation step *)
    Lemma an_wbody_step : forall fb d A x e it junk, col_at A d = Some x ->
      let x' := zipw Qcdiv x e in
      exists e2, exec P an_wbody fb (wh_head d A (Some e) true it junk) = Normal e2 /\
        e2 = wh_head d (set_nth d x' A) (env_comb x')
               (match env_comb x' with
                | Some e' => negb (qltb (qabs (qsum e' - qn (length e'))%Qc) thresh)
                | None => false
                end) (it + 1) (fun y => lookup y e2).
    Proof.
      intros fb d A x e it junk Hx. cbv zeta.
      pose proof (col_at_set_nth A d x (zipw Qcdiv x e) Hx) as Hx'.
      unfold wh_head. destruct (env_comb (zipw Qcdiv x e)) as [e'|] eqn:E.
      - destruct (qltb (qabs (qsum e' - qn (length e'))%Qc) thresh) eqn:Et;
          (eexists; split; [eva1; reflexivity|eva; reflexivity]).
      - eexists. split; [eva1; reflexivity|eva; reflexivity].
    Qed.

    (* the loop computes the model's normalise_loop with the remaining number of iterations *)
    Lemma an_while_spec : forall fb d r n A x e it junk, r <= n -> it + r = k -> col_at A d = Some x ->
      exists e', while_loop (fun e' => eval_truth P e' an_cond) (fun e' => exec P an_wbody fb e') n
                            (wh_head d A (Some e) true it junk) = Normal e' /\
                 e' = an_head (set_nth d (nloop r x e) A) (fun y => lookup y e').
    Proof.
      intros fb d r. induction r as [|r IH]; intros n A x e it junk Hn Hk Hx.
      - rewrite while_loop_unfold, an_test.
        assert (Hlt : (Nat.ltb it k) = false) by (apply Nat.ltb_ge; lia). rewrite Hlt.
        cbn [normalise_loop]. rewrite (set_nth_same A d x Hx).
        eexists. split; [reflexivity|]. unfold wh_head, an_head. eva. reflexivity.
      - destruct n as [|n]; [lia|].
        rewrite while_loop_unfold, an_test.
        assert (Hlt : (Nat.ltb it k) = true) by (apply Nat.ltb_lt; lia). rewrite Hlt.
        destruct (an_wbody_step fb d A x e it junk Hx) as (e2 & H2 & He2). cbv zeta in He2. rewrite H2, He2.
        cbn [normalise_loop]. cbv zeta.
        pose proof (col_at_set_nth A d x (zipw Qcdiv x e) Hx) as Hx'.
        destruct (env_comb (zipw Qcdiv x e)) as [e'|] eqn:E.
        + destruct (qltb (qabs (qsum e' - qn (length e'))%Qc) thresh) eqn:Et; cbn [negb].
          * apply wh_exit.
          * destruct (IH n (set_nth d (zipw Qcdiv x e) A) (zipw Qcdiv x e) e' (it + 1) (fun y => lookup y e2)) as (e3 & H3 & He3);
              [lia|lia|exact Hx'|].
            rewrite (set_nth_twice A d x _ _ Hx) in He3. exists e3. split; assumption.
        + apply wh_exit.
    Qed.

    Definition idc2 (c : list Qc) : list Qc := c.

    (* one column *)
    Lemma an_jbody_step : forall fb d junk, k <= fb -> d < length cols ->
      exists e2, exec P an_jbody fb (upd "jimf" (VNat 0) (upd "iimf" (VNat d) (an_head (prog_arr N idc2 d cols) junk))) = Normal e2 /\
                 e2 = an_head (prog_arr N idc2 (S d) cols) (fun y => lookup y e2).
    Proof.
      intros fb d junk Hfb Hd. destruct (col_at_some cols d Hd) as (x & Hx).
      pose proof (col_at_prog N idc2 d cols x Hx) as Hc. unfold idc2 at 2 in Hc.
      pose proof (set_nth_prog N idc2 d cols x Hx) as Hset.
      rewrite (exec_nth_split npv P an_jbody 3 an_while fb _ eq_refl).
      change (firstn 3 (spine an_jbody)) with an_jpre. change (skipn 4 (spine an_jbody)) with (@nil stmt).
      assert (Hpre : exists e1, exec_list P an_jpre fb (upd "jimf" (VNat 0) (upd "iimf" (VNat d) (an_head (prog_arr N idc2 d cols) junk)))
                                = Normal e1 /\
                     e1 = wh_head d (prog_arr N idc2 d cols) (env_comb x)
                                  (match env_comb x with Some _ => true | None => false end) 0 (fun y => lookup y e1)).
      { unfold an_head, wh_head. destruct (env_comb x) as [e|] eqn:E; (eexists; split; [eva1; reflexivity|eva; reflexivity]). }
      destruct Hpre as (e1 & Hpre & He1). rewrite Hpre, He1.
      change (exec P an_while fb) with
        (while_loop (fun e' => eval_truth P e' an_cond) (fun e' => exec P an_wbody fb e') fb).
      destruct (env_comb x) as [e|] eqn:E.
      - assert (HN : N x = nloop k x e) by (unfold normalise_col; rewrite E; reflexivity). rewrite HN in Hset.
        destruct (an_while_spec fb d k fb (prog_arr N idc2 d cols) x e 0 (fun y => lookup y e1) Hfb eq_refl Hc)
          as (e3 & H3 & He3).
        rewrite H3. cbn [exec_list]. rewrite Hset in He3. exists e3. split; [reflexivity|exact He3].
      - destruct (wh_exit fb fb d (prog_arr N idc2 d cols) None 0 (fun y => lookup y e1)) as (e3 & H3 & He3).
        assert (HN : N x = x) by (unfold normalise_col; rewrite E; reflexivity). rewrite HN in Hset.
        rewrite H3. cbn [exec_list]. rewrite (set_nth_same _ d x Hc) in Hset. rewrite Hset in He3.
        exists e3. split; [reflexivity|exact He3].
    Qed.

    Lemma an_outer_step : forall fb d junk, k <= fb -> d < length cols ->
      exists e2, normal_env (exec P an_inner fb (upd "iimf" (VNat d) (an_head (prog_arr N idc2 d cols) junk))) = Some e2 /\
                 e2 = an_head (prog_arr N idc2 (S d) cols) (fun y => lookup y e2).
    Proof.
      intros fb d junk Hfb Hd. unfold an_inner. rewrite exec_for.
      assert (Hit : bind (eval P (upd "iimf" (VNat d) (an_head (prog_arr N idc2 d cols) junk))
                            (ECall "range" [EIndex (ECall "X.shape" [EVar "X"] []) (ENat 2)] []))
                         (iter_list P) = Ok (map VNat (seq 0 1))) by (unfold an_head; eva; reflexivity).
      rewrite Hit. change (map (@VNat npv) (seq 0 1)) with [@VNat npv 0]. rewrite for_loop_cons.
      destruct (an_jbody_step fb d junk Hfb Hd) as (e2 & H2 & He2).
      change (SSeq (SAssign "env" _) _) with an_jbody. rewrite H2, for_loop_nil. exists e2. split; [reflexivity|exact He2].
    Qed.

    Lemma an_loop : forall fb junk, k <= fb ->
      exists junk', exec P an_for fb (an_head (prog_arr N idc2 0 cols) junk)
                    = Normal (an_head (prog_arr N idc2 (length cols) cols) junk').
    Proof.
      intros fb junk Hfb. unfold an_for. rewrite exec_for.
      assert (Hit : bind (eval P (an_head (prog_arr N idc2 0 cols) junk)
                            (ECall "range" [EIndex (ECall "X.shape" [EVar "X"] []) (ENat 1)] []))
                         (iter_list P) = Ok (map VNat (seq 0 (length cols)))).
      { unfold an_head. eva. rewrite prog_arr_0, map_length. reflexivity. }
      rewrite Hit. change (SFor "jimf" _ _) with an_inner.
      destruct (for_loop_inv npv (fun done e => exists j, e = an_head (prog_arr N idc2 (length done) cols) j)
                  "iimf" (fun e' => exec P an_inner fb e') (map VNat (seq 0 (length cols)))
                  (an_head (prog_arr N idc2 0 cols) junk))
        as (e' & He' & (j & Hj)).
      - exists junk. reflexivity.
      - intros done v rest e1 Hl (j & He1).
        destruct (range_val_split (length cols) done v rest Hl) as (_ & Hv & Hlt). subst v e1.
        destruct (an_outer_step fb (length done) j Hfb Hlt) as (e2 & H2 & He2).
        exists e2. split; [exact H2|]. rewrite app_length, Nat.add_1_r. eexists. exact He2.
      - rewrite map_length, seq_length in Hj. exists j. rewrite He'. rewrite Hj. reflexivity.
    Qed.

    Theorem skeleton_amplitude_normalise : forall f, k <= f ->
      exec P prog_amplitude_normalise f (an_env0 thresh cols clip im k) = res_outcome (an_spec env_comb thresh k clip cols).
    Proof.
      intros f Hf.
      rewrite (exec_nth_split npv P prog_amplitude_normalise 6 an_for f _ eq_refl).
      change (firstn 6 (spine prog_amplitude_normalise)) with an_pre.
      change (skipn 7 (spine prog_amplitude_normalise)) with an_post.
      assert (Hpre : exec_list P an_pre f (an_env0 thresh cols clip im k) = Normal (an_head (prog_arr N idc2 0 cols) (fun _ => None))).
      { rewrite prog_arr_0. unfold idc2. rewrite map_id. unfold an_head. eva1. reflexivity. }
      rewrite Hpre.
      destruct (an_loop f (fun _ => None) Hf) as (junk' & Hloop). rewrite Hloop.
      unfold an_head. rewrite prog_arr_all.
      assert (Hq : Qc_eq_bool (- (1))%Qc (- (1))%Qc = true) by (apply Qc_eq_bool_refl || reflexivity).
      destruct clip; eva1; unfold map2; rewrite ?map_map; reflexivity.
    Qed.
  End AN.

  (* the defaults (clip=False, max_iters=3): the model's amplitude_normalise on every column *)
  Theorem skeleton_amplitude_normalise_default : forall (cols : list (list Qc)) (im : val npv) (f : nat), 3 <= f ->
    exec P prog_amplitude_normalise f (an_env0 thresh cols false im 3)
    = Return (VSig (Arr (map (amplitude_normalise env_comb thresh) cols))).
  Proof. intros cols im f Hf. rewrite (skeleton_amplitude_normalise cols false im 3 f Hf). reflexivity. Qed.
End FreqTie.

(* ---- the hypothesis of the wrap_phase theorems is needed: a "rounding" that can exceed the period ------- *)
(* period 8, every remainder rounds to 9: the code returns 9 - 8 = 1, the model's wrap says 0 *)
Lemma wrap_phase_needs_rnd_bound :
  let rnd0 := fun _ : Qc => Q2Qc 9 in
  let P0 := freq_prims tau8 rnd0 (fun _ => []) (fun _ => Q2Qc 0) (fun _ => Q2Qc 0) (fun x => x) (fun _ => None) (fun _ => None) (Q2Qc 0) in
  exec P0 prog_wrap_phase 0 (wp_env0 [[Q2Qc 0]] 1 "2pi") = Return (VSig (Arr [[Q2Qc 1]])) /\
  map2 (wrap tau8 rnd0) [[Q2Qc 0]] = [[Q2Qc 0]].
Proof.
  cbv zeta. split.
  - assert (Hk : mode_known "2pi" = true) by reflexivity.
    cbv beta iota zeta delta
        [exec final_env eval eval_truth bind map_res truthy do_cmp do_arith do_index nat_cmp nat_arith iter_list
         upd lookup env_of assign_all cmp_name ar_name frame overlay normal_env exec_list
         freq_prims prims_of table_lookup freq_table h_pi h_mul h_sub h_ge h_mode_not_in h_mod
         wp_names wp_env0 params_wrap_phase prog_wrap_phase
         String.eqb Ascii.eqb Bool.eqb fst snd nth_error andb negb orb].
    rewrite Hk.
    cbv beta iota zeta delta
        [exec final_env eval eval_truth bind map_res truthy do_cmp do_arith do_index nat_cmp nat_arith iter_list
         upd lookup env_of assign_all cmp_name ar_name frame overlay normal_env exec_list
         freq_prims prims_of table_lookup freq_table h_pi h_mul h_sub h_ge h_mode_not_in h_mod
         wp_names wp_env0 params_wrap_phase prog_wrap_phase
         String.eqb Ascii.eqb Bool.eqb fst snd nth_error andb negb orb].
    do 3 f_equal; unfold zip2, map2; cbn [map zipw]; do 2 f_equal; try (apply Qc_is_canon; vm_compute; reflexivity).
  - unfold map2; cbn [map]; do 2 f_equal; try (apply Qc_is_canon; vm_compute; reflexivity).
Qed.
