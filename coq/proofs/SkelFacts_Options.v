(* Proofs for the tie of model/Options.v (C06) to the text of emd/sift.py (model/SkelPrims_Options.v).
   Every theorem has two halves:
     (code)   [bound_sites fn kw prog_fn params_fn = [...]]: the call sites the static extraction finds in the
              translated body of fn, each bound against the callee's translated parameter list, are exactly these -
              closed by computation on the generated terms, for every V, falsiness test, literal injection and
              every entry keywords kw;
     (model)  the call-site function of model/Options.v for fn is what one gets from those bindings. *)
From Coq Require Import ZArith List Bool String Lia.
From EmdV Require Import lib.PyLoop model.Config gen.Gen_Defaults model.Options gen.Gen_Skel_Options
  model.SkelPrims_Options.
Import ListNotations.
Open Scope string_scope.

(* ------------------------------------------------------------------ the two parameter tables agree:
   harness/gen_tables.py's def lines (which [pos_kw] / [arg] of the model read) and the translator's params_<f> *)
Lemma params_tables_agree :
  map (fun fn => map fst (params sig_defaults fn))
      ["sift"; "_sift_with_noise"; "ensemble_sift"; "complete_ensemble_sift"; "get_next_imf_mask"; "get_mask_freqs";
       "mask_sift"; "get_next_imf"; "interp_envelope"; "get_padded_extrema"]
  = [params_sift; params_sift_with_noise; params_ensemble_sift; params_complete_ensemble_sift;
     params_get_next_imf_mask; params_get_mask_freqs; params_mask_sift; params_get_next_imf;
     params_interp_envelope; params_get_padded_extrema].
Proof. vm_compute. reflexivity. Qed.

(* every literal fall-back of the table is found, with the same test and the same text, in the program of its function *)
Definition fb_in_text (fn : string) (prog : stmt) : bool :=
  match Config.lookup fn fallbacks with
  | Some l =>
      forallb (fun pe => existsb (fun s => match s with
                                           | SIf c a b => match fallback_shape c a b with
                                                          | Some (bt, p, lit) => String.eqb p (fst pe) && fb_matches fn p bt lit
                                                          | None => false
                                                          end
                                           | _ => false
                                           end) (spine prog)) l
  | None => false
  end.
Lemma fallbacks_in_text :
  map fst fallbacks = ["sift"; "get_next_imf"; "get_next_imf_mask"; "get_mask_freqs"; "interp_envelope"; "get_padded_extrema"]
  /\ fb_in_text "sift" prog_sift = true /\ fb_in_text "get_next_imf" prog_get_next_imf = true
  /\ fb_in_text "get_next_imf_mask" prog_get_next_imf_mask = true /\ fb_in_text "get_mask_freqs" prog_get_mask_freqs = true
  /\ fb_in_text "interp_envelope" prog_interp_envelope = true
  /\ fb_in_text "get_padded_extrema" prog_get_padded_extrema = true.
Proof. repeat split; vm_compute; reflexivity. Qed.

Section Facts.
  Variable V : Type.
  Variable vfalsy : V -> bool.
  Variable inj : Config.val -> V.

  Local Notation obj := (Options.obj V).
  Local Notation kwargs := (Options.kwargs V).
  Local Notation kget := (Options.kget V).
  Local Notation kval := (Options.kval V).
  Local Notation dict_kids := (Options.dict_kids V).
  Local Notation DATA := (Options.DATA V).
  Local Notation arg := (Options.arg V inj).
  Local Notation fallback := (Options.fallback V vfalsy inj).
  Local Notation bind_params := (Options.bind_params V).
  Local Notation G_PARAMS := (Options.G_PARAMS V inj).
  Local Notation E_PARAMS := (Options.E_PARAMS V inj).
  Local Notation P_PARAMS := (Options.P_PARAMS V inj).
  Local Notation G_calls := (Options.G_calls V vfalsy inj).
  Local Notation E_calls := (Options.E_calls V vfalsy inj).
  Local Notation P_call := (Options.P_call V inj).
  Local Notation expand := (Options.expand V vfalsy inj).
  Local Notation gni_kw := (Options.gni_kw V).
  Local Notation kw3 := (Options.kw3 V).
  Local Notation sift_entry := (Options.sift_entry V vfalsy inj).
  Local Notation swn_entry := (Options.swn_entry V vfalsy inj).
  Local Notation members := (Options.members V vfalsy inj).
  Local Notation ensemble_entry := (Options.ensemble_entry V vfalsy inj).
  Local Notation noise_sifts := (Options.noise_sifts V vfalsy inj).
  Local Notation mask_freqs := (Options.mask_freqs V vfalsy inj).
  Local Notation next_imf_mask := (Options.next_imf_mask V vfalsy inj).
  Local Notation repaired := (Options.repaired V vfalsy inj).
  Local Notation ceemd_entry := (Options.ceemd_entry V vfalsy inj).
  Local Notation mask_entry := (Options.mask_entry V inj).
  Local Notation second_entry := (Options.second_entry V).
  Local Notation bound_sites := (SkelPrims_Options.bound_sites V vfalsy inj).
  Local Notation K_sift := (SkelPrims_Options.K_sift V vfalsy inj).
  Local Notation K_swn := (SkelPrims_Options.K_swn V inj).
  Local Notation K_members := (SkelPrims_Options.K_members V inj).
  Local Notation K_noise := (SkelPrims_Options.K_noise V inj).
  Local Notation K_gnim := (SkelPrims_Options.K_gnim V vfalsy inj).
  Local Notation K_gmf := (SkelPrims_Options.K_gmf V vfalsy inj).
  Local Notation K_ms_gmf := (SkelPrims_Options.K_ms_gmf V inj).
  Local Notation K_ms_gnim := (SkelPrims_Options.K_ms_gnim V inj).
  Local Notation K_env := (SkelPrims_Options.K_env V vfalsy inj).
  Local Notation K_ext := (SkelPrims_Options.K_ext V vfalsy inj).
  Local Notation edits_agree := (SkelPrims_Options.edits_agree V).

  (* ---------------------------------------------------------------- what the model's functions look at *)
  Lemma bind_params_ext : forall (ps kw kw' : kwargs),
    (forall p, In p (map fst ps) -> kget p kw = kget p kw') -> bind_params ps kw = bind_params ps kw'.
  Proof.
    intros ps kw kw' H. unfold Options.bind_params. apply map_ext_in. intros pd Hin.
    rewrite (H (fst pd)) by (apply in_map; exact Hin). reflexivity.
  Qed.

  Lemma G_calls_ext : forall n (kw kw' : kwargs),
    (forall p, In p (map fst G_PARAMS) -> kget p kw = kget p kw') -> G_calls n kw = G_calls n kw'.
  Proof. intros n kw kw' H. unfold Options.G_calls. rewrite (bind_params_ext _ kw kw' H). reflexivity. Qed.

  Lemma E_calls_ext : forall m (kw kw' : kwargs),
    (forall p, In p (map fst E_PARAMS) -> kget p kw = kget p kw') -> E_calls m kw = E_calls m kw'.
  Proof. intros m kw kw' H. unfold Options.E_calls. rewrite (bind_params_ext _ kw kw' H). reflexivity. Qed.

  Lemma P_call_ext : forall m (kw kw' : kwargs),
    (forall p, In p (map fst P_PARAMS) -> kget p kw = kget p kw') -> P_call m kw = P_call m kw'.
  Proof. intros m kw kw' H. unfold Options.P_call. rewrite (bind_params_ext _ kw kw' H). reflexivity. Qed.

  (* a positional X (and interp_envelope's / get_padded_extrema's mode) is data: the model leaves them out *)
  Lemma G_calls_X : forall n d (k : kwargs), G_calls n (("X", d) :: k) = G_calls n k.
  Proof.
    intros n d k. apply G_calls_ext. intros p Hp. vm_compute in Hp.
    repeat (destruct Hp as [<-|Hp]; [reflexivity|]). contradiction.
  Qed.

  Lemma P_call_X_mode : forall m d d' (k : kwargs), P_call m (("X", d) :: ("mode", d') :: k) = P_call m k.
  Proof.
    intros m d d' k. apply P_call_ext. intros p Hp. vm_compute in Hp.
    repeat (destruct Hp as [<-|Hp]; [reflexivity|]). contradiction.
  Qed.

  Lemma kget_app : forall p (a b : kwargs),
    kget p (a ++ b)%list = match kget p a with Some v => Some v | None => kget p b end.
  Proof.
    intros p a b. induction a as [|[k v] t IH]; simpl.
    - reflexivity.
    - destruct (String.eqb p k); [reflexivity|exact IH].
  Qed.

  Lemma expand_const_ext : forall (k k' : kwargs) sh,
    (forall n, G_calls n k = G_calls n k') ->
    expand (map (fun n => (n, k)) sh) = expand (map (fun n => (n, k')) sh).
  Proof.
    intros k k' sh H. unfold Options.expand. induction sh as [|n t IH]; cbn [map flat_map fst snd].
    - reflexivity.
    - rewrite H, IH. reflexivity.
  Qed.

  Lemma sift_entry_ext : forall sh (kw kw' : kwargs),
    arg "sift" kw "imf_opts" = arg "sift" kw' "imf_opts" ->
    arg "sift" kw "envelope_opts" = arg "sift" kw' "envelope_opts" ->
    arg "sift" kw "extrema_opts" = arg "sift" kw' "extrema_opts" ->
    sift_entry sh kw = sift_entry sh kw'.
  Proof. intros sh kw kw' H1 H2 H3. unfold Options.sift_entry. rewrite H1, H2, H3. reflexivity. Qed.

  Lemma swn_entry_ext : forall s (kw kw' : kwargs),
    arg "_sift_with_noise" kw "imf_opts" = arg "_sift_with_noise" kw' "imf_opts" ->
    arg "_sift_with_noise" kw "envelope_opts" = arg "_sift_with_noise" kw' "envelope_opts" ->
    arg "_sift_with_noise" kw "extrema_opts" = arg "_sift_with_noise" kw' "extrema_opts" ->
    swn_entry s kw = swn_entry s kw'.
  Proof. intros s kw kw' H1 H2 H3. unfold Options.swn_entry. rewrite H1, H2, H3. reflexivity. Qed.

  Lemma next_imf_mask_ext : forall sh (kw kw' : kwargs),
    arg "get_next_imf_mask" kw "imf_opts" = arg "get_next_imf_mask" kw' "imf_opts" ->
    arg "get_next_imf_mask" kw "envelope_opts" = arg "get_next_imf_mask" kw' "envelope_opts" ->
    arg "get_next_imf_mask" kw "extrema_opts" = arg "get_next_imf_mask" kw' "extrema_opts" ->
    next_imf_mask sh kw = next_imf_mask sh kw'.
  Proof. intros sh kw kw' H1 H2 H3. unfold Options.next_imf_mask. rewrite H1, H2, H3. reflexivity. Qed.

  Lemma mask_entry_ext : forall S sh (kw kw' : kwargs),
    arg "mask_sift" kw "imf_opts" = arg "mask_sift" kw' "imf_opts" ->
    arg "mask_sift" kw "envelope_opts" = arg "mask_sift" kw' "envelope_opts" ->
    arg "mask_sift" kw "extrema_opts" = arg "mask_sift" kw' "extrema_opts" ->
    mask_entry S sh kw = mask_entry S sh kw'.
  Proof. intros S sh kw kw' H1 H2 H3. unfold Options.mask_entry. rewrite H1, H2, H3. reflexivity. Qed.

  Lemma flat_map_ext_all : forall A B (f g : A -> list B) l, (forall x, f x = g x) -> flat_map f l = flat_map g l.
  Proof. intros A B f g l H. induction l as [|a t IH]; cbn [flat_map]; [reflexivity|]. rewrite H, IH. reflexivity. Qed.

  (* ================================================================ the twelve functions *)
  (* ---- sift: `if not imf_opts: imf_opts = {literal}`; get_next_imf(proto_imf, envelope_opts=.., extrema_opts=.., **imf_opts) *)

  Theorem tie_sift : forall kw sh,
    bound_sites "sift" kw prog_sift params_sift = [("get_next_imf", Some (K_sift kw))]
    /\ expand (sift_entry sh kw) = expand (map (fun n => (n, K_sift kw)) sh).
  Proof.
    intros kw sh. split.
    - vm_compute. reflexivity.
    - unfold Options.sift_entry, SkelPrims_Options.K_sift. apply expand_const_ext. intro n. symmetry. apply G_calls_X.
  Qed.

  (* ---- _sift_with_noise: sift(ensX, sift_thresh=.., max_imfs=.., imf_opts=.., envelope_opts=.., extrema_opts=..), twice *)

  Theorem tie_sift_with_noise : forall kw sh,
    bound_sites "_sift_with_noise" kw prog_sift_with_noise params_sift_with_noise
    = [("sift", Some (K_swn kw)); ("sift", Some (K_swn kw))]
    /\ swn_entry sh kw
       = (sift_entry (fst sh) (K_swn kw) ++ match snd sh with Some s2 => sift_entry s2 (K_swn kw) | None => [] end)%list.
  Proof.
    intros kw sh. split.
    - vm_compute. reflexivity.
    - unfold Options.swn_entry.
      assert (E : forall s, sift_entry s (kw3 (arg "_sift_with_noise" kw "imf_opts") (arg "_sift_with_noise" kw "envelope_opts")
                                            (arg "_sift_with_noise" kw "extrema_opts")) = sift_entry s (K_swn kw))
        by (intro s; apply sift_entry_ext; reflexivity).
      rewrite E. destruct (snd sh) as [s2|]; [rewrite E|]; reflexivity.
  Qed.

  (* ---- ensemble_sift: starmap(_sift_with_noise, [(X, noise_scaling, <noise>, noise_mode, sift_thresh, max_imfs, ii,
          imf_opts, envelope_opts, extrema_opts) ...]): a 10-tuple against the 10 parameters of _sift_with_noise *)

  Lemma members_K : forall fn kw mi shs,
    members shs (arg fn kw "imf_opts") (arg fn kw "envelope_opts") (arg fn kw "extrema_opts")
    = flat_map (fun s => swn_entry s (K_members fn kw mi)) shs.
  Proof.
    intros fn kw mi shs. unfold Options.members. apply flat_map_ext_all. intro s.
    apply swn_entry_ext; reflexivity.
  Qed.

  Theorem tie_ensemble_sift : forall kw shs,
    bound_sites "ensemble_sift" kw prog_ensemble_sift params_ensemble_sift
    = [("_sift_with_noise", Some (K_members "ensemble_sift" kw (arg "ensemble_sift" kw "max_imfs")))]
    /\ ensemble_entry shs kw
       = flat_map (fun s => swn_entry s (K_members "ensemble_sift" kw (arg "ensemble_sift" kw "max_imfs"))) shs.
  Proof.
    intros kw shs. split.
    - vm_compute. reflexivity.
    - unfold Options.ensemble_entry. apply members_K.
  Qed.

  (* ---- complete_ensemble_sift: the same 10-tuple (max_imfs = 1), and
          starmap(sift, [(noise[:, ii, None], sift_thresh, 1, None, imf_opts, envelope_opts, extrema_opts) ...]):
          a 7-tuple against the 7 parameters of sift, None lands on `verbose`; both pairs once before the loop and once in it *)

  Theorem tie_complete_ensemble_sift : forall kw sh,
    bound_sites "complete_ensemble_sift" kw prog_complete_ensemble_sift params_complete_ensemble_sift
    = [("_sift_with_noise", Some (K_members "complete_ensemble_sift" kw DATA)); ("sift", Some (K_noise kw));
       ("_sift_with_noise", Some (K_members "complete_ensemble_sift" kw DATA)); ("sift", Some (K_noise kw))]
    /\ ceemd_entry repaired sh kw
       = flat_map (fun layer => (flat_map (fun s => swn_entry s (K_members "complete_ensemble_sift" kw DATA)) (fst layer)
                                 ++ flat_map (fun s => sift_entry s (K_noise kw)) (snd layer))%list) sh.
  Proof.
    intros kw sh. split.
    - vm_compute. reflexivity.
    - unfold Options.ceemd_entry. apply flat_map_ext_all. intro layer.
      cbn [Options.s_noise Options.repaired].
      rewrite (members_K "complete_ensemble_sift" kw DATA).
      assert (E : forall shs, noise_sifts shs (arg "complete_ensemble_sift" kw "imf_opts")
                                (arg "complete_ensemble_sift" kw "envelope_opts") (arg "complete_ensemble_sift" kw "extrema_opts")
                              = flat_map (fun s => sift_entry s (K_noise kw)) shs).
      { intro shs. unfold Options.noise_sifts. apply flat_map_ext_all. intro s. apply sift_entry_ext; reflexivity. }
      rewrite E. reflexivity.
  Qed.

  (* ---- get_next_imf_mask: `if imf_opts is None: imf_opts = {}`;
          starmap(functools.partial(get_next_imf, envelope_opts=.., extrema_opts=.., **imf_opts), [[X + m[..]] ...]) *)

  Theorem tie_get_next_imf_mask : forall kw sh,
    bound_sites "get_next_imf_mask" kw prog_get_next_imf_mask params_get_next_imf_mask
    = [("get_next_imf", Some (K_gnim kw))]
    /\ expand (next_imf_mask sh kw) = expand (map (fun n => (n, K_gnim kw)) sh).
  Proof.
    intros kw sh. split.
    - vm_compute. reflexivity.
    - unfold Options.next_imf_mask, SkelPrims_Options.K_gnim. apply expand_const_ext. intro n. symmetry. apply G_calls_X.
  Qed.

  (* ---- get_mask_freqs: `if imf_opts is None: imf_opts = {}`; get_next_imf(X, envelope_opts=.., extrema_opts=.., **imf_opts) *)

  Theorem tie_get_mask_freqs : forall kw n,
    bound_sites "get_mask_freqs" kw prog_get_mask_freqs params_get_mask_freqs = [("get_next_imf", Some (K_gmf kw))]
    /\ expand (mask_freqs (Some n) (arg "get_mask_freqs" kw "imf_opts") (arg "get_mask_freqs" kw "envelope_opts")
                          (arg "get_mask_freqs" kw "extrema_opts"))
       = expand [(n, K_gmf kw)].
  Proof.
    intros kw n. split.
    - vm_compute. reflexivity.
    - unfold Options.mask_freqs, SkelPrims_Options.K_gmf, Options.expand. cbn [flat_map fst snd]. rewrite G_calls_X; reflexivity.
  Qed.

  (* ---- mask_sift: get_mask_freqs(X, mask_freqs, imf_opts=.., envelope_opts=.., extrema_opts=..) and
          get_next_imf_mask(proto_imf, mask_freqs[imf_layer], amp, nphases=.., nprocesses=.., imf_opts=.., envelope_opts=.., extrema_opts=..) *)

  Theorem tie_mask_sift : forall kw sh,
    bound_sites "mask_sift" kw prog_mask_sift params_mask_sift
    = [("get_mask_freqs", Some (K_ms_gmf kw)); ("get_next_imf_mask", Some (K_ms_gnim kw))]
    /\ mask_entry repaired sh kw
       = (mask_freqs (fst sh) (arg "get_mask_freqs" (K_ms_gmf kw) "imf_opts") (arg "get_mask_freqs" (K_ms_gmf kw) "envelope_opts")
                     (arg "get_mask_freqs" (K_ms_gmf kw) "extrema_opts")
          ++ flat_map (fun l => next_imf_mask l (K_ms_gnim kw)) (snd sh))%list.
  Proof.
    intros kw sh. split.
    - vm_compute. reflexivity.
    - unfold Options.mask_entry. cbn [Options.s_gmf Options.s_gnim Options.repaired].
      assert (E : forall ls, flat_map (fun l => next_imf_mask l (kw3 (arg "mask_sift" kw "imf_opts") (arg "mask_sift" kw "envelope_opts")
                                                                    (arg "mask_sift" kw "extrema_opts"))) ls
                             = flat_map (fun l => next_imf_mask l (K_ms_gnim kw)) ls).
      { intro ls. apply flat_map_ext_all. intro l. apply next_imf_mask_ext; reflexivity. }
      rewrite E. reflexivity.
  Qed.

  (* ---- sift_second_layer / mask_sift_second_layer: sift_func(IA[:, ii], **sift_args) / mask_sift(IA[:, ii], **sift_args)
          where sift_args is the caller's (or {}) with 'max_imfs' (and 'mask_freqs') possibly overwritten *)

  Lemma arg_edits : forall fn ks (d kw : kwargs) d0 p,
    edits_agree ks d kw -> mem_str p ks = false -> String.eqb p "X" = false ->
    arg fn (("X", d0) :: d) p = arg fn kw p.
  Proof.
    intros fn ks d kw d0 p H Hp HX. unfold Options.arg. cbn [Options.kget]. rewrite HX, (H p Hp). reflexivity.
  Qed.

  Theorem tie_sift_second_layer :
    map (site_edits "sift_args") (sites_of prog_sift_second_layer params_sift_second_layer)
    = [("sift_func", [AData],
        Some [("X", AData); ("**", AStore "max_imfs" (AFb false "sift_args" (AParam "sift_args") "{}"))],
        [("**", Some ["max_imfs"])])]
    /\ forall (kw d : kwargs) shs, edits_agree ["max_imfs"] d kw ->
         second_entry sift_entry shs kw = flat_map (fun s => sift_entry s (("X", DATA) :: d)) shs.
  Proof.
    split.
    - vm_compute. reflexivity.
    - intros kw d shs H. unfold Options.second_entry. apply flat_map_ext_all. intro s.
      apply sift_entry_ext; symmetry; apply (arg_edits "sift" ["max_imfs"] d kw DATA _ H); reflexivity.
  Qed.

  Theorem tie_mask_sift_second_layer :
    map (site_edits "sift_args") (sites_of prog_mask_sift_second_layer params_mask_sift_second_layer)
    = [("mask_sift", [AData],
        Some [("X", AData);
              ("**", AStore "mask_freqs" (AStore "max_imfs" (AFb false "sift_args" (AParam "sift_args") "{}")))],
        [("**", Some ["mask_freqs"; "max_imfs"])])]
    /\ forall S (kw d : kwargs) (shs : list (list (list nat))), edits_agree ["mask_freqs"; "max_imfs"] d kw ->
         second_entry (fun l => mask_entry S (None, l)) shs kw
         = flat_map (fun l => mask_entry S (None, l) (("X", DATA) :: d)) shs.
  Proof.
    split.
    - vm_compute. reflexivity.
    - intros S kw d shs H. unfold Options.second_entry. apply flat_map_ext_all. intro s.
      apply mask_entry_ext; symmetry; apply (arg_edits "mask_sift" ["mask_freqs"; "max_imfs"] d kw DATA _ H); reflexivity.
  Qed.

  (* ---- get_next_imf: `if envelope_opts is None: envelope_opts = {}`;
          interp_envelope(proto_imf, mode='upper', **envelope_opts, extrema_opts=extrema_opts), then the same with 'lower' *)

  Lemma arg_bound_G : forall kw p, In p (map fst G_PARAMS) ->
    kval p (bind_params G_PARAMS kw) = arg "get_next_imf" kw p.
  Proof.
    intros kw p Hp. vm_compute in Hp.
    repeat (destruct Hp as [<-|Hp]; [reflexivity|]). contradiction.
  Qed.

  Theorem tie_get_next_imf : forall kw,
    bound_sites "get_next_imf" kw prog_get_next_imf params_get_next_imf
    = [("interp_envelope", Some (K_env kw)); ("interp_envelope", Some (K_env kw))]
    /\ map (site_mode emode_of_env) (sites_of prog_get_next_imf params_get_next_imf) = [Some Upper; Some Lower]
    /\ (* the call binds at all: envelope_opts has no key 'extrema_opts' (TypeError: multiple values otherwise) *)
       (kget "extrema_opts" (dict_kids (fallback "get_next_imf" "envelope_opts" (arg "get_next_imf" kw "envelope_opts"))) = None ->
        forall n, G_calls n kw
                  = {| c_stage := SG; c_kw := bind_params G_PARAMS kw |}
                    :: List.concat (repeat (E_calls Upper (K_env kw) ++ E_calls Lower (K_env kw))%list n)).
  Proof.
    intros kw. split; [vm_compute; reflexivity|]. split; [vm_compute; reflexivity|].
    intros Hno n. unfold Options.G_calls.
    rewrite !arg_bound_G by (vm_compute; auto 10).
    set (eo := dict_kids (fallback "get_next_imf" "envelope_opts" (arg "get_next_imf" kw "envelope_opts"))) in *.
    assert (E : forall m, E_calls m (("extrema_opts", arg "get_next_imf" kw "extrema_opts") :: eo) = E_calls m (K_env kw)).
    { intro m. apply E_calls_ext. intros p Hp. unfold SkelPrims_Options.K_env. fold eo. vm_compute in Hp.
      destruct Hp as [<-|[<-|[<-|[]]]]; cbn [Options.kget String.eqb Ascii.eqb Bool.eqb]; rewrite kget_app.
      - destruct (kget "interp_method" eo); reflexivity.
      - rewrite Hno. reflexivity.
      - destruct (kget "ret_extrema" eo); reflexivity. }
    rewrite !E. reflexivity.
  Qed.

  (* ---- interp_envelope: `if not extrema_opts: extrema_opts = {literal} else: extrema_opts = extrema_opts.copy()`;
          get_padded_extrema(X, mode='peaks' | 'troughs' | 'abs_peaks', **extrema_opts) under mode == 'upper' | 'lower' | 'combined' *)

  Lemma arg_bound_E : forall kw, kval "extrema_opts" (bind_params E_PARAMS kw) = arg "interp_envelope" kw "extrema_opts".
  Proof. intro kw. reflexivity. Qed.

  Theorem tie_interp_envelope : forall kw,
    bound_sites "interp_envelope" kw prog_interp_envelope params_interp_envelope
    = [("get_padded_extrema", Some (K_ext kw)); ("get_padded_extrema", Some (K_ext kw)); ("get_padded_extrema", Some (K_ext kw))]
    /\ map (fun s => (guard_mode s, site_mode emode_of_ext s)) (sites_of prog_interp_envelope params_interp_envelope)
       = [(Some Upper, Some Upper); (Some Lower, Some Lower); (Some Combined, Some Combined)]
    /\ forall m, E_calls m kw = {| c_stage := SE m; c_kw := bind_params E_PARAMS kw |} :: P_call m (K_ext kw).
  Proof.
    intros kw. split; [vm_compute; reflexivity|]. split; [vm_compute; reflexivity|].
    intro m. unfold Options.E_calls. rewrite arg_bound_E. unfold SkelPrims_Options.K_ext. rewrite P_call_X_mode. reflexivity.
  Qed.

  (* ---- get_padded_extrema: `if not loc_pad_opts: loc_pad_opts = {literal} else: .copy()`, the same for mag_pad_opts;
          np.pad(.., **loc_pad_opts) / np.pad(.., **mag_pad_opts), before and inside the padding loop.
          ([effective] applies these two fall-backs to what a recorded get_padded_extrema call was bound to.) *)
  Theorem tie_get_padded_extrema : forall kw,
    map (fun s => (s_callee s, den_kws V vfalsy inj "get_padded_extrema" kw (s_kw s)))
        (sites_of prog_get_padded_extrema params_get_padded_extrema)
    = let loc := Some (dict_kids (fallback "get_padded_extrema" "loc_pad_opts" (arg "get_padded_extrema" kw "loc_pad_opts"))) in
      let mag := Some (dict_kids (fallback "get_padded_extrema" "mag_pad_opts" (arg "get_padded_extrema" kw "mag_pad_opts"))) in
      [("np.pad", loc); ("np.pad", mag); ("np.pad", loc); ("np.pad", mag)].
  Proof. intros kw. vm_compute. reflexivity. Qed.

  Theorem effective_is_padded_extrema_fallbacks : forall m xo p,
    In p ["loc_pad_opts"; "mag_pad_opts"] ->
    kget p (effective V vfalsy inj {| c_stage := SP m; c_kw := bind_params P_PARAMS xo |})
    = Some (fallback "get_padded_extrema" p (arg "get_padded_extrema" xo p)).
  Proof.
    intros m xo p Hp. destruct Hp as [<-|[<-|[]]]; reflexivity.
  Qed.
End Facts.
